// Package c08 decides C08: arrays.Array2D behaves as width x height independent
// cells for every shape.
//
// Files: c08_test.go   the case format, the generic executor/oracle (runT), C08.enum and C08.rand
//
//	types_test.go    element types with special characteristics, C08.types, huge zero-size grids (C08.huge)
//	big_test.go      C08.big: grids and rectangles around every power of two up to 2^17 (2^20) cells, GOMAXPROCS varied
//	extreme_test.go  C08.extreme: coordinates at the top/bottom of the int range, overflowing flat indices
//	views_test.go    jagged inputs whose rows are views of one shared buffer / of another Array2D, rows with spare
//	                 capacity (buildJagged), C08.views
//	par_test.go      the row-wise executor for very large grids (runLean), C08.par: 2^18 .. 2^26 (2^27) cells with
//	                 GOMAXPROCS 1, 2, 3, 5, 6, 7, 16
//	many_test.go     C08.many: scripts repeated more than 2^16 times on one or two small arrays; C08.wrap32
//	                 (thorough only): one cheap call repeated more than 2^32 times
//	text_test.go     C08.text: String() results of exactly 2^k - 1, 2^k, 2^k + 1 bytes kept over later calls;
//	                 C08.indep: independent arrays printed by many goroutines in parallel
package c08

import (
	"fmt"
	"os"
	"runtime"
	"strconv"
	"strings"
	"sync"
	"sync/atomic"
	"testing"

	"gopkg.in/typ.v4/arrays"
	"pgregory.net/rapid"
	"verifharness/internal/pbt"
)

// Case is a constructor call followed by an operation script on one array.
// Every script is executable whatever the numbers are: a coordinate outside
// the bounds is a legal case whose expected result is a panic that leaves the
// array unchanged.
type Case struct {
	W    int   `json:"w"`
	H    int   `json:"h"`
	Ctor int   `json:"ctor"` // 0 New2D, 1 New2DFilled, 2 New2DFromJagged
	Jag  []int `json:"jag"`  // ctor 2: length of each jagged row, -1 = nil row; values are jagCode(row,col)
	Ops  []Op  `json:"ops"`
	// T names the element type ("" = int, see types_test.go). Values are addressed by an int code:
	// code >= 0 is an ordinary value (different codes give distinguishable values unless the type has
	// too few), code -1 is the zero value of the type, -2, -3, ... its other special values (-0.0, NaN,
	// nil, empty non-nil slice, MaxInt, ...), cyclically.
	T string `json:"t,omitempty"`
	// FillV is the code of the value given to New2DFilled; 0 = the ordinary value 7.
	FillV int `json:"fillv,omitempty"`
	// ctor 2: when JagN > len(Jag) the list Jag is continued cyclically up to JagN rows (so tall inputs stay
	// short in the case file); then row JagSet[i][0], if there is one, gets the length JagSet[i][1].
	JagN   int      `json:"jagn,omitempty"`
	JagSet [][2]int `json:"jagset,omitempty"`
	// ctor 2 without View: every row is allocated with this much spare capacity, and the spare part holds other values.
	Spare int `json:"spare,omitempty"`
	// ctor 2: the jagged rows are views of ONE shared buffer (see views_test.go).
	View *View `json:"view,omitempty"`
	// Two: a second, independent array lives next to the first; OpSwitch moves the script from one to the other.
	// Whatever is done to one of them must leave the other (and its windows, clones, String results) alone.
	Two *Second `json:"two,omitempty"`
	// Loop: the script is run Loop+1 times in a row (values stay fresh), e.g. 2^16 + a few times.
	Loop int `json:"loop,omitempty"`
	// Procs > 0: the case runs with runtime.GOMAXPROCS(Procs) (restored afterwards).
	Procs int `json:"procs,omitempty"`
	// Lean: the case is executed by the row-wise executor for very large grids (par_test.go).
	Lean bool `json:"lean,omitempty"`
	// Hist: special histories on small arrays (hist_test.go).
	Hist *Hist `json:"hist,omitempty"`
	// Flip: while the case runs another goroutine flips runtime.GOMAXPROCS between 2 and 7.
	Flip bool `json:"flip,omitempty"`
	// Text: cases about String() results of exact lengths and about independent arrays printed in parallel (text_test.go).
	Text *Text `json:"text,omitempty"`
}

// Second describes the second array of a case.
type Second struct {
	W int `json:"w"`
	H int `json:"h"`
	// 0 New2D, 1 New2DFilled, 2 New2DFromJagged(W, H, [first.Row(0), first.Row(1), ...]): the live windows of
	// the first array are the jagged input, so the second array starts as a copy of the common part.
	Ctor  int `json:"ctor"`
	FillV int `json:"fillv,omitempty"`
}

// Op kinds.
const (
	OpSet     = iota // Set(X1,Y1, value)
	OpGet            // Get(X1,Y1)
	OpRow            // Row(Y1): contents, write-through, Set seen through the slice; the slice is kept and re-checked after every later operation
	OpRowSpan        // RowSpan(X1,X2,Y1) (X1,X2 are swapped if both are in bounds and X1 > X2: the documented domain is x1 <= x2)
	OpFill           // Fill(X1,Y1,X2,Y2, value), corners in any order
	OpClone          // Clone; B even: keep working on the original, the clone becomes a frozen witness; B odd: the other way round
	OpString         // String
	OpDims           // Width, Height
	OpSwitch         // continue on the other array of the case (Case.Two); nothing happens when there is none
	OpGC             // runtime.GC() in the middle of the history
	nOps
)

var opName = [nOps]string{"Set", "Get", "Row", "RowSpan", "Fill", "Clone", "String", "Dims", "Switch", "GC"}

type Op struct {
	K  int `json:"k"`
	X1 int `json:"x1"`
	Y1 int `json:"y1"`
	X2 int `json:"x2"`
	Y2 int `json:"y2"`
	B  int `json:"b"`
	V  int `json:"v,omitempty"` // Set, Fill: 0 = a fresh unique value, < 0 = that special value of the element type
}

const rule = "case = shape (w,h >= 0), element type, constructor (New2D / New2DFilled with an ordinary or a special value such as the zero value / " +
	"New2DFromJagged with rows shorter, longer, more, fewer, nil - separately allocated, optionally with spare capacity holding other values, or VIEWS OF ONE SHARED BUFFER " +
	"(sub-slices of a flat slice or Row/RowSpan windows of another Array2D, in order, exchanged, repeated, overlapping, shifted); the jagged input is overwritten by the caller afterwards), " +
	"optionally a SECOND live array of another or the same shape (New2D / New2DFilled / New2DFromJagged from the Row windows of the first), optionally runtime.GOMAXPROCS(n) for the case, " +
	"then a script (optionally repeated) of Set/Get/Row/RowSpan/Fill/Clone/String/Width+Height/switch-to-the-other-array/runtime.GC() with coordinates inside and outside the bounds; oracle = " +
	"flat cell model with a fresh unique value per write (or a special value of the element type: zero value, -0.0, nil, ...); " +
	"after the constructor and after EVERY operation Get over the whole grid - of the array worked on AND of the other array - " +
	"must equal the model (so a write that aliases another cell or another array, or a panic that altered the array, is seen at once); out-of-bounds " +
	"coordinate => must panic and leave the grid unchanged; Row/RowSpan: length, contents, every element written through the slice " +
	"(then whole grid compared), then every cell of the window Set and seen through the slice, and the last three returned slices are " +
	"kept and must stay live windows after every later operation; Fill = inclusive rectangle whichever " +
	"corners; Clone: the side not worked on is a frozen witness compared cell by cell after every later mutation; String == model " +
	"rendered [[a b] [c d]] (cells as fmt.Sprint) at the end of every case of at most 1024 cells (and wherever the script has a String operation), and the last two strings returned " +
	"are kept and must still read the same after every later operation. non-trivial = w != h, both >= 2, " +
	"and at least one successful write in the last row and one in the last column of the first array. In every unit but C08.par one case in eight (C08.rand, C08.types, C08.big, C08.many, C08.text: in sixteen) is afterwards run again as 4 independent copies in parallel goroutines (each copy on arrays of its own): all copies must pass"

// maxCells bounds the grids the executor accepts (the whole grid is read back after every operation).
const maxCells = 1 << 22

// stringCells: the closing String comparison is done for grids up to this many cells (larger ones only by an explicit String op).
const stringCells = 1 << 10

// desc describes one element type.
type desc[T any] struct {
	name     string
	val      func(code int) T                             // see Case.T
	eq       func(a, b T) bool                            // "the same value came back" (bit patterns for floats, identity for slices, maps, pointers)
	nspecial int                                          // number of special values (codes -1 .. -nspecial)
	zeroSize bool                                         // all values are indistinguishable
	jag      func(w, h int, rows [][]T) arrays.Array2D[T] // nil = arrays.New2DFromJagged(w, h, rows)
}

type model[T any] struct {
	w, h  int
	cells []T
}

func (m *model[T]) clone() *model[T] {
	return &model[T]{w: m.w, h: m.h, cells: append([]T(nil), m.cells...)}
}
func (m *model[T]) inX(x int) bool { return x >= 0 && x < m.w }
func (m *model[T]) inY(y int) bool { return y >= 0 && y < m.h }
func (m *model[T]) String() string {
	var sb strings.Builder
	sb.WriteByte('[')
	for y := 0; y < m.h; y++ {
		if y > 0 {
			sb.WriteByte(' ')
		}
		sb.WriteByte('[')
		for x := 0; x < m.w; x++ {
			if x > 0 {
				sb.WriteByte(' ')
			}
			if iv, ok := any(m.cells[y*m.w+x]).(int); ok {
				sb.WriteString(strconv.Itoa(iv))
			} else {
				fmt.Fprint(&sb, m.cells[y*m.w+x])
			}
		}
		sb.WriteByte(']')
	}
	sb.WriteByte(']')
	return sb.String()
}

// try runs f and returns the recovered panic value (nil if none).
func try(f func()) (p any) {
	defer func() { p = recover() }()
	f()
	return nil
}

// diff compares Get over the whole grid with the model; "" if equal.
func diff[T any](a arrays.Array2D[T], m *model[T], d *desc[T]) (msg string) {
	x, y := 0, 0
	p := try(func() {
		if ai, ok := any(a).(arrays.Array2D[int]); ok { // same loop without the indirect call
			cells := any(m).(*model[int]).cells
			for y = 0; y < m.h; y++ {
				for x = 0; x < m.w; x++ {
					if got := ai.Get(x, y); got != cells[y*m.w+x] {
						msg = fmt.Sprintf("Get(%d,%d) = %v, want %v", x, y, got, cells[y*m.w+x])
						return
					}
				}
			}
			return
		}
		if ab, ok := any(a).(arrays.Array2D[uint8]); ok { // likewise (the large grids of C08.par have 1-byte cells)
			cells := any(m).(*model[uint8]).cells
			for y = 0; y < m.h; y++ {
				for x = 0; x < m.w; x++ {
					if got := ab.Get(x, y); got != cells[y*m.w+x] {
						msg = fmt.Sprintf("Get(%d,%d) = %v, want %v", x, y, got, cells[y*m.w+x])
						return
					}
				}
			}
			return
		}
		for y = 0; y < m.h; y++ {
			for x = 0; x < m.w; x++ {
				if got := a.Get(x, y); !d.eq(got, m.cells[y*m.w+x]) {
					msg = fmt.Sprintf("Get(%d,%d) = %v, want %v", x, y, got, m.cells[y*m.w+x])
					return
				}
			}
		}
	})
	if p != nil {
		return fmt.Sprintf("Get(%d,%d) (inside the bounds) panicked: %v", x, y, p)
	}
	return msg
}

type witness[T any] struct {
	a    arrays.Array2D[T]
	m    *model[T]
	step int
	orig bool   // the original is the witness, the script continued on the clone
	pfx  string // "B." for the second array of the case
}

func (w witness[T]) what() string {
	if w.orig {
		return fmt.Sprintf("original (cloned by %sClone() at step %d, script continued on the clone)", w.pfx, w.step)
	}
	return fmt.Sprintf("clone taken by %sClone() at step %d", w.pfx, w.step)
}

// kept is a slice returned earlier by Row/RowSpan; it must remain a live window of the array it was taken from.
type kept[T any] struct {
	win       []T
	m         *model[T]
	x1, x2, y int
	row       bool
	step      int
	pfx       string
}

func (k kept[T]) what() string {
	if k.row {
		return fmt.Sprintf("%sRow(%d) at step %d", k.pfx, k.y, k.step)
	}
	return fmt.Sprintf("%sRowSpan(%d,%d,%d) at step %d", k.pfx, k.x1, k.x2, k.y, k.step)
}

// jagCode is the value code of element col of jagged row r.
func jagCode(r, c int) int { return 2_000_000_000 + 1_000_003*r + c }

// runners maps Case.T to the executor instantiated for that element type.
var runners = map[string]func(Case) pbt.Outcome{}

// leanRunners maps Case.T to the row-wise executor for very large grids (Case.Lean).
var leanRunners = map[string]func(Case) pbt.Outcome{}

// nspecials maps Case.T to the number of special values of the type.
var nspecials = map[string]int{}

// typeOrder lists the registered element types in a fixed order ("" = int first).
var typeOrder []string

func regType[T any](name string, mk func() *desc[T]) {
	if _, dup := runners[name]; dup {
		panic("c08: duplicate element type " + name)
	}
	runners[name] = func(c Case) pbt.Outcome { return runT(c, mk()) }
	leanRunners[name] = func(c Case) pbt.Outcome { return runLean(c, mk()) }
	nspecials[name] = mk().nspecial
	typeOrder = append(typeOrder, name)
}

// setProcs sets runtime.GOMAXPROCS(n) for the running case and returns the function that restores it. Parallel
// independent copies of one case (Spec.Replicas) all ask for the same n: the first one in remembers the old
// value, the last one out restores it.
var procsState struct {
	sync.Mutex
	users, old int
}

func setProcs(n int) func() {
	procsState.Lock()
	defer procsState.Unlock()
	old := runtime.GOMAXPROCS(n)
	if procsState.users == 0 {
		procsState.old = old
	}
	procsState.users++
	return func() {
		procsState.Lock()
		defer procsState.Unlock()
		if procsState.users--; procsState.users == 0 {
			runtime.GOMAXPROCS(procsState.old)
		}
	}
}

// flipProcs starts a goroutine that flips runtime.GOMAXPROCS between 2 and 7 until the returned function is
// called (which waits for it and restores the value found at the start).
func flipProcs() func() {
	old := runtime.GOMAXPROCS(0)
	var stop atomic.Bool
	done := make(chan struct{})
	go func() {
		defer close(done)
		for i := 0; !stop.Load(); i++ {
			runtime.GOMAXPROCS(2 + 5*(i%2))
			for j := 0; j < 50 && !stop.Load(); j++ {
				runtime.Gosched()
			}
		}
	}()
	return func() {
		stop.Store(true)
		<-done
		runtime.GOMAXPROCS(old)
	}
}

// Run executes one case on the element type it names.
func Run(c Case) pbt.Outcome {
	r, ok := runners[c.T]
	if c.Lean {
		r, ok = leanRunners[c.T]
	}
	if !ok {
		return pbt.Outcome{Skipped: true}
	}
	if c.Procs > 0 && c.Procs <= 256 {
		defer setProcs(c.Procs)()
	}
	if c.Flip {
		defer flipProcs()()
	}
	out := r(c)
	if c.Flip {
		out.Labels = append(out.Labels, "GOMAXPROCS-flipped-between-2-and-7-by-another-goroutine-meanwhile")
	}
	if c.Procs > 0 && c.Procs <= 256 {
		out.Labels = append(out.Labels, "GOMAXPROCS:"+strconv.Itoa(c.Procs))
	}
	return out
}

// side is an array of the case the script is currently NOT working on.
type side[T any] struct {
	a     arrays.Array2D[T]
	m     *model[T]
	w, h  int
	shape string
	pfx   string
}

// keptStr is a result of String that the caller still holds.
type keptStr struct {
	s, want string
	what    string
}

func runT[T any](c Case, d *desc[T]) pbt.Outcome {
	out := pbt.Outcome{}
	w, h := c.W, c.H
	if w < 0 || h < 0 || w > maxCells || h > maxCells || w*h > maxCells {
		out.Skipped = true
		return out
	}
	if t := c.Two; t != nil && (t.W < 0 || t.H < 0 || t.W > maxCells || t.H > maxCells || t.W*t.H > maxCells) {
		out.Skipped = true
		return out
	}
	lab := func(l string) { out.Labels = append(out.Labels, l) }
	shape := fmt.Sprintf("%dx%d", w, h)
	if d.name != "" {
		shape += " " + d.name
		lab("type:" + d.name)
	} else {
		lab("type:int")
	}
	m := &model[T]{w: w, h: h, cells: make([]T, w*h)}
	var a arrays.Array2D[T]
	var ctor string
	var p any
	var jin *jagInput[T]
	switch mod(c.Ctor, 3) {
	case 0:
		ctor = fmt.Sprintf("New2D(%d,%d)", w, h)
		p = try(func() { a = arrays.New2D[T](w, h) })
		lab("ctor:New2D")
	case 1:
		code := c.FillV
		if code == 0 {
			code = 7
		}
		v := d.val(code)
		ctor = fmt.Sprintf("New2DFilled(%d,%d,%s)", w, h, valName(code, v))
		for i := range m.cells {
			m.cells[i] = v
		}
		p = try(func() { a = arrays.New2DFilled(w, h, v) })
		switch {
		case code >= 0:
			lab("ctor:New2DFilled")
		case d.nspecial > 0 && mod(-code-1, d.nspecial) == 0:
			lab("ctor:New2DFilled(zero value)")
		default:
			lab("ctor:New2DFilled(special value)")
		}
	case 2:
		jin = buildJagged(c, w, h, d.val, m, 2*maxCells)
		if jin == nil {
			out.Skipped = true
			return out
		}
		ctor = fmt.Sprintf("New2DFromJagged(%d,%d, %s)", w, h, jin.text)
		p = try(func() {
			if d.jag != nil {
				a = d.jag(w, h, jin.rows)
			} else {
				a = arrays.New2DFromJagged(w, h, jin.rows)
			}
		})
		lab("ctor:New2DFromJagged")
		out.Labels = append(out.Labels, jin.labels...)
	}
	if p != nil {
		return pbt.Fail("%s (element type %s) panicked: %v", ctor, typeName(d), p)
	}
	if a.Width() != w || a.Height() != h {
		return pbt.Fail("%s: Width,Height = %d,%d", ctor, a.Width(), a.Height())
	}
	if df := diff(a, m, d); df != "" {
		return pbt.Fail("%s (element type %s): %s", ctor, typeName(d), df)
	}
	if jin != nil {
		// the array has its own cells: the caller may reuse the jagged input
		if jin.overwrite(d.val) > 0 {
			if df := diff(a, m, d); df != "" {
				return pbt.Fail("%s (element type %s), then the caller overwrote the jagged input: the array changed: %s", ctor, typeName(d), df)
			}
			lab("jag:input-overwritten-afterwards")
		}
	}
	out.Evals = 1
	switch {
	case w == 0 || h == 0:
		lab("shape:zero-dim")
	case w == h:
		lab("shape:square")
	case w > h:
		lab("shape:wide(w>h)")
	default:
		lab("shape:tall(h>w)")
	}
	switch n := w * h; {
	case n <= 64:
		lab("cells:<=64")
	case n <= 1024:
		lab("cells:65..1024")
	case n <= 4096:
		lab("cells:1025..4096")
	case n <= 65536:
		lab("cells:4097..65536")
	default:
		lab("cells:>65536")
	}

	next := 1000
	fresh := func() int { next++; return next }

	// the second array of the case
	var other *side[T]
	pfx := "" // prefix of the calls in messages: "" = first array, "B." = second array
	onFirst := true
	if t := c.Two; t != nil {
		o := &side[T]{w: t.W, h: t.H, pfx: "B.", m: &model[T]{w: t.W, h: t.H, cells: make([]T, t.W*t.H)}}
		o.shape = fmt.Sprintf("%dx%d (B, the second array of the case)", t.W, t.H)
		var ctor2 string
		var p any
		switch mod(t.Ctor, 3) {
		case 0:
			ctor2 = fmt.Sprintf("New2D(%d,%d)", t.W, t.H)
			p = try(func() { o.a = arrays.New2D[T](t.W, t.H) })
			lab("two:New2D")
		case 1:
			code := t.FillV
			if code == 0 {
				code = 9
			}
			v := d.val(code)
			ctor2 = fmt.Sprintf("New2DFilled(%d,%d,%s)", t.W, t.H, valName(code, v))
			for i := range o.m.cells {
				o.m.cells[i] = v
			}
			p = try(func() { o.a = arrays.New2DFilled(t.W, t.H, v) })
			lab("two:New2DFilled")
		case 2:
			ctor2 = fmt.Sprintf("New2DFromJagged(%d,%d, the rows Row(0..%d) of the first array)", t.W, t.H, h-1)
			rows := make([][]T, h)
			for y := range rows {
				rows[y] = a.Row(y)
				if y < t.H {
					copy(o.m.cells[y*t.W:(y+1)*t.W], m.cells[y*w:(y+1)*w])
				}
			}
			p = try(func() {
				if d.jag != nil {
					o.a = d.jag(t.W, t.H, rows)
				} else {
					o.a = arrays.New2DFromJagged(t.W, t.H, rows)
				}
			})
			lab("two:New2DFromJagged(rows of the first array)")
		}
		ctor += "; B = " + ctor2
		if p != nil {
			return pbt.Fail("%s (element type %s): the constructor of B panicked: %v", ctor, typeName(d), p)
		}
		if o.a.Width() != t.W || o.a.Height() != t.H {
			return pbt.Fail("%s: B has Width,Height = %d,%d", ctor, o.a.Width(), o.a.Height())
		}
		if df := diff(o.a, o.m, d); df != "" {
			return pbt.Fail("%s (element type %s): B: %s", ctor, typeName(d), df)
		}
		if df := diff(a, m, d); df != "" {
			return pbt.Fail("%s (element type %s): building B changed the first array: %s", ctor, typeName(d), df)
		}
		other = o
		switch {
		case t.W == w && t.H == h:
			lab("two:same-shape")
		case t.W*t.H == w*h:
			lab("two:same-cell-count,other-shape")
		default:
			lab("two:other-cell-count")
		}
	}

	// value of a Set/Fill: fresh unless the op asks for a special value
	opValue := func(op Op) (T, int) {
		code := op.V
		if code >= 0 || d.nspecial == 0 {
			code = fresh()
		} else {
			lab(opName[mod(op.K, int(nOps))] + ":special-value")
		}
		return d.val(code), code
	}
	lastRow, lastCol := false, false
	wrote := func(x1, y1, x2, y2 int) { // inclusive, sorted
		if !onFirst {
			return
		}
		if y2 == h-1 {
			lastRow = true
		}
		if x2 == w-1 {
			lastCol = true
		}
	}
	var wits []witness[T]
	var keeps []kept[T]
	var strs []keptStr
	// the history is rendered only when a message needs it
	var calls []func() string
	history := func() string {
		hs := ctor + ";"
		for _, f := range calls {
			if len(hs) >= 500 {
				return hs + " ..."
			}
			hs += " " + f() + ";"
		}
		return hs
	}
	// verify is called after every operation
	verify := func(step int, callf func() string) string {
		if df := diff(a, m, d); df != "" {
			return fmt.Sprintf("%s array, step %d, after %s: %s; history: %s", shape, step, callf(), df, history())
		}
		if other != nil {
			if df := diff(other.a, other.m, d); df != "" {
				return fmt.Sprintf("%s array, step %d, after %s: the OTHER array of the case (%s), which the call does not concern, changed: %s; history: %s",
					shape, step, callf(), other.shape, df, history())
			}
		}
		for _, wt := range wits {
			if df := diff(wt.a, wt.m, d); df != "" {
				return fmt.Sprintf("%s array, step %d, after %s on the other side: the %s changed: %s; history: %s", shape, step, callf(), wt.what(), df, history())
			}
		}
		for _, k := range keeps {
			for i := range k.win {
				if !d.eq(k.win[i], k.m.cells[k.y*k.m.w+k.x1+i]) {
					return fmt.Sprintf("%s array, step %d, after %s: the slice returned earlier by %s is no longer a live window: slice[%d] = %v, cell (%d,%d) = %v; history: %s",
						shape, step, callf(), k.what(), i, k.win[i], k.x1+i, k.y, k.m.cells[k.y*k.m.w+k.x1+i], history())
				}
			}
		}
		for _, ks := range strs {
			if ks.s != ks.want {
				return fmt.Sprintf("%s array, step %d, after %s: the string returned earlier by %s has changed: it was %s and now reads %s; history: %s",
					shape, step, callf(), ks.what, clip(ks.want), clip(ks.s), history())
			}
		}
		return ""
	}
	keepStr := func(s, want, what string) {
		if len(strs) >= 2 {
			strs = strs[1:]
		}
		strs = append(strs, keptStr{s: s, want: want, what: what})
	}

	loops := c.Loop
	if loops < 0 {
		loops = 0
	}
	if loops > 1<<20 {
		loops = 1 << 20
	}
	if loops > 0 && len(c.Ops) > 0 {
		switch n := (loops + 1) * len(c.Ops); {
		case loops >= 1<<16:
			lab("loop:script-run-more-than-2^16-times")
		case n > 1<<16:
			lab("loop:more-than-2^16-calls")
		default:
			lab("loop:<=2^16-calls")
		}
	}
	step := -1
	for it := 0; it <= loops; it++ {
		for _, op := range c.Ops {
			step++
			k := mod(op.K, int(nOps))
			var callf0 func() string // built only when a message or the history needs it
			pf := pfx
			callf := func() string { return pf + callf0() }
			fail := func(format string, args ...any) pbt.Outcome {
				return pbt.Fail("%s array, step %d, %s: %s; history: %s", shape, step, callf(), fmt.Sprintf(format, args...), history())
			}
			switch k {
			case OpSet:
				x, y := op.X1, op.Y1
				v, code := opValue(op)
				callf0 = func() string { return fmt.Sprintf("Set(%d,%d,%s)", x, y, valName(code, v)) }
				p := try(func() { a.Set(x, y, v) })
				if m.inX(x) && m.inY(y) {
					if p != nil {
						return fail("panicked inside the bounds: %v", p)
					}
					m.cells[y*w+x] = v
					wrote(x, y, x, y)
					lab("Set:in")
				} else {
					if p == nil {
						return fail("did not panic although the coordinate is outside the bounds")
					}
					oobLabels(&out, "Set", w, h, []int{x}, []int{y})
				}
			case OpGet:
				x, y := op.X1, op.Y1
				callf0 = func() string { return fmt.Sprintf("Get(%d,%d)", x, y) }
				var got T
				p := try(func() { got = a.Get(x, y) })
				if m.inX(x) && m.inY(y) {
					if p != nil {
						return fail("panicked inside the bounds: %v", p)
					}
					if !d.eq(got, m.cells[y*w+x]) {
						return fail("= %v, want %v", got, m.cells[y*w+x])
					}
					lab("Get:in")
				} else {
					if p == nil {
						return fail("did not panic although the coordinate is outside the bounds (returned %v)", got)
					}
					oobLabels(&out, "Get", w, h, []int{x}, []int{y})
				}
			case OpRow, OpRowSpan:
				y := op.Y1
				x1, x2 := 0, w-1
				var win []T
				var p any
				valid := m.inY(y)
				if k == OpRow {
					callf0 = func() string { return fmt.Sprintf("Row(%d)", y) }
					p = try(func() { win = a.Row(y) })
				} else {
					x1, x2 = op.X1, op.X2
					if m.inX(x1) && m.inX(x2) && x1 > x2 {
						x1, x2 = x2, x1
					}
					valid = valid && m.inX(x1) && m.inX(x2)
					callf0 = func() string { return fmt.Sprintf("RowSpan(%d,%d,%d)", x1, x2, y) }
					p = try(func() { win = a.RowSpan(x1, x2, y) })
				}
				if !valid {
					if p == nil {
						return fail("did not panic although a coordinate is outside the bounds (returned a slice of length %d)", len(win))
					}
					if k == OpRow {
						oobLabels(&out, "Row", w, h, nil, []int{y})
					} else {
						oobLabels(&out, "RowSpan", w, h, []int{op.X1, op.X2}, []int{y})
					}
					break
				}
				if p != nil {
					return fail("panicked inside the bounds: %v", p)
				}
				if len(win) != x2-x1+1 {
					return fail("returned a slice of length %d, want %d", len(win), x2-x1+1)
				}
				for i := range win {
					if !d.eq(win[i], m.cells[y*w+x1+i]) {
						return fail("slice[%d] = %v, want cell (%d,%d) = %v", i, win[i], x1+i, y, m.cells[y*w+x1+i])
					}
				}
				// write through every element of the window: exactly those cells change
				for i := range win {
					v := d.val(fresh())
					win[i] = v
					m.cells[y*w+x1+i] = v
				}
				if len(win) > 0 {
					wrote(x1, y, x2, y)
				}
				if df := verify(step, func() string { return callf() + " and writing every element of the returned slice" }); df != "" {
					return pbt.Fail("%s", df)
				}
				// Set on the array is seen through the slice
				for i := range win {
					code := fresh()
					v := d.val(code)
					if p := try(func() { a.Set(x1+i, y, v) }); p != nil {
						return fail("then Set(%d,%d,%s) panicked inside the bounds: %v", x1+i, y, valName(code, v), p)
					}
					m.cells[y*w+x1+i] = v
					if !d.eq(win[i], v) {
						return fail("slice is not a live window: after Set(%d,%d,%s) slice[%d] = %v", x1+i, y, valName(code, v), i, win[i])
					}
				}
				if len(win) > 0 {
					if len(keeps) >= 3 {
						keeps = keeps[1:]
					}
					keeps = append(keeps, kept[T]{win: win, m: m, x1: x1, y: y, row: k == OpRow, x2: x2, step: step, pfx: pfx})
					lab("window:kept-and-rechecked-later")
				}
				switch {
				case k == OpRow:
					lab("Row:in")
				case x1 == 0 && x2 == w-1:
					lab("RowSpan:whole-row")
				case x1 == x2:
					lab("RowSpan:single-cell")
				default:
					lab("RowSpan:partial")
				}
			case OpFill:
				x1, y1, x2, y2 := op.X1, op.Y1, op.X2, op.Y2
				v, code := opValue(op)
				fx1, fy1, fx2, fy2 := x1, y1, x2, y2
				callf0 = func() string { return fmt.Sprintf("Fill(%d,%d,%d,%d,%s)", fx1, fy1, fx2, fy2, valName(code, v)) }
				p := try(func() { a.Fill(x1, y1, x2, y2, v) })
				if m.inX(x1) && m.inX(x2) && m.inY(y1) && m.inY(y2) {
					if p != nil {
						return fail("panicked although all corners are inside the bounds: %v", p)
					}
					switch {
					case x1 > x2 && y1 > y2:
						lab("Fill:both-swapped")
					case x1 > x2:
						lab("Fill:x-swapped")
					case y1 > y2:
						lab("Fill:y-swapped")
					default:
						lab("Fill:sorted")
					}
					if x1 > x2 {
						x1, x2 = x2, x1
					}
					if y1 > y2 {
						y1, y2 = y2, y1
					}
					for y := y1; y <= y2; y++ {
						for x := x1; x <= x2; x++ {
							m.cells[y*w+x] = v
						}
					}
					wrote(x1, y1, x2, y2)
					switch {
					case x1 == x2 && y1 == y2:
						lab("Fill:single-cell")
					case x1 == 0 && y1 == 0 && x2 == w-1 && y2 == h-1:
						lab("Fill:whole-grid")
					case y1 == y2:
						lab("Fill:one-row")
					case x1 == x2:
						lab("Fill:one-column")
					default:
						lab("Fill:proper-rectangle")
					}
					switch n := x2 - x1 + 1; {
					case n > 4096:
						lab("Fill:row-width>4096")
					case n > 256:
						lab("Fill:row-width 257..4096")
					case n > 32:
						lab("Fill:row-width 33..256")
					}
				} else {
					if p == nil {
						return fail("did not panic although a corner is outside the bounds")
					}
					oobLabels(&out, "Fill", w, h, []int{x1, x2}, []int{y1, y2})
				}
			case OpClone:
				callf0 = func() string { return "Clone()" }
				var cl arrays.Array2D[T]
				if p := try(func() { cl = a.Clone() }); p != nil {
					return fail("panicked: %v", p)
				}
				if cl.Width() != w || cl.Height() != h {
					return fail("clone has Width,Height = %d,%d", cl.Width(), cl.Height())
				}
				if df := diff(cl, m, d); df != "" {
					return fail("clone differs from the original: %s", df)
				}
				if len(wits) >= 2 {
					wits = wits[1:]
				}
				if mod(op.B, 2) == 0 {
					wits = append(wits, witness[T]{a: cl, m: m.clone(), step: step, pfx: pfx})
					lab("Clone:continue-on-original")
				} else {
					wm := m.clone()
					wits = append(wits, witness[T]{a: a, m: wm, step: step, orig: true, pfx: pfx})
					// slices taken from the original stay windows of the original
					for i := range keeps {
						if keeps[i].m == m {
							keeps[i].m = wm
						}
					}
					a = cl
					lab("Clone:continue-on-clone")
				}
			case OpString:
				callf0 = func() string { return "String()" }
				var s string
				if p := try(func() { s = a.String() }); p != nil {
					return fail("panicked: %v", p)
				}
				want := m.String()
				if s != want {
					return fail("= %s, want %s", clip(s), clip(want))
				}
				keepStr(s, want, fmt.Sprintf("%sString() at step %d", pfx, step))
				lab("String")
			case OpDims:
				callf0 = func() string { return "Width(),Height()" }
				if a.Width() != w || a.Height() != h {
					return fail("= %d,%d", a.Width(), a.Height())
				}
				lab("Dims")
			case OpSwitch:
				if other == nil {
					callf0 = func() string { return "(no second array to switch to)" }
					lab("Switch:no-second-array")
					break
				}
				callf0 = func() string { return "(the script moves to the other array)" }
				o := &side[T]{a: a, m: m, w: w, h: h, shape: shape, pfx: pfx}
				a, m, w, h, shape, pfx = other.a, other.m, other.w, other.h, other.shape, other.pfx
				other = o
				onFirst = !onFirst
				lab("Switch")
			case OpGC:
				callf0 = func() string { return "runtime.GC()" }
				runtime.GC()
				lab("GC")
			}
			out.Evals++
			if df := verify(step, callf); df != "" {
				return pbt.Fail("%s", df)
			}
			if len(calls) < 40 {
				calls = append(calls, callf)
			}
		}
	}
	// end of case: String and dimensions agree with the model, on both arrays
	endf := func() string { return "the end of the script" }
	for i := 0; i < 2; i++ {
		if w*h <= stringCells {
			var s string
			if p := try(func() { s = a.String() }); p != nil {
				return pbt.Fail("%s array: %sString() panicked: %v; history: %s", shape, pfx, p, history())
			}
			want := m.String()
			if s != want {
				return pbt.Fail("%s array: %sString() = %s, want %s; history: %s", shape, pfx, clip(s), clip(want), history())
			}
			keepStr(s, want, pfx+"String() at the end of the script")
		}
		if a.Width() != w || a.Height() != h {
			return pbt.Fail("%s array: Width,Height = %d,%d at the end; history: %s", shape, a.Width(), a.Height(), history())
		}
		if other == nil {
			break
		}
		o := &side[T]{a: a, m: m, w: w, h: h, shape: shape, pfx: pfx}
		a, m, w, h, shape, pfx = other.a, other.m, other.w, other.h, other.shape, other.pfx
		other = o
	}
	if len(strs) > 0 {
		if df := verify(step+1, endf); df != "" {
			return pbt.Fail("%s", df)
		}
	}
	w, h = c.W, c.H
	out.NonTrivial = w != h && w >= 2 && h >= 2 && lastRow && lastCol
	if w != h && w >= 2 && h >= 2 {
		switch {
		case lastRow && lastCol:
			lab("nt:rect,wrote-last-row+last-col")
		case lastRow || lastCol:
			lab("nt:rect,wrote-only-one-of-last-row/col")
		default:
			lab("nt:rect,no-edge-write")
		}
	}
	return out
}

func typeName[T any](d *desc[T]) string {
	var z T
	return fmt.Sprintf("%T", z)
}

// valName renders a value for messages.
func valName(code int, v any) string {
	s := fmt.Sprintf("%v", v)
	if len(s) > 40 {
		s = s[:40] + "..."
	}
	if code < 0 {
		return fmt.Sprintf("%s (special value #%d)", s, -code)
	}
	return s
}

// clip keeps both ends of a long String result.
func clip(s string) string {
	const n = 600
	if len(s) > n {
		return strconv.Quote(s[:n/2]) + "..." + strconv.Quote(s[len(s)-n/2:]) + fmt.Sprintf(" (%d bytes)", len(s))
	}
	return strconv.Quote(s)
}

// wrapsIntoRange reports whether the flat index x + y*stride, computed with wrapping int arithmetic as an
// implementation would, falls into [0, cells) although (x,y) is outside the bounds.
func wrapsIntoRange(x, y, stride, cells int) bool {
	i := x + y*stride
	return i >= 0 && i < cells
}

// oobLabels classifies an out-of-bounds call for the histogram.
func oobLabels(out *pbt.Outcome, name string, w, h int, xs, ys []int) {
	inX := func(x int) bool { return x >= 0 && x < w }
	inY := func(y int) bool { return y >= 0 && y < h }
	ox, oy := false, false
	for _, x := range xs {
		ox = ox || !inX(x)
	}
	for _, y := range ys {
		oy = oy || !inY(y)
	}
	edge, extreme := false, false
	const big = 1 << 31
	for _, x := range xs {
		edge = edge || x == w
		extreme = extreme || x >= big || x <= -big
	}
	for _, y := range ys {
		edge = edge || y == h
		extreme = extreme || y >= big || y <= -big
	}
	l := name + ":oob"
	switch {
	case ox && oy:
		l += "-both"
	case ox:
		l += "-x"
	default:
		l += "-y"
	}
	if edge {
		l += "(==size)"
	}
	out.Labels = append(out.Labels, l)
	if extreme {
		out.Labels = append(out.Labels, name+":oob-extreme(|coordinate|>=2^31)")
		if len(xs) == 0 {
			xs = []int{0}
		}
		wraps := false
		for _, x := range xs {
			for _, y := range ys {
				wraps = wraps || wrapsIntoRange(x, y, w, w*h)
			}
		}
		if wraps {
			out.Labels = append(out.Labels, name+":oob-extreme,overflowing-flat-index-lands-inside-the-backing-store")
		}
	}
}

func mod(a, m int) int {
	a %= m
	if a < 0 {
		a += m
	}
	return a
}

// ---------------------------------------------------------------- exhaustive unit

// scripts builds the canonical op scripts for one shape; nspecial is the number of special values of the element type.
// lite leaves out the scripts that only vary coordinates (get, fill-oob, all fill scripts but the one starting in the last row).
func scripts(w, h, nspecial int, lite, gc bool, yield func(name string, ops []Op) bool) bool {
	var setAll []Op
	for y := 0; y < h; y++ {
		for x := 0; x < w; x++ {
			setAll = append(setAll, Op{K: OpSet, X1: x, Y1: y})
		}
	}
	// set: every cell (whole grid compared after each), then the whole ring outside
	ops := append([]Op(nil), setAll...)
	for y := -2; y <= h+1; y++ {
		for x := -2; x <= w+1; x++ {
			if x < 0 || x >= w || y < 0 || y >= h {
				ops = append(ops, Op{K: OpSet, X1: x, Y1: y})
			}
		}
	}
	ops = append(ops, Op{K: OpString}, Op{K: OpDims})
	if !yield("set", ops) {
		return false
	}
	// get: every coordinate in -2..w+1 x -2..h+1 after all cells were given unique values
	ops = append([]Op(nil), setAll...)
	for y := -2; y <= h+1; y++ {
		for x := -2; x <= w+1; x++ {
			ops = append(ops, Op{K: OpGet, X1: x, Y1: y})
		}
	}
	if !lite && !yield("get", ops) {
		return false
	}
	// row: every y in -2..h+1
	ops = nil
	for y := -2; y <= h+1; y++ {
		ops = append(ops, Op{K: OpRow, Y1: y})
	}
	if !yield("row", ops) {
		return false
	}
	// span: every x1 <= x2 in every row, then every combination with a coordinate just outside
	ops = nil
	for y := 0; y < h; y++ {
		for x1 := 0; x1 < w; x1++ {
			for x2 := x1; x2 < w; x2++ {
				ops = append(ops, Op{K: OpRowSpan, X1: x1, X2: x2, Y1: y})
			}
		}
	}
	for _, y := range []int{-1, 0, h - 1, h} {
		for _, x1 := range []int{-1, 0, w - 1, w} {
			for _, x2 := range []int{-1, 0, w - 1, w} {
				if x1 < 0 || x1 >= w || x2 < 0 || x2 >= w || y < 0 || y >= h {
					ops = append(ops, Op{K: OpRowSpan, X1: x1, X2: x2, Y1: y})
				}
			}
		}
	}
	if !yield("span", ops) {
		return false
	}
	// fill: every ordered pair of corners (so all four corner orders), one script per y1, plus corners just outside
	for y1 := 0; y1 < h; y1++ {
		if lite && y1 != h-1 {
			continue
		}
		ops = nil
		for x1 := 0; x1 < w; x1++ {
			for y2 := 0; y2 < h; y2++ {
				for x2 := 0; x2 < w; x2++ {
					ops = append(ops, Op{K: OpFill, X1: x1, Y1: y1, X2: x2, Y2: y2})
				}
			}
		}
		if !yield("fill", ops) {
			return false
		}
	}
	ops = nil
	for _, y1 := range []int{-1, 0, h - 1, h} {
		for _, y2 := range []int{-1, 0, h - 1, h} {
			for _, x1 := range []int{-1, 0, w - 1, w} {
				for _, x2 := range []int{-1, 0, w - 1, w} {
					if x1 < 0 || x1 >= w || x2 < 0 || x2 >= w || y1 < 0 || y1 >= h || y2 < 0 || y2 >= h {
						ops = append(ops, Op{K: OpFill, X1: x1, Y1: y1, X2: x2, Y2: y2})
					}
				}
			}
		}
	}
	if !lite && !yield("fill-oob", ops) {
		return false
	}
	// special: every special value of the element type (the zero value first) written by Fill and by Set over
	// cells that hold something else, and ordinary values written over it
	if w > 0 && h > 0 && nspecial > 0 {
		ops = nil
		for k := 1; k <= nspecial; k++ {
			ops = append(ops, Op{K: OpFill, X1: 0, Y1: 0, X2: w - 1, Y2: h - 1})
			ops = append(ops, Op{K: OpFill, X1: w - 1, Y1: h - 1, X2: w / 2, Y2: h / 2, V: -k})
			ops = append(ops, Op{K: OpFill, X1: 0, Y1: 0, X2: w - 1, Y2: h - 1, V: -k})
			ops = append(ops, Op{K: OpSet, X1: w / 2, Y1: h / 2}, Op{K: OpRow, Y1: h - 1})
			ops = append(ops, Op{K: OpFill, X1: 0, Y1: 0, X2: w - 1, Y2: h - 1})
			for _, s := range setAll {
				s.V = -k
				ops = append(ops, s)
			}
			ops = append(ops, Op{K: OpString}, Op{K: OpClone, B: k})
		}
		if !yield("special", ops) {
			return false
		}
	}
	// clone: mutate the original with the clone as witness, then the other way round
	ops = []Op{{K: OpClone, B: 0}}
	ops = append(ops, setAll...)
	ops = append(ops, Op{K: OpClone, B: 1})
	ops = append(ops, setAll...)
	if w > 0 && h > 0 {
		ops = append(ops, Op{K: OpFill, X1: w - 1, Y1: h - 1, X2: 0, Y2: 0}, Op{K: OpRow, Y1: h - 1})
	}
	if !yield("clone", ops) {
		return false
	}
	// keep: slices taken from rows and from a span and a String result, kept by the caller over Clone, a garbage collection, Fill and Set on both sides
	if w > 0 && h > 0 {
		ops = []Op{{K: OpRow, Y1: 0}, {K: OpRowSpan, X1: w / 2, X2: w - 1, Y1: h - 1}, {K: OpRow, Y1: h / 2}}
		ops = append(ops, Op{K: OpFill, X1: 0, Y1: 0, X2: w - 1, Y2: h - 1}, Op{K: OpString}, Op{K: OpClone, B: 0})
		if gc {
			ops = append(ops, Op{K: OpGC})
		}
		ops = append(ops, setAll...)
		ops = append(ops, Op{K: OpClone, B: 1}, Op{K: OpFill, X1: 0, Y1: 0, X2: w - 1, Y2: h - 1, V: -1})
		ops = append(ops, setAll...)
		if !yield("keep", ops) {
			return false
		}
	}
	return true
}

// twoScript is the canonical script for a case with two arrays (w x h and w2 x h2): every call is made on one of
// them and then on the other, with the same arguments (what is outside the bounds there must panic there).
func twoScript(w, h, w2, h2 int, gc bool) []Op {
	var ops []Op
	add := func(o ...Op) { ops = append(ops, o...) }
	both := func(o Op) { add(o, Op{K: OpSwitch}, o) } // the next call starts on the other array
	add(Op{K: OpFill, X1: 0, Y1: 0, X2: w - 1, Y2: h - 1}, Op{K: OpRow, Y1: h - 1}, Op{K: OpString}, Op{K: OpSwitch})
	add(Op{K: OpFill, X1: w2 - 1, Y1: h2 - 1, X2: 0, Y2: 0}, Op{K: OpRow, Y1: 0}, Op{K: OpString}, Op{K: OpClone, B: 0}, Op{K: OpSwitch})
	add(Op{K: OpClone, B: 1})
	mw, mh := w, h
	if w2 > mw {
		mw = w2
	}
	if h2 > mh {
		mh = h2
	}
	for y := 0; y < mh; y++ { // every coordinate that is inside one of the two grids
		for x := 0; x < mw; x++ {
			if (x < w && y < h) || (x < w2 && y < h2) {
				both(Op{K: OpSet, X1: x, Y1: y})
			}
		}
	}
	if gc {
		add(Op{K: OpGC})
	}
	both(Op{K: OpRowSpan, X1: 0, X2: mw / 2, Y1: mh / 2})
	both(Op{K: OpString})
	both(Op{K: OpFill, X1: mw / 2, Y1: mh - 1, X2: 0, Y2: 0, V: -1})
	both(Op{K: OpFill, X1: w - 1, Y1: h - 1, X2: w2 - 1, Y2: h2 - 1})
	both(Op{K: OpRow, Y1: 0})
	both(Op{K: OpGet, X1: mw - 1, Y1: mh - 1})
	return ops
}

// jagVariants returns the canonical jagged inputs for one shape.
func jagVariants(w, h int) [][]int {
	rep := func(n, l int) []int {
		if n < 0 {
			n = 0
		}
		r := make([]int, n)
		for i := range r {
			r[i] = l
		}
		return r
	}
	vs := [][]int{
		rep(h, w),     // exact
		rep(h+2, w+2), // more rows, longer rows
		rep(h-1, w-1), // fewer rows, shorter rows
		rep(h+1, w-1), // more rows, shorter rows
		rep(h-1, w+1), // fewer rows, longer rows
		nil,           // no rows at all
		rep(h+1, 0),   // empty rows
		rep(h+1, -1),  // nil rows
		rep(h+3, w),   // more rows only
	}
	mixed := make([]int, h+2) // every row different: nil, shorter, exact, longer, ...
	for i := range mixed {
		mixed[i] = []int{-1, w - 1, w, w + 1, 0, w + 3}[i%6]
		if mixed[i] < -1 {
			mixed[i] = -1
		}
	}
	for i, v := range vs {
		for j := range v {
			if v[j] < -1 {
				vs[i][j] = -1
			}
		}
	}
	return append(vs, mixed)
}

// enumShape yields the canonical cases of one shape and element type.
func enumShape(T string, w, h int, lite bool, yield func(Case) bool) bool {
	nsp := nspecials[T]
	jv := jagVariants(w, h)
	// constructors alone; New2DFilled with an ordinary value and with every special value (the zero value is -1)
	if !yield(Case{T: T, W: w, H: h, Ctor: 0}) {
		return false
	}
	for k := 0; k <= nsp; k++ {
		if !yield(Case{T: T, W: w, H: h, Ctor: 1, FillV: -k}) {
			return false
		}
	}
	for _, j := range jv {
		if !yield(Case{T: T, W: w, H: h, Ctor: 2, Jag: j}) {
			return false
		}
	}
	// two arrays side by side: the transposed shape (w+1 x h for squares), and the same shape built from the first one's rows
	w2, h2 := h, w
	if w == h {
		w2 = w + 1
	}
	gc := (w+2*h)%7 == 3 // a garbage collection costs milliseconds: in the scripts of every seventh shape
	for k, t := range []Second{{W: w2, H: h2, Ctor: 0}, {W: w, H: h, Ctor: 2}, {W: w2, H: h2, Ctor: 1, FillV: -1}, {W: w2, H: h2, Ctor: 2}} {
		if lite && k == 3 {
			continue
		}
		t := t
		c := Case{T: T, W: w, H: h, Ctor: (k + 1) % 3, Two: &t, Ops: twoScript(w, h, t.W, t.H, gc)}
		if c.Ctor == 2 {
			c.Jag = jv[len(jv)-1]
		}
		if !yield(c) {
			return false
		}
	}
	// every script on every constructor
	i := 0
	return scripts(w, h, nsp, lite, gc, func(name string, ops []Op) bool {
		for ctor := 0; ctor < 3; ctor++ {
			c := Case{T: T, W: w, H: h, Ctor: ctor, Ops: ops}
			if ctor == 1 && nsp > 0 {
				c.FillV = -(i % (nsp + 1)) // ordinary, zero value, other special values in turn
			}
			if ctor == 2 {
				c.Jag = jv[len(jv)-1-(i%2)*8] // mixed / more-rows-longer-rows
				i++
			}
			if !yield(c) {
				return false
			}
		}
		return true
	})
}

func enumerate(tier string, yield func(Case) bool) {
	max := 7
	if tier == "thorough" {
		max = 12
	}
	for w := 0; w <= max; w++ {
		for h := 0; h <= max; h++ {
			if !enumShape("", w, h, false, yield) {
				return
			}
		}
	}
}

var specEnum = pbt.Register(&pbt.Spec[Case]{
	Property: "C08", Name: "C08.enum",
	Rule: "element type int, exhaustive over ALL shapes 0..7 x 0..7 (thorough 0..12 x 0..12): each constructor alone (New2DFilled with 7 and with each special int " +
		"0 = zero value, -1, MaxInt, MinInt; 10 canonical jagged inputs: exact, " +
		"more/fewer rows, longer/shorter rows, none, empty rows, nil rows, mixed), then on each of the 3 constructors the canonical scripts: " +
		"set (every cell, then every coordinate of the ring -2..w+1 x -2..h+1 outside), get (that whole ring and the inside), row (every y in " +
		"-2..h+1), span (every x1 <= x2 in every row + every combination with a coordinate just outside), fill (every ordered pair of corners, " +
		"i.e. all four corner orders, + corners just outside), special (each special value written by Fill and by Set over other values and " +
		"overwritten again), clone (mutate either side against a frozen witness), keep (returned slices and a String result kept over Clone/Fill/Set on both sides, on the shapes with (w+2h) mod 7 = 3 also over a runtime.GC()); and with TWO live " +
		"arrays (the second one transposed - (w+1) x h for squares - built by New2D, by New2DFilled with the zero value, from the Row windows of the first; or of the same shape built from the " +
		"first one's Row windows) the script two: Set at every coordinate that lies in one of the two grids, RowSpan, String, two Fills, Row, Get and Clone made on one array and then with the same arguments " +
		"on the other (on the shapes with (w+2h) mod 7 = 3 with a runtime.GC() in the middle); " + rule,
	Enum: func(shard, shards int, tier string, yield func(Case) bool) { enumerate(tier, yield) },
	Run:  Run, Exhaustive: true, Replicas: 4, ReplicaEvery: 8,
})

// ---------------------------------------------------------------- random unit

func genCase(t *rapid.T) Case {
	max := 7
	if os.Getenv("VERIF_TIER") == "thorough" {
		max = 12
	}
	// rapid's IntRange is strongly biased to small values; uni is close to uniform on 0..n-1 (and still shrinks to 0)
	uni := func(n int, name string) int { return int(rapid.Uint64().Draw(t, name) % uint64(n)) }
	dim := func(name string) int {
		if d := uni(max+max/2, name); d < max {
			return d + 1 // 1..max, two thirds
		}
		return uni(max+1, name+"_any") // 0..max
	}
	var c Case
	maxOps := 31
	switch sc := uni(100, "sizeclass"); {
	case sc < 78: // small
		c.W, c.H = dim("w"), dim("h")
	case sc < 88: // medium
		c.W, c.H = 1+uni(24, "w"), 1+uni(24, "h")
		maxOps = 16
	case sc < 95: // one side next to a power of two
		p := []int{15, 16, 17, 31, 32, 33, 63, 64, 65, 127, 128, 129, 255, 256, 257}[uni(15, "pow2")]
		q := 1 + uni(33, "other")
		if rapid.Bool().Draw(t, "tall") {
			c.W, c.H = q, p
		} else {
			c.W, c.H = p, q
		}
		maxOps = 10
	default: // long and thin: 1..4 by up to 9000 cells, either way round
		q := 1 + uni(4, "thin")
		p := 1 << uni(14, "longexp")
		p += uni(p, "longoff")
		if q*p > 9000 {
			p = 9000 / q
		}
		if rapid.Bool().Draw(t, "tall") {
			c.W, c.H = q, p
		} else {
			c.W, c.H = p, q
		}
		maxOps = 8
	}
	w, h := c.W, c.H
	if rapid.IntRange(0, 3).Draw(t, "other_type") == 0 {
		c.T = typeOrder[uni(len(typeOrder), "type")]
	}
	nsp := nspecials[c.T]
	c.Ctor = rapid.IntRange(0, 2).Draw(t, "ctor")
	if c.Ctor == 1 && nsp > 0 && rapid.IntRange(0, 2).Draw(t, "fill_special") == 0 {
		c.FillV = -1 - uni(nsp, "fillv")
	}
	if c.Ctor == 2 {
		switch jk := uni(12, "jagkind"); {
		case jk < 6: // separately allocated rows
			c.Jag = rapid.SliceOfN(rapid.IntRange(-1, w+3), 0, h+3).Draw(t, "jag")
			if jk >= 4 {
				c.Spare = 1 + uni(w+4, "spare")
			}
		default: // views of one buffer: the rows of a flat matrix, then a few of them moved or shortened
			stride := []int{w, w, w, w + 1, w + 2, w - 1, 2 * w}[uni(7, "stride")]
			if stride < 0 {
				stride = 0
			}
			nrows := h + []int{0, 0, 0, 1, 2, -1}[uni(6, "nrows")]
			if nrows < 0 {
				nrows = 0
			}
			brows := nrows + uni(2, "bufrows")
			if brows < h {
				brows = h
			}
			v := &View{Stride: stride, Rows: brows, Tail: uni(4, "tail"), Clip: rapid.Bool().Draw(t, "clip"), Via: rapid.Bool().Draw(t, "via")}
			c.Jag, c.JagN = []int{[]int{w, w, w, w + 1, stride}[uni(5, "rowlen")]}, nrows
			if nrows > 0 {
				for i, n := 0, uni(4, "moves"); i < n; i++ {
					r := uni(nrows, "moved_row")
					var off int
					switch uni(4, "move_kind") {
					case 0, 1: // where another row is
						off = uni(brows+1, "move_to") * stride
					case 2: // a value earlier or later
						off = r*stride + []int{-1, 1}[uni(2, "shift")]
					default:
						off = uni(stride*brows+v.Tail+1, "move_off")
					}
					v.Set = append(v.Set, [2]int{r, off})
				}
				for i, n := 0, uni(3, "shorts"); i < n; i++ {
					c.JagSet = append(c.JagSet, [2]int{uni(nrows, "short_row"), rapid.IntRange(-1, w+2).Draw(t, "short_len")})
				}
			}
			c.View = v
		}
	}
	// a second array next to the first
	withTwo := uni(5, "two") == 0
	if withTwo {
		t2 := &Second{W: dim("w2"), H: dim("h2"), Ctor: uni(3, "ctor2")}
		if uni(3, "two_same_shape") == 0 {
			t2.W, t2.H = w, h
		} else if uni(4, "two_transposed") == 0 {
			t2.W, t2.H = h, w
		}
		if t2.Ctor == 1 && nsp > 0 && uni(3, "fill2_special") == 0 {
			t2.FillV = -1 - uni(nsp, "fillv2")
		}
		if w*h > 1024 { // keep the cost of the whole-grid comparisons bounded
			t2.W, t2.H = 1+uni(8, "w2s"), 1+uni(8, "h2s")
		}
		c.Two = t2
	}
	withGC := uni(500, "gc") == 0
	if uni(40, "procs") == 0 {
		c.Procs = []int{1, 2, 3, 5, 6, 7}[uni(6, "nprocs")]
	}
	if w*h <= 64 && uni(20, "loop") == 0 {
		c.Loop = 1 + uni(3, "loops")
	}
	// coordinate generators: in = inside the bounds (biased to the last and first index), out = outside
	coord := func(n, stride int, valid bool, name string) int {
		if valid && n > 0 {
			switch rapid.IntRange(0, 7).Draw(t, name+"_bias") {
			case 0, 1:
				return n - 1
			case 2:
				return 0
			}
			return rapid.IntRange(0, n-1).Draw(t, name)
		}
		if rapid.IntRange(0, 3).Draw(t, name+"_extreme") == 0 {
			ex := extremes(n, stride)
			return ex[uni(len(ex), name+"_ex")]
		}
		return rapid.SampledFrom([]int{n, -1, n + 1, -2, n, n + 100, -1000}).Draw(t, name+"_out")
	}
	kinds := []int{OpSet, OpSet, OpSet, OpSet, OpGet, OpGet, OpRow, OpRow, OpRowSpan, OpRowSpan, OpRowSpan, OpFill, OpFill, OpFill, OpClone, OpString, OpDims}
	if withTwo {
		kinds = append(kinds, OpSwitch, OpSwitch, OpSwitch, OpSwitch)
	}
	if withGC {
		kinds = append(kinds, OpGC)
	}
	nops := uni(maxOps, "nops")
	c.Ops = rapid.SliceOfN(rapid.Custom(func(t *rapid.T) Op {
		op := Op{K: rapid.SampledFrom(kinds).Draw(t, "k")}
		allValid := rapid.IntRange(0, 4).Draw(t, "all_valid") > 0 // 80 %: every coordinate inside (when the shape allows)
		v := func() bool { return allValid || rapid.Bool().Draw(t, "valid") }
		switch op.K {
		case OpSet, OpGet:
			op.X1, op.Y1 = coord(w, 1, v(), "x"), coord(h, w, v(), "y")
		case OpRow:
			op.Y1 = coord(h, w, v(), "y")
		case OpRowSpan:
			op.X1, op.X2, op.Y1 = coord(w, 1, v(), "x1"), coord(w, 1, v(), "x2"), coord(h, w, v(), "y")
		case OpFill:
			op.X1, op.Y1, op.X2, op.Y2 = coord(w, 1, v(), "x1"), coord(h, w, v(), "y1"), coord(w, 1, v(), "x2"), coord(h, w, v(), "y2")
		case OpClone:
			op.B = rapid.IntRange(0, 1).Draw(t, "b")
		}
		if (op.K == OpSet || op.K == OpFill) && nsp > 0 && rapid.IntRange(0, 5).Draw(t, "special_value") == 0 {
			op.V = -1 - uni(nsp, "v")
		}
		return op
	}), nops, nops).Draw(t, "ops")
	// a coordinate whose flat index overflows back into the backing store (see extreme_test.go)
	if n := len(c.Ops); n > 0 && w > 0 && h > 0 && rapid.IntRange(0, 9).Draw(t, "wrap") == 0 {
		op := &c.Ops[uni(n, "wrap_op")]
		x := uni(w, "wrap_x")
		if y, ok := solveY(uni(w*h, "wrap_target"), x, w, h, rapid.Uint64().Draw(t, "wrap_j")); ok {
			switch op.K {
			case OpSet, OpGet:
				op.X1, op.Y1 = x, y
			case OpRow:
				op.Y1 = y
			case OpRowSpan:
				op.X1, op.X2, op.Y1 = x, x, y
			case OpFill:
				op.X1, op.X2, op.Y1, op.Y2 = x, x, y, y
			}
		}
	}
	return c
}

var specRand = pbt.Register(&pbt.Spec[Case]{
	Property: "C08", Name: "C08.rand",
	Rule: "rapid: shape classes: 78 % w,h near-uniform on 0..7 (thorough 0..12) with 0 made rarer (<= 30 operations); 10 % 1..24 x 1..24 (<= 15 operations); 7 % one side " +
		"in {2^k-1, 2^k, 2^k+1 : k = 4..8} and the other 1..33 (<= 9 operations); 5 % 1..4 by up to 9000 cells, wide or tall (<= 7 operations); element type int in 3/4 " +
		"of the cases, else one of the types of C08.types; constructor uniform (New2DFilled with a special value - zero value, -0.0, nil, ... - in 1/3 of its cases), " +
		"jagged input: half of the cases 0..h+3 separately allocated rows of length -1(nil)..w+3 (a third of them with 1..w+4 values of spare capacity), the other half views of one buffer " +
		"(stride w, w+1, w+2, w-1 or 2w; h-1..h+2 rows of length w, w+1 or the stride; 0..3 rows moved to another row's place, a value earlier/later or anywhere; 0..2 rows of another length; " +
		"plain or three-index slices; flat buffer or another Array2D's windows); in 1/5 of the cases a second array (same shape 1/3, transposed, or another small shape; any of its three " +
		"constructors) and switch operations; in 1/500 runtime.GC() among the operations; in 1/40 GOMAXPROCS 1, 2, 3, 5, 6 or 7; in 1/20 of the small cases the script is run 2..4 times; 80 % of " +
		"the operations have every coordinate inside (biased to the last/first index), the rest draw each coordinate outside with probability 1/2: " +
		"size, -1, size+1, -2, far away, and in 1/4 of these an extreme value (MaxInt, MinInt, +-2^k, +-2^k+-1 for k = 31, 32, 62, 63, the " +
		"values around MaxInt/stride and 2^64/stride where the flat index overflows); 1/6 of the Set/Fill write a special value; in 1/10 of the cases " +
		"one operation gets a y solved so that x + y*width overflows to an index inside the backing store; " + rule,
	Gen: genCase,
	Run: Run, Quick: 32000, Thorough: 150000, Replicas: 4, ReplicaEvery: 16,
})

func TestC08Enum(t *testing.T) { pbt.Check(t, specEnum) }
func TestC08Rand(t *testing.T) { pbt.Check(t, specRand) }
func TestReplay(t *testing.T)  { pbt.Replay(t) }
