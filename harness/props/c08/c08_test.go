// Package c08 decides C08: arrays.Array2D behaves as width x height independent
// cells for every shape.
package c08

import (
	"fmt"
	"os"
	"strconv"
	"strings"
	"testing"

	"gopkg.in/typ.v4/arrays"
	"pgregory.net/rapid"
	"verifharness/internal/pbt"
)

// Case is a constructor call followed by an operation script on one array.
// Every script is executable whatever the numbers are: a coordinate outside
// the bounds is a legal case whose expected result is a panic that leaves the
// array unchanged.
type Case struct {
	W    int   `json:"w"`
	H    int   `json:"h"`
	Ctor int   `json:"ctor"` // 0 New2D, 1 New2DFilled, 2 New2DFromJagged
	Jag  []int `json:"jag"`  // ctor 2: length of each jagged row, -1 = nil row; values are 100+32*row+col
	Ops  []Op  `json:"ops"`
}

// Op kinds.
const (
	OpSet     = iota // Set(X1,Y1, fresh value)
	OpGet            // Get(X1,Y1)
	OpRow            // Row(Y1): contents, write-through, Set seen through the slice
	OpRowSpan        // RowSpan(X1,X2,Y1) (X1,X2 are swapped if both are in bounds and X1 > X2: the documented domain is x1 <= x2)
	OpFill           // Fill(X1,Y1,X2,Y2, fresh value), corners in any order
	OpClone          // Clone; B even: keep working on the original, the clone becomes a frozen witness; B odd: the other way round
	OpString         // String
	OpDims           // Width, Height
	nOps
)

var opName = [nOps]string{"Set", "Get", "Row", "RowSpan", "Fill", "Clone", "String", "Dims"}

type Op struct {
	K  int `json:"k"`
	X1 int `json:"x1"`
	Y1 int `json:"y1"`
	X2 int `json:"x2"`
	Y2 int `json:"y2"`
	B  int `json:"b"`
}

const rule = "case = shape (w,h >= 0), constructor (New2D / New2DFilled / New2DFromJagged with rows shorter, longer, more, fewer, nil), " +
	"then a script of Set/Get/Row/RowSpan/Fill/Clone/String/Width+Height with coordinates inside and outside the bounds; oracle = " +
	"flat cell model with a fresh unique value per write; after the constructor and after EVERY operation Get over the whole grid " +
	"must equal the model (so a write that aliases another cell, or a panic that altered the array, is seen at once); out-of-bounds " +
	"coordinate => must panic and leave the grid unchanged; Row/RowSpan: length, contents, every element written through the slice " +
	"(then whole grid compared), then every cell of the window Set and seen through the slice; Fill = inclusive rectangle whichever " +
	"corners; Clone: the side not worked on is a frozen witness compared cell by cell after every later mutation; String == model " +
	"rendered [[a b] [c d]] at the end of every case. non-trivial = w != h, both >= 2, and at least one successful write in the " +
	"last row and one in the last column"

type model struct {
	w, h  int
	cells []int
}

func (m *model) clone() *model {
	return &model{w: m.w, h: m.h, cells: append([]int(nil), m.cells...)}
}
func (m *model) inX(x int) bool { return x >= 0 && x < m.w }
func (m *model) inY(y int) bool { return y >= 0 && y < m.h }
func (m *model) String() string {
	var sb strings.Builder
	sb.WriteByte('[')
	for y := 0; y < m.h; y++ {
		if y > 0 {
			sb.WriteByte(' ')
		}
		sb.WriteByte('[')
		for x := 0; x < m.w; x++ {
			if x > 0 {
				sb.WriteByte(' ')
			}
			sb.WriteString(strconv.Itoa(m.cells[y*m.w+x]))
		}
		sb.WriteByte(']')
	}
	sb.WriteByte(']')
	return sb.String()
}

// try runs f and returns the recovered panic value (nil if none).
func try(f func()) (p any) {
	defer func() { p = recover() }()
	f()
	return nil
}

// diff compares Get over the whole grid with the model; "" if equal.
func diff(a arrays.Array2D[int], m *model) (msg string) {
	x, y := 0, 0
	p := try(func() {
		for y = 0; y < m.h; y++ {
			for x = 0; x < m.w; x++ {
				if got := a.Get(x, y); got != m.cells[y*m.w+x] {
					msg = fmt.Sprintf("Get(%d,%d) = %d, want %d", x, y, got, m.cells[y*m.w+x])
					return
				}
			}
		}
	})
	if p != nil {
		return fmt.Sprintf("Get(%d,%d) (inside the bounds) panicked: %v", x, y, p)
	}
	return msg
}

type witness struct {
	a    arrays.Array2D[int]
	m    *model
	what string
}

func jagValue(r, c int) int { return 100 + 32*r + c }

func Run(c Case) pbt.Outcome {
	out := pbt.Outcome{}
	w, h := c.W, c.H
	if w < 0 || h < 0 || w > 64 || h > 64 {
		out.Skipped = true
		return out
	}
	lab := func(l string) { out.Labels = append(out.Labels, l) }
	shape := fmt.Sprintf("%dx%d", w, h)
	m := &model{w: w, h: h, cells: make([]int, w*h)}
	var a arrays.Array2D[int]
	var ctor string
	var p any
	switch mod(c.Ctor, 3) {
	case 0:
		ctor = fmt.Sprintf("New2D(%d,%d)", w, h)
		p = try(func() { a = arrays.New2D[int](w, h) })
		lab("ctor:New2D")
	case 1:
		ctor = fmt.Sprintf("New2DFilled(%d,%d,7)", w, h)
		for i := range m.cells {
			m.cells[i] = 7
		}
		p = try(func() { a = arrays.New2DFilled(w, h, 7) })
		lab("ctor:New2DFilled")
	case 2:
		jag := make([][]int, len(c.Jag))
		more, fewer, longer, shorter, nilrow := len(c.Jag) > h, len(c.Jag) < h, false, false, false
		for r, n := range c.Jag {
			if n < 0 {
				nilrow = true
				if r < h && w > 0 {
					shorter = true
				}
				continue
			}
			if n > 64 {
				n = 64
			}
			jag[r] = make([]int, n)
			for x := range jag[r] {
				jag[r][x] = jagValue(r, x)
				if r < h && x < w {
					m.cells[r*w+x] = jagValue(r, x)
				}
			}
			if n > w {
				longer = true
			}
			if n < w && r < h {
				shorter = true
			}
		}
		ctor = fmt.Sprintf("New2DFromJagged(%d,%d, rows with lengths %v (-1 = nil))", w, h, c.Jag)
		p = try(func() { a = arrays.New2DFromJagged(w, h, jag) })
		lab("ctor:New2DFromJagged")
		for _, x := range []struct {
			on bool
			l  string
		}{{more, "jag:more-rows"}, {fewer, "jag:fewer-rows"}, {!more && !fewer, "jag:exact-rows"}, {longer, "jag:row-longer"},
			{shorter, "jag:row-shorter"}, {nilrow, "jag:nil-row"}, {len(c.Jag) == 0, "jag:no-rows"}} {
			if x.on {
				lab(x.l)
			}
		}
	}
	if p != nil {
		return pbt.Fail("%s panicked: %v", ctor, p)
	}
	if a.Width() != w || a.Height() != h {
		return pbt.Fail("%s: Width,Height = %d,%d", ctor, a.Width(), a.Height())
	}
	if d := diff(a, m); d != "" {
		return pbt.Fail("%s: %s", ctor, d)
	}
	out.Evals = 1
	switch {
	case w == 0 || h == 0:
		lab("shape:zero-dim")
	case w == h:
		lab("shape:square")
	case w > h:
		lab("shape:wide(w>h)")
	default:
		lab("shape:tall(h>w)")
	}

	next := 1000
	fresh := func() int { next++; return next }
	lastRow, lastCol := false, false
	wrote := func(x1, y1, x2, y2 int) { // inclusive, sorted
		if y2 == h-1 {
			lastRow = true
		}
		if x2 == w-1 {
			lastCol = true
		}
	}
	var wits []witness
	hist := ctor + ";"
	// verify is called after every operation
	verify := func(step int, call string) string {
		if d := diff(a, m); d != "" {
			return fmt.Sprintf("%s array, step %d, after %s: %s; history: %s", shape, step, call, d, hist)
		}
		for _, wt := range wits {
			if d := diff(wt.a, wt.m); d != "" {
				return fmt.Sprintf("%s array, step %d, after %s on the other side: the %s changed: %s; history: %s", shape, step, call, wt.what, d, hist)
			}
		}
		return ""
	}

	for step, op := range c.Ops {
		k := mod(op.K, int(nOps))
		var call string
		fail := func(format string, args ...any) pbt.Outcome {
			return pbt.Fail("%s array, step %d, %s: %s; history: %s", shape, step, call, fmt.Sprintf(format, args...), hist)
		}
		switch k {
		case OpSet:
			x, y := op.X1, op.Y1
			v := fresh()
			call = fmt.Sprintf("Set(%d,%d,%d)", x, y, v)
			p := try(func() { a.Set(x, y, v) })
			if m.inX(x) && m.inY(y) {
				if p != nil {
					return fail("panicked inside the bounds: %v", p)
				}
				m.cells[y*w+x] = v
				wrote(x, y, x, y)
				lab("Set:in")
			} else {
				if p == nil {
					return fail("did not panic although the coordinate is outside the bounds")
				}
				lab(oobLabel("Set", m, []int{x}, []int{y}))
			}
		case OpGet:
			x, y := op.X1, op.Y1
			call = fmt.Sprintf("Get(%d,%d)", x, y)
			var got int
			p := try(func() { got = a.Get(x, y) })
			if m.inX(x) && m.inY(y) {
				if p != nil {
					return fail("panicked inside the bounds: %v", p)
				}
				if got != m.cells[y*w+x] {
					return fail("= %d, want %d", got, m.cells[y*w+x])
				}
				lab("Get:in")
			} else {
				if p == nil {
					return fail("did not panic although the coordinate is outside the bounds (returned %d)", got)
				}
				lab(oobLabel("Get", m, []int{x}, []int{y}))
			}
		case OpRow, OpRowSpan:
			y := op.Y1
			x1, x2 := 0, w-1
			var win []int
			var p any
			valid := m.inY(y)
			if k == OpRow {
				call = fmt.Sprintf("Row(%d)", y)
				p = try(func() { win = a.Row(y) })
			} else {
				x1, x2 = op.X1, op.X2
				if m.inX(x1) && m.inX(x2) && x1 > x2 {
					x1, x2 = x2, x1
				}
				valid = valid && m.inX(x1) && m.inX(x2)
				call = fmt.Sprintf("RowSpan(%d,%d,%d)", x1, x2, y)
				p = try(func() { win = a.RowSpan(x1, x2, y) })
			}
			if !valid {
				if p == nil {
					return fail("did not panic although a coordinate is outside the bounds (returned a slice of length %d)", len(win))
				}
				if k == OpRow {
					lab("Row:oob")
				} else {
					lab(oobLabel("RowSpan", m, []int{op.X1, op.X2}, []int{y}))
				}
				break
			}
			if p != nil {
				return fail("panicked inside the bounds: %v", p)
			}
			if len(win) != x2-x1+1 {
				return fail("returned a slice of length %d, want %d", len(win), x2-x1+1)
			}
			for i := range win {
				if win[i] != m.cells[y*w+x1+i] {
					return fail("slice[%d] = %d, want cell (%d,%d) = %d", i, win[i], x1+i, y, m.cells[y*w+x1+i])
				}
			}
			// write through every element of the window: exactly those cells change
			for i := range win {
				v := fresh()
				win[i] = v
				m.cells[y*w+x1+i] = v
			}
			if len(win) > 0 {
				wrote(x1, y, x2, y)
			}
			if d := verify(step, call+" and writing every element of the returned slice"); d != "" {
				return pbt.Fail("%s", d)
			}
			// Set on the array is seen through the slice
			for i := range win {
				v := fresh()
				if p := try(func() { a.Set(x1+i, y, v) }); p != nil {
					return fail("then Set(%d,%d,%d) panicked inside the bounds: %v", x1+i, y, v, p)
				}
				m.cells[y*w+x1+i] = v
				if win[i] != v {
					return fail("slice is not a live window: after Set(%d,%d,%d) slice[%d] = %d", x1+i, y, v, i, win[i])
				}
			}
			switch {
			case k == OpRow:
				lab("Row:in")
			case x1 == 0 && x2 == w-1:
				lab("RowSpan:whole-row")
			case x1 == x2:
				lab("RowSpan:single-cell")
			default:
				lab("RowSpan:partial")
			}
		case OpFill:
			x1, y1, x2, y2 := op.X1, op.Y1, op.X2, op.Y2
			v := fresh()
			call = fmt.Sprintf("Fill(%d,%d,%d,%d,%d)", x1, y1, x2, y2, v)
			p := try(func() { a.Fill(x1, y1, x2, y2, v) })
			if m.inX(x1) && m.inX(x2) && m.inY(y1) && m.inY(y2) {
				if p != nil {
					return fail("panicked although all corners are inside the bounds: %v", p)
				}
				switch {
				case x1 > x2 && y1 > y2:
					lab("Fill:both-swapped")
				case x1 > x2:
					lab("Fill:x-swapped")
				case y1 > y2:
					lab("Fill:y-swapped")
				default:
					lab("Fill:sorted")
				}
				if x1 > x2 {
					x1, x2 = x2, x1
				}
				if y1 > y2 {
					y1, y2 = y2, y1
				}
				for y := y1; y <= y2; y++ {
					for x := x1; x <= x2; x++ {
						m.cells[y*w+x] = v
					}
				}
				wrote(x1, y1, x2, y2)
				switch {
				case x1 == x2 && y1 == y2:
					lab("Fill:single-cell")
				case x1 == 0 && y1 == 0 && x2 == w-1 && y2 == h-1:
					lab("Fill:whole-grid")
				case y1 == y2:
					lab("Fill:one-row")
				case x1 == x2:
					lab("Fill:one-column")
				default:
					lab("Fill:proper-rectangle")
				}
			} else {
				if p == nil {
					return fail("did not panic although a corner is outside the bounds")
				}
				lab(oobLabel("Fill", m, []int{x1, x2}, []int{y1, y2}))
			}
		case OpClone:
			call = "Clone()"
			var cl arrays.Array2D[int]
			if p := try(func() { cl = a.Clone() }); p != nil {
				return fail("panicked: %v", p)
			}
			if cl.Width() != w || cl.Height() != h {
				return fail("clone has Width,Height = %d,%d", cl.Width(), cl.Height())
			}
			if d := diff(cl, m); d != "" {
				return fail("clone differs from the original: %s", d)
			}
			if len(wits) >= 2 {
				wits = wits[1:]
			}
			if mod(op.B, 2) == 0 {
				wits = append(wits, witness{cl, m.clone(), fmt.Sprintf("clone taken at step %d", step)})
				lab("Clone:continue-on-original")
			} else {
				wits = append(wits, witness{a, m.clone(), fmt.Sprintf("original (cloned at step %d, script continued on the clone)", step)})
				a = cl
				lab("Clone:continue-on-clone")
			}
		case OpString:
			call = "String()"
			var s string
			if p := try(func() { s = a.String() }); p != nil {
				return fail("panicked: %v", p)
			}
			if want := m.String(); s != want {
				return fail("= %q, want %q", s, want)
			}
			lab("String")
		case OpDims:
			call = "Width(),Height()"
			if a.Width() != w || a.Height() != h {
				return fail("= %d,%d", a.Width(), a.Height())
			}
			lab("Dims")
		}
		out.Evals++
		if d := verify(step, call); d != "" {
			return pbt.Fail("%s", d)
		}
		if len(hist) < 500 {
			hist += " " + call + ";"
		} else if !strings.HasSuffix(hist, "...") {
			hist += " ..."
		}
	}
	// end of case: String and dimensions agree with the model
	var s string
	if p := try(func() { s = a.String() }); p != nil {
		return pbt.Fail("%s array: String() panicked: %v; history: %s", shape, p, hist)
	}
	if want := m.String(); s != want {
		return pbt.Fail("%s array: String() = %q, want %q; history: %s", shape, s, want, hist)
	}
	if a.Width() != w || a.Height() != h {
		return pbt.Fail("%s array: Width,Height = %d,%d at the end; history: %s", shape, a.Width(), a.Height(), hist)
	}
	out.NonTrivial = w != h && w >= 2 && h >= 2 && lastRow && lastCol
	if w != h && w >= 2 && h >= 2 {
		switch {
		case lastRow && lastCol:
			lab("nt:rect,wrote-last-row+last-col")
		case lastRow || lastCol:
			lab("nt:rect,wrote-only-one-of-last-row/col")
		default:
			lab("nt:rect,no-edge-write")
		}
	}
	return out
}

func oobLabel(name string, m *model, xs, ys []int) string {
	ox, oy := false, false
	for _, x := range xs {
		ox = ox || !m.inX(x)
	}
	for _, y := range ys {
		oy = oy || !m.inY(y)
	}
	edge := false
	for _, x := range xs {
		edge = edge || x == m.w
	}
	for _, y := range ys {
		edge = edge || y == m.h
	}
	l := name + ":oob"
	switch {
	case ox && oy:
		l += "-both"
	case ox:
		l += "-x"
	default:
		l += "-y"
	}
	if edge {
		l += "(==size)"
	}
	return l
}

func mod(a, m int) int {
	a %= m
	if a < 0 {
		a += m
	}
	return a
}

// ---------------------------------------------------------------- exhaustive unit

// scripts builds the canonical op scripts for one shape.
func scripts(w, h int, yield func(name string, ops []Op) bool) bool {
	var setAll []Op
	for y := 0; y < h; y++ {
		for x := 0; x < w; x++ {
			setAll = append(setAll, Op{K: OpSet, X1: x, Y1: y})
		}
	}
	// set: every cell (whole grid compared after each), then the whole ring outside
	ops := append([]Op(nil), setAll...)
	for y := -2; y <= h+1; y++ {
		for x := -2; x <= w+1; x++ {
			if x < 0 || x >= w || y < 0 || y >= h {
				ops = append(ops, Op{K: OpSet, X1: x, Y1: y})
			}
		}
	}
	ops = append(ops, Op{K: OpString}, Op{K: OpDims})
	if !yield("set", ops) {
		return false
	}
	// get: every coordinate in -2..w+1 x -2..h+1 after all cells were given unique values
	ops = append([]Op(nil), setAll...)
	for y := -2; y <= h+1; y++ {
		for x := -2; x <= w+1; x++ {
			ops = append(ops, Op{K: OpGet, X1: x, Y1: y})
		}
	}
	if !yield("get", ops) {
		return false
	}
	// row: every y in -2..h+1
	ops = nil
	for y := -2; y <= h+1; y++ {
		ops = append(ops, Op{K: OpRow, Y1: y})
	}
	if !yield("row", ops) {
		return false
	}
	// span: every x1 <= x2 in every row, then every combination with a coordinate just outside
	ops = nil
	for y := 0; y < h; y++ {
		for x1 := 0; x1 < w; x1++ {
			for x2 := x1; x2 < w; x2++ {
				ops = append(ops, Op{K: OpRowSpan, X1: x1, X2: x2, Y1: y})
			}
		}
	}
	for _, y := range []int{-1, 0, h - 1, h} {
		for _, x1 := range []int{-1, 0, w - 1, w} {
			for _, x2 := range []int{-1, 0, w - 1, w} {
				if x1 < 0 || x1 >= w || x2 < 0 || x2 >= w || y < 0 || y >= h {
					ops = append(ops, Op{K: OpRowSpan, X1: x1, X2: x2, Y1: y})
				}
			}
		}
	}
	if !yield("span", ops) {
		return false
	}
	// fill: every ordered pair of corners (so all four corner orders), one script per y1, plus corners just outside
	for y1 := 0; y1 < h; y1++ {
		ops = nil
		for x1 := 0; x1 < w; x1++ {
			for y2 := 0; y2 < h; y2++ {
				for x2 := 0; x2 < w; x2++ {
					ops = append(ops, Op{K: OpFill, X1: x1, Y1: y1, X2: x2, Y2: y2})
				}
			}
		}
		if !yield("fill", ops) {
			return false
		}
	}
	ops = nil
	for _, y1 := range []int{-1, 0, h - 1, h} {
		for _, y2 := range []int{-1, 0, h - 1, h} {
			for _, x1 := range []int{-1, 0, w - 1, w} {
				for _, x2 := range []int{-1, 0, w - 1, w} {
					if x1 < 0 || x1 >= w || x2 < 0 || x2 >= w || y1 < 0 || y1 >= h || y2 < 0 || y2 >= h {
						ops = append(ops, Op{K: OpFill, X1: x1, Y1: y1, X2: x2, Y2: y2})
					}
				}
			}
		}
	}
	if !yield("fill-oob", ops) {
		return false
	}
	// clone: mutate the original with the clone as witness, then the other way round
	ops = []Op{{K: OpClone, B: 0}}
	ops = append(ops, setAll...)
	ops = append(ops, Op{K: OpClone, B: 1})
	ops = append(ops, setAll...)
	if w > 0 && h > 0 {
		ops = append(ops, Op{K: OpFill, X1: w - 1, Y1: h - 1, X2: 0, Y2: 0}, Op{K: OpRow, Y1: h - 1})
	}
	return yield("clone", ops)
}

// jagVariants returns the canonical jagged inputs for one shape.
func jagVariants(w, h int) [][]int {
	rep := func(n, l int) []int {
		if n < 0 {
			n = 0
		}
		r := make([]int, n)
		for i := range r {
			r[i] = l
		}
		return r
	}
	vs := [][]int{
		rep(h, w),     // exact
		rep(h+2, w+2), // more rows, longer rows
		rep(h-1, w-1), // fewer rows, shorter rows
		rep(h+1, w-1), // more rows, shorter rows
		rep(h-1, w+1), // fewer rows, longer rows
		nil,           // no rows at all
		rep(h+1, 0),   // empty rows
		rep(h+1, -1),  // nil rows
		rep(h+3, w),   // more rows only
	}
	mixed := make([]int, h+2) // every row different: nil, shorter, exact, longer, ...
	for i := range mixed {
		mixed[i] = []int{-1, w - 1, w, w + 1, 0, w + 3}[i%6]
		if mixed[i] < -1 {
			mixed[i] = -1
		}
	}
	for i, v := range vs {
		for j := range v {
			if v[j] < -1 {
				vs[i][j] = -1
			}
		}
	}
	return append(vs, mixed)
}

func enumerate(tier string, yield func(Case) bool) {
	max := 7
	if tier == "thorough" {
		max = 12
	}
	for w := 0; w <= max; w++ {
		for h := 0; h <= max; h++ {
			jv := jagVariants(w, h)
			// constructors alone
			for _, c := range []Case{{W: w, H: h, Ctor: 0}, {W: w, H: h, Ctor: 1}} {
				if !yield(c) {
					return
				}
			}
			for _, j := range jv {
				if !yield(Case{W: w, H: h, Ctor: 2, Jag: j}) {
					return
				}
			}
			// every script on every constructor
			i := 0
			ok := scripts(w, h, func(name string, ops []Op) bool {
				for ctor := 0; ctor < 3; ctor++ {
					c := Case{W: w, H: h, Ctor: ctor, Ops: ops}
					if ctor == 2 {
						c.Jag = jv[len(jv)-1-(i%2)*8] // mixed / more-rows-longer-rows
						i++
					}
					if !yield(c) {
						return false
					}
				}
				return true
			})
			if !ok {
				return
			}
		}
	}
}

var specEnum = pbt.Register(&pbt.Spec[Case]{
	Property: "C08", Name: "C08.enum",
	Rule: "exhaustive over ALL shapes 0..7 x 0..7 (thorough 0..12 x 0..12): each constructor alone (10 canonical jagged inputs: exact, " +
		"more/fewer rows, longer/shorter rows, none, empty rows, nil rows, mixed), then on each of the 3 constructors the canonical scripts: " +
		"set (every cell, then every coordinate of the ring -2..w+1 x -2..h+1 outside), get (that whole ring and the inside), row (every y in " +
		"-2..h+1), span (every x1 <= x2 in every row + every combination with a coordinate just outside), fill (every ordered pair of corners, " +
		"i.e. all four corner orders, + corners just outside), clone (mutate either side against a frozen witness); " + rule,
	Enum: func(shard, shards int, tier string, yield func(Case) bool) { enumerate(tier, yield) },
	Run:  Run, Exhaustive: true,
})

// ---------------------------------------------------------------- random unit

func genCase(t *rapid.T) Case {
	max := 7
	if os.Getenv("VERIF_TIER") == "thorough" {
		max = 12
	}
	// rapid's IntRange is strongly biased to small values; uni is close to uniform on 0..n-1 (and still shrinks to 0)
	uni := func(n int, name string) int { return int(rapid.Uint64().Draw(t, name) % uint64(n)) }
	dim := func(name string) int {
		if d := uni(max+max/2, name); d < max {
			return d + 1 // 1..max, two thirds
		}
		return uni(max+1, name+"_any") // 0..max
	}
	c := Case{W: dim("w"), H: dim("h"), Ctor: rapid.IntRange(0, 2).Draw(t, "ctor")}
	w, h := c.W, c.H
	if c.Ctor == 2 {
		c.Jag = rapid.SliceOfN(rapid.IntRange(-1, w+3), 0, h+3).Draw(t, "jag")
	}
	// coordinate generators: in = inside the bounds (biased to the last and first index), out = outside
	coord := func(n int, valid bool, name string) int {
		if valid && n > 0 {
			switch rapid.IntRange(0, 7).Draw(t, name+"_bias") {
			case 0, 1:
				return n - 1
			case 2:
				return 0
			}
			return rapid.IntRange(0, n-1).Draw(t, name)
		}
		return rapid.SampledFrom([]int{n, -1, n + 1, -2, n, n + 100, -1000}).Draw(t, name+"_out")
	}
	kinds := []int{OpSet, OpSet, OpSet, OpSet, OpGet, OpGet, OpRow, OpRow, OpRowSpan, OpRowSpan, OpRowSpan, OpFill, OpFill, OpFill, OpClone, OpString, OpDims}
	nops := uni(31, "nops")
	c.Ops = rapid.SliceOfN(rapid.Custom(func(t *rapid.T) Op {
		op := Op{K: rapid.SampledFrom(kinds).Draw(t, "k")}
		allValid := rapid.IntRange(0, 4).Draw(t, "all_valid") > 0 // 80 %: every coordinate inside (when the shape allows)
		v := func() bool { return allValid || rapid.Bool().Draw(t, "valid") }
		switch op.K {
		case OpSet, OpGet:
			op.X1, op.Y1 = coord(w, v(), "x"), coord(h, v(), "y")
		case OpRow:
			op.Y1 = coord(h, v(), "y")
		case OpRowSpan:
			op.X1, op.X2, op.Y1 = coord(w, v(), "x1"), coord(w, v(), "x2"), coord(h, v(), "y")
		case OpFill:
			op.X1, op.Y1, op.X2, op.Y2 = coord(w, v(), "x1"), coord(h, v(), "y1"), coord(w, v(), "x2"), coord(h, v(), "y2")
		case OpClone:
			op.B = rapid.IntRange(0, 1).Draw(t, "b")
		}
		return op
	}), nops, nops).Draw(t, "ops")
	return c
}

var specRand = pbt.Register(&pbt.Spec[Case]{
	Property: "C08", Name: "C08.rand",
	Rule: "rapid: w,h near-uniform on 0..7 (thorough 0..12) with 0 made rarer, constructor uniform, jagged input 0..h+3 rows of length -1(nil)..w+3, 0..30 operations; 80 % of " +
		"the operations have every coordinate inside (biased to the last/first index), the rest draw each coordinate outside " +
		"(size, -1, size+1, -2, far away) with probability 1/2; " + rule,
	Gen: genCase,
	Run: Run, Quick: 40000, Thorough: 150000,
})

func TestC08Enum(t *testing.T) { pbt.Check(t, specEnum) }
func TestC08Rand(t *testing.T) { pbt.Check(t, specRand) }
func TestReplay(t *testing.T)  { pbt.Replay(t) }
