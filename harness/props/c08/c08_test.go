// Package c08 decides C08: arrays.Array2D behaves as width x height independent
// cells for every shape.
//
// Files: c08_test.go   the case format, the generic executor/oracle (runT), C08.enum and C08.rand
//
//	types_test.go    element types with special characteristics, C08.types, huge zero-size grids (C08.huge)
//	big_test.go      C08.big: grids and rectangles around every power of two up to 2^17 (2^20) cells
//	extreme_test.go  C08.extreme: coordinates at the top/bottom of the int range, overflowing flat indices
package c08

import (
	"fmt"
	"os"
	"strconv"
	"strings"
	"testing"

	"gopkg.in/typ.v4/arrays"
	"pgregory.net/rapid"
	"verifharness/internal/pbt"
)

// Case is a constructor call followed by an operation script on one array.
// Every script is executable whatever the numbers are: a coordinate outside
// the bounds is a legal case whose expected result is a panic that leaves the
// array unchanged.
type Case struct {
	W    int   `json:"w"`
	H    int   `json:"h"`
	Ctor int   `json:"ctor"` // 0 New2D, 1 New2DFilled, 2 New2DFromJagged
	Jag  []int `json:"jag"`  // ctor 2: length of each jagged row, -1 = nil row; values are jagCode(row,col)
	Ops  []Op  `json:"ops"`
	// T names the element type ("" = int, see types_test.go). Values are addressed by an int code:
	// code >= 0 is an ordinary value (different codes give distinguishable values unless the type has
	// too few), code -1 is the zero value of the type, -2, -3, ... its other special values (-0.0, NaN,
	// nil, empty non-nil slice, MaxInt, ...), cyclically.
	T string `json:"t,omitempty"`
	// FillV is the code of the value given to New2DFilled; 0 = the ordinary value 7.
	FillV int `json:"fillv,omitempty"`
}

// Op kinds.
const (
	OpSet     = iota // Set(X1,Y1, value)
	OpGet            // Get(X1,Y1)
	OpRow            // Row(Y1): contents, write-through, Set seen through the slice; the slice is kept and re-checked after every later operation
	OpRowSpan        // RowSpan(X1,X2,Y1) (X1,X2 are swapped if both are in bounds and X1 > X2: the documented domain is x1 <= x2)
	OpFill           // Fill(X1,Y1,X2,Y2, value), corners in any order
	OpClone          // Clone; B even: keep working on the original, the clone becomes a frozen witness; B odd: the other way round
	OpString         // String
	OpDims           // Width, Height
	nOps
)

var opName = [nOps]string{"Set", "Get", "Row", "RowSpan", "Fill", "Clone", "String", "Dims"}

type Op struct {
	K  int `json:"k"`
	X1 int `json:"x1"`
	Y1 int `json:"y1"`
	X2 int `json:"x2"`
	Y2 int `json:"y2"`
	B  int `json:"b"`
	V  int `json:"v,omitempty"` // Set, Fill: 0 = a fresh unique value, < 0 = that special value of the element type
}

const rule = "case = shape (w,h >= 0), element type, constructor (New2D / New2DFilled with an ordinary or a special value such as the zero value / " +
	"New2DFromJagged with rows shorter, longer, more, fewer, nil; the jagged input is overwritten by the caller afterwards), " +
	"then a script of Set/Get/Row/RowSpan/Fill/Clone/String/Width+Height with coordinates inside and outside the bounds; oracle = " +
	"flat cell model with a fresh unique value per write (or a special value of the element type: zero value, -0.0, nil, ...); " +
	"after the constructor and after EVERY operation Get over the whole grid " +
	"must equal the model (so a write that aliases another cell, or a panic that altered the array, is seen at once); out-of-bounds " +
	"coordinate => must panic and leave the grid unchanged; Row/RowSpan: length, contents, every element written through the slice " +
	"(then whole grid compared), then every cell of the window Set and seen through the slice, and the last three returned slices are " +
	"kept and must stay live windows after every later operation; Fill = inclusive rectangle whichever " +
	"corners; Clone: the side not worked on is a frozen witness compared cell by cell after every later mutation; String == model " +
	"rendered [[a b] [c d]] (cells as fmt.Sprint) at the end of every case of at most 1024 cells (and wherever the script has a String operation). non-trivial = w != h, both >= 2, " +
	"and at least one successful write in the last row and one in the last column"

// maxCells bounds the grids the executor accepts (the whole grid is read back after every operation).
const maxCells = 1 << 22

// stringCells: the closing String comparison is done for grids up to this many cells (larger ones only by an explicit String op).
const stringCells = 1 << 10

// desc describes one element type.
type desc[T any] struct {
	name     string
	val      func(code int) T                             // see Case.T
	eq       func(a, b T) bool                            // "the same value came back" (bit patterns for floats, identity for slices, maps, pointers)
	nspecial int                                          // number of special values (codes -1 .. -nspecial)
	zeroSize bool                                         // all values are indistinguishable
	jag      func(w, h int, rows [][]T) arrays.Array2D[T] // nil = arrays.New2DFromJagged(w, h, rows)
}

type model[T any] struct {
	w, h  int
	cells []T
}

func (m *model[T]) clone() *model[T] {
	return &model[T]{w: m.w, h: m.h, cells: append([]T(nil), m.cells...)}
}
func (m *model[T]) inX(x int) bool { return x >= 0 && x < m.w }
func (m *model[T]) inY(y int) bool { return y >= 0 && y < m.h }
func (m *model[T]) String() string {
	var sb strings.Builder
	sb.WriteByte('[')
	for y := 0; y < m.h; y++ {
		if y > 0 {
			sb.WriteByte(' ')
		}
		sb.WriteByte('[')
		for x := 0; x < m.w; x++ {
			if x > 0 {
				sb.WriteByte(' ')
			}
			if iv, ok := any(m.cells[y*m.w+x]).(int); ok {
				sb.WriteString(strconv.Itoa(iv))
			} else {
				fmt.Fprint(&sb, m.cells[y*m.w+x])
			}
		}
		sb.WriteByte(']')
	}
	sb.WriteByte(']')
	return sb.String()
}

// try runs f and returns the recovered panic value (nil if none).
func try(f func()) (p any) {
	defer func() { p = recover() }()
	f()
	return nil
}

// diff compares Get over the whole grid with the model; "" if equal.
func diff[T any](a arrays.Array2D[T], m *model[T], d *desc[T]) (msg string) {
	x, y := 0, 0
	p := try(func() {
		if ai, ok := any(a).(arrays.Array2D[int]); ok { // same loop without the indirect call
			cells := any(m).(*model[int]).cells
			for y = 0; y < m.h; y++ {
				for x = 0; x < m.w; x++ {
					if got := ai.Get(x, y); got != cells[y*m.w+x] {
						msg = fmt.Sprintf("Get(%d,%d) = %v, want %v", x, y, got, cells[y*m.w+x])
						return
					}
				}
			}
			return
		}
		for y = 0; y < m.h; y++ {
			for x = 0; x < m.w; x++ {
				if got := a.Get(x, y); !d.eq(got, m.cells[y*m.w+x]) {
					msg = fmt.Sprintf("Get(%d,%d) = %v, want %v", x, y, got, m.cells[y*m.w+x])
					return
				}
			}
		}
	})
	if p != nil {
		return fmt.Sprintf("Get(%d,%d) (inside the bounds) panicked: %v", x, y, p)
	}
	return msg
}

type witness[T any] struct {
	a    arrays.Array2D[T]
	m    *model[T]
	step int
	orig bool // the original is the witness, the script continued on the clone
}

func (w witness[T]) what() string {
	if w.orig {
		return fmt.Sprintf("original (cloned at step %d, script continued on the clone)", w.step)
	}
	return fmt.Sprintf("clone taken at step %d", w.step)
}

// kept is a slice returned earlier by Row/RowSpan; it must remain a live window of the array it was taken from.
type kept[T any] struct {
	win       []T
	m         *model[T]
	x1, x2, y int
	row       bool
	step      int
}

func (k kept[T]) what() string {
	if k.row {
		return fmt.Sprintf("Row(%d) at step %d", k.y, k.step)
	}
	return fmt.Sprintf("RowSpan(%d,%d,%d) at step %d", k.x1, k.x2, k.y, k.step)
}

// jagCode is the value code of element col of jagged row r.
func jagCode(r, c int) int { return 2_000_000_000 + 1_000_003*r + c }

// runners maps Case.T to the executor instantiated for that element type.
var runners = map[string]func(Case) pbt.Outcome{}

// nspecials maps Case.T to the number of special values of the type.
var nspecials = map[string]int{}

// typeOrder lists the registered element types in a fixed order ("" = int first).
var typeOrder []string

func regType[T any](name string, mk func() *desc[T]) {
	if _, dup := runners[name]; dup {
		panic("c08: duplicate element type " + name)
	}
	runners[name] = func(c Case) pbt.Outcome { return runT(c, mk()) }
	nspecials[name] = mk().nspecial
	typeOrder = append(typeOrder, name)
}

// Run executes one case on the element type it names.
func Run(c Case) pbt.Outcome {
	r, ok := runners[c.T]
	if !ok {
		return pbt.Outcome{Skipped: true}
	}
	return r(c)
}

func runT[T any](c Case, d *desc[T]) pbt.Outcome {
	out := pbt.Outcome{}
	w, h := c.W, c.H
	if w < 0 || h < 0 || w > maxCells || h > maxCells || w*h > maxCells {
		out.Skipped = true
		return out
	}
	lab := func(l string) { out.Labels = append(out.Labels, l) }
	shape := fmt.Sprintf("%dx%d", w, h)
	if d.name != "" {
		shape += " " + d.name
		lab("type:" + d.name)
	} else {
		lab("type:int")
	}
	m := &model[T]{w: w, h: h, cells: make([]T, w*h)}
	var a arrays.Array2D[T]
	var ctor string
	var p any
	var jag [][]T
	switch mod(c.Ctor, 3) {
	case 0:
		ctor = fmt.Sprintf("New2D(%d,%d)", w, h)
		p = try(func() { a = arrays.New2D[T](w, h) })
		lab("ctor:New2D")
	case 1:
		code := c.FillV
		if code == 0 {
			code = 7
		}
		v := d.val(code)
		ctor = fmt.Sprintf("New2DFilled(%d,%d,%s)", w, h, valName(code, v))
		for i := range m.cells {
			m.cells[i] = v
		}
		p = try(func() { a = arrays.New2DFilled(w, h, v) })
		switch {
		case code >= 0:
			lab("ctor:New2DFilled")
		case d.nspecial > 0 && mod(-code-1, d.nspecial) == 0:
			lab("ctor:New2DFilled(zero value)")
		default:
			lab("ctor:New2DFilled(special value)")
		}
	case 2:
		jag = make([][]T, len(c.Jag))
		more, fewer, longer, shorter, nilrow := len(c.Jag) > h, len(c.Jag) < h, false, false, false
		total := 0
		for r, n := range c.Jag {
			if n < 0 {
				nilrow = true
				if r < h && w > 0 {
					shorter = true
				}
				continue
			}
			if total+n > 2*maxCells {
				n = 0
			}
			total += n
			jag[r] = make([]T, n)
			for x := range jag[r] {
				jag[r][x] = d.val(jagCode(r, x))
				if r < h && x < w {
					m.cells[r*w+x] = jag[r][x]
				}
			}
			if n > w {
				longer = true
			}
			if n < w && r < h {
				shorter = true
			}
		}
		if len(c.Jag) <= 20 {
			ctor = fmt.Sprintf("New2DFromJagged(%d,%d, rows with lengths %v (-1 = nil))", w, h, c.Jag)
		} else {
			ctor = fmt.Sprintf("New2DFromJagged(%d,%d, %d rows with lengths %v... (-1 = nil))", w, h, len(c.Jag), c.Jag[:20])
		}
		p = try(func() {
			if d.jag != nil {
				a = d.jag(w, h, jag)
			} else {
				a = arrays.New2DFromJagged(w, h, jag)
			}
		})
		lab("ctor:New2DFromJagged")
		for _, x := range []struct {
			on bool
			l  string
		}{{more, "jag:more-rows"}, {fewer, "jag:fewer-rows"}, {!more && !fewer, "jag:exact-rows"}, {longer, "jag:row-longer"},
			{shorter, "jag:row-shorter"}, {nilrow, "jag:nil-row"}, {len(c.Jag) == 0, "jag:no-rows"}} {
			if x.on {
				lab(x.l)
			}
		}
	}
	if p != nil {
		return pbt.Fail("%s (element type %s) panicked: %v", ctor, typeName(d), p)
	}
	if a.Width() != w || a.Height() != h {
		return pbt.Fail("%s: Width,Height = %d,%d", ctor, a.Width(), a.Height())
	}
	if df := diff(a, m, d); df != "" {
		return pbt.Fail("%s (element type %s): %s", ctor, typeName(d), df)
	}
	if jag != nil {
		// the array has its own cells: the caller may reuse the jagged input
		n := 0
		for r := range jag {
			for x := range jag[r] {
				jag[r][x] = d.val(900_000_000 + n)
				n++
			}
		}
		if n > 0 {
			if df := diff(a, m, d); df != "" {
				return pbt.Fail("%s (element type %s), then the caller overwrote the jagged input: the array changed: %s", ctor, typeName(d), df)
			}
			lab("jag:input-overwritten-afterwards")
		}
	}
	out.Evals = 1
	switch {
	case w == 0 || h == 0:
		lab("shape:zero-dim")
	case w == h:
		lab("shape:square")
	case w > h:
		lab("shape:wide(w>h)")
	default:
		lab("shape:tall(h>w)")
	}
	switch n := w * h; {
	case n <= 64:
		lab("cells:<=64")
	case n <= 1024:
		lab("cells:65..1024")
	case n <= 4096:
		lab("cells:1025..4096")
	case n <= 65536:
		lab("cells:4097..65536")
	default:
		lab("cells:>65536")
	}

	next := 1000
	fresh := func() int { next++; return next }
	// value of a Set/Fill: fresh unless the op asks for a special value
	opValue := func(op Op) (T, int) {
		code := op.V
		if code >= 0 || d.nspecial == 0 {
			code = fresh()
		} else {
			lab(opName[mod(op.K, int(nOps))] + ":special-value")
		}
		return d.val(code), code
	}
	lastRow, lastCol := false, false
	wrote := func(x1, y1, x2, y2 int) { // inclusive, sorted
		if y2 == h-1 {
			lastRow = true
		}
		if x2 == w-1 {
			lastCol = true
		}
	}
	var wits []witness[T]
	var keeps []kept[T]
	// the history is rendered only when a message needs it
	var calls []func() string
	history := func() string {
		hs := ctor + ";"
		for _, f := range calls {
			if len(hs) >= 500 {
				return hs + " ..."
			}
			hs += " " + f() + ";"
		}
		return hs
	}
	// verify is called after every operation
	verify := func(step int, callf func() string) string {
		if df := diff(a, m, d); df != "" {
			return fmt.Sprintf("%s array, step %d, after %s: %s; history: %s", shape, step, callf(), df, history())
		}
		for _, wt := range wits {
			if df := diff(wt.a, wt.m, d); df != "" {
				return fmt.Sprintf("%s array, step %d, after %s on the other side: the %s changed: %s; history: %s", shape, step, callf(), wt.what(), df, history())
			}
		}
		for _, k := range keeps {
			for i := range k.win {
				if !d.eq(k.win[i], k.m.cells[k.y*w+k.x1+i]) {
					return fmt.Sprintf("%s array, step %d, after %s: the slice returned earlier by %s is no longer a live window: slice[%d] = %v, cell (%d,%d) = %v; history: %s",
						shape, step, callf(), k.what(), i, k.win[i], k.x1+i, k.y, k.m.cells[k.y*w+k.x1+i], history())
				}
			}
		}
		return ""
	}

	for step, op := range c.Ops {
		k := mod(op.K, int(nOps))
		var callf func() string // built only when a message or the history needs it
		fail := func(format string, args ...any) pbt.Outcome {
			return pbt.Fail("%s array, step %d, %s: %s; history: %s", shape, step, callf(), fmt.Sprintf(format, args...), history())
		}
		switch k {
		case OpSet:
			x, y := op.X1, op.Y1
			v, code := opValue(op)
			callf = func() string { return fmt.Sprintf("Set(%d,%d,%s)", x, y, valName(code, v)) }
			p := try(func() { a.Set(x, y, v) })
			if m.inX(x) && m.inY(y) {
				if p != nil {
					return fail("panicked inside the bounds: %v", p)
				}
				m.cells[y*w+x] = v
				wrote(x, y, x, y)
				lab("Set:in")
			} else {
				if p == nil {
					return fail("did not panic although the coordinate is outside the bounds")
				}
				oobLabels(&out, "Set", w, h, []int{x}, []int{y})
			}
		case OpGet:
			x, y := op.X1, op.Y1
			callf = func() string { return fmt.Sprintf("Get(%d,%d)", x, y) }
			var got T
			p := try(func() { got = a.Get(x, y) })
			if m.inX(x) && m.inY(y) {
				if p != nil {
					return fail("panicked inside the bounds: %v", p)
				}
				if !d.eq(got, m.cells[y*w+x]) {
					return fail("= %v, want %v", got, m.cells[y*w+x])
				}
				lab("Get:in")
			} else {
				if p == nil {
					return fail("did not panic although the coordinate is outside the bounds (returned %v)", got)
				}
				oobLabels(&out, "Get", w, h, []int{x}, []int{y})
			}
		case OpRow, OpRowSpan:
			y := op.Y1
			x1, x2 := 0, w-1
			var win []T
			var p any
			valid := m.inY(y)
			if k == OpRow {
				callf = func() string { return fmt.Sprintf("Row(%d)", y) }
				p = try(func() { win = a.Row(y) })
			} else {
				x1, x2 = op.X1, op.X2
				if m.inX(x1) && m.inX(x2) && x1 > x2 {
					x1, x2 = x2, x1
				}
				valid = valid && m.inX(x1) && m.inX(x2)
				callf = func() string { return fmt.Sprintf("RowSpan(%d,%d,%d)", x1, x2, y) }
				p = try(func() { win = a.RowSpan(x1, x2, y) })
			}
			if !valid {
				if p == nil {
					return fail("did not panic although a coordinate is outside the bounds (returned a slice of length %d)", len(win))
				}
				if k == OpRow {
					oobLabels(&out, "Row", w, h, nil, []int{y})
				} else {
					oobLabels(&out, "RowSpan", w, h, []int{op.X1, op.X2}, []int{y})
				}
				break
			}
			if p != nil {
				return fail("panicked inside the bounds: %v", p)
			}
			if len(win) != x2-x1+1 {
				return fail("returned a slice of length %d, want %d", len(win), x2-x1+1)
			}
			for i := range win {
				if !d.eq(win[i], m.cells[y*w+x1+i]) {
					return fail("slice[%d] = %v, want cell (%d,%d) = %v", i, win[i], x1+i, y, m.cells[y*w+x1+i])
				}
			}
			// write through every element of the window: exactly those cells change
			for i := range win {
				v := d.val(fresh())
				win[i] = v
				m.cells[y*w+x1+i] = v
			}
			if len(win) > 0 {
				wrote(x1, y, x2, y)
			}
			if df := verify(step, func() string { return callf() + " and writing every element of the returned slice" }); df != "" {
				return pbt.Fail("%s", df)
			}
			// Set on the array is seen through the slice
			for i := range win {
				code := fresh()
				v := d.val(code)
				if p := try(func() { a.Set(x1+i, y, v) }); p != nil {
					return fail("then Set(%d,%d,%s) panicked inside the bounds: %v", x1+i, y, valName(code, v), p)
				}
				m.cells[y*w+x1+i] = v
				if !d.eq(win[i], v) {
					return fail("slice is not a live window: after Set(%d,%d,%s) slice[%d] = %v", x1+i, y, valName(code, v), i, win[i])
				}
			}
			if len(win) > 0 {
				if len(keeps) >= 3 {
					keeps = keeps[1:]
				}
				keeps = append(keeps, kept[T]{win: win, m: m, x1: x1, y: y, row: k == OpRow, x2: x2, step: step})
				lab("window:kept-and-rechecked-later")
			}
			switch {
			case k == OpRow:
				lab("Row:in")
			case x1 == 0 && x2 == w-1:
				lab("RowSpan:whole-row")
			case x1 == x2:
				lab("RowSpan:single-cell")
			default:
				lab("RowSpan:partial")
			}
		case OpFill:
			x1, y1, x2, y2 := op.X1, op.Y1, op.X2, op.Y2
			v, code := opValue(op)
			fx1, fy1, fx2, fy2 := x1, y1, x2, y2
			callf = func() string { return fmt.Sprintf("Fill(%d,%d,%d,%d,%s)", fx1, fy1, fx2, fy2, valName(code, v)) }
			p := try(func() { a.Fill(x1, y1, x2, y2, v) })
			if m.inX(x1) && m.inX(x2) && m.inY(y1) && m.inY(y2) {
				if p != nil {
					return fail("panicked although all corners are inside the bounds: %v", p)
				}
				switch {
				case x1 > x2 && y1 > y2:
					lab("Fill:both-swapped")
				case x1 > x2:
					lab("Fill:x-swapped")
				case y1 > y2:
					lab("Fill:y-swapped")
				default:
					lab("Fill:sorted")
				}
				if x1 > x2 {
					x1, x2 = x2, x1
				}
				if y1 > y2 {
					y1, y2 = y2, y1
				}
				for y := y1; y <= y2; y++ {
					for x := x1; x <= x2; x++ {
						m.cells[y*w+x] = v
					}
				}
				wrote(x1, y1, x2, y2)
				switch {
				case x1 == x2 && y1 == y2:
					lab("Fill:single-cell")
				case x1 == 0 && y1 == 0 && x2 == w-1 && y2 == h-1:
					lab("Fill:whole-grid")
				case y1 == y2:
					lab("Fill:one-row")
				case x1 == x2:
					lab("Fill:one-column")
				default:
					lab("Fill:proper-rectangle")
				}
				switch n := x2 - x1 + 1; {
				case n > 4096:
					lab("Fill:row-width>4096")
				case n > 256:
					lab("Fill:row-width 257..4096")
				case n > 32:
					lab("Fill:row-width 33..256")
				}
			} else {
				if p == nil {
					return fail("did not panic although a corner is outside the bounds")
				}
				oobLabels(&out, "Fill", w, h, []int{x1, x2}, []int{y1, y2})
			}
		case OpClone:
			callf = func() string { return "Clone()" }
			var cl arrays.Array2D[T]
			if p := try(func() { cl = a.Clone() }); p != nil {
				return fail("panicked: %v", p)
			}
			if cl.Width() != w || cl.Height() != h {
				return fail("clone has Width,Height = %d,%d", cl.Width(), cl.Height())
			}
			if df := diff(cl, m, d); df != "" {
				return fail("clone differs from the original: %s", df)
			}
			if len(wits) >= 2 {
				wits = wits[1:]
			}
			if mod(op.B, 2) == 0 {
				wits = append(wits, witness[T]{a: cl, m: m.clone(), step: step})
				lab("Clone:continue-on-original")
			} else {
				wm := m.clone()
				wits = append(wits, witness[T]{a: a, m: wm, step: step, orig: true})
				// slices taken from the original stay windows of the original
				for i := range keeps {
					if keeps[i].m == m {
						keeps[i].m = wm
					}
				}
				a = cl
				lab("Clone:continue-on-clone")
			}
		case OpString:
			callf = func() string { return "String()" }
			var s string
			if p := try(func() { s = a.String() }); p != nil {
				return fail("panicked: %v", p)
			}
			if want := m.String(); s != want {
				return fail("= %s, want %s", clip(s), clip(want))
			}
			lab("String")
		case OpDims:
			callf = func() string { return "Width(),Height()" }
			if a.Width() != w || a.Height() != h {
				return fail("= %d,%d", a.Width(), a.Height())
			}
			lab("Dims")
		}
		out.Evals++
		if df := verify(step, callf); df != "" {
			return pbt.Fail("%s", df)
		}
		if len(calls) < 40 {
			calls = append(calls, callf)
		}
	}
	// end of case: String and dimensions agree with the model
	if w*h <= stringCells {
		var s string
		if p := try(func() { s = a.String() }); p != nil {
			return pbt.Fail("%s array: String() panicked: %v; history: %s", shape, p, history())
		}
		if want := m.String(); s != want {
			return pbt.Fail("%s array: String() = %s, want %s; history: %s", shape, clip(s), clip(want), history())
		}
	}
	if a.Width() != w || a.Height() != h {
		return pbt.Fail("%s array: Width,Height = %d,%d at the end; history: %s", shape, a.Width(), a.Height(), history())
	}
	out.NonTrivial = w != h && w >= 2 && h >= 2 && lastRow && lastCol
	if w != h && w >= 2 && h >= 2 {
		switch {
		case lastRow && lastCol:
			lab("nt:rect,wrote-last-row+last-col")
		case lastRow || lastCol:
			lab("nt:rect,wrote-only-one-of-last-row/col")
		default:
			lab("nt:rect,no-edge-write")
		}
	}
	return out
}

func typeName[T any](d *desc[T]) string {
	var z T
	return fmt.Sprintf("%T", z)
}

// valName renders a value for messages.
func valName(code int, v any) string {
	s := fmt.Sprintf("%v", v)
	if len(s) > 40 {
		s = s[:40] + "..."
	}
	if code < 0 {
		return fmt.Sprintf("%s (special value #%d)", s, -code)
	}
	return s
}

// clip keeps both ends of a long String result.
func clip(s string) string {
	const n = 600
	if len(s) > n {
		return strconv.Quote(s[:n/2]) + "..." + strconv.Quote(s[len(s)-n/2:]) + fmt.Sprintf(" (%d bytes)", len(s))
	}
	return strconv.Quote(s)
}

// wrapsIntoRange reports whether the flat index x + y*stride, computed with wrapping int arithmetic as an
// implementation would, falls into [0, cells) although (x,y) is outside the bounds.
func wrapsIntoRange(x, y, stride, cells int) bool {
	i := x + y*stride
	return i >= 0 && i < cells
}

// oobLabels classifies an out-of-bounds call for the histogram.
func oobLabels(out *pbt.Outcome, name string, w, h int, xs, ys []int) {
	inX := func(x int) bool { return x >= 0 && x < w }
	inY := func(y int) bool { return y >= 0 && y < h }
	ox, oy := false, false
	for _, x := range xs {
		ox = ox || !inX(x)
	}
	for _, y := range ys {
		oy = oy || !inY(y)
	}
	edge, extreme := false, false
	const big = 1 << 31
	for _, x := range xs {
		edge = edge || x == w
		extreme = extreme || x >= big || x <= -big
	}
	for _, y := range ys {
		edge = edge || y == h
		extreme = extreme || y >= big || y <= -big
	}
	l := name + ":oob"
	switch {
	case ox && oy:
		l += "-both"
	case ox:
		l += "-x"
	default:
		l += "-y"
	}
	if edge {
		l += "(==size)"
	}
	out.Labels = append(out.Labels, l)
	if extreme {
		out.Labels = append(out.Labels, name+":oob-extreme(|coordinate|>=2^31)")
		if len(xs) == 0 {
			xs = []int{0}
		}
		wraps := false
		for _, x := range xs {
			for _, y := range ys {
				wraps = wraps || wrapsIntoRange(x, y, w, w*h)
			}
		}
		if wraps {
			out.Labels = append(out.Labels, name+":oob-extreme,overflowing-flat-index-lands-inside-the-backing-store")
		}
	}
}

func mod(a, m int) int {
	a %= m
	if a < 0 {
		a += m
	}
	return a
}

// ---------------------------------------------------------------- exhaustive unit

// scripts builds the canonical op scripts for one shape; nspecial is the number of special values of the element type.
// lite leaves out the scripts that only vary coordinates (get, fill-oob, all fill scripts but the one starting in the last row).
func scripts(w, h, nspecial int, lite bool, yield func(name string, ops []Op) bool) bool {
	var setAll []Op
	for y := 0; y < h; y++ {
		for x := 0; x < w; x++ {
			setAll = append(setAll, Op{K: OpSet, X1: x, Y1: y})
		}
	}
	// set: every cell (whole grid compared after each), then the whole ring outside
	ops := append([]Op(nil), setAll...)
	for y := -2; y <= h+1; y++ {
		for x := -2; x <= w+1; x++ {
			if x < 0 || x >= w || y < 0 || y >= h {
				ops = append(ops, Op{K: OpSet, X1: x, Y1: y})
			}
		}
	}
	ops = append(ops, Op{K: OpString}, Op{K: OpDims})
	if !yield("set", ops) {
		return false
	}
	// get: every coordinate in -2..w+1 x -2..h+1 after all cells were given unique values
	ops = append([]Op(nil), setAll...)
	for y := -2; y <= h+1; y++ {
		for x := -2; x <= w+1; x++ {
			ops = append(ops, Op{K: OpGet, X1: x, Y1: y})
		}
	}
	if !lite && !yield("get", ops) {
		return false
	}
	// row: every y in -2..h+1
	ops = nil
	for y := -2; y <= h+1; y++ {
		ops = append(ops, Op{K: OpRow, Y1: y})
	}
	if !yield("row", ops) {
		return false
	}
	// span: every x1 <= x2 in every row, then every combination with a coordinate just outside
	ops = nil
	for y := 0; y < h; y++ {
		for x1 := 0; x1 < w; x1++ {
			for x2 := x1; x2 < w; x2++ {
				ops = append(ops, Op{K: OpRowSpan, X1: x1, X2: x2, Y1: y})
			}
		}
	}
	for _, y := range []int{-1, 0, h - 1, h} {
		for _, x1 := range []int{-1, 0, w - 1, w} {
			for _, x2 := range []int{-1, 0, w - 1, w} {
				if x1 < 0 || x1 >= w || x2 < 0 || x2 >= w || y < 0 || y >= h {
					ops = append(ops, Op{K: OpRowSpan, X1: x1, X2: x2, Y1: y})
				}
			}
		}
	}
	if !yield("span", ops) {
		return false
	}
	// fill: every ordered pair of corners (so all four corner orders), one script per y1, plus corners just outside
	for y1 := 0; y1 < h; y1++ {
		if lite && y1 != h-1 {
			continue
		}
		ops = nil
		for x1 := 0; x1 < w; x1++ {
			for y2 := 0; y2 < h; y2++ {
				for x2 := 0; x2 < w; x2++ {
					ops = append(ops, Op{K: OpFill, X1: x1, Y1: y1, X2: x2, Y2: y2})
				}
			}
		}
		if !yield("fill", ops) {
			return false
		}
	}
	ops = nil
	for _, y1 := range []int{-1, 0, h - 1, h} {
		for _, y2 := range []int{-1, 0, h - 1, h} {
			for _, x1 := range []int{-1, 0, w - 1, w} {
				for _, x2 := range []int{-1, 0, w - 1, w} {
					if x1 < 0 || x1 >= w || x2 < 0 || x2 >= w || y1 < 0 || y1 >= h || y2 < 0 || y2 >= h {
						ops = append(ops, Op{K: OpFill, X1: x1, Y1: y1, X2: x2, Y2: y2})
					}
				}
			}
		}
	}
	if !lite && !yield("fill-oob", ops) {
		return false
	}
	// special: every special value of the element type (the zero value first) written by Fill and by Set over
	// cells that hold something else, and ordinary values written over it
	if w > 0 && h > 0 && nspecial > 0 {
		ops = nil
		for k := 1; k <= nspecial; k++ {
			ops = append(ops, Op{K: OpFill, X1: 0, Y1: 0, X2: w - 1, Y2: h - 1})
			ops = append(ops, Op{K: OpFill, X1: w - 1, Y1: h - 1, X2: w / 2, Y2: h / 2, V: -k})
			ops = append(ops, Op{K: OpFill, X1: 0, Y1: 0, X2: w - 1, Y2: h - 1, V: -k})
			ops = append(ops, Op{K: OpSet, X1: w / 2, Y1: h / 2}, Op{K: OpRow, Y1: h - 1})
			ops = append(ops, Op{K: OpFill, X1: 0, Y1: 0, X2: w - 1, Y2: h - 1})
			for _, s := range setAll {
				s.V = -k
				ops = append(ops, s)
			}
			ops = append(ops, Op{K: OpString}, Op{K: OpClone, B: k})
		}
		if !yield("special", ops) {
			return false
		}
	}
	// clone: mutate the original with the clone as witness, then the other way round
	ops = []Op{{K: OpClone, B: 0}}
	ops = append(ops, setAll...)
	ops = append(ops, Op{K: OpClone, B: 1})
	ops = append(ops, setAll...)
	if w > 0 && h > 0 {
		ops = append(ops, Op{K: OpFill, X1: w - 1, Y1: h - 1, X2: 0, Y2: 0}, Op{K: OpRow, Y1: h - 1})
	}
	if !yield("clone", ops) {
		return false
	}
	// keep: slices taken from rows and from a span, kept by the caller over Clone, Fill and Set on both sides
	if w > 0 && h > 0 {
		ops = []Op{{K: OpRow, Y1: 0}, {K: OpRowSpan, X1: w / 2, X2: w - 1, Y1: h - 1}, {K: OpRow, Y1: h / 2}}
		ops = append(ops, Op{K: OpFill, X1: 0, Y1: 0, X2: w - 1, Y2: h - 1}, Op{K: OpClone, B: 0})
		ops = append(ops, setAll...)
		ops = append(ops, Op{K: OpClone, B: 1}, Op{K: OpFill, X1: 0, Y1: 0, X2: w - 1, Y2: h - 1, V: -1})
		ops = append(ops, setAll...)
		if !yield("keep", ops) {
			return false
		}
	}
	return true
}

// jagVariants returns the canonical jagged inputs for one shape.
func jagVariants(w, h int) [][]int {
	rep := func(n, l int) []int {
		if n < 0 {
			n = 0
		}
		r := make([]int, n)
		for i := range r {
			r[i] = l
		}
		return r
	}
	vs := [][]int{
		rep(h, w),     // exact
		rep(h+2, w+2), // more rows, longer rows
		rep(h-1, w-1), // fewer rows, shorter rows
		rep(h+1, w-1), // more rows, shorter rows
		rep(h-1, w+1), // fewer rows, longer rows
		nil,           // no rows at all
		rep(h+1, 0),   // empty rows
		rep(h+1, -1),  // nil rows
		rep(h+3, w),   // more rows only
	}
	mixed := make([]int, h+2) // every row different: nil, shorter, exact, longer, ...
	for i := range mixed {
		mixed[i] = []int{-1, w - 1, w, w + 1, 0, w + 3}[i%6]
		if mixed[i] < -1 {
			mixed[i] = -1
		}
	}
	for i, v := range vs {
		for j := range v {
			if v[j] < -1 {
				vs[i][j] = -1
			}
		}
	}
	return append(vs, mixed)
}

// enumShape yields the canonical cases of one shape and element type.
func enumShape(T string, w, h int, lite bool, yield func(Case) bool) bool {
	nsp := nspecials[T]
	jv := jagVariants(w, h)
	// constructors alone; New2DFilled with an ordinary value and with every special value (the zero value is -1)
	if !yield(Case{T: T, W: w, H: h, Ctor: 0}) {
		return false
	}
	for k := 0; k <= nsp; k++ {
		if !yield(Case{T: T, W: w, H: h, Ctor: 1, FillV: -k}) {
			return false
		}
	}
	for _, j := range jv {
		if !yield(Case{T: T, W: w, H: h, Ctor: 2, Jag: j}) {
			return false
		}
	}
	// every script on every constructor
	i := 0
	return scripts(w, h, nsp, lite, func(name string, ops []Op) bool {
		for ctor := 0; ctor < 3; ctor++ {
			c := Case{T: T, W: w, H: h, Ctor: ctor, Ops: ops}
			if ctor == 1 && nsp > 0 {
				c.FillV = -(i % (nsp + 1)) // ordinary, zero value, other special values in turn
			}
			if ctor == 2 {
				c.Jag = jv[len(jv)-1-(i%2)*8] // mixed / more-rows-longer-rows
				i++
			}
			if !yield(c) {
				return false
			}
		}
		return true
	})
}

func enumerate(tier string, yield func(Case) bool) {
	max := 7
	if tier == "thorough" {
		max = 12
	}
	for w := 0; w <= max; w++ {
		for h := 0; h <= max; h++ {
			if !enumShape("", w, h, false, yield) {
				return
			}
		}
	}
}

var specEnum = pbt.Register(&pbt.Spec[Case]{
	Property: "C08", Name: "C08.enum",
	Rule: "element type int, exhaustive over ALL shapes 0..7 x 0..7 (thorough 0..12 x 0..12): each constructor alone (New2DFilled with 7 and with each special int " +
		"0 = zero value, -1, MaxInt, MinInt; 10 canonical jagged inputs: exact, " +
		"more/fewer rows, longer/shorter rows, none, empty rows, nil rows, mixed), then on each of the 3 constructors the canonical scripts: " +
		"set (every cell, then every coordinate of the ring -2..w+1 x -2..h+1 outside), get (that whole ring and the inside), row (every y in " +
		"-2..h+1), span (every x1 <= x2 in every row + every combination with a coordinate just outside), fill (every ordered pair of corners, " +
		"i.e. all four corner orders, + corners just outside), special (each special value written by Fill and by Set over other values and " +
		"overwritten again), clone (mutate either side against a frozen witness), keep (returned slices kept over Clone/Fill/Set on both sides); " + rule,
	Enum: func(shard, shards int, tier string, yield func(Case) bool) { enumerate(tier, yield) },
	Run:  Run, Exhaustive: true,
})

// ---------------------------------------------------------------- random unit

func genCase(t *rapid.T) Case {
	max := 7
	if os.Getenv("VERIF_TIER") == "thorough" {
		max = 12
	}
	// rapid's IntRange is strongly biased to small values; uni is close to uniform on 0..n-1 (and still shrinks to 0)
	uni := func(n int, name string) int { return int(rapid.Uint64().Draw(t, name) % uint64(n)) }
	dim := func(name string) int {
		if d := uni(max+max/2, name); d < max {
			return d + 1 // 1..max, two thirds
		}
		return uni(max+1, name+"_any") // 0..max
	}
	var c Case
	maxOps := 31
	switch sc := uni(100, "sizeclass"); {
	case sc < 78: // small
		c.W, c.H = dim("w"), dim("h")
	case sc < 88: // medium
		c.W, c.H = 1+uni(24, "w"), 1+uni(24, "h")
		maxOps = 16
	case sc < 95: // one side next to a power of two
		p := []int{15, 16, 17, 31, 32, 33, 63, 64, 65, 127, 128, 129, 255, 256, 257}[uni(15, "pow2")]
		q := 1 + uni(33, "other")
		if rapid.Bool().Draw(t, "tall") {
			c.W, c.H = q, p
		} else {
			c.W, c.H = p, q
		}
		maxOps = 10
	default: // long and thin: 1..4 by up to 9000 cells, either way round
		q := 1 + uni(4, "thin")
		p := 1 << uni(14, "longexp")
		p += uni(p, "longoff")
		if q*p > 9000 {
			p = 9000 / q
		}
		if rapid.Bool().Draw(t, "tall") {
			c.W, c.H = q, p
		} else {
			c.W, c.H = p, q
		}
		maxOps = 8
	}
	w, h := c.W, c.H
	if rapid.IntRange(0, 3).Draw(t, "other_type") == 0 {
		c.T = typeOrder[uni(len(typeOrder), "type")]
	}
	nsp := nspecials[c.T]
	c.Ctor = rapid.IntRange(0, 2).Draw(t, "ctor")
	if c.Ctor == 1 && nsp > 0 && rapid.IntRange(0, 2).Draw(t, "fill_special") == 0 {
		c.FillV = -1 - uni(nsp, "fillv")
	}
	if c.Ctor == 2 {
		c.Jag = rapid.SliceOfN(rapid.IntRange(-1, w+3), 0, h+3).Draw(t, "jag")
	}
	// coordinate generators: in = inside the bounds (biased to the last and first index), out = outside
	coord := func(n, stride int, valid bool, name string) int {
		if valid && n > 0 {
			switch rapid.IntRange(0, 7).Draw(t, name+"_bias") {
			case 0, 1:
				return n - 1
			case 2:
				return 0
			}
			return rapid.IntRange(0, n-1).Draw(t, name)
		}
		if rapid.IntRange(0, 3).Draw(t, name+"_extreme") == 0 {
			ex := extremes(n, stride)
			return ex[uni(len(ex), name+"_ex")]
		}
		return rapid.SampledFrom([]int{n, -1, n + 1, -2, n, n + 100, -1000}).Draw(t, name+"_out")
	}
	kinds := []int{OpSet, OpSet, OpSet, OpSet, OpGet, OpGet, OpRow, OpRow, OpRowSpan, OpRowSpan, OpRowSpan, OpFill, OpFill, OpFill, OpClone, OpString, OpDims}
	nops := uni(maxOps, "nops")
	c.Ops = rapid.SliceOfN(rapid.Custom(func(t *rapid.T) Op {
		op := Op{K: rapid.SampledFrom(kinds).Draw(t, "k")}
		allValid := rapid.IntRange(0, 4).Draw(t, "all_valid") > 0 // 80 %: every coordinate inside (when the shape allows)
		v := func() bool { return allValid || rapid.Bool().Draw(t, "valid") }
		switch op.K {
		case OpSet, OpGet:
			op.X1, op.Y1 = coord(w, 1, v(), "x"), coord(h, w, v(), "y")
		case OpRow:
			op.Y1 = coord(h, w, v(), "y")
		case OpRowSpan:
			op.X1, op.X2, op.Y1 = coord(w, 1, v(), "x1"), coord(w, 1, v(), "x2"), coord(h, w, v(), "y")
		case OpFill:
			op.X1, op.Y1, op.X2, op.Y2 = coord(w, 1, v(), "x1"), coord(h, w, v(), "y1"), coord(w, 1, v(), "x2"), coord(h, w, v(), "y2")
		case OpClone:
			op.B = rapid.IntRange(0, 1).Draw(t, "b")
		}
		if (op.K == OpSet || op.K == OpFill) && nsp > 0 && rapid.IntRange(0, 5).Draw(t, "special_value") == 0 {
			op.V = -1 - uni(nsp, "v")
		}
		return op
	}), nops, nops).Draw(t, "ops")
	// a coordinate whose flat index overflows back into the backing store (see extreme_test.go)
	if n := len(c.Ops); n > 0 && w > 0 && h > 0 && rapid.IntRange(0, 9).Draw(t, "wrap") == 0 {
		op := &c.Ops[uni(n, "wrap_op")]
		x := uni(w, "wrap_x")
		if y, ok := solveY(uni(w*h, "wrap_target"), x, w, h, rapid.Uint64().Draw(t, "wrap_j")); ok {
			switch op.K {
			case OpSet, OpGet:
				op.X1, op.Y1 = x, y
			case OpRow:
				op.Y1 = y
			case OpRowSpan:
				op.X1, op.X2, op.Y1 = x, x, y
			case OpFill:
				op.X1, op.X2, op.Y1, op.Y2 = x, x, y, y
			}
		}
	}
	return c
}

var specRand = pbt.Register(&pbt.Spec[Case]{
	Property: "C08", Name: "C08.rand",
	Rule: "rapid: shape classes: 78 % w,h near-uniform on 0..7 (thorough 0..12) with 0 made rarer (<= 30 operations); 10 % 1..24 x 1..24 (<= 15 operations); 7 % one side " +
		"in {2^k-1, 2^k, 2^k+1 : k = 4..8} and the other 1..33 (<= 9 operations); 5 % 1..4 by up to 9000 cells, wide or tall (<= 7 operations); element type int in 3/4 " +
		"of the cases, else one of the types of C08.types; constructor uniform (New2DFilled with a special value - zero value, -0.0, nil, ... - in 1/3 of its cases), " +
		"jagged input 0..h+3 rows of length -1(nil)..w+3; 80 % of " +
		"the operations have every coordinate inside (biased to the last/first index), the rest draw each coordinate outside with probability 1/2: " +
		"size, -1, size+1, -2, far away, and in 1/4 of these an extreme value (MaxInt, MinInt, +-2^k, +-2^k+-1 for k = 31, 32, 62, 63, the " +
		"values around MaxInt/stride and 2^64/stride where the flat index overflows); 1/6 of the Set/Fill write a special value; in 1/10 of the cases " +
		"one operation gets a y solved so that x + y*width overflows to an index inside the backing store; " + rule,
	Gen: genCase,
	Run: Run, Quick: 40000, Thorough: 150000,
})

func TestC08Enum(t *testing.T) { pbt.Check(t, specEnum) }
func TestC08Rand(t *testing.T) { pbt.Check(t, specRand) }
func TestReplay(t *testing.T)  { pbt.Replay(t) }
