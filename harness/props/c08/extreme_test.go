package c08

import (
	"math"
	"math/bits"
	"testing"

	"verifharness/internal/pbt"
)

// extremes returns coordinates outside [0,n) taken from the ends of the int range and from the places where a
// flat index "coordinate*stride" overflows: MaxInt, MinInt, +-2^k and neighbours, values that are inside the
// bounds after truncation to 32 bits or after dropping the sign bit, the largest multiplier of stride that
// does not overflow and its neighbours, and the first multipliers whose product passes 2^64 (and so comes
// back as a small non-negative number).
func extremes(n, stride int) []int {
	c := []int{
		math.MaxInt, math.MaxInt - 1, math.MinInt, math.MinInt + 1,
		1 << 62, 1<<62 + 1, 1<<62 - 1, -(1 << 62), -(1 << 62) - 1,
		1 << 32, 1<<32 + 1, 1<<32 - 1, -(1 << 32), -(1 << 32) + 1,
		1 << 31, 1<<31 + 1, 1<<31 - 1, -(1 << 31), -(1 << 31) - 1,
		3 << 61, 0x5555555555555556, 0x2AAAAAAAAAAAAAAB, 1 << 61, 1 << 60, 1 << 48,
	}
	if n > 0 {
		c = append(c, 1<<32+n-1, 1<<32+n/2, math.MinInt+n-1, math.MinInt+n/2, math.MaxInt-n, -(1<<32)+n-1, 1<<62+n-1)
	}
	if stride >= 2 {
		q := math.MaxInt / stride // the largest multiplier whose product does not overflow
		c = append(c, q, q+1, q+2, q-1, -q, -q-1, -q-2)
		u := uint64(math.MaxUint64) / uint64(stride)
		for _, v := range []uint64{u, u + 1, u + 2, u + 3} { // v*stride is just below / just above 2^64
			if v <= math.MaxInt {
				c = append(c, int(v))
			}
		}
		if n > 0 { // multipliers that are in bounds plus a multiple of 2^64/stride (only exact for powers of two)
			for _, v := range []uint64{u + uint64(n), u/2 + 1, u/2 + uint64(n)} {
				if v <= math.MaxInt {
					c = append(c, int(v))
				}
			}
		}
	}
	out := c[:0]
	for _, v := range c {
		if v < 0 || v >= n {
			out = append(out, v)
		}
	}
	return out
}

// inv64 returns the inverse of the odd number o modulo 2^64.
func inv64(o uint64) uint64 {
	x := o // o*o == 1 mod 8
	for i := 0; i < 6; i++ {
		x *= 2 - o*x
	}
	return x
}

// solveY looks for a row number y OUTSIDE [0,h) such that the flat index x + y*w, computed in wrapping 64-bit
// arithmetic, lands on cell index t (or, when w is even, the nearest index below it that can be reached)
// inside the backing store of a w x h grid. j selects among the 2^s solutions when 2^s divides w.
func solveY(t, x, w, h int, j uint64) (int, bool) {
	if w <= 0 || h <= 0 {
		return 0, false
	}
	s := uint(bits.TrailingZeros64(uint64(w)))
	o := uint64(w) >> s
	d := uint64(t) - uint64(x)
	y0 := (d >> s) * inv64(o)
	if s > 0 {
		y0 &= 1<<(64-s) - 1
		y0 |= (j & (1<<s - 1)) << (64 - s)
	}
	y := int(y0)
	if y >= 0 && y < h {
		return 0, false
	}
	if !wrapsIntoRange(x, y, w, w*h) {
		return 0, false
	}
	return y, true
}

// solveX returns the x with x + y*w == t in wrapping arithmetic (any y); ok if (x,y) is outside the bounds.
func solveX(t, y, w, h int) (int, bool) {
	x := t - y*w
	if x >= 0 && x < w && y >= 0 && y < h {
		return 0, false
	}
	return x, true
}

// extremeShapes are the shapes of the C08.extreme unit.
func extremeShapes(tier string) [][2]int {
	var s [][2]int
	for w := 1; w <= 6; w++ {
		for h := 1; h <= 6; h++ {
			s = append(s, [2]int{w, h})
		}
	}
	s = append(s, [][2]int{{8, 3}, {3, 8}, {16, 2}, {2, 16}, {12, 12}, {7, 9}, {10, 10}, {64, 64}, {64, 3}, {3, 64}, {100, 7}, {7, 100}, {255, 3}, {256, 3},
		{257, 3}, {1024, 2}, {2, 1024}, {1, 50}, {50, 1}, {0, 0}, {0, 5}, {5, 0}, {24, 5}, {96, 2}, {4096, 1}, {1, 4096}}...)
	if tier == "thorough" {
		for w := 7; w <= 20; w++ {
			for h := 1; h <= 20; h += 3 {
				s = append(s, [2]int{w, h})
			}
		}
		s = append(s, [][2]int{{65536, 1}, {1, 65536}, {256, 256}, {3 << 9, 5}, {1000, 10}, {10, 1000}}...)
	}
	return s
}

// extremeScripts yields the scripts of one shape: every script starts by giving every cell its own value.
func extremeScripts(w, h int, yield func(ops []Op) bool) bool {
	n := w * h
	var prefix []Op
	if n <= 64 {
		for y := 0; y < h; y++ {
			for x := 0; x < w; x++ {
				prefix = append(prefix, Op{K: OpSet, X1: x, Y1: y})
			}
		}
	} else if n > 0 {
		prefix = append(prefix, Op{K: OpFill, X1: 0, Y1: 0, X2: w - 1, Y2: h - 1}, Op{K: OpRow, Y1: 0}, Op{K: OpRow, Y1: h - 1}, Op{K: OpRow, Y1: h / 2},
			Op{K: OpSet, X1: w - 1, Y1: h - 1}, Op{K: OpSet, X1: 0, Y1: h - 1}, Op{K: OpSet, X1: w - 1, Y1: 0})
	}
	const chunk = 400
	var ops []Op
	flush := func(force bool) bool {
		if len(ops) >= chunk || (force && len(ops) > 0) {
			full := append(append([]Op(nil), prefix...), ops...)
			ops = ops[:0]
			return yield(full)
		}
		return true
	}
	add := func(o ...Op) bool {
		ops = append(ops, o...)
		return flush(false)
	}
	ex, ey := extremes(w, 1), extremes(h, w)
	var inx, iny []int
	if w > 0 {
		inx = []int{0, w - 1, w / 2}
	}
	if h > 0 {
		iny = []int{0, h - 1}
	}
	// (a) Get/Set: x inside and y extreme, x extreme and y inside, both extreme
	for _, y := range ey {
		for _, x := range inx {
			if !add(Op{K: OpGet, X1: x, Y1: y}, Op{K: OpSet, X1: x, Y1: y}) {
				return false
			}
		}
	}
	for _, x := range ex {
		for _, y := range iny {
			if !add(Op{K: OpGet, X1: x, Y1: y}, Op{K: OpSet, X1: x, Y1: y}) {
				return false
			}
		}
	}
	for i, x := range ex {
		y := ey[(i*7)%len(ey)]
		if !add(Op{K: OpGet, X1: x, Y1: y}, Op{K: OpSet, X1: x, Y1: y}) {
			return false
		}
	}
	// (b) Row, RowSpan, Fill with one extreme argument, the others inside
	for _, y := range ey {
		if !add(Op{K: OpRow, Y1: y}) {
			return false
		}
		if w > 0 {
			if !add(Op{K: OpRowSpan, X1: 0, X2: w - 1, Y1: y}, Op{K: OpRowSpan, X1: w / 2, X2: w / 2, Y1: y}) {
				return false
			}
			if h > 0 {
				if !add(Op{K: OpFill, X1: 0, Y1: y, X2: w - 1, Y2: h - 1}, Op{K: OpFill, X1: 0, Y1: 0, X2: w - 1, Y2: y},
					Op{K: OpFill, X1: w / 2, Y1: y, X2: w / 2, Y2: y}) {
					return false
				}
			}
		}
	}
	if w > 0 && h > 0 {
		for _, x := range ex {
			for _, y := range iny {
				if !add(Op{K: OpRowSpan, X1: x, X2: w - 1, Y1: y}, Op{K: OpRowSpan, X1: 0, X2: x, Y1: y}, Op{K: OpRowSpan, X1: x, X2: x, Y1: y},
					Op{K: OpFill, X1: x, Y1: y, X2: w - 1, Y2: h - 1}, Op{K: OpFill, X1: 0, Y1: 0, X2: x, Y2: y}, Op{K: OpFill, X1: x, Y1: y, X2: x, Y2: y}) {
					return false
				}
			}
		}
	}
	// (c) coordinates outside the bounds whose overflowing flat index x + y*w lands on a cell of the backing store
	if n > 0 {
		var targets []int
		if n <= 24 {
			for t := 0; t < n; t++ {
				targets = append(targets, t)
			}
		} else {
			for i := 0; i <= 12; i++ {
				targets = append(targets, (n-1)*i/12)
			}
			targets = append(targets, 1, w, w+1, n-2, n-w, n-w-1)
		}
		s := uint(bits.TrailingZeros64(uint64(w)))
		js := []uint64{0}
		if s > 0 {
			js = []uint64{0, 1, 2, 3, 1<<s - 1, 1 << (s - 1), 1<<(s-1) - 1, 1<<(s-1) + 1}
		}
		seen := map[[2]int]bool{}
		for _, t := range targets {
			for _, x := range inx {
				for _, j := range js {
					y, ok := solveY(t, x, w, h, j)
					if !ok || seen[[2]int{x, y}] {
						continue
					}
					seen[[2]int{x, y}] = true
					if !add(Op{K: OpGet, X1: x, Y1: y}, Op{K: OpSet, X1: x, Y1: y}, Op{K: OpRowSpan, X1: x, X2: x, Y1: y}, Op{K: OpRowSpan, X1: x, X2: w - 1, Y1: y},
						Op{K: OpFill, X1: x, Y1: y, X2: x, Y2: y}, Op{K: OpFill, X1: x, Y1: 0, X2: x, Y2: y}, Op{K: OpFill, X1: x, Y1: y, X2: w - 1, Y2: h - 1}) {
						return false
					}
					if x == 0 && !add(Op{K: OpRow, Y1: y}) {
						return false
					}
				}
			}
			// both coordinates far outside, flat index on the target
			for i, y := range ey {
				if i%5 != t%5 {
					continue
				}
				if x, ok := solveX(t, y, w, h); ok {
					if !add(Op{K: OpGet, X1: x, Y1: y}, Op{K: OpSet, X1: x, Y1: y}, Op{K: OpRowSpan, X1: x, X2: x, Y1: y}, Op{K: OpFill, X1: x, Y1: y, X2: x, Y2: y}) {
						return false
					}
				}
			}
		}
	}
	return flush(true)
}

var specExtreme = pbt.Register(&pbt.Spec[Case]{
	Property: "C08", Name: "C08.extreme",
	Rule: "enumerated, element type int: shapes 1..6 x 1..6 and 26 more (zero-dim, 8x3, 16x2, 2x16, 12x12, 64x64, 64x3, 3x64, 100x7, 255/256/257x3, 1024x2, 4096x1, ...; thorough " +
		"also 7..20 x 1..19, 65536x1, 1x65536, 256x256, 1536x5, 1000x10, 10x1000); on each, after every cell got its own value: (a) Get and Set with x inside and y extreme, x extreme and y inside, both extreme; " +
		"(b) Row, RowSpan and Fill with each single argument extreme and the others inside; (c) SOLVED coordinates: for a set of target cells t (all cells of grids up to 24 cells, " +
		"else 19 spread over the store) the y outside the bounds with x + y*width == t in wrapping 64-bit arithmetic (all 2^s variants tried when 2^s divides the width: j = 0,1,2,3,2^s-1, " +
		"2^(s-1)+-1), used in Get, Set, Row, RowSpan and Fill, and the x for extreme y with the same property. extreme = MaxInt, MinInt, +-2^k and +-2^k+-1 for k = 31, 32, 62, " +
		"3*2^61, 0x5555555555555556, values that fall inside the bounds after truncation to 32 bits or after dropping the sign bit, MaxInt/stride and 2^64/stride and their neighbours " +
		"(where coordinate*stride overflows to a negative / to a small non-negative number). Every one of these calls must panic and leave the whole grid unchanged; " + rule,
	Enum: func(shard, shards int, tier string, yield func(Case) bool) {
		for i, s := range extremeShapes(tier) {
			if i%shards != shard {
				continue
			}
			ctor := 0
			ok := extremeScripts(s[0], s[1], func(ops []Op) bool {
				ctor++
				return yield(Case{W: s[0], H: s[1], Ctor: ctor % 2, Ops: ops})
			})
			if !ok {
				return
			}
		}
	},
	Run: Run, Replicas: 4, ReplicaEvery: 8,
})

func TestC08Extreme(t *testing.T) { pbt.Check(t, specExtreme) }
