package c08

import (
	"fmt"
	"math"
	"math/bits"
	"reflect"
	"strconv"
	"testing"

	"gopkg.in/typ.v4/arrays"
	"verifharness/internal/pbt"
)

// ---------------------------------------------------------------- element types

// mkval builds desc.val from the ordinary values and the list of special values (specials[0] = zero value).
func mkval[T any](ord func(code int) T, specials []T) func(int) T {
	return func(code int) T {
		if code < 0 && len(specials) > 0 {
			return specials[mod(-code-1, len(specials))]
		}
		if code < 0 {
			code = -code
		}
		return ord(code)
	}
}

// memo makes ord return the identical value (same pointer, same map, same backing array) for the same code.
func memo[T any](ord func(code int) T) func(int) T {
	seen := map[int]T{}
	return func(code int) T {
		if v, ok := seen[code]; ok {
			return v
		}
		v := ord(code)
		seen[code] = v
		return v
	}
}

func f64eq(a, b float64) bool {
	return math.Float64bits(a) == math.Float64bits(b) || (a != a && b != b)
}

func sliceEq(a, b []int) bool {
	if (a == nil) != (b == nil) || len(a) != len(b) || cap(a) != cap(b) {
		return false
	}
	return len(a) == 0 || &a[0] == &b[0]
}

func mapEq(a, b map[int]int) bool {
	return reflect.ValueOf(a).Pointer() == reflect.ValueOf(b).Pointer()
}

// anyEq compares two interface values without ever using == on a non-comparable dynamic type.
func anyEq(a, b any) bool {
	if a == nil || b == nil {
		return a == nil && b == nil
	}
	ta, tb := reflect.TypeOf(a), reflect.TypeOf(b)
	if ta != tb {
		return false
	}
	switch x := a.(type) {
	case float64:
		return f64eq(x, b.(float64))
	case []int:
		return sliceEq(x, b.([]int))
	case map[int]int:
		return mapEq(x, b.(map[int]int))
	}
	if !ta.Comparable() {
		return reflect.DeepEqual(a, b)
	}
	return a == b
}

// ncStruct is a struct that is not comparable with == (it contains a slice and an interface).
type ncStruct struct {
	S []int
	F float64
	I any
}

// padded has padding bytes between and after its fields and an odd size in words.
type padded struct {
	A int8
	B [8]int64
	C int16
	D string
}

// celsius has its own String method (value receiver): String() of the array must show it like fmt.Sprint does.
type celsius int

func (c celsius) String() string { return strconv.Itoa(int(c)) + "°C" }

// line and grid are named slice types: New2DFromJagged takes J ~[]S, S ~[]E.
type line []celsius
type grid []line

// errval has an Error method and a pointer inside.
type errval struct {
	code int
	p    *int
}

func (e errval) Error() string { return "E" + strconv.Itoa(e.code) }

// zsnc is a zero-size type that is not comparable.
type zsnc struct {
	_ [0]func()
}

func init() {
	regType("", func() *desc[int] {
		return &desc[int]{name: "", nspecial: 4, eq: func(a, b int) bool { return a == b },
			val: mkval(func(c int) int { return c }, []int{0, -1, math.MaxInt, math.MinInt})}
	})
	regType("f64", func() *desc[float64] {
		return &desc[float64]{name: "f64", nspecial: 6, eq: f64eq,
			val: mkval(func(c int) float64 { return float64(c) + 0.5 },
				[]float64{0, math.Copysign(0, -1), math.NaN(), math.Inf(1), math.Inf(-1), math.SmallestNonzeroFloat64})}
	})
	regType("f64x2", func() *desc[[2]float64] {
		nz := math.Copysign(0, -1)
		return &desc[[2]float64]{name: "f64x2", nspecial: 4,
			eq: func(a, b [2]float64) bool { return f64eq(a[0], b[0]) && f64eq(a[1], b[1]) },
			val: mkval(func(c int) [2]float64 { return [2]float64{float64(c), -float64(c)} },
				[][2]float64{{0, 0}, {nz, nz}, {0, nz}, {nz, 0}})}
	})
	regType("c128", func() *desc[complex128] {
		nz := math.Copysign(0, -1)
		return &desc[complex128]{name: "c128", nspecial: 4,
			eq: func(a, b complex128) bool { return f64eq(real(a), real(b)) && f64eq(imag(a), imag(b)) },
			val: mkval(func(c int) complex128 { return complex(float64(c), 1) },
				[]complex128{0, complex(nz, 0), complex(0, nz), complex(math.NaN(), nz)})}
	})
	regType("slice", func() *desc[[]int] {
		return &desc[[]int]{name: "slice", nspecial: 4, eq: sliceEq,
			val: mkval(memo(func(c int) []int { return []int{c} }), [][]int{nil, {}, make([]int, 0, 4), make([]int, 1, 3)})}
	})
	regType("map", func() *desc[map[int]int] {
		return &desc[map[int]int]{name: "map", nspecial: 2, eq: mapEq,
			val: mkval(memo(func(c int) map[int]int { return map[int]int{c: c} }), []map[int]int{nil, {}})}
	})
	regType("func", func() *desc[func() int] {
		return &desc[func() int]{name: "func", nspecial: 2,
			eq: func(a, b func() int) bool {
				if a == nil || b == nil {
					return a == nil && b == nil
				}
				return a() == b()
			},
			val: mkval(func(c int) func() int { return func() int { return c } }, []func() int{nil, func() int { return -1 }})}
	})
	regType("ncstruct", func() *desc[ncStruct] {
		return &desc[ncStruct]{name: "ncstruct", nspecial: 4,
			eq: func(a, b ncStruct) bool { return sliceEq(a.S, b.S) && f64eq(a.F, b.F) && anyEq(a.I, b.I) },
			val: mkval(memo(func(c int) ncStruct { return ncStruct{S: []int{c}, F: float64(c), I: c} }),
				[]ncStruct{{}, {F: math.Copysign(0, -1)}, {I: []int(nil)}, {S: []int{}, I: map[int]int{}}})}
	})
	regType("any", func() *desc[any] {
		var np *int
		return &desc[any]{name: "any", nspecial: 8, eq: anyEq,
			val: mkval(memo(func(c int) any {
				switch c % 4 {
				case 0:
					return c
				case 1:
					return "s" + strconv.Itoa(c)
				case 2:
					return float64(c) + 0.25
				}
				return []int{c}
			}), []any{nil, 0, math.Copysign(0, -1), []int(nil), "", np, struct{}{}, map[int]int{}})}
	})
	regType("str", func() *desc[string] {
		return &desc[string]{name: "str", nspecial: 4, eq: func(a, b string) bool { return a == b },
			val: mkval(func(c int) string { return "v" + strconv.Itoa(c) }, []string{"", " ", "] [", "\x00"})}
	})
	regType("ptr", func() *desc[*int] {
		return &desc[*int]{name: "ptr", nspecial: 1, eq: func(a, b *int) bool { return a == b },
			val: mkval(memo(func(c int) *int { v := c; return &v }), []*int{nil})}
	})
	regType("u8", func() *desc[uint8] {
		return &desc[uint8]{name: "u8", nspecial: 2, eq: func(a, b uint8) bool { return a == b },
			val: mkval(func(c int) uint8 { return uint8(c%254) + 1 }, []uint8{0, 255})}
	})
	regType("padded", func() *desc[padded] {
		return &desc[padded]{name: "padded", nspecial: 2, eq: func(a, b padded) bool { return a == b },
			val: mkval(func(c int) padded {
				return padded{A: int8(c), B: [8]int64{int64(c), 1, 2, 3, 4, 5, 6, int64(-c)}, C: int16(c >> 3), D: strconv.Itoa(c)}
			}, []padded{{}, {A: -1, C: -1}})}
	})
	regType("stringer", func() *desc[celsius] {
		return &desc[celsius]{name: "stringer", nspecial: 2, eq: func(a, b celsius) bool { return a == b },
			val: mkval(func(c int) celsius { return celsius(c) }, []celsius{0, -273}),
			// named slice types for the jagged input
			jag: func(w, h int, rows [][]celsius) arrays.Array2D[celsius] {
				var g grid
				if rows != nil {
					g = make(grid, len(rows))
					for i, r := range rows {
						g[i] = line(r)
					}
				}
				return arrays.New2DFromJagged(w, h, g)
			}}
	})
	regType("error", func() *desc[error] {
		return &desc[error]{name: "error", nspecial: 2, eq: func(a, b error) bool { return a == b },
			val: mkval(memo(func(c int) error { return errval{code: c, p: new(int)} }), []error{nil, errval{}})}
	})
	regType("unit", func() *desc[struct{}] {
		return &desc[struct{}]{name: "unit", nspecial: 1, zeroSize: true, eq: func(a, b struct{}) bool { return true },
			val: func(int) struct{} { return struct{}{} }}
	})
	regType("zsnc", func() *desc[zsnc] {
		return &desc[zsnc]{name: "zsnc", nspecial: 1, zeroSize: true, eq: func(a, b zsnc) bool { return true },
			val: func(int) zsnc { return zsnc{} }}
	})
	regType("zarr", func() *desc[[0]int] {
		return &desc[[0]int]{name: "zarr", nspecial: 1, zeroSize: true, eq: func(a, b [0]int) bool { return true },
			val: func(int) [0]int { return [0]int{} }}
	})
	runners[hugeT] = runHuge
}

// typeShapes are the shapes on which every element type gets the canonical scripts of C08.enum.
func typeShapes(tier string) [][2]int {
	var s [][2]int
	max := 3
	if tier == "thorough" {
		max = 5
	}
	for w := 0; w <= max; w++ {
		for h := 0; h <= max; h++ {
			s = append(s, [2]int{w, h})
		}
	}
	s = append(s, [][2]int{{5, 2}, {2, 5}, {33, 2}, {2, 33}, {70, 1}, {1, 70}}...)
	if tier == "thorough" {
		s = append(s, [][2]int{{9, 5}, {5, 9}, {33, 3}, {3, 33}, {17, 16}, {130, 2}}...)
	}
	return s
}

var specTypes = pbt.Register(&pbt.Spec[Case]{
	Property: "C08", Name: "C08.types",
	Rule: "enumerated: every element type of {f64 float64 (special values +0, -0.0, NaN, +-Inf, denormal), f64x2 [2]float64 with -0.0 parts, c128 complex128 with -0.0/NaN parts, " +
		"slice []int (nil, empty non-nil, spare capacity; not comparable), map (nil, empty), func (nil), ncstruct struct{[]int; float64; any} (not comparable), any (nil, 0, -0.0, " +
		"non-comparable dynamic values, typed nil pointer, struct{}{}), str (\"\", blanks, brackets), ptr (nil), u8, padded (struct with padding, 96 bytes), stringer (named int with a " +
		"String method, jagged input given as named slice types), error (interface with methods, nil), unit struct{} / zsnc struct{[0]func()} / zarr [0]int (zero-size; zsnc also not " +
		"comparable)} x shapes 0..3 x 0..3 (thorough 0..5) + 5x2, 2x5, 33x2, 2x33, 70x1, 1x70 (thorough also 9x5, 5x9, 33x3, 3x33, 17x16, 130x2) x the canonical cases of C08.enum (constructors alone incl. New2DFilled with the " +
		"ordinary value and with EVERY special value of the type, 10 jagged inputs; the two-array script with three kinds of second array; scripts set/row/span/fill from the last row/special/clone/keep " +
		"on each constructor; thorough: all scripts and all four second arrays). Values are compared " +
		"by bit pattern (floats) or identity (slices, maps, pointers), String by fmt.Sprint of each cell; for zero-size types only panics, lengths and String are observable; " + rule,
	Enum: func(shard, shards int, tier string, yield func(Case) bool) {
		for i, T := range typeOrder {
			if T == "" || i%shards != shard {
				continue
			}
			for _, s := range typeShapes(tier) {
				if !enumShape(T, s[0], s[1], tier != "thorough", yield) {
					return
				}
			}
		}
	},
	Run: Run, Replicas: 4, ReplicaEvery: 16,
})

func TestC08Types(t *testing.T) { pbt.Check(t, specTypes) }

// ---------------------------------------------------------------- huge grids of zero-size cells

// hugeT is the Case.T of grids of struct{} cells with up to MaxInt cells: they cost no memory, so every width
// and height whose product fits an int is a legal shape. The cells carry no information; what can be observed
// is which calls panic, the dimensions and the lengths of the returned windows.
const hugeT = "hugeunit"

func runHuge(c Case) pbt.Outcome {
	out := pbt.Outcome{}
	w, h := c.W, c.H
	hi, lo := bits.Mul64(uint64(w), uint64(h))
	if w < 0 || h < 0 || hi != 0 || lo > math.MaxInt {
		out.Skipped = true
		return out
	}
	lab := func(l string) { out.Labels = append(out.Labels, l) }
	lab("type:" + hugeT)
	shape := fmt.Sprintf("%dx%d struct{}", w, h)
	var a arrays.Array2D[struct{}]
	var ctor string
	var p any
	switch mod(c.Ctor, 3) {
	case 0:
		ctor = fmt.Sprintf("New2D[struct{}](%d,%d)", w, h)
		p = try(func() { a = arrays.New2D[struct{}](w, h) })
		lab("ctor:New2D")
	case 1:
		ctor = fmt.Sprintf("New2DFilled(%d,%d,struct{}{})", w, h)
		p = try(func() { a = arrays.New2DFilled(w, h, struct{}{}) })
		lab("ctor:New2DFilled")
	case 2:
		jag := make([][]struct{}, len(c.Jag))
		for i, n := range c.Jag {
			if n >= 0 {
				jag[i] = make([]struct{}, n)
			}
		}
		ctor = fmt.Sprintf("New2DFromJagged(%d,%d, rows of struct{} with lengths %v)", w, h, c.Jag)
		p = try(func() { a = arrays.New2DFromJagged(w, h, jag) })
		lab("ctor:New2DFromJagged")
	}
	if p != nil {
		return pbt.Fail("%s panicked: %v", ctor, p)
	}
	switch n := int(lo); {
	case n > 1<<62:
		lab("cells:>2^62")
	case n > 1<<32:
		lab("cells:2^32..2^62")
	default:
		lab("cells:<=2^32")
	}
	inX := func(x int) bool { return x >= 0 && x < w }
	inY := func(y int) bool { return y >= 0 && y < h }
	okIn, okOut := 0, 0
	hist := ctor + ";"
	for step, op := range c.Ops {
		var call string
		fail := func(format string, args ...any) pbt.Outcome {
			return pbt.Fail("%s array, step %d, %s: %s; history: %s", shape, step, call, fmt.Sprintf(format, args...), hist)
		}
		expect := func(valid bool, p any, name string, xs, ys []int) *pbt.Outcome {
			if valid && p != nil {
				o := fail("panicked inside the bounds: %v", p)
				return &o
			}
			if !valid && p == nil {
				o := fail("did not panic although a coordinate is outside the bounds")
				return &o
			}
			if valid {
				okIn++
				lab(name + ":in")
			} else {
				okOut++
				oobLabels(&out, name, w, h, xs, ys)
			}
			return nil
		}
		switch k := mod(op.K, int(nOps)); k {
		case OpSet:
			call = fmt.Sprintf("Set(%d,%d)", op.X1, op.Y1)
			p := try(func() { a.Set(op.X1, op.Y1, struct{}{}) })
			if o := expect(inX(op.X1) && inY(op.Y1), p, "Set", []int{op.X1}, []int{op.Y1}); o != nil {
				return *o
			}
		case OpGet:
			call = fmt.Sprintf("Get(%d,%d)", op.X1, op.Y1)
			p := try(func() { a.Get(op.X1, op.Y1) })
			if o := expect(inX(op.X1) && inY(op.Y1), p, "Get", []int{op.X1}, []int{op.Y1}); o != nil {
				return *o
			}
		case OpRow:
			call = fmt.Sprintf("Row(%d)", op.Y1)
			var win []struct{}
			p := try(func() { win = a.Row(op.Y1) })
			if o := expect(inY(op.Y1), p, "Row", nil, []int{op.Y1}); o != nil {
				return *o
			}
			if inY(op.Y1) && len(win) != w {
				return fail("returned a slice of length %d, want %d", len(win), w)
			}
		case OpRowSpan:
			x1, x2 := op.X1, op.X2
			if inX(x1) && inX(x2) && x1 > x2 {
				x1, x2 = x2, x1
			}
			call = fmt.Sprintf("RowSpan(%d,%d,%d)", x1, x2, op.Y1)
			var win []struct{}
			p := try(func() { win = a.RowSpan(x1, x2, op.Y1) })
			valid := inX(x1) && inX(x2) && inY(op.Y1)
			if o := expect(valid, p, "RowSpan", []int{x1, x2}, []int{op.Y1}); o != nil {
				return *o
			}
			if valid && len(win) != x2-x1+1 {
				return fail("returned a slice of length %d, want %d", len(win), x2-x1+1)
			}
		case OpFill:
			call = fmt.Sprintf("Fill(%d,%d,%d,%d)", op.X1, op.Y1, op.X2, op.Y2)
			valid := inX(op.X1) && inX(op.X2) && inY(op.Y1) && inY(op.Y2)
			if dy := op.Y2 - op.Y1; valid && (dy > 1<<16 || dy < -(1<<16)) {
				lab("Fill:skipped(more than 65536 rows)")
				continue
			}
			p := try(func() { a.Fill(op.X1, op.Y1, op.X2, op.Y2, struct{}{}) })
			if o := expect(valid, p, "Fill", []int{op.X1, op.X2}, []int{op.Y1, op.Y2}); o != nil {
				return *o
			}
			if dx := op.X2 - op.X1; valid && (dx >= 1<<62 || dx <= -(1<<62)) {
				lab("Fill:row-width>2^62")
			}
		case OpClone:
			call = "Clone()"
			var cl arrays.Array2D[struct{}]
			if p := try(func() { cl = a.Clone() }); p != nil {
				return fail("panicked: %v", p)
			}
			if cl.Width() != w || cl.Height() != h {
				return fail("clone has Width,Height = %d,%d", cl.Width(), cl.Height())
			}
			if mod(op.B, 2) == 1 {
				a = cl
			}
			lab("Clone")
		case OpString:
			if lo > 4096 || w > 4096 || h > 4096 {
				continue // the text alone would be longer than the memory
			}
			call = "String()"
			m := &model[struct{}]{w: w, h: h, cells: make([]struct{}, w*h)}
			if s := a.String(); s != m.String() {
				return fail("= %s, want %s", clip(s), clip(m.String()))
			}
		case OpDims:
			call = "Width(),Height()"
		}
		if a.Width() != w || a.Height() != h {
			return fail("afterwards Width,Height = %d,%d", a.Width(), a.Height())
		}
		out.Evals++
		if len(hist) < 500 {
			hist += " " + call + ";"
		}
	}
	out.NonTrivial = okIn > 0 && okOut > 0 && lo > 1<<32
	return out
}

func hugeCases(yield func(Case) bool) {
	const M = math.MaxInt
	shapes := [][2]int{
		{1 << 31, 1 << 31}, {1 << 62, 1}, {1, 1 << 62}, {M, 1}, {1, M}, {1<<62 + 1, 1}, {1, 1<<62 + 1}, {3037000499, 3037000499}, {1 << 40, 1 << 20},
		{1 << 20, 1 << 40}, {0, M}, {M, 0}, {1 << 32, 1 << 30}, {1<<21 + 1, 1 << 41}, {M / 3, 3}, {3, M / 3}, {1 << 61, 3}, {3, 1 << 61}, {1<<31 - 1, 1<<32 + 1},
		{1<<32 + 1, 1<<31 - 2}, {1 << 33, 1 << 29}, {6074000999, 1518500249}, {2, 1<<62 - 1}, {1<<62 - 1, 2}, {1 << 16, 1 << 16}, {5, 7},
	}
	for _, s := range shapes {
		w, h := s[0], s[1]
		xs := []int{0, 1, w - 1, w - 2, w / 2, w, w + 1, -1, M, math.MinInt, 1 << 62, 1 << 32}
		ys := []int{0, 1, h - 1, h - 2, h / 2, h, h + 1, -1, M, math.MinInt, 1 << 62, 1 << 32}
		var ops []Op
		for _, x := range xs {
			for _, y := range ys {
				ops = append(ops, Op{K: OpGet, X1: x, Y1: y}, Op{K: OpSet, X1: x, Y1: y})
			}
		}
		for _, y := range ys {
			ops = append(ops, Op{K: OpRow, Y1: y})
			for i, x1 := range xs {
				ops = append(ops, Op{K: OpRowSpan, X1: x1, X2: w - 1, Y1: y}, Op{K: OpRowSpan, X1: 0, X2: x1, Y1: y}, Op{K: OpRowSpan, X1: x1, X2: xs[(i+3)%len(xs)], Y1: y})
			}
		}
		ops = append(ops, Op{K: OpClone, B: 1}, Op{K: OpString}, Op{K: OpDims})
		// Fill: whole rows (the widest possible runs), thin columns, corners in any order, corners outside
		for _, y := range ys {
			ops = append(ops, Op{K: OpFill, X1: 0, Y1: y, X2: w - 1, Y2: y}, Op{K: OpFill, X1: w - 1, Y1: y, X2: 0, Y2: y + 1}, Op{K: OpFill, X1: 1, Y1: y - 1, X2: w - 2, Y2: y},
				Op{K: OpFill, X1: w / 2, Y1: y, X2: w / 2, Y2: y - 3}, Op{K: OpFill, X1: 0, Y1: 0, X2: w - 1, Y2: y})
		}
		for _, x := range xs {
			ops = append(ops, Op{K: OpFill, X1: x, Y1: 0, X2: w - 1, Y2: 0}, Op{K: OpFill, X1: 0, Y1: h - 1, X2: x, Y2: h - 1}, Op{K: OpFill, X1: x, Y1: h - 1, X2: x, Y2: h - 2})
		}
		ops = append(ops, Op{K: OpClone}, Op{K: OpGet, X1: w - 1, Y1: h - 1}, Op{K: OpGet, X1: w, Y1: h - 1})
		for ctor := 0; ctor < 3; ctor++ {
			c := Case{T: hugeT, W: w, H: h, Ctor: ctor, Ops: ops}
			if ctor == 2 {
				c.Jag = []int{0, 5, -1, 70000, 1}
			}
			if !yield(c) {
				return
			}
		}
	}
}

var specHuge = pbt.Register(&pbt.Spec[Case]{
	Property: "C08", Name: "C08.huge",
	Rule: "enumerated: grids of zero-size cells (struct{}) with up to MaxInt cells - 2^31 x 2^31, 2^62 x 1, 1 x 2^62, MaxInt x 1, 1 x MaxInt, (2^62+1) x 1, 3037000499^2, 2^40 x 2^20, " +
		"0 x MaxInt, MaxInt/3 x 3, 2^61 x 3, (2^31-1) x (2^32+1), ... (26 shapes, each with New2D, New2DFilled and New2DFromJagged): Get and Set on the 12 x 12 grid of coordinates " +
		"{0, 1, size-1, size-2, size/2, size, size+1, -1, MaxInt, MinInt, 2^62, 2^32}, Row for those y, RowSpan for those (x1,x2,y) combinations, Fill of whole rows (runs of up to " +
		"MaxInt cells), of thin columns and with corners swapped / outside, Clone. Oracle: a call panics iff a coordinate is outside the bounds (x1 <= x2 for RowSpan), returned " +
		"windows have length width / x2-x1+1, Width/Height never change. one case in eight is run again as 4 parallel independent copies. non-trivial = more than 2^32 cells, at least one call inside and one outside the bounds",
	Enum: func(shard, shards int, tier string, yield func(Case) bool) { hugeCases(yield) },
	Run:  Run, Replicas: 4, ReplicaEvery: 8,
})

func TestC08Huge(t *testing.T) { pbt.Check(t, specHuge) }
