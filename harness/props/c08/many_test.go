package c08

import (
	"fmt"
	"testing"
	"time"

	"gopkg.in/typ.v4/arrays"
	"verifharness/internal/pbt"
)

// ---------------------------------------------------------------- C08.many: more than 2^16 repetitions

// manyMixed is a script that uses every operation once or twice on a w x h grid (w, h >= 1).
func manyMixed(w, h int, two bool) []Op {
	ops := []Op{
		{K: OpSet, X1: w - 1, Y1: h - 1},
		{K: OpFill, X1: w - 1, Y1: h - 1, X2: 0, Y2: h / 2},
		{K: OpRow, Y1: h - 1},
		{K: OpGet, X1: 0, Y1: 0},
		{K: OpClone, B: 0},
		{K: OpRowSpan, X1: w / 2, X2: w - 1, Y1: 0},
		{K: OpSet, X1: w, Y1: 0}, // outside
		{K: OpString},
		{K: OpClone, B: 1},
		{K: OpFill, X1: 0, Y1: 0, X2: w - 1, Y2: h - 1, V: -1},
		{K: OpDims},
		{K: OpSet, X1: 0, Y1: 0},
	}
	if !two {
		return ops
	}
	// the same, but every second call goes to the other array (both are given the same coordinates:
	// whatever is outside the smaller one panics there)
	var alt []Op
	for i, o := range ops {
		alt = append(alt, o)
		if i%2 == 0 || o.K == OpString {
			alt = append(alt, Op{K: OpSwitch})
		}
	}
	return append(alt, Op{K: OpString}, Op{K: OpSwitch}) // an odd number of switches: the next round starts on the other array
}

func manyCases(shard, shards int, tier string, yield func(Case) bool) {
	loops := []int{1<<16 + 300}
	shapes := [][2]int{{3, 2}, {2, 3}, {1, 1}, {4, 4}}
	if tier == "thorough" {
		loops = []int{1<<16 + 300, 1<<17 + 5, 1 << 18}
		shapes = append(shapes, [][2]int{{7, 1}, {1, 7}, {5, 3}, {2, 2}, {16, 2}}...)
	}
	i := 0
	emit := func(c Case) bool {
		i++
		if i%shards != shard {
			return true
		}
		return yield(c)
	}
	for _, loop := range loops {
		// one call, repeated
		for si, s := range shapes[:2] {
			w, h := s[0], s[1]
			singles := []Op{
				{K: OpSet, X1: w - 1, Y1: h - 1}, {K: OpGet, X1: w - 1, Y1: h - 1}, {K: OpFill, X1: w - 1, Y1: h - 1, X2: 1, Y2: 0}, {K: OpRow, Y1: h - 1},
				{K: OpRowSpan, X1: 1, X2: w - 1, Y1: 0}, {K: OpClone, B: 0}, {K: OpClone, B: 1}, {K: OpString}, {K: OpDims}, {K: OpSet, X1: w, Y1: h - 1},
				{K: OpGet, X1: 0, Y1: -1}, {K: OpFill, X1: 0, Y1: 0, X2: w - 1, Y2: h}, {K: OpRow, Y1: h}, {K: OpRowSpan, X1: 0, X2: w, Y1: 0},
			}
			for j, o := range singles {
				if (j+si)%2 == 1 && tier != "thorough" { // quick: each single call on one of the two shapes
					continue
				}
				c := Case{W: w, H: h, Ctor: j % 3, Ops: []Op{o}, Loop: loop}
				if c.Ctor == 2 {
					c.Jag = []int{w + 1, w - 1, w}
				}
				if !emit(c) {
					return
				}
			}
		}
		// every call in one script, on one array and alternating between two
		for si, s := range shapes {
			w, h := s[0], s[1]
			n := loop / 8
			if si == 0 || tier == "thorough" {
				n = loop // the script itself more than 2^16 times
			}
			if !emit(Case{W: w, H: h, Ctor: si % 3, Jag: []int{w, w + 1}, Ops: manyMixed(w, h, false), Loop: n}) {
				return
			}
			t := &Second{W: h + 1, H: w, Ctor: (si + 1) % 3}
			if si%2 == 1 {
				t = &Second{W: w, H: h, Ctor: 2}
			}
			if n = loop / 8; si < 2 {
				n = loop / 4
			}
			if !emit(Case{W: w, H: h, Ctor: (si + 2) % 3, Jag: []int{w, w + 1}, Two: t, Ops: manyMixed(w, h, true), Loop: n}) {
				return
			}
		}
		// other element types
		for j, T := range []string{"u8", "slice", "any", "str", "f64"} {
			if !emit(Case{T: T, W: 3, H: 2, Ctor: j % 3, Jag: []int{2, 4}, Two: &Second{W: 2, H: 3, Ctor: j % 2}, Ops: manyMixed(3, 2, j%2 == 0), Loop: loop / 16}) {
				return
			}
		}
	}
}

var specMany = pbt.Register(&pbt.Spec[Case]{
	Property: "C08", Name: "C08.many",
	Rule: "enumerated, long histories on small grids: (1) ONE call repeated 2^16+301 times (thorough also 2^17+6 and 2^18+1 times) on a 3x2 or 2x3 array (thorough: both): Set, Get, Fill, Row, RowSpan, " +
		"Clone continuing on the original / on the clone, String, Width+Height, and Set, Get, Fill, Row, RowSpan with a coordinate just outside; (2) a script with every operation (Set, Fill with " +
		"exchanged corners, Row, Get, Clone either way, RowSpan, a Set outside, String, Fill with the zero value, Width+Height: 12 calls) repeated 2^16+301 times on 3x2 and 8229 times (so more than 2^16 calls) " +
		"on 2x3, 1x1 and 4x4 (thorough: 2^16+301 times on these and on 7x1, 1x7, 5x3, 2x2, 16x2), (3) the same script ALTERNATING between two live arrays every other call (21 calls; the second array " +
		"(h+1) x w built by another constructor, or of the same shape and built from the Row windows of the first) 16459 or 8229 times, (4) the same 4114 times on u8, slice, any, str, f64. After every single call the whole of both grids, the last clones, the last three kept windows and the last " +
		"two kept String results are compared with the model, so a state that goes wrong after 2^16 calls (a wrapped counter, an exhausted pool, a cache entry evicted) is seen at the call where it " +
		"happens; " + rule,
	Enum: manyCases,
	Run:  Run, Replicas: 4, ReplicaEvery: 16,
	CaseCPU: 10 * time.Minute, // the long cases of the thorough tier (2^18 rounds), four copies at a time
})

func TestC08Many(t *testing.T) { pbt.Check(t, specMany) }

// ---------------------------------------------------------------- C08.wrap32: more than 2^32 repetitions (thorough only)

// wrapT is the Case.T of the 2^32 unit: Ops[0] is repeated 2^32 + 2^12 times on an int grid.
const wrapT = "wrap32"

// wrapBlock makes the calls number lo..hi-1 of one kind in a tight loop. After every call the cell written (or
// read) is read back with Get; with full set, the whole grid is compared with the model after every call.
// It returns the number of the failing call and a message, or -1.
func wrapBlock(k int, a arrays.Array2D[int], cells []int, w, h, x1, x2, y1 int, lo, hi int, full bool) (int, string) {
	m := &model[int]{w: w, h: h, cells: cells}
	d := &desc[int]{eq: func(a, b int) bool { return a == b }}
	at := y1*w + x1
	span := x2 - x1 + 1
	for i := lo; i < hi; i++ {
		v := i + 1
		switch k {
		case OpSet:
			a.Set(x1, y1, v)
			cells[at] = v
			if got := a.Get(x1, y1); got != v {
				return i, fmt.Sprintf("Set(%d,%d,%d), then Get(%d,%d) = %d", x1, y1, v, x1, y1, got)
			}
		case OpGet:
			if i&0xfff == 0 {
				a.Set(x1, y1, v)
				cells[at] = v
			}
			if got := a.Get(x1, y1); got != cells[at] {
				return i, fmt.Sprintf("Get(%d,%d) = %d, want %d", x1, y1, got, cells[at])
			}
		case OpFill:
			a.Fill(x1, y1, x1, y1, v)
			cells[at] = v
			if got := a.Get(x1, y1); got != v {
				return i, fmt.Sprintf("Fill(%d,%d,%d,%d,%d), then Get(%d,%d) = %d", x1, y1, x1, y1, v, x1, y1, got)
			}
		case OpRow:
			win := a.Row(y1)
			if len(win) != w {
				return i, fmt.Sprintf("Row(%d) has length %d", y1, len(win))
			}
			win[x1] = v
			cells[at] = v
			if got := a.Get(x1, y1); got != v {
				return i, fmt.Sprintf("Row(%d)[%d] = %d, then Get(%d,%d) = %d", y1, x1, v, x1, y1, got)
			}
		case OpRowSpan:
			win := a.RowSpan(x1, x2, y1)
			if len(win) != span {
				return i, fmt.Sprintf("RowSpan(%d,%d,%d) has length %d", x1, x2, y1, len(win))
			}
			win[span-1] = v
			cells[at+span-1] = v
			if got := a.Get(x2, y1); got != v {
				return i, fmt.Sprintf("RowSpan(%d,%d,%d)[%d] = %d, then Get(%d,%d) = %d", x1, x2, y1, span-1, v, x2, y1, got)
			}
		default:
			if a.Width() != w || a.Height() != h {
				return i, fmt.Sprintf("Width,Height = %d,%d", a.Width(), a.Height())
			}
		}
		if full {
			if msg := diff(a, m, d); msg != "" {
				return i, msg
			}
		}
	}
	if msg := diff(a, m, d); msg != "" {
		return hi - 1, "(whole grid compared after this call, the previous comparison was at most 65536 calls earlier) " + msg
	}
	return -1, ""
}

func runWrap32(c Case) pbt.Outcome {
	out := pbt.Outcome{}
	w, h := c.W, c.H
	if w < 2 || h < 2 || w*h > 64 || len(c.Ops) != 1 {
		out.Skipped = true
		return out
	}
	total := 1<<32 + 1<<12
	if c.Loop > 0 { // replay files and self-tests may ask for fewer
		total = c.Loop
	}
	op := c.Ops[0]
	k := mod(op.K, int(nOps))
	out.Labels = append(out.Labels, "type:int", "wrap32:"+opName[k])
	a := arrays.New2D[int](w, h)
	cells := make([]int, w*h)
	x1, x2, y1 := mod(op.X1, w), mod(op.X2, w), mod(op.Y1, h)
	if x1 > x2 {
		x1, x2 = x2, x1
	}
	// the whole grid is compared after EVERY call in the blocks of 2^16 calls that contain 2^16, 2^31, 2^32 and the end,
	// otherwise after every 2^16 calls
	const blk = 1 << 16
	special := map[int]bool{}
	for _, at := range []int{1 << 16, 1 << 31, 1 << 32, total} {
		special[(at-1)/blk], special[at/blk], special[(at+64)/blk] = true, true, true
	}
	bad, msg := -1, ""
	done := 0
	p := try(func() {
		for lo := 0; lo < total; lo += blk {
			hi := lo + blk
			if hi > total {
				hi = total
			}
			if bad, msg = wrapBlock(k, a, cells, w, h, x1, x2, y1, lo, hi, special[lo/blk]); bad >= 0 {
				return
			}
			done = hi
		}
	})
	out.Evals = done
	if p != nil {
		return pbt.Fail("%dx%d int array, %s with all coordinates inside the bounds, repeated: panicked after repetition %d: %v", w, h, opName[k], done, p)
	}
	if bad >= 0 {
		return pbt.Fail("%dx%d int array, %s repeated, repetition %d: %s", w, h, opName[k], bad, msg)
	}
	out.NonTrivial = w != h && total > 1<<32
	return out
}

func init() { runners[wrapT] = runWrap32 }

var specWrap32 = pbt.Register(&pbt.Spec[Case]{
	Property: "C08", Name: "C08.wrap32",
	Rule: "thorough only, enumerated: ONE cheap call repeated 2^32 + 4096 times on one 3x2 int array, one case per call: Set, Get (the cell is changed every 4096 calls), Fill (one cell), Row and " +
		"RowSpan (each written through), Width+Height. After every call the cell written is read with Get; the whole grid is compared with the model every 2^16 calls, and after EVERY call " +
		"in the blocks of 2^16 calls around 2^16, 2^31, 2^32 and the end. Clone and String are not repeated 2^32 times (a call costs 0.1 .. 1 microsecond: 7 .. 70 minutes); they are in C08.many (2^18). " +
		"non-trivial = the full 2^32 + 4096 calls were made",
	Enum: func(shard, shards int, tier string, yield func(Case) bool) {
		ops := []Op{{K: OpSet, X1: 2, X2: 2, Y1: 1}, {K: OpGet, X1: 2, X2: 2, Y1: 1}, {K: OpFill, X1: 1, X2: 1, Y1: 1}, {K: OpRow, X1: 1, X2: 1, Y1: 1}, {K: OpRowSpan, X1: 1, X2: 2, Y1: 1}, {K: OpDims}}
		for i, o := range ops {
			if i%shards != shard {
				continue
			}
			c := Case{T: wrapT, W: 3, H: 2, Ops: []Op{o}}
			if tier != "thorough" {
				c.Loop = 1 << 20
			}
			if !yield(c) {
				return
			}
		}
	},
	Run: Run, CaseCPU: 20 * time.Minute,
})

func TestC08Wrap32(t *testing.T) { pbt.Check(t, specWrap32) }
