package c03

import (
	"fmt"
	"math"
	"math/bits"
	"testing"

	"gopkg.in/typ.v4/sets"
	"verifharness/internal/pbt"
)

// ---------------------------------------------------------------- element types
//
// The sets are generic over every comparable type; nothing in the statement restricts it to ints. The types
// below are chosen for what could matter to a set implementation and to String: renderings that contain
// spaces, brackets, braces or nothing at all, distinct members with equal renderings, equal members with
// different renderings (0.0 / -0.0), the zero value as a member, values at the ends of the int range, a type
// with its own String method, pointers (identity, not pointee), interface elements of mixed dynamic types, a
// zero-size type (at most one member).

var elemNames = []string{"int", "string", "[2]int", "struct{int;string}", "awkward-strings", "named-Stringer", "*int", "float64", "any", "struct{}", "[2]string"}

const elemDoc = "{int (with 0); plain strings; [2]int arrays (with the zero array); struct{A int; B string} whose strings hold spaces/braces/brackets; awkward strings " +
	"(\"\", \" \", \"  \", \"a b\", \"[draft]\", \"{\", \"}\", \"[\", \"] [\"); a named int type with its own String method over MaxInt/MinInt/0/±1/±2^32; " +
	"*int pointers (nil included, equal pointees); float64 (0.0 and -0.0 as one member, ±Inf, MaxFloat64, SmallestNonzero); any (nil, 1, int8(1), \"1\", " +
	"1.0, uint(1), true, [2]int, struct{}, a struct: distinct members rendering alike); struct{} (zero-size: one possible member); [2]string arrays of awkward strings}"

type rec struct {
	A int
	B string
}

type named int

func (n named) String() string { return fmt.Sprintf("[n %d]", int(n)) }

// tableKit builds a kit from the values of codes -1..maxCode+1 (vals[code+1]). The first code of equal values
// is the canonical one.
func tableKit[T comparable](name string, vals []T) kit[T] {
	if len(vals) != maxCode+3 {
		panic("c03: kit " + name + " needs a value for every code -1.." + fmt.Sprint(maxCode+1))
	}
	idx := make(map[T]int, len(vals))
	for _, i := range append(members(1<<(maxCode+1)-1), -1, maxCode+1) { // member codes first: a canonical code is a member code
		if _, dup := idx[vals[i+1]]; !dup {
			idx[vals[i+1]] = i
		}
	}
	return kit[T]{
		name: name,
		mk:   func(code int) T { return vals[code+1] },
		un: func(v T) int {
			if c, ok := idx[v]; ok {
				return c
			}
			return -1000
		},
	}
}

// codes:                               -1       0          1    2    3      4    5    6      7    8     9    10
var awkward = []string{"never", "[draft]", "", " ", "a b", "}", "{", "] [", "a", "  ", "[", "outside"}

func awkwardKit() kit[string] { return tableKit("awkward-strings", awkward) }

func arrKit() kit[[2]int] {
	vals := make([][2]int, maxCode+3)
	for i := range vals {
		c := i - 1
		vals[i] = [2]int{c - 2, (2 - c) * 3} // code 2 is the zero value
	}
	return tableKit("[2]int", vals)
}

func recKit() kit[rec] {
	return tableKit("struct{int;string}", []rec{
		{-1, "never"}, {1, "a b"}, {1, "a"}, {}, {0, " "}, {2, "}"}, {2, "{"}, {-5, "x] [y"}, {7, ""}, {8, "8"}, {9, "9 9"}, {10, "outside"},
	})
}

func namedKit() kit[named] {
	return tableKit("named-Stringer", []named{
		1000, math.MaxInt, math.MinInt, 0, 1, -1, math.MaxInt - 1, math.MinInt + 1, 1 << 32, -(1 << 32), 255, 1001,
	})
}

// ptrKit is made anew for every case: pointer identity is what counts, all pointees are equal.
func ptrKit() kit[*int] {
	vals := make([]*int, maxCode+3)
	for i := range vals {
		if i-1 != 2 { // code 2 is the zero value (nil)
			p := new(int)
			*p = 7
			vals[i] = p
		}
	}
	return tableKit("*int", vals)
}

func floatKit() kit[float64] {
	return tableKit("float64", []float64{
		-1.5, 0, math.Copysign(0, -1), 1, math.Inf(1), math.Inf(-1), math.MaxFloat64, math.SmallestNonzeroFloat64, -1, 0.1, 1e21, 2.5,
	})
}

func anyKit() kit[any] {
	return tableKit("any", []any{
		"never", nil, 1, int8(1), "1", [2]int{1, 2}, struct{}{}, 1.0, true, uint(1), rec{1, "a"}, 'x',
	})
}

func unitKit() kit[struct{}] {
	k := tableKit("struct{}", make([]struct{}, maxCode+3))
	k.noOutside = true
	return k
}

func arrStrKit() kit[[2]string] {
	return tableKit("[2]string", [][2]string{
		{"never", ""}, {"", ""}, {"[", "]"}, {"a b", "c"}, {"]", "["}, {"a", "b c"}, {"{", "}"}, {" ", ""}, {"x", "y"}, {"8", ""}, {"", "9"}, {"out", "side"},
	})
}

func runElem(c Case) pbt.Outcome {
	var out pbt.Outcome
	switch c.Elem {
	case 0:
		out = run(c, intKit)
	case 1:
		out = run(c, strKit)
	case 2:
		out = run(c, arrKit())
	case 3:
		out = run(c, recKit())
	case 4:
		out = run(c, awkwardKit())
	case 5:
		out = run(c, namedKit())
	case 6:
		out = run(c, ptrKit())
	case 7:
		out = run(c, floatKit())
	case 8:
		out = run(c, anyKit())
	case 9:
		out = run(c, unitKit())
	case 10:
		out = run(c, arrStrKit())
	default:
		return pbt.Outcome{Skipped: true, Labels: []string{"unknown-element-type"}}
	}
	if out.Violation != "" {
		out.Violation = "[element type " + elemNames[c.Elem] + "] " + out.Violation
	} else {
		out.Labels = append(out.Labels, "elem="+elemNames[c.Elem])
	}
	return out
}

// runCartesian2: CartesianProduct over two different element types (A: the case's type, B: awkward strings).
func runCartesian2[T comparable](c Case, r runner[T], a *operand[T]) pbt.Outcome {
	rb := runner[string]{k: awkwardKit()}
	b, msg := rb.build("B", c.B)
	if msg != "" {
		return pbt.Fail("%s", msg)
	}
	ma, mb := *a.m, *b.m
	out := pbt.Outcome{Labels: []string{"op=cartesian2", "pair=" + c.A.Impl + "/" + c.B.Impl}}
	if out.NonTrivial = bits.OnesCount32(ma) >= 2 && bits.OnesCount32(mb) >= 2; out.NonTrivial {
		out.Labels = append(out.Labels, "nontrivial", "nontrivial:pair="+c.A.Impl+"/"+c.B.Impl)
	}
	if ma == 0 || mb == 0 {
		out.Labels = append(out.Labels, "an-operand-empty")
	}
	what := fmt.Sprintf("A = %s -> %v, B (awkward strings) = %s -> %v", a.desc.String(), members(ma), b.desc.String(), members(mb))
	var prod []sets.Product[T, string] = sets.CartesianProduct(a.s, b.s)
	if m := checkProduct(prod, r, rb, ma, mb, what); m != "" {
		return pbt.Fail("%s", m)
	}
	// the product belongs to the caller
	for i := range prod {
		prod[i] = sets.Product[T, string]{A: r.k.mk(maxCode + 1), B: "scribble"}
	}
	if m := r.verify("A, re-read after CartesianProduct(A,B) ["+what+"]", a.s, ma); m != "" {
		return pbt.Fail("%s", m)
	}
	if m := rb.verify("B, re-read after CartesianProduct(A,B) ["+what+"]", b.s, mb); m != "" {
		return pbt.Fail("%s", m)
	}
	return out
}

// ---------------------------------------------------------------- unit C03.types

var typeRecipes = []string{"maps", "adds", "promoted", "expunged"}

var specTypes = pbt.Register(&pbt.Spec[Case]{
	Property: "C03", Name: "C03.types",
	Rule: "exhaustive: for every element type in " + elemDoc + " and every build recipe in {maps.Set by Adds; sync2.Set all-in-dirty, promoted, with expunged entries}: " +
		"String, Clone, Range(k=0..2) and 'nested' on EVERY subset of the member codes 0..6 (so every member is the only one, and every pair/triple occurs, whatever " +
		"order the implementation enumerates in); NewSetFromSlice/Keys/Values of every subset of codes 0..4 with duplicated input followed by String; every pair of " +
		"subsets of codes {0,1,2} x {maps, sync2 promoted, sync2 expunged}^2 x {Union, Intersect, SetDiff, SymDiff, AddSet, RemoveSet, CartesianProduct, cartesian2}; " + rule,
	Enum: func(shard, shards int, tier string, yield func(Case) bool) {
		i := 0
		emit := func(c Case) bool {
			i++
			if (i-1)%shards != shard {
				return true
			}
			return yield(c)
		}
		none := Operand{Impl: "maps", Ctor: "zero"}
		for e := range elemNames {
			for m := 0; m < 1<<7; m++ {
				mem := members(uint32(m))
				for _, rc := range typeRecipes {
					a := recipe(rc, mem, 7)
					for _, op := range []string{"string", "clone", "nested"} {
						if !emit(Case{Elem: e, A: a, B: none, Op: op}) {
							return
						}
					}
					for k := 0; k <= 2; k++ {
						if !emit(Case{Elem: e, A: a, B: none, Op: "range", K: k}) {
							return
						}
					}
				}
			}
			for m := 0; m < 1<<5; m++ {
				mem := members(uint32(m))
				init := append(append([]int{}, mem...), mem...)
				if len(mem) > 0 {
					init = append(init, mem[0])
				}
				for _, impl := range []string{"maps", "sync2"} {
					for _, ctor := range []string{"slice", "keys", "values"} {
						if !emit(Case{Elem: e, A: Operand{Impl: impl, Ctor: ctor, Init: init}, B: none, Op: "string"}) {
							return
						}
					}
				}
			}
			pairRecipes := []string{"maps", "promoted", "expunged"}
			for ma := 0; ma < 8; ma++ {
				for mb := 0; mb < 8; mb++ {
					for _, ra := range pairRecipes {
						for _, rb := range pairRecipes {
							a, b := recipe(ra, members(uint32(ma)), 3), recipe(rb, members(uint32(mb)), 3)
							for _, op := range []string{"union", "intersect", "setdiff", "symdiff", "addset", "removeset", "cartesian", "cartesian2"} {
								if !emit(Case{Elem: e, A: a, B: b, Op: op}) {
									return
								}
							}
						}
					}
				}
			}
		}
	},
	Run: Run, Exhaustive: true, Retries: 40,
})

func TestC03Types(t *testing.T) { pbt.Check(t, specTypes) }
