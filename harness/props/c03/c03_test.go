// Package c03 decides C03: the operations of sets.Set equal mathematical set
// algebra in both implementations (maps.Set, sync2.Set), in every pairing, and
// for every construction history of the concurrent set (which decides the
// internal read-map / dirty-map / deleted-entry layout of its sync2.Map).
// Everything here is single-goroutine.
package c03

import (
	"fmt"
	"math/bits"
	"runtime"
	"sort"
	"strconv"
	"strings"
	"sync/atomic"
	"testing"
	"time"

	"gopkg.in/typ.v4/maps"
	"gopkg.in/typ.v4/sets"
	"gopkg.in/typ.v4/sync2"
	"pgregory.net/rapid"
	"verifharness/internal/gstate"
	"verifharness/internal/pbt"
)

// HOp is one step of a construction history.
// K: "add" "rem" "has" (V = member code) | "len" "slice" "string" | "range" (V = k: the callback
// answers false at its k-th call; 0 = never).
type HOp struct {
	K string `json:"k"`
	V int    `json:"v"`
}

// Operand says how one set is built: a constructor followed by a history.
type Operand struct {
	Impl string `json:"impl"`           // "maps" | "sync2"
	Ctor string `json:"ctor"`           // "zero" | "slice" | "keys" | "values" (NewSetFromSlice/Keys/Values on Init)
	Init []int  `json:"init,omitempty"` // member codes, duplicates allowed
	Hist []HOp  `json:"hist"`
}

// POp is a mutation applied after the operation under test; On: 0 = A, 1 = B, 2 = result (A when there is none).
type POp struct {
	On int    `json:"on"`
	K  string `json:"k"` // "add" | "rem"
	V  int    `json:"v"`
}

type Case struct {
	Elem  int     `json:"elem"` // element type, index into elemNames (types_test.go): 0 int (one member 0), 1 plain strings, 2.. see there
	A     Operand `json:"a"`
	B     Operand `json:"b"`
	Alias bool    `json:"alias"` // B is the very same object as A (honoured for union/intersect/setdiff/symdiff/cartesian/addset/removeset)
	Op    string  `json:"op"`    // union intersect setdiff symdiff addset removeset clone cartesian cartesian2 nested range string
	K     int     `json:"k"`     // for op "range": stop at the k-th call (0 = never)
	Post  []POp   `json:"post"`
}

const (
	maxCode = 9 // member codes 0..maxCode are legal; generators use 0..7, the detachment probe may use 8, 9
)

const rule = "case = two operands, each {maps.Set | sync2.Set} x {empty | NewSetFromSlice/Keys/Values(input with duplicates)} x construction " +
	"history of Add/Remove/Has/Len/Slice/Range(stop at k)/String over member codes 0..7 (every step checked against a bit-set model: Add/Remove " +
	"results, Has, Len, Slice and Range enumerate each member exactly once, Range makes exactly min(k,n) calls, String is exactly '{' + one fmt.Sprint " +
	"rendering per member, in any order, separated by single spaces + '}' — matched as a multiset by search, because renderings may be empty, contain " +
	"spaces/brackets/braces or coincide for distinct members); no " +
	"observation is made between history and operation, so the sync2.Map layout the history produced (clean read map, amended+dirty, nil entries, " +
	"expunged entries, promoted) is the one the operation runs on; then ONE operation from Union/Intersect/SetDiff/SymDiff/AddSet/RemoveSet/Clone/" +
	"CartesianProduct/Range/String (B may be the same object as A for the pure ones), 'nested' (A.Range whose callback uses the read-only methods " +
	"Has/Len/Slice/String/Range of A and Has of B) or 'cartesian2' (CartesianProduct of A with a Set[string] of awkward strings: two element types; " +
	"non-trivial there = both operands have >= 2 members); result, return value and both operands are compared with " +
	"the model (Has over all codes, Len, Slice — whose returned slice is then overwritten by the caller —, Range); then generated mutations of " +
	"A/B/result and a fixed detachment probe (mutate result => " +
	"operands unchanged, mutate operands => result unchanged), all three re-read after each. non-trivial = A∩B, A\\B and B\\A all non-empty at the " +
	"time of the operation. Labels report the real internal layout of every sync2 operand at the time of the operation (read by reflection, labels only)"

// kit maps member codes -1..maxCode+1 to values of the element type. Two codes 0..maxCode may denote the
// same member (0.0 and -0.0; every value of a zero-size type): the model works on canonical codes
// (un(mk(code)), the lowest code of the member). Codes -1 and maxCode+1 are never inserted.
type kit[T comparable] struct {
	name      string
	mk        func(int) T
	un        func(T) int // canonical code; -1000 when the value is no member code
	noOutside bool        // the type has no value besides the member codes (zero-size type): no "never inserted" probes
}

var intKit = kit[int]{
	name: "int",
	mk:   func(i int) int { return i*5 - 10 }, // code 2 is the zero value
	un: func(v int) int {
		if (v+10)%5 != 0 {
			return -1000
		}
		return (v + 10) / 5
	},
}

var strKit = kit[string]{
	name: "string",
	mk:   func(i int) string { return "k" + strconv.Itoa(i) },
	un: func(s string) int {
		if len(s) < 2 || s[0] != 'k' {
			return -1000
		}
		i, err := strconv.Atoi(s[1:])
		if err != nil {
			return -1000
		}
		return i
	},
}

func Run(c Case) pbt.Outcome { return runElem(c) }

// keptStrings: every String() result of the case, kept by the caller, with a private copy made when it was
// returned. A string is immutable: what String returned must still read the same after any later call.
type keptString struct{ got, copied, what string }

// kept is per run (a field of the runner): Run is reentrant (pbt.Spec.Replicas)
type kept struct{ list []keptString }

func (kp *kept) keep(what, got string) {
	if kp != nil && len(kp.list) < 64 {
		kp.list = append(kp.list, keptString{got, strings.Clone(got), what})
	}
}

func (kp *kept) intact() string {
	for i, k := range kp.list {
		if k.got != k.copied {
			return fmt.Sprintf("the string returned by String() call number %d of the case (%s) changed after later calls: it now reads %.80q, it was returned as %.80q", i+1, k.what, k.got, k.copied)
		}
	}
	return ""
}

func members(m uint32) []int {
	r := make([]int, 0, bits.OnesCount32(m))
	for v := 0; v <= maxCode; v++ {
		if m&(1<<uint(v)) != 0 {
			r = append(r, v)
		}
	}
	return r
}

func eqInts(a, b []int) bool {
	if len(a) != len(b) {
		return false
	}
	for i := range a {
		if a[i] != b[i] {
			return false
		}
	}
	return true
}

func norm(v int) int {
	v %= maxCode + 1
	if v < 0 {
		v += maxCode + 1
	}
	return v
}

type operand[T comparable] struct {
	name string
	s    sets.Set[T]
	m    *uint32       // model: bit v set <=> code v is a member
	s2   *sync2.Set[T] // the concrete concurrent set, when that is what s is
	tr   tracker
	desc *strings.Builder // how it was built (for messages)
}

type runner[T comparable] struct {
	kp *kept
	k  kit[T]
}

func (r runner[T]) codes(vs []T) []int {
	out := make([]int, len(vs))
	for i, v := range vs {
		out[i] = r.k.un(v)
	}
	sort.Ints(out)
	return out
}

// rangeK runs Range with a callback that answers false at its k-th call (k == 0: never).
func (r runner[T]) rangeK(s sets.Set[T], k int) (seen []int, calls int) {
	s.Range(func(x T) bool {
		calls++
		seen = append(seen, r.k.un(x))
		return k == 0 || calls < k
	})
	return seen, calls
}

func (r runner[T]) checkRange(what string, s sets.Set[T], m uint32, k int) string {
	seen, calls := r.rangeK(s, k)
	n := bits.OnesCount32(m)
	want := n
	if k > 0 && k < n {
		want = k
	}
	if calls != want {
		return fmt.Sprintf("%s: Range with a callback answering false at call %d made %d calls, want %d (members %v, visited %v)", what, k, calls, want, members(m), seen)
	}
	var dup uint32
	for _, v := range seen {
		if v < 0 || v > maxCode || m&(1<<uint(v)) == 0 {
			return fmt.Sprintf("%s: Range visited %v, which is not a member (members %v, visited %v)", what, r.show(v), members(m), seen)
		}
		if dup&(1<<uint(v)) != 0 {
			return fmt.Sprintf("%s: Range visited member code %d twice (members %v, visited %v)", what, v, members(m), seen)
		}
		dup |= 1 << uint(v)
	}
	return ""
}

func (r runner[T]) show(code int) string {
	if code < -1 || code > maxCode+1 {
		return "<a value that was never inserted>"
	}
	return fmt.Sprintf("code %d (%#v)", code, r.k.mk(code))
}

// canon returns the canonical code of the member that code denotes.
func (r runner[T]) canon(code int) int { return r.k.un(r.k.mk(code)) }

// at returns the value of a (normalised) code and the model bit of its member.
func (r runner[T]) at(code int) (T, uint32) {
	v := r.k.mk(code)
	return v, 1 << uint(r.k.un(v))
}

// checkString: String() must be '{' + the members, each formatted as fmt.Sprint does, each exactly once, in
// any order, separated by single spaces + '}'. Member renderings may be empty, contain spaces, brackets and
// braces, and distinct members may render alike, so the body is matched against the multiset of renderings by
// a search over (members used so far, position) rather than by splitting at spaces. A member that has two
// equal-comparing values with different renderings (0.0 and -0.0) may appear as either.
func (r runner[T]) checkString(what string, s sets.Set[T], m uint32) string {
	got := s.String()
	r.kp.keep(what, got)
	alts := r.wantStrings(m)
	if len(got) >= 2 && got[0] == '{' && got[len(got)-1] == '}' && matchBody(got[1:len(got)-1], alts) {
		return ""
	}
	return fmt.Sprintf("%s: String() = %q, want '{' + the %d members formatted with fmt.Sprint, each once, in some order, separated by single spaces + '}'; member renderings: %q",
		what, got, len(alts), alts)
}

// matchBody reports whether body is a permutation of one rendering per member joined by single spaces.
func matchBody(body string, alts [][]string) bool {
	n := len(alts)
	if n == 0 {
		return body == ""
	}
	type state struct {
		used uint32
		pos  int
	}
	dead := map[state]bool{}
	full := uint32(1)<<uint(n) - 1
	var rec func(used uint32, pos int) bool
	rec = func(used uint32, pos int) bool {
		if used == full {
			return pos == len(body)
		}
		st := state{used, pos}
		if dead[st] {
			return false
		}
		if used != 0 { // separator before every member but the first
			if pos >= len(body) || body[pos] != ' ' {
				dead[st] = true
				return false
			}
			pos++
		}
		for i := 0; i < n; i++ {
			if used&(1<<uint(i)) != 0 {
				continue
			}
			for _, a := range alts[i] {
				if strings.HasPrefix(body[pos:], a) && rec(used|1<<uint(i), pos+len(a)) {
					return true
				}
			}
		}
		dead[st] = true
		return false
	}
	return rec(0, 0)
}

// wantStrings returns, per member, the acceptable renderings (more than one only for members with several
// equal-comparing values).
func (r runner[T]) wantStrings(m uint32) [][]string {
	var w [][]string
	for _, v := range members(m) {
		var alt []string
		for c := 0; c <= maxCode; c++ {
			if r.canon(c) != v {
				continue
			}
			s := fmt.Sprint(r.k.mk(c))
			dup := false
			for _, a := range alt {
				dup = dup || a == s
			}
			if !dup {
				alt = append(alt, s)
			}
		}
		w = append(w, alt)
	}
	return w
}

// verify re-reads a set completely and compares it with its model.
func (r runner[T]) verify(what string, s sets.Set[T], m uint32) string {
	for v := -1; v <= maxCode+1; v++ {
		if (v < 0 || v > maxCode) && r.k.noOutside {
			continue
		}
		c := r.canon(v)
		want := c >= 0 && c <= maxCode && m&(1<<uint(c)) != 0
		if got := s.Has(r.k.mk(v)); got != want {
			return fmt.Sprintf("%s: Has(%s) = %v, want %v (members should be %v)", what, r.show(v), got, want, members(m))
		}
	}
	if got, want := s.Len(), bits.OnesCount32(m); got != want {
		return fmt.Sprintf("%s: Len() = %d, want %d (members should be %v)", what, got, want, members(m))
	}
	sl := s.Slice()
	if got := r.codes(sl); !eqInts(got, members(m)) {
		return fmt.Sprintf("%s: Slice() has member codes %v, want each of %v exactly once", what, got, members(m))
	}
	// Slice returns a NEW slice: the caller may do with it what it likes (everything after this is read again)
	for i := range sl {
		sl[i] = r.k.mk(maxCode + 1)
	}
	if cap(sl) > len(sl) {
		_ = append(sl, r.k.mk(-1))
	}
	return r.checkRange(what, s, m, 0)
}

func (r runner[T]) build(name string, o Operand) (*operand[T], string) {
	op := &operand[T]{name: name, m: new(uint32), desc: &strings.Builder{}}
	var init []T
	var mask uint32
	for _, v := range o.Init {
		x, bit := r.at(norm(v))
		init = append(init, x)
		mask |= bit
	}
	isSync := o.Impl == "sync2"
	switch o.Ctor {
	case "slice":
		if isSync {
			op.s = sync2.NewSetFromSlice(init)
		} else {
			op.s = maps.NewSetFromSlice(init)
		}
	case "keys":
		if len(init)%2 == 0 {
			// a source map that already has the set's own underlying type; emptied by the caller afterwards
			km := map[T]struct{}{}
			for _, v := range init {
				km[v] = struct{}{}
			}
			if isSync {
				op.s = sync2.NewSetFromKeys(km)
			} else {
				op.s = maps.NewSetFromKeys(km)
			}
			for k := range km {
				if k == k {
					delete(km, k)
				}
			}
			break
		}
		km := map[T]int{}
		for i, v := range init {
			km[v] = i
		}
		if isSync {
			op.s = sync2.NewSetFromKeys(km)
		} else {
			op.s = maps.NewSetFromKeys(km)
		}
		for k := range km {
			if k == k {
				delete(km, k)
			}
		}
	case "values":
		vm := map[int]T{}
		for i, v := range init {
			vm[i] = v
		}
		if isSync {
			op.s = sync2.NewSetFromValues(vm)
		} else {
			op.s = maps.NewSetFromValues(vm)
		}
	default:
		mask = 0
		if isSync {
			op.s = &sync2.Set[T]{}
		} else {
			op.s = make(maps.Set[T])
		}
	}
	*op.m = mask
	fmt.Fprintf(op.desc, "%s.%s%v", o.Impl, o.Ctor, o.Init)
	if p, ok := op.s.(*sync2.Set[T]); ok {
		op.s2 = p
		op.tr.step(inspect(p))
	}
	for i, h := range o.Hist {
		if msg := r.hist(op, i, h); msg != "" {
			return op, msg
		}
		if op.s2 != nil {
			op.tr.step(inspect(op.s2))
		}
	}
	return op, ""
}

func (r runner[T]) hist(o *operand[T], i int, h HOp) string {
	what := fmt.Sprintf("%s (%s), history step %d %s(%d)", o.name, o.desc.String(), i, h.K, h.V)
	m := *o.m
	switch h.K {
	case "add":
		v := norm(h.V)
		x, bit := r.at(v)
		want := m&bit == 0
		if got := o.s.Add(x); got != want {
			return fmt.Sprintf("%s: Add(%s) returned %v, want %v (members before: %v)", what, r.show(v), got, want, members(m))
		}
		*o.m |= bit
	case "rem":
		v := norm(h.V)
		x, bit := r.at(v)
		want := m&bit != 0
		if got := o.s.Remove(x); got != want {
			return fmt.Sprintf("%s: Remove(%s) returned %v, want %v (members before: %v)", what, r.show(v), got, want, members(m))
		}
		if want {
			o.tr.removed = true
		}
		*o.m &^= bit
	case "has":
		v := norm(h.V)
		x, bit := r.at(v)
		want := m&bit != 0
		if got := o.s.Has(x); got != want {
			return fmt.Sprintf("%s: Has(%s) = %v, want %v (members: %v)", what, r.show(v), got, want, members(m))
		}
	case "len":
		if got, want := o.s.Len(), bits.OnesCount32(m); got != want {
			return fmt.Sprintf("%s: Len() = %d, want %d (members: %v)", what, got, want, members(m))
		}
	case "slice":
		if got := r.codes(o.s.Slice()); !eqInts(got, members(m)) {
			return fmt.Sprintf("%s: Slice() has member codes %v, want each of %v exactly once", what, got, members(m))
		}
	case "range":
		k := h.V
		if k < 0 {
			k = 0
		}
		return r.checkRange(what, o.s, m, k)
	case "string":
		return r.checkString(what, o.s, m)
	}
	return ""
}

// checkProduct: CartesianProduct(A,B) must be exactly the |A|*|B| distinct pairs of AxB.
func checkProduct[TA, TB comparable](prod []sets.Product[TA, TB], ra runner[TA], rb runner[TB], ma, mb uint32, what string) string {
	na, nb := bits.OnesCount32(ma), bits.OnesCount32(mb)
	var seen [maxCode + 1][maxCode + 1]bool
	show := func() string {
		var sb strings.Builder
		for _, p := range prod {
			fmt.Fprintf(&sb, "(%d,%d)", ra.k.un(p.A), rb.k.un(p.B))
		}
		return sb.String()
	}
	if len(prod) != na*nb {
		return fmt.Sprintf("CartesianProduct(A,B) has %d pairs, want |A|*|B| = %d; pairs (as codes) %s; %s", len(prod), na*nb, show(), what)
	}
	for _, p := range prod {
		x, y := ra.k.un(p.A), rb.k.un(p.B)
		if x < 0 || x > maxCode || y < 0 || y > maxCode || ma&(1<<uint(x)) == 0 || mb&(1<<uint(y)) == 0 {
			return fmt.Sprintf("CartesianProduct(A,B) contains the pair (%#v,%#v), which is not in AxB; pairs (as codes) %s; %s", p.A, p.B, show(), what)
		} else if seen[x][y] {
			return fmt.Sprintf("CartesianProduct(A,B) contains the pair of codes (%d,%d) twice; pairs %s; %s", x, y, show(), what)
		}
		seen[x][y] = true
	}
	return ""
}

// nested: read-only methods used from inside a Range callback (the documentation forbids only methods that
// modify the set there): every visited member is a member according to Has of the same set, Has of B answers
// by B's model, and at the first call Len, Slice, String and a complete inner Range of the same set agree
// with the model; the outer Range still visits every member exactly once.
func (r runner[T]) nested(a, b *operand[T], what string) string {
	ma, mb := *a.m, *b.m
	n := bits.OnesCount32(ma)
	var msg string
	var seen []int
	fail := func(f string, args ...any) bool {
		if msg == "" {
			msg = fmt.Sprintf("inside the callback of A.Range (call %d): ", len(seen)) + fmt.Sprintf(f, args...) + "; " + what
		}
		return false
	}
	a.s.Range(func(x T) bool {
		v := r.k.un(x)
		seen = append(seen, v)
		if v < 0 || v > maxCode || ma&(1<<uint(v)) == 0 {
			return fail("visited %#v, which is not a member", x)
		}
		if !a.s.Has(x) {
			return fail("A.Has(%s) = false for the member being visited", r.show(v))
		}
		if got, want := b.s.Has(x), mb&(1<<uint(v)) != 0; got != want {
			return fail("B.Has(%s) = %v, want %v", r.show(v), got, want)
		}
		if len(seen) == 1 {
			if got := a.s.Len(); got != n {
				return fail("A.Len() = %d, want %d", got, n)
			}
			if got := r.codes(a.s.Slice()); !eqInts(got, members(ma)) {
				return fail("A.Slice() has member codes %v, want %v", got, members(ma))
			}
			if m := r.checkString("A", a.s, ma); m != "" {
				return fail("%s", m)
			}
			if m := r.checkRange("inner A.Range", a.s, ma, 0); m != "" {
				return fail("%s", m)
			}
			if m := r.checkRange("inner A.Range", a.s, ma, 1); m != "" {
				return fail("%s", m)
			}
		}
		return true
	})
	if msg != "" {
		return msg
	}
	sort.Ints(seen)
	if !eqInts(seen, members(ma)) {
		return fmt.Sprintf("A.Range with a callback that calls read-only methods of A and B visited member codes %v, want each of %v exactly once; %s", seen, members(ma), what)
	}
	return ""
}

// mayHang runs f; with guard set it runs it in a goroutine of its own and reports the wait state if that goroutine
// is seen blocked in a sync primitive (twice, 2ms apart) - the case has no other goroutine, so nothing can wake it.
func mayHang(guard bool, f func()) string {
	if !guard {
		f()
		return ""
	}
	var gid atomic.Pointer[string]
	var returned atomic.Bool
	var pan any
	go func() {
		id := gstate.GoID()
		gid.Store(&id)
		defer func() {
			pan = recover()
			returned.Store(true)
		}()
		f()
	}()
	for gid.Load() == nil {
		runtime.Gosched()
	}
	fin, st, timedOut := gstate.WaitDoneOrBlockedIn(*gid.Load(), gstate.SyncBlocked, returned.Load, 20*time.Second)
	if timedOut {
		return "?"
	}
	if !fin {
		return st
	}
	if pan != nil {
		panic(pan)
	}
	return ""
}

func aliasable(op string) bool {
	switch op {
	case "union", "intersect", "setdiff", "symdiff", "cartesian", "nested", "addset", "removeset":
		return true
	}
	return false
}

func run[T comparable](c Case, k kit[T]) pbt.Outcome {
	kp := &kept{}
	out := runWith(c, k, kp)
	if out.Violation == "" {
		if msg := kp.intact(); msg != "" {
			return pbt.Fail("%s", msg)
		}
	}
	return out
}

func runWith[T comparable](c Case, k kit[T], kp *kept) pbt.Outcome {
	r := runner[T]{k: k, kp: kp}
	var out pbt.Outcome
	a, msg := r.build("A", c.A)
	if msg != "" {
		return pbt.Fail("%s", msg)
	}
	if c.Op == "cartesian2" {
		return runCartesian2(c, r, a)
	}
	b := a
	alias := c.Alias && aliasable(c.Op)
	if !alias {
		if b, msg = r.build("B", c.B); msg != "" {
			return pbt.Fail("%s", msg)
		}
	}
	ma, mb := *a.m, *b.m

	// ---- classes
	lab := func(s string) { out.Labels = append(out.Labels, s) }
	lab("op=" + c.Op)
	pair := c.A.Impl + "/" + c.B.Impl
	if alias {
		pair = c.A.Impl + "/same-object"
	}
	lab("pair=" + pair)
	out.NonTrivial = ma&mb != 0 && ma&^mb != 0 && mb&^ma != 0
	if out.NonTrivial {
		lab("nontrivial")
		lab("nontrivial:pair=" + pair)
	}
	if ma == 0 || mb == 0 {
		lab("an-operand-empty")
	}
	for _, o := range []*operand[T]{a, b} {
		if o.s2 == nil || (o == b && alias) {
			continue
		}
		lab("sync2-operand")
		l := o.tr.prev
		if !l.ok {
			lab("sync2:layout-unreadable")
			continue
		}
		role := o.name + "@" + c.Op
		switch {
		case l.amended && l.readExp > 0:
			lab("sync2@op:amended+expunged-entries")
			lab(role + ":expunged")
		case l.amended && l.readNil > 0:
			lab("sync2@op:amended+nil-entries")
		case l.amended && l.readLive+l.readNil+l.readExp == 0:
			lab("sync2@op:amended,read-map-empty")
		case l.amended:
			lab("sync2@op:amended")
		case l.readNil > 0:
			lab("sync2@op:clean+nil-entries")
			lab(role + ":clean+nil")
		case o.tr.promotions > 0:
			lab("sync2@op:clean(promoted)")
		default:
			lab("sync2@op:never-written")
		}
		if l.amended {
			lab(role + ":amended")
		}
		if l.amended && l.misses > 0 && l.misses+1 >= l.dirtyLen {
			lab("sync2@op:one-miss-from-promotion")
		}
		if o.tr.remThenPromOrRe {
			lab("sync2:history-has-removal-then-promotion-or-dirty-creation")
		}
		if o.tr.creations >= 2 {
			lab("sync2:history-recreated-dirty")
		}
		if o.tr.promotions > 0 {
			lab("sync2:history-promoted")
		}
		if o.tr.everExp {
			lab("sync2:history-had-expunged")
		}
		if o.tr.everNil {
			lab("sync2:history-had-nil")
		}
		if o.tr.promotedNil {
			lab("sync2:history-promoted-holding-nil")
		}
	}

	// ---- the operation under test
	what := fmt.Sprintf("A = %s -> %v, B = %s -> %v", a.desc.String(), members(ma), b.desc.String(), members(mb))
	if alias {
		what = fmt.Sprintf("A = %s -> %v, B is the same object", a.desc.String(), members(ma))
	}
	var res sets.Set[T]
	var mr *uint32
	binary := func(name string, want uint32, f func(sets.Set[T]) sets.Set[T]) string {
		res = f(b.s)
		if res == nil {
			return fmt.Sprintf("A.%s(B) returned nil; %s", name, what)
		}
		mr = new(uint32)
		*mr = want
		return r.verify(fmt.Sprintf("result of A.%s(B) [%s]", name, what), res, want)
	}
	msg = ""
	switch c.Op {
	case "union":
		msg = binary("Union", ma|mb, a.s.Union)
	case "intersect":
		msg = binary("Intersect", ma&mb, a.s.Intersect)
	case "setdiff":
		msg = binary("SetDiff", ma&^mb, a.s.SetDiff)
	case "symdiff":
		msg = binary("SymDiff", ma^mb, a.s.SymDiff)
	case "clone":
		msg = binary("Clone", ma, func(sets.Set[T]) sets.Set[T] { return a.s.Clone() })
	case "addset":
		want := bits.OnesCount32(mb &^ ma)
		var got int
		if hung := mayHang(alias, func() { got = a.s.AddSet(b.s) }); hung == "?" {
			return pbt.Outcome{Inconclusive: "A.AddSet(A) neither returned nor was seen blocked within 20s"}
		} else if hung != "" {
			return pbt.Fail("A.AddSet(A) never returns: its goroutine is blocked in %q with nobody else around; %s", hung, what)
		}
		if got != want {
			msg = fmt.Sprintf("A.AddSet(B) returned %d, want %d = |B\\A|; %s", got, want, what)
		}
		*a.m = ma | mb
	case "removeset":
		want := bits.OnesCount32(mb & ma)
		var got int
		if hung := mayHang(alias, func() { got = a.s.RemoveSet(b.s) }); hung == "?" {
			return pbt.Outcome{Inconclusive: "A.RemoveSet(A) neither returned nor was seen blocked within 20s"}
		} else if hung != "" {
			return pbt.Fail("A.RemoveSet(A) never returns: its goroutine is blocked in %q with nobody else around; %s", hung, what)
		}
		if got != want {
			msg = fmt.Sprintf("A.RemoveSet(B) returned %d, want %d = |A∩B|; %s", got, want, what)
		}
		*a.m = ma &^ mb
	case "cartesian":
		msg = checkProduct(sets.CartesianProduct(a.s, b.s), r, r, ma, mb, what)
	case "nested":
		msg = r.nested(a, b, what)
	case "range":
		kk := c.K
		if kk < 0 {
			kk = 0
		}
		msg = r.checkRange("A ["+what+"]", a.s, ma, kk)
	case "string":
		msg = r.checkString("A ["+what+"]", a.s, ma)
	}
	if msg != "" {
		return pbt.Fail("%s", msg)
	}
	if res != nil {
		switch res.(type) {
		case maps.Set[T]:
			lab("result-impl=maps")
		case *sync2.Set[T]:
			lab("result-impl=sync2")
		default:
			lab("result-impl=other")
		}
	}

	// ---- operands (and result) re-read after the call and after every later mutation
	type target struct {
		name string
		s    sets.Set[T]
		m    *uint32
	}
	ts := []target{{"A", a.s, a.m}}
	if !alias {
		ts = append(ts, target{"B", b.s, b.m})
	}
	if res != nil {
		ts = append(ts, target{"the result", res, mr})
	}
	reread := func(after string) string {
		for _, t := range ts {
			if m := r.verify(fmt.Sprintf("%s, re-read %s [op %s; before the op: %s]", t.name, after, c.Op, what), t.s, *t.m); m != "" {
				return m
			}
		}
		return ""
	}
	if m := reread("after the operation"); m != "" {
		return pbt.Fail("%s", m)
	}
	mutate := func(t target, kind string, v int, why string) string {
		x, bit := r.at(v)
		if kind == "add" {
			want := *t.m&bit == 0
			if got := t.s.Add(x); got != want {
				return fmt.Sprintf("%s: Add(%s) on %s returned %v, want %v (members %v) [op %s; before the op: %s]", why, r.show(v), t.name, got, want, members(*t.m), c.Op, what)
			}
			*t.m |= bit
		} else {
			want := *t.m&bit != 0
			if got := t.s.Remove(x); got != want {
				return fmt.Sprintf("%s: Remove(%s) on %s returned %v, want %v (members %v) [op %s; before the op: %s]", why, r.show(v), t.name, got, want, members(*t.m), c.Op, what)
			}
			*t.m &^= bit
		}
		return reread(fmt.Sprintf("after %s(%s) on %s (%s)", kind, r.show(v), t.name, why))
	}
	pick := func(on int) target {
		switch {
		case on == 1 && !alias:
			return ts[1]
		case on == 2 && res != nil:
			return ts[len(ts)-1]
		}
		return ts[0]
	}
	for i, p := range c.Post {
		kind := "add"
		if p.K == "rem" {
			kind = "rem"
		}
		if m := mutate(pick(p.On), kind, norm(p.V), fmt.Sprintf("post-mutation %d", i)); m != "" {
			return pbt.Fail("%s", m)
		}
	}
	// fixed detachment probe: every set gains its lowest absent code and loses its lowest member, result first
	if res != nil {
		order := []target{ts[len(ts)-1]}
		order = append(order, ts[:len(ts)-1]...)
		for _, t := range order {
			for v := 0; v <= maxCode; v++ {
				if r.canon(v) == v && *t.m&(1<<uint(v)) == 0 {
					if m := mutate(t, "add", v, "detachment probe"); m != "" {
						return pbt.Fail("%s", m)
					}
					break
				}
			}
			for v := 0; v <= maxCode; v++ {
				if *t.m&(1<<uint(v)) != 0 {
					if m := mutate(t, "rem", v, "detachment probe"); m != "" {
						return pbt.Fail("%s", m)
					}
					break
				}
			}
		}
	}
	return out
}

// ---------------------------------------------------------------- generators

// Len/Slice/Range/String promote the dirty map (which also drops expunged entries), so a second, "quiet"
// profile uses them rarely: there nil and expunged entries survive until the operation under test.
var histKinds = [][]string{
	{"add", "add", "add", "add", "add", "add", "rem", "rem", "rem", "rem", "rem", "has", "has", "has", "has", "len", "slice", "range", "string"},
	{"add", "rem", "has", "add", "rem", "add", "rem", "has", "add", "rem", "add", "rem", "has", "add", "rem", "add", "rem", "has", "add", "rem",
		"add", "rem", "has", "add", "rem", "add", "rem", "has", "add", "rem", "len", "slice", "range", "string"},
}

func genOperand(t *rapid.T, name string) Operand {
	o := Operand{Impl: rapid.SampledFrom([]string{"maps", "sync2", "sync2"}).Draw(t, name+"-impl")}
	o.Ctor = rapid.SampledFrom([]string{"zero", "zero", "zero", "zero", "slice", "keys", "values"}).Draw(t, name+"-ctor")
	if o.Ctor != "zero" {
		o.Init = rapid.SliceOfN(rapid.IntRange(0, 7), 0, 12).Draw(t, name+"-init")
	}
	hopOf := func(kinds []string) *rapid.Generator[HOp] {
		return rapid.Custom(func(t *rapid.T) HOp {
			k := rapid.SampledFrom(kinds).Draw(t, "k")
			switch k {
			case "len", "slice", "string":
				return HOp{K: k}
			case "range":
				return HOp{K: k, V: rapid.IntRange(0, 4).Draw(t, "stop")}
			}
			return HOp{K: k, V: rapid.IntRange(0, 7).Draw(t, "v")}
		})
	}
	profile := rapid.IntRange(0, 2).Draw(t, name+"-profile")
	if profile < 2 {
		o.Hist = pbt.OpsOf(t, hopOf(histKinds[profile]), []int{0, 2, 5, 9}, name+"-hist")
		return o
	}
	// staged: grow, observe once (promotes a concurrent set), shrink, grow again — the shape that leaves nil
	// entries in a clean read map and then expunges them when the dirty map is re-created
	o.Hist = pbt.OpsOf(t, hopOf([]string{"add", "add", "add", "add", "has", "rem"}), []int{1, 3, 5}, name+"-grow")
	o.Hist = append(o.Hist, rapid.SliceOfN(hopOf([]string{"len", "slice", "range", "string"}), 0, 1).Draw(t, name+"-observe")...)
	o.Hist = append(o.Hist, pbt.OpsOf(t, hopOf([]string{"rem", "rem", "rem", "has", "add"}), []int{0, 2, 4}, name+"-shrink")...)
	o.Hist = append(o.Hist, rapid.SliceOfN(hopOf([]string{"add", "add", "add", "has", "rem"}), 0, 5).Draw(t, name+"-regrow")...)
	return o
}

// rapid favours the first entry of a SampledFrom list; SymDiff is the operation with the most moving parts
var opKinds = []string{
	"symdiff", "addset", "removeset", "intersect", "setdiff", "union", "cartesian", "clone", "range", "string", "nested", "cartesian2",
	"symdiff", "addset", "removeset", "intersect", "setdiff", "union", "cartesian", "string",
	"symdiff", "addset", "removeset", "intersect", "setdiff", "union",
}

var specRand = pbt.Register(&pbt.Spec[Case]{
	Property: "C03", Name: "C03.rand", Rule: "rapid: element type drawn from " + elemDoc + "; histories of 0..40 steps per operand (three profiles: mixed, few observers, staged grow/observe/shrink/regrow), 8% same-object operands, 0..12 post-mutations; " + rule,
	Gen: func(t *rapid.T) Case {
		c := Case{Elem: rapid.IntRange(0, len(elemNames)-1).Draw(t, "elem")}
		c.A = genOperand(t, "a")
		c.B = genOperand(t, "b")
		c.Op = rapid.SampledFrom(opKinds).Draw(t, "op")
		if c.Op == "range" {
			c.K = rapid.IntRange(0, 5).Draw(t, "k")
		}
		if aliasable(c.Op) {
			c.Alias = rapid.IntRange(0, 11).Draw(t, "alias") == 0
		}
		pop := rapid.Custom(func(t *rapid.T) POp {
			return POp{On: rapid.IntRange(0, 2).Draw(t, "on"), K: rapid.SampledFrom([]string{"add", "rem"}).Draw(t, "k"), V: rapid.IntRange(0, 7).Draw(t, "v")}
		})
		c.Post = pbt.OpsOf(t, pop, []int{0, 1, 3}, "post")
		return c
	},
	Run: Run, Quick: 30000, Thorough: 200000, Replicas: 4, ReplicaEvery: 16,
	// broken library code may fail or not depending on the order in which the library walks its own Go maps
	// (AddSet, Union, ... range over one); a replay therefore gets several attempts
	Retries: 40,
})

// ---- exhaustive unit: every pair of subsets of a small universe x every layout recipe x every operation

// recipes build a set with exactly the members `mem` (codes < n) in a chosen internal layout; the other codes
// < n are inserted and deleted again at the right moments, code 7 is a temporary.
var recipes = []string{"maps", "adds", "promoted", "nil", "expunged", "unexpunged", "promoted-nil"}

func recipe(name string, mem []int, n int) Operand {
	var h []HOp
	add := func(vs ...int) {
		for _, v := range vs {
			h = append(h, HOp{"add", v})
		}
	}
	rem := func(vs ...int) {
		for _, v := range vs {
			h = append(h, HOp{"rem", v})
		}
	}
	// the entries that end up deleted are those of the universe's non-members, so that the other operand
	// can hold exactly the values whose entries are nil/expunged here (spare code n when there is no non-member)
	var x []int
	for v := 0; v < n; v++ {
		isMem := false
		for _, m := range mem {
			isMem = isMem || m == v
		}
		if !isMem {
			x = append(x, v)
		}
	}
	if len(x) == 0 {
		x = []int{n}
	}
	const tmp = 7
	o := Operand{Impl: "sync2", Ctor: "zero"}
	expunged := func() {
		// spare codes live in a clean read map, are deleted (nil), then a new key forces a dirty map: they become expunged
		last, rest := tmp, mem
		if len(mem) > 0 {
			last, rest = mem[len(mem)-1], mem[:len(mem)-1]
		}
		add(rest...)
		add(x...)
		h = append(h, HOp{K: "len"})
		rem(x...)
		add(last)
		if len(mem) == 0 {
			rem(tmp)
		}
	}
	switch name {
	case "maps":
		o.Impl = "maps"
		add(mem...)
	case "adds": // everything in the dirty map, read map empty
		add(mem...)
	case "promoted":
		add(mem...)
		h = append(h, HOp{K: "len"})
	case "nil":
		add(mem...)
		add(x...)
		h = append(h, HOp{K: "slice"})
		rem(x...)
	case "expunged":
		expunged()
	case "unexpunged": // an expunged entry is revived into the dirty map and deleted again
		expunged()
		add(x[0])
		rem(x[0])
	case "promoted-nil": // entries deleted while a dirty map exists, then promoted: clean read map holding nil entries
		add(mem...)
		add(x...)
		h = append(h, HOp{K: "len"})
		add(tmp)
		rem(x...)
		rem(tmp)
		h = append(h, HOp{K: "range", V: 1})
	}
	o.Hist = h
	return o
}

var specEnum = pbt.Register(&pbt.Spec[Case]{
	Property: "C03", Name: "C03.enum",
	Rule: "exhaustive: every pair (A,B) of subsets of {0,1,2} (thorough: {0,1,2,3}) x every pair of build recipes {maps.Set by Adds; sync2.Set: " +
		"all-in-dirty, promoted, clean+nil entries, expunged entries, unexpunged-then-deleted, promoted-holding-nil} x {Union, Intersect, SetDiff, " +
		"SymDiff, AddSet, RemoveSet, CartesianProduct}; plus same-object operands (A.Union(A) ... A.AddSet(A), A.RemoveSet(A): these two run in a goroutine of their own, seen blocked = never returns) and Clone/Range(k=0..3)/String on every " +
		"(subset, recipe); int members; " + rule,
	Enum: func(shard, shards int, tier string, yield func(Case) bool) {
		n := 3
		if tier == "thorough" {
			n = 4
		}
		subsets := make([][]int, 1<<uint(n))
		for m := range subsets {
			subsets[m] = members(uint32(m))
		}
		i := 0
		emit := func(c Case) bool {
			i++
			if (i-1)%shards != shard {
				return true
			}
			return yield(c)
		}
		for _, ra := range recipes {
			for _, sa := range subsets {
				a := recipe(ra, sa, n)
				for _, op := range []string{"clone", "string"} {
					if !emit(Case{A: a, B: Operand{Impl: "maps", Ctor: "zero"}, Op: op}) {
						return
					}
				}
				for k := 0; k <= 3; k++ {
					if !emit(Case{A: a, B: Operand{Impl: "maps", Ctor: "zero"}, Op: "range", K: k}) {
						return
					}
				}
				for _, op := range []string{"union", "intersect", "setdiff", "symdiff", "cartesian", "addset", "removeset"} {
					if !emit(Case{A: a, Alias: true, Op: op}) {
						return
					}
				}
				for _, rb := range recipes {
					for _, sb := range subsets {
						b := recipe(rb, sb, n)
						for _, op := range []string{"union", "intersect", "setdiff", "symdiff", "addset", "removeset", "cartesian"} {
							if !emit(Case{A: a, B: b, Op: op}) {
								return
							}
						}
					}
				}
			}
		}
	},
	Run: Run, Exhaustive: true, Retries: 40,
})

func TestC03Enum(t *testing.T) { pbt.Check(t, specEnum) }
func TestC03Rand(t *testing.T) { pbt.Check(t, specRand) }
func TestReplay(t *testing.T)  { pbt.Replay(t) }
