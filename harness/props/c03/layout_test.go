package c03

import (
	"reflect"
	"sync/atomic"
	"unsafe"

	"gopkg.in/typ.v4/sync2"
)

// layout is what the concurrent set's underlying sync2.Map looks like inside
// right now. It is read with reflect/unsafe and is used ONLY for the class
// histogram (which internal layouts the generated construction histories
// really reached) — never by the oracle.
type layout struct {
	ok       bool // inspection worked
	amended  bool // read.amended: dirty map holds keys missing from the read map
	dirty    bool // m.dirty != nil
	readLive int  // read-map entries holding a value
	readNil  int  // read-map entries deleted (p == nil)
	readExp  int  // read-map entries expunged
	dirtyLen int
	misses   int
}

// inspect never touches the set through its API and works for every element type: a read-map entry that
// holds a pointer is live, unless a dirty map exists and does not contain that very entry — then it is the
// expunged marker (expunged entries exist only while there is a dirty map, and the dirty map holds exactly
// the read map's non-expunged entries plus the new keys).
func inspect[T comparable](s *sync2.Set[T]) (l layout) {
	defer func() {
		if recover() != nil {
			l = layout{}
		}
	}()
	m := reflect.ValueOf(s).Elem().FieldByName("m")
	d := m.FieldByName("dirty")
	l.dirty = !d.IsNil()
	l.dirtyLen = d.Len()
	inDirty := map[uintptr]bool{}
	if l.dirty {
		it := d.MapRange()
		for it.Next() {
			inDirty[it.Value().Pointer()] = true
		}
	}
	av := (*atomic.Value)(unsafe.Pointer(m.FieldByName("read").UnsafeAddr()))
	if ro := av.Load(); ro != nil {
		rv := reflect.ValueOf(ro)
		l.amended = rv.FieldByName("amended").Bool()
		it := rv.FieldByName("m").MapRange()
		for it.Next() {
			p := it.Value().Elem().FieldByName("p").Pointer()
			switch {
			case p == 0:
				l.readNil++
			case l.dirty && !inDirty[it.Value().Pointer()]:
				l.readExp++
			default:
				l.readLive++
			}
		}
	}
	l.misses = int(m.FieldByName("misses").Int())
	l.ok = true
	return l
}

// tracker follows one sync2 operand through its construction history.
type tracker struct {
	prev            layout
	removed         bool // a Remove succeeded at some point
	promotions      int  // amended true -> false
	creations       int  // amended false -> true (>= 2: the dirty map was re-created)
	remThenPromOrRe bool // a successful removal was followed by a promotion or a dirty-map (re-)creation
	everNil         bool
	everExp         bool
	promotedNil     bool // a promotion left deleted entries in the (now clean) read map
}

func (t *tracker) step(l layout) {
	if !l.ok {
		return
	}
	if t.prev.amended && !l.amended {
		t.promotions++
		if t.removed {
			t.remThenPromOrRe = true
		}
		if l.readNil > 0 {
			t.promotedNil = true
		}
	}
	if !t.prev.amended && l.amended {
		t.creations++
		if t.removed {
			t.remThenPromOrRe = true
		}
	}
	if l.readNil > 0 {
		t.everNil = true
	}
	if l.readExp > 0 {
		t.everExp = true
	}
	t.prev = l
}
