package c03

import (
	"fmt"
	"math"
	"sort"
	"strconv"
	"testing"

	"gopkg.in/typ.v4/maps"
	"gopkg.in/typ.v4/sets"
	"gopkg.in/typ.v4/sync2"
	"verifharness/internal/pbt"
)

// Unit C03.big: the same statement on sets of tens to thousands of members, where fixed-size buffers, counters
// of a narrow type, "small set" fast paths, size-dependent choice of the operand to iterate, growth of the
// underlying maps and the miss-counting promotion of the concurrent map (a Has of a dirty-only key counts a
// miss; len(dirty) misses promote) would show. Members are codes 0..U-1 mapped to values by a bigKit; the model
// is a []bool over the codes.

// BigOperand describes one operand: members are the codes Lo..Lo+N-1.
type BigOperand struct {
	Impl string `json:"impl"` // "maps" | "sync2"
	Ctor string `json:"ctor"` // "adds" | "slice" | "keys" | "values" (NewSetFromSlice/Keys/Values)
	Dup  int    `json:"dup"`  // slice/values: the input holds every value Dup+1 times
	// Lay: "plain" (nothing after construction) | "observed" (Len once: a concurrent set is promoted) |
	// "holes" (built with N/2+1 extra members, observed, extras removed: deleted entries stay in a clean read map) |
	// "expunged" (as holes, but the last 1+N/8 members are added after the removals: the dirty map is re-created,
	// the deleted entries become expunged, the late members live in the dirty map only)
	Lay string `json:"lay"`
	Lo  int    `json:"lo"`
	N   int    `json:"n"`
}

type BigCase struct {
	Elem  int        `json:"elem"` // 0: ints spread over the whole int range, 1: strings, 2: [2]int arrays
	A     BigOperand `json:"a"`
	B     BigOperand `json:"b"`
	Alias bool       `json:"alias"` // B is the same object as A (pure operations only)
	// Op: union intersect setdiff symdiff addset removeset cartesian | unary (Len, Slice, Range with stops at
	// 1, 2, n/2, n-1, n, n+1, String, Clone, nested read-only calls from a Range callback; on A alone)
	Op string `json:"op"`
}

type bigKit[T comparable] struct {
	mk func(int) T // code >= 0
	un func(T) int // -1 when the value is no code
}

const bigSpan = 1 << 40

func bigIntMk(c int) int {
	switch c % 4 {
	case 0:
		return c
	case 1:
		return -c
	case 2:
		return math.MaxInt - c
	}
	return math.MinInt + c
}

var bigIntKit = bigKit[int]{
	mk: bigIntMk,
	un: func(v int) int {
		c := -1
		switch {
		case v >= 0 && v < bigSpan:
			c = v
		case v < 0 && v > -bigSpan:
			c = -v
		case v > math.MaxInt-bigSpan:
			c = math.MaxInt - v
		case v < math.MinInt+bigSpan:
			c = v - math.MinInt
		}
		if c < 0 || bigIntMk(c) != v {
			return -1
		}
		return c
	},
}

var bigStrKit = bigKit[string]{
	mk: func(c int) string { return "m" + strconv.Itoa(c) },
	un: func(s string) int {
		if len(s) < 2 || s[0] != 'm' || (s[1] == '0' && len(s) > 2) {
			return -1
		}
		c, err := strconv.Atoi(s[1:])
		if err != nil || c < 0 || s[1] == '-' || s[1] == '+' {
			return -1
		}
		return c
	},
}

var bigArrKit = bigKit[[2]int]{
	mk: func(c int) [2]int { return [2]int{c, ^c} },
	un: func(v [2]int) int {
		if v[0] < 0 || v[1] != ^v[0] {
			return -1
		}
		return v[0]
	},
}

func RunBig(c BigCase) pbt.Outcome {
	kp := &kept{}
	out := runBigElem(c, kp)
	if out.Violation == "" {
		if msg := kp.intact(); msg != "" {
			return pbt.Fail("%s", msg)
		}
	}
	return out
}

func runBigElem(c BigCase, kp *kept) pbt.Outcome {
	switch c.Elem {
	case 1:
		return runBig(c, bigStrKit, kp)
	case 2:
		return runBig(c, bigArrKit, kp)
	}
	return runBig(c, bigIntKit, kp)
}

type bigRunner[T comparable] struct {
	kp *kept
	k  bigKit[T]
	u  int // codes 0..u-1 exist; u-2 and u-1 are never inserted
}

func count(m []bool) int {
	n := 0
	for _, b := range m {
		if b {
			n++
		}
	}
	return n
}

func brief(m []bool) string {
	n := count(m)
	var first []int
	for c, b := range m {
		if b && len(first) < 6 {
			first = append(first, c)
		}
	}
	return fmt.Sprintf("%d members (lowest codes %v)", n, first)
}

// enumerated checks that the codes visited are members, each at most once, and exactly `want` many.
func (r bigRunner[T]) enumerated(what, how string, vs []T, m []bool, want int) string {
	seen := make([]bool, r.u)
	for i, v := range vs {
		c := r.k.un(v)
		if c < 0 || c >= r.u || !m[c] {
			return fmt.Sprintf("%s: %s yields %#v (position %d), which is not a member; the set should hold %s", what, how, v, i, brief(m))
		}
		if seen[c] {
			return fmt.Sprintf("%s: %s yields the member code %d (%#v) twice (second time at position %d of %d)", what, how, c, v, i, len(vs))
		}
		seen[c] = true
	}
	if len(vs) != want {
		return fmt.Sprintf("%s: %s yields %d members, want %d; the set should hold %s", what, how, len(vs), want, brief(m))
	}
	return ""
}

func (r bigRunner[T]) rangeK(what string, s sets.Set[T], m []bool, k int) string {
	n := count(m)
	var seen []T
	calls := 0
	s.Range(func(x T) bool {
		calls++
		if len(seen) <= n+8 {
			seen = append(seen, x)
		}
		return k == 0 || calls < k
	})
	want := n
	if k > 0 && k < n {
		want = k
	}
	if calls != want {
		return fmt.Sprintf("%s: Range with a callback answering false at call %d made %d calls, want %d (the set should hold %s)", what, k, calls, want, brief(m))
	}
	return r.enumerated(what, fmt.Sprintf("Range(stop at call %d)", k), seen, m, want)
}

// verify re-reads a set completely: Len, Slice, Range, Has over every code (and two values never inserted).
func (r bigRunner[T]) verify(what string, s sets.Set[T], m []bool) string {
	n := count(m)
	if got := s.Len(); got != n {
		return fmt.Sprintf("%s: Len() = %d, want %d", what, got, n)
	}
	sl := s.Slice()
	if msg := r.enumerated(what, "Slice()", sl, m, n); msg != "" {
		return msg
	}
	for i := range sl { // a new slice: the caller's to overwrite
		sl[i] = r.k.mk(r.u - 1)
	}
	if msg := r.rangeK(what, s, m, 0); msg != "" {
		return msg
	}
	for c := 0; c < r.u; c++ {
		if got := s.Has(r.k.mk(c)); got != m[c] {
			return fmt.Sprintf("%s: Has(code %d = %#v) = %v, want %v (the set should hold %s)", what, c, r.k.mk(c), got, m[c], brief(m))
		}
	}
	return ""
}

// checkString: '{' + every member's fmt.Sprint rendering exactly once, single spaces between + '}'. The body
// is consumed member by member; at each position the member is found by trying every rendering length that
// occurs. That is exact for the big kits, where no rendering followed by a space is a prefix of another
// (integers, "m<integer>", "[<integer> <integer>]").
func (r bigRunner[T]) checkString(what string, s sets.Set[T], m []bool) string {
	got := s.String()
	r.kp.keep(what, got)
	left := map[string]int{}
	lens := map[int]bool{}
	n := 0
	for c, in := range m {
		if in {
			x := fmt.Sprint(r.k.mk(c))
			left[x] = c
			lens[len(x)] = true
			n++
		}
	}
	var ls []int
	for l := range lens {
		ls = append(ls, l)
	}
	sort.Ints(ls)
	bad := func(why string) string {
		g := got
		if len(g) > 300 {
			g = g[:150] + " ... " + g[len(g)-150:]
		}
		return fmt.Sprintf("%s: String() (%d bytes) = %q: %s; want '{' + the %d members formatted with fmt.Sprint, each once, single spaces between + '}'", what, len(got), g, why, n)
	}
	if len(got) < 2 || got[0] != '{' || got[len(got)-1] != '}' {
		return bad("not wrapped in braces")
	}
	body := got[1 : len(got)-1]
	pos, found := 0, 0
	for pos < len(body) || found < n {
		if found > 0 {
			if pos >= len(body) || body[pos] != ' ' {
				return bad(fmt.Sprintf("after %d members, at byte %d: expected a single space and the next member", found, pos+1))
			}
			pos++
		}
		ok := false
		for _, l := range ls {
			if pos+l > len(body) || (pos+l < len(body) && body[pos+l] != ' ') {
				continue
			}
			if _, is := left[body[pos:pos+l]]; is {
				delete(left, body[pos:pos+l])
				pos += l
				found++
				ok = true
				break
			}
		}
		if !ok {
			return bad(fmt.Sprintf("after %d members, at byte %d: no member (not yet listed) is rendered here", found, pos+1))
		}
	}
	return ""
}

// order returns 0..n-1 in a scrambled but fixed order.
func order(n int) []int {
	stride := 1
	for _, p := range []int{7919, 7907, 104729, 3} {
		if n%p != 0 {
			stride = p
			break
		}
	}
	out := make([]int, n)
	for i := range out {
		out[i] = (i*stride + n/3) % n
	}
	return out
}

func (r bigRunner[T]) build(name string, o BigOperand, extraLo int) (s sets.Set[T], m []bool, nExtra int, msg string) {
	what := fmt.Sprintf("building %s = %s", name, o.desc())
	m = make([]bool, r.u)
	mem := order(o.N)
	for i := range mem {
		mem[i] += o.Lo
	}
	var late, extras []int
	switch o.Lay {
	case "expunged":
		cut := len(mem) - (1 + len(mem)/8)
		if cut < 0 {
			cut = 0
		}
		mem, late = mem[:cut], mem[cut:]
		fallthrough
	case "holes":
		nExtra = o.N/2 + 1
		for i := 0; i < nExtra; i++ {
			extras = append(extras, extraLo+i)
		}
	}
	// initial content: members and extras interleaved
	var init []int
	for i, j := 0, 0; i < len(mem) || j < len(extras); {
		if i < len(mem) {
			init = append(init, mem[i])
			i++
		}
		if j < len(extras) && (i%2 == 0 || i >= len(mem)) {
			init = append(init, extras[j])
			j++
		}
	}
	isSync := o.Impl == "sync2"
	vals := make([]T, 0, len(init)*(o.Dup+1))
	for _, c := range init {
		vals = append(vals, r.k.mk(c))
	}
	for d := 0; d < o.Dup; d++ { // duplicates: further passes, alternately backwards
		for i := range init {
			if d%2 == 0 {
				vals = append(vals, r.k.mk(init[len(init)-1-i]))
			} else {
				vals = append(vals, r.k.mk(init[i]))
			}
		}
	}
	switch o.Ctor {
	case "slice":
		if isSync {
			s = sync2.NewSetFromSlice(vals)
		} else {
			s = maps.NewSetFromSlice(vals)
		}
	case "keys":
		km := make(map[T]bool, len(vals))
		for _, v := range vals {
			km[v] = true
		}
		if isSync {
			s = sync2.NewSetFromKeys(km)
		} else {
			s = maps.NewSetFromKeys(km)
		}
	case "values":
		vm := make(map[int]T, len(vals))
		for i, v := range vals {
			vm[i] = v
		}
		if isSync {
			s = sync2.NewSetFromValues(vm)
		} else {
			s = maps.NewSetFromValues(vm)
		}
	default:
		if isSync {
			s = &sync2.Set[T]{}
		} else {
			s = make(maps.Set[T])
		}
		for i, c := range init {
			if !s.Add(r.k.mk(c)) {
				return s, m, nExtra, fmt.Sprintf("%s: Add(code %d = %#v) of a new member (the %dth) returned false", what, c, r.k.mk(c), i+1)
			}
		}
	}
	if s == nil {
		return s, m, nExtra, what + ": the constructor returned nil"
	}
	if o.Lay != "plain" {
		if got := s.Len(); got != len(init) {
			return s, m, nExtra, fmt.Sprintf("%s: Len() after construction from %d distinct values (input length %d) = %d", what, len(init), len(vals), got)
		}
	}
	for i, c := range extras {
		if !s.Remove(r.k.mk(c)) {
			return s, m, nExtra, fmt.Sprintf("%s: Remove(code %d = %#v) of a member (removal %d of %d) returned false", what, c, r.k.mk(c), i+1, len(extras))
		}
	}
	if len(extras) > 0 {
		c := extras[len(extras)/2]
		if s.Remove(r.k.mk(c)) {
			return s, m, nExtra, fmt.Sprintf("%s: Remove(code %d = %#v) of a value removed before returned true", what, c, r.k.mk(c))
		}
	}
	for i, c := range late {
		if !s.Add(r.k.mk(c)) {
			return s, m, nExtra, fmt.Sprintf("%s: Add(code %d = %#v) of a new member (late member %d) returned false", what, c, r.k.mk(c), i+1)
		}
	}
	for c := o.Lo; c < o.Lo+o.N; c++ {
		m[c] = true
	}
	return s, m, nExtra, ""
}

func (o BigOperand) desc() string {
	return fmt.Sprintf("%s/%s(x%d)/%s codes %d..%d", o.Impl, o.Ctor, o.Dup+1, o.Lay, o.Lo, o.Lo+o.N-1)
}

func sizeClass(n int) string {
	k := 0
	for 1<<(k+1) <= n {
		k++
	}
	switch {
	case n < 32:
		return "n<32"
	case n == 1<<k:
		return fmt.Sprintf("n=2^%d", k)
	case n == 1<<k+1:
		return fmt.Sprintf("n=2^%d+1", k)
	case n == 1<<(k+1)-1:
		return fmt.Sprintf("n=2^%d-1", k+1)
	}
	return fmt.Sprintf("2^%d<n<2^%d", k, k+1)
}

func runBig[T comparable](c BigCase, k bigKit[T], kp *kept) pbt.Outcome {
	var out pbt.Outcome
	lab := func(s string) { out.Labels = append(out.Labels, s) }
	unary := c.Op == "unary"
	alias := c.Alias && !unary && c.Op != "addset" && c.Op != "removeset"
	top := c.A.Lo + c.A.N
	if !unary && !alias && c.B.Lo+c.B.N > top {
		top = c.B.Lo + c.B.N
	}
	exA := top
	exB := exA + c.A.N/2 + 1
	fresh := exB + c.B.N/2 + 1
	r := bigRunner[T]{k: k, u: fresh + 4, kp: kp} // fresh, fresh+1: detachment probes; fresh+2, fresh+3: never inserted

	a, ma, _, msg := r.build("A", c.A, exA)
	if msg != "" {
		return pbt.Fail("%s", msg)
	}
	b, mb := a, ma
	if !alias && !unary {
		if b, mb, _, msg = r.build("B", c.B, exB); msg != "" {
			return pbt.Fail("%s", msg)
		}
	}
	what := fmt.Sprintf("A = %s, B = %s", c.A.desc(), c.B.desc())
	pair := c.A.Impl + "/" + c.B.Impl
	if alias {
		what = fmt.Sprintf("A = %s, B is the same object", c.A.desc())
		pair = c.A.Impl + "/same-object"
	}
	if unary {
		what = "A = " + c.A.desc()
		pair = c.A.Impl
	}
	lab("op=" + c.Op)
	lab("pair=" + pair)
	lab("elem=" + []string{"int", "string", "[2]int"}[c.Elem%3])
	lab("A:" + sizeClass(c.A.N))
	lab("A:" + c.A.Impl + "/" + c.A.Lay)
	lab("A:ctor=" + c.A.Ctor)
	if !unary && !alias {
		lab("B:" + sizeClass(c.B.N))
		lab("B:" + c.B.Impl + "/" + c.B.Lay)
		switch {
		case c.B.N*4 <= c.A.N:
			lab("sizes:B<<A")
		case c.A.N*4 <= c.B.N:
			lab("sizes:A<<B")
		case c.A.N == c.B.N:
			lab("sizes:A=B")
		case c.A.N < c.B.N:
			lab("sizes:A<B")
		default:
			lab("sizes:A>B")
		}
	}
	both, onlyA, onlyB := 0, 0, 0
	for i := range ma {
		switch {
		case ma[i] && mb[i]:
			both++
		case ma[i]:
			onlyA++
		case mb[i]:
			onlyB++
		}
	}
	if unary {
		out.NonTrivial = c.A.N >= 32
	} else {
		out.NonTrivial = both > 0 && (alias || (onlyA > 0 && onlyB > 0)) && c.A.N+c.B.N >= 64
		switch {
		case alias:
		case both == 0:
			lab("overlap:disjoint")
		case onlyA == 0 && onlyB == 0:
			lab("overlap:equal")
		case onlyB == 0:
			lab("overlap:B-subset-of-A")
		case onlyA == 0:
			lab("overlap:A-subset-of-B")
		default:
			lab("overlap:partial")
		}
	}
	if out.NonTrivial {
		lab("nontrivial")
	}

	model := func(f func(x, y bool) bool) []bool {
		m := make([]bool, r.u)
		for i := range m {
			m[i] = f(ma[i], mb[i])
		}
		return m
	}
	var res sets.Set[T]
	var mr []bool
	binary := func(name string, f func(sets.Set[T]) sets.Set[T], want []bool) string {
		res, mr = f(b), want
		if res == nil {
			return fmt.Sprintf("A.%s(B) returned nil; %s", name, what)
		}
		return r.verify(fmt.Sprintf("result of A.%s(B) [%s]", name, what), res, mr)
	}
	msg = ""
	switch c.Op {
	case "union":
		msg = binary("Union", a.Union, model(func(x, y bool) bool { return x || y }))
	case "intersect":
		msg = binary("Intersect", a.Intersect, model(func(x, y bool) bool { return x && y }))
	case "setdiff":
		msg = binary("SetDiff", a.SetDiff, model(func(x, y bool) bool { return x && !y }))
	case "symdiff":
		msg = binary("SymDiff", a.SymDiff, model(func(x, y bool) bool { return x != y }))
	case "addset":
		if got := a.AddSet(b); got != onlyB {
			msg = fmt.Sprintf("A.AddSet(B) returned %d, want %d = |B\\A|; %s", got, onlyB, what)
		}
		ma = model(func(x, y bool) bool { return x || y })
	case "removeset":
		if got := a.RemoveSet(b); got != both {
			msg = fmt.Sprintf("A.RemoveSet(B) returned %d, want %d = |A∩B|; %s", got, both, what)
		}
		ma = model(func(x, y bool) bool { return x && !y })
	case "cartesian":
		prod := sets.CartesianProduct(a, b)
		na, nb := count(ma), count(mb)
		if len(prod) != na*nb {
			msg = fmt.Sprintf("CartesianProduct(A,B) has %d pairs, want |A|*|B| = %d*%d = %d; %s", len(prod), na, nb, na*nb, what)
			break
		}
		loA, loB := c.A.Lo, c.B.Lo // members are the codes lo..lo+n-1
		if alias {
			loB = loA
		}
		seen := make([]bool, na*nb)
		for i, p := range prod {
			x, y := k.un(p.A), k.un(p.B)
			if x < 0 || x >= r.u || y < 0 || y >= r.u || !ma[x] || !mb[y] {
				msg = fmt.Sprintf("CartesianProduct(A,B)[%d] = (%#v,%#v), which is not in AxB; %s", i, p.A, p.B, what)
				break
			}
			if seen[(x-loA)*nb+y-loB] {
				msg = fmt.Sprintf("CartesianProduct(A,B) contains the pair of codes (%d,%d) twice (second time at index %d of %d); %s", x, y, i, len(prod), what)
				break
			}
			seen[(x-loA)*nb+y-loB] = true
		}
		for i := range prod { // the caller's slice
			prod[i] = sets.Product[T, T]{A: k.mk(r.u - 1), B: k.mk(r.u - 2)}
		}
	case "unary":
		n := count(ma)
		for _, kk := range []int{1, 2, n / 2, n - 1, n, n + 1} {
			if kk < 1 {
				continue
			}
			if msg = r.rangeK("A ["+what+"]", a, ma, kk); msg != "" {
				break
			}
		}
		if msg == "" {
			msg = r.checkString("A ["+what+"]", a, ma)
		}
		if msg == "" { // read-only calls from inside a Range callback, at the first, a middle and the last call
			calls := 0
			a.Range(func(x T) bool {
				calls++
				if calls == 1 || calls == n/2 || calls == n {
					if !a.Has(x) {
						msg = fmt.Sprintf("inside the callback of A.Range (call %d): A.Has(%#v) = false for the member being visited; %s", calls, x, what)
					} else if got := a.Len(); got != n {
						msg = fmt.Sprintf("inside the callback of A.Range (call %d): A.Len() = %d, want %d; %s", calls, got, n, what)
					} else if calls == 1 {
						msg = r.rangeK(fmt.Sprintf("inside the callback of A.Range (call %d): inner A", calls), a, ma, 0)
					}
				}
				return msg == ""
			})
			if msg == "" && calls != n {
				msg = fmt.Sprintf("A.Range with a callback that calls read-only methods of A made %d calls, want %d; %s", calls, n, what)
			}
		}
		if msg == "" {
			msg = binary("Clone", func(sets.Set[T]) sets.Set[T] { return a.Clone() }, append([]bool{}, ma...))
		}
	default:
		return pbt.Outcome{Skipped: true, Labels: []string{"unknown-op"}}
	}
	if msg != "" {
		return pbt.Fail("%s", msg)
	}

	// ---- operands unchanged (or changed as the model says); result detached
	type target struct {
		name string
		s    sets.Set[T]
		m    []bool
	}
	ts := []target{{"A", a, ma}}
	if !alias && !unary {
		ts = append(ts, target{"B", b, mb})
	}
	if res != nil {
		ts = append(ts, target{"the result", res, mr})
	}
	reread := func(after string, skip int) string {
		for i, t := range ts {
			if i == skip {
				continue
			}
			if m := r.verify(fmt.Sprintf("%s, re-read %s [op %s; before the op: %s]", t.name, after, c.Op, what), t.s, t.m); m != "" {
				return m
			}
		}
		return ""
	}
	if m := reread("after the operation", len(ts)-1+btoi(res == nil)); m != "" { // the result was just verified
		return pbt.Fail("%s", m)
	}
	if res == nil {
		return out
	}
	// every set in turn (result first) gains a value no set holds and loses its lowest and its highest member;
	// the other sets must not notice
	idx := []int{len(ts) - 1}
	for i := 0; i < len(ts)-1; i++ {
		idx = append(idx, i)
	}
	for step, i := range idx {
		t := ts[i]
		add := fresh + step%2
		if t.m[add] {
			add = fresh + 1 - step%2
		}
		if t.m[add] { // both probe values in use: make room
			t.s.Remove(k.mk(add))
			t.m[add] = false
		}
		if !t.s.Add(k.mk(add)) {
			return pbt.Fail("detachment probe: Add(code %d = %#v) of a new value on %s returned false [op %s; before the op: %s]", add, k.mk(add), t.name, c.Op, what)
		}
		t.m[add] = true
		lo, hi := -1, -1
		for cc, in := range t.m {
			if in && cc < fresh {
				if lo < 0 {
					lo = cc
				}
				hi = cc
			}
		}
		for _, cc := range []int{lo, hi} {
			if cc >= 0 && t.m[cc] {
				if !t.s.Remove(k.mk(cc)) {
					return pbt.Fail("detachment probe: Remove(code %d = %#v) of a member of %s returned false [op %s; before the op: %s]", cc, k.mk(cc), t.name, c.Op, what)
				}
				t.m[cc] = false
			}
		}
		if m := reread(fmt.Sprintf("after the detachment probe on %s (Add(code %d), Remove(codes %d, %d))", t.name, add, lo, hi), -1); m != "" {
			return pbt.Fail("%s", m)
		}
	}
	return out
}

func btoi(b bool) int {
	if b {
		return 1
	}
	return 0
}

// ---------------------------------------------------------------- enumeration

func bigSizes(tier string) []int {
	seen := map[int]bool{}
	var out []int
	add := func(ns ...int) {
		for _, n := range ns {
			if !seen[n] {
				seen[n] = true
				out = append(out, n)
			}
		}
	}
	maxK := 12
	if tier == "thorough" {
		maxK = 15
	}
	for k := 5; k <= maxK; k++ {
		p := 1 << k
		add(p-1, p, p+1)
		if tier == "thorough" && k <= 12 {
			add(p+p/2-1, p+p/2, p+p/2+1)
		}
	}
	add(100, 1000, 5000)
	if tier == "thorough" {
		add(10000, 50000)
	}
	sort.Ints(out)
	return out
}

// mix is a fixed scrambler (no randomness): attribute choices of the enumerated cases rotate through their
// lists at unrelated rates.
func mix(i, salt, n int) int {
	x := uint64(i)*0x9E3779B97F4A7C15 + uint64(salt)*0xC2B2AE3D27D4EB4F
	x ^= x >> 29
	x *= 0xBF58476D1CE4E5B9
	x ^= x >> 32
	return int(x % uint64(n))
}

var (
	bigLays   = []string{"plain", "observed", "holes", "expunged"}
	bigCtors  = []string{"adds", "slice", "keys", "values"}
	bigBinOps = []string{"union", "intersect", "setdiff", "symdiff", "addset", "removeset"}
	bigPairs  = [][2]string{{"maps", "maps"}, {"maps", "sync2"}, {"sync2", "maps"}, {"sync2", "sync2"}}
)

// bigShapes: (|A|, |B|, |A∩B|) around n.
func bigShapes(n int) [][3]int {
	return [][3]int{
		{n, n, n / 3},             // same size, partial overlap
		{n, n/2 + 1, n / 4},       // B smaller
		{n/2 + 1, n, n / 4},       // A smaller
		{n, 3, 2},                 // tiny B
		{3, n, 2},                 // tiny A
		{n, n, n},                 // equal sets
		{n, n, 0},                 // disjoint
		{n, n - 1, n - 1},         // B a proper subset of A
		{n - 1, n, n - 1},         // A a proper subset of B
		{n, 2*n + 1, n/2 + 1},     // B twice as large
		{2*n + 1, n, n/2 + 1},     // A twice as large
		{n, n + 1, n - n/8},       // nearly equal
		{n + 1, n / 8, n / 8 / 2}, // B an eighth
		{n, 0, 0},                 // B empty
		{0, n, 0},                 // A empty
	}
}

func bigOperandOf(impl string, n, lo, i, salt int) BigOperand {
	o := BigOperand{Impl: impl, Lo: lo, N: n, Lay: bigLays[mix(i, salt, len(bigLays))], Ctor: bigCtors[mix(i, salt+1, len(bigCtors))]}
	if o.Ctor == "slice" || o.Ctor == "values" {
		o.Dup = 1 + mix(i, salt+2, 3)
	}
	return o
}

func bigCases(shard, shards int, tier string, yield func(BigCase) bool) {
	i := 0
	emit := func(c BigCase) bool {
		i++
		if (i-1)%shards != shard {
			return true
		}
		return yield(c)
	}
	thorough := tier == "thorough"
	j := 0 // counts the (n, implementation, layout) and (n, operation, pairing) combinations: drives the rotations
	for _, n := range bigSizes(tier) {
		// unary: both implementations x every layout, constructor rotating (thorough, and n = 257, 5000: every constructor)
		for _, impl := range []string{"maps", "sync2"} {
			for li, lay := range bigLays {
				j++
				for ci, ctor := range bigCtors {
					if ci != mix(j, 7, len(bigCtors)) && !(n == 5000 || n == 257 || (thorough && n < 9000)) {
						continue
					}
					o := BigOperand{Impl: impl, Ctor: ctor, Lay: lay, N: n}
					if ctor == "slice" || ctor == "values" {
						o.Dup = 1 + (li+ci)%3
					}
					if !emit(BigCase{Elem: mix(j, 3+ci, 3), A: o, Op: "unary"}) {
						return
					}
				}
			}
		}
		// binary: every operation x every pairing; the shape rotates (n = 33, 65, 129, 513, 1025, 5000 and thorough up to n = 9000: every shape; thorough above: three)
		shapes := bigShapes(n)
		for _, op := range bigBinOps {
			for _, p := range bigPairs {
				j++
				for si, sh := range shapes {
					if (thorough && n < 9000) || n == 33 || n == 65 || n == 129 || n == 513 || n == 1025 || n == 5000 {
						// every shape
					} else if thorough {
						if (si+j)%len(shapes) > 2 {
							continue
						}
					} else if si != mix(j, 11, len(shapes)) {
						continue
					}
					k := j*16 + si
					c := BigCase{Elem: mix(k, 5, 3), Op: op,
						A: bigOperandOf(p[0], sh[0], 0, k, 20), B: bigOperandOf(p[1], sh[1], sh[0]-sh[2], k, 30)}
					if !emit(c) {
						return
					}
				}
				if aliasable(op) && (thorough || mix(j, 13, 4) == 0) {
					if !emit(BigCase{Elem: mix(j, 5, 3), Op: op, Alias: true, A: bigOperandOf(p[0], n, 0, j, 40)}) {
						return
					}
				}
			}
		}
	}
	// very large sets (fast paths that only start at 2^15 or 2^16 members, chunked or parallel helpers): a few cases per operation
	for hi, n := range []int{32771, 65537, 70001, 131075} {
		if !thorough && hi >= 2 {
			break
		}
		for oi, op := range []string{"intersect", "setdiff", "symdiff", "union", "addset", "removeset", "unary"} {
			for pi, p := range bigPairs {
				if !thorough && (pi+oi+hi)%2 == 1 {
					continue
				}
				sh := bigShapes(n)[[]int{0, 7, 2, 11}[(pi+oi)%4]]
				c := BigCase{Elem: (oi + pi) % 3, Op: op,
					A: BigOperand{Impl: p[0], Ctor: bigCtors[(oi+pi)%4], Lay: bigLays[(oi+hi)%2], Lo: 0, N: sh[0]},
					B: BigOperand{Impl: p[1], Ctor: "adds", Lay: bigLays[pi%2], Lo: sh[0] - sh[2], N: sh[1]}}
				if sh[0] < n { // the receiver is the large one
					c.A.N, c.B.N = sh[1], sh[0]
					c.B.Lo = sh[1] - sh[2]
				}
				if !emit(c) {
					return
				}
			}
		}
	}
	// constructors fed with very many duplicates: few members, inputs of 10^4..10^5 values
	for _, impl := range []string{"maps", "sync2"} {
		for _, ctor := range []string{"slice", "values"} {
			for _, nd := range [][2]int{{1, 20000}, {3, 20000}, {40, 2500}, {1025, 40}} {
				if !emit(BigCase{Elem: mix(i, 5, 3), A: BigOperand{Impl: impl, Ctor: ctor, Dup: nd[1], Lay: bigLays[mix(i, 9, 2)], N: nd[0]}, Op: "unary"}) {
					return
				}
			}
		}
	}
	// CartesianProduct of moderately large sets (|A|*|B| up to ~70000 pairs)
	for _, sh := range [][2]int{{33, 33}, {65, 31}, {129, 64}, {257, 129}, {256, 256}, {1025, 33}, {33, 1025}, {5000, 7}, {7, 5000}, {4097, 1}, {1, 4097}, {1024, 0}, {0, 1024}} {
		for _, p := range bigPairs {
			c := BigCase{Elem: mix(i, 5, 3), Op: "cartesian",
				A: bigOperandOf(p[0], sh[0], 0, i, 50), B: bigOperandOf(p[1], sh[1], sh[0]/2, i, 60)}
			if !emit(c) {
				return
			}
		}
		if !emit(BigCase{Elem: mix(i, 5, 3), Op: "cartesian", Alias: true, A: bigOperandOf("sync2", min(sh[0], 257), 0, i, 70)}) {
			return
		}
	}
}

var specBig = pbt.Register(&pbt.Spec[BigCase]{
	Property: "C03", Name: "C03.big",
	Rule: "enumerated: for every n in {2^k-1, 2^k, 2^k+1 : k = 5..12} + {100, 1000, 5000} (thorough: k up to 16, also 1.5*2^k-1..+1, 10^4, 5*10^4, 10^5): " +
		"plus n in {32771, 65537} (thorough: also 70001, 131075) for every operation x half of (thorough: all) the pairings; " +
		"(unary) on {maps.Set, sync2.Set} x {plain, observed once, holes = built with n/2+1 extra members that are removed after an observation, expunged = holes + the last " +
		"n/8+1 members added after the removals} x a constructor of {Adds, NewSetFromSlice, NewSetFromKeys, NewSetFromValues; inputs holding every value 2..4 times} (thorough: " +
		"every constructor): Len, Slice (then overwritten by the caller), Range to the end and with stops at calls 1, 2, n/2, n-1, n, n+1, String (every member's rendering exactly " +
		"once), read-only calls (Has, Len, a full inner Range) from inside a Range callback, Clone with detachment probe; the same on sets of 1, 3, 40, 1025 members built by " +
		"NewSetFromSlice/NewSetFromValues from inputs holding every value 20001, 20001, 2501, 41 times; (binary) {Union, Intersect, SetDiff, SymDiff, AddSet, " +
		"RemoveSet} x all four implementation pairings x a shape (|A|,|B|,|A∩B|) rotating through {same size/partial overlap, B half, A half, B of 3, A of 3, equal, disjoint, " +
		"B subset, A subset, B double, A double, nearly equal, B an eighth, B empty, A empty} (every shape for n = 33, 65, 129, 513, 1025, 5000; thorough: every shape up to n = 9000), layouts and constructors of both operands rotating, one in four with B the " +
		"same object as A; CartesianProduct for (|A|,|B|) in {33x33, 65x31, 129x64, 257x129, 256x256, 1025x33, 33x1025, 5000x7, 7x5000, 4097x1, 1x4097, 1024x0, 0x1024} x all " +
		"pairings + same object. Members are ints spread over the whole int range (c, -c, MaxInt-c, MinInt+c), strings or [2]int arrays, inserted in scrambled order. Every " +
		"result, return value and operand is compared with a []bool model (Len, Slice, Range: each member exactly once; Has for every code of the universe and two values never " +
		"inserted), operands re-read after the call, then every set in turn (result first) gains a new value and loses its lowest and highest member and all sets are re-read. " +
		"non-trivial = binary: A∩B non-empty and (A\\B, B\\A non-empty or same object) and |A|+|B| >= 64; unary: n >= 32",
	Enum: bigCases,
	Run:  RunBig, Retries: 10,
})

func TestC03Big(t *testing.T) { pbt.Check(t, specBig) }
