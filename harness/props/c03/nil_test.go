package c03

import (
	"fmt"
	"sort"
	"testing"

	"gopkg.in/typ.v4/maps"
	"gopkg.in/typ.v4/sets"
	"gopkg.in/typ.v4/sync2"
	"verifharness/internal/pbt"
)

// NCase: the zero value of maps.Set is a nil map: a valid EMPTY set for everything that does not add to it.
// A (nil) is combined with B (members Mask over 0..3, either implementation) in both roles.
type NCase struct {
	BImpl string `json:"b_impl"`
	Mask  int    `json:"mask"`
	Op    string `json:"op"`
}

func RunNil(c NCase) (out pbt.Outcome) {
	defer func() {
		if p := recover(); p != nil {
			out = pbt.Fail("%s with A = the zero value of maps.Set[int] (a nil map: an empty set), B = %s%v panicked: %v", c.Op, c.BImpl, members(uint32(c.Mask)), p)
		}
	}()
	var a maps.Set[int] // nil
	var b sets.Set[int]
	if c.BImpl == "sync2" {
		b = &sync2.Set[int]{}
	} else {
		b = make(maps.Set[int])
	}
	bm := members(uint32(c.Mask))
	for _, v := range bm {
		b.Add(v)
	}
	same := func(what string, s sets.Set[int], want []int) string {
		got := s.Slice()
		sort.Ints(got)
		if !eqInts(got, want) || s.Len() != len(want) {
			return fmt.Sprintf("%s: members %v (Len %d), want %v", what, got, s.Len(), want)
		}
		for v := 0; v < 5; v++ {
			if s.Has(v) != (sort.SearchInts(want, v) < len(want) && want[sort.SearchInts(want, v)] == v) {
				return fmt.Sprintf("%s: Has(%d) = %v, members should be %v", what, v, s.Has(v), want)
			}
		}
		return ""
	}
	usable := func(what string, s sets.Set[int], want []int) string {
		if s == nil {
			return what + ": returned a nil Set"
		}
		if msg := same(what, s, want); msg != "" {
			return msg
		}
		if !s.Add(77) || !s.Has(77) || s.Len() != len(want)+1 {
			return what + ": the returned set cannot take a new member"
		}
		if a.Len() != 0 || a.Has(77) {
			return what + ": adding to the result changed the nil receiver"
		}
		if msg := same("B after "+what, b, bm); msg != "" {
			return msg
		}
		return ""
	}
	var msg string
	switch c.Op {
	case "A.Union(B)":
		msg = usable(c.Op, a.Union(b), bm)
	case "B.Union(A)":
		msg = usable(c.Op, b.Union(a), bm)
	case "A.Intersect(B)":
		msg = usable(c.Op, a.Intersect(b), nil)
	case "B.Intersect(A)":
		msg = usable(c.Op, b.Intersect(a), nil)
	case "A.SetDiff(B)":
		msg = usable(c.Op, a.SetDiff(b), nil)
	case "B.SetDiff(A)":
		msg = usable(c.Op, b.SetDiff(a), bm)
	case "A.SymDiff(B)":
		msg = usable(c.Op, a.SymDiff(b), bm)
	case "B.SymDiff(A)":
		msg = usable(c.Op, b.SymDiff(a), bm)
	case "A.Clone()":
		msg = usable(c.Op, a.Clone(), nil)
	case "B.AddSet(A)":
		if n := b.AddSet(a); n != 0 {
			msg = fmt.Sprintf("B.AddSet(A) = %d, want 0", n)
		} else {
			msg = same("B after B.AddSet(A)", b, bm)
		}
	case "B.RemoveSet(A)":
		if n := b.RemoveSet(a); n != 0 {
			msg = fmt.Sprintf("B.RemoveSet(A) = %d, want 0", n)
		} else {
			msg = same("B after B.RemoveSet(A)", b, bm)
		}
	case "A.RemoveSet(B)":
		if n := a.RemoveSet(b); n != 0 {
			msg = fmt.Sprintf("A.RemoveSet(B) = %d, want 0", n)
		}
	case "reads":
		if a.Len() != 0 || a.Has(0) || len(a.Slice()) != 0 || a.Remove(1) || a.String() != "{}" {
			msg = fmt.Sprintf("reads of the nil set: Len %d Has(0) %v Slice %v Remove(1) %v String %q", a.Len(), a.Has(0), a.Slice(), a.Remove(1), a.String())
		}
		a.Range(func(int) bool { msg = "Range of the nil set called its function"; return true })
		if p := sets.CartesianProduct[int, int](a, b); len(p) != 0 {
			msg = fmt.Sprintf("CartesianProduct(A, B) has %d pairs", len(p))
		}
		if p := sets.CartesianProduct[int, int](b, a); len(p) != 0 {
			msg = fmt.Sprintf("CartesianProduct(B, A) has %d pairs", len(p))
		}
	}
	if msg != "" {
		return pbt.Fail("A = zero value of maps.Set[int] (nil map), B = %s%v: %s", c.BImpl, bm, msg)
	}
	return pbt.Outcome{Evals: 1, NonTrivial: c.Mask != 0, Labels: []string{"op=" + c.Op}}
}

var nilOps = []string{"A.Union(B)", "B.Union(A)", "A.Intersect(B)", "B.Intersect(A)", "A.SetDiff(B)", "B.SetDiff(A)", "A.SymDiff(B)", "B.SymDiff(A)", "A.Clone()", "B.AddSet(A)", "B.RemoveSet(A)", "A.RemoveSet(B)", "reads"}

var specNil = pbt.Register(&pbt.Spec[NCase]{
	Property: "C03", Name: "C03.nil",
	Rule: "exhaustive: A = the zero value of maps.Set (a nil map: an empty set for everything that does not add to it) with B = every subset of {0,1,2,3} in either implementation, A as receiver and as argument of " +
		"Union, Intersect, SetDiff, SymDiff, AddSet, RemoveSet, Clone, CartesianProduct and the reading methods; every result must be a new usable set (takes a new member) with the right members, B unchanged; non-trivial = B non-empty",
	Enum: func(shard, shards int, tier string, yield func(NCase) bool) {
		for _, impl := range []string{"maps", "sync2"} {
			for mask := 0; mask < 16; mask++ {
				for _, op := range nilOps {
					if !yield(NCase{impl, mask, op}) {
						return
					}
				}
			}
		}
	},
	Run: RunNil, Exhaustive: true,
})

func TestC03Nil(t *testing.T) { pbt.Check(t, specNil) }
