package c10

import (
	"fmt"
	"sync"
	"sync/atomic"
	"testing"
	"time"

	"gopkg.in/typ.v4/chans"
	"pgregory.net/rapid"
	"verifharness/internal/gstate"
	"verifharness/internal/pbt"
)

// HCase: one publish call (Pub, PubSlice, PubWait, PubSliceWait: "in their own goroutines") to Subs subscribers of
// which Stalled are not being received from until the verdict; the others are received from all the time.
// Every channel that is being received from must get every event although others stall. "Never" is decided by
// quiescence: every goroutine of the PubSub and every receiver blocked, no event arriving, on three looks.
type HCase struct {
	Variant string `json:"variant"`
	Subs    int    `json:"subs"`
	Events  int    `json:"events"`
	Stalled []int  `json:"stalled"` // indices of the subscribers nobody receives from (until the verdict)
	Bufs    []int  `json:"bufs"`    // buffer size of subscriber i = Bufs[i % len]
}

type holRecv struct {
	ch    <-chan int
	mu    sync.Mutex
	count map[int]int
	n     atomic.Int64
	done  chan struct{}
}

func (r *holRecv) holReceiveLoop() {
	defer close(r.done)
	for v := range r.ch {
		r.mu.Lock()
		r.count[v]++
		r.mu.Unlock()
		r.n.Add(1)
	}
}

func RunHol(c HCase) pbt.Outcome {
	ps := &chans.PubSub[int]{}
	stalled := map[int]bool{}
	for _, i := range c.Stalled {
		stalled[i%c.Subs] = true
	}
	recvs := make([]*holRecv, c.Subs)
	for i := range recvs {
		recvs[i] = &holRecv{ch: ps.SubBuf(c.Bufs[i%len(c.Bufs)]), count: map[int]int{}, done: make(chan struct{})}
		if !stalled[i] {
			go recvs[i].holReceiveLoop()
		}
	}
	evs := make([]int, c.Events)
	for i := range evs {
		evs[i] = i + 1
	}
	var returned atomic.Bool
	pubDone := make(chan struct{})
	go func() {
		defer close(pubDone)
		switch c.Variant {
		case "Pub":
			for _, ev := range evs {
				ps.Pub(ev)
			}
		case "PubSlice":
			ps.PubSlice(evs)
		case "PubWait":
			ps.PubWait(evs[0])
		default:
			ps.PubSliceWait(evs)
		}
		returned.Store(true)
	}()
	want := int64(c.Events)
	if c.Variant == "PubWait" {
		want = 1
	}
	freeTotal := func() (got int64, complete bool) {
		complete = true
		for i, r := range recvs {
			if stalled[i] {
				continue
			}
			n := r.n.Load()
			got += n
			if n < want {
				complete = false
			}
		}
		return
	}
	release := func() {
		for i, r := range recvs {
			if stalled[i] {
				go r.holReceiveLoop()
			}
		}
	}
	finish := func() string {
		// everybody is received from now: wait until every pair arrived, then close
		deadline := time.Now().Add(60 * time.Second)
		for {
			all := true
			for _, r := range recvs {
				if r.n.Load() < want {
					all = false
				}
			}
			if all {
				break
			}
			if time.Now().After(deadline) {
				return "not every event arrived within 60s after every subscriber was being received from"
			}
			time.Sleep(200 * time.Microsecond)
		}
		select {
		case <-pubDone:
		case <-time.After(60 * time.Second):
			return "the publish call did not return within 60s after every event was received"
		}
		if err := ps.UnsubAll(); err != nil {
			return "UnsubAll: " + err.Error()
		}
		for _, r := range recvs {
			<-r.done
		}
		return ""
	}
	sutBlocked := func() (all bool, n int) {
		for _, g := range gstate.Dump() {
			if !containsAny(g.Stack, "chans.(*PubSub", "holReceiveLoop") {
				continue
			}
			n++
			if !gstate.Blocking(g.State) {
				return false, n
			}
		}
		return true, n
	}
	desc := fmt.Sprintf("%s of %d event(s) to %d subscribers (buffers %v) of which %d are not being received from", c.Variant, want, c.Subs, c.Bufs, len(stalled))
	deadline := time.Now().Add(60 * time.Second)
	for spin := 0; ; spin++ {
		got, complete := freeTotal()
		if complete {
			break
		}
		if time.Now().After(deadline) {
			release()
			return pbt.Outcome{Inconclusive: "free subscribers neither complete nor quiescent within 60s"}
		}
		if spin > 20 {
			quiet := true
			for look := 0; look < 3 && quiet; look++ {
				all, _ := sutBlocked()
				g2, _ := freeTotal()
				if !all || g2 != got {
					quiet = false
					break
				}
				time.Sleep(3 * time.Millisecond)
			}
			if g3, _ := freeTotal(); quiet && g3 == got {
				missing := ""
				for i, r := range recvs {
					if !stalled[i] && r.n.Load() < want {
						missing = fmt.Sprintf("subscriber %d has %d of %d", i, r.n.Load(), want)
						break
					}
				}
				release()
				finish()
				return pbt.Fail("%s: every goroutine of the PubSub and every receiver is blocked and nothing arrives any more, but %s - a channel that is being received from does not get its events while another one stalls", desc, missing)
			}
		}
		time.Sleep(100 * time.Microsecond)
	}
	// the free subscribers are complete while the stalled ones still stall
	out := pbt.Outcome{Evals: 1, NonTrivial: len(stalled) > 0 && c.Subs-len(stalled) >= 1, Labels: []string{"variant=" + c.Variant}}
	pairs := int(want) * c.Subs
	switch {
	case pairs > 1024:
		out.Labels = append(out.Labels, "pairs>1024")
	case pairs > 64:
		out.Labels = append(out.Labels, "pairs>64")
	default:
		out.Labels = append(out.Labels, "pairs<=64")
	}
	if c.Variant == "PubWait" || c.Variant == "PubSliceWait" {
		// a stalled subscriber whose buffer cannot take everything keeps the call from returning (no timeout is set)
		mustBlock := false
		for i := range recvs {
			if stalled[i] && int64(c.Bufs[i%len(c.Bufs)]) < want {
				mustBlock = true
			}
		}
		if mustBlock {
			time.Sleep(300 * time.Microsecond)
			if returned.Load() {
				release()
				finish()
				return pbt.Fail("%s returned although a subscriber that is not being received from still has events outstanding (no publish timeout is set)", desc)
			}
			out.Labels = append(out.Labels, "wait-variant-still-blocked-on-the-stalled")
		}
	}
	release()
	if msg := finish(); msg != "" {
		return pbt.Outcome{Inconclusive: msg}
	}
	for i, r := range recvs {
		for ev := 1; ev <= int(want); ev++ {
			if r.count[ev] != 1 {
				return pbt.Fail("%s: subscriber %d received event %d %d times", desc, i, ev, r.count[ev])
			}
		}
		if len(r.count) != int(want) {
			return pbt.Fail("%s: subscriber %d received %d distinct values, %d were published", desc, i, len(r.count), want)
		}
	}
	return out
}

func containsAny(s string, subs ...string) bool {
	for _, x := range subs {
		if len(x) > 0 && len(s) >= len(x) {
			for i := 0; i+len(x) <= len(s); i++ {
				if s[i:i+len(x)] == x {
					return true
				}
			}
		}
	}
	return false
}

var specHol = pbt.Register(&pbt.Spec[HCase]{
	Property: "C10", Name: "C10.hol",
	Rule: "one Pub / PubSlice / PubWait / PubSliceWait call (the variants documented to send 'in their own goroutines'), 2..1100 subscribers x 1..700 events (up to ~3000 pairs, buffers 0..2), no publish timeout; 0..3 subscribers are not received from until the verdict, " +
		"all others are received from all the time; oracle: every subscriber that is being received from gets every event exactly once although others stall ('never' = every goroutine of the PubSub and every receiver blocked and nothing arriving on three looks 3ms apart), " +
		"a Wait variant has not returned while a stalled subscriber has events outstanding, and after the stalled ones are served everybody has every event exactly once; non-trivial = at least one stalled and one free subscriber",
	Gen: func(t *rapid.T) HCase {
		c := HCase{Variant: rapid.SampledFrom([]string{"Pub", "PubSlice", "PubWait", "PubSliceWait", "PubSliceWait"}).Draw(t, "variant")}
		shape := rapid.SampledFrom([][2]int{{2, 3}, {3, 10}, {2, 40}, {8, 8}, {3, 400}, {2, 700}, {40, 30}, {70, 20}, {1100, 1}, {1100, 2}, {5, 250}}).Draw(t, "shape")
		c.Subs, c.Events = shape[0], shape[1]
		if c.Variant == "PubWait" && c.Subs < 1100 && rapid.Bool().Draw(t, "many") {
			c.Subs = 1100
		}
		ns := rapid.SampledFrom([]int{0, 1, 1, 1, 2, 3}).Draw(t, "stalled")
		for i := 0; i < ns && i < c.Subs-1; i++ {
			c.Stalled = append(c.Stalled, rapid.IntRange(0, c.Subs-1).Draw(t, "which"))
		}
		c.Bufs = rapid.SliceOfN(rapid.IntRange(0, 2), 1, 3).Draw(t, "bufs")
		return c
	},
	Run: RunHol, Quick: 120, Thorough: 3000, Crashy: true, Retries: 20,
})

func TestC10Hol(t *testing.T) { pbt.Check(t, specHol) }
