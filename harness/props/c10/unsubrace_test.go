package c10

import (
	"fmt"
	"runtime"
	"sync"
	"sync/atomic"
	"testing"
	"time"

	"gopkg.in/typ.v4/chans"
	"pgregory.net/rapid"
	"verifharness/internal/pbt"
)

// URCase: N subscribers; goroutine g unsubscribes the channels Groups[g] (disjoint index sets) concurrently with the
// other goroutines; one further goroutine may subscribe new channels meanwhile. Nothing is published during the
// race (so the known findings cannot interfere); afterwards a Sync probe event must reach exactly the subscriptions
// that were not removed, and exactly the removed channels must be closed.
type URCase struct {
	N      int     `json:"n"`
	Groups [][]int `json:"groups"`
	NewSub int     `json:"new_sub"`
	Procs  int     `json:"procs"`
	Reps   int     `json:"reps"`
}

func RunUnsubRace(c URCase) pbt.Outcome {
	if c.Procs > 0 {
		defer runtime.GOMAXPROCS(runtime.GOMAXPROCS(c.Procs))
	}
	for rep := 0; rep < c.Reps; rep++ {
		var ps chans.PubSub[int]
		chs := make([]<-chan int, c.N)
		for i := range chs {
			chs[i] = ps.SubBuf(1)
		}
		removed := make([]bool, c.N)
		errs := make([]error, c.N)
		var wg sync.WaitGroup
		var gate atomic.Int32
		parties := len(c.Groups)
		if c.NewSub > 0 {
			parties++
		}
		var added []<-chan int
		for _, grp := range c.Groups {
			grp := grp
			wg.Add(1)
			go func() {
				defer wg.Done()
				gate.Add(1)
				for int(gate.Load()) < parties {
					runtime.Gosched()
				}
				for _, i := range grp {
					errs[i] = ps.Unsub(chs[i])
				}
			}()
			for _, i := range grp {
				removed[i] = true
			}
		}
		if c.NewSub > 0 {
			wg.Add(1)
			go func() {
				defer wg.Done()
				gate.Add(1)
				for int(gate.Load()) < parties {
					runtime.Gosched()
				}
				for k := 0; k < c.NewSub; k++ {
					added = append(added, ps.SubBuf(1))
				}
			}()
		}
		wg.Wait()
		for i, e := range errs {
			if removed[i] && e != nil {
				return pbt.Fail("repetition %d: concurrent Unsub of subscriber %d returned %v, want nil", rep, i, e)
			}
		}
		// probe: one synchronous event (every remaining channel has a free buffer slot, so this cannot block)
		done := make(chan struct{})
		go func() { defer close(done); ps.PubSync(42) }()
		select {
		case <-done:
		case <-time.After(30 * time.Second):
			return pbt.Outcome{Inconclusive: "probe PubSync did not return"}
		}
		check := func(name string, ch <-chan int, wantOpen bool) string {
			select {
			case v, ok := <-ch:
				switch {
				case !ok && wantOpen:
					return fmt.Sprintf("%s was closed although it was never unsubscribed", name)
				case ok && !wantOpen:
					return fmt.Sprintf("%s received %d after its Unsub returned nil: it is still subscribed and open", name, v)
				case ok && v != 42:
					return fmt.Sprintf("%s received %d, want the probe 42", name, v)
				}
			default:
				if wantOpen {
					return fmt.Sprintf("%s did not receive the probe event: it lost its subscription without being unsubscribed", name)
				}
				return fmt.Sprintf("%s is not closed although its Unsub returned nil", name)
			}
			return ""
		}
		for i, ch := range chs {
			if m := check(fmt.Sprintf("subscriber %d", i), ch, !removed[i]); m != "" {
				return pbt.Fail("repetition %d (%d subscribers, concurrent Unsub groups %v, %d concurrent Subs): %s", rep, c.N, c.Groups, c.NewSub, m)
			}
		}
		for k, ch := range added {
			if m := check(fmt.Sprintf("concurrently added subscriber #%d", k), ch, true); m != "" {
				return pbt.Fail("repetition %d (%d subscribers, concurrent Unsub groups %v, %d concurrent Subs): %s", rep, c.N, c.Groups, c.NewSub, m)
			}
		}
		_ = ps.UnsubAll()
	}
	return pbt.Outcome{Evals: c.Reps, NonTrivial: len(c.Groups) >= 2, Labels: []string{fmt.Sprintf("unsubscribers=%d", len(c.Groups))}}
}

var specUnsubRace = pbt.Register(&pbt.Spec[URCase]{
	Property: "C10", Name: "C10.unsubrace",
	Rule: "free-running: 3..10 subscriptions; 2..4 goroutines unsubscribe disjoint sets of them at the same time, optionally while another goroutine subscribes 1..3 new channels; nothing is published during the race; " +
		"50 repetitions. Oracle: every Unsub returns nil; afterwards exactly the removed channels are closed and a PubSync probe reaches exactly the others (incl. the concurrently added ones) once; non-trivial = >=2 unsubscribing goroutines",
	Gen: func(t *rapid.T) URCase {
		n := rapid.IntRange(3, 10).Draw(t, "n")
		g := rapid.IntRange(2, 4).Draw(t, "goroutines")
		groups := make([][]int, g)
		for i := 0; i < n; i++ {
			w := rapid.IntRange(0, g).Draw(t, "who") // g = nobody
			if w < g {
				groups[w] = append(groups[w], i)
			}
		}
		// unsubscribe in descending index order in some groups (the higher index is looked up first)
		for i := range groups {
			if rapid.Bool().Draw(t, "desc") {
				for a, b := 0, len(groups[i])-1; a < b; a, b = a+1, b-1 {
					groups[i][a], groups[i][b] = groups[i][b], groups[i][a]
				}
			}
		}
		return URCase{N: n, Groups: groups, NewSub: rapid.SampledFrom([]int{0, 0, 1, 3}).Draw(t, "newsub"), Procs: rapid.SampledFrom([]int{2, 4, 16}).Draw(t, "procs"), Reps: 50}
	},
	Run: RunUnsubRace, Quick: 200, Thorough: 3000, Crashy: true, Retries: 30,
})

func TestC10UnsubRace(t *testing.T) { pbt.Check(t, specUnsubRace) }
