// Package c10 decides C10: PubSub delivers every event exactly once to every
// subscriber (E5 scenario runner: generated scripts of publish / subscribe /
// unsubscribe steps with receivers the harness controls; crash-prone classes
// run in a child process).
package c10

import (
	"errors"
	"fmt"
	"runtime"
	"sort"
	"strings"
	"sync"
	"sync/atomic"
	"testing"
	"time"

	"gopkg.in/typ.v4/chans"
	"pgregory.net/rapid"
	"verifharness/internal/gstate"
	"verifharness/internal/pbt"
)

// Step of a script.
//
//	pub       Variant in Pub PubSlice PubWait PubSliceWait PubSync PubSliceSync; N events (slices 0..4, single = 1);
//	          Only >= 0: publish through WithOnly(subscriber Only mod #subs); Only == -2: WithOnly(foreign channel)
//	sub       Buf: -1 Sub() (DefaultBuffer) else SubBuf(Buf); Recv: drain | gated | never
//	unsub     Target: >=0 subscriber index (mod table size, may already be removed), -1 nil channel, -2 foreign channel
//	unsuball
//	clone     keep ps.WithOnly(Target) as a persistent publisher; later pub/sub steps with Via=k use it
type Step struct {
	K       string `json:"k"`
	Variant string `json:"variant,omitempty"`
	N       int    `json:"n,omitempty"`
	Only    int    `json:"only,omitempty"`
	Buf     int    `json:"buf,omitempty"`
	Recv    string `json:"recv,omitempty"`
	Target  int    `json:"target,omitempty"`
	// Via (pub, sub): 0 = the PubSub itself; k > 0 = the persistent WithOnly clone number (k-1) mod #clones
	// created by an earlier "clone" step (K="clone", Target as for unsub: subscriber index or -2 foreign)
	Via int `json:"via,omitempty"`
}

type Case struct {
	DefaultBuffer int    `json:"default_buffer"`
	Timeout       string `json:"timeout"` // "0" | "1ms" | "1h"
	OnTimeout     bool   `json:"on_timeout"`
	Steps         []Step `json:"steps"`
	// Subber: number of Sub() calls a background goroutine makes while the script runs (its subscriptions drain
	// from the start; what they must / may / must not receive follows from invocation-response stamps)
	Subber int `json:"subber,omitempty"`
	// Many: that many extra draining, unbuffered subscribers are made first (a PubSub with more than 64 subscriptions)
	Many int `json:"many,omitempty"`
	// SubberUnsub: the background goroutine also unsubscribes its own subscriptions again while the script runs.
	// Only generated for scripts whose publishes are all Sync variants (they hold the lock while sending, so a
	// concurrent Unsub must simply wait; with asynchronous variants this is the known finding).
	SubberUnsub bool `json:"subber_unsub,omitempty"`
	// Racy: do NOT settle in-flight asynchronous sends before Unsub/UnsubAll (known-finding class; child process only)
	Racy bool `json:"racy,omitempty"`
}

// clone is a persistent WithOnly publisher.
type clone struct {
	ps     *chans.PubSub[int]
	member *subscriber   // the subscription it was made for (nil: foreign channel or not subscribed at the time)
	own    []*subscriber // subscriptions made on the clone itself
}

type subscriber struct {
	optional     map[int]bool // events it may or may not receive (a publish overlapped its concurrent Sub)
	owner        *clone       // nil: subscribed on the PubSub itself
	idx          int
	ch           <-chan int
	cap          int
	mode         string // drain gated never
	gate         chan struct{}
	gateOpen     bool
	started      bool // receiver goroutine running
	done         chan struct{}
	mu           sync.Mutex
	got          []int
	closed       atomic.Bool // receiver saw the channel closed
	live         bool        // subscribed (harness view)
	expect       map[int]bool
	pending      int // events aimed at it while nobody was receiving (they sit in its buffer or in blocked sends)
	asyncPending int // ... of which published by an asynchronous variant (their sends may not even have started)
	gid          atomic.Pointer[string]
}

func (s *subscriber) isDone() bool {
	select {
	case <-s.done:
		return true
	default:
		return false
	}
}

// sawClose reports whether the receiver saw its channel closed. A receiver that sits in "chan receive"
// (confirmed on two goroutine dumps) has drained everything and found the channel still open.
func (s *subscriber) sawClose() (closed bool, inconclusive bool) {
	for s.gid.Load() == nil {
		time.Sleep(10 * time.Microsecond)
	}
	fin, timedOut := gstate.WaitDoneOrBlocked(*s.gid.Load(), "chan receive", s.isDone, 20*time.Second)
	return fin, timedOut
}

func (s *subscriber) received() []int {
	s.mu.Lock()
	defer s.mu.Unlock()
	return append([]int(nil), s.got...)
}

func (s *subscriber) start() {
	if s.started {
		return
	}
	s.started = true
	s.done = make(chan struct{})
	go func() {
		defer close(s.done)
		id := gstate.GoID()
		s.gid.Store(&id)
		if s.mode == "gated" {
			<-s.gate
		}
		for v := range s.ch {
			s.mu.Lock()
			s.got = append(s.got, v)
			s.mu.Unlock()
		}
		s.closed.Store(true)
	}()
}

func (s *subscriber) openGate() {
	if s.mode == "gated" && !s.gateOpen {
		s.gateOpen = true
		close(s.gate)
	}
}

// canAbsorb: can n more events be handed to this subscriber without anybody acting?
func (s *subscriber) blocksOn(n int) bool {
	switch s.mode {
	case "drain":
		return false
	case "gated":
		if s.gateOpen {
			return false
		}
	}
	return s.pending+n > s.cap
}

type world struct {
	c        Case
	ps       *chans.PubSub[int]
	subs     []*subscriber
	clones   []*clone
	nextEv   int
	timeouts sync.Map // event -> *atomic.Int32
	syncSeq  []int    // sync-published events in publication order
	labels   map[string]bool
	excluded int
}

// liveSubs: subscriptions currently held by the PubSub itself.
func (w *world) liveSubs() []*subscriber {
	var l []*subscriber
	for _, s := range w.subs {
		if s.live && s.owner == nil {
			l = append(l, s)
		}
	}
	return l
}

// allLive: every subscription that is still open (PubSub's and clones' own).
func (w *world) allLive() []*subscriber {
	var l []*subscriber
	for _, s := range w.subs {
		if s.live {
			l = append(l, s)
		}
	}
	return l
}

func (w *world) via(k int) *clone {
	if k <= 0 || len(w.clones) == 0 {
		return nil
	}
	return w.clones[(k-1)%len(w.clones)]
}

func (w *world) timeoutCount(ev int) int {
	if v, ok := w.timeouts.Load(ev); ok {
		return int(v.(*atomic.Int32).Load())
	}
	return 0
}

const settleLimit = 25 * time.Second

// settle waits until every event aimed at the given subscribers is accounted for:
// received (draining receivers), sitting in the buffer (others), or timed out (1ms config with callback).
// It returns a violation text, or an inconclusive text, or "" "".
func (w *world) settle(subs []*subscriber, why string) (viol, inconcl string) {
	deadline := time.Now().Add(settleLimit)
	for {
		missing := ""
		for _, s := range subs {
			if w.c.Timeout == "1ms" {
				continue // accounted per event below
			}
			have := map[int]int{}
			for _, v := range s.received() {
				have[v]++
			}
			n := 0
			for ev := range s.expect {
				if have[ev] >= 1 {
					n++
				}
			}
			inBuf := 0
			if !(s.mode == "drain" || s.gateOpen) {
				inBuf = len(s.ch)
			}
			if n+inBuf < len(s.expect) {
				missing = fmt.Sprintf("subscriber %d has %d of %d expected events (received %v, %d in buffer)", s.idx, n+inBuf, len(s.expect), s.received(), inBuf)
			}
		}
		if w.c.Timeout == "1ms" && w.c.OnTimeout && w.c.Subber == 0 {
			// per event: deliveries + timeouts == subscribers it was aimed at
			aimed := map[int]int{}
			deliv := map[int]int{}
			for _, s := range w.subs {
				for ev := range s.expect {
					aimed[ev]++
				}
				inBuf := 0
				_ = inBuf
				for _, v := range s.received() {
					deliv[v]++
				}
			}
			// values still sitting in buffers of non-draining receivers count as delivered: account by len
			buffered := 0
			for _, s := range w.subs {
				if !(s.mode == "drain" || s.gateOpen) && s.live {
					buffered += len(s.ch)
				}
			}
			totalAimed, totalDone := 0, buffered
			for ev, a := range aimed {
				totalAimed += a
				totalDone += deliv[ev] + w.timeoutCount(ev)
			}
			if totalDone < totalAimed {
				missing = fmt.Sprintf("%d of %d (event,subscriber) pairs neither delivered nor timed out yet", totalAimed-totalDone, totalAimed)
			}
		}
		if missing == "" {
			return "", ""
		}
		if time.Now().After(deadline) {
			inflight := inFlight()
			if inflight == 0 {
				return fmt.Sprintf("%s: %s, and no PubSub goroutine is in flight any more: the events are lost", why, missing), ""
			}
			return "", fmt.Sprintf("%s: %s after %v with %d PubSub goroutines still in flight", why, missing, settleLimit, inflight)
		}
		time.Sleep(30 * time.Microsecond)
	}
}

// inFlight counts goroutines started by (or running inside) the PubSub: their stack mentions a PubSub method
// or SendTimeout, either as a frame or in the "created by" line (a send goroutine that has not run yet).
func inFlight() int {
	n := 0
	for _, g := range gstate.Dump() {
		if strings.Contains(g.Stack, "c10.Run(") || strings.Contains(g.Stack, "c10.publish(") {
			continue // the harness's own goroutines (arguments may mention PubSub types)
		}
		if strings.Contains(g.Stack, "chans.(*PubSub") || strings.Contains(g.Stack, "chans.SendTimeout") {
			n++
		}
	}
	return n
}

func inFlightStacks() string {
	var b strings.Builder
	for _, g := range gstate.Dump() {
		if strings.Contains(g.Stack, "c10.Run(") || strings.Contains(g.Stack, "c10.publish(") {
			continue
		}
		if strings.Contains(g.Stack, "chans.(*PubSub") || strings.Contains(g.Stack, "chans.SendTimeout") {
			b.WriteString(g.Stack + "\n\n")
		}
	}
	return b.String()
}

// drainInFlight waits until no send goroutine of any PubSub is left (used before closing ALL channels when
// sends that the harness cannot account for by counting - optional deliveries to concurrently made
// subscriptions - may still be on their way).
func drainInFlight() (inconclusive string) {
	dl := time.Now().Add(40 * time.Second)
	for inFlight() > 0 {
		if time.Now().After(dl) {
			return "sends still in flight after 40s:\n" + inFlightStacks()
		}
		time.Sleep(100 * time.Microsecond)
	}
	return ""
}

func isSliceVariant(v string) bool { return strings.Contains(v, "Slice") }
func isAsync(v string) bool        { return v == "Pub" || v == "PubSlice" }
func isSyncV(v string) bool        { return strings.HasSuffix(v, "Sync") }

// publishOwned publishes a private copy of evs and overwrites that copy the moment the call returns: the slice
// belongs to the caller again then (a batch buffer is typically reused), whatever variant was used.
func publishOwned(ps *chans.PubSub[int], variant string, evs []int) {
	mine := append([]int(nil), evs...)
	publish(ps, variant, mine)
	for i := range mine {
		mine[i] = -1000 - i
	}
}

func publish(ps *chans.PubSub[int], variant string, evs []int) {
	switch variant {
	case "Pub":
		ps.Pub(evs[0])
	case "PubWait":
		ps.PubWait(evs[0])
	case "PubSync":
		ps.PubSync(evs[0])
	case "PubSlice":
		ps.PubSlice(evs)
	case "PubSliceWait":
		ps.PubSliceWait(evs)
	case "PubSliceSync":
		ps.PubSliceSync(evs)
	}
}

// Run executes the script in-process. Crash-prone (Racy) cases must go through runChild.
func Run(c Case) pbt.Outcome {
	w := &world{c: c, ps: &chans.PubSub[int]{DefaultBuffer: c.DefaultBuffer}, labels: map[string]bool{}}
	switch c.Timeout {
	case "1ms":
		w.ps.PubTimeoutAfter = time.Millisecond
	case "1h":
		w.ps.PubTimeoutAfter = time.Hour
	}
	if c.OnTimeout {
		w.ps.OnPubTimeout = func(ev int) {
			v, _ := w.timeouts.LoadOrStore(ev, new(atomic.Int32))
			v.(*atomic.Int32).Add(1)
		}
	}
	foreign := make(chan int, 1)
	// whatever way this case ends, free everything so that no blocked send of this case outlives it
	// (leftovers would be mistaken for in-flight sends of later cases)
	defer func() {
		for _, s := range w.subs {
			s.openGate()
			if s.mode == "never" {
				s.mode = "drain"
			}
			s.start()
		}
	}()
	fail := func(format string, a ...any) pbt.Outcome { return pbt.Fail(format, a...) }
	// ---- background subscriber
	var clock atomic.Int64
	stamp := func() int64 { return clock.Add(1) }
	type bgSub struct {
		s                   *subscriber
		inv, resp           int64
		unsubInv, unsubResp int64 // 0 = still subscribed
		unsubErr            error
	}
	type pubRec struct {
		inv, resp int64
		evs       []int
	}
	var bgMu sync.Mutex
	var bg []*bgSub
	var pubs []pubRec
	bgDone := make(chan struct{})
	if c.Subber > 0 {
		go func() {
			defer close(bgDone)
			for i := 0; i < c.Subber; i++ {
				for k := 0; k < 2+i*4; k++ {
					runtime.Gosched()
				}
				inv := stamp()
				ch := w.ps.Sub()
				resp := stamp()
				s := &subscriber{idx: 1000 + i, ch: ch, cap: c.DefaultBuffer, mode: "drain", gate: make(chan struct{}), live: true, expect: map[int]bool{}, optional: map[int]bool{}}
				s.start()
				bgMu.Lock()
				bg = append(bg, &bgSub{s: s, inv: inv, resp: resp})
				bgMu.Unlock()
			}
			if c.SubberUnsub {
				bgMu.Lock()
				mine := append([]*bgSub(nil), bg...)
				bgMu.Unlock()
				for i, b := range mine {
					for k := 0; k < 3+i*5; k++ {
						runtime.Gosched()
					}
					inv := stamp()
					err := w.ps.Unsub(b.s.ch)
					resp := stamp()
					bgMu.Lock()
					b.unsubInv, b.unsubResp, b.unsubErr = inv, resp, err
					bgMu.Unlock()
				}
			}
		}()
		defer func() {
			<-bgDone
			for _, b := range bg {
				b.s.start()
			}
		}()
	} else {
		close(bgDone)
	}
	// bgExpect fills in what the background subscriptions must / may have received so far
	bgExpect := func() {
		bgMu.Lock()
		defer bgMu.Unlock()
		for _, b := range bg {
			for _, p := range pubs {
				switch {
				case b.unsubResp != 0 && p.inv > b.unsubResp:
					// published after it was removed: must not arrive
				case p.resp < b.inv:
					// published before it subscribed: must not arrive
				case p.inv > b.resp && (b.unsubInv == 0 || p.resp < b.unsubInv):
					for _, ev := range p.evs {
						b.s.expect[ev] = true
					}
				default:
					for _, ev := range p.evs {
						b.s.optional[ev] = true
					}
				}
			}
		}
	}
	for i := 0; i < c.Many; i++ {
		s := &subscriber{idx: len(w.subs), ch: w.ps.SubBuf(0), cap: 0, mode: "drain", gate: make(chan struct{}), live: true, expect: map[int]bool{}}
		w.subs = append(w.subs, s)
		s.start()
	}
	if c.Many > 0 {
		w.labels[">64-subscribers"] = true
	}
	variants := map[string]bool{}
	unsubBetween := false
	pubSeen := false
	for si, st := range c.Steps {
		switch st.K {
		case "sub":
			var ch <-chan int
			cp := c.DefaultBuffer
			cl := w.via(st.Via)
			on := w.ps
			if cl != nil {
				on = cl.ps
				cp = 0 // WithOnly does not copy DefaultBuffer
				w.labels["sub-on-clone"] = true
			}
			if st.Buf < 0 {
				ch = on.Sub()
			} else {
				ch = on.SubBuf(st.Buf)
				cp = st.Buf
			}
			if ch == nil {
				return fail("step %d: Sub/SubBuf returned a nil channel", si)
			}
			if cap(ch) != cp {
				return fail("step %d: subscription channel has capacity %d, want %d", si, cap(ch), cp)
			}
			s := &subscriber{owner: cl, idx: len(w.subs), ch: ch, cap: cp, mode: st.Recv, gate: make(chan struct{}), live: true, expect: map[int]bool{}}
			if cl != nil {
				cl.own = append(cl.own, s)
			}
			for _, o := range w.subs {
				if o.ch == ch {
					return fail("step %d: Sub returned a channel that an earlier subscription already has", si)
				}
			}
			w.subs = append(w.subs, s)
			if s.mode != "never" {
				s.start()
			}
		case "clone":
			cl := &clone{}
			if st.Target >= 0 && len(w.subs) > 0 {
				t := w.subs[st.Target%len(w.subs)]
				cl.ps = w.ps.WithOnly(t.ch)
				if t.live && t.owner == nil {
					cl.member = t
				}
			} else {
				cl.ps = w.ps.WithOnly(foreign)
			}
			if cl.ps == nil {
				return fail("step %d: WithOnly returned nil", si)
			}
			w.clones = append(w.clones, cl)
			w.labels["persistent-clone"] = true
		case "pub":
			n := st.N
			if !isSliceVariant(st.Variant) {
				n = 1
			}
			evs := make([]int, n)
			for i := range evs {
				w.nextEv++
				evs[i] = w.nextEv
			}
			// who is this aimed at?
			targets := w.liveSubs()
			ps := w.ps
			if cl := w.via(st.Via); cl != nil {
				ps = cl.ps
				targets = nil
				if cl.member != nil {
					if cl.member.live {
						targets = append(targets, cl.member)
					} else if !c.Racy {
						// known finding 2: the clone still holds a channel that the PubSub has closed; publishing would
						// send on a closed channel. Excluded by construction here (counted), exercised in C10.known.
						w.excluded++
						w.labels["excluded:clone-publish-after-unsub"] = true
						continue
					}
				}
				for _, o := range cl.own {
					if o.live {
						targets = append(targets, o)
					}
				}
				w.labels["publish-via-persistent-clone"] = true
				if cl.member != nil && cl.member.idx > 0 {
					w.labels["clone-of-non-first-subscriber"] = true
				}
			} else if st.Only != 0 {
				if st.Only == -2 || len(w.subs) == 0 {
					ps = w.ps.WithOnly(foreign)
					targets = nil
					w.labels["withonly-foreign"] = true
				} else {
					s := w.subs[(st.Only-1)%len(w.subs)]
					ps = w.ps.WithOnly(s.ch)
					if s.live && s.owner == nil {
						targets = []*subscriber{s}
					} else {
						targets = nil
					}
					w.labels["withonly"] = true
				}
			}
			// a publish that nobody could ever absorb would hang forever with timeout 0/1h: release the receiver first
			if c.Timeout != "1ms" {
				for _, s := range targets {
					if s.mode == "never" && s.blocksOn(n) {
						s.mode = "drain"
						s.start()
						w.labels["never-receiver-released(buffer-too-small)"] = true
					}
				}
			}
			mustBlock := false
			var blocker *subscriber
			if !isAsync(st.Variant) && c.Timeout != "1ms" && n > 0 {
				// a gated receiver that could not absorb the events, but for which "must block" is not a sound
				// expectation (earlier asynchronous sends may or may not have reached its buffer yet): release it first
				for _, s := range targets {
					if s.mode == "gated" && !s.gateOpen && s.cap > 0 && s.asyncPending > 0 && s.pending+n > s.cap {
						s.openGate()
						s.pending, s.asyncPending = 0, 0
						w.labels["gated-receiver-released(async-sends-outstanding)"] = true
					}
				}
			}
			if !isAsync(st.Variant) && c.Timeout != "1ms" && n > 0 {
				for _, s := range targets {
					// sound only if earlier asynchronous sends cannot change what fits: unbuffered, or none outstanding
					if s.mode == "gated" && !s.gateOpen && (s.cap == 0 || (s.asyncPending == 0 && s.pending+n > s.cap)) {
						mustBlock, blocker = true, s
					}
				}
			}
			for _, s := range targets {
				for _, ev := range evs {
					s.expect[ev] = true
				}
				if !(s.mode == "drain" || s.gateOpen) {
					s.pending += n
					if isAsync(st.Variant) {
						s.asyncPending += n
					}
				}
			}
			if isSyncV(st.Variant) {
				w.syncSeq = append(w.syncSeq, evs...)
			}
			variants[st.Variant] = true
			toAll := st.Only == 0 && w.via(st.Via) == nil
			pinv := stamp()
			if pubSeen && unsubBetween {
				w.labels["unsub-between-publishes"] = true
			}
			pubSeen = true
			if !mustBlock {
				publishOwned(ps, st.Variant, evs)
			} else {
				// the call must not return while the harness keeps the gate closed
				ret := make(chan struct{})
				go func() { defer close(ret); publishOwned(ps, st.Variant, evs) }()
				isDone := func() bool {
					select {
					case <-ret:
						return true
					default:
						return false
					}
				}
				_, fin, timedOut := gstate.WaitBlocked("c10.publish(", isDone, 20*time.Second, "chan send", "select", "sync.WaitGroup.Wait", "semacquire")
				if fin {
					return fail("step %d: %s(%v) returned while subscriber %d (unbuffered/full, receiver not yet receiving) cannot have been handed the event: it must return only after every hand-off", si, st.Variant, evs, blocker.idx)
				}
				if timedOut {
					blocker.openGate()
					<-ret
					return pbt.Outcome{Inconclusive: "publish neither returned nor was seen blocked"}
				}
				w.labels["publish-observed-blocked-until-gate"] = true
				for _, s := range targets {
					if s.mode == "gated" && !s.gateOpen {
						s.openGate()
						s.pending, s.asyncPending = 0, 0
					}
				}
				<-ret
			}
			if toAll {
				bgMu.Lock()
				pubs = append(pubs, pubRec{inv: pinv, resp: stamp(), evs: evs})
				bgMu.Unlock()
			}
			// return-after-hand-off, exact form: a never/closed-gate receiver's buffer holds exactly what was aimed at it
			if !isAsync(st.Variant) && c.Timeout != "1ms" {
				for _, s := range targets {
					if (s.mode == "never" || (s.mode == "gated" && !s.gateOpen)) && s.asyncPending == 0 && len(s.ch) != s.pending {
						return fail("step %d: %s(%v) returned but subscriber %d's buffer holds %d values, want %d (every hand-off must have finished)", si, st.Variant, evs, s.idx, len(s.ch), s.pending)
					}
				}
				if len(targets) > 0 && n > 0 {
					w.labels["wait/sync-return-checked"] = true
				}
			}
		case "unsub", "unsuball":
			unsubBetween = unsubBetween || pubSeen
			var victims []*subscriber
			var target *subscriber
			if st.K == "unsuball" {
				victims = w.liveSubs()
				// background subscriptions are removed too: let the subscriber goroutine finish first, then treat them as victims
				<-bgDone
				bgExpect()
				for _, b := range bg {
					if b.unsubResp == 0 {
						victims = append(victims, b.s)
					}
				}
			} else if st.Target >= 0 && len(w.subs) > 0 {
				target = w.subs[st.Target%len(w.subs)]
				if target.live && target.owner == nil {
					victims = []*subscriber{target}
				}
			}
			if !c.Racy {
				// known finding (async send vs Unsub): make sure no asynchronous send to a victim is still in flight
				for _, s := range victims {
					if s.mode == "gated" && !s.gateOpen && s.blocksOn(0) {
						w.excluded++
					}
					if c.Timeout == "1ms" {
						continue
					}
					if s.blocksOn(0) {
						s.openGate()
						if s.mode == "never" {
							s.mode = "drain"
							s.start()
						}
						s.pending, s.asyncPending = 0, 0
					}
				}
				if v, inc := w.settle(victims, fmt.Sprintf("before step %d (%s)", si, st.K)); v != "" {
					return fail("%s", v)
				} else if inc != "" {
					return pbt.Outcome{Inconclusive: inc}
				}
				if c.Timeout == "1ms" {
					// sends may still be waiting for their 1ms timer: wait until none is in flight
					dl := time.Now().Add(40 * time.Second)
					for inFlight() > 0 {
						if time.Now().After(dl) {
							return pbt.Outcome{Inconclusive: "sends with a 1ms timeout still in flight after 40s:\n" + inFlightStacks()}
						}
						time.Sleep(200 * time.Microsecond)
					}
				}
			}
			if st.K == "unsuball" && c.Subber > 0 && !c.Racy {
				// sends that cannot finish on their own (to a closed gate / a never-receiver, also on clones) would keep
				// "in flight" forever: release every receiver first
				for _, o := range w.subs {
					if o.mode == "never" || (o.mode == "gated" && !o.gateOpen) {
						o.openGate()
						if o.mode == "never" {
							o.mode = "drain"
						}
						o.start()
						o.pending, o.asyncPending = 0, 0
						w.labels["receivers-released-before-unsuball(background-subscriber)"] = true
					}
				}
				if inc := drainInFlight(); inc != "" {
					return pbt.Outcome{Inconclusive: inc}
				}
			}
			if st.K == "unsuball" {
				if err := w.ps.UnsubAll(); err != nil {
					return fail("step %d: UnsubAll returned %v", si, err)
				}
				w.labels["unsuball"] = true
			} else {
				var err error
				switch {
				case st.Target == -1:
					err = w.ps.Unsub(nil)
					if !errors.Is(err, chans.ErrSubscriptionNotInitalized) {
						return fail("step %d: Unsub(nil) = %v, want ErrSubscriptionNotInitalized", si, err)
					}
					w.labels["unsub-nil"] = true
				case st.Target == -2 || target == nil:
					err = w.ps.Unsub(foreign)
					if !errors.Is(err, chans.ErrAlreadyUnsubscribed) {
						return fail("step %d: Unsub(foreign channel) = %v, want ErrAlreadyUnsubscribed", si, err)
					}
					w.labels["unsub-foreign"] = true
				case !target.live || target.owner != nil:
					err = w.ps.Unsub(target.ch)
					if !errors.Is(err, chans.ErrAlreadyUnsubscribed) {
						return fail("step %d: Unsub(already removed subscriber %d) = %v, want ErrAlreadyUnsubscribed", si, target.idx, err)
					}
					w.labels["unsub-already-removed"] = true
				default:
					err = w.ps.Unsub(target.ch)
					if err != nil {
						return fail("step %d: Unsub(subscriber %d) = %v, want nil", si, target.idx, err)
					}
					w.labels["unsub-known"] = true
				}
			}
			if st.K == "unsuball" {
				at := stamp()
				for _, b := range bg {
					if b.unsubResp == 0 {
						b.unsubInv, b.unsubResp = at, at
					}
				}
			}
			for _, s := range victims {
				s.live = false
				// exactly that channel is closed: its receiver must see the close
				s.openGate()
				if s.mode == "never" {
					s.mode = "drain"
				}
				s.start()
				if closed, inc := s.sawClose(); inc {
					return pbt.Outcome{Inconclusive: "receiver of a removed subscriber neither finished nor was seen waiting"}
				} else if !closed {
					return fail("step %d: subscriber %d was removed but its channel was not closed (its receiver drained %v and is still waiting on an open channel)", si, s.idx, s.received())
				}
			}
			// the others stay open
			for _, s := range w.allLive() {
				if s.closed.Load() {
					return fail("step %d: %s closed subscriber %d's channel, which was not removed", si, st.K, s.idx)
				}
			}
		}
	}
	// ---- end of script: everything still subscribed must be intact; release every receiver
	<-bgDone
	bgExpect()
	for _, b := range bg {
		w.subs = append(w.subs, b.s)
		if b.unsubErr != nil {
			return fail("concurrent Unsub of background subscriber %d returned %v, want nil", b.s.idx, b.unsubErr)
		}
		if c.SubberUnsub {
			b.s.live = false
			w.labels["concurrent-unsub-vs-sync-publish"] = true
		}
	}
	if len(bg) > 0 {
		w.labels["background-subscriber"] = true
		for _, b := range bg {
			if len(b.s.optional) > 0 {
				w.labels["publish-overlapped-a-concurrent-Sub"] = true
			}
		}
	}
	for _, s := range w.subs {
		s.openGate()
	}
	// asynchronous sends are only promised "eventually": wait for them first
	if v, inc := w.settle(w.subs, "end of script"); v != "" {
		return fail("%s", v)
	} else if inc != "" {
		return pbt.Outcome{Inconclusive: inc}
	}
	for _, s := range w.allLive() {
		if s.mode == "never" {
			// its buffer must hold exactly the expected events
			if c.Timeout != "1ms" && len(s.ch) != len(s.expect) {
				return fail("end: never-receiving subscriber %d holds %d buffered events, want %d", s.idx, len(s.ch), len(s.expect))
			}
			s.mode = "drain"
			s.start()
		}
	}
	if c.Timeout == "1ms" {
		dl := time.Now().Add(40 * time.Second)
		for inFlight() > 0 {
			if time.Now().After(dl) {
				return pbt.Outcome{Inconclusive: "sends with a 1ms timeout still in flight after 40s:\n" + inFlightStacks()}
			}
			time.Sleep(200 * time.Microsecond)
		}
	}
	if c.Subber > 0 {
		if inc := drainInFlight(); inc != "" {
			return pbt.Outcome{Inconclusive: inc}
		}
	}
	if err := w.ps.UnsubAll(); err != nil {
		return fail("final UnsubAll returned %v", err)
	}
	// subscriptions made on a clone are closed through the clone, one by one (never UnsubAll on a clone: that
	// would close the shared member channel a second time)
	for _, cl := range w.clones {
		for _, o := range cl.own {
			if o.live {
				if err := cl.ps.Unsub(o.ch); err != nil {
					return fail("Unsub of subscriber %d on the clone it was made on returned %v", o.idx, err)
				}
			}
		}
	}
	for _, s := range w.subs {
		s.live = false
		s.start()
		if closed, inc := s.sawClose(); inc {
			return pbt.Outcome{Inconclusive: "receiver neither finished nor was seen waiting after the final UnsubAll"}
		} else if !closed {
			return fail("final UnsubAll did not close subscriber %d's channel", s.idx)
		}
	}
	// ---- per-subscriber verdicts
	for _, s := range w.subs {
		got := s.received()
		cnt := map[int]int{}
		for _, v := range got {
			cnt[v]++
			if cnt[v] > 1 {
				return fail("subscriber %d received event %d twice: %v", s.idx, v, got)
			}
			if !s.expect[v] && !s.optional[v] {
				return fail("subscriber %d received event %d which was never published to it (published to it: %v; received: %v)", s.idx, v, keys(s.expect), got)
			}
		}
		if c.Timeout != "1ms" {
			for ev := range s.expect {
				if cnt[ev] != 1 {
					return fail("subscriber %d never received event %d although it stayed subscribed and was received from (received %v, expected %v)", s.idx, ev, got, keys(s.expect))
				}
			}
		}
		// Sync variants: publication order
		pos := map[int]int{}
		for i, ev := range w.syncSeq {
			pos[ev] = i + 1
		}
		last := 0
		for _, v := range got {
			if p := pos[v]; p > 0 {
				if p < last {
					return fail("subscriber %d received Sync-published events out of publication order: %v (publication order %v)", s.idx, got, w.syncSeq)
				}
				last = p
			}
		}
	}
	if c.Timeout == "1ms" && c.OnTimeout && c.Subber == 0 {
		aimed, deliv := map[int]int{}, map[int]int{}
		for _, s := range w.subs {
			for ev := range s.expect {
				aimed[ev]++
			}
			for _, v := range s.received() {
				deliv[v]++
			}
		}
		for ev, a := range aimed {
			if d, t := deliv[ev], w.timeoutCount(ev); d+t != a {
				return fail("event %d was aimed at %d subscribers but ended in %d deliveries + %d OnPubTimeout calls", ev, a, d, t)
			}
		}
		w.timeouts.Range(func(k, v any) bool {
			if aimed[k.(int)] == 0 && v.(*atomic.Int32).Load() > 0 {
				return true
			}
			return true
		})
	}
	out := pbt.Outcome{Evals: len(c.Steps) + 1}
	bufs := map[int]bool{}
	for _, s := range w.subs {
		bufs[s.cap] = true
	}
	out.NonTrivial = len(w.subs) >= 2 && len(bufs) >= 2 && len(variants) >= 2 && w.labels["unsub-between-publishes"] && w.nextEv >= 3
	for l := range w.labels {
		out.Labels = append(out.Labels, l)
	}
	for v := range variants {
		out.Labels = append(out.Labels, "variant:"+v)
	}
	out.Labels = append(out.Labels, "timeout="+c.Timeout)
	sort.Strings(out.Labels)
	if w.excluded > 0 {
		out.Skipped = true
		out.Labels = append(out.Labels, "excluded:unsub-placement-with-async-send-in-flight")
	}
	return out
}

func keys(m map[int]bool) []int {
	k := make([]int, 0, len(m))
	for x := range m {
		k = append(k, x)
	}
	sort.Ints(k)
	return k
}

func genStep(t *rapid.T) Step {
	k := rapid.SampledFrom([]string{"pub", "pub", "pub", "pub", "pub", "sub", "sub", "unsub", "unsub", "unsuball", "clone"}).Draw(t, "k")
	st := Step{K: k}
	switch k {
	case "pub":
		st.Variant = rapid.SampledFrom([]string{"Pub", "PubSlice", "PubWait", "PubSliceWait", "PubSync", "PubSliceSync"}).Draw(t, "variant")
		st.N = rapid.IntRange(0, 4).Draw(t, "n")
		switch rapid.IntRange(0, 9).Draw(t, "only") {
		case 0:
			st.Only = rapid.IntRange(1, 6).Draw(t, "onlyidx")
		case 1:
			st.Only = -2
		case 2, 3:
			st.Via = rapid.IntRange(1, 3).Draw(t, "via")
		}
	case "sub":
		st.Buf = rapid.SampledFrom([]int{-1, -1, 0, 1, 2, 5}).Draw(t, "buf")
		st.Recv = rapid.SampledFrom([]string{"drain", "drain", "gated", "never"}).Draw(t, "recv")
		if rapid.IntRange(0, 5).Draw(t, "onclone") == 0 {
			st.Via = rapid.IntRange(1, 3).Draw(t, "via")
		}
	case "clone":
		st.Target = rapid.SampledFrom([]int{0, 1, 1, 2, 3, -2}).Draw(t, "target")
	case "unsub":
		st.Target = rapid.SampledFrom([]int{0, 1, 2, 3, 4, -1, -2}).Draw(t, "target")
	case "unsuball":
		if rapid.IntRange(0, 2).Draw(t, "rare") != 0 {
			st = Step{K: "unsub", Target: rapid.IntRange(0, 4).Draw(t, "target2")}
		}
	}
	return st
}

func genCase(t *rapid.T) Case {
	c := Case{
		DefaultBuffer: rapid.SampledFrom([]int{0, 0, 1, 3}).Draw(t, "defbuf"),
		Timeout:       rapid.SampledFrom([]string{"0", "0", "1h", "1ms"}).Draw(t, "timeout"),
		OnTimeout:     rapid.Bool().Draw(t, "ontimeout"),
		Subber:        rapid.SampledFrom([]int{0, 0, 0, 1, 3}).Draw(t, "subber"),
	}
	if rapid.IntRange(0, 24).Draw(t, "many?") == 0 {
		c.Many = rapid.SampledFrom([]int{63, 64, 65, 70}).Draw(t, "many")
	}
	// start with 1..3 subscribers so that most publishes have somebody to reach
	pre := rapid.IntRange(0, 3).Draw(t, "presubs")
	for i := 0; i < pre; i++ {
		c.Steps = append(c.Steps, Step{K: "sub", Buf: rapid.SampledFrom([]int{-1, 0, 1, 2, 5}).Draw(t, "buf"), Recv: rapid.SampledFrom([]string{"drain", "drain", "gated", "never"}).Draw(t, "recv")})
	}
	c.Steps = append(c.Steps, pbt.OpsOf(t, rapid.Custom(genStep), []int{1, 3, 6, 10}, "steps")...)
	if c.Subber > 0 && rapid.IntRange(0, 2).Draw(t, "subberunsub") == 0 {
		c.SubberUnsub = true
		for i := range c.Steps {
			switch c.Steps[i].Variant {
			case "Pub", "PubWait":
				c.Steps[i].Variant = "PubSync"
			case "PubSlice", "PubSliceWait":
				c.Steps[i].Variant = "PubSliceSync"
			}
		}
	}
	return c
}

var specScript = pbt.Register(&pbt.Spec[Case]{
	Property: "C10", Name: "C10.script",
	Rule: "E5 scripts: PubSub config (DefaultBuffer 0/1/3, PubTimeoutAfter 0/1ms/1h, OnPubTimeout set or nil) x 0..3 initial + later subscribers {Sub|SubBuf(n); receiver drain|gated|never} x steps " +
		"{Pub,PubSlice,PubWait,PubSliceWait,PubSync,PubSliceSync with globally unique event ids, optionally through a one-shot WithOnly(subscriber|foreign) or through a PERSISTENT WithOnly clone kept across later Sub/Unsub steps (incl. Sub on the clone); Unsub(known|already removed|foreign|nil); UnsubAll}. " +
		"Oracle per channel from what its receiver saw until close: exactly-once for every event published while it was subscribed, no duplicates, nothing not published to it, Sync events in publication order; " +
		"Wait/Sync calls return only after every hand-off (exact buffer length for receivers that do not receive; 'must not return' observed from goroutine state while the harness keeps a gate closed); " +
		"1ms timeout: deliveries + OnPubTimeout calls == subscribers aimed at, per event; Unsub/UnsubAll close exactly the removed channels, right errors otherwise; WithOnly reaches only the given subscription; " +
		"'eventually' for async variants is awaited, 'lost' is declared only when no PubSub goroutine is in flight. Unsub placements with an asynchronous send still in flight (known finding) are excluded by construction " +
		"(settled first; counted). non-trivial = >=2 subscribers with different buffer sizes, >=2 publish variants, an Unsub between publishes, >=3 events",
	Gen: genCase, Run: Run, Quick: 1200, Thorough: 10000, Crashy: true, Retries: 5,
	Assumes: []string{"Go runtime channels and timers are not controlled; asynchronous sends are awaited, not scheduled"},
})

func TestC10Script(t *testing.T) { pbt.Check(t, specScript) }
func TestReplay(t *testing.T)    { pbt.Replay(t) }
