package c10

import (
	"fmt"
	"sync"
	"sync/atomic"
	"testing"
	"time"

	"gopkg.in/typ.v4/chans"
	"verifharness/internal/pbt"
)

// RCCase: events are published asynchronously (Pub / PubSlice) to subscribers that are not receiving yet; while those
// hand-offs are pending the caller - on the publishing goroutine, after Pub returned - changes the exported settings
// PubTimeoutAfter / OnPubTimeout. A pending pair keeps the settings it was published with.
type RCCase struct {
	Subs   int    `json:"subs"`
	Events int    `json:"events"`
	Slice  bool   `json:"slice"`
	Before string `json:"before"` // none | 1ms (settings when publishing)
	After  string `json:"after"`  // none | 1ms | cbnil (settings installed while the sends are pending)
	WaitMS int    `json:"wait_ms"`
}

func RunReconf(c RCCase) pbt.Outcome {
	var ps chans.PubSub[int]
	var mu sync.Mutex
	cb1, cb2 := map[int]int{}, map[int]int{}
	mk := func(m map[int]int) func(int) {
		return func(ev int) { mu.Lock(); m[ev]++; mu.Unlock() }
	}
	if c.Before == "1ms" {
		ps.PubTimeoutAfter, ps.OnPubTimeout = time.Millisecond, mk(cb1)
	}
	subs := make([]<-chan int, c.Subs)
	for i := range subs {
		subs[i] = ps.Sub()
	}
	evs := make([]int, c.Events)
	for i := range evs {
		evs[i] = i + 1
	}
	if c.Slice {
		ps.PubSlice(evs)
	} else {
		for _, ev := range evs {
			ps.Pub(ev)
		}
	}
	// the publish calls have returned; the hand-offs are pending (nobody receives yet)
	switch c.After {
	case "1ms":
		ps.PubTimeoutAfter, ps.OnPubTimeout = time.Millisecond, mk(cb2)
	case "cbnil":
		ps.OnPubTimeout = nil
	case "none":
		ps.PubTimeoutAfter, ps.OnPubTimeout = 0, nil
	}
	time.Sleep(time.Duration(c.WaitMS) * time.Millisecond)
	// now everybody receives until nothing is pending any more
	got := make([]map[int]int, c.Subs)
	var wg sync.WaitGroup
	var total atomic.Int64
	for i := range subs {
		i := i
		got[i] = map[int]int{}
		wg.Add(1)
		go func() {
			defer wg.Done()
			idle := time.NewTimer(300 * time.Millisecond)
			defer idle.Stop()
			for {
				select {
				case v := <-subs[i]:
					got[i][v]++
					total.Add(1)
					if !idle.Stop() {
						<-idle.C
					}
					idle.Reset(300 * time.Millisecond)
				case <-idle.C:
					return
				}
			}
		}()
	}
	wg.Wait()
	// wait until no send goroutine is left, then close
	if msg := drainInFlight(); msg != "" {
		return pbt.Outcome{Inconclusive: msg}
	}
	mu.Lock()
	defer mu.Unlock()
	desc := fmt.Sprintf("%d events published asynchronously to %d subscribers that were not receiving yet (settings then: timeout %s), settings changed by the caller while the hand-offs were pending (to: %s), receivers started %d ms later", c.Events, c.Subs, c.Before, c.After, c.WaitMS)
	for _, ev := range evs {
		delivered := 0
		for i := range got {
			if got[i][ev] > 1 {
				return pbt.Fail("%s: subscriber %d received event %d %d times", desc, i, ev, got[i][ev])
			}
			delivered += got[i][ev]
		}
		if cb2[ev] != 0 {
			return pbt.Fail("%s: the OnPubTimeout callback installed AFTER the publish was called for event %d (%d times): a pending pair keeps the settings it was published with", desc, ev, cb2[ev])
		}
		if c.Before == "none" {
			if delivered != c.Subs {
				return pbt.Fail("%s: event %d, published without a timeout, reached %d of %d subscribers", desc, ev, delivered, c.Subs)
			}
		} else if delivered+cb1[ev] != c.Subs {
			return pbt.Fail("%s: event %d was aimed at %d subscribers but ended in %d deliveries + %d calls of the OnPubTimeout callback it was published with", desc, ev, c.Subs, delivered, cb1[ev])
		}
	}
	ps.UnsubAll()
	return pbt.Outcome{Evals: c.Events * c.Subs, NonTrivial: c.Before != c.After, Labels: []string{"before=" + c.Before + ",after=" + c.After}}
}

var specReconf = pbt.Register(&pbt.Spec[RCCase]{
	Property: "C10", Name: "C10.reconf",
	Rule: "enumerated: 1..40 events published with Pub / PubSlice to 1..5 subscribers that are not receiving yet, under {no timeout, 1 ms + callback}; while the hand-offs are pending the caller (same goroutine, after the publish returned) installs other settings " +
		"{1 ms + another callback, callback nil, no timeout}; receivers start 0 / 20 ms later. Every pair ends as the settings it was published with say: without timeout delivered exactly once; with 1 ms: deliveries + calls of THAT callback == subscribers; the later callback is never called for these events",
	Enum: func(shard, shards int, tier string, yield func(RCCase) bool) {
		i := 0
		for _, before := range []string{"none", "1ms"} {
			for _, after := range []string{"1ms", "cbnil", "none"} {
				for _, se := range [][2]int{{1, 1}, {3, 8}, {5, 40}} {
					for _, slice := range []bool{false, true} {
						for _, w := range []int{0, 20} {
							i++
							if (i-1)%shards == shard && !yield(RCCase{Subs: se[0], Events: se[1], Slice: slice, Before: before, After: after, WaitMS: w}) {
								return
							}
						}
					}
				}
			}
		}
	},
	Run: RunReconf, Exhaustive: true, Crashy: true,
})

func TestC10Reconf(t *testing.T) { pbt.Check(t, specReconf) }
