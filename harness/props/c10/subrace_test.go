package c10

import (
	"errors"
	"fmt"
	"runtime"
	"sync"
	"sync/atomic"
	"testing"
	"time"

	"gopkg.in/typ.v4/chans"
	"pgregory.net/rapid"
	"verifharness/internal/pbt"
)

// SRCase: Pre subscriptions with receivers parked on them; one goroutine calls UnsubAll while Subbers goroutines each
// subscribe Burst new channels at the same moment (nothing is published meanwhile). Afterwards: every channel
// subscribed before must be closed; every new channel is either closed-and-removed (Unsub says already unsubscribed) or
// open-and-subscribed (a Sync probe reaches it exactly once, Unsub closes it) - and publishing panics in neither case.
// Runs under the race detector.
type SRCase struct {
	Pre     int `json:"pre"`
	Subbers int `json:"subbers"`
	Burst   int `json:"burst"`
	Procs   int `json:"procs"`
	Reps    int `json:"reps"`
}

func RunSubRace(c SRCase) pbt.Outcome {
	if c.Procs > 0 {
		defer runtime.GOMAXPROCS(runtime.GOMAXPROCS(c.Procs))
	}
	overlapped := 0
	for rep := 0; rep < c.Reps; rep++ {
		var ps chans.PubSub[int]
		pre := make([]<-chan int, c.Pre)
		var closedSeen atomic.Int32
		var rwg sync.WaitGroup
		for i := range pre {
			pre[i] = ps.Sub()
			ch := pre[i]
			rwg.Add(1)
			go func() {
				defer rwg.Done()
				for range ch {
				}
				closedSeen.Add(1)
			}()
		}
		var gate atomic.Int32
		parties := 1 + c.Subbers
		var wg sync.WaitGroup
		newChs := make([][]<-chan int, c.Subbers)
		var unsubDone atomic.Int64
		var clock atomic.Int64
		subStamps := make([][][2]int64, c.Subbers)
		wg.Add(1)
		go func() {
			defer wg.Done()
			gate.Add(1)
			for int(gate.Load()) < parties {
				runtime.Gosched()
			}
			if err := ps.UnsubAll(); err != nil {
				panic(err)
			}
			unsubDone.Store(clock.Add(1))
		}()
		for s := 0; s < c.Subbers; s++ {
			s := s
			wg.Add(1)
			go func() {
				defer wg.Done()
				gate.Add(1)
				for int(gate.Load()) < parties {
					runtime.Gosched()
				}
				for b := 0; b < c.Burst; b++ {
					t0 := clock.Add(1)
					ch := ps.SubBuf(1)
					newChs[s] = append(newChs[s], ch)
					subStamps[s] = append(subStamps[s], [2]int64{t0, clock.Add(1)})
				}
			}()
		}
		wg.Wait()
		// every channel subscribed before the race is closed by UnsubAll: its receiver ends
		done := make(chan struct{})
		go func() { rwg.Wait(); close(done) }()
		select {
		case <-done:
		case <-time.After(20 * time.Second):
			return pbt.Fail("repetition %d: UnsubAll returned, but only %d of the %d channels subscribed before it were closed (their receivers are still waiting)", rep, closedSeen.Load(), c.Pre)
		}
		// the new channels
		var open []<-chan int
		for s := range newChs {
			for b, ch := range newChs[s] {
				if subStamps[s][b][0] < unsubDone.Load() {
					overlapped++
				}
				select {
				case _, ok := <-ch:
					if ok {
						return pbt.Fail("repetition %d: a freshly subscribed channel delivered a value although nothing was published", rep)
					}
					// closed: it must have been removed as well
					if subStamps[s][b][0] > unsubDone.Load() {
						return pbt.Fail("repetition %d: a channel subscribed AFTER UnsubAll had returned is closed", rep)
					}
					if err := ps.Unsub(ch); !errors.Is(err, chans.ErrAlreadyUnsubscribed) {
						return pbt.Fail("repetition %d: a channel subscribed while UnsubAll was running is closed, but Unsub of it returns %v: it was closed without being removed", rep, err)
					}
				default:
					open = append(open, ch)
				}
			}
		}
		var pan any
		func() {
			defer func() { pan = recover() }()
			ps.PubSync(4242)
		}()
		if pan != nil {
			return pbt.Fail("repetition %d: after UnsubAll and %d concurrent Sub calls had all returned (nothing in flight), PubSync panics: %v", rep, c.Subbers*c.Burst, pan)
		}
		for _, ch := range open {
			select {
			case v, ok := <-ch:
				if !ok || v != 4242 {
					return pbt.Fail("repetition %d: an open new subscription yields (%d,%v) for the probe event", rep, v, ok)
				}
			default:
				return pbt.Fail("repetition %d: a channel returned by Sub (still open, never unsubscribed) did not get the probe event published afterwards: it is not subscribed", rep)
			}
			if err := ps.Unsub(ch); err != nil {
				return pbt.Fail("repetition %d: Unsub of an open new subscription: %v", rep, err)
			}
			if _, ok := <-ch; ok {
				return pbt.Fail("repetition %d: Unsub did not close the channel", rep)
			}
		}
	}
	out := pbt.Outcome{Evals: c.Reps, NonTrivial: overlapped > 0, Labels: []string{fmt.Sprintf("pre>=%d", c.Pre/100*100)}}
	if overlapped > 0 {
		out.Labels = append(out.Labels, "Sub-calls-overlapping-UnsubAll")
	}
	return out
}

var specSubRace = pbt.Register(&pbt.Spec[SRCase]{
	Property: "C10", Name: "C10.subrace",
	Rule: "E4 under -race: 1..400 subscriptions with parked receivers, one goroutine calls UnsubAll while 1..4 goroutines subscribe 1..40 new channels each at the same moment (spin barrier), nothing published meanwhile, 6..30 repetitions; " +
		"afterwards every old channel is closed, every new channel is either closed AND removed or open AND subscribed (a Sync probe reaches it exactly once, Unsub closes it), and the probe publish does not panic; " +
		"non-trivial = some Sub call started before UnsubAll returned",
	Gen: func(t *rapid.T) SRCase {
		pre := rapid.SampledFrom([]int{1, 8, 70, 200, 400}).Draw(t, "pre")
		reps := 30
		if pre >= 200 {
			reps = 6
		}
		return SRCase{Pre: pre, Subbers: rapid.IntRange(1, 4).Draw(t, "subbers"), Burst: rapid.SampledFrom([]int{1, 5, 40}).Draw(t, "burst"),
			Procs: rapid.SampledFrom([]int{2, 4, 16}).Draw(t, "procs"), Reps: reps}
	},
	Run: RunSubRace, Quick: 40, Thorough: 1500, Crashy: true, Retries: 50,
})

func TestC10SubRace(t *testing.T) { pbt.Check(t, specSubRace) }

// ---------------------------------------------------------------- the script unit with pre-Go-1.23 timer channels

var specScriptAsync = pbt.Register(&pbt.Spec[Case]{
	Property: "C10", Name: "C10.scriptasync",
	Rule: "C10.script in a process running with GODEBUG=asynctimerchan=1 (pre-Go-1.23 timer channels: what a main module with an older go line gets; the publish timeouts are timers)",
	Gen:  specScript.Gen, Run: specScript.Run, Quick: specScript.Quick / 3, Thorough: specScript.Thorough / 3, Crashy: true, Retries: specScript.Retries,
})

func TestC10ScriptAsync(t *testing.T) { pbt.Check(t, specScriptAsync) }
