package c10

import (
	"encoding/json"
	"fmt"
	"os"
	"os/exec"
	"strings"
	"testing"
	"time"

	"pgregory.net/rapid"
	"verifharness/internal/pbt"
)

// The known finding (DESIGN section 6/7, C10): Pub, PubSlice, PubWait and PubSliceWait start their sends
// outside the lock, so Unsub/UnsubAll can close a channel while a send to it is in flight:
// "panic: send on closed channel" in chans.SendTimeout <- (*PubSub).send, killing the process.
// Such scripts run in a child process; a death with exactly this signature is the known finding,
// any other outcome is judged normally.

const knownKey = "async-send-vs-unsub"

// Second known finding: a PubSub returned by WithOnly keeps the subscription's channel in its own list,
// outside the original's lifecycle. Once the original Unsub/UnsubAll has closed that channel, ANY publish
// through the clone (even PubSync) sends on a closed channel and panics:
// c := ps.WithOnly(sub); ps.Unsub(sub); c.PubSync(1).
const knownKey2 = "withonly-clone-after-unsub"

// cloneAfterUnsub replays the script's bookkeeping: does it publish through a persistent clone whose
// subscription the PubSub has removed by then?
func cloneAfterUnsub(c Case) bool {
	type sub struct {
		live, onClone bool
	}
	var subs []*sub
	var clones []*sub // member (nil if none)
	for _, st := range c.Steps {
		switch st.K {
		case "sub":
			s := &sub{live: true}
			if st.Via > 0 && len(clones) > 0 {
				s.onClone = true
			}
			subs = append(subs, s)
		case "clone":
			var m *sub
			if st.Target >= 0 && len(subs) > 0 {
				if t := subs[st.Target%len(subs)]; t.live && !t.onClone {
					m = t
				}
			}
			clones = append(clones, m)
		case "unsub":
			if st.Target >= 0 && len(subs) > 0 {
				if t := subs[st.Target%len(subs)]; !t.onClone {
					t.live = false
				}
			}
		case "unsuball":
			for _, t := range subs {
				if !t.onClone {
					t.live = false
				}
			}
		case "pub":
			if st.Via > 0 && len(clones) > 0 {
				if m := clones[(st.Via-1)%len(clones)]; m != nil && !m.live {
					return true
				}
			}
		}
	}
	return false
}

type KCase struct {
	Script Case `json:"script"`
}

// runChild executes the script in a fresh process (this test binary re-executing itself).
func runChild(c Case) (out pbt.Outcome, died bool, log string) {
	js, _ := json.Marshal(c)
	cmd := exec.Command(os.Args[0], "-test.run", "^TestC10Child$", "-test.count=1", "-test.timeout", "120s")
	cmd.Env = append(os.Environ(), "VERIF_C10_CHILD="+string(js))
	b, err := cmd.CombinedOutput()
	log = string(b)
	if i := strings.Index(log, "C10-CHILD-RESULT:"); i >= 0 {
		line := log[i+len("C10-CHILD-RESULT:"):]
		if j := strings.IndexByte(line, '\n'); j >= 0 {
			line = line[:j]
		}
		var o pbt.Outcome
		if json.Unmarshal([]byte(line), &o) == nil {
			return o, false, log
		}
	}
	if err != nil {
		return pbt.Outcome{}, true, log
	}
	return pbt.Outcome{Inconclusive: "child produced no result"}, false, log
}

func TestC10Child(t *testing.T) {
	js := os.Getenv("VERIF_C10_CHILD")
	if js == "" {
		t.Skip("child mode only")
	}
	var c Case
	if err := json.Unmarshal([]byte(js), &c); err != nil {
		t.Fatal(err)
	}
	o := Run(c)
	// give in-flight asynchronous sends a moment to hit a closed channel before the process exits normally
	time.Sleep(3 * time.Millisecond)
	b, _ := json.Marshal(o)
	fmt.Printf("C10-CHILD-RESULT:%s\n", b)
}

func matchesKnown(log string) bool {
	return strings.Contains(log, "panic: send on closed channel") &&
		strings.Contains(log, "chans.SendTimeout") &&
		strings.Contains(log, "chans.(*PubSub[") && strings.Contains(log, ").send")
}

func RunKnown(k KCase) pbt.Outcome {
	c := k.Script
	c.Racy = true
	o, died, log := runChild(c)
	if died && strings.Contains(log, "panic: test timed out") {
		return pbt.Outcome{Inconclusive: "child process hit its own deadline"}
	}
	if !died {
		o.Labels = append(o.Labels, "racy-script-survived")
		o.NonTrivial = true
		return o
	}
	asyncBeforeUnsub := false
	seenAsync := false
	for _, st := range c.Steps {
		if st.K == "pub" && (st.Variant == "Pub" || st.Variant == "PubSlice" || st.Variant == "PubWait" || st.Variant == "PubSliceWait") {
			seenAsync = true
		}
		if (st.K == "unsub" || st.K == "unsuball") && seenAsync {
			asyncBeforeUnsub = true
		}
	}
	if matchesKnown(log) && cloneAfterUnsub(c) && (!asyncBeforeUnsub || !strings.Contains(log, "created by gopkg.in/typ.v4/chans.(*PubSub")) {
		return pbt.Outcome{Known: knownKey2, NonTrivial: true, Labels: []string{"died:send-on-closed-channel-via-clone(known)"},
			KnownWhat: "a publish through a persistent WithOnly clone after the original PubSub had unsubscribed (closed) the clone's channel: panic: send on closed channel in chans.SendTimeout <- (*PubSub).send"}
	}
	if matchesKnown(log) && (asyncBeforeUnsub || cloneAfterUnsub(c)) {
		return pbt.Outcome{Known: knownKey, NonTrivial: true, Labels: []string{"died:send-on-closed-channel(known)"},
			KnownWhat: "Unsub/UnsubAll closed a channel while an asynchronous send (Pub/PubSlice/PubWait/PubSliceWait) to it was in flight: panic: send on closed channel in chans.SendTimeout <- (*PubSub).send"}
	}
	ex := log
	if i := strings.Index(ex, "panic:"); i >= 0 {
		ex = ex[i:]
	} else if i := strings.Index(ex, "fatal error:"); i >= 0 {
		ex = ex[i:]
	}
	if len(ex) > 2500 {
		ex = ex[:2500]
	}
	return pbt.Fail("the process died running this script, and not with the known async-send-vs-Unsub signature:\n%s", ex)
}

var specKnown = pbt.Register(&pbt.Spec[KCase]{
	Property: "C10", Name: "C10.known",
	Rule: "child-process scenarios of the crash-prone class: the deterministic probe Sub(); Pub(e); Unsub(sub) with nobody receiving (re-demonstrates known finding 1 on every run), the probe Sub(); c := WithOnly(sub); Unsub(sub); c.PubSync(e) (known finding 2: a persistent WithOnly clone publishes to a channel its original has closed), followed by rapid scripts in which " +
		"Unsub/UnsubAll is NOT preceded by settling in-flight asynchronous sends; a child death matching the known signature (panic 'send on closed channel', frames chans.SendTimeout and (*PubSub).send, script has an async publish " +
		"before an Unsub) is reported as KNOWN-FINDING key=async-send-vs-unsub; any other death or oracle failure is a violation; non-trivial = every case (each is a separate process)",
	Enum: func(shard, shards int, tier string, yield func(KCase) bool) {
		if !yield(KCase{Script: Case{Timeout: "0", Steps: []Step{{K: "sub", Buf: -1, Recv: "never"}, {K: "pub", Variant: "Pub"}, {K: "unsub", Target: 0}}}}) {
			return
		}
		yield(KCase{Script: Case{Timeout: "0", Steps: []Step{{K: "sub", Buf: 1, Recv: "drain"}, {K: "clone", Target: 0}, {K: "unsub", Target: 0}, {K: "pub", Variant: "PubSync", Via: 1}}}})
	},
	Gen: func(t *rapid.T) KCase {
		c := genCase(t)
		// make sure there is an asynchronous publish followed by an unsubscribe
		c.Steps = append(c.Steps, Step{K: "pub", Variant: rapid.SampledFrom([]string{"Pub", "PubSlice"}).Draw(t, "v"), N: 2},
			Step{K: rapid.SampledFrom([]string{"unsub", "unsuball"}).Draw(t, "u"), Target: rapid.IntRange(0, 3).Draw(t, "target")})
		if rapid.IntRange(0, 2).Draw(t, "clonecase") == 0 {
			c.Steps = append(c.Steps, Step{K: "sub", Buf: 2, Recv: "drain"}, Step{K: "clone", Target: len(c.Steps)}, Step{K: "unsuball"},
				Step{K: "pub", Variant: rapid.SampledFrom([]string{"PubSync", "PubWait", "Pub", "PubSliceSync"}).Draw(t, "cv"), N: 1, Via: 9})
		}
		return KCase{Script: c}
	},
	Run: RunKnown, Quick: 60, Thorough: 1500, NoRecover: false,
})

func TestC10Known(t *testing.T) { pbt.Check(t, specKnown) }
