package c04

import (
	"fmt"
	"runtime"
	"sort"
	"strings"
	"sync"
	"sync/atomic"
	"testing"

	"gopkg.in/typ.v4/sync2"
	"pgregory.net/rapid"
	"verifharness/internal/pbt"
	"verifharness/internal/sched"
)

// ---------------------------------------------------------------- sequential unit

type SeqCase struct {
	Ops []MOp `json:"ops"`
}

func layoutLabels(m *sync2.Map[int, int], set map[string]bool) {
	rl, amended, dl, nils, exp := sync2.VerifMapLayout(m)
	if amended {
		set["layout:amended"] = true
	}
	if dl >= 0 && !amended {
		set["layout:dirty-not-amended"] = true
	}
	if nils > 0 {
		set["layout:nil-entry"] = true
	}
	if exp > 0 {
		set["layout:expunged-entry"] = true
	}
	if rl > 0 && dl < 0 {
		set["layout:clean-read-only"] = true
	}
}

func RunSeq(c SeqCase) pbt.Outcome {
	var m sync2.Map[int, int]
	model := map[int]int{}
	labels := map[string]bool{}
	promotions, lastDirty := 0, -1
	for i, op := range c.Ops {
		val := i + 1
		for r := 1; r < op.Rep; r++ { // the repetitions before the last one: loads / load-or-stores that change nothing
			if o, k, _, _ := Exec(&m, op, val); op.K == "load" || op.K == "lad" {
				if mv, mok := model[op.Key]; k != mok || o != mv {
					return pbt.Fail("op %d %+v, repetition %d: returned (%d,%v), model says (%d,%v)", i, op, r, o, k, mv, mok)
				}
				if op.K == "lad" {
					delete(model, op.Key)
				}
			} else if op.K == "store" {
				model[op.Key] = val
			} else if op.K == "los" {
				if _, mok := model[op.Key]; !mok {
					model[op.Key] = val
				}
			} else if op.K == "del" {
				delete(model, op.Key)
			}
		}
		if op.Rep > 1 {
			labels["long-repetition"] = true
		}
		out, ok, pairs, calls := Exec(&m, op, val)
		cur, present := model[op.Key]
		where := func() string { return fmt.Sprintf("op %d %+v (model before: %v)", i, op, model) }
		switch op.K {
		case "load":
			if ok != present || out != cur {
				return pbt.Fail("%s: Load = (%d,%v), map model says (%d,%v)", where(), out, ok, cur, present)
			}
		case "store":
			model[op.Key] = val
		case "los":
			if present {
				if !ok || out != cur {
					return pbt.Fail("%s: LoadOrStore = (%d,loaded=%v), want (%d,true)", where(), out, ok, cur)
				}
			} else {
				if ok || out != val {
					return pbt.Fail("%s: LoadOrStore = (%d,loaded=%v), want (%d,false)", where(), out, ok, val)
				}
				model[op.Key] = val
			}
		case "lad":
			if ok != present || out != cur {
				return pbt.Fail("%s: LoadAndDelete = (%d,%v), want (%d,%v)", where(), out, ok, cur, present)
			}
			delete(model, op.Key)
		case "del":
			delete(model, op.Key)
		case "range":
			want := len(model)
			if op.Stop != 0 && op.Stop < want {
				want = op.Stop
			}
			if len(model) == 0 {
				want = 0
			}
			if calls != want {
				return pbt.Fail("%s: Range(stop=%d) made %d callbacks, want %d", where(), op.Stop, calls, want)
			}
			seen := map[int]bool{}
			for _, p := range pairs {
				if seen[p[0]] {
					return pbt.Fail("%s: Range visited key %d twice: %v", where(), p[0], pairs)
				}
				seen[p[0]] = true
				if v, ok := model[p[0]]; !ok || v != p[1] {
					return pbt.Fail("%s: Range reported (%d,%d), model has (%d,%v)", where(), p[0], p[1], v, ok)
				}
			}
			if op.Stop == 0 {
				labels["range-full"] = true
			} else {
				labels["range-early-stop"] = true
			}
		}
		layoutLabels(&m, labels)
		_, _, dl, _, _ := sync2.VerifMapLayout(&m)
		if lastDirty >= 0 && dl < 0 {
			promotions++
		}
		lastDirty = dl
	}
	// final sweep
	for k := 0; k < 5; k++ {
		v, ok := m.Load(k)
		if mv, mok := model[k]; ok != mok || v != mv {
			return pbt.Fail("final Load(%d) = (%d,%v), model (%d,%v) after ops %+v", k, v, ok, mv, mok, c.Ops)
		}
	}
	out := pbt.Outcome{Evals: len(c.Ops) + 1}
	if promotions >= 1 {
		labels["promotion>=1"] = true
	}
	if promotions >= 2 {
		labels["promotion>=2"] = true
	}
	out.NonTrivial = promotions >= 1 && labels["layout:expunged-entry"] && len(c.Ops) >= 8
	for l := range labels {
		out.Labels = append(out.Labels, l)
	}
	sort.Strings(out.Labels)
	return out
}

func genMOp(keys int, withRange bool) *rapid.Generator[MOp] {
	kinds := []string{"load", "load", "store", "store", "los", "los", "lad", "del"}
	if withRange {
		kinds = append(kinds, "range")
	}
	return rapid.Custom(func(t *rapid.T) MOp {
		k := rapid.SampledFrom(kinds).Draw(t, "k")
		op := MOp{K: k}
		if k == "range" {
			op.Stop = rapid.SampledFrom([]int{0, 0, 1, 2}).Draw(t, "stop")
		} else {
			op.Key = rapid.IntRange(0, keys-1).Draw(t, "key")
		}
		return op
	})
}

var specSeq = pbt.Register(&pbt.Spec[SeqCase]{
	Property: "C04", Name: "C04.seq",
	Rule: "single goroutine: rapid lists of Load/Store/LoadOrStore/LoadAndDelete/Delete/Range(full|stop after k) over keys 0..3 with unique stored values, " +
		"every result compared with a map[int]int model, Range = exactly the model's pairs once each / exactly k callbacks on early stop; " +
		"non-trivial = >=8 ops, crossed a dirty->read promotion and reached a layout with an expunged entry (layouts read through the tag-guarded VerifMapLayout hook)",
	Gen: func(t *rapid.T) SeqCase {
		ops := pbt.OpsOf(t, genMOp(4, true), []int{0, 4, 10, 20, 40}, "ops")
		if len(ops) > 0 && rapid.IntRange(0, 29).Draw(t, "longrep") == 0 {
			j := rapid.IntRange(0, len(ops)-1).Draw(t, "at")
			if ops[j].K != "range" {
				ops[j].Rep = rapid.SampledFrom([]int{300, 65536 + 5, 70000, 140000}).Draw(t, "rep")
			}
		}
		return SeqCase{Ops: ops}
	},
	Run: RunSeq, Quick: 20000, Thorough: 200000,
})

func TestC04Seq(t *testing.T) { pbt.Check(t, specSeq) }

// ---------------------------------------------------------------- concurrent units (E3 sched, E4 stress)

type ConcCase struct {
	Setup   []MOp   `json:"setup"`
	Threads [][]MOp `json:"threads"`
	Keys    int     `json:"keys"`
	Sched   []int   `json:"sched,omitempty"`
	// Bulk: that many extra keys (1000, 1001, ...) are stored first - and promoted into the read map when BulkPromote -
	// so that size-dependent paths of the implementation are reached; thread ops may address them (key >= 1000)
	Bulk        int   `json:"bulk,omitempty"`
	BulkPromote bool  `json:"bulk_promote,omitempty"`
	Procs       int   `json:"procs,omitempty"` // E4: GOMAXPROCS
	Spin        []int `json:"spin,omitempty"`  // E4: per-thread start perturbation (Gosched calls)
}

// runSetup executes the setup sequentially (checking it against the model) and returns the model.
func runSetup(m *sync2.Map[int, int], setup []MOp, bulk int, promote bool) (map[int]int, string) {
	model := map[int]int{}
	for i := 0; i < bulk; i++ {
		m.Store(1000+i, 5000+i)
		model[1000+i] = 5000 + i
	}
	if bulk > 0 && promote {
		m.Range(func(k, v int) bool { return true })
	}
	for i, op := range setup {
		if op.K == "range" {
			m.Range(func(k, v int) bool { return true }) // promotes
			continue
		}
		val := 1000 + i
		out, ok, _, _ := Exec(m, op, val)
		cur, present := model[op.Key]
		switch op.K {
		case "load", "lad":
			if ok != present || out != cur {
				return nil, fmt.Sprintf("setup op %d %+v returned (%d,%v), model (%d,%v)", i, op, out, ok, cur, present)
			}
			if op.K == "lad" {
				delete(model, op.Key)
			}
		case "store":
			model[op.Key] = val
		case "los":
			if present != ok {
				return nil, fmt.Sprintf("setup op %d %+v loaded=%v, model present=%v", i, op, ok, present)
			}
			if !present {
				model[op.Key] = val
			}
		case "del":
			delete(model, op.Key)
		}
	}
	return model, ""
}

func overlapDifferentThreads(hist []Rec) bool {
	for i, a := range hist {
		if a.Th < 0 || a.Op.K == "range" {
			continue
		}
		for _, b := range hist[i+1:] {
			if b.Th < 0 || b.Op.K == "range" || b.Th == a.Th || b.Op.Key != a.Op.Key {
				continue
			}
			if a.Inv < b.Resp && b.Inv < a.Resp && (isMutator(a.Op.K) || isMutator(b.Op.K)) {
				return true
			}
		}
	}
	return false
}

func keysOf(n int) []int {
	ks := make([]int, n)
	for i := range ks {
		ks[i] = i
	}
	return ks
}

// universe: keys 0..3 plus the bulk keys
func universe(c ConcCase) []int {
	ks := keysOf(max(c.Keys, 4))
	for i := 0; i < c.Bulk; i++ {
		ks = append(ks, 1000+i)
	}
	return ks
}

// probeKeys: the keys the quiescent postlude loads one by one
func probeKeys(c ConcCase) []int {
	ks := keysOf(c.Keys)
	seen := map[int]bool{}
	for _, prog := range c.Threads {
		for _, op := range prog {
			if op.Key >= 1000 && !seen[op.Key] {
				seen[op.Key] = true
				ks = append(ks, op.Key)
			}
		}
	}
	return ks
}

// lastResult is the scheduler result of the most recent RunSched call (the exhaustive schedule
// enumerator needs the option counts of the run it just caused; units run single-threaded).
var lastResult sched.Result

func RunSched(c ConcCase) pbt.Outcome {
	var m, m2 sync2.Map[int, int]
	model, bad := runSetup(&m, c.Setup, c.Bulk, c.BulkPromote)
	if bad != "" {
		return pbt.Fail("%s", bad)
	}
	labels := map[string]bool{}
	layoutLabels(&m, labels)
	s := sched.New(c.Sched)
	recs := make([][]Rec, len(c.Threads))
	for ti, prog := range c.Threads {
		ti, prog := ti, prog
		s.Go(func(t *sched.T) {
			for oi, op := range prog {
				val := 1 + ti*10 + oi
				r := Rec{Th: ti, Op: op, Val: val, Inv: t.Now(), Resp: 1 << 30}
				recs[ti] = append(recs[ti], r)
				target := &m
				if op.M == 1 {
					target = &m2
				}
				out, ok, pairs, calls := Exec(target, op, val)
				rr := &recs[ti][len(recs[ti])-1]
				rr.Out, rr.OK, rr.Pairs, rr.Calls, rr.Resp = out, ok, pairs, calls, t.Now()
			}
		})
	}
	res := s.Run()
	lastResult = res
	var hist []Rec
	for _, rs := range recs {
		hist = append(hist, rs...)
	}
	obs := map[string]any{"trace": traceString(res.Trace)}
	if res.Stuck != "" {
		return pbt.Outcome{Inconclusive: "scheduler: " + res.Stuck}
	}
	if len(res.Panics) > 0 {
		return pbt.Outcome{Violation: "panic inside a Map call: " + res.Panics[0], Observed: obs}
	}
	if res.Deadlock {
		return pbt.Outcome{Violation: fmt.Sprintf("deadlock: threads stuck at %v; history so far:\n%s", res.DeadlockAt, histString(hist)), Observed: obs}
	}
	// postlude on the quiescent map
	for _, k := range probeKeys(c) {
		r := Rec{Th: -2, Op: MOp{K: "load", Key: k}, Inv: s.Clock()}
		r.Out, r.OK, _, _ = Exec(&m, r.Op, 0)
		r.Resp = s.Clock()
		hist = append(hist, r)
	}
	r := Rec{Th: -2, Op: MOp{K: "range"}, Inv: s.Clock()}
	_, _, r.Pairs, r.Calls = Exec(&m, r.Op, 0)
	r.Resp = s.Clock()
	hist = append(hist, r)
	// ... and once more after that Range (which promotes the dirty map): nothing may vanish at a promotion
	for _, k := range probeKeys(c) {
		r := Rec{Th: -2, Op: MOp{K: "load", Key: k}, Inv: s.Clock()}
		r.Out, r.OK, _, _ = Exec(&m, r.Op, 0)
		r.Resp = s.Clock()
		hist = append(hist, r)
	}

	hist, hist2 := splitMaps(hist)
	if len(hist2) > 0 {
		labels["second-map-in-the-same-run"] = true
		// quiescent postlude on the second map
		for _, k := range keysOf(4) {
			r := Rec{Th: -2, Op: MOp{K: "load", Key: k, M: 1}, Inv: s.Clock()}
			r.Out, r.OK, _, _ = Exec(&m2, r.Op, 0)
			r.Resp = s.Clock()
			hist2 = append(hist2, r)
		}
		r := Rec{Th: -2, Op: MOp{K: "range", M: 1}, Inv: s.Clock()}
		_, _, r.Pairs, r.Calls = Exec(&m2, r.Op, 0)
		r.Resp = s.Clock()
		hist2 = append(hist2, r)
		if v := CheckHistory(map[int]int{}, keysOf(4), hist2); v != "" {
			return pbt.Outcome{Violation: "SECOND map of the run: " + v + "\nits history:\n" + histString(hist2) + "\ntrace: " + traceString(res.Trace), Observed: obs}
		}
	}
	if v := CheckHistory(model, universe(c), hist); v != "" {
		obs["history"] = histString(hist)
		return pbt.Outcome{Violation: v + "\nfull history:\n" + histString(hist) + "\ntrace: " + traceString(res.Trace), Observed: obs}
	}
	out := pbt.Outcome{Evals: 1}
	out.NonTrivial = overlapDifferentThreads(hist) && res.InsideSw >= 1
	if overlapDifferentThreads(hist) {
		labels["overlap-same-key-different-threads"] = true
	}
	switch {
	case res.InsideSw == 0:
		labels["preempt-inside=0"] = true
	case res.InsideSw == 1:
		labels["preempt-inside=1"] = true
	case res.InsideSw <= 3:
		labels["preempt-inside=2..3"] = true
	default:
		labels["preempt-inside>=4"] = true
	}
	for _, st := range res.Trace {
		if strings.Contains(st.Site, ".lock") {
			labels["slow-path(lock)"] = true
		}
		if strings.HasPrefix(st.Site, "missLocked") || st.Site == "Range.readStore1" {
			labels["promotion-during-run"] = true
		}
		if strings.HasPrefix(st.Site, "dirtyLocked") {
			labels["dirty-rebuild-during-run"] = true
		}
		if strings.HasPrefix(st.Site, "unexpungeLocked") {
			labels["unexpunge-attempt"] = true
		}
	}
	for l := range labels {
		out.Labels = append(out.Labels, l)
	}
	sort.Strings(out.Labels)
	return out
}

// splitMaps separates the calls on the first and on the second Map of a run.
func splitMaps(h []Rec) (first, second []Rec) {
	for _, r := range h {
		if r.Op.M == 1 {
			second = append(second, r)
		} else {
			first = append(first, r)
		}
	}
	return
}

func traceString(tr []sched.Step) string {
	var b strings.Builder
	for i, s := range tr {
		if i > 0 {
			b.WriteByte(' ')
		}
		fmt.Fprintf(&b, "%d:%s", s.Thread, s.Site)
	}
	return b.String()
}

func histString(h []Rec) string {
	var b strings.Builder
	for _, r := range h {
		b.WriteString("   " + r.String() + "\n")
	}
	return b.String()
}

func genConc(t *rapid.T, withSched bool) ConcCase {
	keys := rapid.SampledFrom([]int{1, 1, 2, 2, 3}).Draw(t, "keys")
	c := ConcCase{Keys: keys}
	c.Setup = pbt.OpsOf(t, genMOp(4, true), []int{0, 1, 3, 6}, "setup")
	// half of the cases start from a recipe that reaches a specific internal layout (nil / expunged entries,
	// amended read map, one miss from promotion), followed by the random setup ops
	if r := rapid.IntRange(0, 2*len(setupRecipes)-1).Draw(t, "recipe"); r < len(setupRecipes) {
		c.Setup = append(append([]MOp{}, setupRecipes[r]...), c.Setup...)
	}
	if rapid.IntRange(0, 7).Draw(t, "bulk?") == 0 {
		c.Bulk = rapid.SampledFrom([]int{33, 34, 40, 70, 70, 130, 300}).Draw(t, "bulk")
		c.BulkPromote = rapid.IntRange(0, 3).Draw(t, "bulkpromote") != 0
	}
	nth := rapid.SampledFrom([]int{2, 2, 2, 3, 3, 4}).Draw(t, "threads")
	withRange := rapid.IntRange(0, 3).Draw(t, "withrange") == 0
	for i := 0; i < nth; i++ {
		prog := rapid.SliceOfN(genMOp(keys, withRange), 1, 3).Draw(t, fmt.Sprintf("t%d", i))
		if c.Bulk > 0 {
			// some operations address a bulk key (an existing key of the big map)
			for j := range prog {
				if prog[j].K != "range" && rapid.IntRange(0, 2).Draw(t, "onbulk") == 0 {
					prog[j].Key = 1000 + rapid.IntRange(0, min(c.Bulk, 3)-1).Draw(t, "bulkkey")
				}
			}
		}
		c.Threads = append(c.Threads, prog)
	}
	if rapid.IntRange(0, 5).Draw(t, "twomaps") == 0 {
		for i := range c.Threads {
			for j := range c.Threads[i] {
				if c.Threads[i][j].Key < 1000 && rapid.IntRange(0, 2).Draw(t, "onsecond") == 0 {
					c.Threads[i][j].M = 1
				}
			}
		}
	}
	if withSched {
		p := rapid.SampledFrom([]int{4, 12, 30, 60}).Draw(t, "preempt%")
		c.Sched = rapid.SliceOfN(rapid.Custom(func(t *rapid.T) int {
			if rapid.IntRange(0, 99).Draw(t, "p") < p {
				return rapid.IntRange(1, 3).Draw(t, "to")
			}
			return 0
		}), 0, map[bool]int{false: 90, true: 400}[c.Bulk > 0]).Draw(t, "sched")
	} else {
		c.Procs = rapid.SampledFrom([]int{2, 4, 8, 16}).Draw(t, "procs")
		c.Spin = rapid.SliceOfN(rapid.IntRange(0, 3), nth, nth).Draw(t, "spin")
	}
	return c
}

var specSched = pbt.Register(&pbt.Spec[ConcCase]{
	Property: "C04", Name: "C04.sched",
	Rule: "E3 controlled scheduler: case = sequential setup (0..12 ops over keys 0..3 incl. Range, chooses the internal layout) + 2..4 threads x 1..3 ops over 1..3 keys " +
		"(optionally Range) + schedule (<=90 choices; 0 = keep running, k = switch to k-th other enabled thread) driving the real code hook by hook; " +
		"in one case of eight 33..300 extra keys are stored (and usually promoted) first and thread ops also address some of them (size-dependent paths); oracle = per-key linearizability of the recorded history (Wing-Gong) incl. a quiescent postlude (Load of every key, full Range, Load of every key again after that promotion), three-clause Range rule, no deadlock, no panic; " +
		"non-trivial = two calls on one key (at least one mutator) from different threads overlap AND >=1 preemption at a library-internal hook",
	Gen: func(t *rapid.T) ConcCase { return genConc(t, true) },
	Run: RunSched, Quick: 12000, Thorough: 120000,
	Crashy: true, Retries: 30,
	Assumes: []string{"explores sequentially-consistent interleavings at hook granularity; Go map iteration order inside dirtyLocked/Range is not controlled (verdict is computed on the history that actually ran)"},
})

func TestC04Sched(t *testing.T) { pbt.Check(t, specSched) }

// ---------------------------------------------------------------- bounded-exhaustive schedules (thorough)

// setup recipes that reach each internal layout of the Map (key 0/1 are the contended keys, key 3 is a bystander)
var setupRecipes = [][]MOp{
	{},                                   // zero map
	{{K: "store", Key: 0}},               // key 0 only in dirty, read map amended
	{{K: "store", Key: 0}, {K: "range"}}, // key 0 in the clean read map
	{{K: "store", Key: 0}, {K: "range"}, {K: "del", Key: 0}},                       // nil entry in the read map
	{{K: "store", Key: 0}, {K: "range"}, {K: "del", Key: 0}, {K: "store", Key: 3}}, // expunged entry, dirty non-nil, amended
	{{K: "store", Key: 0}, {K: "range"}, {K: "store", Key: 3}},                     // key 0 clean, amended with a bystander
	{{K: "store", Key: 3}, {K: "range"}, {K: "store", Key: 0}},                     // key 0 only in dirty, bystander clean
	{{K: "store", Key: 0}, {K: "store", Key: 3}, {K: "load", Key: 0}},              // one miss away from promotion
}

var enumKinds = []string{"load", "store", "los", "lad", "del"}

func enumPrograms(yield func(c ConcCase) bool) {
	// a big promoted map (size-dependent paths): one thread adds a new key (rebuilds the dirty map from the
	// >32-entry read map), the other deletes and re-stores / loads an existing key meanwhile
	for _, a := range [][]MOp{{{K: "store", Key: 0}}, {{K: "los", Key: 0}}} {
		for _, b := range [][]MOp{{{K: "del", Key: 1000}, {K: "store", Key: 1000}}, {{K: "lad", Key: 1001}, {K: "los", Key: 1001}}, {{K: "store", Key: 1000}, {K: "load", Key: 1000}}} {
			if !yield(ConcCase{Bulk: 33, BulkPromote: true, Threads: [][]MOp{a, b}, Keys: 1}) {
				return
			}
		}
	}
	for _, setup := range setupRecipes {
		// thread A: 1..2 ops on key 0; thread B: 1 op on key 0; plus a Range variant for B
		var progsA [][]MOp
		for _, k1 := range enumKinds {
			progsA = append(progsA, []MOp{{K: k1, Key: 0}})
			for _, k2 := range enumKinds {
				progsA = append(progsA, []MOp{{K: k1, Key: 0}, {K: k2, Key: 0}})
			}
		}
		var progsB [][]MOp
		for _, k := range enumKinds {
			progsB = append(progsB, []MOp{{K: k, Key: 0}})
		}
		progsB = append(progsB, []MOp{{K: "range"}}, []MOp{{K: "store", Key: 1}}, []MOp{{K: "load", Key: 3}})
		for _, a := range progsA {
			for _, b := range progsB {
				if !yield(ConcCase{Setup: setup, Threads: [][]MOp{a, b}, Keys: 2}) {
					return
				}
			}
		}
	}
}

var specSchedEnum = pbt.Register(&pbt.Spec[ConcCase]{
	Property: "C04", Name: "C04.schedenum",
	Rule: "E3 bounded-exhaustive (SmallCheck-style, stateless re-execution): catalogue of 8 setup recipes (zero / dirty-only / clean / nil entry / expunged entry / amended / one-miss-from-promotion) x thread A with 1..2 ops x thread B " +
		"with 1 op (all five point operations on the contended key, Range, or an operation on another key); for each program ALL schedules with at most 2 (thorough: 3) non-default scheduling choices are executed (same RunSched, same oracle); " +
		"non-trivial as for C04.sched. Go map iteration order is not controlled, so a re-execution may expose slightly different decision points; the enumeration follows what it sees",
	Enum: func(shard, shards int, tier string, yield func(ConcCase) bool) {
		bound := 2
		if tier == "thorough" {
			bound = 3
		}
		i := 0
		enumPrograms(func(c ConcCase) bool {
			i++
			if i%shards != shard {
				return true
			}
			ok := true
			sched.EnumSchedules(bound, func(schedule []int) ([]int, bool) {
				cc := c
				cc.Sched = append([]int(nil), schedule...)
				lastResult = sched.Result{}
				if !yield(cc) {
					ok = false
					return nil, true
				}
				return lastResult.OptCounts, false
			})
			return ok
		})
	},
	Run: RunSched, Exhaustive: true, Crashy: true, Retries: 30,
	Assumes: []string{"exhaustive over schedules with <=2 (thorough <=3) non-default choices of the listed programs only; map iteration order nondeterminism can hide or duplicate a few decision points"},
})

func TestC04SchedEnum(t *testing.T) { pbt.Check(t, specSchedEnum) }

// ---------------------------------------------------------------- E4 free-running stress

const stressReps = 40

func RunStress(c ConcCase) pbt.Outcome {
	if c.Procs > 0 {
		defer runtime.GOMAXPROCS(runtime.GOMAXPROCS(c.Procs))
	}
	overlapped := false
	for rep := 0; rep < stressReps; rep++ {
		var m, m2 sync2.Map[int, int]
		model, bad := runSetup(&m, c.Setup, c.Bulk, c.BulkPromote)
		if bad != "" {
			return pbt.Fail("%s", bad)
		}
		var clock atomic.Int64
		recs := make([][]Rec, len(c.Threads))
		var wg sync.WaitGroup
		var gate atomic.Int32
		panics := make([]string, len(c.Threads))
		for ti, prog := range c.Threads {
			ti, prog := ti, prog
			wg.Add(1)
			go func() {
				defer wg.Done()
				defer func() {
					if p := recover(); p != nil {
						panics[ti] = fmt.Sprint(p)
					}
				}()
				gate.Add(1)
				for int(gate.Load()) < len(c.Threads) {
					runtime.Gosched()
				}
				if ti < len(c.Spin) {
					for i := 0; i < c.Spin[ti]+rep%2; i++ {
						runtime.Gosched()
					}
				}
				for oi, op := range prog {
					val := 1 + ti*10 + oi
					r := Rec{Th: ti, Op: op, Val: val, Inv: int(clock.Add(1))}
					target := &m
					if op.M == 1 {
						target = &m2
					}
					r.Out, r.OK, r.Pairs, r.Calls = Exec(target, op, val)
					r.Resp = int(clock.Add(1))
					recs[ti] = append(recs[ti], r)
				}
			}()
		}
		wg.Wait()
		for ti, p := range panics {
			if p != "" {
				return pbt.Fail("thread %d panicked inside a Map call: %s", ti, p)
			}
		}
		var hist []Rec
		for _, rs := range recs {
			hist = append(hist, rs...)
		}
		for _, k := range probeKeys(c) {
			r := Rec{Th: -2, Op: MOp{K: "load", Key: k}, Inv: int(clock.Add(1))}
			r.Out, r.OK, _, _ = Exec(&m, r.Op, 0)
			r.Resp = int(clock.Add(1))
			hist = append(hist, r)
		}
		r := Rec{Th: -2, Op: MOp{K: "range"}, Inv: int(clock.Add(1))}
		_, _, r.Pairs, r.Calls = Exec(&m, r.Op, 0)
		r.Resp = int(clock.Add(1))
		hist = append(hist, r)
		hist, hist2 := splitMaps(hist)
		if len(hist2) > 0 {
			for _, k := range keysOf(4) {
				r := Rec{Th: -2, Op: MOp{K: "load", Key: k, M: 1}, Inv: int(clock.Add(1))}
				r.Out, r.OK, _, _ = Exec(&m2, r.Op, 0)
				r.Resp = int(clock.Add(1))
				hist2 = append(hist2, r)
			}
			if v := CheckHistory(map[int]int{}, keysOf(4), hist2); v != "" {
				return pbt.Outcome{Violation: fmt.Sprintf("free-running repetition %d, SECOND map of the run: %s\nits history:\n%s", rep, v, histString(hist2))}
			}
		}
		if v := CheckHistory(model, universe(c), hist); v != "" {
			return pbt.Outcome{Violation: fmt.Sprintf("free-running repetition %d: %s\nfull history:\n%s", rep, v, histString(hist))}
		}
		if overlapDifferentThreads(hist) {
			overlapped = true
		}
	}
	out := pbt.Outcome{Evals: stressReps, NonTrivial: overlapped}
	if overlapped {
		out.Labels = append(out.Labels, "overlap-same-key-different-threads")
	}
	out.Labels = append(out.Labels, fmt.Sprintf("procs=%d", c.Procs))
	return out
}

var specStress = pbt.Register(&pbt.Spec[ConcCase]{
	Property: "C04", Name: "C04.stress",
	Rule: "E4 free-running: the same programs (setup + 2..4 goroutines x 1..3 ops) released together by a spin barrier, GOMAXPROCS in {2,4,8,16}, each executed 40 times under the race detector; " +
		"calls stamped with a global atomic counter before invocation/after return; same linearizability + Range oracle; any DATA RACE report kills the process and is a violation; " +
		"non-trivial = some repetition had overlapping calls on one key from different goroutines",
	Gen: func(t *rapid.T) ConcCase { return genConc(t, false) },
	Run: RunStress, Quick: 250, Thorough: 4000,
	Crashy: true, Retries: 200,
	Assumes: []string{"free-running schedules are chosen by the Go runtime; windows are hit by repetition only"},
})

func TestC04Stress(t *testing.T) { pbt.Check(t, specStress) }
func TestReplay(t *testing.T)    { pbt.Replay(t) }

// native fuzz target (engine E6, thorough tier)
func FuzzC04Seq(f *testing.F) { pbt.Fuzz(f, specSeq) }
