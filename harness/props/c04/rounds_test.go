package c04

import (
	"fmt"
	"os"
	"runtime"
	"sync"
	"sync/atomic"
	"testing"
	"time"

	"gopkg.in/typ.v4/sync2"
	"pgregory.net/rapid"
	"verifharness/internal/pbt"
)

// RCase: thousands of tiny concurrent rounds on ONE long-lived Map. In every round each of 2..4 persistent
// goroutines runs its 1..2 calls on the contested keys 0/1 at the same time (spin barrier), then the coordinator
// reads the contested keys back, churns the map (fresh keys, promotions, deletions of old fresh keys - so that the
// contested keys wander through every internal layout: dirty-only, promoted, deleted-in-read-map, expunged) and
// reads them again. Each round is judged on its own by the linearizability + Range oracle with the known state
// before the round. Windows of a few nanoseconds between two atomic steps are hit by repetition.
type RCase struct {
	Stable int     `json:"stable"` // keys 100.. stored once and never touched: every Range must visit them
	Progs  [][]MOp `json:"progs"`
	Churn  string  `json:"churn"` // none | fresh | promote | fresh+promote | misses | cycle
	Rounds int     `json:"rounds"`
	Procs  int     `json:"procs"`
	// FreshKeys: the contested keys of round r are two keys never used before (instead of 0/1 for ever); in every other
	// round the first of them is stored by the coordinator just before the round, so that it is present but lives in
	// the dirty map only when the concurrent calls arrive
	FreshKeys bool `json:"fresh_keys,omitempty"`
	// FreshMap: every round runs on a brand-new zero Map (the goroutines' calls are its very first calls); no stable
	// keys, no churn
	FreshMap bool `json:"fresh_map,omitempty"`
}

func (c RCase) key(r, k int) int {
	if c.FreshKeys {
		return 10_000_000 + r*2 + k
	}
	return k
}

func RunRounds(c RCase) pbt.Outcome {
	if c.Procs > 0 {
		defer runtime.GOMAXPROCS(runtime.GOMAXPROCS(c.Procs))
	}
	var m0 sync2.Map[int, int]
	var cur atomic.Pointer[sync2.Map[int, int]]
	cur.Store(&m0)
	if c.FreshMap {
		c.Stable, c.Churn, c.FreshKeys = 0, "none", false
	}
	state := map[int]int{}
	for i := 0; i < c.Stable; i++ {
		m0.Store(100+i, 5100+i)
		state[100+i] = 5100 + i
	}
	var clock atomic.Int64
	var phase, done atomic.Int64
	var stop atomic.Bool
	W := len(c.Progs)
	recs := make([][]Rec, W)
	panics := make([]string, W)
	var wg sync.WaitGroup
	for w := range c.Progs {
		w := w
		wg.Add(1)
		go func() {
			defer wg.Done()
			defer func() {
				if p := recover(); p != nil {
					panics[w] = fmt.Sprint(p)
					stop.Store(true)
					done.Add(1 << 40)
				}
			}()
			for r := int64(1); r <= int64(c.Rounds); r++ {
				for spins := 0; phase.Load() < r; spins++ {
					if stop.Load() {
						return
					}
					if spins > 2000 {
						runtime.Gosched()
					}
					if spins > 20000 {
						time.Sleep(20 * time.Microsecond) // oversubscribed machine: give the core away
					}
				}
				rs := recs[w][:0]
				for oi, op := range c.Progs[w] {
					val := int(r)*64 + w*8 + oi + 1
					op.Key = c.key(int(r), op.Key)
					rec := Rec{Th: w, Op: op, Val: val, Inv: int(clock.Add(1))}
					rec.Out, rec.OK, rec.Pairs, rec.Calls = Exec(cur.Load(), op, val)
					rec.Resp = int(clock.Add(1))
					rs = append(rs, rec)
				}
				recs[w] = rs
				done.Add(1)
			}
		}()
	}
	finish := func() {
		stop.Store(true)
		wg.Wait()
	}
	seq := func(hist *[]Rec, op MOp, val int) Rec {
		rec := Rec{Th: -2, Op: op, Val: val, Inv: int(clock.Add(1))}
		rec.Out, rec.OK, rec.Pairs, rec.Calls = Exec(cur.Load(), op, val)
		rec.Resp = int(clock.Add(1))
		*hist = append(*hist, rec)
		return rec
	}
	keys := func(k0, k1 int) []int {
		ks := []int{k0, k1}
		for k := range state {
			if k != k0 && k != k1 {
				ks = append(ks, k)
			}
		}
		return ks
	}
	layouts := map[string]bool{}
	overlapped := 0
	var hist []Rec
	var freshKeys []int
	t0 := time.Now()
	budget := 4 * time.Second
	if os.Getenv("VERIF_TIER") == "thorough" {
		budget = 30 * time.Second
	}
	roundsDone, cut := 0, false
	for r := 1; r <= c.Rounds; r++ {
		if r%128 == 0 && time.Since(t0) > budget {
			cut = true // an oversubscribed machine: the rounds judged so far stand, elapsed time is never a verdict
			break
		}
		roundsDone = r
		hist = hist[:0]
		k0, k1 := c.key(r, 0), c.key(r, 1)
		if c.FreshMap {
			cur.Store(new(sync2.Map[int, int]))
			state = map[int]int{}
		}
		if c.FreshKeys && r%2 == 0 {
			seq(&hist, MOp{K: "store", Key: k0}, r*64+60)
		}
		phase.Store(int64(r))
		for spins := 0; done.Load() < int64(r*W); spins++ {
			if spins > 200 {
				runtime.Gosched()
			}
			if spins > 20000 {
				time.Sleep(20 * time.Microsecond)
			}
		}
		if stop.Load() {
			finish()
			for w, p := range panics {
				if p != "" {
					return pbt.Fail("round %d: goroutine %d panicked inside a Map call: %s", r, w, p)
				}
			}
		}
		for w := range recs {
			hist = append(hist, recs[w]...)
		}
		if r%64 == 1 && overlapDifferentThreads(hist) {
			overlapped++
		}
		// read back, churn, read back again
		seq(&hist, MOp{K: "load", Key: k0}, 0)
		seq(&hist, MOp{K: "load", Key: k1}, 0)
		churn := c.Churn
		if churn == "cycle" {
			churn = []string{"fresh", "promote", "none", "fresh+promote", "misses"}[r%5]
		}
		fresh := 1000 + r
		switch churn {
		case "fresh", "fresh+promote":
			seq(&hist, MOp{K: "store", Key: fresh}, fresh+7)
			freshKeys = append(freshKeys, fresh)
			if len(freshKeys) > 3 {
				seq(&hist, MOp{K: "del", Key: freshKeys[0]}, 0)
				freshKeys = freshKeys[1:]
			}
			if churn == "fresh+promote" {
				seq(&hist, MOp{K: "range"}, 0)
			}
		case "promote":
			seq(&hist, MOp{K: "range"}, 0)
		case "misses":
			for i := 0; i < 3+len(state); i++ {
				seq(&hist, MOp{K: "load", Key: 900000 + i}, 0)
			}
		}
		seq(&hist, MOp{K: "load", Key: k0}, 0)
		seq(&hist, MOp{K: "load", Key: k1}, 0)
		if v := CheckHistory(state, keys(k0, k1), hist); v != "" {
			finish()
			return pbt.Outcome{Violation: fmt.Sprintf("round %d of %d on one long-lived Map (churn between rounds: %s): %s\nthe round's history (state before it: key %d=%d key %d=%d, %d stable keys):\n%s", r, c.Rounds, c.Churn, v, k0, state[k0], k1, state[k1], c.Stable, histString(hist))}
		}
		// the model after the round: sequential calls are applied, the contested keys are what the last loads returned
		for _, h := range hist {
			if h.Th != -2 {
				continue
			}
			switch h.Op.K {
			case "store":
				state[h.Op.Key] = h.Val
			case "del":
				delete(state, h.Op.Key)
			case "load":
				if h.Op.Key == k0 || h.Op.Key == k1 {
					if h.OK {
						state[h.Op.Key] = h.Out
					} else {
						delete(state, h.Op.Key)
					}
				}
			}
		}
		if c.FreshKeys {
			// this round's keys are never used again
			cur.Load().Delete(k0)
			cur.Load().Delete(k1)
			delete(state, k0)
			delete(state, k1)
		}
		if r%256 == 0 {
			layoutLabels(cur.Load(), layouts)
		}
	}
	finish()
	out := pbt.Outcome{Evals: roundsDone, NonTrivial: overlapped > 0, Labels: []string{"churn=" + c.Churn, fmt.Sprintf("goroutines=%d", W)}}
	if c.FreshKeys {
		out.Labels = append(out.Labels, "fresh-contested-keys-every-round(dirty-only)")
	}
	if c.FreshMap {
		out.Labels = append(out.Labels, "brand-new-map-every-round")
	}
	if cut {
		out.Labels = append(out.Labels, "case-cut-short-by-its-wall-clock-budget")
	}
	for l := range layouts {
		out.Labels = append(out.Labels, l)
	}
	if overlapped > 0 {
		out.Labels = append(out.Labels, "overlap-same-key-different-threads")
	}
	return out
}

var specRounds = pbt.Register(&pbt.Spec[RCase]{
	Property: "C04", Name: "C04.rounds",
	Rule: "E4 free-running, no race detector (speed): 1000..10000 tiny rounds on ONE long-lived Map: 2..4 persistent goroutines each run 1..2 calls {Store, LoadOrStore, LoadAndDelete, Delete, Load, Range} on the contested keys 0/1 (one case in three: on two keys never used before, one of them stored just before the round so that it lives in the dirty map only) at the same moment (spin barrier; one case in six: every round on a brand-new zero Map, so the calls are its very first ones), " +
		"0..40 stable keys are never touched, between rounds the coordinator reads the contested keys, churns (fresh key stored and an older one deleted / Range = promotion / misses = promotion / all in turn) and reads them again; " +
		"oracle: each round's history (concurrent calls + the sequential ones around them) against the linearizability + Range rule with the state before the round as the start (so a store that is visible first and gone after the next promotion, " +
		"a Range that skips a stable key, a resurrected value all show); non-trivial = sampled rounds had overlapping calls on one key from different goroutines",
	Gen: func(t *rapid.T) RCase {
		c := RCase{Stable: rapid.SampledFrom([]int{0, 1, 1, 2, 5, 40}).Draw(t, "stable"),
			Churn:  rapid.SampledFrom([]string{"none", "fresh", "promote", "fresh+promote", "fresh+promote", "misses", "cycle", "cycle"}).Draw(t, "churn"),
			Rounds: rapid.SampledFrom([]int{1000, 3000, 10000}).Draw(t, "rounds"), Procs: rapid.SampledFrom([]int{4, 8, 16}).Draw(t, "procs")}
		c.FreshKeys = rapid.IntRange(0, 2).Draw(t, "freshkeys") == 1
		c.FreshMap = !c.FreshKeys && rapid.IntRange(0, 3).Draw(t, "freshmap") == 1
		w := rapid.IntRange(2, 4).Draw(t, "goroutines")
		oneKey := rapid.Bool().Draw(t, "onekey")
		for i := 0; i < w; i++ {
			n := rapid.IntRange(1, 2).Draw(t, "len")
			var prog []MOp
			for j := 0; j < n; j++ {
				k := rapid.SampledFrom([]string{"store", "store", "los", "lad", "lad", "del", "load", "range"}).Draw(t, "k")
				key := 0
				if !oneKey {
					key = rapid.IntRange(0, 1).Draw(t, "key")
				}
				prog = append(prog, MOp{K: k, Key: key})
			}
			c.Progs = append(c.Progs, prog)
		}
		return c
	},
	Run: RunRounds, Quick: 30, Thorough: 300, Crashy: true, Retries: 50, CaseCPU: 120e9,
	Assumes: []string{"free-running schedules are chosen by the Go runtime; windows are hit by repetition only"},
})

func TestC04Rounds(t *testing.T) { pbt.Check(t, specRounds) }
