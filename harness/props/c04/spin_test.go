package c04

import (
	"fmt"
	"runtime"
	"sync"
	"sync/atomic"
	"testing"

	"gopkg.in/typ.v4/sync2"
	"pgregory.net/rapid"
	"verifharness/internal/pbt"
)

// PCase: free-spinning goroutines with roles on one Map, no barrier between iterations (millions of calls per
// second: windows of a few nanoseconds between two atomic steps are hit by sheer repetition). The oracle needs no
// history: it is made of invariants that every linearizable map keeps whatever the interleaving.
//
//	stable keys 100..: stored before the start, never touched: every Load finds them, every Range visits each exactly once
//	shared keys 0/1:   values enter only through LoadOrStore (which stores only into an absent key) and leave only
//	                   through LoadAndDelete, every stored value is unique: so each stored value is taken out exactly
//	                   once or is the final value (conservation), nothing else ever comes out
//	private keys:      used by one goroutine only: every answer is determined
//	never-stored keys: never found, never visited
type PCase struct {
	Stable int      `json:"stable"`
	Roles  []string `json:"roles"` // los0 los1 lad0 lad1 range load churn
	Iters  int      `json:"iters"`
	Procs  int      `json:"procs"`
}

func RunSpin(c PCase) pbt.Outcome {
	if c.Procs > 0 {
		defer runtime.GOMAXPROCS(runtime.GOMAXPROCS(c.Procs))
	}
	var m sync2.Map[int, int]
	for i := 0; i < c.Stable; i++ {
		m.Store(100+i, 5100+i)
	}
	enc := func(w, key, i int) int { return i<<8 | w<<2 | key<<1 | 1 } // never 0
	validShared := func(key, v int) bool { return v > 0 && v&1 == 1 && (v>>1)&1 == key && (v>>2)&63 < len(c.Roles) }
	var viol atomic.Pointer[string]
	fail := func(format string, a ...any) {
		s := fmt.Sprintf(format, a...)
		viol.CompareAndSwap(nil, &s)
	}
	var churners []int
	for w, role := range c.Roles {
		if role == "churn" {
			churners = append(churners, w)
		}
	}
	curKey := make([]atomic.Int64, len(c.Roles)) // role "newkeys": the key its owner is working on right now
	var newkeyers []int
	for w, role := range c.Roles {
		if role == "newkeys" {
			newkeyers = append(newkeyers, w)
		}
	}
	stored := make([][]int, len(c.Roles)) // per goroutine: values it put in (shared keys)
	taken := make([][]int, len(c.Roles))  // per goroutine: values it took out
	var gate atomic.Int32
	var wg sync.WaitGroup
	var rangesDone atomic.Int64
	for w, role := range c.Roles {
		w, role := w, role
		wg.Add(1)
		go func() {
			defer wg.Done()
			defer func() {
				if p := recover(); p != nil {
					fail("goroutine %d (%s) panicked inside a Map call: %v", w, role, p)
				}
			}()
			gate.Add(1)
			for int(gate.Load()) < len(c.Roles) {
				runtime.Gosched()
			}
			seen := make([]int, c.Stable)
			for i := 1; i <= c.Iters && viol.Load() == nil; i++ {
				switch role {
				case "los0", "los1":
					key := int(role[3] - '0')
					v := enc(w, key, i)
					actual, loaded := m.LoadOrStore(key, v)
					if !loaded {
						if actual != v {
							fail("LoadOrStore(%d,%d) reported 'stored' but returned %d", key, v, actual)
						}
						stored[w] = append(stored[w], v)
					} else if !validShared(key, actual) || actual == v {
						fail("LoadOrStore(%d,%d) reported 'loaded' with value %d, which nobody ever stored under that key", key, v, actual)
					}
				case "lad0", "lad1":
					key := int(role[3] - '0')
					v, ok := m.LoadAndDelete(key)
					if ok {
						if !validShared(key, v) {
							fail("LoadAndDelete(%d) returned %d, which nobody ever stored under that key", key, v)
						}
						taken[w] = append(taken[w], v)
					} else if v != 0 {
						fail("LoadAndDelete(%d) returned (%d,false)", key, v)
					}
				case "load":
					if c.Stable > 0 {
						k := 100 + i%c.Stable
						if v, ok := m.Load(k); !ok || v != k+5000 {
							fail("Load(%d) = (%d,%v) for a key stored before the start and never touched since (want %d,true)", k, v, ok, k+5000)
						}
					}
					if v, ok := m.Load(700000 + i%7); ok || v != 0 {
						fail("Load(%d) = (%d,%v) for a key that was never stored", 700000+i%7, v, ok)
					}
					if v, ok := m.Load(i & 1); ok && !validShared(i&1, v) {
						fail("Load(%d) = %d, which nobody ever stored under that key", i&1, v)
					}
					if len(newkeyers) > 0 {
						if k := int(curKey[newkeyers[i%len(newkeyers)]].Load()); k != 0 {
							if v, ok := m.Load(k); ok && v != k+3 {
								fail("Load(%d) = %d: the only value ever stored under that key is %d (the value belongs to another key)", k, v, k+3)
							}
						}
					}
					// the private keys of the churners (mostly present in the dirty map only): absent, or the one value their owner stores
					if len(churners) > 0 {
						k := 1_000_000 + churners[i%len(churners)]*1000 + (i/3)%5
						if v, ok := m.Load(k); ok && v != k+3 {
							fail("Load(%d) = %d: the only value ever stored under that key is %d (the value belongs to another key)", k, v, k+3)
						}
					}
				case "range":
					if c.Stable > 1000 && i%40 != 0 {
						runtime.Gosched() // a Range over a big map is slow: one iteration in 40
						continue
					}
					for j := range seen {
						seen[j] = 0
					}
					shared := [2]int{}
					bad := ""
					m.Range(func(k, v int) bool {
						switch {
						case k >= 100 && k < 100+c.Stable:
							seen[k-100]++
							if v != k+5000 {
								bad = fmt.Sprintf("Range visited stable key %d with value %d, want %d", k, v, k+5000)
							}
						case k == 0 || k == 1:
							shared[k]++
							if !validShared(k, v) {
								bad = fmt.Sprintf("Range visited key %d with value %d, which nobody ever stored under that key", k, v)
							}
						case k >= 1_000_000:
							if v != k+3 {
								bad = fmt.Sprintf("Range visited private key %d with value %d, its owner only ever stores %d", k, v, k+3)
							}
						default:
							bad = fmt.Sprintf("Range visited key %d (value %d), which was never stored", k, v)
						}
						return true
					})
					for j, n := range seen {
						if n != 1 && bad == "" {
							bad = fmt.Sprintf("Range visited key %d, present and untouched for the whole call, %d times (Range number %d of this goroutine; %d stable keys)", 100+j, n, i, c.Stable)
						}
					}
					if (shared[0] > 1 || shared[1] > 1) && bad == "" {
						bad = fmt.Sprintf("Range visited a shared key more than once (%v)", shared)
					}
					if bad != "" {
						fail("%s", bad)
					}
					rangesDone.Add(1)
				case "newkeys":
					// a key never used before, every iteration (with many stable keys around it stays in the dirty map only)
					k := 2_000_000 + w*100_000_000 + i
					curKey[w].Store(int64(k)) // published BEFORE the store: others may look the key up while it is still absent
					m.Store(k, k+3)
					if v, ok := m.Load(k); !ok || v != k+3 {
						fail("never-used private key %d: Load right after this goroutine's Store returned = (%d,%v), want (%d,true) (other goroutines were looking the key up while it was absent)", k, v, ok, k+3)
					}
					if v, ok := m.LoadAndDelete(k); !ok || v != k+3 {
						fail("never-used private key %d: LoadAndDelete right after this goroutine's Store = (%d,%v), want (%d,true)", k, v, ok, k+3)
					}
				case "churn":
					k := 1_000_000 + w*1000 + i%5
					m.Store(k, k+3)
					if v, ok := m.Load(k); !ok || v != k+3 {
						fail("private key %d: Load right after this goroutine's Store = (%d,%v), want (%d,true)", k, v, ok, k+3)
					}
					if i%3 != 0 {
						if v, ok := m.LoadAndDelete(k); !ok || v != k+3 {
							fail("private key %d: LoadAndDelete after this goroutine's Store = (%d,%v), want (%d,true)", k, v, ok, k+3)
						}
						if v, ok := m.Load(k); ok {
							fail("private key %d: Load after this goroutine's LoadAndDelete = (%d,true)", k, v)
						}
					}
				}
			}
		}()
	}
	wg.Wait()
	if v := viol.Load(); v != nil {
		return pbt.Fail("free-spinning roles %v, %d stable keys: %s", c.Roles, c.Stable, *v)
	}
	// conservation on the shared keys
	for key := 0; key <= 1; key++ {
		in := map[int]int{}
		nIn, nOut := 0, 0
		for _, vs := range stored {
			for _, v := range vs {
				if (v>>1)&1 == key {
					in[v]++
					nIn++
				}
			}
		}
		for _, vs := range taken {
			for _, v := range vs {
				if (v>>1)&1 != key {
					continue
				}
				nOut++
				if in[v] == 0 {
					return pbt.Fail("free-spinning roles %v: value %d came out of key %d twice (or was never put in): %d put in, LoadAndDelete returned it again", c.Roles, v, key, nIn)
				}
				in[v]--
			}
		}
		final, present := m.Load(key)
		left := 0
		for v, n := range in {
			if n > 0 {
				left++
				if !(present && v == final) {
					return pbt.Fail("free-spinning roles %v, %d stable keys: value %d was stored under key %d by a LoadOrStore that reported 'stored', no LoadAndDelete ever returned it, and it is not there at the end (final: %d,%v): a stored value was lost (%d stored, %d taken out)", c.Roles, c.Stable, v, key, final, present, nIn, nOut)
				}
			}
		}
		if present && left == 0 {
			return pbt.Fail("free-spinning roles %v: key %d holds %d at the end, but every stored value was already taken out by a LoadAndDelete: a value was resurrected", c.Roles, key, final)
		}
	}
	for i := 0; i < c.Stable; i++ {
		if v, ok := m.Load(100 + i); !ok || v != 5100+i {
			return pbt.Fail("stable key %d is (%d,%v) at the end", 100+i, v, ok)
		}
	}
	out := pbt.Outcome{Evals: c.Iters * len(c.Roles), NonTrivial: len(c.Roles) >= 2, Labels: []string{fmt.Sprintf("stable=%d", c.Stable)}}
	has := map[string]bool{}
	for _, r := range c.Roles {
		has[r[:3]] = true
	}
	if has["los"] && has["lad"] {
		out.Labels = append(out.Labels, "store-vs-delete-on-a-shared-key")
	}
	if has["ran"] && (has["los"] || has["chu"]) {
		out.Labels = append(out.Labels, "range-while-other-keys-come-and-go")
	}
	return out
}

var specSpin = pbt.Register(&pbt.Spec[PCase]{
	Property: "C04", Name: "C04.spin",
	Rule: "E4 free-spinning, no race detector (speed): 2..6 goroutines with roles {LoadOrStore on shared key 0/1, LoadAndDelete on shared key 0/1, Range, Load, churn of private keys, never-used private keys whose current one other goroutines load} run 20000..300000 iterations each on one Map with 0..40 (one case in eight: 20000 or 40000) stable keys, no barrier between iterations; " +
		"oracle = invariants of any linearizable map: stable keys are found by every Load and visited exactly once by every Range; values enter a shared key only through a LoadOrStore that stored and leave only through LoadAndDelete, " +
		"all values unique: each is taken out exactly once or is the final value (nothing lost, nothing resurrected, nothing invented); private keys answer deterministically; never-stored keys are never seen; non-trivial = >=2 goroutines",
	Gen: func(t *rapid.T) PCase {
		c := PCase{Stable: rapid.SampledFrom([]int{0, 1, 1, 1, 2, 5, 40}).Draw(t, "stable"), Iters: rapid.SampledFrom([]int{20000, 100000, 300000}).Draw(t, "iters"),
			Procs: rapid.SampledFrom([]int{2, 4, 8, 16}).Draw(t, "procs")}
		switch rapid.IntRange(0, 4).Draw(t, "template") {
		case 0: // one key comes and goes while a Range looks at a map that holds one or two other keys
			c.Roles = []string{"los0", "lad0", "range"}
			c.Stable = rapid.SampledFrom([]int{1, 1, 2}).Draw(t, "few")
			c.Iters = 300000
		case 1:
			c.Roles = []string{"los0", "los0", "lad0", "lad0", "churn"}

			if rapid.Bool().Draw(t, "big") {
				// a big map (the read map holds more than 2^14 entries) whose dirty map is rebuilt again and again (every
				// Range promotes) while several goroutines store keys that are new to it
				c.Roles = []string{"churn", "churn", "churn", "range"}
				c.Stable = rapid.SampledFrom([]int{20000, 40000}).Draw(t, "bigstable")
				c.Iters = 20000
			}
		case 4:
			// never-used private keys whose current one other goroutines load while it comes and goes: a reader must never
			// see a value that was stored under ANOTHER key
			c.Roles = []string{"newkeys", "newkeys", "load", "load", "load", "load", "load", "load"}
			c.Stable = rapid.SampledFrom([]int{40, 20000, 40000}).Draw(t, "st")
			c.Iters = 100000
		default:
			n := rapid.IntRange(2, 6).Draw(t, "n")
			for i := 0; i < n; i++ {
				c.Roles = append(c.Roles, rapid.SampledFrom([]string{"los0", "los1", "lad0", "lad1", "range", "load", "churn"}).Draw(t, "role"))
			}
		}
		return c
	},
	Run: RunSpin, Quick: 40, Thorough: 400, Crashy: true, Retries: 20, CaseCPU: 120e9,
	Assumes: []string{"free-running schedules are chosen by the Go runtime; windows are hit by repetition only"},
})

func TestC04Spin(t *testing.T) { pbt.Check(t, specSpin) }
