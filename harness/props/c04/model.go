// Package c04 decides C04: sync2.Map is linearizable to an ordinary map,
// sequentially (model check) and concurrently (controlled scheduler E3 and
// free-running -race stress E4, both judged by the linearizability checker).
package c04

import (
	"fmt"
	"sort"

	"gopkg.in/typ.v4/sync2"
	"verifharness/internal/lin"
)

// MOp is one Map call. K: load store los (LoadOrStore) lad (LoadAndDelete) del range.
type MOp struct {
	K    string `json:"k"`
	Key  int    `json:"key"`
	Stop int    `json:"stop,omitempty"` // range: callback returns false at this call (0 = never)
	// M = 1: the call goes to a SECOND, independent Map (initially empty) used in the same run: state must never
	// leak between two Map values (package-level caches, shared scratch space, a lock common to all maps)
	M int `json:"m,omitempty"`
	// Rep > 1 (sequential unit only): the call is repeated Rep times (tens of thousands of cheap calls in a row:
	// internal counters such as the miss counter must not wrap into wrong behaviour)
	Rep int `json:"rep,omitempty"`
}

// Rec is one executed call with its stamps and results.
type Rec struct {
	Th    int      `json:"th"` // -1 setup, -2 postlude
	Op    MOp      `json:"op"`
	Val   int      `json:"val,omitempty"` // the (unique) value a store/los wrote
	Inv   int      `json:"inv"`
	Resp  int      `json:"resp"`
	Out   int      `json:"out"`
	OK    bool     `json:"ok"`
	Pairs [][2]int `json:"pairs,omitempty"`
	Calls int      `json:"calls,omitempty"`
}

func (r Rec) String() string {
	switch r.Op.K {
	case "load":
		return fmt.Sprintf("[%d,%d] T%d Load(%d)=(%d,%v)", r.Inv, r.Resp, r.Th, r.Op.Key, r.Out, r.OK)
	case "store":
		return fmt.Sprintf("[%d,%d] T%d Store(%d,%d)", r.Inv, r.Resp, r.Th, r.Op.Key, r.Val)
	case "los":
		return fmt.Sprintf("[%d,%d] T%d LoadOrStore(%d,%d)=(%d,loaded=%v)", r.Inv, r.Resp, r.Th, r.Op.Key, r.Val, r.Out, r.OK)
	case "lad":
		return fmt.Sprintf("[%d,%d] T%d LoadAndDelete(%d)=(%d,loaded=%v)", r.Inv, r.Resp, r.Th, r.Op.Key, r.Out, r.OK)
	case "del":
		return fmt.Sprintf("[%d,%d] T%d Delete(%d)", r.Inv, r.Resp, r.Th, r.Op.Key)
	default:
		return fmt.Sprintf("[%d,%d] T%d Range(stop=%d)=%v", r.Inv, r.Resp, r.Th, r.Op.Stop, r.Pairs)
	}
}

// Exec performs op on m; val is the value to write for store/los.
func Exec(m *sync2.Map[int, int], op MOp, val int) (out int, ok bool, pairs [][2]int, calls int) {
	switch op.K {
	case "load":
		out, ok = m.Load(op.Key)
	case "store":
		m.Store(op.Key, val)
	case "los":
		out, ok = m.LoadOrStore(op.Key, val)
	case "lad":
		out, ok = m.LoadAndDelete(op.Key)
	case "del":
		m.Delete(op.Key)
	case "range":
		m.Range(func(k, v int) bool {
			calls++
			pairs = append(pairs, [2]int{k, v})
			return op.Stop == 0 || calls < op.Stop
		})
	}
	return
}

func isMutator(k string) bool { return k == "store" || k == "los" || k == "lad" || k == "del" }

// applyFor returns the register-model step of a recorded call on its key (state 0 = absent).
func applyFor(r Rec) func(s int) (int, bool) {
	switch r.Op.K {
	case "load":
		return func(s int) (int, bool) { return s, r.OK == (s != 0) && r.Out == s }
	case "store":
		return func(s int) (int, bool) { return r.Val, true }
	case "los":
		return func(s int) (int, bool) {
			if s != 0 {
				return s, r.OK && r.Out == s
			}
			return r.Val, !r.OK && r.Out == r.Val
		}
	case "lad":
		return func(s int) (int, bool) {
			if s != 0 {
				return 0, r.OK && r.Out == s
			}
			return 0, !r.OK && r.Out == 0
		}
	case "del":
		return func(s int) (int, bool) { return 0, true }
	}
	return nil
}

// CheckHistory judges a recorded history of calls on one Map whose content
// before the history was init (key -> value, 0/missing = absent), over the
// key universe keys. It returns "" or a description of the violation.
//
// Point operations must be linearizable per key (linearizability is
// compositional and the map is a product of per-key registers). A Range call
// must (a) report each key at most once, (b) report (k,v) only if a Load(k)
// returning v could be linearised inside the Range's interval, and (c) when it
// ran to completion, miss key k only if a Load(k) returning "absent" could be
// linearised inside its interval — required only when no mutating call on k
// overlaps the interval ("present and untouched for the whole call").
func CheckHistory(init map[int]int, keys []int, hist []Rec) string {
	byKey := map[int][]lin.Op[int]{}
	names := map[int][]string{}
	add := func(k int, o lin.Op[int]) {
		byKey[k] = append(byKey[k], o)
		names[k] = append(names[k], o.Name)
	}
	for _, r := range hist {
		r := r
		if r.Op.K != "range" {
			add(r.Op.Key, lin.Op[int]{Inv: r.Inv, Resp: r.Resp, Apply: applyFor(r), Name: r.String()})
			continue
		}
		seen := map[int]bool{}
		for _, p := range r.Pairs {
			if seen[p[0]] {
				return fmt.Sprintf("Range reported key %d more than once: %s", p[0], r)
			}
			seen[p[0]] = true
			k, v := p[0], p[1]
			add(k, lin.Op[int]{Inv: r.Inv, Resp: r.Resp, Name: fmt.Sprintf("[%d,%d] T%d Range saw (%d,%d)", r.Inv, r.Resp, r.Th, k, v),
				Apply: func(s int) (int, bool) { return s, s == v && v != 0 }})
		}
		stopped := r.Op.Stop != 0 && r.Calls >= r.Op.Stop
		if stopped {
			if r.Calls > r.Op.Stop {
				return fmt.Sprintf("Range kept calling after the callback returned false (%d calls, stop at %d)", r.Calls, r.Op.Stop)
			}
			continue
		}
		for _, k := range keys {
			if seen[k] {
				continue
			}
			touched := false
			for _, o := range hist {
				if o.Op.K != "range" && o.Op.Key == k && isMutator(o.Op.K) && o.Inv < r.Resp && o.Resp > r.Inv {
					touched = true
				}
			}
			if touched {
				continue
			}
			k := k
			add(k, lin.Op[int]{Inv: r.Inv, Resp: r.Resp, Name: fmt.Sprintf("[%d,%d] T%d Range did not see key %d", r.Inv, r.Resp, r.Th, k),
				Apply: func(s int) (int, bool) { return s, s == 0 }})
		}
	}
	ks := make([]int, 0, len(byKey))
	for k := range byKey {
		ks = append(ks, k)
	}
	sort.Ints(ks)
	for _, k := range ks {
		if !lin.Check(init[k], byKey[k]) {
			msg := fmt.Sprintf("history of key %d (initially %d) is not linearizable to a map:", k, init[k])
			for _, n := range names[k] {
				msg += "\n   " + n
			}
			return msg
		}
	}
	return ""
}
