package c17

import (
	"fmt"
	"runtime"
	"sync"
	"sync/atomic"
	"testing"
	"time"

	"gopkg.in/typ.v4/sync2"
	"pgregory.net/rapid"
	"verifharness/internal/gstate"
	"verifharness/internal/pbt"
)

// blockedInOnce: EVERY goroutine that is inside a sync2 Once sits in a blocking wait state (none runnable or running),
// the same ones in the same state on three dumps 4 ms apart, while done() stays false. Used only AFTER the action is known to have completed: nothing can wake such a caller any more.
func blockedInOnce(done func() bool) string {
	var first map[string]string
	for look := 0; look < 3; look++ {
		if done() {
			return ""
		}
		cur := map[string]string{}
		for _, g := range gstate.With("sync2.(*Once") {
			if gstate.Blocking(g.State) && g.State != "semacquire" {
				cur[g.ID] = g.State
			} else {
				// somebody inside a Once is runnable, running or in a transient state: progress is still possible
				// (e.g. the next lock holder was woken but has not been given a processor yet): no verdict
				return ""
			}
		}
		if look == 0 {
			first = cur
		} else {
			for id, st := range first {
				if cur[id] != st {
					delete(first, id)
				}
			}
		}
		if len(first) == 0 {
			return ""
		}
		time.Sleep(4 * time.Millisecond)
	}
	if done() {
		return ""
	}
	for _, st := range first {
		return fmt.Sprintf("%d goroutine(s), e.g. in state %q", len(first), st)
	}
	return ""
}

// waitOrBlocked waits for wg; if goroutines stay blocked inside a Once although every action has completed it returns
// a description. limit only bounds the wait (inconclusive).
func waitOrBlocked(wg *sync.WaitGroup, limit time.Duration) (blocked string, timedOut bool) {
	var fin atomic.Bool
	go func() { wg.Wait(); fin.Store(true) }()
	deadline := time.Now().Add(limit)
	for i := 0; !fin.Load(); i++ {
		if i > 50 {
			if b := blockedInOnce(fin.Load); b != "" {
				return b, false
			}
		}
		if time.Now().After(deadline) {
			return "", true
		}
		time.Sleep(200 * time.Microsecond)
	}
	return "", false
}

// TwoCase: TWO independent Once values in flight at the same time, each with a held action and its own blocked callers;
// the actions finish in a chosen order (possibly the one whose callers started waiting first finishes last). Every
// caller must return its own Once's result. Also: actions that are not held but run for 50..300 us with callers arriving
// staggered around their end (Timed), and nested pairs: an action that calls Do on another, independent Once (Nested).
type TwoCase struct {
	Mode     string `json:"mode"` // two | timed | nested
	WaitersA int    `json:"waiters_a"`
	WaitersB int    `json:"waiters_b"`
	AFirst   bool   `json:"a_first"`   // callers of A start waiting before those of B
	FinishA  bool   `json:"finish_a"`  // A's action finishes first
	ActionUs int    `json:"action_us"` // timed: how long the action runs
	Pairs    int    `json:"pairs"`     // nested: number of independent (outer, inner) pairs
	Procs    int    `json:"procs"`
	Reps     int    `json:"reps"`
}

func RunTwo(c TwoCase) pbt.Outcome {
	if c.Procs > 0 {
		defer runtime.GOMAXPROCS(runtime.GOMAXPROCS(c.Procs))
	}
	switch c.Mode {
	case "nested":
		// independent pairs, one after another: outer.Do(func() { inner.Do(f) }) must run both functions and return
		done := make(chan string, 1)
		var progress atomic.Int64
		go func() {
			for i := 0; i < c.Pairs; i++ {
				var outer sync2.Once1[int]
				var inner sync2.Once2[int, string]
				ran := 0
				v := outer.Do(func() int {
					a, _ := inner.Do(func() (int, string) { ran++; return i, "x" })
					return a + 1
				})
				if ran != 1 || v != i+1 {
					done <- fmt.Sprintf("pair %d: the inner function ran %d times, outer Do returned %d (want %d)", i, ran, v, i+1)
					return
				}
				progress.Store(int64(i))
			}
			done <- ""
		}()
		for {
			select {
			case msg := <-done:
				if msg != "" {
					return pbt.Fail("%s", msg)
				}
				return pbt.Outcome{Evals: c.Pairs, NonTrivial: c.Pairs >= 4096, Labels: []string{"nested-independent-pairs"}}
			case <-time.After(300 * time.Millisecond):
				p0 := progress.Load()
				if b := blockedInOnce(func() bool { return progress.Load() != p0 || len(done) > 0 }); b != "" {
					return pbt.Fail("pair %d of %d independent (outer, inner) Once pairs used one after another by ONE goroutine: the outer action calls Do on the inner Once and never returns (%s inside a Once, nobody else around)", p0+1, c.Pairs, b)
				}
			}
		}
	case "timed":
		for rep := 0; rep < c.Reps; rep++ {
			var o sync2.Once1[int]
			var wg sync.WaitGroup
			var invoked atomic.Int32
			n := c.WaitersA + 1
			got := make([]int, n)
			for i := 0; i < n; i++ {
				i := i
				wg.Add(1)
				go func() {
					defer wg.Done()
					// arrivals staggered across the action's run time, clustered around its end
					stagger := time.Duration(c.ActionUs*i/n) * time.Microsecond
					for t0 := time.Now(); time.Since(t0) < stagger; {
						runtime.Gosched()
					}
					got[i] = o.Do(func() int {
						invoked.Add(1)
						for t0 := time.Now(); time.Since(t0) < time.Duration(c.ActionUs)*time.Microsecond; {
						}
						return 4242
					})
				}()
			}
			blocked, timedOut := waitOrBlocked(&wg, 30*time.Second)
			if blocked != "" {
				return pbt.Fail("repetition %d: an action that runs for %d us with %d callers arriving while it runs: the action has completed, but %s still wait(s) in Do", rep, c.ActionUs, n, blocked)
			}
			if timedOut {
				return pbt.Outcome{Inconclusive: "callers neither returned nor were seen blocked within 30s"}
			}
			if invoked.Load() != 1 {
				return pbt.Fail("repetition %d: %d invocations", rep, invoked.Load())
			}
			for i, g := range got {
				if g != 4242 {
					return pbt.Fail("repetition %d: caller %d got %d, the action returned 4242", rep, i, g)
				}
			}
		}
		return pbt.Outcome{Evals: c.Reps, NonTrivial: c.WaitersA >= 2, Labels: []string{fmt.Sprintf("timed-action-%dus", c.ActionUs)}}
	}
	// mode "two"
	for rep := 0; rep < c.Reps; rep++ {
		var a sync2.Once1[int]
		var b sync2.Once2[int, string]
		gateA, gateB := make(chan struct{}), make(chan struct{})
		enteredA, enteredB := make(chan struct{}, 1), make(chan struct{}, 1)
		var wg sync.WaitGroup
		var callingA, callingB atomic.Int32
		var wrong atomic.Int32
		doA := func() {
			defer wg.Done()
			callingA.Add(1)
			if v := a.Do(func() int { enteredA <- struct{}{}; <-gateA; return 11 }); v != 11 {
				wrong.Add(1)
			}
		}
		doB := func() {
			defer wg.Done()
			callingB.Add(1)
			if v, s := b.Do(func() (int, string) { enteredB <- struct{}{}; <-gateB; return 22, "b" }); v != 22 || s != "b" {
				wrong.Add(1)
			}
		}
		start := func(f func(), n int, calling *atomic.Int32, entered chan struct{}) bool {
			wg.Add(1)
			go f()
			select {
			case <-entered:
			case <-time.After(20 * time.Second):
				return false
			}
			for i := 0; i < n; i++ {
				wg.Add(1)
				go f()
			}
			for spins := 0; int(calling.Load()) < n+1 && spins < 2_000_000; spins++ {
				runtime.Gosched()
			}
			time.Sleep(300 * time.Microsecond) // from the counter increment into the wait inside Do
			return true
		}
		ok := true
		if c.AFirst {
			ok = start(doA, c.WaitersA, &callingA, enteredA) && start(doB, c.WaitersB, &callingB, enteredB)
		} else {
			ok = start(doB, c.WaitersB, &callingB, enteredB) && start(doA, c.WaitersA, &callingA, enteredA)
		}
		if !ok {
			close(gateA)
			close(gateB)
			return pbt.Outcome{Inconclusive: "an action was not entered within 20s"}
		}
		if c.FinishA {
			close(gateA)
			time.Sleep(200 * time.Microsecond)
			close(gateB)
		} else {
			close(gateB)
			time.Sleep(200 * time.Microsecond)
			close(gateA)
		}
		blocked, timedOut := waitOrBlocked(&wg, 30*time.Second)
		if blocked != "" {
			return pbt.Fail("repetition %d: two independent Once values in flight at once (%d and %d blocked callers; callers of %s started waiting first, the action of %s finished first): both actions have completed, but %s still wait(s) in Do", rep, c.WaitersA, c.WaitersB,
				map[bool]string{true: "A", false: "B"}[c.AFirst], map[bool]string{true: "A", false: "B"}[c.FinishA], blocked)
		}
		if timedOut {
			return pbt.Outcome{Inconclusive: "callers neither returned nor were seen blocked within 30s"}
		}
		if wrong.Load() != 0 {
			return pbt.Fail("repetition %d: %d callers got another Once's results", rep, wrong.Load())
		}
	}
	return pbt.Outcome{Evals: c.Reps, NonTrivial: c.WaitersA+c.WaitersB >= 2, Labels: []string{"two-in-flight", fmt.Sprintf("first-waiting=%v,first-finished=%v", c.AFirst, c.FinishA)}}
}

var specTwo = pbt.Register(&pbt.Spec[TwoCase]{
	Property: "C17", Name: "C17.two",
	Rule: "E5: (two) TWO independent Once values in flight at once, each with a held action and 1..6 blocked callers, all four combinations of whose callers wait first and whose action finishes first; (timed) an action that runs for 50..300 us, not held, with 2..8 callers arriving staggered across its run time; " +
		"(nested) 5000..100000 independent (outer, inner) pairs used one after another by one goroutine, the outer action calling Do on the inner Once. Oracle: every Do returns its own Once's result, one invocation each; " +
		"after the actions have COMPLETED a goroutine still in a blocking wait inside a Once on three dumps is a violation (nothing can wake it any more)",
	Gen: func(t *rapid.T) TwoCase {
		c := TwoCase{Procs: rapid.SampledFrom([]int{1, 2, 4, 16}).Draw(t, "procs")}
		switch rapid.IntRange(0, 5).Draw(t, "mode") {
		case 0:
			c.Mode, c.Pairs = "nested", rapid.SampledFrom([]int{5000, 20000, 100000}).Draw(t, "pairs")
		case 1, 2:
			c.Mode, c.WaitersA, c.ActionUs, c.Reps = "timed", rapid.IntRange(2, 8).Draw(t, "callers"), rapid.SampledFrom([]int{50, 90, 100, 110, 150, 300}).Draw(t, "us"), 200
		default:
			c.Mode, c.WaitersA, c.WaitersB, c.Reps = "two", rapid.IntRange(1, 6).Draw(t, "wa"), rapid.IntRange(1, 6).Draw(t, "wb"), 8
			c.AFirst, c.FinishA = rapid.Bool().Draw(t, "afirst"), rapid.Bool().Draw(t, "finisha")
		}
		return c
	},
	Run: RunTwo, Quick: 90, Thorough: 2000, Crashy: true, Retries: 30,
})

func TestC17Two(t *testing.T) { pbt.Check(t, specTwo) }
