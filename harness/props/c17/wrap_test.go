package c17

import (
	"fmt"
	"testing"

	"gopkg.in/typ.v4/sync2"
	"verifharness/internal/pbt"
)

// WrapCase: N sequential Do calls on one Once value (thorough tier only: N just above 2^32 takes ~15 s without the
// race detector). No counter of calls may ever wrap into running an action again.
type WrapCase struct {
	Variant int   `json:"variant"`
	N       int64 `json:"n"`
}

func RunWrap(c WrapCase) pbt.Outcome {
	invoked := 0
	var o1 sync2.Once1[int]
	var o2 sync2.Once2[int, string]
	var o3 sync2.Once3[int, string, bool]
	f1 := func() int { invoked++; return invoked }
	f2 := func() (int, string) { invoked++; return invoked, "x" }
	f3 := func() (int, string, bool) { invoked++; return invoked, "x", true }
	for k := int64(0); k < c.N; k++ {
		var a int
		switch c.Variant {
		case 1:
			a = o1.Do(f1)
		case 2:
			a, _ = o2.Do(f2)
		default:
			a, _, _ = o3.Do(f3)
		}
		if a != 1 || invoked != 1 {
			return pbt.Fail("Do call number %d on one Once%d value returned %d with %d invocations so far: the action ran again", k+1, c.Variant, a, invoked)
		}
	}
	return pbt.Outcome{Evals: 1, NonTrivial: c.N > 1<<32, NTCount: 0, Labels: []string{fmt.Sprintf("calls=%d", c.N)}}
}

var specWrap = pbt.Register(&pbt.Spec[WrapCase]{
	Property: "C17", Name: "C17.wrap",
	Rule: "thorough tier only: 2^32+5 sequential Do calls on one Once1 value and 2^31+5 / 2^24+5 on Once2 / Once3 (no call counter may wrap into a second invocation); non-trivial = more than 2^32 calls",
	Enum: func(shard, shards int, tier string, yield func(WrapCase) bool) {
		cases := []WrapCase{{1, 1<<32 + 5}, {2, 1<<31 + 5}, {3, 1<<24 + 5}, {2, 1<<32 + 5}}
		for i, c := range cases {
			if i%shards == shard {
				if !yield(c) {
					return
				}
			}
		}
	},
	Run: RunWrap, Exhaustive: true, CaseCPU: 900e9,
})

func TestC17Wrap(t *testing.T) { pbt.Check(t, specWrap) }
