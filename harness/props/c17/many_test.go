package c17

import (
	"fmt"
	"runtime"
	"sync"
	"sync/atomic"
	"testing"
	"time"

	"gopkg.in/typ.v4/sync2"
	"pgregory.net/rapid"
	"verifharness/internal/pbt"
)

// ManyCase: one held action and Waiters blocked Do calls on the same value at once (65535, 65536, 65537, 66048 ...:
// no count of blocked callers may overflow into "done" or lose wake-ups). No race detector (it allows 8128 goroutines).
type ManyCase struct {
	Variant int `json:"variant"`
	Waiters int `json:"waiters"`
}

func RunMany(c ManyCase) pbt.Outcome {
	var o1 sync2.Once1[int]
	var o2 sync2.Once2[int, string]
	var o3 sync2.Once3[int, string, bool]
	var invoked atomic.Int32
	gate := make(chan struct{})
	entered := make(chan struct{}, 4)
	do := func(id int) int {
		body := func() {
			invoked.Add(1)
			entered <- struct{}{}
			<-gate
		}
		switch c.Variant {
		case 1:
			return o1.Do(func() int { body(); return id })
		case 2:
			a, _ := o2.Do(func() (int, string) { body(); return id, "x" })
			return a
		default:
			a, _, _ := o3.Do(func() (int, string, bool) { body(); return id, "x", true })
			return a
		}
	}
	var wg sync.WaitGroup
	var calling, returned atomic.Int64
	var wrong atomic.Int64
	wg.Add(1)
	go func() { defer wg.Done(); calling.Add(1); do(1); returned.Add(1) }()
	select {
	case <-entered:
	case <-time.After(20 * time.Second):
		return pbt.Outcome{Inconclusive: "the action was not entered within 20s"}
	}
	for i := 0; i < c.Waiters; i++ {
		wg.Add(1)
		go func() {
			defer wg.Done()
			calling.Add(1)
			if v := do(2); v != 1 {
				wrong.Add(1)
			}
			returned.Add(1)
		}()
	}
	deadline := time.Now().Add(60 * time.Second)
	for calling.Load() < int64(c.Waiters+1) {
		if time.Now().After(deadline) {
			close(gate)
			return pbt.Outcome{Inconclusive: "not every caller reached Do within 60s"}
		}
		runtime.Gosched()
	}
	time.Sleep(20 * time.Millisecond) // let the last callers get from the counter increment into Do
	if r := returned.Load(); r != 0 {
		close(gate)
		return pbt.Fail("with %d Do calls blocked on one Once%d at once, %d of them returned while the action was still running", c.Waiters, c.Variant, r)
	}
	close(gate)
	done := make(chan struct{})
	go func() { wg.Wait(); close(done) }()
	select {
	case <-done:
	case <-time.After(60 * time.Second):
		return pbt.Fail("with %d Do calls blocked on one Once%d at once: %d seconds after the action finished only %d of %d calls have returned (the others were never woken)", c.Waiters, c.Variant, 60, returned.Load(), c.Waiters+1)
	}
	if invoked.Load() != 1 {
		return pbt.Fail("%d functions were invoked with %d concurrent callers, want 1", invoked.Load(), c.Waiters+1)
	}
	if w := wrong.Load(); w != 0 {
		return pbt.Fail("%d of %d blocked callers returned something else than the action's result", w, c.Waiters)
	}
	return pbt.Outcome{Evals: c.Waiters + 1, NonTrivial: c.Waiters >= 65536, Labels: []string{fmt.Sprintf("waiters=%d", c.Waiters)}}
}

var specMany = pbt.Register(&pbt.Spec[ManyCase]{
	Property: "C17", Name: "C17.many",
	Rule: "one held action and 255..66048 (thorough 140000) Do calls blocked on the same Once value at once (counts around 2^8, 2^15, 2^16, 2^17): none returns while the action runs, all return its result after it finished " +
		"(60 s without all of them back = never woken), exactly one invocation; no race detector (goroutine limit); non-trivial = >= 65536 blocked callers",
	Enum: func(shard, shards int, tier string, yield func(ManyCase) bool) {
		ws := []int{255, 257, 32769, 65535, 65536, 65537, 66048}
		if tier == "thorough" {
			ws = append(ws, 131071, 131073, 140000)
		}
		i := 0
		for _, w := range ws {
			for v := 1; v <= 3; v++ {
				if tier != "thorough" && w > 60000 && v != 1+(w%3) {
					continue
				}
				i++
				if (i-1)%shards == shard && !yield(ManyCase{v, w}) {
					return
				}
			}
		}
	},
	Run: RunMany, Exhaustive: true, Crashy: true, CaseCPU: 300e9,
})

func TestC17Many(t *testing.T) { pbt.Check(t, specMany) }

// ---------------------------------------------------------------- a process that has already started > 1,000,000 goroutines

var busyOnce sync.Once

func ensureBusy() {
	busyOnce.Do(func() {
		var wg sync.WaitGroup
		for b := 0; b < 1100; b++ {
			wg.Add(1000)
			for i := 0; i < 1000; i++ {
				go wg.Done()
			}
			wg.Wait()
		}
	})
}

var specBusy = pbt.Register(&pbt.Spec[Case]{
	Property: "C17", Name: "C17.busy",
	Rule: "the cases of C17.once in a process that has started more than 1,100,000 goroutines before (goroutine ids of seven digits and more)",
	Gen:  func(t *rapid.T) Case { c := spec.Gen(t); c.Repeat = 0; return c },
	Run: func(c Case) pbt.Outcome {
		ensureBusy()
		out := Run(c)
		out.Labels = append(out.Labels, "process-started->1.1M-goroutines-before")
		return out
	},
	Quick: 400, Thorough: 5000, Crashy: true, Retries: 100,
})

func TestC17Busy(t *testing.T) { pbt.Check(t, specBusy) }
