// Package c17 decides C17: Once1/Once2/Once3 run the action exactly once and
// share its results (E4: free-running goroutines under -race, with the action
// held open by a harness gate so that "Do returned before the action finished"
// is observable without using time as a verdict).
package c17

import (
	"fmt"
	"runtime"
	"sync"
	"sync/atomic"
	"testing"
	"time"

	"gopkg.in/typ.v4/sync2"
	"pgregory.net/rapid"
	"verifharness/internal/pbt"
)

type Case struct {
	Variant int   `json:"variant"` // 1, 2, 3
	NBefore int   `json:"n_before"`
	NAfter  int   `json:"n_after"`
	Procs   int   `json:"procs"`
	Stagger []int `json:"stagger"`          // per early caller: Gosched calls before calling Do
	Hold    int   `json:"hold"`             // Gosched rounds the harness keeps the gate closed after everybody called Do
	Panics  bool  `json:"panics,omitempty"` // every passed function panics (after the gate opened); callers recover
	Goexit  bool  `json:"goexit,omitempty"` // every passed function ends its goroutine with runtime.Goexit (after the gate opened)
	// Other: while the action is held open, a DIFFERENT Once value of the same type runs to completion
	// (1 = from another goroutine, 2 = from inside the held action itself); the waiters must not be affected
	Other int `json:"other,omitempty"`
	// NilIface: the variant is Once1[error] and the action returns a nil error (0 = no, 1 = nil, 2 = non-nil error)
	NilIface int `json:"nil_iface,omitempty"`
	// After: every caller uses a second, unrelated Once value (of another variant) immediately after its Do returned
	After bool `json:"after,omitempty"`
	// Repeat: that many further Do calls on the same value afterwards (call counters must not wrap into a re-run)
	Repeat int `json:"repeat,omitempty"`
	// NilWaiters: that many extra callers pass a NIL function; they start only after the action is known to be running
	// (so the nil function is never the one to be invoked) and must wait for it and get its results like everybody else
	NilWaiters int `json:"nil_waiters,omitempty"`
}

type vals struct {
	A int
	B string
	C [2]int
}

func valsOf(i int) vals { return vals{A: i*1000 + 1, B: fmt.Sprintf("caller-%d", i), C: [2]int{i, -i}} }

// once abstracts the three variants: do(i, f) calls Do with a function that runs f and returns valsOf(i) in the variant's arity.
type once struct {
	oe sync2.Once1[error]
	ne int // 1: actions return a nil error, 2: a non-nil error carrying the caller id
	o1 sync2.Once1[int]
	o2 sync2.Once2[int, string]
	o3 sync2.Once3[int, string, [2]int]
	e2 sync2.Once2[int, error]         // variant 4: last result is a non-nil error
	e3 sync2.Once3[int, string, error] // variant 5
	v  int
}

type idErr int

func (e idErr) Error() string { return fmt.Sprintf("error of caller %d", int(e)) }

// doNil calls Do with a nil function (plain variants 1..3 only).
func (o *once) doNil() vals {
	switch o.v {
	case 1:
		a := o.o1.Do(nil)
		return vals{A: a, B: valsOf(a / 1000).B, C: valsOf(a / 1000).C}
	case 2:
		a, b := o.o2.Do(nil)
		return vals{A: a, B: b, C: valsOf(a / 1000).C}
	default:
		a, b, c := o.o3.Do(nil)
		return vals{A: a, B: b, C: c}
	}
}

func (o *once) do(i int, body func()) vals {
	w := valsOf(i)
	if o.ne != 0 {
		err := o.oe.Do(func() error {
			body()
			if o.ne == 1 {
				return nil
			}
			return idErr(i)
		})
		if err == nil {
			return vals{A: -1}
		}
		if e, ok := err.(idErr); ok {
			return valsOf(int(e))
		}
		return vals{A: -2}
	}
	switch o.v {
	case 4:
		a, err := o.e2.Do(func() (int, error) { body(); return w.A, idErr(i) })
		if e, ok := err.(idErr); !ok || valsOf(int(e)).A != a {
			return vals{A: -3}
		}
		return valsOf(a / 1000)
	case 5:
		a, b, err := o.e3.Do(func() (int, string, error) { body(); return w.A, w.B, idErr(i) })
		if e, ok := err.(idErr); !ok || valsOf(int(e)).A != a || valsOf(int(e)).B != b {
			return vals{A: -3}
		}
		return valsOf(a / 1000)
	case 1:
		a := o.o1.Do(func() int { body(); return w.A })
		return vals{A: a, B: valsOf(a / 1000).B, C: valsOf(a / 1000).C}
	case 2:
		a, b := o.o2.Do(func() (int, string) { body(); return w.A, w.B })
		return vals{A: a, B: b, C: valsOf(a / 1000).C}
	default:
		a, b, c := o.o3.Do(func() (int, string, [2]int) { body(); return w.A, w.B, w.C })
		return vals{A: a, B: b, C: c}
	}
}

func Run(c Case) pbt.Outcome {
	if c.Procs > 0 {
		defer runtime.GOMAXPROCS(runtime.GOMAXPROCS(c.Procs))
	}
	if c.NilIface != 0 || c.Variant > 3 || c.Panics || c.Goexit {
		c.NilWaiters = 0
	}
	n := c.NBefore + c.NAfter + c.NilWaiters
	o := &once{v: c.Variant, ne: c.NilIface}
	other := &once{v: c.Variant, ne: c.NilIface}
	// a third Once value, of ANOTHER variant (other result types), which every caller uses immediately after its Do returned
	after := &once{v: c.Variant%3 + 1}
	gotAfter := make([]vals, n)
	var afterInvoked atomic.Int32
	var afterWinner atomic.Int32
	afterWinner.Store(-1)
	invoked := make([]atomic.Int32, n)
	entered := make(chan int, n+1)
	gate := make(chan struct{})
	completed := false // PLAIN: written by the action after the gate opens, read by every caller after Do returns
	var calling, returned atomic.Int32
	got := make([]vals, n)
	sawCompleted := make([]bool, n)
	var wg sync.WaitGroup
	panicked := make([]bool, n)
	call := func(i int, hold bool) {
		defer wg.Done()
		defer func() {
			if p := recover(); p != nil {
				panicked[i] = true
				returned.Add(1)
			}
		}()
		calling.Add(1)
		got[i] = o.do(i, func() {
			invoked[i].Add(1)
			entered <- i
			if hold && c.Other == 2 {
				// a different Once used from inside the held action
				other.do(900, func() {})
			}
			if hold {
				<-gate
			}
			completed = true
			if c.Panics {
				panic("action panics")
			}
			if c.Goexit {
				returned.Add(1)
				runtime.Goexit()
			}
		})
		sawCompleted[i] = completed
		returned.Add(1)
		if c.After {
			gotAfter[i] = after.do(2000+i, func() {
				afterInvoked.Add(1)
				afterWinner.Store(int32(2000 + i))
			})
		}
	}
	for i := 0; i < c.NBefore; i++ {
		i := i
		wg.Add(1)
		go func() {
			if i < len(c.Stagger) {
				for k := 0; k < c.Stagger[i]; k++ {
					runtime.Gosched()
				}
			}
			call(i, true)
		}()
	}
	// exactly one action must start
	var first int
	select {
	case first = <-entered:
	case <-time.After(20 * time.Second):
		return pbt.Outcome{Inconclusive: "no action was entered within 20s"}
	}
	// let every early caller reach Do while the action is held open
	for spins := 0; int(calling.Load()) < c.NBefore && spins < 1_000_000; spins++ {
		runtime.Gosched()
	}
	// callers passing a nil function join while the action is running
	for k := 0; k < c.NilWaiters; k++ {
		i := c.NBefore + c.NAfter + k
		wg.Add(1)
		go func() {
			defer wg.Done()
			defer func() {
				if p := recover(); p != nil {
					panicked[i] = true
					returned.Add(1)
				}
			}()
			calling.Add(1)
			got[i] = o.doNil()
			sawCompleted[i] = completed
			returned.Add(1)
		}()
	}
	for spins := 0; int(calling.Load()) < c.NBefore+c.NilWaiters && spins < 1_000_000; spins++ {
		runtime.Gosched()
	}
	if c.Other == 1 {
		// an unrelated Once value of the same type starts and finishes while ours is still running
		other.do(900, func() {})
		other.do(901, func() {})
	}
	for k := 0; k < c.Hold; k++ {
		runtime.Gosched()
	}
	if c.Hold > 2 {
		time.Sleep(time.Duration(c.Hold) * 20 * time.Microsecond)
	}
	// observation points while the gate is CLOSED (the action cannot have completed)
	if r := returned.Load(); r != 0 {
		close(gate)
		wg.Wait()
		return pbt.Fail("%d of %d Do calls (%d of them passing a nil function, started after the action was running) returned while the action (caller %d's function) was still running", r, c.NBefore+c.NilWaiters, c.NilWaiters, first)
	}
	select {
	case second := <-entered:
		close(gate)
		wg.Wait()
		return pbt.Fail("a second function was invoked (caller %d's) while caller %d's was still running: the action ran more than once", second, first)
	default:
	}
	close(gate)
	wg.Wait()
	// later callers
	for i := c.NBefore; i < c.NBefore+c.NAfter; i++ {
		wg.Add(1)
		go call(i, false)
	}
	wg.Wait()
	total := 0
	for i := range invoked {
		total += int(invoked[i].Load())
	}
	if total != 1 {
		return pbt.Fail("%d function invocations in total (per caller: %v), want exactly 1", total, counts(invoked))
	}
	if c.Panics || c.Goexit {
		// a panicking action / one that ends its goroutine still counts as the one invocation; nothing is asserted about the returned values
		for i := 0; i < n; i++ {
			if panicked[i] && invoked[i].Load() == 0 {
				return pbt.Fail("caller %d's Do panicked although its function was never invoked", i)
			}
		}
		lab := "panicking-action"
		if c.Goexit {
			lab = "goexit-action"
		}
		return pbt.Outcome{Evals: n, NonTrivial: c.NBefore >= 2, Labels: []string{lab, fmt.Sprintf("variant=Once%d", c.Variant)}}
	}
	for i := 0; i < n; i++ {
		if panicked[i] {
			return pbt.Fail("caller %d's Do panicked although no passed function panics", i)
		}
	}
	if c.After {
		if k := afterInvoked.Load(); k != 1 {
			return pbt.Fail("a second Once value used by every caller right after the first: %d of its functions were invoked, want exactly 1", k)
		}
		wantAfter := valsOf(int(afterWinner.Load()))
		switch after.v { // project to the arity of that variant
		case 1:
			wantAfter = vals{A: wantAfter.A, B: valsOf(wantAfter.A / 1000).B, C: valsOf(wantAfter.A / 1000).C}
		}
		for i := 0; i < c.NBefore+c.NAfter; i++ {
			if gotAfter[i] != wantAfter {
				return pbt.Fail("caller %d used a second, unrelated Once value right after the first one: its Do returned %+v, but that Once's invoked function returned %+v (results of different Once values got mixed up)", i, gotAfter[i], wantAfter)
			}
		}
	}
	if c.Repeat > 0 {
		// many more calls on the same value from one goroutine: still no new invocation, same results
		for k := 0; k < c.Repeat; k++ {
			if g := o.do(9000, func() { invoked[0].Add(1) }); g != got[0] {
				return pbt.Fail("call number %d on the same Once returned %+v, earlier calls returned %+v", n+k+1, g, got[0])
			}
		}
		tot := 0
		for i := range invoked {
			tot += int(invoked[i].Load())
		}
		if tot != 1 {
			return pbt.Fail("after %d further Do calls on the same value %d functions have been invoked in total, want 1", c.Repeat, tot)
		}
	}
	want := valsOf(first)
	if c.NilIface == 1 {
		want = vals{A: -1}
	}
	for i := 0; i < n; i++ {
		if got[i] != want {
			return pbt.Fail("caller %d's Do returned %+v, but the invoked function (caller %d's) returned %+v", i, got[i], first, want)
		}
		if !sawCompleted[i] {
			return pbt.Fail("caller %d's Do returned before the action's effect (a plain write made before returning) was visible", i)
		}
	}
	out := pbt.Outcome{Evals: n, NonTrivial: c.NBefore >= 2}
	out.Labels = append(out.Labels, fmt.Sprintf("variant=%d", c.Variant))
	if c.After {
		out.Labels = append(out.Labels, "second-once-right-after")
	}
	if c.Repeat > 0 {
		out.Labels = append(out.Labels, "many-further-calls")
	}
	if c.NBefore >= 2 {
		out.Labels = append(out.Labels, "contended")
	}
	if c.NilWaiters > 0 {
		out.Labels = append(out.Labels, "waiters-passing-a-nil-function")
	}
	if c.NAfter > 0 {
		out.Labels = append(out.Labels, "later-callers")
	}
	if first != 0 {
		out.Labels = append(out.Labels, "winner-not-first-goroutine")
	}
	return out
}

func counts(a []atomic.Int32) []int32 {
	o := make([]int32, len(a))
	for i := range a {
		o[i] = a[i].Load()
	}
	return o
}

var spec = pbt.Register(&pbt.Spec[Case]{
	Property: "C17", Name: "C17.once",
	Rule: "E4 under -race: variant in {Once1,Once2,Once3} x 1..8 early callers (each with its own function returning values unique to it, counting its invocations, signalling 'entered', " +
		"then blocking on a harness gate, finally writing a PLAIN completion flag) x 0..4 later callers x GOMAXPROCS x arrival stagger; in one case of six every passed function panics after the gate opens (callers recover; then only 'exactly one invocation in total' is asserted), in another sixth they end their goroutine with runtime.Goexit; in half of the cases a DIFFERENT Once value of the same type runs to completion while ours is held open (from another goroutine or from inside the held action); Once1 is also instantiated with an interface result type (error) returning nil or non-nil, Once2/Once3 with a non-nil error as last result; in a third of the cases every caller uses another, unrelated Once value (other result types) right after its Do returned; in one case of 150 300 or 65539 further calls follow on the same value; in a quarter of the cases 1..3 extra callers pass a NIL function after the action is known to be running (they wait and get the results like everybody else). Oracle: exactly one 'entered' ever; while the gate is closed no Do has returned " +
		"(sound: the action has not completed); afterwards every Do returned exactly the invoked function's values; total invocations == 1; every caller reads the plain flag after Do (must be true; the race detector " +
		"reports any read not ordered after the write). non-trivial = >=2 early callers",
	Gen: func(t *rapid.T) Case {
		nb := rapid.SampledFrom([]int{1, 2, 2, 3, 4, 6, 8}).Draw(t, "n_before")
		c := Case{
			Variant: rapid.IntRange(1, 3).Draw(t, "variant"), NBefore: nb, NAfter: rapid.IntRange(0, 4).Draw(t, "n_after"),
			Procs:   rapid.SampledFrom([]int{1, 2, 4, 8, 16}).Draw(t, "procs"),
			Stagger: rapid.SliceOfN(rapid.IntRange(0, 4), nb, nb).Draw(t, "stagger"),
			Hold:    rapid.SampledFrom([]int{0, 1, 3, 10}).Draw(t, "hold"),
			Panics:  rapid.IntRange(0, 5).Draw(t, "panics") == 0,
			Other:   rapid.SampledFrom([]int{0, 0, 1, 2}).Draw(t, "other"),
		}
		if !c.Panics && rapid.IntRange(0, 5).Draw(t, "goexit") == 0 {
			c.Goexit = true
		}
		if c.Variant == 1 && rapid.IntRange(0, 2).Draw(t, "iface") == 0 {
			c.NilIface = rapid.IntRange(1, 2).Draw(t, "nilerr")
		}
		if rapid.IntRange(0, 4).Draw(t, "errresult") == 0 {
			c.Variant = rapid.IntRange(4, 5).Draw(t, "errvariant")
			c.NilIface = 0
		}
		c.After = !c.Panics && !c.Goexit && rapid.IntRange(0, 2).Draw(t, "after") == 0
		if rapid.IntRange(0, 3).Draw(t, "nilwaiters") == 2 {
			c.NilWaiters = rapid.IntRange(1, 3).Draw(t, "nnil")
		}
		if !c.Panics && !c.Goexit && rapid.IntRange(0, 59).Draw(t, "repeat") == 33 {
			c.Repeat = rapid.SampledFrom([]int{300, 65536 + 3}).Draw(t, "nrepeat")
		}
		return c
	},
	Run: Run, Quick: 1500, Thorough: 20000, Crashy: true, Retries: 100,
	Assumes: []string{"sync.Once's internals are not instrumented: the gate makes the inter-call schedule deterministic, windows inside a single call are reached by free-running repetition only"},
})

func TestC17Once(t *testing.T) { pbt.Check(t, spec) }
func TestReplay(t *testing.T)  { pbt.Replay(t) }
