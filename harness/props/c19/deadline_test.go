package c19

import (
	"context"
	"fmt"
	"runtime"
	"sync"
	"sync/atomic"
	"testing"
	"time"

	"gopkg.in/typ.v4/chans"
	"pgregory.net/rapid"
	"verifharness/internal/pbt"
)

// DCase: thousands of rounds in which the peer acts within microseconds of the deadline (it spins until deadline+skew,
// skew sweeping through -10..+200 us: runtime timers fire late). Either outcome is fine; conservation must hold in both: a send reported true was
// received exactly once, a send reported false was not received; a receive reported true took the peer's value, a
// receive reported false left it for the peer's own bookkeeping (the peer then sees its send not taken).
type DCase struct {
	Fn     string `json:"fn"`
	DUs    int    `json:"d_us"`
	Rounds int    `json:"rounds"`
	Procs  int    `json:"procs"`
	// Pairs: that many caller/peer pairs run their rounds at the same time, each on a channel of its own (more pairs
	// than processors: a goroutine that was just handed its value may have to wait for a processor - the window between
	// the hand-over and the caller's next instruction grows)
	Pairs int `json:"pairs,omitempty"`
}

func RunDeadline(c DCase) pbt.Outcome {
	if c.Procs > 0 {
		defer runtime.GOMAXPROCS(runtime.GOMAXPROCS(c.Procs))
	}
	pairs := max(c.Pairs, 1)
	outs := make([]pbt.Outcome, pairs)
	var wg sync.WaitGroup
	var stop atomic.Bool
	for w := 0; w < pairs; w++ {
		w := w
		wg.Add(1)
		go func() {
			defer wg.Done()
			outs[w] = runDeadlinePair(c, w, max(c.Rounds/pairs, 50), &stop)
			if outs[w].Violation != "" {
				stop.Store(true)
			}
		}()
	}
	wg.Wait()
	out := pbt.Outcome{Labels: []string{"fn=" + c.Fn, fmt.Sprintf("pairs=%d", pairs)}}
	for _, o := range outs {
		if o.Violation != "" {
			return o
		}
		out.Evals += o.Evals
		out.NonTrivial = out.NonTrivial || o.NonTrivial
	}
	if out.NonTrivial {
		out.Labels = append(out.Labels, "both-outcomes-seen-in-one-case")
	}
	return out
}

func runDeadlinePair(c DCase, w, rounds int, stop *atomic.Bool) pbt.Outcome {
	d := time.Duration(c.DUs) * time.Microsecond
	both := [2]int{}
	for r := w * 1000003; r < w*1000003+rounds && !stop.Load(); r++ {
		ch := make(chan int)
		skew := time.Duration((r*7919)%211-10) * time.Microsecond // runtime timers fire late by tens of microseconds: sweep -10..+200 us
		type peerRes struct {
			acted bool
			val   int
		}
		pr := make(chan peerRes, 1)
		start := make(chan time.Time, 1)
		sending := c.Fn == "SendTimeout" || c.Fn == "SendContext"
		go func() {
			t0 := <-start
			for time.Since(t0) < d+skew {
				if c.Pairs > 1 {
					runtime.Gosched()
				}
			}
			// the peer's own operation gives up 1.5ms after the deadline: by then the call under test has long returned
			tm := time.NewTimer(1500 * time.Microsecond)
			defer tm.Stop()
			if sending {
				select {
				case v := <-ch:
					pr <- peerRes{true, v}
				case <-tm.C:
					pr <- peerRes{}
				}
			} else {
				select {
				case ch <- 2000 + r:
					pr <- peerRes{true, 2000 + r}
				case <-tm.C:
					pr <- peerRes{}
				}
			}
		}()
		var ok bool
		var got int
		t0 := time.Now()
		start <- t0
		switch c.Fn {
		case "SendTimeout":
			ok = chans.SendTimeout(ch, 1000+r, d)
		case "SendContext":
			ctx, cancel := context.WithTimeout(context.Background(), d)
			ok = chans.SendContext(ctx, ch, 1000+r)
			cancel()
		case "RecvTimeout":
			got, ok = chans.RecvTimeout((<-chan int)(ch), d)
		default:
			ctx, cancel := context.WithTimeout(context.Background(), d)
			got, ok = chans.RecvContext(ctx, (<-chan int)(ch))
			cancel()
		}
		p := <-pr
		what := fmt.Sprintf("round %d: %s with a limit of %v and a peer acting at the deadline%+v", r, c.Fn, d, skew)
		if sending {
			if ok != p.acted {
				return pbt.Fail("%s: reported %v, but the receiver on the other side %s", what, ok, map[bool]string{true: "did receive the value", false: "never got a value"}[p.acted])
			}
			if ok && p.val != 1000+r {
				return pbt.Fail("%s: the receiver got %d, sent was %d", what, p.val, 1000+r)
			}
		} else {
			if ok != p.acted {
				return pbt.Fail("%s: reported (%d,%v), but the sender on the other side %s", what, got, ok, map[bool]string{true: "did hand its value over", false: "never got rid of its value"}[p.acted])
			}
			if ok && got != p.val {
				return pbt.Fail("%s: received %d, the sender handed over %d", what, got, p.val)
			}
			if !ok && got != 0 {
				return pbt.Fail("%s: returned (%d,false): not the zero value", what, got)
			}
		}
		if ok {
			both[1]++
		} else {
			both[0]++
		}
	}
	return pbt.Outcome{Evals: rounds, NonTrivial: both[0] > 0 && both[1] > 0}
}

var specDeadline = pbt.Register(&pbt.Spec[DCase]{
	Property: "C19", Name: "C19.deadline",
	Rule: "E5: 1000..4000 rounds per case (spread over 1, 16 or 64 caller/peer pairs running at the same time, each on its own channel) of SendTimeout / SendContext / RecvTimeout / RecvContext on an unbuffered channel with a limit of 60..400 us whose peer (spinning) acts at the deadline -10..+200 us (timers fire late by tens of microseconds); either outcome is allowed, " +
		"conservation must hold in both (reported true <=> the other side saw the hand-over, with the right value; false => zero value); non-trivial = both outcomes occurred within the case",
	Gen: func(t *rapid.T) DCase {
		return DCase{Fn: rapid.SampledFrom([]string{"SendTimeout", "SendTimeout", "SendContext", "RecvTimeout", "RecvContext"}).Draw(t, "fn"),
			DUs: rapid.SampledFrom([]int{60, 150, 400}).Draw(t, "d"), Rounds: rapid.SampledFrom([]int{1000, 4000}).Draw(t, "rounds"), Procs: rapid.SampledFrom([]int{2, 4, 16}).Draw(t, "procs"),
			Pairs: rapid.SampledFrom([]int{1, 16, 64, 64}).Draw(t, "pairs")}
	},
	Run: RunDeadline, Quick: 12, Thorough: 100, Crashy: true, Retries: 20, CaseCPU: 120e9,
})

func TestC19Deadline(t *testing.T) { pbt.Check(t, specDeadline) }

// The same unit in a process with GODEBUG=asynctimerchan=1 (plan.json): the timer-channel semantics that programs whose
// main module has a go line below 1.23 get - the library itself declares go 1.18. There a timer fires into its buffered
// channel whether or not anybody is receiving, and Stop reports false from then on.
var specDeadlineAsync = pbt.Register(&pbt.Spec[DCase]{
	Property: "C19", Name: "C19.deadlineasync",
	Rule: "C19.deadline in a process running with GODEBUG=asynctimerchan=1 (pre-Go-1.23 timer channels: a timer fires into its buffered channel even if nobody receives; what a main module with an older go line gets)",
	Gen:  specDeadline.Gen, Run: RunDeadline, Quick: 12, Thorough: 100, Crashy: true, Retries: 20, CaseCPU: 120e9,
})

func TestC19DeadlineAsync(t *testing.T) { pbt.Check(t, specDeadlineAsync) }

var specTimedAsync = pbt.Register(&pbt.Spec[TCase]{
	Property: "C19", Name: "C19.timedasync",
	Rule: "C19.timed in a process running with GODEBUG=asynctimerchan=1 (pre-Go-1.23 timer channels)",
	Gen:  genTimed, Run: RunTimed, Quick: 600, Thorough: 3000, Crashy: true, Retries: 20,
})

func TestC19TimedAsync(t *testing.T) { pbt.Check(t, specTimedAsync) }
