package c19

import (
	"fmt"
	"runtime"
	"sync"
	"sync/atomic"
	"testing"

	"gopkg.in/typ.v4/chans"
	"verifharness/internal/pbt"
)

// SlowCase: one goroutine drains N prequeued values with RecvQueued on ONE processor that it shares with Spinners
// CPU-bound goroutines: the call is descheduled again and again and takes seconds of wall-clock time. However long it
// takes, it returns exactly the values that were queued (nobody else touches the channel).
type SlowCase struct {
	N        int  `json:"n"`
	Spinners int  `json:"spinners"`
	Full     bool `json:"full"`
}

func RunSlowDrain(c SlowCase) pbt.Outcome {
	defer runtime.GOMAXPROCS(runtime.GOMAXPROCS(1))
	ch := make(chan int, c.N)
	for i := 0; i < c.N; i++ {
		ch <- i + 1
	}
	var stop atomic.Bool
	var wg sync.WaitGroup
	var sink atomic.Int64
	for s := 0; s < c.Spinners; s++ {
		wg.Add(1)
		go func() {
			defer wg.Done()
			x := int64(1)
			for !stop.Load() {
				for i := 0; i < 100000; i++ {
					x = x*6364136223846793005 + 1442695040888963407
				}
				sink.Store(x)
			}
		}()
	}
	runtime.Gosched() // let the spinners get going
	var got []int
	if c.Full {
		buf := make([]int, c.N+5)
		n := chans.RecvQueuedFull(ch, buf)
		got = buf[:n]
	} else {
		got = chans.RecvQueued(ch, c.N+5)
	}
	stop.Store(true)
	wg.Wait()
	if len(got) != c.N {
		return pbt.Fail("RecvQueued* of %d prequeued values on one processor shared with %d CPU-bound goroutines (nobody else touches the channel) returned %d values; %d are still in the channel", c.N, c.Spinners, len(got), len(ch))
	}
	for i, v := range got {
		if v != i+1 {
			return pbt.Fail("value %d of the slow drain is %d, want %d", i, v, i+1)
		}
	}
	return pbt.Outcome{Evals: 1, NonTrivial: true, Labels: []string{fmt.Sprintf("spinners=%d", c.Spinners)}}
}

var specSlowDrain = pbt.Register(&pbt.Spec[SlowCase]{
	Property: "C19", Name: "C19.slowdrain",
	Rule: "enumerated: RecvQueued / RecvQueuedFull draining 2^20 (thorough also 2^21) prequeued values on ONE processor shared with 64 (thorough also 16, 200) CPU-bound goroutines, so that the call itself takes seconds of wall-clock time: it still returns exactly the queued values",
	Enum: func(shard, shards int, tier string, yield func(SlowCase) bool) {
		cases := []SlowCase{{1 << 20, 64, false}}
		if tier == "thorough" {
			cases = append(cases, SlowCase{1 << 20, 64, true}, SlowCase{1 << 21, 16, false}, SlowCase{1 << 20, 200, false})
		}
		for i, c := range cases {
			if i%shards == shard && !yield(c) {
				return
			}
		}
	},
	Run: RunSlowDrain, Exhaustive: true, Crashy: true, CaseCPU: 600e9,
})

func TestC19SlowDrain(t *testing.T) { pbt.Check(t, specSlowDrain) }
