package c19

import (
	"context"
	"fmt"
	"sync"
	"sync/atomic"
	"testing"
	"time"

	"gopkg.in/typ.v4/chans"
	"pgregory.net/rapid"
	"verifharness/internal/gstate"
	"verifharness/internal/pbt"
)

// TCase is one scenario of the timed / context helpers.
//
// Fn: SendTimeout SendContext RecvTimeout RecvContext.
// Limit: how the call is bounded:
//
//	"neg","zero"  timeout <= 0 (wait without limit)          (Timeout fns)
//	"short"       1ms timeout                                 (Timeout fns)
//	"long"        1h timeout                                  (Timeout fns)
//	"race"        timeout / cancellation after DelayUs        (both)
//	"never"       context never cancelled                     (Context fns)
//	"before"      context cancelled before the call           (Context fns)
//	"later"       context cancelled by the harness once the call is seen blocked (Context fns)
//
// Peer: the other side of the channel:
//
//	"none"     nobody ever acts (until the harness frees a blocked call after having made its observations)
//	"gated"    a peer that acts only when the harness opens a gate (after the call is seen blocked)
//	"delayed"  a peer that acts after PeerDelayUs, racing with the limit
//	"closer"   (receivers only) a peer that CLOSES the channel after PeerDelayUs, racing with the limit
type TCase struct {
	Fn          string `json:"fn"`
	Cap         int    `json:"cap"`
	Fill        int    `json:"fill"`
	Closed      bool   `json:"closed,omitempty"` // receivers only: channel closed after the fill
	Limit       string `json:"limit"`
	Peer        string `json:"peer"`
	DelayUs     int    `json:"delay_us,omitempty"`
	PeerDelayUs int    `json:"peer_delay_us,omitempty"`
}

const sentVal = 1000 // the value the call under test sends; peers send 2000

func isSend(fn string) bool { return fn == "SendTimeout" || fn == "SendContext" }

type callResult struct {
	ok  bool
	val int
	pan any
}

// expectation: +1 must be true, -1 must be false, 0 either; block = must not return before the harness acts
func expect(c TCase) (outcome int, block bool, why string) {
	unlimited := c.Limit == "neg" || c.Limit == "zero" || c.Limit == "never" || c.Limit == "long"
	var ready bool // the channel operation can complete without a peer
	if isSend(c.Fn) {
		ready = c.Fill < c.Cap
	} else {
		ready = c.Fill > 0 || c.Closed
	}
	recvClosedEmpty := !isSend(c.Fn) && c.Closed && c.Fill == 0
	switch {
	case recvClosedEmpty:
		return -1, false, "closed and drained channel counts as false"
	case ready && unlimited:
		return +1, false, "operation can complete immediately and nothing limits the call"
	case ready:
		return 0, false, "operation and limit may both be ready" // short / race / before / later
	case c.Peer == "closer":
		return -1, false, "nothing is ever sent: whether the limit or the close comes first, the call must report false"
	case c.Peer == "delayed":
		if unlimited {
			return +1, false, "peer arrives eventually and nothing limits the call"
		}
		return 0, false, "peer races with the limit"
	case unlimited:
		return +1, true, "no peer until the harness acts: the call must wait"
	case c.Limit == "short" || c.Limit == "before" || c.Limit == "tiny":
		return -1, false, "nobody ever acts, the limit must end the call with false"
	case c.Limit == "later":
		return -1, true, "nobody ever acts; the call must wait for the cancellation and then return false"
	}
	return 0, false, "racing"
}

func RunTimed(c TCase) pbt.Outcome {
	ch := make(chan int, c.Cap)
	for i := 1; i <= c.Fill; i++ {
		ch <- i
	}
	if c.Closed && !isSend(c.Fn) {
		close(ch)
	}
	ctx, cancel := context.WithCancel(context.Background())
	defer cancel()
	var timeout time.Duration
	switch c.Limit {
	case "neg":
		timeout = -time.Duration(1+c.DelayUs) * time.Microsecond
	case "zero":
		timeout = 0
	case "short":
		timeout = time.Millisecond
	case "tiny":
		timeout = time.Duration(1+c.DelayUs) * 100 * time.Nanosecond // 0.1 .. 6 us: of the order of a spin phase
	case "long":
		timeout = time.Hour
	case "race":
		timeout = time.Duration(1+c.DelayUs) * time.Microsecond
		if c.Fn == "SendContext" || c.Fn == "RecvContext" {
			go func() { time.Sleep(timeout); cancel() }()
		}
	case "before":
		cancel()
	}
	want, mustBlock, why := expect(c)

	// ---- peer
	var peerGot []int // values a receiving peer took
	var peerMu sync.Mutex
	gate := make(chan struct{})
	peerDone := make(chan struct{})
	var peerSent atomic.Bool
	stopPeer := make(chan struct{})
	switch {
	case c.Peer == "none":
		close(peerDone)
	case isSend(c.Fn): // receiving peer: takes ONE value when allowed (that is enough to free one blocked send)
		go func() {
			defer close(peerDone)
			if c.Peer == "gated" {
				select {
				case <-gate:
				case <-stopPeer:
					return
				}
			} else {
				time.Sleep(time.Duration(c.PeerDelayUs) * time.Microsecond)
			}
			select {
			case v := <-ch:
				peerMu.Lock()
				peerGot = append(peerGot, v)
				peerMu.Unlock()
			case <-stopPeer:
			}
		}()
	case c.Peer == "closer":
		go func() {
			defer close(peerDone)
			time.Sleep(time.Duration(c.PeerDelayUs) * time.Microsecond)
			close(ch)
		}()
	default: // sending peer: sends ONE value 2000 when allowed
		go func() {
			defer close(peerDone)
			if c.Peer == "gated" {
				select {
				case <-gate:
				case <-stopPeer:
					return
				}
			} else {
				time.Sleep(time.Duration(c.PeerDelayUs) * time.Microsecond)
			}
			select {
			case ch <- 2000:
				peerSent.Store(true)
			case <-stopPeer:
			}
		}()
	}

	// ---- the call under test
	done := make(chan callResult, 1)
	go func() {
		var r callResult
		defer func() { r.pan = recover(); done <- r }()
		switch c.Fn {
		case "SendTimeout":
			r.ok = chans.SendTimeout(ch, sentVal, timeout)
		case "SendContext":
			r.ok = chans.SendContext(ctx, ch, sentVal)
		case "RecvTimeout":
			r.val, r.ok = chans.RecvTimeout(ch, timeout)
		case "RecvContext":
			r.val, r.ok = chans.RecvContext(ctx, (<-chan int)(ch))
		}
	}()
	var res callResult
	finished := false
	isDone := func() bool {
		if finished {
			return true
		}
		select {
		case res = <-done:
			finished = true
			return true
		default:
			return false
		}
	}
	cleanup := func() { close(stopPeer); <-peerDone }
	label := ""
	if mustBlock {
		state, fin, timedOut := gstate.WaitBlocked("chans."+c.Fn, isDone, 20*time.Second)
		if fin {
			cleanup()
			return pbt.Fail("%s returned (%d,%v) although %s (nobody had acted yet: cap=%d fill=%d limit=%s peer=%s)", c.Fn, res.val, res.ok, why, c.Cap, c.Fill, c.Limit, c.Peer)
		}
		if timedOut {
			cleanup()
			return pbt.Outcome{Inconclusive: "call neither returned nor was seen blocked within 20s"}
		}
		_ = state
		label = "observed-blocked-then-released"
		// now the harness acts: cancel, open the gate, or play the missing peer itself
		switch {
		case c.Limit == "later":
			cancel()
		case c.Peer == "gated":
			close(gate)
		case isSend(c.Fn):
			v := <-ch // harness receives: frees one slot / takes the handed value
			peerMu.Lock()
			peerGot = append(peerGot, v)
			peerMu.Unlock()
		default:
			ch <- 2000
			peerSent.Store(true)
		}
	}
	// wait for the call to return; a call that never returns is judged from its goroutine state
	deadline := time.Now().Add(30 * time.Second)
	early := time.Now().Add(60 * time.Millisecond)
	for !isDone() {
		if c.Limit == "tiny" && time.Now().After(early) {
			// a POSITIVE limit waits in a select with a timer; a goroutine in a bare channel operation (seen twice) is on the
			// wait-without-limit path: decided from the state, not from the clock
			early = time.Now().Add(60 * time.Millisecond)
			if gs := gstate.With("chans." + c.Fn); len(gs) > 0 && (gs[0].State == "chan send" || gs[0].State == "chan receive") {
				id, st := gs[0].ID, gs[0].State
				time.Sleep(3 * time.Millisecond)
				if !isDone() && gstate.StateOf(id) == st {
					cleanup()
					return pbt.Fail("%s with a positive limit of %v is blocked in a bare %q (no timer involved): it waits without limit", c.Fn, timeout, st)
				}
			}
		}
		if time.Now().After(deadline) {
			gs := gstate.With("chans." + c.Fn)
			st := ""
			if len(gs) > 0 {
				st = gs[0].State
			}
			cleanup()
			if (st == "chan send" || st == "chan receive") && (c.Limit == "short" || c.Limit == "race" || c.Limit == "before" || c.Limit == "later") {
				return pbt.Fail("%s is blocked in a bare %q although its limit (%s) has long passed and nobody will ever act: the limit is ignored", c.Fn, st, c.Limit)
			}
			return pbt.Outcome{Inconclusive: fmt.Sprintf("%s did not return within 30s (goroutine state %q)", c.Fn, st)}
		}
		time.Sleep(20 * time.Microsecond)
	}
	cleanup()
	if res.pan != nil {
		return pbt.Fail("%s panicked: %v", c.Fn, res.pan)
	}
	desc := fmt.Sprintf("%s(cap=%d fill=%d closed=%v limit=%s peer=%s)", c.Fn, c.Cap, c.Fill, c.Closed, c.Limit, c.Peer)
	if want == +1 && !res.ok {
		return pbt.Fail("%s returned false, but %s", desc, why)
	}
	if want == -1 && res.ok {
		return pbt.Fail("%s returned true (value %d), but %s", desc, res.val, why)
	}
	// ---- conservation: account for every value
	var rest []int
drain:
	for {
		select {
		case v, ok := <-ch:
			if !ok {
				break drain
			}
			rest = append(rest, v)
		default:
			break drain
		}
	}
	all := append(append([]int{}, peerGot...), rest...)
	count := func(x int) int {
		n := 0
		for _, v := range all {
			if v == x {
				n++
			}
		}
		return n
	}
	if isSend(c.Fn) {
		n := count(sentVal)
		if res.ok && n != 1 {
			return pbt.Fail("%s returned true but the value is found %d times on the far side (received by peer: %v, left in buffer: %v)", desc, n, peerGot, rest)
		}
		if !res.ok && n != 0 {
			return pbt.Fail("%s returned false but the value WAS sent (received by peer: %v, left in buffer: %v)", desc, peerGot, rest)
		}
		// pre-filled values: still there exactly once, in order
		next := 1
		for _, v := range all {
			if v == sentVal {
				continue
			}
			if v != next {
				return pbt.Fail("%s: pre-filled values disturbed: far side has %v (peer) + %v (buffer)", desc, peerGot, rest)
			}
			next++
		}
		if next != c.Fill+1 {
			return pbt.Fail("%s: %d of %d pre-filled values lost: far side has %v (peer) + %v (buffer)", desc, c.Fill+1-next, c.Fill, peerGot, rest)
		}
	} else {
		// receiver: values available = 1..Fill then (if the peer managed to send) 2000
		avail := []int{}
		for i := 1; i <= c.Fill; i++ {
			avail = append(avail, i)
		}
		if peerSent.Load() {
			avail = append(avail, 2000)
		}
		if res.ok {
			if len(avail) == 0 || res.val != avail[0] {
				return pbt.Fail("%s returned (%d,true) but the head of the channel was %v", desc, res.val, avail)
			}
			avail = avail[1:]
		} else if res.val != 0 {
			return pbt.Fail("%s returned (%d,false): a failed receive must return the zero value", desc, res.val)
		}
		if fmt.Sprint(rest) != fmt.Sprint(avail) {
			return pbt.Fail("%s returned (%d,%v); the channel should still hold %v but holds %v (a value was consumed and dropped, or invented)", desc, res.val, res.ok, avail, rest)
		}
	}
	out := pbt.Outcome{Evals: 1}
	out.NonTrivial = want <= 0 || mustBlock
	out.Labels = append(out.Labels, c.Fn, "limit="+c.Limit, "peer="+c.Peer)
	switch want {
	case +1:
		out.Labels = append(out.Labels, "forced-true")
	case -1:
		out.Labels = append(out.Labels, "forced-false")
	default:
		if res.ok {
			out.Labels = append(out.Labels, "either:got-true")
		} else {
			out.Labels = append(out.Labels, "either:got-false")
		}
	}
	if label != "" {
		out.Labels = append(out.Labels, label)
	}
	return out
}

func genTimed(t *rapid.T) TCase {
	c := TCase{Fn: rapid.SampledFrom([]string{"SendTimeout", "SendContext", "RecvTimeout", "RecvContext"}).Draw(t, "fn")}
	c.Cap = rapid.SampledFrom([]int{0, 0, 1, 2, 3}).Draw(t, "cap")
	c.Fill = rapid.IntRange(0, c.Cap).Draw(t, "fill")
	if !isSend(c.Fn) {
		c.Closed = rapid.IntRange(0, 3).Draw(t, "closed") == 0
	}
	if c.Fn == "SendTimeout" || c.Fn == "RecvTimeout" {
		c.Limit = rapid.SampledFrom([]string{"neg", "zero", "short", "long", "race", "race", "tiny", "tiny"}).Draw(t, "limit")
	} else {
		c.Limit = rapid.SampledFrom([]string{"never", "before", "later", "race", "race"}).Draw(t, "limit")
	}
	c.Peer = rapid.SampledFrom([]string{"none", "gated", "delayed"}).Draw(t, "peer")
	if c.Closed {
		c.Peer = "none" // nobody may send on a closed channel
	}
	if c.Limit == "race" || c.Limit == "neg" {
		c.DelayUs = rapid.SampledFrom([]int{0, 20, 80, 300}).Draw(t, "delay")
	}
	if c.Limit == "tiny" {
		c.DelayUs = rapid.IntRange(0, 59).Draw(t, "tenths")
	}
	if !isSend(c.Fn) && !c.Closed && c.Fill == 0 && rapid.IntRange(0, 3).Draw(t, "closer") == 0 {
		c.Peer = "closer"
		if c.Limit == "race" { // make close and expiry land together
			c.PeerDelayUs = c.DelayUs + rapid.SampledFrom([]int{-2, 0, 0, 1, 3, 50}).Draw(t, "skew")
			if c.PeerDelayUs < 0 {
				c.PeerDelayUs = 0
			}
		}
	}
	if c.Peer == "delayed" || (c.Peer == "closer" && c.Limit != "race") {
		c.PeerDelayUs = rapid.SampledFrom([]int{0, 20, 80, 300}).Draw(t, "peerdelay")
	}
	if c.Limit == "long" && c.Peer == "none" {
		// a blocked 1h call is released by the harness itself after it has been observed blocked
	}
	return c
}

var specTimed = pbt.Register(&pbt.Spec[TCase]{
	Property: "C19", Name: "C19.timed",
	Rule: "E5 scenarios: fn in {SendTimeout,SendContext,RecvTimeout,RecvContext} x capacity 0..3 x fill x closed? x limit {<=0, 0.1..6 us (a positive limit seen waiting in a bare channel operation = waits without limit), 1ms, 1h, racing timer; ctx never/before/cancelled-once-blocked/racing} x peer {none, gated, delayed-racing, closing the channel around the expiry (receivers)}. " +
		"Oracle: conservation on the far side (Send true <=> the value is found exactly once in peer receptions + buffer, false <=> not found; Recv (v,true) <=> v was the FIFO head and left the channel, (zero,false) <=> contents unchanged), " +
		"forced outcomes in the asymmetric classes (space & unlimited => true; nobody ever acts & 1ms/cancelled => false; closed+drained => false), 'must not return yet' asserted only while the harness itself withholds the peer " +
		"(established from the call's goroutine state, never from a timer); either outcome where operation and limit can both be ready; non-trivial = forced-false, either-outcome or must-block class",
	Gen: genTimed, Run: RunTimed, Quick: 1500, Thorough: 6000, Crashy: true, Retries: 20,
	Assumes: []string{"Go runtime timers and select fairness are not controlled; racing classes accept either outcome and only check conservation"},
})

func TestC19Timed(t *testing.T) { pbt.Check(t, specTimed) }
