package c19

import (
	"fmt"
	"runtime"
	"sync"
	"sync/atomic"
	"testing"

	"gopkg.in/typ.v4/chans"
	"pgregory.net/rapid"
	"verifharness/internal/pbt"
)

// GCase: the queued values are POINTERS whose referents nothing but the channel refers to (the harness keeps serial
// numbers only), drained by RecvQueued / RecvQueuedFull while another goroutine runs garbage collections and allocates
// same-sized garbage all the time. Every received pointer must still lead to the cell that was sent.
type GCase struct {
	Full  bool `json:"full"`
	Fill  int  `json:"fill"`
	Limit int  `json:"limit"`
	Reps  int  `json:"reps"`
	Procs int  `json:"procs"`
	// Workers: that many goroutines drain channels of their own at the same time (more workers than processors: a
	// drainer is descheduled in the middle of its call for whole collection cycles)
	Workers int `json:"workers,omitempty"`
}

type gcell struct {
	serial int
	check  int
	next   *gcell // makes the cell a pointer-bearing object itself
	pad    [3]int
}

func RunGCDrain(c GCase) pbt.Outcome {
	if c.Procs > 0 {
		defer runtime.GOMAXPROCS(runtime.GOMAXPROCS(c.Procs))
	}
	var stop atomic.Bool
	done := make(chan struct{})
	var sink atomic.Pointer[gcell]
	go func() {
		defer close(done)
		for !stop.Load() {
			runtime.GC()
			for i := 0; i < 2000; i++ {
				sink.Store(&gcell{serial: -7, check: 7, pad: [3]int{-1, -1, -1}})
			}
		}
	}()
	defer func() { stop.Store(true); <-done }()
	workers := max(c.Workers, 1)
	outs := make([]pbt.Outcome, workers)
	var wg sync.WaitGroup
	var failed atomic.Bool
	for w := 0; w < workers; w++ {
		w := w
		wg.Add(1)
		go func() {
			defer wg.Done()
			outs[w] = gcDrainWorker(c, w, &failed)
			if outs[w].Violation != "" {
				failed.Store(true)
			}
		}()
	}
	wg.Wait()
	for _, o := range outs {
		if o.Violation != "" {
			return o
		}
	}
	return pbt.Outcome{Evals: c.Reps * workers, NonTrivial: c.Fill >= 64, Labels: []string{fmt.Sprintf("fill>=%d", c.Fill/512*512), fmt.Sprintf("workers=%d", workers)}}
}

func gcDrainWorker(c GCase, w int, failed *atomic.Bool) pbt.Outcome {
	for rep := 0; rep < c.Reps && !failed.Load(); rep++ {
		ch := make(chan *gcell, c.Fill)
		base := (w*1000 + rep) * 1_000_000
		for i := 0; i < c.Fill; i++ {
			ch <- &gcell{serial: base + i, check: ^(base + i), pad: [3]int{i, i, i}}
		}
		var got []*gcell
		if c.Full {
			buf := make([]*gcell, c.Limit)
			n := chans.RecvQueuedFull(ch, buf)
			got = buf[:n]
		} else {
			got = chans.RecvQueued(ch, c.Limit)
		}
		want := min(c.Fill, c.Limit)
		if len(got) != want {
			return pbt.Fail("repetition %d: %d pointer values received, want %d", rep, len(got), want)
		}
		runtime.Gosched()
		for i, p := range got {
			if p == nil || p.serial != base+i || p.check != ^(base+i) || p.pad != [3]int{i, i, i} {
				desc := "nil"
				if p != nil {
					desc = fmt.Sprintf("{serial %d check %d pad %v}", p.serial, p.check, p.pad)
				}
				return pbt.Fail("repetition %d: received pointer %d of %d leads to %s, sent was the cell with serial %d (nothing but the channel referred to the cells; collections ran meanwhile)", rep, i, want, desc, base+i)
			}
		}
	}
	return pbt.Outcome{}
}

var specGCDrain = pbt.Register(&pbt.Spec[GCase]{
	Property: "C19", Name: "C19.gcdrain",
	Rule: "RecvQueued / RecvQueuedFull 1..24 goroutines at once, each draining 8..16384 queued POINTER values whose cells only the channel refers to, while another goroutine runs garbage collections and allocates same-sized garbage continuously, 30..300 repetitions: " +
		"every received pointer must lead to the very cell that was sent (serial, checksum, padding); a runtime 'bad pointer' death is a violation; non-trivial = >= 64 values per drain",
	Gen: func(t *rapid.T) GCase {
		fill := rapid.SampledFrom([]int{8, 64, 600, 2048, 8192, 16384}).Draw(t, "fill")
		reps := 300
		if fill > 1000 {
			reps = 30
		}
		return GCase{Full: rapid.IntRange(0, 2).Draw(t, "full") == 1, Fill: fill, Limit: rapid.SampledFrom([]int{fill, fill + 10, fill / 2}).Draw(t, "limit"), Reps: reps,
			Procs: rapid.SampledFrom([]int{1, 2, 2, 4, 16}).Draw(t, "procs"), Workers: rapid.SampledFrom([]int{1, 8, 24, 24}).Draw(t, "workers")}
	},
	Run: RunGCDrain, Quick: 20, Thorough: 120, Crashy: true, Retries: 20, CaseCPU: 120e9,
})

func TestC19GCDrain(t *testing.T) { pbt.Check(t, specGCDrain) }
