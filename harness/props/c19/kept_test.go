package c19

import (
	"fmt"
	"runtime"
	"strconv"
	"testing"

	"pgregory.net/rapid"

	"gopkg.in/typ.v4/chans"
	"verifharness/internal/pbt"
)

// KStep: one step of a history of RecvQueued / RecvQueuedFull calls whose results the caller keeps.
type KStep struct {
	K     string `json:"k"`            // send | recv | append | reslice | gc
	Ch    int    `json:"ch,omitempty"` // channel index (the last channel carries strings)
	N     int    `json:"n,omitempty"`  // send: how many; recv: limit; append: how many
	Full  bool   `json:"full,omitempty"`
	Which int    `json:"which,omitempty"` // append / reslice: index into the kept results (modulo)
}

type KCase struct {
	Caps  []int   `json:"caps"`
	Steps []KStep `json:"steps"`
}

type keptResult struct {
	desc  string
	check func() string // "" = still exactly what was returned
	// scribble writes into what the caller owns beyond len: append n values / fill the spare capacity
	appendN func(n int)
	reslice func()
	spare   int
}

// kchan is one channel with its model queue; values are serials rendered through enc.
type kchan[V comparable] struct {
	ch    chan V
	queue []V
	enc   func(int) V
	junk  V
}

func (k *kchan[V]) send(serial *int, n int) int {
	sent := 0
	for i := 0; i < n && len(k.queue) < cap(k.ch); i++ {
		*serial++
		v := k.enc(*serial)
		k.ch <- v
		k.queue = append(k.queue, v)
		sent++
	}
	return sent
}

func (k *kchan[V]) recv(limit int, full bool, spareCap int) (*keptResult, string) {
	want := min(len(k.queue), max(limit, 0))
	exp := append([]V(nil), k.queue[:want]...)
	k.queue = k.queue[want:]
	var got []V
	if full {
		backing := make([]V, max(limit, 0)+spareCap)
		n := chans.RecvQueuedFull(k.ch, backing[:max(limit, 0)])
		if n < 0 || n > max(limit, 0) {
			return nil, fmt.Sprintf("RecvQueuedFull(len(buf)=%d) returned %d", limit, n)
		}
		got = backing[:n]
	} else {
		got = chans.RecvQueued(k.ch, limit)
	}
	desc := fmt.Sprintf("RecvQueued(max=%d)", limit)
	if full {
		desc = fmt.Sprintf("RecvQueuedFull(len(buf)=%d)", limit)
	}
	r := &keptResult{desc: desc, spare: cap(got) - len(got)}
	orig := got
	r.check = func() string {
		if len(orig) != len(exp) {
			return fmt.Sprintf("%d values, want the %d that were queued", len(orig), len(exp))
		}
		for i := range exp {
			if orig[i] != exp[i] {
				return fmt.Sprintf("position %d holds %v, but %v was received there", i, orig[i], exp[i])
			}
		}
		return ""
	}
	junk := k.junk
	r.appendN = func(n int) {
		x := orig
		for i := 0; i < n; i++ {
			x = append(x, junk)
		}
		_ = x
	}
	r.reslice = func() {
		x := orig[:cap(orig)]
		for i := len(orig); i < len(x); i++ {
			x[i] = junk
		}
	}
	if len(k.ch) != len(k.queue) {
		return r, fmt.Sprintf("%s left %d values in the channel, want %d", desc, len(k.ch), len(k.queue))
	}
	return r, ""
}

func RunKept(c KCase) (out pbt.Outcome) {
	defer func() {
		if p := recover(); p != nil {
			out = pbt.Fail("a history of RecvQueued* calls with kept results panicked: %v", p)
		}
	}()
	serial := 0
	type anychan interface {
		send(*int, int) int
		recv(int, bool, int) (*keptResult, string)
	}
	chs := make([]anychan, len(c.Caps))
	for i, cp := range c.Caps {
		if i == len(c.Caps)-1 && i > 0 {
			chs[i] = &kchan[string]{ch: make(chan string, cp), enc: func(s int) string { return "v" + strconv.Itoa(s) }, junk: "JUNK"}
		} else {
			chs[i] = &kchan[int]{ch: make(chan int, cp), enc: func(s int) int { return s * 7 }, junk: -999}
		}
	}
	var kept []*keptResult
	recvs, scribbles, big, afterScribble := 0, 0, 0, 0
	verify := func(step int) string {
		for i, r := range kept {
			if msg := r.check(); msg != "" {
				return fmt.Sprintf("after step %d the result of call %d (%s), which the caller kept, no longer holds what was received: %s", step, i, r.desc, msg)
			}
		}
		return ""
	}
	for si, s := range c.Steps {
		switch s.K {
		case "send":
			chs[s.Ch%len(chs)].send(&serial, s.N)
		case "recv":
			r, msg := chs[s.Ch%len(chs)].recv(s.N, s.Full, s.Which%3)
			if msg != "" {
				return pbt.Fail("step %d: %s", si, msg)
			}
			if m := r.check(); m != "" {
				return pbt.Fail("step %d: %s returned %s", si, r.desc, m)
			}
			kept = append(kept, r)
			recvs++
			if scribbles > 0 {
				afterScribble++
			}
			if s.N > 64 {
				big++
			}
		case "append":
			if len(kept) > 0 {
				kept[s.Which%len(kept)].appendN(s.N)
				scribbles++
			}
		case "reslice":
			if len(kept) > 0 {
				kept[s.Which%len(kept)].reslice()
				scribbles++
			}
		case "gc":
			runtime.GC()
		}
		if msg := verify(si); msg != "" {
			return pbt.Fail("%s", msg)
		}
	}
	out = pbt.Outcome{Evals: recvs, NonTrivial: recvs >= 3}
	if scribbles > 0 && afterScribble > 0 {
		out.Labels = append(out.Labels, "call after the caller appended to / resliced an earlier result")
	}
	if big > 0 {
		out.Labels = append(out.Labels, "drain of more than 64 values")
	}
	out.Labels = append(out.Labels, fmt.Sprintf("kept-results=%d", min(recvs/4*4, 16)))
	return out
}

var specKept = pbt.Register(&pbt.Spec[KCase]{
	Property: "C19", Name: "C19.kept",
	Rule: "histories of 2..46 steps over 1..3 channels (chan int and chan string, capacities 4..1100): send more values, RecvQueued / RecvQueuedFull with limits 0..1200, the caller appending to an earlier result or writing into its spare capacity, a GC; " +
		"oracle: a FIFO model per channel, and every result the caller kept still holds exactly the values received by that call after every later step (a result is the caller's: later calls and writes into another result's spare capacity must not change it); non-trivial = >=3 receiving calls",
	Gen: func(t *rapid.T) KCase {
		nch := rapid.IntRange(1, 3).Draw(t, "channels")
		c := KCase{}
		for i := 0; i < nch; i++ {
			c.Caps = append(c.Caps, rapid.SampledFrom([]int{4, 16, 70, 130, 300, 1100}).Draw(t, "cap"))
		}
		c.Steps = pbt.OpsOf(t, rapid.Custom(func(t *rapid.T) KStep {
			ch := rapid.IntRange(0, nch-1).Draw(t, "ch")
			switch rapid.SampledFrom([]string{"send", "send", "recv", "recv", "recv", "append", "reslice", "gc"}).Draw(t, "k") {
			case "send":
				return KStep{K: "send", Ch: ch, N: rapid.SampledFrom([]int{1, 3, 20, 66, 129, 260, 1100}).Draw(t, "n")}
			case "recv":
				return KStep{K: "recv", Ch: ch, N: rapid.SampledFrom([]int{0, 1, 2, 5, 31, 32, 33, 64, 65, 128, 257, 1200}).Draw(t, "limit"),
					Full: rapid.IntRange(0, 3).Draw(t, "full") == 2, Which: rapid.IntRange(0, 2).Draw(t, "spare")}
			case "append":
				return KStep{K: "append", Which: rapid.IntRange(0, 39).Draw(t, "which"), N: rapid.SampledFrom([]int{1, 2, 8, 100}).Draw(t, "n")}
			case "reslice":
				return KStep{K: "reslice", Which: rapid.IntRange(0, 39).Draw(t, "which")}
			default:
				if rapid.IntRange(0, 5).Draw(t, "gc?") == 3 {
					return KStep{K: "gc"}
				}
				return KStep{K: "send", Ch: ch, N: 70}
			}
		}), []int{2, 6, 12, 20}, "steps")
		return c
	},
	Run: RunKept, Quick: 4000, Thorough: 60000, NoRecover: false,
})

func TestC19Kept(t *testing.T) { pbt.Check(t, specKept) }
