package c19

import (
	"fmt"
	"runtime"
	"sync/atomic"
	"testing"
	"time"

	"gopkg.in/typ.v4/chans"
	"pgregory.net/rapid"
	"verifharness/internal/gstate"
	"verifharness/internal/pbt"
)

// TinyCase: thousands of SendTimeout / RecvTimeout calls with positive limits of 0.1..6 us on a channel nobody else
// touches: every call must report false (nothing is sent or received) and come back. A call seen waiting in a BARE
// channel operation (no timer involved; same goroutine, same state, twice) is on the wait-without-limit path.
type TinyCase struct {
	Recv  bool `json:"recv"`
	Calls int  `json:"calls"`
	Cap   int  `json:"cap"` // senders: a full channel of that capacity; receivers: an empty one
	Procs int  `json:"procs"`
}

func RunTiny(c TinyCase) pbt.Outcome {
	if c.Procs > 0 {
		defer runtime.GOMAXPROCS(runtime.GOMAXPROCS(c.Procs))
	}
	ch := make(chan int, c.Cap)
	if !c.Recv {
		for i := 0; i < c.Cap; i++ {
			ch <- -1
		}
	}
	var progress atomic.Int64
	var gid atomic.Pointer[string]
	res := make(chan string, 1)
	go func() {
		id := gstate.GoID()
		gid.Store(&id)
		for i := 0; i < c.Calls; i++ {
			d := time.Duration(1+(i*37)%60) * 100 * time.Nanosecond
			if c.Recv {
				if v, ok := chans.RecvTimeout((<-chan int)(ch), d); ok || v != 0 {
					res <- fmt.Sprintf("call %d: RecvTimeout(%v) on a channel nobody sends on returned (%d,%v)", i, d, v, ok)
					return
				}
			} else if chans.SendTimeout(ch, i, d) {
				res <- fmt.Sprintf("call %d: SendTimeout(%v) on a full channel nobody receives from returned true", i, d)
				return
			}
			progress.Store(int64(i + 1))
		}
		res <- ""
	}()
	for gid.Load() == nil {
		runtime.Gosched()
	}
	deadline := time.Now().Add(60 * time.Second)
	for {
		select {
		case msg := <-res:
			if msg != "" {
				return pbt.Fail("%s", msg)
			}
			if !c.Recv && len(ch) != c.Cap {
				return pbt.Fail("after %d SendTimeout calls that all reported false the channel holds %d values, it held %d", c.Calls, len(ch), c.Cap)
			}
			fnName := map[bool]string{true: "RecvTimeout", false: "SendTimeout"}[c.Recv]
			return pbt.Outcome{Evals: c.Calls, NonTrivial: c.Calls >= 1000, Labels: []string{fnName}}
		case <-time.After(40 * time.Millisecond):
			p0 := progress.Load()
			st := gstate.StateOf(*gid.Load())
			if st == "chan send" || st == "chan receive" {
				time.Sleep(3 * time.Millisecond)
				if progress.Load() == p0 && gstate.StateOf(*gid.Load()) == st {
					// free the goroutine, then report
					if c.Recv {
						close(ch)
					} else {
						for len(ch) > 0 {
							<-ch
						}
					}
					return pbt.Fail("call number %d with a positive limit of a few hundred nanoseconds is blocked in a bare %q (no timer involved): it waits without limit, nobody will ever act", p0+1, st)
				}
			}
			if time.Now().After(deadline) {
				return pbt.Outcome{Inconclusive: "the calls neither finished nor were seen blocked in a bare channel operation within 60s"}
			}
		}
	}
}

var specTiny = pbt.Register(&pbt.Spec[TinyCase]{
	Property: "C19", Name: "C19.tiny",
	Rule: "1000..4000 SendTimeout (on a full channel nobody receives from) or RecvTimeout (on an empty channel nobody sends on) calls with positive limits sweeping 0.1..6 us: each reports false, the channel is untouched, " +
		"and each comes back - a call seen in a bare channel operation twice (no timer involved) waits without limit; non-trivial = >= 1000 calls",
	Gen: func(t *rapid.T) TinyCase {
		return TinyCase{Recv: rapid.Bool().Draw(t, "recv"), Calls: rapid.SampledFrom([]int{1000, 4000}).Draw(t, "calls"), Cap: rapid.IntRange(0, 2).Draw(t, "cap"),
			Procs: rapid.SampledFrom([]int{1, 2, 4, 16}).Draw(t, "procs")}
	},
	Run: RunTiny, Quick: 10, Thorough: 60, Crashy: true, Retries: 20, CaseCPU: 120e9,
})

func TestC19Tiny(t *testing.T) { pbt.Check(t, specTiny) }
