// Package c19 decides C19: the channel helpers never lose, duplicate or
// invent a value.
package c19

import (
	"fmt"
	"runtime"
	"sync"
	"sync/atomic"
	"testing"
	"time"

	"pgregory.net/rapid"

	"gopkg.in/typ.v4/chans"
	"verifharness/internal/gstate"
	"verifharness/internal/pbt"
)

// QCase: one point of the RecvQueued / RecvQueuedFull grid.
type QCase struct {
	Full   bool `json:"full"` // RecvQueuedFull (Limit = len(buf)) instead of RecvQueued
	Cap    int  `json:"cap"`
	Fill   int  `json:"fill"`
	Closed bool `json:"closed"`
	Limit  int  `json:"limit"`
	Kind   int  `json:"kind"`            // 0 chan int, 1 <-chan int, 2 named channel type
	Spare  int  `json:"spare,omitempty"` // RecvQueuedFull: spare capacity behind the buffer (cap(buf) = Limit+Spare)
}

type namedChan chan int

// runQueuedEmpty: the zero-sized element type chan struct{}.
func runQueuedEmpty(c QCase) pbt.Outcome {
	ch := make(chan struct{}, c.Cap)
	for i := 0; i < c.Fill; i++ {
		ch <- struct{}{}
	}
	if c.Closed {
		close(ch)
	}
	var n int
	var pan any
	func() {
		defer func() { pan = recover() }()
		if c.Full {
			n = chans.RecvQueuedFull(ch, make([]struct{}, max(c.Limit, 0)))
		} else {
			n = len(chans.RecvQueued(ch, c.Limit))
		}
	}()
	if pan != nil {
		return pbt.Fail("%s on a chan struct{} (cap=%d fill=%d closed=%v) panicked: %v", fn(c), c.Cap, c.Fill, c.Closed, pan)
	}
	want := min(c.Fill, max(c.Limit, 0))
	if n != want {
		return pbt.Fail("%s on a chan struct{} (cap=%d fill=%d closed=%v) returned %d values, want %d", fn(c), c.Cap, c.Fill, c.Closed, n, want)
	}
	if len(ch) != c.Fill-want {
		return pbt.Fail("after %s on a chan struct{} %d values are left, want %d", fn(c), len(ch), c.Fill-want)
	}
	return pbt.Outcome{Evals: 1, NonTrivial: c.Closed && c.Fill >= 1 && c.Limit > c.Fill, Labels: []string{"zero-sized-elements"}}
}

// element types of 4104 bytes, 8 KiB and 64 KiB - 8 (the largest a channel takes is 64 KiB - 1)
type big4k [513]int64
type big8k [1024]int64
type big64k [8191]int64

func runQueuedBig[E any](c QCase, mk func(int) E, un func(E) int, name string) pbt.Outcome {
	ch := make(chan E, c.Cap)
	for i := 1; i <= c.Fill; i++ {
		ch <- mk(i * 7)
	}
	if c.Closed {
		close(ch)
	}
	var got []E
	var pan any
	func() {
		defer func() { pan = recover() }()
		if c.Full {
			buf := make([]E, max(c.Limit, 0))
			n := chans.RecvQueuedFull(ch, buf)
			got = buf[:n]
		} else {
			got = chans.RecvQueued(ch, c.Limit)
		}
	}()
	if pan != nil {
		return pbt.Fail("%s on a chan %s (cap=%d fill=%d closed=%v) panicked: %v", fn(c), name, c.Cap, c.Fill, c.Closed, pan)
	}
	want := min(c.Fill, max(c.Limit, 0))
	if len(got) != want {
		return pbt.Fail("%s on a chan %s (cap=%d fill=%d closed=%v) returned %d values, want exactly the %d queued ones (nothing added that was never sent)", fn(c), name, c.Cap, c.Fill, c.Closed, len(got), want)
	}
	for i, v := range got {
		if un(v) != (i+1)*7 {
			return pbt.Fail("%s on a chan %s returned %d at position %d, want %d", fn(c), name, un(v), i, (i+1)*7)
		}
	}
	if len(ch) != c.Fill-want {
		return pbt.Fail("after %s on a chan %s %d values are left, want %d", fn(c), name, len(ch), c.Fill-want)
	}
	return pbt.Outcome{Evals: 1, NonTrivial: c.Closed && c.Fill >= 1 && c.Limit > c.Fill, Labels: []string{"elements-of-" + name}}
}

func RunQueued(c QCase) pbt.Outcome {
	switch c.Kind {
	case 3:
		return runQueuedEmpty(c)
	case 4:
		return runQueuedBig(c, func(v int) big4k { var b big4k; b[0], b[512] = int64(v), int64(v); return b }, func(b big4k) int {
			if b[0] != b[512] {
				return -1
			}
			return int(b[0])
		}, "[513]int64")
	case 5:
		return runQueuedBig(c, func(v int) big8k { var b big8k; b[0], b[1023] = int64(v), int64(v); return b }, func(b big8k) int {
			if b[0] != b[1023] {
				return -1
			}
			return int(b[0])
		}, "[1024]int64")
	case 6:
		return runQueuedBig(c, func(v int) big64k { var b big64k; b[0], b[8190] = int64(v), int64(v); return b }, func(b big64k) int {
			if b[0] != b[8190] {
				return -1
			}
			return int(b[0])
		}, "[8191]int64")
	}
	ch := make(chan int, c.Cap)
	for i := 1; i <= c.Fill; i++ {
		ch <- i * 7 // serial numbers, never the zero value
	}
	if c.Closed {
		close(ch)
	}
	type result struct {
		vals []int
		n    int
		buf  []int
		pan  any
	}
	done := make(chan result, 1)
	go func() {
		var r result
		defer func() {
			if p := recover(); p != nil {
				r.pan = p
			}
			done <- r
		}()
		if c.Full {
			backing := make([]int, max(c.Limit, 0)+c.Spare)
			for i := range backing {
				backing[i] = -1 // sentinel: untouched slots (and the spare capacity) must stay untouched
			}
			buf := backing[:max(c.Limit, 0)]
			defer func() {
				for i := len(buf); i < len(backing); i++ {
					if backing[i] != -1 && r.pan == nil {
						r.pan = fmt.Sprintf("wrote %d into the spare capacity behind the buffer (index %d, len(buf)=%d)", backing[i], i, len(buf))
					}
				}
			}()
			switch c.Kind {
			case 0:
				r.n = chans.RecvQueuedFull(ch, buf)
			case 1:
				r.n = chans.RecvQueuedFull((<-chan int)(ch), buf)
			default:
				r.n = chans.RecvQueuedFull(namedChan(ch), buf)
			}
			r.buf = buf
			if r.n >= 0 && r.n <= len(buf) {
				r.vals = buf[:r.n]
			}
		} else {
			switch c.Kind {
			case 0:
				r.vals = chans.RecvQueued(ch, c.Limit)
			case 1:
				r.vals = chans.RecvQueued((<-chan int)(ch), c.Limit)
			default:
				r.vals = chans.RecvQueued(namedChan(ch), c.Limit)
			}
			r.n = len(r.vals)
		}
	}()
	var r result
	finished := false
	isDone := func() bool {
		if finished {
			return true
		}
		select {
		case r = <-done:
			finished = true
			return true
		default:
			return false
		}
	}
	state, fin, timedOut := gstate.WaitBlocked("chans.RecvQueued", isDone, 20*time.Second)
	if !fin {
		if timedOut {
			return pbt.Outcome{Inconclusive: "RecvQueued* neither returned nor was seen blocked within 20s"}
		}
		// blocked: free the goroutine, then report
		if !c.Closed {
			func() {
				defer func() { recover() }()
				close(ch)
			}()
		}
		return pbt.Fail("%s blocked (goroutine state %q) on a channel with cap=%d fill=%d closed=%v limit=%d: it must never block", fn(c), state, c.Cap, c.Fill, c.Closed, c.Limit)
	}
	if r.pan != nil {
		return pbt.Fail("%s panicked: %v (cap=%d fill=%d closed=%v limit=%d)", fn(c), r.pan, c.Cap, c.Fill, c.Closed, c.Limit)
	}
	want := min(c.Fill, max(c.Limit, 0))
	if r.n != want || len(r.vals) != want {
		return pbt.Fail("%s returned %d values %v, want exactly the first %d queued values (cap=%d fill=%d closed=%v limit=%d)", fn(c), r.n, r.vals, want, c.Cap, c.Fill, c.Closed, c.Limit)
	}
	for i, v := range r.vals {
		if v != (i+1)*7 {
			return pbt.Fail("%s returned %v: position %d should be %d (FIFO order of what was queued; nothing invented)", fn(c), r.vals, i, (i+1)*7)
		}
	}
	if c.Full {
		for i := r.n; i < len(r.buf); i++ {
			if r.buf[i] != -1 {
				return pbt.Fail("RecvQueuedFull wrote %d into buffer slot %d beyond the %d values it reported", r.buf[i], i, r.n)
			}
		}
	}
	// the remainder must still be in the channel, in order
	for i := want + 1; i <= c.Fill; i++ {
		select {
		case v, ok := <-ch:
			if !ok || v != i*7 {
				return pbt.Fail("after %s the channel yields (%d,%v) where %d was queued: a value was lost or reordered", fn(c), v, ok, i*7)
			}
		default:
			return pbt.Fail("after %s took %d of %d queued values the channel is empty: %d values were lost", fn(c), want, c.Fill, c.Fill-want)
		}
	}
	select {
	case v, ok := <-ch:
		if ok {
			return pbt.Fail("after %s the channel holds an extra value %d that was never sent", fn(c), v)
		}
	default:
	}
	out := pbt.Outcome{Evals: 1, NonTrivial: c.Closed && c.Fill >= 1 && c.Limit > c.Fill}
	switch {
	case c.Closed && c.Limit > c.Fill:
		out.Labels = append(out.Labels, "closed,limit>fill")
	case !c.Closed && c.Limit > c.Fill:
		out.Labels = append(out.Labels, "open,limit>fill(must not block)")
	case c.Limit <= 0:
		out.Labels = append(out.Labels, "limit<=0")
	default:
		out.Labels = append(out.Labels, "limit<=fill")
	}
	return out
}

func fn(c QCase) string {
	if c.Full {
		return fmt.Sprintf("RecvQueuedFull(len(buf)=%d)", c.Limit)
	}
	return fmt.Sprintf("RecvQueued(max=%d)", c.Limit)
}

var specQueued = pbt.Register(&pbt.Spec[QCase]{
	Property: "C19", Name: "C19.queued",
	Rule: "exhaustive grid: {RecvQueued, RecvQueuedFull} x channel kind {chan, <-chan, named} x capacity 0..6 x fill 0..cap x closed? x limit -1..8 (RecvQueuedFull also with 1 and 3 slots of spare capacity behind the buffer), plus capacities 33..300 with limits around 32/64/100/1000, plus element types of 4104 bytes, 8 KiB and 64 KiB - 8 (capacity 0..3), plus the zero-sized element type chan struct{} (thorough: capacity 0..12, limit -1..14); queued values are non-zero serials; " +
		"oracle: result == the first min(fill,limit) queued values in FIFO order, the remainder still in the channel in order, nothing else (no zero padding after close), untouched buffer slots untouched, " +
		"and the call never blocks (the call runs in a goroutine; 'blocked' is established from its goroutine state, not from a timer); non-trivial = closed with fill>=1 and limit>fill",
	Enum: func(shard, shards int, tier string, yield func(QCase) bool) {
		maxCap, maxLim := 6, 8
		if tier == "thorough" {
			maxCap, maxLim = 12, 14
		}
		for _, full := range []bool{false, true} {
			for kind := 0; kind < 3; kind++ {
				for cp := 0; cp <= maxCap; cp++ {
					for fill := 0; fill <= cp; fill++ {
						for _, closed := range []bool{false, true} {
							for lim := -1; lim <= maxLim; lim++ {
								if full && lim < 0 {
									continue
								}
								if !yield(QCase{Full: full, Cap: cp, Fill: fill, Closed: closed, Limit: lim, Kind: kind}) {
									return
								}
								if full && kind == 0 {
									for _, spare := range []int{1, 3} {
										if !yield(QCase{Full: full, Cap: cp, Fill: fill, Closed: closed, Limit: lim, Kind: kind, Spare: spare}) {
											return
										}
									}
								}
							}
						}
					}
				}
				// larger channels: more than 32 / 64 queued values drained by one call
				for _, cp := range []int{33, 40, 64, 65, 100, 300} {
					for _, fill := range []int{cp, cp - 1, 33} {
						for _, closed := range []bool{false, true} {
							for _, lim := range []int{31, 32, 33, 34, 64, 65, 100, 1000} {
								if !yield(QCase{Full: full, Cap: cp, Fill: fill, Closed: closed, Limit: lim, Kind: kind}) {
									return
								}
							}
						}
					}
				}
			}
		}
		// element types of 4 KiB and more (a channel takes elements of up to 64 KiB - 1)
		for _, full := range []bool{false, true} {
			for kind := 4; kind <= 6; kind++ {
				for cp := 0; cp <= 3; cp++ {
					for fill := 0; fill <= cp; fill++ {
						for _, closed := range []bool{false, true} {
							for _, lim := range []int{0, 1, 2, 5} {
								if !yield(QCase{Full: full, Cap: cp, Fill: fill, Closed: closed, Limit: lim, Kind: kind}) {
									return
								}
							}
						}
					}
				}
			}
		}
		// zero-sized element type
		for _, full := range []bool{false, true} {
			for cp := 0; cp <= 5; cp++ {
				for fill := 0; fill <= cp; fill++ {
					for _, closed := range []bool{false, true} {
						for lim := 0; lim <= 6; lim++ {
							if !yield(QCase{Full: full, Cap: cp, Fill: fill, Closed: closed, Limit: lim, Kind: 3}) {
								return
							}
						}
					}
				}
			}
		}
	},
	Run: RunQueued, Exhaustive: true, Crashy: true,
})

func TestC19Queued(t *testing.T) { pbt.Check(t, specQueued) }

// ---------------------------------------------------------------- concurrent drainers

// CCase: several goroutines call RecvQueued / RecvQueuedFull on the same channel at once.
type CCase struct {
	Cap    int   `json:"cap"`
	Fill   int   `json:"fill"`
	Closed bool  `json:"closed"`
	Limits []int `json:"limits"` // one call per entry
	Full   bool  `json:"full"`
	Procs  int   `json:"procs"`
	Reps   int   `json:"reps"`
	// Separate: every caller drains its own channel (each holding Fill values); the calls only overlap in time.
	Separate bool `json:"separate,omitempty"`
}

func RunQueuedConc(c CCase) pbt.Outcome {
	if c.Procs > 0 {
		defer runtime.GOMAXPROCS(runtime.GOMAXPROCS(c.Procs))
	}
	for rep := 0; rep < c.Reps; rep++ {
		ch := make(chan int, c.Cap)
		for i := 1; i <= c.Fill; i++ {
			ch <- i * 7
		}
		if c.Closed {
			close(ch)
		}
		chOf := func(i int) chan int { return ch }
		if c.Separate {
			own := make([]chan int, len(c.Limits))
			for k := range own {
				own[k] = make(chan int, c.Cap)
				for i := 1; i <= c.Fill; i++ {
					own[k] <- i * 7
				}
				if c.Closed {
					close(own[k])
				}
			}
			chOf = func(i int) chan int { return own[i] }
		}
		results := make([][]int, len(c.Limits))
		var wg sync.WaitGroup
		var gate atomic.Int32
		var finished atomic.Int32
		for i, lim := range c.Limits {
			i, lim := i, lim
			wg.Add(1)
			go func() {
				defer wg.Done()
				gate.Add(1)
				for int(gate.Load()) < len(c.Limits) {
					runtime.Gosched()
				}
				ch := chOf(i)
				if c.Full {
					buf := make([]int, lim)
					n := chans.RecvQueuedFull(ch, buf)
					results[i] = buf[:n]
				} else {
					results[i] = chans.RecvQueued(ch, lim)
				}
				finished.Add(1)
			}()
		}
		isDone := func() bool { return int(finished.Load()) == len(c.Limits) }
		state, fin, timedOut := gstate.WaitBlocked("chans.RecvQueued", isDone, 20*time.Second, "chan receive", "select", "chan send")
		if !fin {
			if !c.Closed {
				func() {
					defer func() { recover() }()
					close(ch) // frees the blocked call
				}()
			}
			if c.Separate {
				// nothing of ours can free a call that blocks on something of its own: leave it behind (the unit is Crashy: the process ends)
				if timedOut {
					return pbt.Outcome{Inconclusive: "overlapping RecvQueued calls neither returned nor were seen blocked"}
				}
				return pbt.Fail("repetition %d: a RecvQueued* call blocked (goroutine state %q) while %d calls overlapped in time, each on its own channel holding %d values: it must never block", rep, state, len(c.Limits), c.Fill)
			}
			wg.Wait()
			if timedOut {
				return pbt.Outcome{Inconclusive: "concurrent RecvQueued calls neither returned nor were seen blocked"}
			}
			return pbt.Fail("repetition %d: a RecvQueued* call blocked (goroutine state %q) while %d calls with limits %v drained a channel holding %d values concurrently: it must never block", rep, state, len(c.Limits), c.Limits, c.Fill)
		}
		wg.Wait()
		if c.Separate {
			for i, r := range results {
				want := min(c.Fill, max(c.Limits[i], 0))
				if len(r) != want {
					return pbt.Fail("repetition %d: caller %d of %d overlapping calls (each on its own channel holding %d values) got %d values with limit %d, want %d", rep, i, len(c.Limits), c.Fill, len(r), c.Limits[i], want)
				}
				for k, v := range r {
					if v != (k+1)*7 {
						return pbt.Fail("repetition %d: caller %d of %d overlapping calls on separate channels got %d at position %d, want %d (results must not mix)", rep, i, len(c.Limits), v, k, (k+1)*7)
					}
				}
				if len(chOf(i)) != c.Fill-want {
					return pbt.Fail("repetition %d: caller %d's own channel holds %d values afterwards, want %d", rep, i, len(chOf(i)), c.Fill-want)
				}
			}
			continue
		}
		seen := map[int]int{}
		total := 0
		for i, r := range results {
			if len(r) > max(c.Limits[i], 0) {
				return pbt.Fail("repetition %d: call %d returned %d values, limit %d", rep, i, len(r), c.Limits[i])
			}
			last := 0
			for _, v := range r {
				if v <= last {
					return pbt.Fail("repetition %d: call %d returned %v: not in FIFO order", rep, i, r)
				}
				last = v
				seen[v]++
				total++
			}
		}
		// the rest is still queued
		var rest []int
	drain:
		for {
			select {
			case v, ok := <-ch:
				if !ok {
					break drain
				}
				rest = append(rest, v)
				seen[v]++
			default:
				break drain
			}
		}
		for i := 1; i <= c.Fill; i++ {
			if seen[i*7] != 1 {
				return pbt.Fail("repetition %d: queued value %d was returned %d times (results %v, left in channel %v)", rep, i*7, seen[i*7], results, rest)
			}
		}
		if len(seen) != c.Fill {
			return pbt.Fail("repetition %d: values that were never sent appeared: results %v, left in channel %v", rep, results, rest)
		}
	}
	lab := fmt.Sprintf("callers=%d", len(c.Limits))
	if c.Separate {
		lab = fmt.Sprintf("separate-channels,callers>=%d", len(c.Limits)/16*16)
	}
	return pbt.Outcome{Evals: c.Reps, NonTrivial: len(c.Limits) >= 2 && c.Fill >= 2, Labels: []string{lab}}
}

var specQueuedConc = pbt.Register(&pbt.Spec[CCase]{
	Property: "C19", Name: "C19.queuedconc",
	Rule: "2..4 goroutines call RecvQueued / RecvQueuedFull on the same channel at the same time (capacity 1..8, any fill, open or closed, limits 0..10), 40 repetitions, or 3..64 goroutines each on its own channel (capacity 8..400) overlapping in time: no call may block (goroutine-state classifier), " +
		"each result is in FIFO order, and results plus what is left in the channel are exactly the queued values, each once; non-trivial = >=2 callers and >=2 queued values",
	Gen: func(t *rapid.T) CCase {
		if rapid.IntRange(0, 5).Draw(t, "separate?") == 3 {
			n := rapid.SampledFrom([]int{3, 17, 24, 40, 64}).Draw(t, "callers")
			cp := rapid.SampledFrom([]int{8, 100, 400}).Draw(t, "cap")
			if rapid.IntRange(0, 3).Draw(t, "long?") == 2 {
				// long drains on more Ps than cores, so that the OS interleaves many calls that are in flight at once
				return CCase{Cap: 60000, Fill: 60000, Separate: true, Limits: rapid.SliceOfN(rapid.Just(100000), 64, 64).Draw(t, "limits"), Procs: 64, Reps: 2}
			}
			return CCase{Cap: cp, Fill: rapid.IntRange(cp/2, cp).Draw(t, "fill"), Closed: rapid.Bool().Draw(t, "closed"), Separate: true,
				Limits: rapid.SliceOfN(rapid.SampledFrom([]int{1, 50, 1000}), n, n).Draw(t, "limits"), Full: rapid.IntRange(0, 3).Draw(t, "full") == 2,
				Procs: rapid.SampledFrom([]int{4, 16, 64}).Draw(t, "procs"), Reps: 6}
		}
		cp := rapid.IntRange(1, 8).Draw(t, "cap")
		n := rapid.IntRange(2, 4).Draw(t, "callers")
		return CCase{Cap: cp, Fill: rapid.IntRange(0, cp).Draw(t, "fill"), Closed: rapid.Bool().Draw(t, "closed"),
			Limits: rapid.SliceOfN(rapid.IntRange(0, 10), n, n).Draw(t, "limits"), Full: rapid.Bool().Draw(t, "full"),
			Procs: rapid.SampledFrom([]int{2, 4, 16}).Draw(t, "procs"), Reps: 40}
	},
	Run: RunQueuedConc, Quick: 300, Thorough: 5000, Crashy: true, Retries: 50,
})

func TestC19QueuedConc(t *testing.T) { pbt.Check(t, specQueuedConc) }
func TestReplay(t *testing.T)        { pbt.Replay(t) }
