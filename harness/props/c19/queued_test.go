// Package c19 decides C19: the channel helpers never lose, duplicate or
// invent a value.
package c19

import (
	"fmt"
	"testing"
	"time"

	"gopkg.in/typ.v4/chans"
	"verifharness/internal/gstate"
	"verifharness/internal/pbt"
)

// QCase: one point of the RecvQueued / RecvQueuedFull grid.
type QCase struct {
	Full   bool `json:"full"` // RecvQueuedFull (Limit = len(buf)) instead of RecvQueued
	Cap    int  `json:"cap"`
	Fill   int  `json:"fill"`
	Closed bool `json:"closed"`
	Limit  int  `json:"limit"`
	Kind   int  `json:"kind"` // 0 chan int, 1 <-chan int, 2 named channel type
}

type namedChan chan int

func RunQueued(c QCase) pbt.Outcome {
	ch := make(chan int, c.Cap)
	for i := 1; i <= c.Fill; i++ {
		ch <- i * 7 // serial numbers, never the zero value
	}
	if c.Closed {
		close(ch)
	}
	type result struct {
		vals []int
		n    int
		buf  []int
		pan  any
	}
	done := make(chan result, 1)
	go func() {
		var r result
		defer func() { r.pan = recover(); done <- r }()
		if c.Full {
			buf := make([]int, max(c.Limit, 0))
			for i := range buf {
				buf[i] = -1 // sentinel: untouched slots must stay untouched
			}
			switch c.Kind {
			case 0:
				r.n = chans.RecvQueuedFull(ch, buf)
			case 1:
				r.n = chans.RecvQueuedFull((<-chan int)(ch), buf)
			default:
				r.n = chans.RecvQueuedFull(namedChan(ch), buf)
			}
			r.buf = buf
			if r.n >= 0 && r.n <= len(buf) {
				r.vals = buf[:r.n]
			}
		} else {
			switch c.Kind {
			case 0:
				r.vals = chans.RecvQueued(ch, c.Limit)
			case 1:
				r.vals = chans.RecvQueued((<-chan int)(ch), c.Limit)
			default:
				r.vals = chans.RecvQueued(namedChan(ch), c.Limit)
			}
			r.n = len(r.vals)
		}
	}()
	var r result
	finished := false
	isDone := func() bool {
		if finished {
			return true
		}
		select {
		case r = <-done:
			finished = true
			return true
		default:
			return false
		}
	}
	state, fin, timedOut := gstate.WaitBlocked("chans.RecvQueued", isDone, 20*time.Second)
	if !fin {
		if timedOut {
			return pbt.Outcome{Inconclusive: "RecvQueued* neither returned nor was seen blocked within 20s"}
		}
		// blocked: free the goroutine, then report
		if !c.Closed {
			func() {
				defer func() { recover() }()
				close(ch)
			}()
		}
		return pbt.Fail("%s blocked (goroutine state %q) on a channel with cap=%d fill=%d closed=%v limit=%d: it must never block", fn(c), state, c.Cap, c.Fill, c.Closed, c.Limit)
	}
	if r.pan != nil {
		return pbt.Fail("%s panicked: %v (cap=%d fill=%d closed=%v limit=%d)", fn(c), r.pan, c.Cap, c.Fill, c.Closed, c.Limit)
	}
	want := min(c.Fill, max(c.Limit, 0))
	if r.n != want || len(r.vals) != want {
		return pbt.Fail("%s returned %d values %v, want exactly the first %d queued values (cap=%d fill=%d closed=%v limit=%d)", fn(c), r.n, r.vals, want, c.Cap, c.Fill, c.Closed, c.Limit)
	}
	for i, v := range r.vals {
		if v != (i+1)*7 {
			return pbt.Fail("%s returned %v: position %d should be %d (FIFO order of what was queued; nothing invented)", fn(c), r.vals, i, (i+1)*7)
		}
	}
	if c.Full {
		for i := r.n; i < len(r.buf); i++ {
			if r.buf[i] != -1 {
				return pbt.Fail("RecvQueuedFull wrote %d into buffer slot %d beyond the %d values it reported", r.buf[i], i, r.n)
			}
		}
	}
	// the remainder must still be in the channel, in order
	for i := want + 1; i <= c.Fill; i++ {
		select {
		case v, ok := <-ch:
			if !ok || v != i*7 {
				return pbt.Fail("after %s the channel yields (%d,%v) where %d was queued: a value was lost or reordered", fn(c), v, ok, i*7)
			}
		default:
			return pbt.Fail("after %s took %d of %d queued values the channel is empty: %d values were lost", fn(c), want, c.Fill, c.Fill-want)
		}
	}
	select {
	case v, ok := <-ch:
		if ok {
			return pbt.Fail("after %s the channel holds an extra value %d that was never sent", fn(c), v)
		}
	default:
	}
	out := pbt.Outcome{Evals: 1, NonTrivial: c.Closed && c.Fill >= 1 && c.Limit > c.Fill}
	switch {
	case c.Closed && c.Limit > c.Fill:
		out.Labels = append(out.Labels, "closed,limit>fill")
	case !c.Closed && c.Limit > c.Fill:
		out.Labels = append(out.Labels, "open,limit>fill(must not block)")
	case c.Limit <= 0:
		out.Labels = append(out.Labels, "limit<=0")
	default:
		out.Labels = append(out.Labels, "limit<=fill")
	}
	return out
}

func fn(c QCase) string {
	if c.Full {
		return fmt.Sprintf("RecvQueuedFull(len(buf)=%d)", c.Limit)
	}
	return fmt.Sprintf("RecvQueued(max=%d)", c.Limit)
}

var specQueued = pbt.Register(&pbt.Spec[QCase]{
	Property: "C19", Name: "C19.queued",
	Rule: "exhaustive grid: {RecvQueued, RecvQueuedFull} x channel kind {chan, <-chan, named} x capacity 0..6 x fill 0..cap x closed? x limit -1..8 (thorough: capacity 0..12, limit -1..14); queued values are non-zero serials; " +
		"oracle: result == the first min(fill,limit) queued values in FIFO order, the remainder still in the channel in order, nothing else (no zero padding after close), untouched buffer slots untouched, " +
		"and the call never blocks (the call runs in a goroutine; 'blocked' is established from its goroutine state, not from a timer); non-trivial = closed with fill>=1 and limit>fill",
	Enum: func(shard, shards int, tier string, yield func(QCase) bool) {
		maxCap, maxLim := 6, 8
		if tier == "thorough" {
			maxCap, maxLim = 12, 14
		}
		for _, full := range []bool{false, true} {
			for kind := 0; kind < 3; kind++ {
				for cp := 0; cp <= maxCap; cp++ {
					for fill := 0; fill <= cp; fill++ {
						for _, closed := range []bool{false, true} {
							for lim := -1; lim <= maxLim; lim++ {
								if full && lim < 0 {
									continue
								}
								if !yield(QCase{Full: full, Cap: cp, Fill: fill, Closed: closed, Limit: lim, Kind: kind}) {
									return
								}
							}
						}
					}
				}
			}
		}
	},
	Run: RunQueued, Exhaustive: true, Crashy: true,
})

func TestC19Queued(t *testing.T) { pbt.Check(t, specQueued) }
func TestReplay(t *testing.T)    { pbt.Replay(t) }
