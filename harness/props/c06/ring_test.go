package c06

import (
	"container/ring"
	"fmt"
	"testing"
	"time"

	"gopkg.in/typ.v4/lists"
	"pgregory.net/rapid"
	"verifharness/internal/pbt"
)

// ROp is one ring operation. Kinds: new (NewRing(n), n = N mod 7 - 1 in -1..5; every node
// of the new ring becomes a handle), zero (a fresh zero-value Ring becomes a handle),
// next prev move(N) link unlink(N) len do. A is the receiver handle, B the argument
// of Link. Receivers of next/prev/move/link/unlink are taken among the non-nil
// handles (the nil receiver is exercised by Case.Tail); len, do and the argument of
// Link range over the whole table, which contains a nil ring. S=1: the argument of
// Link is taken B steps forward from the receiver, i.e. in the same ring; S=2: it is
// the first non-nil handle at or after B that is outside the receiver's ring.
type ROp struct {
	K string `json:"k"`
	A int    `json:"a"`
	B int    `json:"b"`
	N int    `json:"n"`
	S int    `json:"s"`
}

type RingCase struct {
	Ops []ROp `json:"ops"`
	// Tail, when 1..5, ends the case with a call on a nil *Ring receiver:
	// 1 Next, 2 Prev, 3 Move(1), 4 Link(h0), 5 Unlink(1). Both sides must panic (or both not).
	Tail int `json:"tail"`
}

const ringRule = "case = <=60 ops NewRing(n in -1..5)/new zero-value Ring/Next/Prev/Move(k)/Link(a,b)/Unlink(k)/Len/Do with k in -12..12 executed in " +
	"lock-step on lists.Ring[any] and container/ring through parallel handle tables (h0 = zero-value Ring, h1 = nil ring, every node of every ring " +
	"is a handle); Link takes any pair (same node, same ring, other ring, nil, untouched zero value); after EVERY op: return values by handle " +
	"index, Next/Prev/Value of every handle, capped forward/backward traversals and Len of the rings touched must agree; Do is run with a " +
	"callback cap; a panic on exactly one side is a violation; optional tail call on a nil receiver (both must panic); " +
	"non-trivial = >=8 ops and >=1 Link of a node with itself or with another node of the same ring (other than its successor)"

const ringNodeCap = 40

type doAbort struct{}

type rstate struct {
	tr     []*lists.Ring[any]
	sr     []*ring.Ring
	virgin []bool // zero-value Ring no operation has touched yet: not probed by the harness either
}

func (s *rstate) tIdx(r *lists.Ring[any]) int {
	if r == nil {
		return idxNil
	}
	if v, ok := r.Value.(int); ok && v >= 0 && v < len(s.tr) && s.tr[v] == r {
		return v
	}
	for i, h := range s.tr {
		if h == r {
			return i
		}
	}
	return idxUnknown
}

func (s *rstate) sIdx(r *ring.Ring) int {
	if r == nil {
		return idxNil
	}
	if v, ok := r.Value.(int); ok && v >= 0 && v < len(s.sr) && s.sr[v] == r {
		return v
	}
	for i, h := range s.sr {
		if h == r {
			return i
		}
	}
	return idxUnknown
}

func rIdxName(i int) string {
	if i == 1 {
		return "h1(nil ring)"
	}
	return idxName(i)
}

func (s *rstate) register(t *lists.Ring[any], r *ring.Ring, setValue bool) int {
	id := len(s.tr)
	s.tr = append(s.tr, t)
	s.sr = append(s.sr, r)
	s.virgin = append(s.virgin, false)
	if setValue {
		t.Value, r.Value = id, id
	}
	return id
}

// neighbours compares Next/Prev/Value of every probed handle.
func (s *rstate) neighbours() string {
	for i := range s.tr {
		if s.tr[i] == nil || s.virgin[i] {
			continue
		}
		if a, b := s.tIdx(s.tr[i].Next()), s.sIdx(s.sr[i].Next()); a != b {
			return fmt.Sprintf("h%d.Next() = %s, container/ring gives %s", i, idxName(a), idxName(b))
		}
		if a, b := s.tIdx(s.tr[i].Prev()), s.sIdx(s.sr[i].Prev()); a != b {
			return fmt.Sprintf("h%d.Prev() = %s, container/ring gives %s", i, idxName(a), idxName(b))
		}
		if a, b := s.tr[i].Value, s.sr[i].Value; a != b {
			return fmt.Sprintf("h%d.Value = %v, container/ring has %v", i, a, b)
		}
	}
	return ""
}

// orbit walks from handle h with Next (dir>0) or Prev on both sides, at most
// limit steps, and compares; closed reports whether the walk came back to h.
func (s *rstate) orbit(h, dir int) (seq []int, closed bool, msg string) {
	limit := len(s.tr) + 2
	t, r := s.tr[h], s.sr[h]
	var tq, sq []int
	tc, sc := false, false
	for p, n := t, 0; n < limit; n++ {
		tq = append(tq, s.tIdx(p))
		if dir > 0 {
			p = p.Next()
		} else {
			p = p.Prev()
		}
		if p == t {
			tc = true
			break
		}
	}
	for p, n := r, 0; n < limit; n++ {
		sq = append(sq, s.sIdx(p))
		if dir > 0 {
			p = p.Next()
		} else {
			p = p.Prev()
		}
		if p == r {
			sc = true
			break
		}
	}
	name := map[bool]string{true: "forward (Next)", false: "backward (Prev)"}[dir > 0]
	if !sc {
		return nil, false, fmt.Sprintf("HARNESS: container/ring %s traversal from h%d does not return to it: %s", name, h, seqName(sq))
	}
	if !tc {
		return nil, false, fmt.Sprintf("%s traversal from h%d did not come back to h%d within %d steps: %s; container/ring: %s", name, h, h, limit, seqName(tq), seqName(sq))
	}
	if len(tq) != len(sq) {
		return nil, false, fmt.Sprintf("%s traversal from h%d: %s, container/ring: %s", name, h, seqName(tq), seqName(sq))
	}
	for i := range tq {
		if tq[i] != sq[i] || tq[i] < 0 {
			return nil, false, fmt.Sprintf("%s traversal from h%d: %s, container/ring: %s", name, h, seqName(tq), seqName(sq))
		}
	}
	return tq, true, ""
}

// ringOf lists the handle indices reachable from h by Next (on the state agreed after the previous op); used to resolve and classify arguments.
func (s *rstate) ringOf(h int) []int {
	if s.virgin[h] {
		return []int{h}
	}
	q, _, _ := s.orbit(h, +1)
	return q
}

func (s *rstate) touched(hs ...int) string {
	for _, h := range hs {
		if h < 0 || s.tr[h] == nil || s.virgin[h] {
			continue
		}
		f, _, msg := s.orbit(h, +1)
		if msg != "" {
			return msg
		}
		if _, _, msg = s.orbit(h, -1); msg != "" {
			return msg
		}
		// the structure is a proper cycle on both sides: Len terminates
		if a, b := s.tr[h].Len(), s.sr[h].Len(); a != b || a != len(f) {
			return fmt.Sprintf("h%d.Len() = %d, container/ring gives %d (traversal has %d nodes)", h, a, b, len(f))
		}
	}
	return ""
}

func RunRing(c RingCase) pbt.Outcome {
	var out pbt.Outcome
	var labels labelSet
	s := &rstate{}
	s.register(new(lists.Ring[any]), new(ring.Ring), false)
	s.virgin[0] = true
	s.register(nil, nil, false)

	trace := make([]string, 0, len(c.Ops)+1)
	fail := func(step int, format string, a ...any) pbt.Outcome {
		o := pbt.Fail("op #%d %s: %s", step, trace[len(trace)-1], fmt.Sprintf(format, a...))
		o.Observed = map[string]any{"resolved_ops": trace}
		return o
	}
	executed, sameRingLinks := 0, 0
	maxRing := 0

	recv := func(raw int) int { // a non-nil handle
		i := mod(raw, len(s.tr))
		for s.tr[i] == nil {
			i = (i + 1) % len(s.tr)
		}
		return i
	}
	describe := func(h int) string {
		switch {
		case s.tr[h] == nil:
			return "nil"
		case s.virgin[h]:
			return "untouched-zero-value"
		}
		return "ring"
	}

	for step, op := range c.Ops {
		var tR *lists.Ring[any]
		var sR *ring.Ring
		var tN, sN int
		var tVals, sVals []any
		var tRun, sRun func()
		returns := "" // "node" | "int" | "vals" | "newring"
		a, b := -1, -1
		n := 0
		desc := ""
		keepVirgin := false

		switch op.K {
		case "new":
			n = mod(op.N, 7) - 1
			if n > 0 && len(s.tr)+n > ringNodeCap {
				labels.add("cap-skip")
				continue
			}
			desc = fmt.Sprintf("NewRing(%d)", n)
			tRun, sRun = func() { tR = lists.NewRing[any](n) }, func() { sR = ring.New(n) }
			returns = "newring"
			if n <= 0 {
				labels.add("new:n<=0")
			} else {
				labels.add(fmt.Sprintf("new:n=%d", n))
			}
		case "zero":
			if len(s.tr) >= ringNodeCap {
				labels.add("cap-skip")
				continue
			}
			trace = append(trace, fmt.Sprintf("h%d := new(Ring)", len(s.tr)))
			executed++
			id := s.register(new(lists.Ring[any]), new(ring.Ring), false)
			s.virgin[id] = true
			labels.add("zero-value-ring-created")
			continue
		case "next", "prev":
			a = recv(op.A)
			labels.add(op.K + ":" + describe(a))
			t, r := s.tr[a], s.sr[a]
			if op.K == "next" {
				desc = fmt.Sprintf("h%d.Next()", a)
				tRun, sRun = func() { tR = t.Next() }, func() { sR = r.Next() }
			} else {
				desc = fmt.Sprintf("h%d.Prev()", a)
				tRun, sRun = func() { tR = t.Prev() }, func() { sR = r.Prev() }
			}
			returns = "node"
		case "move":
			a = recv(op.A)
			n = op.N
			ln := len(s.ringOf(a))
			switch {
			case s.virgin[a]:
				labels.add("move:untouched-zero-value")
			case n == 0:
				labels.add("move:0")
			case n < 0 && -n >= ln:
				labels.add("move:negative,|k|>=len")
			case n < 0:
				labels.add("move:negative")
			case n >= ln:
				labels.add("move:positive,k>=len")
			default:
				labels.add("move:positive")
			}
			desc = fmt.Sprintf("h%d.Move(%d) [ring of %d]", a, n, ln)
			t, r := s.tr[a], s.sr[a]
			tRun, sRun = func() { tR = t.Move(n) }, func() { sR = r.Move(n) }
			returns = "node"
		case "link":
			a = recv(op.A)
			ra := s.ringOf(a)
			b = mod(op.B, len(s.tr))
			switch op.S {
			case 1:
				b = ra[mod(op.B, len(ra))]
			case 2: // a non-nil handle outside the receiver's ring, when there is one
				for i := 0; i < len(s.tr); i++ {
					h := (b + i) % len(s.tr)
					if s.tr[h] == nil {
						continue
					}
					in := false
					for _, x := range ra {
						in = in || x == h
					}
					if !in {
						b = h
						break
					}
				}
			}
			cls := ""
			switch {
			case s.tr[b] == nil:
				cls = "nil"
			case a == b && s.virgin[a]:
				cls = "self(untouched-zero-value)"
				sameRingLinks++
			case a == b && len(ra) == 1:
				cls = "self(single)"
				sameRingLinks++
			case a == b:
				cls = "self"
				sameRingLinks++
			case s.virgin[b] && s.virgin[a]:
				cls = "zero-value+zero-value"
			case s.virgin[b]:
				cls = "other-ring(untouched-zero-value-arg)"
			case s.virgin[a]:
				cls = "other-ring(untouched-zero-value-receiver)"
			default:
				pos := -1
				for i, h := range ra {
					if h == b {
						pos = i
					}
				}
				switch {
				case pos < 0:
					cls = "other-ring"
				case pos == 1:
					cls = "same-ring(successor,no-op)"
				case pos == len(ra)-1:
					cls = "same-ring(predecessor)"
					sameRingLinks++
				default:
					cls = "same-ring"
					sameRingLinks++
				}
			}
			labels.add("link:" + cls)
			desc = fmt.Sprintf("h%d.Link(%s) [%s]", a, rIdxName(b), cls)
			t, r, t2, r2 := s.tr[a], s.sr[a], s.tr[b], s.sr[b]
			tRun, sRun = func() { tR = t.Link(t2) }, func() { sR = r.Link(r2) }
			returns = "node"
		case "unlink":
			a = recv(op.A)
			n = op.N
			ln := len(s.ringOf(a))
			switch {
			case n <= 0:
				labels.add("unlink:k<=0")
				keepVirgin = true
			case s.virgin[a]:
				labels.add("unlink:untouched-zero-value")
			case n%ln == 0:
				labels.add("unlink:k%len==0")
			case n >= ln:
				labels.add("unlink:k>len")
			case n == ln-1:
				labels.add("unlink:k==len-1")
			default:
				labels.add("unlink:0<k<len-1")
			}
			desc = fmt.Sprintf("h%d.Unlink(%d) [ring of %d]", a, n, ln)
			t, r := s.tr[a], s.sr[a]
			tRun, sRun = func() { tR = t.Unlink(n) }, func() { sR = r.Unlink(n) }
			returns = "node"
		case "len":
			a = mod(op.A, len(s.tr))
			labels.add("len:" + describe(a))
			desc = fmt.Sprintf("%s.Len()", rIdxName(a))
			t, r := s.tr[a], s.sr[a]
			tRun, sRun = func() { tN = t.Len() }, func() { sN = r.Len() }
			returns = "int"
		case "do":
			a = mod(op.A, len(s.tr))
			labels.add("do:" + describe(a))
			desc = fmt.Sprintf("%s.Do(collect)", rIdxName(a))
			t, r := s.tr[a], s.sr[a]
			limit := len(s.tr) + 2
			tRun = func() {
				t.Do(func(v any) {
					if len(tVals) >= limit {
						panic(doAbort{})
					}
					tVals = append(tVals, v)
				})
			}
			sRun = func() {
				r.Do(func(v any) {
					if len(sVals) >= limit {
						panic(doAbort{})
					}
					sVals = append(sVals, v)
				})
			}
			returns = "vals"
		case "dolink":
			// Do whose callback, at visit number N, links two OTHER nodes (x.Link(y)) - only when none of the four
			// nodes the Link rewires is the Do receiver itself (container/ring leaves Do undefined if f changes *r;
			// restructuring the rest of the ring during the iteration is defined and must behave identically)
			a = mod(op.A, len(s.tr))
			xi := mod(op.B, len(s.tr))
			yi := mod(op.B+op.S+1, len(s.tr))
			at := mod(op.N, 4)
			if s.tr[a] == nil || s.tr[xi] == nil || s.tr[yi] == nil {
				continue
			}
			labels.add("do:restructuring-callback")
			desc = fmt.Sprintf("%s.Do(collect; at visit %d: %s.Link(%s) unless it rewires the receiver)", rIdxName(a), at, rIdxName(xi), rIdxName(yi))
			t, r := s.tr[a], s.sr[a]
			tx, ty, sx, sy := s.tr[xi], s.tr[yi], s.sr[xi], s.sr[yi]
			limit := len(s.tr) + 2
			tRun = func() {
				t.Do(func(v any) {
					if len(tVals) >= limit {
						panic(doAbort{})
					}
					if len(tVals) == at && tx != t && ty != t && tx.Next() != t && ty.Prev() != t {
						tx.Link(ty)
					}
					tVals = append(tVals, v)
				})
			}
			sRun = func() {
				r.Do(func(v any) {
					if len(sVals) >= limit {
						panic(doAbort{})
					}
					if len(sVals) == at && sx != r && sy != r && sx.Next() != r && sy.Prev() != r {
						sx.Link(sy)
					}
					sVals = append(sVals, v)
				})
			}
			returns = "vals"
		default:
			continue
		}
		trace = append(trace, desc)
		executed++

		tp, tPan := try(tRun)
		sp, sPan := try(sRun)
		_, sAb := sp.(doAbort)
		_, tAb := tp.(doAbort)
		if sAb && tAb && op.K == "dolink" {
			// the callback made the ring bypass the receiver: Do never returns on either side - agreed; the case ends here
			labels.add("do:both-non-terminating(after restructuring)")
			out.Labels = labels.l
			out.Evals = executed
			return out
		}
		if sAb && op.K == "dolink" {
			return fail(step, "container/ring's Do does not terminate after this restructuring, lists' Do returned after visiting %v", tVals)
		}
		if sAb {
			return fail(step, "HARNESS: container/ring Do exceeded the callback cap")
		}
		if _, ab := tp.(doAbort); ab {
			return fail(step, "Do called the function more than %d times (ring has at most that many nodes): does not terminate; container/ring visited %v", len(s.tr)+2, sVals)
		}
		switch {
		case tPan && sPan:
			labels.add("both-panicked")
			out.Labels = labels.l
			out.Evals = executed
			return out
		case tPan:
			return fail(step, "lists panicked (%v), container/ring did not", tp)
		case sPan:
			return fail(step, "container/ring panicked (%v), lists did not", sp)
		}
		if a >= 0 && !keepVirgin {
			s.virgin[a] = false
		}
		if b >= 0 {
			s.virgin[b] = false
		}
		res := -1
		switch returns {
		case "newring":
			if (tR == nil) != (sR == nil) {
				return fail(step, "returned nil: %v, container/ring returned nil: %v", tR == nil, sR == nil)
			}
			if tR != nil {
				res = len(s.tr)
				tp, sp := tR, sR
				for i := 0; i < n; i++ {
					if tp == nil {
						return fail(step, "node %d of the new ring has a nil Next()", i-1)
					}
					if k := s.tIdx(tp); k != idxUnknown {
						return fail(step, "the new ring has fewer than %d distinct new nodes: step %d reaches %s", n, i, idxName(k))
					}
					if tp.Value != sp.Value {
						return fail(step, "node %d of the new ring has Value %v, container/ring has %v", i, tp.Value, sp.Value)
					}
					s.register(tp, sp, true)
					tp, sp = tp.Next(), sp.Next()
				}
			}
		case "node":
			ti, si := s.tIdx(tR), s.sIdx(sR)
			if ti != si {
				return fail(step, "returned %s, container/ring returned %s", idxName(ti), idxName(si))
			}
			res = ti
		case "int":
			if tN != sN {
				return fail(step, "returned %d, container/ring returned %d", tN, sN)
			}
		case "vals":
			same := len(tVals) == len(sVals)
			for i := 0; same && i < len(tVals); i++ {
				same = tVals[i] == sVals[i]
			}
			if !same {
				return fail(step, "visited values %v, container/ring visited %v", tVals, sVals)
			}
			if len(tVals) > 1 {
				labels.add("do:>=2-nodes")
			}
		}
		if m := s.neighbours(); m != "" {
			return fail(step, "afterwards %s", m)
		}
		if m := s.touched(a, b, res); m != "" {
			return fail(step, "afterwards %s", m)
		}
		if a >= 0 && s.tr[a] != nil && !s.virgin[a] {
			if k := len(s.ringOf(a)); k > maxRing {
				maxRing = k
			}
		}
	}

	// final: every ring, fully
	all := make([]int, 0, len(s.tr))
	for i := range s.tr {
		all = append(all, i)
	}
	trace = append(trace, "(final full comparison)")
	if m := s.touched(all...); m != "" {
		return fail(len(c.Ops), "%s", m)
	}

	if c.Tail >= 1 && c.Tail <= 5 {
		var tn *lists.Ring[any]
		var sn *ring.Ring
		name := [...]string{"", "Next()", "Prev()", "Move(1)", "Link(h0)", "Unlink(1)"}[c.Tail]
		trace = append(trace, "(*Ring)(nil)."+name)
		var tres, sres any
		tp, tPan := try(func() {
			switch c.Tail {
			case 1:
				tres = tn.Next()
			case 2:
				tres = tn.Prev()
			case 3:
				tres = tn.Move(1)
			case 4:
				tres = tn.Link(s.tr[0])
			case 5:
				tres = tn.Unlink(1)
			}
		})
		sp, sPan := try(func() {
			switch c.Tail {
			case 1:
				sres = sn.Next()
			case 2:
				sres = sn.Prev()
			case 3:
				sres = sn.Move(1)
			case 4:
				sres = sn.Link(s.sr[0])
			case 5:
				sres = sn.Unlink(1)
			}
		})
		_, _ = tres, sres
		switch {
		case tPan && sPan:
			labels.add("nil-receiver:both-panicked")
		case tPan:
			return fail(len(c.Ops), "lists panicked (%v), container/ring did not", tp)
		case sPan:
			return fail(len(c.Ops), "container/ring panicked (%v), lists did not", sp)
		default:
			labels.add("nil-receiver:neither-panicked")
		}
		executed++
	}

	out.Evals = executed
	out.NonTrivial = executed >= 8 && sameRingLinks >= 1
	switch {
	case executed < 8:
		labels.add("ops<8")
	case executed < 20:
		labels.add("ops:8-19")
	default:
		labels.add("ops>=20")
	}
	switch {
	case maxRing >= 12:
		labels.add("ring>=12")
	case maxRing >= 6:
		labels.add("ring:6-11")
	}
	if sameRingLinks > 0 {
		labels.add("NT:same-ring-link")
	}
	out.Labels = labels.l
	return out
}

var ringKinds = func() []string {
	w := []struct {
		k string
		n int
	}{{"new", 10}, {"zero", 3}, {"next", 4}, {"prev", 4}, {"move", 10}, {"link", 24}, {"unlink", 10}, {"len", 5}, {"do", 5}, {"dolink", 4}}
	var r []string
	for _, x := range w {
		for i := 0; i < x.n; i++ {
			r = append(r, x.k)
		}
	}
	return r
}()

func genRing(t *rapid.T) RingCase {
	op := rapid.Custom(func(t *rapid.T) ROp {
		o := ROp{K: rapid.SampledFrom(ringKinds).Draw(t, "k")}
		switch o.K {
		case "new":
			o.N = rapid.SampledFrom([]int{0, 1, 2, 3, 4, 4, 5, 5, 6, 6}).Draw(t, "n")
		case "zero":
		case "move":
			o.A = rapid.IntRange(0, ringNodeCap-1).Draw(t, "a")
			o.N = rapid.IntRange(-12, 12).Draw(t, "n")
		case "unlink":
			o.A = rapid.IntRange(0, ringNodeCap-1).Draw(t, "a")
			o.N = rapid.IntRange(-12, 12).Draw(t, "n")
			if o.N < -2 { // fewer no-op counts, more small positive ones
				o.N = (-o.N-2)%4 + 1
			}
		case "dolink":
			o.A = rapid.IntRange(0, ringNodeCap-1).Draw(t, "a")
			o.B = rapid.IntRange(0, ringNodeCap-1).Draw(t, "b")
			o.S = rapid.IntRange(0, 5).Draw(t, "s")
			o.N = rapid.IntRange(0, 3).Draw(t, "n")
		case "link":
			o.A = rapid.IntRange(0, ringNodeCap-1).Draw(t, "a")
			o.B = rapid.IntRange(0, ringNodeCap-1).Draw(t, "b")
			o.S = rapid.SampledFrom([]int{0, 1, 1, 2, 2}).Draw(t, "s")
		default:
			o.A = rapid.IntRange(0, ringNodeCap-1).Draw(t, "a")
		}
		return o
	})
	c := RingCase{Ops: pbt.OpsOf(t, op, []int{0, 3, 8, 8, 16, 16, 27, 27}, "ops")}
	if rapid.IntRange(0, 9).Draw(t, "tail?") == 9 {
		c.Tail = rapid.IntRange(1, 5).Draw(t, "tail")
	}
	return c
}

var specRing = pbt.Register(&pbt.Spec[RingCase]{
	Property: "C06", Name: "C06.ring", Rule: ringRule,
	Gen: genRing, Run: RunRing, Quick: 50000, Thorough: 300000, Replicas: 4, ReplicaEvery: 16,
	Crashy: true, CaseCPU: 10 * time.Second,
})

func TestC06Ring(t *testing.T) { pbt.Check(t, specRing) }

// native fuzz target (engine E6, thorough tier)
func FuzzC06Ring(f *testing.F) { pbt.Fuzz(f, specRing) }
