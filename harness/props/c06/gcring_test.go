package c06

import (
	"fmt"
	"runtime"
	"testing"
	"unsafe"

	"gopkg.in/typ.v4/lists"
	"verifharness/internal/pbt"
)

// GCase: rings and lists are created, asked for their length, dropped and collected, and new ones of OTHER sizes are
// created right away (the allocator hands the same addresses out again): every fresh object must answer for itself.
type GCase struct {
	A, B   int
	Rounds int
	List   bool
}

func RunGCRing(c GCase) pbt.Outcome {
	reusedAddr := 0
	for r := 0; r < c.Rounds; r++ {
		n1, n2 := c.A+r%3, c.B+r%2
		if c.List {
			l := lists.New[int]()
			for i := 0; i < n1; i++ {
				l.PushBack(i)
			}
			if l.Len() != n1 {
				return pbt.Fail("list of %d pushes: Len %d", n1, l.Len())
			}
			l = nil
			runtime.GC()
			l2 := lists.New[int]()
			for i := 0; i < n2; i++ {
				l2.PushFront(i)
			}
			cnt := 0
			for e := l2.Front(); e != nil && cnt <= n2+1; e = e.Next() {
				cnt++
			}
			if l2.Len() != n2 || cnt != n2 {
				return pbt.Fail("round %d: a fresh list with %d pushes (created right after a list of %d elements was dropped and collected): Len %d, traversal %d", r, n2, n1, l2.Len(), cnt)
			}
			continue
		}
		a := lists.NewRing[int](n1)
		if a.Len() != n1 {
			return pbt.Fail("NewRing(%d).Len() = %d", n1, a.Len())
		}
		addr := uintptr(unsafe.Pointer(a)) // only compared with other addresses, never dereferenced
		a = nil
		runtime.GC()
		runtime.GC()
		var keep []*lists.Ring[int]
	search:
		for k := 0; k < 3000; k++ { // fresh rings until one of their elements sits where the dropped ring's element sat
			b := lists.NewRing[int](n2)
			keep = append(keep, b)
			e := b
			for j := 0; j < n2; j++ {
				if uintptr(unsafe.Pointer(e)) == addr {
					reusedAddr++
					cnt := 0
					e.Do(func(int) { cnt++ })
					if got := e.Len(); got != n2 || cnt != n2 {
						return pbt.Fail("round %d: Len() of an element of a fresh NewRing(%d) = %d (Do visits %d); the element sits at the address where an element of a dropped and collected ring of %d elements sat, whose Len had been asked", r, n2, got, cnt, n1)
					}
					break search
				}
				e = e.Next()
			}
		}
		runtime.KeepAlive(keep)
	}
	out := pbt.Outcome{Evals: c.Rounds, NonTrivial: true, Labels: []string{fmt.Sprintf("list=%v", c.List)}}
	if reusedAddr > 0 {
		out.Labels = append(out.Labels, "an-address-was-handed-out-again")
	}
	return out
}

var specGCRing = pbt.Register(&pbt.Spec[GCase]{
	Property: "C06", Name: "C06.gcring",
	Rule: "enumerated: a ring (or list) of a..a+2 elements is created, asked for its length, dropped and collected; fresh rings of b elements are created until one of their elements sits at the address of the dropped ring's element (addresses are only compared), and that element is asked for its length first (a fresh list of b pushes likewise); 40 rounds per (a, b)",
	Enum: func(shard, shards int, tier string, yield func(GCase) bool) {
		i := 0
		for _, list := range []bool{false, true} {
			for _, ab := range [][2]int{{3, 5}, {1, 2}, {5, 1}, {8, 3}, {2, 2}, {64, 7}} {
				i++
				if (i-1)%shards == shard && !yield(GCase{A: ab[0], B: ab[1], Rounds: 40, List: list}) {
					return
				}
			}
		}
	},
	Run: RunGCRing, Exhaustive: true,
})

func TestC06GCRing(t *testing.T) { pbt.Check(t, specGCRing) }
