package c06

import (
	"container/list"
	"container/ring"
	"fmt"
	"testing"

	"gopkg.in/typ.v4/lists"
	"pgregory.net/rapid"
	"verifharness/internal/pbt"
)

// BigCase: long lists and large rings (hundreds to thousands of elements), elements addressed by POSITION
// (walk k steps from Front / from the current ring node) instead of through a handle table, so that size
// thresholds in either structure are crossed. Lock-step differential against container/list and container/ring.
//
// Ops: K in
//
//	"push"   N values pushed back (A even) or front (A odd)
//	"self"   PushBackList(self) (A even) / PushFrontList(self) (A odd)          (doubles the list)
//	"other"  PushBackList(other list) / PushFrontList(other list)
//	"rem"    remove the element at position A mod len, N times in a row
//	"mtf"    MoveToFront / MoveToBack / MoveBefore / MoveAfter (by A mod 4) of the elements at positions A, B mod len
//	"insb"   InsertBefore / InsertAfter (A odd) at position B mod len
//	"init"   Init
//	ring ops (Ring = true): "new" N, "move" N (signed), "unlink" N, "link" with a new ring of N nodes, "do"
type BOp struct {
	K string `json:"k"`
	N int    `json:"n,omitempty"`
	A int    `json:"a,omitempty"`
	B int    `json:"b,omitempty"`
}

type BigCase struct {
	Ring bool  `json:"ring"`
	Ops  []BOp `json:"ops"`
}

func listVals(tl *lists.List[int], sl *list.List) (a, b []int, msg string) {
	limit := sl.Len() + tl.Len() + 10
	for e := tl.Front(); e != nil; e = e.Next() {
		if len(a) > limit {
			return nil, nil, "lists: forward traversal does not end"
		}
		a = append(a, e.Value)
	}
	for e := sl.Front(); e != nil; e = e.Next() {
		b = append(b, e.Value.(int))
	}
	return a, b, ""
}

func eqI(a, b []int) bool {
	if len(a) != len(b) {
		return false
	}
	for i := range a {
		if a[i] != b[i] {
			return false
		}
	}
	return true
}

func nthT(l *lists.List[int], k int) *lists.Element[int] {
	e := l.Front()
	for ; k > 0 && e != nil; k-- {
		e = e.Next()
	}
	return e
}

func nthS(l *list.List, k int) *list.Element {
	e := l.Front()
	for ; k > 0 && e != nil; k-- {
		e = e.Next()
	}
	return e
}

func RunBig(c BigCase) pbt.Outcome {
	if c.Ring {
		return runBigRing(c)
	}
	tl, sl := lists.New[int](), list.New()
	tl2, sl2 := lists.New[int](), list.New()
	next := 0
	maxLen := 0
	for step, op := range c.Ops {
		n := tl.Len()
		switch op.K {
		case "push":
			for i := 0; i < op.N; i++ {
				next++
				if op.A%2 == 0 {
					tl.PushBack(next)
					sl.PushBack(next)
				} else {
					tl.PushFront(next)
					sl.PushFront(next)
				}
				if i%3 == 0 {
					tl2.PushBack(-next)
					sl2.PushBack(-next)
				}
			}
		case "self":
			if n > 4000 {
				continue
			}
			if op.A%2 == 0 {
				tl.PushBackList(tl)
				sl.PushBackList(sl)
			} else {
				tl.PushFrontList(tl)
				sl.PushFrontList(sl)
			}
		case "other":
			if n > 6000 {
				continue
			}
			if op.A%2 == 0 {
				tl.PushBackList(tl2)
				sl.PushBackList(sl2)
			} else {
				tl.PushFrontList(tl2)
				sl.PushFrontList(sl2)
			}
		case "rem":
			for i := 0; i < op.N && tl.Len() > 0 && sl.Len() > 0; i++ {
				k := (op.A + i*7) % sl.Len()
				a, b := tl.Remove(nthT(tl, k)), sl.Remove(nthS(sl, k)).(int)
				if a != b {
					return pbt.Fail("step %d: Remove(element at position %d of %d) returned %d, container/list %d", step, k, n, a, b)
				}
			}
		case "mtf":
			if n == 0 {
				continue
			}
			i, j := op.A%n, op.B%n
			te, se := nthT(tl, i), nthS(sl, i)
			tm, sm := nthT(tl, j), nthS(sl, j)
			switch op.A % 4 {
			case 0:
				tl.MoveToFront(te)
				sl.MoveToFront(se)
			case 1:
				tl.MoveToBack(te)
				sl.MoveToBack(se)
			case 2:
				tl.MoveBefore(te, tm)
				sl.MoveBefore(se, sm)
			default:
				tl.MoveAfter(te, tm)
				sl.MoveAfter(se, sm)
			}
		case "insb":
			if n == 0 {
				continue
			}
			next++
			j := op.B % n
			if op.A%2 == 0 {
				tl.InsertBefore(next, nthT(tl, j))
				sl.InsertBefore(next, nthS(sl, j))
			} else {
				tl.InsertAfter(next, nthT(tl, j))
				sl.InsertAfter(next, nthS(sl, j))
			}
		case "init":
			tl.Init()
			sl.Init()
		}
		if tl.Len() != sl.Len() {
			return pbt.Fail("step %d (%+v): Len = %d, container/list %d", step, op, tl.Len(), sl.Len())
		}
		if tl.Len() > maxLen {
			maxLen = tl.Len()
		}
		a, b, msg := listVals(tl, sl)
		if msg != "" {
			return pbt.Fail("step %d (%+v): %s", step, op, msg)
		}
		if !eqI(a, b) {
			d := 0
			for d < len(a) && d < len(b) && a[d] == b[d] {
				d++
			}
			return pbt.Fail("step %d (%+v): contents differ from container/list at position %d of %d/%d (lists %v..., container/list %v...)", step, op, d, len(a), len(b), tail(a, d), tail(b, d))
		}
		// backward
		var ra, rb []int
		for e := tl.Back(); e != nil && len(ra) <= len(a)+5; e = e.Prev() {
			ra = append(ra, e.Value)
		}
		for e := sl.Back(); e != nil; e = e.Prev() {
			rb = append(rb, e.Value.(int))
		}
		if !eqI(ra, rb) {
			return pbt.Fail("step %d (%+v): backward traversal differs from container/list (%d vs %d elements)", step, op, len(ra), len(rb))
		}
	}
	out := pbt.Outcome{Evals: len(c.Ops), NonTrivial: maxLen >= 65}
	out.Labels = append(out.Labels, sizeLabel("list", maxLen))
	return out
}

func tail(s []int, from int) []int {
	if from > len(s) {
		from = len(s)
	}
	end := from + 6
	if end > len(s) {
		end = len(s)
	}
	return s[from:end]
}

func sizeLabel(what string, n int) string {
	switch {
	case n >= 4097:
		return what + ">=4097"
	case n >= 1025:
		return what + ">=1025"
	case n >= 257:
		return what + ">=257"
	case n >= 65:
		return what + ">=65"
	case n >= 33:
		return what + ">=33"
	}
	return what + "<33"
}

func runBigRing(c BigCase) pbt.Outcome {
	var tr *lists.Ring[int]
	var sr *ring.Ring
	next := 0
	fill := func(n int) (*lists.Ring[int], *ring.Ring) {
		a, b := lists.NewRing[int](n), ring.New(n)
		for i := 0; i < n; i++ {
			next++
			a.Value, b.Value = next, next
			a, b = a.Next(), b.Next()
		}
		return a, b
	}
	maxLen := 0
	for step, op := range c.Ops {
		switch op.K {
		case "new":
			tr, sr = fill(op.N)
		case "move":
			if tr == nil {
				continue
			}
			tr, sr = tr.Move(op.N), sr.Move(op.N)
		case "unlink":
			if tr == nil {
				continue
			}
			a, b := tr.Unlink(op.N), sr.Unlink(op.N)
			if a.Len() != b.Len() {
				return pbt.Fail("step %d: Unlink(%d) removed a ring of %d nodes, container/ring %d", step, op.N, a.Len(), b.Len())
			}
		case "link":
			if tr == nil {
				continue
			}
			a, b := fill(op.N)
			x, y := tr.Link(a), sr.Link(b)
			if (x == nil) != (y == nil) || (x != nil && x.Value != y.Value.(int)) {
				return pbt.Fail("step %d: Link(ring of %d) returned a different node than container/ring", step, op.N)
			}
		}
		if tr == nil {
			continue
		}
		if tr.Len() != sr.Len() {
			return pbt.Fail("step %d (%+v): Len = %d, container/ring %d", step, op, tr.Len(), sr.Len())
		}
		if tr.Len() > maxLen {
			maxLen = tr.Len()
		}
		var a, b []int
		limit := sr.Len() + 5
		tr.Do(func(v int) {
			if len(a) <= limit {
				a = append(a, v)
			}
		})
		sr.Do(func(v any) { b = append(b, v.(int)) })
		if !eqI(a, b) {
			return pbt.Fail("step %d (%+v): Do visits %d values, container/ring %d, or in a different order", step, op, len(a), len(b))
		}
		if tr.Prev().Value != sr.Prev().Value.(int) || tr.Next().Value != sr.Next().Value.(int) {
			return pbt.Fail("step %d (%+v): neighbours of the current node differ from container/ring", step, op)
		}
	}
	out := pbt.Outcome{Evals: len(c.Ops), NonTrivial: maxLen >= 65}
	out.Labels = append(out.Labels, sizeLabel("ring", maxLen))
	return out
}

var specBig = pbt.Register(&pbt.Spec[BigCase]{
	Property: "C06", Name: "C06.big",
	Rule: "long lists and large rings: op lists of bulk pushes (1..700), self/other PushBackList/PushFrontList (doubling), positional Remove/Move*/Insert* runs, Init; rings of up to 3000 nodes with Move/Unlink/Link by large counts; " +
		"elements addressed by position, lock-step against container/list / container/ring, full forward+backward contents compared after every op; non-trivial = structure reached >=65 elements",
	Gen: func(t *rapid.T) BigCase {
		c := BigCase{Ring: rapid.IntRange(0, 2).Draw(t, "ring") == 0}
		sizes := []int{1, 5, 31, 32, 33, 63, 64, 65, 127, 129, 255, 257, 700}
		if c.Ring {
			op := rapid.Custom(func(t *rapid.T) BOp {
				k := rapid.SampledFrom([]string{"new", "move", "move", "unlink", "unlink", "link", "link"}).Draw(t, "k")
				o := BOp{K: k}
				switch k {
				case "new", "link":
					o.N = rapid.SampledFrom(append(sizes, 1025, 3000)).Draw(t, "n")
				case "move":
					o.N = rapid.SampledFrom([]int{-3000, -257, -65, -33, -1, 0, 1, 31, 32, 33, 64, 65, 256, 1000, 5000}).Draw(t, "n")
				case "unlink":
					o.N = rapid.SampledFrom([]int{0, 1, 2, 31, 32, 33, 63, 64, 65, 255, 256, 257, 1024, 4000}).Draw(t, "n")
				}
				return o
			})
			c.Ops = append([]BOp{{K: "new", N: rapid.SampledFrom(sizes).Draw(t, "n0")}}, pbt.OpsOf(t, op, []int{2, 5, 10}, "ops")...)
			return c
		}
		op := rapid.Custom(func(t *rapid.T) BOp {
			k := rapid.SampledFrom([]string{"push", "push", "self", "other", "rem", "rem", "mtf", "mtf", "insb", "init"}).Draw(t, "k")
			if k == "init" && rapid.IntRange(0, 3).Draw(t, "rare") != 0 {
				k = "push"
			}
			o := BOp{K: k, A: rapid.IntRange(0, 5000).Draw(t, "a"), B: rapid.IntRange(0, 5000).Draw(t, "b")}
			if k == "push" || k == "rem" {
				o.N = rapid.SampledFrom(sizes).Draw(t, "n")
			}
			return o
		})
		c.Ops = pbt.OpsOf(t, op, []int{2, 5, 10, 16}, "ops")
		return c
	},
	Run: RunBig, Quick: 700, Thorough: 8000, Crashy: true,
})

func TestC06Big(t *testing.T) { pbt.Check(t, specBig) }

var _ = fmt.Sprint
