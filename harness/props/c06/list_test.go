// Package c06 decides C06: lists.List/Element and lists.Ring are observationally
// identical to container/list and container/ring (lock-step differential check).
package c06

import (
	"container/list"
	"fmt"
	"strings"
	"testing"
	"time"

	"gopkg.in/typ.v4/lists"
	"pgregory.net/rapid"
	"verifharness/internal/pbt"
)

// LOp is one list operation. Kinds: pushf pushb insb insa rem mtf mtb mvb mva
// pbl pfl init front back len. L selects the receiver list, M the other list of
// PushBackList/PushFrontList (may be the same), A and B are raw handle numbers
// (B is the mark of MoveBefore/MoveAfter). S&3 says where A is looked up: 0 the
// whole handle table, 1 the current elements of list L, 2 the removed handles,
// 3 the elements of the other lists (1-3 fall back to 0 when that class is empty);
// (S>>2)&3 does the same for B.
type LOp struct {
	K string `json:"k"`
	L int    `json:"l"`
	M int    `json:"m"`
	A int    `json:"a"`
	B int    `json:"b"`
	S int    `json:"s"`
}

type ListCase struct {
	Lists []int `json:"lists"` // one entry per list: 0 = zero value, 1 = New()
	Ops   []LOp `json:"ops"`
	// StaleOK: handles orphaned by Init() of a non-empty list stay usable. Both implementations then go through the
	// same strange states (elements chained to a list whose Len is 0, a nil dereference on both sides, ...): still a
	// differential check, a panic on both sides ends the case as agreed.
	StaleOK bool `json:"stale_ok,omitempty"`
}

const listRule = "case = 2-3 lists (zero value or New()) x <=60 ops PushFront/PushBack/InsertBefore/InsertAfter/Remove/MoveToFront/" +
	"MoveToBack/MoveBefore/MoveAfter/PushBackList/PushFrontList (other list or itself)/Init/Front/Back/Len, plus by-value copies of zero-value lists that were only read so far and by-value copies of used lists that are re-initialised with Init() at once (an independent empty list; the original keeps its elements), executed in lock-step on " +
	"lists.List[any] and container/list through parallel handle tables (handle 0 = foreign unattached &Element{}); handles are picked from the " +
	"whole table (own list, other list, removed, unattached) or, by selector, among the receiver's elements; after EVERY op: return values, " +
	"Len, capped forward and backward traversals of every list mapped to handle indices, and Next/Prev/Value of every handle must agree; a panic " +
	"on exactly one side is a violation; handles orphaned by Init of a non-empty list are dropped (excluded by construction) in three cases of four and kept usable in the fourth (both sides then share the same strange states; a panic on both sides ends the case as agreed); " +
	"non-trivial = >=8 ops, >=1 op given a removed/foreign/other-list handle that both sides ignored, >=1 PushBackList/PushFrontList of a non-empty list onto itself"

const (
	idxNil     = -1
	idxUnknown = -2
	listCap    = 40 // a PushList that would make a list longer than this is not executed
	tableCap   = 96 // element-creating ops are not executed when the handle table is this full
)

func mod(x, n int) int { return ((x % n) + n) % n }

// try runs f and returns the recovered panic value, if any.
func try(f func()) (p any, panicked bool) {
	defer func() {
		if r := recover(); r != nil {
			p, panicked = r, true
		}
	}()
	f()
	return nil, false
}

type labelSet struct{ l []string }

func (s *labelSet) add(x string) {
	for _, y := range s.l {
		if x == y {
			return
		}
	}
	s.l = append(s.l, x)
}

type lstate struct {
	tl      []*lists.List[any]
	sl      []*list.List
	virgin  []bool // zero-value list on which no initialising op ran yet
	te      []*lists.Element[any]
	se      []*list.Element
	stale   []bool // orphaned by Init of a non-empty list: never used again
	staleOK bool   // this case keeps such handles usable: unknown elements (e.g. a list's own sentinel) may then show up in traversals on BOTH sides
	everIn  []bool // was in a list at some point
	owner   []int  // list index per handle according to the last agreed traversal, -1 none
	fwd     [][]int
}

func (s *lstate) tIdx(e *lists.Element[any]) int {
	if e == nil {
		return idxNil
	}
	if v, ok := e.Value.(int); ok && v >= 0 && v < len(s.te) && s.te[v] == e {
		return v
	}
	for i, h := range s.te {
		if h == e {
			return i
		}
	}
	return idxUnknown
}

func (s *lstate) sIdx(e *list.Element) int {
	if e == nil {
		return idxNil
	}
	if v, ok := e.Value.(int); ok && v >= 0 && v < len(s.se) && s.se[v] == e {
		return v
	}
	for i, h := range s.se {
		if h == e {
			return i
		}
	}
	return idxUnknown
}

func (s *lstate) register(t *lists.Element[any], e *list.Element) int {
	id := len(s.te)
	s.te = append(s.te, t)
	s.se = append(s.se, e)
	s.stale = append(s.stale, false)
	s.everIn = append(s.everIn, false)
	s.owner = append(s.owner, -1)
	return id
}

func idxName(i int) string {
	switch i {
	case idxNil:
		return "nil"
	case idxUnknown:
		return "<element not in the handle table>"
	}
	return fmt.Sprintf("h%d", i)
}

func seqName(q []int) string {
	var b strings.Builder
	b.WriteByte('[')
	for i, x := range q {
		if i > 0 {
			b.WriteByte(' ')
		}
		b.WriteString(idxName(x))
	}
	b.WriteByte(']')
	return b.String()
}

// check compares the whole observable state of both sides. It registers
// elements that appear at the same traversal position on both sides and are
// unknown to both (the copies made by PushBackList/PushFrontList).
func (s *lstate) check() string {
	limit := len(s.te) + listCap + 8
	for li := range s.tl {
		tl, sl := s.tl[li], s.sl[li]
		if a, b := tl.Len(), sl.Len(); a != b {
			return fmt.Sprintf("list %d: Len() = %d, container/list has %d", li, a, b)
		}
		var tf []*lists.Element[any]
		for e := tl.Front(); e != nil; e = e.Next() {
			if len(tf) > limit {
				return fmt.Sprintf("list %d: forward traversal Front()/Next() did not end after %d steps (container/list Len=%d): structure corrupted", li, limit, sl.Len())
			}
			tf = append(tf, e)
		}
		var sf []*list.Element
		for e := sl.Front(); e != nil; e = e.Next() {
			if len(sf) > limit {
				return fmt.Sprintf("list %d: HARNESS: container/list forward traversal did not end after %d steps", li, limit)
			}
			sf = append(sf, e)
		}
		seq := s.fwd[li][:0]
		tseq := make([]int, 0, len(tf))
		for _, e := range tf {
			tseq = append(tseq, s.tIdx(e))
		}
		sseq := make([]int, 0, len(sf))
		for _, e := range sf {
			sseq = append(sseq, s.sIdx(e))
		}
		if len(tf) != len(sf) {
			return fmt.Sprintf("list %d: forward traversal has %d elements %s, container/list has %d %s", li, len(tf), seqName(tseq), len(sf), seqName(sseq))
		}
		for p := range tf {
			ti, si := tseq[p], sseq[p]
			if ti == idxUnknown && si == idxUnknown {
				if tf[p].Value != sf[p].Value {
					return fmt.Sprintf("list %d: new element at position %d has Value %v, container/list has %v", li, p, tf[p].Value, sf[p].Value)
				}
				id := s.register(tf[p], sf[p])
				tf[p].Value, sf[p].Value = id, id // the client owns Value: give the copy its own identity
				ti, si = id, id
				tseq[p], sseq[p] = id, id
			}
			if ti != si {
				return fmt.Sprintf("list %d: forward traversal %s, container/list %s (differ at position %d)", li, seqName(tseq), seqName(sseq), p)
			}
			seq = append(seq, ti)
		}
		s.fwd[li] = seq
		// backward
		tb := make([]int, 0, len(tf))
		for e := tl.Back(); e != nil; e = e.Prev() {
			if len(tb) > limit {
				return fmt.Sprintf("list %d: backward traversal Back()/Prev() did not end after %d steps (container/list Len=%d): structure corrupted", li, limit, sl.Len())
			}
			tb = append(tb, s.tIdx(e))
		}
		sb := make([]int, 0, len(sf))
		for e := sl.Back(); e != nil; e = e.Prev() {
			if len(sb) > limit {
				return fmt.Sprintf("list %d: HARNESS: container/list backward traversal did not end after %d steps", li, limit)
			}
			sb = append(sb, s.sIdx(e))
		}
		if len(tb) != len(sb) {
			return fmt.Sprintf("list %d: backward traversal %s, container/list %s", li, seqName(tb), seqName(sb))
		}
		for p := range tb {
			if tb[p] != sb[p] || (tb[p] == idxUnknown && !s.staleOK) {
				return fmt.Sprintf("list %d: backward traversal %s, container/list %s (differ at position %d)", li, seqName(tb), seqName(sb), p)
			}
		}
	}
	for i := range s.owner {
		s.owner[i] = -1
	}
	for li, q := range s.fwd {
		for _, h := range q {
			s.owner[h] = li
			s.everIn[h] = true
		}
	}
	for i := range s.te {
		if s.stale[i] {
			continue
		}
		if a, b := s.tIdx(s.te[i].Next()), s.sIdx(s.se[i].Next()); a != b {
			return fmt.Sprintf("h%d.Next() = %s, container/list gives %s", i, idxName(a), idxName(b))
		}
		if a, b := s.tIdx(s.te[i].Prev()), s.sIdx(s.se[i].Prev()); a != b {
			return fmt.Sprintf("h%d.Prev() = %s, container/list gives %s", i, idxName(a), idxName(b))
		}
		if a, b := s.te[i].Value, s.se[i].Value; a != b {
			return fmt.Sprintf("h%d.Value = %v, container/list has %v", i, a, b)
		}
	}
	return ""
}

func (s *lstate) hash() uint64 {
	h := uint64(14695981039346656037)
	for _, q := range s.fwd {
		for _, x := range q {
			h = (h ^ uint64(x+7)) * 1099511628211
		}
		h = (h ^ 0xffff) * 1099511628211
	}
	return h
}

func (s *lstate) class(h, l int) string {
	switch {
	case s.owner[h] == l:
		return "own"
	case s.owner[h] >= 0:
		return "other-list"
	case s.everIn[h]:
		return "removed"
	}
	return "unattached"
}

func RunList(c ListCase) pbt.Outcome {
	var out pbt.Outcome
	var labels labelSet
	s := &lstate{staleOK: c.StaleOK}
	nl := len(c.Lists)
	if nl == 0 {
		return out
	}
	for _, k := range c.Lists {
		if k == 0 {
			s.tl = append(s.tl, new(lists.List[any]))
			s.sl = append(s.sl, new(list.List))
			s.virgin = append(s.virgin, true)
		} else {
			s.tl = append(s.tl, lists.New[any]())
			s.sl = append(s.sl, list.New())
			s.virgin = append(s.virgin, false)
		}
		s.fwd = append(s.fwd, nil)
	}
	s.register(&lists.Element[any]{}, &list.Element{})

	trace := make([]string, 0, len(c.Ops))
	fail := func(step int, format string, a ...any) pbt.Outcome {
		o := pbt.Fail("op #%d %s: %s", step, trace[len(trace)-1], fmt.Sprintf(format, a...))
		o.Observed = map[string]any{"resolved_ops": trace}
		return o
	}
	if m := s.check(); m != "" {
		trace = append(trace, "(initial state)")
		return fail(-1, "%s", m)
	}

	ignoredForeign, selfPush, executed, redirected := 0, 0, 0, false
	maxLen := 0

	// pick resolves a raw handle number. mode 0: whole table; 1: among the elements of list l;
	// 2: among the removed handles; 3: among the elements of the other lists (each falling back
	// to the whole table when that class is empty).
	pick := func(raw, mode, l int) int {
		switch mode {
		case 1:
			if len(s.fwd[l]) > 0 {
				return s.fwd[l][mod(raw, len(s.fwd[l]))]
			}
		case 2, 3:
			n := 0
			for pass := 0; pass < 2; pass++ {
				k := 0
				for h := range s.te {
					if s.stale[h] {
						continue
					}
					in := (mode == 2 && s.owner[h] < 0 && s.everIn[h]) || (mode == 3 && s.owner[h] >= 0 && s.owner[h] != l)
					if !in {
						continue
					}
					if pass == 1 && k == mod(raw, n) {
						return h
					}
					k++
				}
				if n = k; n == 0 {
					break
				}
			}
		}
		i := mod(raw, len(s.te))
		for s.stale[i] {
			redirected = true
			i = (i + 1) % len(s.te)
		}
		return i
	}

	for step, op := range c.Ops {
		l := mod(op.L, nl)
		m := mod(op.M, nl)
		tl, sl := s.tl[l], s.sl[l]
		before := s.hash()
		var a, b int
		nonOwn := ""
		desc := ""
		if s.virgin[l] {
			labels.add("zero-value-list:" + op.K)
		}

		// results
		var tE *lists.Element[any]
		var sE *list.Element
		var tV, sV any
		var tN, sN int
		var tRun, sRun func()
		returns := "" // "new" | "elem" | "value" | "int" | ""

		switch op.K {
		case "pushf", "pushb":
			if len(s.te) >= tableCap {
				labels.add("cap-skip")
				continue
			}
			id := len(s.te)
			desc = fmt.Sprintf("list%d.%s(%d)", l, map[string]string{"pushf": "PushFront", "pushb": "PushBack"}[op.K], id)
			if op.K == "pushf" {
				tRun, sRun = func() { tE = tl.PushFront(id) }, func() { sE = sl.PushFront(id) }
			} else {
				tRun, sRun = func() { tE = tl.PushBack(id) }, func() { sE = sl.PushBack(id) }
			}
			returns = "new"
			s.virgin[l] = false
		case "insb", "insa":
			if len(s.te) >= tableCap {
				labels.add("cap-skip")
				continue
			}
			a = pick(op.A, op.S&3, l)
			cl := s.class(a, l)
			labels.add(op.K + ":mark=" + cl)
			if cl != "own" {
				nonOwn = op.K + ":" + cl
			}
			id := len(s.te)
			te, se := s.te[a], s.se[a]
			if op.K == "insb" {
				desc = fmt.Sprintf("list%d.InsertBefore(%d, h%d[%s])", l, id, a, cl)
				tRun, sRun = func() { tE = tl.InsertBefore(id, te) }, func() { sE = sl.InsertBefore(id, se) }
			} else {
				desc = fmt.Sprintf("list%d.InsertAfter(%d, h%d[%s])", l, id, a, cl)
				tRun, sRun = func() { tE = tl.InsertAfter(id, te) }, func() { sE = sl.InsertAfter(id, se) }
			}
			returns = "new"
		case "rem", "mtf", "mtb":
			a = pick(op.A, op.S&3, l)
			cl := s.class(a, l)
			labels.add(op.K + ":e=" + cl)
			if cl != "own" {
				nonOwn = op.K + ":" + cl
			}
			te, se := s.te[a], s.se[a]
			switch op.K {
			case "rem":
				desc = fmt.Sprintf("list%d.Remove(h%d[%s])", l, a, cl)
				tRun, sRun = func() { tV = tl.Remove(te) }, func() { sV = sl.Remove(se) }
				returns = "value"
			case "mtf":
				desc = fmt.Sprintf("list%d.MoveToFront(h%d[%s])", l, a, cl)
				tRun, sRun = func() { tl.MoveToFront(te) }, func() { sl.MoveToFront(se) }
				if cl == "own" && s.fwd[l][0] == a {
					labels.add("mtf:already-front")
				}
			case "mtb":
				desc = fmt.Sprintf("list%d.MoveToBack(h%d[%s])", l, a, cl)
				tRun, sRun = func() { tl.MoveToBack(te) }, func() { sl.MoveToBack(se) }
				if cl == "own" && s.fwd[l][len(s.fwd[l])-1] == a {
					labels.add("mtb:already-back")
				}
			}
		case "mvb", "mva":
			a = pick(op.A, op.S&3, l)
			b = pick(op.B, (op.S>>2)&3, l)
			ca, cb := s.class(a, l), s.class(b, l)
			labels.add("move:e=" + ca)
			labels.add("move:mark=" + cb)
			switch {
			case a == b:
				labels.add("move:e==mark")
			case ca == "own" && cb == "own":
				labels.add("move:both-own")
				q := s.fwd[l]
				for p := 0; p+1 < len(q); p++ {
					if op.K == "mvb" && q[p] == a && q[p+1] == b {
						labels.add("mvb:e-already-before-mark")
					}
					if op.K == "mva" && q[p] == b && q[p+1] == a {
						labels.add("mva:e-already-after-mark")
					}
				}
			default:
				nonOwn = op.K + ":" + ca + "/" + cb
				if ca == "own" {
					labels.add("move:own-e/foreign-mark")
				} else if cb == "own" {
					labels.add("move:foreign-e/own-mark")
				}
			}
			te, se, tm, sm := s.te[a], s.se[a], s.te[b], s.se[b]
			if op.K == "mvb" {
				desc = fmt.Sprintf("list%d.MoveBefore(h%d[%s], h%d[%s])", l, a, ca, b, cb)
				tRun, sRun = func() { tl.MoveBefore(te, tm) }, func() { sl.MoveBefore(se, sm) }
			} else {
				desc = fmt.Sprintf("list%d.MoveAfter(h%d[%s], h%d[%s])", l, a, ca, b, cb)
				tRun, sRun = func() { tl.MoveAfter(te, tm) }, func() { sl.MoveAfter(se, sm) }
			}
		case "pbl", "pfl":
			n := len(s.fwd[m])
			if len(s.fwd[l])+n > listCap || len(s.te)+n > tableCap {
				labels.add("cap-skip")
				continue
			}
			switch {
			case l == m && n > 0:
				selfPush++
				labels.add(op.K + ":self")
				if n >= 3 {
					labels.add(op.K + ":self>=3")
				}
			case l == m:
				labels.add(op.K + ":self-empty")
			case n > 0:
				labels.add(op.K + ":other")
			default:
				labels.add(op.K + ":other-empty")
			}
			if s.virgin[m] {
				labels.add(op.K + ":zero-value-source")
			}
			to, so := s.tl[m], s.sl[m]
			if op.K == "pbl" {
				desc = fmt.Sprintf("list%d.PushBackList(list%d)", l, m)
				tRun, sRun = func() { tl.PushBackList(to) }, func() { sl.PushBackList(so) }
			} else {
				desc = fmt.Sprintf("list%d.PushFrontList(list%d)", l, m)
				tRun, sRun = func() { tl.PushFrontList(to) }, func() { sl.PushFrontList(so) }
			}
			s.virgin[l] = false
		case "init":
			desc = fmt.Sprintf("list%d.Init()", l)
			var tr *lists.List[any]
			var sr *list.List
			tRun, sRun = func() {
				tr = tl.Init()
				tN = 0
				if tr == tl {
					tN = 1
				}
			}, func() {
				sr = sl.Init()
				sN = 0
				if sr == sl {
					sN = 1
				}
			}
			returns = "int"
			if len(s.fwd[l]) > 0 {
				if c.StaleOK {
					labels.add("init:non-empty(stale handles kept)")
				} else {
					labels.add("init:non-empty(handles dropped)")
					for _, h := range s.fwd[l] {
						s.stale[h] = true
					}
				}
			} else {
				labels.add("init:empty")
			}
			s.virgin[l] = false
		case "copyzero":
			// a zero-value list that has only been READ so far (Len/Front/Back, or used as the source of a
			// PushBackList/PushFrontList) is still the zero value and may be copied by value; the copy must be
			// an independent, pristine list
			if !s.virgin[l] {
				continue
			}
			nt, ns := *s.tl[l], *s.sl[l]
			s.tl[l], s.sl[l] = &nt, &ns
			labels.add("zero-list-copied-by-value")
			continue
		case "copyinit":
			// list m is replaced by a by-value COPY of the used list l that is re-initialised with Init() at once: with
			// container/list that is an independent empty list, and the original keeps its elements
			m := mod(op.M, len(s.tl))
			if m == l {
				continue
			}
			desc = fmt.Sprintf("list%d = copy of list%d by value; list%d.Init()", m, l, m)
			for _, h := range s.fwd[m] {
				s.stale[h] = true // the old list m is abandoned with its elements
			}
			nt, ns := *s.tl[l], *s.sl[l]
			s.tl[m], s.sl[m] = &nt, &ns
			tRun, sRun = func() { nt.Init(); tN = nt.Len() }, func() { ns.Init(); sN = ns.Len() }
			returns = "int"
			s.virgin[m] = false
			labels.add("used-list-copied-by-value-and-reinitialised")
		case "front":
			desc = fmt.Sprintf("list%d.Front()", l)
			tRun, sRun = func() { tE = tl.Front() }, func() { sE = sl.Front() }
			returns = "elem"
		case "back":
			desc = fmt.Sprintf("list%d.Back()", l)
			tRun, sRun = func() { tE = tl.Back() }, func() { sE = sl.Back() }
			returns = "elem"
		case "len":
			desc = fmt.Sprintf("list%d.Len()", l)
			tRun, sRun = func() { tN = tl.Len() }, func() { sN = sl.Len() }
			returns = "int"
		default:
			continue
		}
		trace = append(trace, desc)
		executed++

		tp, tPan := try(tRun)
		sp, sPan := try(sRun)
		switch {
		case tPan && sPan:
			labels.add("both-panicked")
			out.Labels = labels.l
			out.Evals = executed
			return out
		case tPan:
			return fail(step, "lists panicked (%v), container/list did not", tp)
		case sPan:
			return fail(step, "container/list panicked (%v), lists did not", sp)
		}
		switch returns {
		case "new":
			if (tE == nil) != (sE == nil) {
				return fail(step, "returned nil: %v, container/list returned nil: %v", tE == nil, sE == nil)
			}
			if tE != nil {
				if ti := s.tIdx(tE); ti != idxUnknown {
					return fail(step, "returned the existing element h%d, container/list returned a new element", ti)
				}
				if si := s.sIdx(sE); si != idxUnknown {
					return fail(step, "HARNESS: container/list returned existing element h%d", si)
				}
				if tE.Value != sE.Value {
					return fail(step, "new element has Value %v, container/list has %v", tE.Value, sE.Value)
				}
				s.register(tE, sE)
			}
		case "elem":
			if ti, si := s.tIdx(tE), s.sIdx(sE); ti != si {
				return fail(step, "returned %s, container/list returned %s", idxName(ti), idxName(si))
			}
		case "value":
			if tV != sV {
				return fail(step, "returned %v, container/list returned %v", tV, sV)
			}
		case "int":
			if tN != sN {
				return fail(step, "returned %d, container/list returned %d", tN, sN)
			}
		}
		if m := s.check(); m != "" {
			return fail(step, "afterwards %s", m)
		}
		if nonOwn != "" && s.hash() == before {
			ignoredForeign++
			labels.add("ignored:" + nonOwn)
		}
		for _, q := range s.fwd {
			if len(q) > maxLen {
				maxLen = len(q)
			}
		}
	}

	out.Evals = executed
	out.NonTrivial = executed >= 8 && ignoredForeign >= 1 && selfPush >= 1
	if redirected {
		// the generator would have used a handle orphaned by Init: excluded by construction
		out.Skipped = true
		labels.add("stale-handle-avoided")
	}
	switch {
	case executed < 8:
		labels.add("ops<8")
	case executed < 20:
		labels.add("ops:8-19")
	default:
		labels.add("ops>=20")
	}
	switch {
	case maxLen >= 16:
		labels.add("maxlen>=16")
	case maxLen >= 6:
		labels.add("maxlen:6-15")
	}
	if ignoredForeign > 0 {
		labels.add("NT:foreign-handle-ignored")
	}
	if selfPush > 0 {
		labels.add("NT:self-pushlist")
	}
	out.Labels = labels.l
	return out
}

var listKinds = func() []string {
	w := []struct {
		k string
		n int
	}{{"pushf", 9}, {"pushb", 9}, {"insb", 7}, {"insa", 7}, {"rem", 10}, {"mtf", 6}, {"mtb", 6}, {"mvb", 9}, {"mva", 9},
		{"pbl", 5}, {"pfl", 5}, {"init", 2}, {"front", 2}, {"back", 2}, {"len", 2}, {"copyzero", 2}, {"copyinit", 2}}
	var r []string
	for _, x := range w {
		for i := 0; i < x.n; i++ {
			r = append(r, x.k)
		}
	}
	return r
}()

func genList(t *rapid.T) ListCase {
	c := ListCase{Lists: rapid.SliceOfN(rapid.IntRange(0, 1), 2, 3).Draw(t, "lists")}
	modes := []int{0, 0, 1, 1, 1, 1, 2, 3}
	op := rapid.Custom(func(t *rapid.T) LOp {
		o := LOp{K: rapid.SampledFrom(listKinds).Draw(t, "k"), L: rapid.IntRange(0, 2).Draw(t, "l")}
		switch o.K {
		case "pbl", "pfl":
			o.M = rapid.IntRange(0, 2).Draw(t, "m")
			if rapid.IntRange(0, 2).Draw(t, "self") == 0 {
				o.M = o.L
			}
		case "insb", "insa", "rem", "mtf", "mtb":
			o.A = rapid.IntRange(0, tableCap-1).Draw(t, "a")
			o.S = rapid.SampledFrom(modes).Draw(t, "s")
		case "mvb", "mva":
			o.A = rapid.IntRange(0, tableCap-1).Draw(t, "a")
			o.B = rapid.IntRange(0, tableCap-1).Draw(t, "b")
			o.S = rapid.SampledFrom(modes).Draw(t, "sa") | rapid.SampledFrom([]int{0, 0, 1, 1, 1, 1, 1, 2, 3}).Draw(t, "sb")<<2
		}
		return o
	})
	c.Ops = pbt.OpsOf(t, op, []int{0, 3, 8, 8, 16, 16, 27, 27}, "ops")
	c.StaleOK = rapid.IntRange(0, 3).Draw(t, "staleok") == 0
	return c
}

var specList = pbt.Register(&pbt.Spec[ListCase]{
	Property: "C06", Name: "C06.list", Rule: listRule,
	Gen: genList, Run: RunList, Quick: 50000, Thorough: 300000, Replicas: 4, ReplicaEvery: 16,
	Crashy: true, CaseCPU: 10 * time.Second,
})

func TestC06List(t *testing.T) { pbt.Check(t, specList) }
func TestReplay(t *testing.T)  { pbt.Replay(t) }

// native fuzz target (engine E6, thorough tier)
func FuzzC06List(f *testing.F) { pbt.Fuzz(f, specList) }
