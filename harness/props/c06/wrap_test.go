package c06

import (
	"container/ring"
	"fmt"
	"testing"

	"gopkg.in/typ.v4/lists"
	"verifharness/internal/pbt"
)

// WCase (thorough tier only): Len of a ring element is asked, then exactly N structure-changing Link calls happen in
// the process (joins and splits of the same two one-element rings, Extra of them on an unrelated pair of rings of
// another element type), then Len is asked again: no counter of changes may wrap into a stale answer.
type WCase struct {
	N     int64 `json:"n"`
	Extra int   `json:"extra"`
}

func RunRingWrap(c WCase) pbt.Outcome {
	r, s := lists.NewRing[int](1), lists.NewRing[int](1)
	r.Value, s.Value = 1, 2
	sr, ss := ring.New(1), ring.New(1)
	sr.Value, ss.Value = 1, 2
	if r.Len() != 1 || s.Len() != 1 {
		return pbt.Fail("initial Len of one-element rings: %d, %d", r.Len(), s.Len())
	}
	for i := 0; i < c.Extra; i++ {
		a, b := lists.NewRing[string](1), lists.NewRing[string](1)
		a.Link(b)
		if a.Len() != 2 {
			return pbt.Fail("unrelated ring: Len %d after joining two one-element rings", a.Len())
		}
	}
	total := c.N - int64(c.Extra)
	const tail = 2001
	joined := false
	for i := int64(0); i < total; i++ {
		mirror := i >= total-tail
		if joined {
			r.Link(r) // r.Next() becomes r: s is cut out again
			if mirror {
				sr.Link(sr)
			}
		} else {
			r.Link(s)
			if mirror {
				sr.Link(ss)
			}
		}
		joined = !joined
	}
	var vals []int
	r.Do(func(v int) {
		if len(vals) < 5 {
			vals = append(vals, v)
		}
	})
	want := 1
	if joined {
		want = 2
	}
	if len(vals) != want {
		return pbt.Fail("after %d structure-changing Link calls Do visits %v, want %d values", c.N, vals, want)
	}
	if got := r.Len(); got != want {
		return pbt.Fail("Len of a ring element asked once, then exactly %d structure-changing Link calls in the process (%d of them on unrelated rings of another element type): r.Len() = %d although Do visits %v", c.N, c.Extra, got, vals)
	}
	if got := s.Len(); got != want {
		return pbt.Fail("after %d structure-changing Link calls s.Len() = %d, want %d", c.N, got, want)
	}
	return pbt.Outcome{Evals: 1, NonTrivial: c.N >= 1<<32, Labels: []string{fmt.Sprintf("links=%d", c.N)}}
}

var specRingWrap = pbt.Register(&pbt.Spec[WCase]{
	Property: "C06", Name: "C06.wrap",
	Rule: "thorough tier only: Len of a ring element, then exactly 2^32 (and 2^32-1, 2^32+1, 2^16, 2^24) structure-changing Link calls in the process (joins and splits of two one-element rings; 0..1 on unrelated rings), then Len again " +
		"(must equal what Do visits); non-trivial = >= 2^32 calls",
	Enum: func(shard, shards int, tier string, yield func(WCase) bool) {
		cases := []WCase{{1 << 32, 1}, {1<<32 - 1, 0}, {1<<32 + 1, 1}, {1 << 32, 0}, {1 << 16, 1}, {1 << 24, 0}, {1<<16 - 1, 0}, {1<<16 + 1, 1}}
		for i, c := range cases {
			if i%shards == shard && !yield(c) {
				return
			}
		}
	},
	Run: RunRingWrap, Exhaustive: true, CaseCPU: 1200e9,
})

func TestC06Wrap(t *testing.T) { pbt.Check(t, specRingWrap) }
