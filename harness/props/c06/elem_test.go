package c06

import (
	"container/list"
	"container/ring"
	"fmt"
	"testing"

	"gopkg.in/typ.v4/lists"
	"verifharness/internal/pbt"
)

// ECase: a fixed walk through the ring and list API at one element type and size. The element type must not
// matter: zero-sized, odd-sized, pointer-carrying and very large (64 KiB .. 1 MiB) elements all behave like
// container/ring and container/list holding the element's serial number.
type ECase struct {
	Type string `json:"type"`
	N    int    `json:"n"`
	M    int    `json:"m"` // size of the second ring / number of elements moved
}

type big64k [1 << 16]byte
type big70k [70001]byte
type big1m [1 << 20]byte
type odd3 [3]byte
type withPtr struct {
	p *int
	s string
	f func() int
}

func runElemType[T any](c ECase, mk func(i int) T, un func(T) int) pbt.Outcome {
	what := fmt.Sprintf("element type %s", c.Type)
	// ---- rings
	tr, sr := lists.NewRing[T](c.N), ring.New(c.N)
	if (tr == nil) != (sr == nil) {
		return pbt.Fail("%s: NewRing(%d) nil=%v, container/ring nil=%v", what, c.N, tr == nil, sr == nil)
	}
	serial := 0
	fill := func(a *lists.Ring[T], b *ring.Ring, n int) {
		for i := 0; i < n; i++ {
			serial++
			a.Value, b.Value = mk(serial), serial
			a, b = a.Next(), b.Next()
		}
	}
	same := func(stage string, a *lists.Ring[T], b *ring.Ring) string {
		if a.Len() != b.Len() {
			return fmt.Sprintf("%s: %s: Len = %d, container/ring %d", what, stage, a.Len(), b.Len())
		}
		if a == nil {
			return ""
		}
		var x, y []int
		lim := b.Len() + 3
		a.Do(func(v T) {
			if len(x) < lim {
				x = append(x, un(v))
			}
		})
		b.Do(func(v any) { y = append(y, v.(int)) })
		if !eqI(x, y) {
			return fmt.Sprintf("%s: %s: Do visits %v, container/ring %v", what, stage, x, y)
		}
		p, q := a, b
		for i := 0; i < b.Len()+1; i++ {
			p, q = p.Prev(), q.Prev()
			if un(p.Value) != q.Value.(int) {
				return fmt.Sprintf("%s: %s: %d steps backwards the value is %d, container/ring %d", what, stage, i+1, un(p.Value), q.Value.(int))
			}
		}
		return ""
	}
	if tr != nil {
		fill(tr, sr, c.N)
		if msg := same("NewRing + values", tr, sr); msg != "" {
			return pbt.Fail("%s", msg)
		}
		tr, sr = tr.Move(c.M), sr.Move(c.M)
		if msg := same("Move", tr, sr); msg != "" {
			return pbt.Fail("%s", msg)
		}
		t2, s2 := lists.NewRing[T](c.M), ring.New(c.M)
		if t2 != nil {
			fill(t2, s2, c.M)
			x, y := tr.Link(t2), sr.Link(s2)
			if un(x.Value) != y.Value.(int) {
				return pbt.Fail("%s: Link(ring of %d) returned node %d, container/ring %d", what, c.M, un(x.Value), y.Value.(int))
			}
			if msg := same("Link", tr, sr); msg != "" {
				return pbt.Fail("%s", msg)
			}
		}
		u, v := tr.Unlink(c.M+1), sr.Unlink(c.M+1)
		if msg := same("Unlink (removed part)", u, v); msg != "" {
			return pbt.Fail("%s", msg)
		}
		if msg := same("Unlink (rest)", tr, sr); msg != "" {
			return pbt.Fail("%s", msg)
		}
	}
	// ---- lists
	tl, sl := lists.New[T](), list.New()
	cmp := func(stage string) string {
		if tl.Len() != sl.Len() {
			return fmt.Sprintf("%s: list %s: Len = %d, container/list %d", what, stage, tl.Len(), sl.Len())
		}
		a, b := tl.Front(), sl.Front()
		for i := 0; b != nil; i++ {
			if a == nil || un(a.Value) != b.Value.(int) {
				return fmt.Sprintf("%s: list %s: position %d differs from container/list", what, stage, i)
			}
			a, b = a.Next(), b.Next()
		}
		if a != nil {
			return fmt.Sprintf("%s: list %s: longer than container/list", what, stage)
		}
		a, b = tl.Back(), sl.Back()
		for i := 0; b != nil; i++ {
			if a == nil || un(a.Value) != b.Value.(int) {
				return fmt.Sprintf("%s: list %s: position %d from the back differs from container/list", what, stage, i)
			}
			a, b = a.Prev(), b.Prev()
		}
		return ""
	}
	for i := 0; i < c.N; i++ {
		serial++
		if i%2 == 0 {
			tl.PushBack(mk(serial))
			sl.PushBack(serial)
		} else {
			tl.PushFront(mk(serial))
			sl.PushFront(serial)
		}
	}
	if msg := cmp("after pushes"); msg != "" {
		return pbt.Fail("%s", msg)
	}
	if c.N >= 2 {
		for i := 0; i < c.M+1; i++ {
			tl.MoveToFront(tl.Back())
			sl.MoveToFront(sl.Back())
		}
		serial++
		tl.InsertAfter(mk(serial), tl.Front())
		sl.InsertAfter(serial, sl.Front())
		if got, want := un(tl.Remove(tl.Back())), sl.Remove(sl.Back()).(int); got != want {
			return pbt.Fail("%s: list Remove(Back) returned %d, container/list %d", what, got, want)
		}
		other, sother := lists.New[T](), list.New()
		serial++
		other.PushBack(mk(serial))
		sother.PushBack(serial)
		tl.PushBackList(other)
		sl.PushBackList(sother)
		tl.PushFrontList(tl)
		sl.PushFrontList(sl)
		if msg := cmp("after moves, insert, remove, PushBackList, PushFrontList(self)"); msg != "" {
			return pbt.Fail("%s", msg)
		}
	}
	return pbt.Outcome{Evals: 1, NonTrivial: c.N >= 2, Labels: []string{"elem=" + c.Type}}
}

func RunElemType(c ECase) (out pbt.Outcome) {
	defer func() {
		if p := recover(); p != nil {
			out = pbt.Fail("rings / lists of element type %s (n=%d, m=%d) panicked: %v", c.Type, c.N, c.M, p)
		}
	}()
	switch c.Type {
	case "[3]byte":
		return runElemType(c, func(i int) odd3 { return odd3{byte(i), byte(i >> 8), byte(i >> 16)} }, func(v odd3) int { return int(v[0]) | int(v[1])<<8 | int(v[2])<<16 })
	case "string":
		return runElemType(c, func(i int) string { return fmt.Sprint(i) }, func(v string) int { n := 0; fmt.Sscan(v, &n); return n })
	case "struct{*int,string,func}":
		return runElemType(c, func(i int) withPtr { j := i; return withPtr{&j, "s", func() int { return j }} }, func(v withPtr) int {
			if v.p == nil || v.f == nil || v.f() != *v.p {
				return -1
			}
			return *v.p
		})
	case "[65536]byte":
		return runElemType(c, func(i int) (b big64k) { b[0], b[1], b[len(b)-1] = byte(i), byte(i>>8), byte(i); return }, func(b big64k) int {
			if b[len(b)-1] != b[0] {
				return -1
			}
			return int(b[0]) | int(b[1])<<8
		})
	case "[70001]byte":
		return runElemType(c, func(i int) (b big70k) { b[0], b[1], b[len(b)-1] = byte(i), byte(i>>8), byte(i); return }, func(b big70k) int {
			if b[len(b)-1] != b[0] {
				return -1
			}
			return int(b[0]) | int(b[1])<<8
		})
	case "[1048576]byte":
		return runElemType(c, func(i int) (b big1m) { b[0], b[1], b[len(b)-1] = byte(i), byte(i>>8), byte(i); return }, func(b big1m) int {
			if b[len(b)-1] != b[0] {
				return -1
			}
			return int(b[0]) | int(b[1])<<8
		})
	default:
		return runElemType(c, func(i int) any { return i }, func(v any) int { n, _ := v.(int); return n })
	}
}

var specElem = pbt.Register(&pbt.Spec[ECase]{
	Property: "C06", Name: "C06.elem",
	Rule: "exhaustive: element types {[3]byte, string, struct{*int,string,func}, any, [65536]byte, [70001]byte, [1048576]byte} x n in {0..5, 33} (1 MiB elements: n <= 3) x m in {0, 1, 2}: NewRing(n), values, Move(m), Link(NewRing(m)), Unlink(m+1); " +
		"list pushes at both ends, MoveToFront, InsertAfter, Remove, PushBackList, PushFrontList(self); every stage compared with container/ring / container/list carrying the serial numbers (Len, Do order, backward walk); non-trivial = n >= 2",
	Enum: func(shard, shards int, tier string, yield func(ECase) bool) {
		i := 0
		for _, ty := range []string{"[3]byte", "string", "struct{*int,string,func}", "any", "[65536]byte", "[70001]byte", "[1048576]byte"} {
			for _, n := range []int{0, 1, 2, 3, 4, 5, 33} {
				if ty == "[1048576]byte" && n > 3 {
					continue
				}
				for m := 0; m <= 2; m++ {
					i++
					if (i-1)%shards != shard {
						continue
					}
					if !yield(ECase{ty, n, m}) {
						return
					}
				}
			}
		}
	},
	Run: RunElemType, Exhaustive: true,
})

func TestC06Elem(t *testing.T) { pbt.Check(t, specElem) }
