package c12

import (
	"sort"
	"testing"

	"verifharness/internal/pbt"
)

// C12.big: an enumerated grid of LARGE shapes. The small exhaustive grid
// (C12.enum) stops at 8..14 elements, but the code under test (and any
// re-implementation of it) has size-dependent regimes: append doubles the
// capacity below 256 elements and grows in ~1.25x steps above, allocations are
// rounded to size classes, copy/fill loops may work in blocks. So every helper
// is also run at capacities next to every power of two and every 1.5 x power of
// two from 32 to 4096, in every relation between batch size, spare capacity and
// capacity, and Fill/Repeat/Reverse at EVERY length up to a few thousand.

// bigCaps returns the destination capacities of the grid.
func bigCaps(tier string) []int {
	maxExp, deltas := 12, []int{-1, 0, 1}
	if tier == "thorough" {
		maxExp, deltas = 14, []int{-2, -1, 0, 1, 2}
	}
	var caps []int
	for e := 5; e <= maxExp; e++ {
		for _, d := range deltas {
			caps = append(caps, 1<<e+d)
		}
		caps = append(caps, 3<<(e-1)) // 48, 96, ... 3072: between the powers of two
	}
	caps = append(caps, 1000, 1280) // not next to any power of two
	return uniq(caps, 1<<30)
}

// uniq sorts, removes duplicates and values outside 0..max.
func uniq(v []int, max int) []int {
	sort.Ints(v)
	out := v[:0]
	for _, x := range v {
		if x < 0 || x > max || (len(out) > 0 && out[len(out)-1] == x) {
			continue
		}
		out = append(out, x)
	}
	return out
}

// bigBatches returns the batch sizes tried against a destination of capacity
// cp with the given spare capacity: around the spare capacity (in place or
// not), every eighth of the capacity up to the capacity (new length up to
// double: the amortised-growth regimes) and beyond double.
func bigBatches(cp, spare int) []int {
	ks := []int{1, 2, spare - 1, spare, spare + 1, cp - 1, cp, cp + 1, cp + cp/2, 2 * cp, 2*cp + 1, 3 * cp}
	for i := 1; i <= 7; i++ {
		ks = append(ks, i*cp/8)
	}
	return uniq(ks, 1<<30)
}

func bigSpares(cp int) []int {
	return uniq([]int{0, 1, 3, cp / 4, cp / 2, cp - 1, cp}, cp)
}

func bigIndexes(n int) []int {
	return uniq([]int{0, 1, n / 2, n - 1, n}, n)
}

func enumerateBig(shard, shards int, tier string, yield0 func(Case) bool) {
	k := 0
	stop := false
	yield := func(c Case) bool {
		if stop {
			return false
		}
		k++
		if k%shards != shard {
			return true
		}
		if !yield0(c) {
			stop = true
		}
		return !stop
	}
	for _, cp := range bigCaps(tier) {
		for _, sp := range bigSpares(cp) {
			n := cp - sp
			for _, idx := range bigIndexes(n) {
				yield(Case{Op: "Insert", Len: n, Spare: sp, Index: idx})
				if idx < n {
					yield(Case{Op: "Remove", Len: n, Spare: sp, Index: idx})
				}
				for _, kk := range bigBatches(cp, sp) {
					yield(Case{Op: "InsertSlice", Len: n, Spare: sp, Index: idx, K: kk, SpareB: (kk + idx) % 3})
				}
				rest := n - idx
				for _, l := range uniq([]int{0, 1, 2, rest / 2, rest - 1, rest}, rest) {
					yield(Case{Op: "RemoveSlice", Len: n, Spare: sp, Index: idx, K: l})
				}
			}
			yield(Case{Op: "Clone", Len: n, Spare: sp})
			for _, kk := range bigBatches(cp, sp) {
				yield(Case{Op: "Grow", Len: n, Spare: sp, K: kk})
				yield(Case{Op: "Concat", Len: n, Spare: sp, LenB: kk, SpareB: kk % 3})
			}
			if stop {
				return
			}
		}
		// few elements in a large backing array
		for _, n := range []int{0, 1, 10} {
			for _, kk := range bigBatches(cp, cp-n) {
				for _, idx := range bigIndexes(n) {
					yield(Case{Op: "InsertSlice", Len: n, Spare: cp - n, Index: idx, K: kk, SpareB: 1})
				}
				yield(Case{Op: "Grow", Len: n, Spare: cp - n, K: kk})
			}
		}
		if stop {
			return
		}
	}
	// Fill / Repeat / Reverse: every length
	every := 4200
	sparse := []int{}
	maxExp := 17
	if tier == "thorough" {
		every, maxExp = 12000, 20
	}
	for n := 0; n <= every; n++ {
		yield(Case{Op: "Fill", Len: n, Spare: n % 2})
		yield(Case{Op: "Repeat", K: n})
		yield(Case{Op: "Reverse", Len: n, Spare: (n + 1) % 2})
		if stop {
			return
		}
	}
	for e := 12; e <= maxExp; e++ {
		for _, d := range []int{-1, 0, 1} {
			sparse = append(sparse, 1<<e+d, 3<<(e-1)+d)
		}
	}
	for m := 4096; m <= 1<<16; m += 4096 {
		sparse = append(sparse, m-1, m, m+1)
	}
	for _, n := range uniq(sparse, 1<<30) {
		if n <= every {
			continue
		}
		yield(Case{Op: "Fill", Len: n, Spare: n % 2})
		yield(Case{Op: "Repeat", K: n})
		yield(Case{Op: "Reverse", Len: n, Spare: (n + 1) % 2})
		yield(Case{Op: "Clone", Len: n, Spare: 3})
		if stop {
			return
		}
	}
}

var specBig = pbt.Register(&pbt.Spec[Case]{
	Property: "C12", Name: "C12.big",
	Rule: "enumerated grid of large shapes: destination capacity C in {2^e-1, 2^e, 2^e+1, 3*2^(e-1) : e = 5..12} + {1000, 1280} " +
		"(thorough: e up to 14, 2^e-2..2^e+2); spare capacity in {0, 1, 3, C/4, C/2, C-1, C} (len = C - spare) and additionally len in {0, 1, 10} " +
		"in a backing array of capacity C; index in {0, 1, len/2, len-1, len}; Insert and Remove at every such (C, spare, index); " +
		"InsertSlice / Grow / Concat with batch size in {1, 2, spare-1, spare, spare+1, C/8, 2C/8, ... 7C/8, C-1, C, C+1, 3C/2, 2C, 2C+1, 3C} " +
		"(in place, reallocation with new length below / at / above each step of append's growth formula, more than double); RemoveSlice length in " +
		"{0, 1, 2, rest/2, rest-1, rest}; Clone every (C, spare); Fill, Repeat and Reverse at EVERY length 0..4200 (thorough 0..12000) and at " +
		"2^e-1..2^e+1, 3*2^(e-1)-1..+1 for e up to 17 (thorough 20) and 4096m-1..4096m+1 up to 65537; " + rule,
	Enum: enumerateBig,
	Run:  Run, Exhaustive: true,
	Replicas: 4, ReplicaEvery: 8,
})

func TestC12Big(t *testing.T) { pbt.Check(t, specBig) }
