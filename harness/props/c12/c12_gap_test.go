package c12

import (
	"fmt"
	"testing"
	"time"

	"verifharness/internal/pbt"
)

// C12.gap: two calls of one helper separated by EXACTLY g calls of the same
// helper on DIFFERENT data, g around 2^16 and 2^8: a scratch structure stamped
// with an 8- or 16-bit generation looks "current" again when the stamp has
// gone round once, but only if the calls in between did not re-stamp it with
// the same data (C12.many repeats the same calls on the same slices).
//
// C12.sleep: the same with wall-clock TIME between the two calls (a cache that
// is shrunk or released when `time.Since(lastUse) > 2s`): a case really sleeps.

type GapCase struct {
	Type  string `json:"type"` // int | string
	Op    string `json:"op"`
	Gap   int    `json:"gap"`   // number of calls on other data between the two watched calls (the sleep comes after them)
	Big   bool   `json:"big"`   // watched calls on 5000 elements instead of 9
	Sleep int    `json:"sleep"` // milliseconds to sleep between the gap and the final calls (C12.sleep)
}

// gapCall: call number i of the history: sizes and values are a function of i (so every call differs from its neighbours).
func gapCall[E comparable](op string, i, n int, gen func(int) E) (r sl[E], want []E, desc string, ok bool) {
	spare := []int{0, 1, 3, n + 2}[i%4]
	k := 1 + (i/4)%3 + n/3
	idx := (i / 2) % (n + 1)
	if op == "Remove" {
		idx = (i / 2) % n
	}
	if op == "RemoveSlice" {
		k = min(k, n-idx)
	}
	base := i * 131
	full := make(sl[E], n+spare)
	for j := range full {
		if j < n {
			full[j] = gen(base + j + 1)
		} else {
			full[j] = gen(-base - 1000 - j)
		}
	}
	vals := make(sl[E], k)
	for j := range vals {
		vals[j] = gen(base + 50000 + j)
	}
	r, want, ok = plainCall(op, full[:n:len(full)], idx, k, vals, gen(base+777))
	return r, want, fmt.Sprintf("%s(len %d cap %d, index %d, k %d; values numbered from %d)", op, n, n+spare, idx, k, base), ok
}

func runGap[E comparable](c GapCase, gen func(int) E) (out pbt.Outcome) {
	out = pbt.Outcome{Evals: 1}
	if c.Gap < 0 || c.Gap > 1<<22 || c.Sleep < 0 || c.Sleep > 20000 {
		out.Skipped = true
		return out
	}
	wn := 9
	if c.Big {
		wn = 5000
	}
	type kept struct {
		r    sl[E]
		want []E
		desc string
	}
	watch := func(i int) (kept, string) {
		var kp kept
		var ok bool
		if p := try(func() { kp.r, kp.want, kp.desc, ok = gapCall(c.Op, i, wn, gen) }); p != nil {
			return kp, fmt.Sprintf("call %d panicked: %v", i, p)
		}
		if !ok {
			return kp, "skip"
		}
		if d := plainDiff(kp.r, kp.want); d != "" {
			return kp, fmt.Sprintf("call %d = %s: %s", i, kp.desc, d)
		}
		return kp, ""
	}
	head := fmt.Sprintf("[%s] history of %d calls of %s on different data each", c.Type, c.Gap+3, c.Op)
	first, m := watch(0)
	if m == "skip" {
		out.Skipped = true
		return out
	}
	if m != "" {
		return pbt.Fail("%s: %s", head, m)
	}
	for i := 1; i <= c.Gap; i++ {
		var r sl[E]
		var want []E
		var desc string
		if p := try(func() { r, want, desc, _ = gapCall(c.Op, i, 1+i%7, gen) }); p != nil {
			return pbt.Fail("%s: call %d panicked: %v", head, i, p)
		}
		if d := plainDiff(r, want); d != "" {
			return pbt.Fail("%s: call %d = %s: %s", head, i, desc, d)
		}
	}
	if c.Sleep > 0 {
		time.Sleep(time.Duration(c.Sleep) * time.Millisecond)
	}
	// the watched call again, on new values of the same shape - twice: the first call after the gap may be the one that
	// notices the wrap / the idle time, the second one the one that uses what the first left behind
	for _, i := range []int{c.Gap + 4, c.Gap + 8} { // same i%4 and (i/4)%3 classes vary; shapes stay comparable
		kp, m := watch(i)
		if m != "" && m != "skip" {
			return pbt.Fail("%s (%d ms of sleep before the final calls): %s", head, c.Sleep, m)
		}
		if d := plainDiff(first.r, first.want); d != "" {
			return pbt.Fail("%s: after call %d (%s) the result of call 0 (%s) is no longer what it was: %s", head, i, kp.desc, first.desc, d)
		}
	}
	out.Evals = c.Gap + 3
	out.Labels = append(out.Labels, "gap:op="+c.Op, "gap:type="+c.Type, fmt.Sprintf("gap:gap=%d", c.Gap), fmt.Sprintf("gap:sleep=%dms", c.Sleep))
	out.NonTrivial = c.Gap >= 255 || c.Sleep >= 2000
	return out
}

func RunGap(c GapCase) pbt.Outcome {
	switch c.Type {
	case "int":
		return runGap(c, func(i int) int { return i })
	case "string":
		return runGap(c, func(i int) string { return stackStrings[mod(i, len(stackStrings))] })
	}
	return pbt.Outcome{Skipped: true, Evals: 1}
}

func enumerateGap(shard, shards int, tier string, yield func(GapCase) bool) {
	gaps := []int{254, 255, 256, 257, 1<<16 - 2, 1<<16 - 1, 1 << 16, 1<<16 + 1}
	seq := 0
	for _, op := range plainOps {
		for gi, g := range gaps {
			for ti, tn := range []string{"int", "string"} {
				if tier != "thorough" && g > 1000 && (gi+ti)%2 == 1 {
					continue // quick: the element types take turns on the long gaps
				}
				seq++
				if seq%shards != shard {
					continue
				}
				if !yield(GapCase{Type: tn, Op: op, Gap: g, Big: g < 1000 && gi%2 == 1}) {
					return
				}
			}
		}
	}
}

var specGap = pbt.Register(&pbt.Spec[GapCase]{
	Property: "C12", Name: "C12.gap",
	Rule: "enumerated: for every helper a history call 0, then g calls of the same helper on different data (len 1..7, spare in {0, 1, 3, len+2}, index and k varying, values numbered from 131*i), " +
		"then two more calls of the shape of call 0 on new values; g in {254, 255, 256, 257, 2^16-2, 2^16-1, 2^16, 2^16+1} (a stamp of 8 or 16 bits goes round exactly once, off by one either way); " +
		"every call compared with the splice model; the kept result of call 0 compared again after each of the two final calls. Element types int and string (quick: in turn on the long gaps); " +
		"call 0 and the final calls on 9 elements (on 5000 for half of the short gaps). non-trivial = g >= 255",
	Enum: enumerateGap,
	Run:  RunGap, Exhaustive: true,
	Replicas: 2, ReplicaEvery: 16,
})

func TestC12Gap(t *testing.T) { pbt.Check(t, specGap) }

func enumerateSleep(shard, shards int, tier string, yield func(GapCase) bool) {
	ms := []int{2100}
	if tier == "thorough" {
		ms = []int{2100, 5100}
	}
	// ONE case per sleep length and shard: the ops are spread over the replicas (see RunSleep) so that the quick tier sleeps once
	for i, m := range ms {
		if i%shards == shard && !yield(GapCase{Type: "int", Op: "*", Gap: 40, Sleep: m}) {
			return
		}
	}
}

// RunSleep: Op "*" = every helper on both element types, each history on a goroutine of its own (they all sleep at the same time).
func RunSleep(c GapCase) pbt.Outcome {
	if c.Op != "*" {
		return RunGap(c)
	}
	type res struct{ o pbt.Outcome }
	var all []GapCase
	for _, op := range plainOps {
		for _, tn := range []string{"int", "string"} {
			for _, big := range []bool{false, true} {
				all = append(all, GapCase{Type: tn, Op: op, Gap: c.Gap, Big: big, Sleep: c.Sleep})
			}
		}
	}
	outs := make([]pbt.Outcome, len(all))
	done := make(chan int)
	for i := range all {
		go func(i int) {
			defer func() { done <- i }()
			if p := try(func() { outs[i] = RunGap(all[i]) }); p != nil {
				outs[i] = pbt.Fail("[%s] %s with %d ms of sleep: panicked: %v", all[i].Type, all[i].Op, c.Sleep, p)
			}
		}(i)
	}
	for range all {
		<-done
	}
	out := pbt.Outcome{}
	for _, o := range outs {
		if o.Violation != "" {
			return o
		}
		out.Evals += o.Evals
		out.Labels = append(out.Labels, o.Labels...)
	}
	out.NonTrivial = c.Sleep >= 2000
	return out
}

var specSleep = pbt.Register(&pbt.Spec[GapCase]{
	Property: "C12", Name: "C12.sleep",
	Rule: "enumerated: one case (thorough two) that runs, for every helper x {int, string} x {9, 5000 elements}, the history of C12.gap with g = 40 calls on different data and a REAL sleep of 2100 ms " +
		"(thorough also 5100 ms) after them - all histories in parallel goroutines, so the case sleeps once; afterwards two more calls of the shape of call 0 (index 2 of 9 / 5000 elements), " +
		"each compared with the splice model, and the kept result of call 0 compared again. non-trivial = slept >= 2 s",
	Enum: enumerateSleep,
	Run:  RunSleep, Exhaustive: true,
	CaseCPU: 120e9,
})

func TestC12Sleep(t *testing.T) { pbt.Check(t, specSleep) }
