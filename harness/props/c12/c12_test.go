// Package c12 decides C12: the slice splicing helpers (Insert, InsertSlice,
// Remove, RemoveSlice, Fill, Repeat, Reverse, Concat, Clone, Grow) equal the
// splice model for every index, length and spare capacity.
package c12

import (
	"fmt"
	"testing"

	"gopkg.in/typ.v4/slices"
	"pgregory.net/rapid"
	"verifharness/internal/pbt"
)

// Case is one call of one helper.
//
//	Insert       Len, Spare, Index (mod Len+1)
//	InsertSlice  Len, Spare, Index (mod Len+1), K = len(values), SpareB = spare capacity of values
//	Remove       Len (>=1, else skipped), Spare, Index (mod Len)
//	RemoveSlice  Len, Spare, Index (mod Len+1), K (mod Len-Index+1) = length
//	Fill         Len, Spare
//	Repeat       K = count
//	Reverse      Len, Spare
//	Concat       a = (Len, Spare), b = (LenB, SpareB)
//	Clone        Len, Spare
//	Grow         Len, Spare, K = n
type Case struct {
	Op     string `json:"op"`
	Len    int    `json:"len"`
	Spare  int    `json:"spare"`
	Index  int    `json:"index"`
	K      int    `json:"k"`
	LenB   int    `json:"len_b"`
	SpareB int    `json:"spare_b"`
}

type myInts []int

var opNames = []string{"Insert", "InsertSlice", "Remove", "RemoveSlice", "Fill", "Repeat", "Reverse", "Concat", "Clone", "Grow"}

const rule = "one helper call per case on a named []int type; elements are distinct (1..len), the spare capacity behind " +
	"the slice is poisoned with distinct negative sentinels so a stale read from beyond len is visible; expected result " +
	"is built with fresh appends and compared exactly (length and contents); Concat/Clone additionally: writing every " +
	"element of the result (up to its capacity) changes nothing reachable from the inputs and vice versa; Grow: prefix intact " +
	"and exactly n zeros appended. non-trivial = (Insert/InsertSlice/Remove/RemoveSlice) spare > 0 and the affected " +
	"range strictly inside; (Fill/Repeat/Reverse) length >= 3; (Concat) both non-empty and a's spare capacity >= len(b); " +
	"(Clone) non-empty with spare capacity; (Grow) n >= 1 with spare capacity >= 1"

func poison(i int) int { return -1000 - i }

// mk returns a backing array of n+spare ints whose first n elements are
// base, base+1, ... and whose spare part is poisoned, plus the slice [:n].
func mk(n, spare, base int) (back, s myInts) {
	back = make(myInts, n+spare)
	for i := range back {
		if i < n {
			back[i] = base + i
		} else {
			back[i] = poison(i)
		}
	}
	return back, back[:n:len(back)]
}

func eq(a, b []int) bool {
	if len(a) != len(b) {
		return false
	}
	for i := range a {
		if a[i] != b[i] {
			return false
		}
	}
	return true
}

func mod(a, m int) int {
	if m <= 0 {
		return 0
	}
	a %= m
	if a < 0 {
		a += m
	}
	return a
}

// try runs f and returns the recovered panic value (nil if none).
func try(f func()) (p any) {
	defer func() { p = recover() }()
	f()
	return nil
}

func posLabel(idx, n int) string {
	switch {
	case n == 0:
		return "empty"
	case idx == 0:
		return "idx=0"
	case idx == n:
		return "idx=len"
	case idx == n-1:
		return "idx=len-1"
	default:
		return "inside"
	}
}

func spareLabel(sp int) string {
	if sp == 0 {
		return "spare=0"
	}
	return "spare>0"
}

// checkDisjoint writes every element of r (up to its capacity) and verifies
// that nothing reachable from the inputs changed, then writes every element
// reachable from the inputs and verifies that r did not change.
func checkDisjoint(name string, r myInts, backs ...myInts) string {
	snaps := make([][]int, len(backs))
	for i, b := range backs {
		snaps[i] = append([]int(nil), b...)
	}
	rf := r[:cap(r)]
	for i := range rf {
		rf[i] = 900000 + i
	}
	for k, b := range backs {
		for i := range b {
			if b[i] != snaps[k][i] {
				where := "element"
				if snaps[k][i] <= poison(0) {
					where = "spare-capacity slot"
				}
				return fmt.Sprintf("%s: result shares memory with input %d: writing the result changed the input's %s %d from %d to %d",
					name, k, where, i, snaps[k][i], b[i])
			}
		}
	}
	for k, b := range backs {
		for i := range b {
			b[i] = 700000 + 1000*k + i
		}
	}
	for i := range rf {
		if rf[i] != 900000+i {
			return fmt.Sprintf("%s: result shares memory with an input: writing the inputs changed result[%d] to %d", name, i, rf[i])
		}
	}
	return ""
}

func Run(c Case) pbt.Outcome {
	out := pbt.Outcome{Evals: 1}
	lab := func(l ...string) {
		for _, x := range l {
			out.Labels = append(out.Labels, c.Op+":"+x)
		}
	}
	n, spare := c.Len, c.Spare
	if n < 0 || spare < 0 || c.K < 0 || c.LenB < 0 || c.SpareB < 0 {
		out.Skipped = true
		return out
	}
	switch c.Op {
	case "Insert":
		idx := mod(c.Index, n+1)
		_, s := mk(n, spare, 1)
		orig := append([]int(nil), s...)
		v := 500
		want := append(append(append([]int{}, orig[:idx]...), v), orig[idx:]...)
		if p := try(func() { slices.Insert(&s, idx, v) }); p != nil {
			return pbt.Fail("Insert(len=%d cap=%d, index=%d) panicked: %v", n, n+spare, idx, p)
		}
		if !eq(s, want) {
			return pbt.Fail("Insert(%v (cap %d), index=%d, value=%d) = %v, want %v", orig, n+spare, idx, v, []int(s), want)
		}
		lab(spareLabel(spare), posLabel(idx, n))
		out.NonTrivial = spare > 0 && idx > 0 && idx < n

	case "InsertSlice":
		idx := mod(c.Index, n+1)
		_, s := mk(n, spare, 1)
		orig := append([]int(nil), s...)
		_, vals := mk(c.K, c.SpareB, 500)
		vorig := append([]int(nil), vals...)
		want := append(append(append([]int{}, orig[:idx]...), vorig...), orig[idx:]...)
		if p := try(func() { slices.InsertSlice(&s, idx, vals) }); p != nil {
			return pbt.Fail("InsertSlice(len=%d cap=%d, index=%d, %d values) panicked: %v", n, n+spare, idx, c.K, p)
		}
		if !eq(s, want) {
			return pbt.Fail("InsertSlice(%v (cap %d), index=%d, values=%v) = %v, want %v", orig, n+spare, idx, vorig, []int(s), want)
		}
		lab(spareLabel(spare), posLabel(idx, n))
		switch {
		case c.K == 0:
			lab("k=0")
		case c.K <= spare:
			lab("k<=spare(in place)")
		default:
			lab("k>spare(realloc)")
		}
		out.NonTrivial = spare > 0 && idx > 0 && idx < n && c.K >= 1

	case "Remove":
		if n == 0 {
			out.Skipped = true // no valid index
			lab("skipped:len=0")
			return out
		}
		idx := mod(c.Index, n)
		_, s := mk(n, spare, 1)
		orig := append([]int(nil), s...)
		want := append(append([]int{}, orig[:idx]...), orig[idx+1:]...)
		if p := try(func() { slices.Remove(&s, idx) }); p != nil {
			return pbt.Fail("Remove(len=%d cap=%d, index=%d) panicked: %v", n, n+spare, idx, p)
		}
		if !eq(s, want) {
			return pbt.Fail("Remove(%v (cap %d), index=%d) = %v, want %v", orig, n+spare, idx, []int(s), want)
		}
		lab(spareLabel(spare), posLabel(idx, n))
		out.NonTrivial = spare > 0 && idx > 0 && idx < n-1

	case "RemoveSlice":
		idx := mod(c.Index, n+1)
		length := mod(c.K, n-idx+1)
		_, s := mk(n, spare, 1)
		orig := append([]int(nil), s...)
		want := append(append([]int{}, orig[:idx]...), orig[idx+length:]...)
		if p := try(func() { slices.RemoveSlice(&s, idx, length) }); p != nil {
			return pbt.Fail("RemoveSlice(len=%d cap=%d, index=%d, length=%d) panicked: %v", n, n+spare, idx, length, p)
		}
		if !eq(s, want) {
			return pbt.Fail("RemoveSlice(%v (cap %d), index=%d, length=%d) = %v, want %v", orig, n+spare, idx, length, []int(s), want)
		}
		lab(spareLabel(spare), posLabel(idx, n))
		switch {
		case length == 0:
			lab("length=0")
		case idx+length == n:
			lab("to-end")
		case length == 1:
			lab("length=1,tail-follows")
		default:
			lab("length>=2,tail-follows")
		}
		out.NonTrivial = spare > 0 && idx > 0 && length >= 1 && idx+length < n

	case "Fill":
		_, s := mk(n, spare, 1)
		v := 77
		if p := try(func() { slices.Fill(s, v) }); p != nil {
			return pbt.Fail("Fill(len=%d cap=%d) panicked: %v", n, n+spare, p)
		}
		if len(s) != n {
			return pbt.Fail("Fill(len=%d): length changed to %d", n, len(s))
		}
		for i := range s {
			if s[i] != v {
				return pbt.Fail("Fill(len=%d cap=%d, value=%d): element %d is %d: %v", n, n+spare, v, i, s[i], []int(s))
			}
		}
		lab(lenLabel(n))
		out.NonTrivial = n >= 3

	case "Repeat":
		v := 77
		var r []int
		if p := try(func() { r = slices.Repeat(v, c.K) }); p != nil {
			return pbt.Fail("Repeat(value, count=%d) panicked: %v", c.K, p)
		}
		if len(r) != c.K {
			return pbt.Fail("Repeat(%d, count=%d): length %d", v, c.K, len(r))
		}
		for i := range r {
			if r[i] != v {
				return pbt.Fail("Repeat(%d, count=%d): element %d is %d: %v", v, c.K, i, r[i], r)
			}
		}
		lab(lenLabel(c.K))
		out.NonTrivial = c.K >= 3

	case "Reverse":
		_, s := mk(n, spare, 1)
		orig := append([]int(nil), s...)
		want := make([]int, n)
		for i := range orig {
			want[n-1-i] = orig[i]
		}
		if p := try(func() { slices.Reverse(s) }); p != nil {
			return pbt.Fail("Reverse(len=%d) panicked: %v", n, p)
		}
		if !eq(s, want) {
			return pbt.Fail("Reverse(%v) = %v, want %v", orig, []int(s), want)
		}
		if n%2 == 0 {
			lab("even")
		} else {
			lab("odd")
		}
		lab(lenLabel(n))
		out.NonTrivial = n >= 3

	case "Concat":
		backA, a := mk(n, spare, 1)
		backB, b := mk(c.LenB, c.SpareB, 201)
		want := append(append([]int{}, a...), b...)
		var r myInts
		if p := try(func() { r = slices.Concat(a, b) }); p != nil {
			return pbt.Fail("Concat(len %d cap %d, len %d cap %d) panicked: %v", n, n+spare, c.LenB, c.LenB+c.SpareB, p)
		}
		if !eq(r, want) {
			return pbt.Fail("Concat(%v (cap %d), %v (cap %d)) = %v, want %v", []int(a), n+spare, []int(b), c.LenB+c.SpareB, []int(r), want)
		}
		name := fmt.Sprintf("Concat(a: len %d cap %d, b: len %d cap %d)", n, n+spare, c.LenB, c.LenB+c.SpareB)
		if m := checkDisjoint(name, r, backA, backB); m != "" {
			return pbt.Fail("%s", m)
		}
		switch {
		case n == 0 && c.LenB == 0:
			lab("both-empty")
		case n == 0:
			lab("a-empty")
		case c.LenB == 0:
			lab("b-empty")
		default:
			lab("both-nonempty")
		}
		if spare >= c.LenB && c.LenB > 0 {
			lab("b-fits-in-a's-spare")
		}
		if spare >= c.LenB && spare > 0 {
			lab("append-would-alias")
		}
		out.NonTrivial = n >= 1 && c.LenB >= 1 && spare >= c.LenB

	case "Clone":
		back, s := mk(n, spare, 1)
		want := append([]int{}, s...)
		var r myInts
		if p := try(func() { r = slices.Clone(s) }); p != nil {
			return pbt.Fail("Clone(len %d cap %d) panicked: %v", n, n+spare, p)
		}
		if !eq(r, want) {
			return pbt.Fail("Clone(%v) = %v", want, []int(r))
		}
		if m := checkDisjoint(fmt.Sprintf("Clone(len %d cap %d)", n, n+spare), r, back); m != "" {
			return pbt.Fail("%s", m)
		}
		lab(spareLabel(spare), lenLabel(n))
		out.NonTrivial = n >= 1 && spare >= 1

	case "Grow":
		_, s := mk(n, spare, 1)
		orig := append([]int(nil), s...)
		want := append(append([]int{}, orig...), make([]int, c.K)...)
		var r myInts
		if p := try(func() { r = slices.Grow(s, c.K) }); p != nil {
			return pbt.Fail("Grow(len %d cap %d, n=%d) panicked: %v", n, n+spare, c.K, p)
		}
		if !eq(r, want) {
			return pbt.Fail("Grow(%v (cap %d, spare capacity poisoned), n=%d) = %v, want %v", orig, n+spare, c.K, []int(r), want)
		}
		switch {
		case c.K == 0:
			lab("n=0")
		case spare == 0:
			lab("spare=0")
		case c.K <= spare:
			lab("n<=spare(in place over poison)")
		default:
			lab("n>spare(realloc)")
		}
		out.NonTrivial = c.K >= 1 && spare >= 1

	default:
		out.Skipped = true
		return out
	}
	out.Labels = append(out.Labels, "op="+c.Op)
	return out
}

func lenLabel(n int) string {
	switch {
	case n == 0:
		return "len=0"
	case n == 1:
		return "len=1"
	case n == 2:
		return "len=2"
	case n&(n-1) == 0:
		return "len=2^k"
	case (n-1)&(n-2) == 0:
		return "len=2^k+1"
	case (n+1)&n == 0:
		return "len=2^k-1"
	default:
		return "len=other"
	}
}

// enumerate yields every case of the exhaustive grid.
func enumerate(tier string, yield func(Case) bool) {
	maxLen, maxSpare, maxK, maxFill := 8, 3, 8, 70
	if tier == "thorough" {
		maxLen, maxSpare, maxK, maxFill = 14, 5, 10, 300
	}
	for n := 0; n <= maxLen; n++ {
		for sp := 0; sp <= maxSpare; sp++ {
			for idx := 0; idx <= n; idx++ {
				if !yield(Case{Op: "Insert", Len: n, Spare: sp, Index: idx}) {
					return
				}
				for k := 0; k <= maxK; k++ {
					if !yield(Case{Op: "InsertSlice", Len: n, Spare: sp, Index: idx, K: k, SpareB: (k + idx) % 2}) {
						return
					}
				}
				if idx < n && !yield(Case{Op: "Remove", Len: n, Spare: sp, Index: idx}) {
					return
				}
				for l := 0; idx+l <= n; l++ {
					if !yield(Case{Op: "RemoveSlice", Len: n, Spare: sp, Index: idx, K: l}) {
						return
					}
				}
			}
			if !yield(Case{Op: "Reverse", Len: n, Spare: sp}) || !yield(Case{Op: "Clone", Len: n, Spare: sp}) {
				return
			}
			for k := 0; k <= maxK; k++ {
				if !yield(Case{Op: "Grow", Len: n, Spare: sp, K: k}) {
					return
				}
			}
		}
		// Concat: a's spare capacity ranges up to maxLen so that b can fit in it
		for sp := 0; sp <= maxLen; sp++ {
			for nb := 0; nb <= maxLen; nb++ {
				if !yield(Case{Op: "Concat", Len: n, Spare: sp, LenB: nb, SpareB: (n + nb) % 3}) {
					return
				}
			}
		}
	}
	for n := 0; n <= maxFill; n++ {
		for sp := 0; sp <= maxSpare; sp++ {
			if !yield(Case{Op: "Fill", Len: n, Spare: sp}) {
				return
			}
		}
		if !yield(Case{Op: "Repeat", K: n}) || !yield(Case{Op: "Reverse", Len: n, Spare: n % 2}) {
			return
		}
	}
}

var specEnum = pbt.Register(&pbt.Spec[Case]{
	Property: "C12", Name: "C12.enum",
	Rule: "exhaustive grid: every (len <= 8, spare <= 3, index) triple for Insert/Remove, x every values length 0..8 for InsertSlice, " +
		"x every (index, length) with index+length <= len for RemoveSlice, Grow n 0..8, Reverse/Clone every (len, spare), " +
		"Concat every (len a <= 8, spare a <= 8, len b <= 8), Fill/Repeat/Reverse every length 0..70 " +
		"(thorough: len <= 14, spare <= 5, k <= 10, Fill/Repeat <= 300); " + rule,
	Enum: func(shard, shards int, tier string, yield func(Case) bool) { enumerate(tier, yield) },
	Run:  Run, Exhaustive: true,
})

var specRand = pbt.Register(&pbt.Spec[Case]{
	Property: "C12", Name: "C12.rand",
	Rule: "rapid: op uniform over the ten helpers; len 0..12 (1 in 8: 0..70), spare 0..6 (1 in 8: 0..40), any valid index, " +
		"InsertSlice values 0..8 (1 in 8: 0..40) with own backing array, RemoveSlice any (index, length), Fill/Repeat/Reverse length 0..70 " +
		"(1 in 8: 0..600), Grow n 0..8 (1 in 8: 0..40); " + rule,
	Gen: func(t *rapid.T) Case {
		c := Case{Op: rapid.SampledFrom(opNames).Draw(t, "op")}
		wide := func(lo, hi, wideHi int, name string) int {
			if rapid.IntRange(0, 7).Draw(t, name+"_wide") == 0 {
				return rapid.IntRange(lo, wideHi).Draw(t, name)
			}
			return rapid.IntRange(lo, hi).Draw(t, name)
		}
		switch c.Op {
		case "Fill", "Reverse":
			c.Len = wide(0, 70, 600, "len")
			c.Spare = wide(0, 6, 40, "spare")
		case "Repeat":
			c.K = wide(0, 70, 600, "count")
		case "Concat":
			c.Len = wide(0, 12, 70, "len")
			c.LenB = wide(0, 12, 70, "len_b")
			if rapid.Bool().Draw(t, "fits") {
				c.Spare = c.LenB + rapid.IntRange(0, 3).Draw(t, "extra")
			} else {
				c.Spare = wide(0, 6, 40, "spare")
			}
			c.SpareB = rapid.IntRange(0, 6).Draw(t, "spare_b")
		default:
			c.Len = wide(0, 12, 70, "len")
			c.Spare = wide(0, 6, 40, "spare")
		}
		switch c.Op {
		case "Insert":
			c.Index = rapid.IntRange(0, c.Len).Draw(t, "index")
		case "InsertSlice":
			c.Index = rapid.IntRange(0, c.Len).Draw(t, "index")
			c.K = wide(0, 8, 40, "k")
			c.SpareB = rapid.IntRange(0, 3).Draw(t, "spare_b")
		case "Remove":
			if c.Len == 0 {
				c.Len = 1
			}
			c.Index = rapid.IntRange(0, c.Len-1).Draw(t, "index")
		case "RemoveSlice":
			c.Index = rapid.IntRange(0, c.Len).Draw(t, "index")
			c.K = rapid.IntRange(0, c.Len-c.Index).Draw(t, "length")
			if c.K == 0 && c.Len-c.Index >= 1 && rapid.IntRange(0, 3).Draw(t, "nonzero") > 0 {
				c.K = rapid.IntRange(1, c.Len-c.Index).Draw(t, "length1")
			}
		case "Grow":
			c.K = wide(0, 8, 40, "n")
		}
		return c
	},
	Run: Run, Quick: 60000, Thorough: 300000,
})

func TestC12Enum(t *testing.T) { pbt.Check(t, specEnum) }
func TestC12Rand(t *testing.T) { pbt.Check(t, specRand) }
func TestReplay(t *testing.T)  { pbt.Replay(t) }
