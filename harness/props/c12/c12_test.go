// Package c12 decides C12: the slice splicing helpers (Insert, InsertSlice,
// Remove, RemoveSlice, Fill, Repeat, Reverse, Concat, Clone, Grow) equal the
// splice model for every index, length and spare capacity.
package c12

import (
	"fmt"
	"testing"

	"gopkg.in/typ.v4/slices"
	"pgregory.net/rapid"
	"verifharness/internal/pbt"
)

// Case is one call of one helper.
//
//	Insert       Len, Spare, Index (mod Len+1)
//	InsertSlice  Len, Spare, Index (mod Len+1), K = len(values), SpareB = spare capacity of values
//	Remove       Len (>=1, else skipped), Spare, Index (mod Len)
//	RemoveSlice  Len, Spare, Index (mod Len+1), K (mod Len-Index+1) = length
//	Fill         Len, Spare
//	Repeat       K = count
//	Reverse      Len, Spare
//	Concat       a = (Len, Spare), b = (LenB, SpareB)
//	Clone        Len, Spare
//	Grow         Len, Spare, K = n
type Case struct {
	Op     string `json:"op"`
	Len    int    `json:"len"`
	Spare  int    `json:"spare"`
	Index  int    `json:"index"`
	K      int    `json:"k"`
	LenB   int    `json:"len_b"`
	SpareB int    `json:"spare_b"`
	// Nil: wherever a slice of length 0 and capacity 0 is handed to the helper (the destination, the inserted
	// values, a Concat operand), it is a nil slice instead of an empty non-nil one.
	Nil bool `json:"nil,omitempty"`
}

type myInts []int

var opNames = []string{"Insert", "InsertSlice", "Remove", "RemoveSlice", "Fill", "Repeat", "Reverse", "Concat", "Clone", "Grow"}

const rule = "one helper call per case on a named []int type; elements are distinct (1..len), the spare capacity behind " +
	"the slice is poisoned with distinct negative sentinels so a stale read from beyond len is visible; expected result " +
	"is built with fresh appends and compared exactly (length and contents); Concat/Clone additionally: writing every " +
	"element of the result (up to its capacity) changes nothing reachable from the inputs and vice versa; Grow: prefix intact " +
	"and exactly n zeros appended. non-trivial = (Insert/InsertSlice/Remove/RemoveSlice) spare > 0 and the affected " +
	"range strictly inside; (Fill/Repeat/Reverse) length >= 3; (Concat) both non-empty and a's spare capacity >= len(b); " +
	"(Clone) non-empty with spare capacity; (Grow) n >= 1 with spare capacity >= 1; nil=true: every zero-length zero-capacity " +
	"argument is a nil slice"

func poison(i int) int { return -1000 - i }

// mk returns a backing array of n+spare ints whose first n elements are
// base, base+1, ... and whose spare part is poisoned, plus the slice [:n].
func mk(n, spare, base int) (back, s myInts) {
	back = make(myInts, n+spare)
	for i := range back {
		if i < n {
			back[i] = base + i
		} else {
			back[i] = poison(i)
		}
	}
	return back, back[:n:len(back)]
}

func eq(a, b []int) bool {
	if len(a) != len(b) {
		return false
	}
	for i := range a {
		if a[i] != b[i] {
			return false
		}
	}
	return true
}

// show prints a slice in full when it is short and abbreviated otherwise.
func show(a []int) string {
	if len(a) <= 48 {
		return fmt.Sprint(a)
	}
	return fmt.Sprintf("[len %d: %v ... %v]", len(a), a[:8], a[len(a)-8:])
}

// where describes the first difference between got and want ("" when they are short enough to be printed in full).
func where(got, want []int) string {
	if len(got) <= 48 && len(want) <= 48 {
		return ""
	}
	m := fmt.Sprintf(" (got length %d, want length %d", len(got), len(want))
	for i := 0; i < len(got) && i < len(want); i++ {
		if got[i] != want[i] {
			lo, hi := max(i-3, 0), i+4
			return m + fmt.Sprintf("; first difference at index %d: got[%d:%d]=%v want[%d:%d]=%v)", i,
				lo, min(hi, len(got)), got[lo:min(hi, len(got))], lo, min(hi, len(want)), want[lo:min(hi, len(want))])
		}
	}
	return m + "; common prefix equal)"
}

func mod(a, m int) int {
	if m <= 0 {
		return 0
	}
	a %= m
	if a < 0 {
		a += m
	}
	return a
}

// try runs f and returns the recovered panic value (nil if none).
func try(f func()) (p any) {
	defer func() { p = recover() }()
	f()
	return nil
}

func posLabel(idx, n int) string {
	switch {
	case n == 0:
		return "empty"
	case idx == 0:
		return "idx=0"
	case idx == n:
		return "idx=len"
	case idx == n-1:
		return "idx=len-1"
	default:
		return "inside"
	}
}

func spareLabel(sp int) string {
	if sp == 0 {
		return "spare=0"
	}
	return "spare>0"
}

// checkDisjoint writes every element of r (up to its capacity) and verifies
// that nothing reachable from the inputs changed, then writes every element
// reachable from the inputs and verifies that r did not change.
func checkDisjoint(name string, r myInts, backs ...myInts) string {
	snaps := make([][]int, len(backs))
	for i, b := range backs {
		snaps[i] = append([]int(nil), b...)
	}
	rf := r[:cap(r)]
	for i := range rf {
		rf[i] = 900000 + i
	}
	for k, b := range backs {
		for i := range b {
			if b[i] != snaps[k][i] {
				where := "element"
				if snaps[k][i] <= poison(0) {
					where = "spare-capacity slot"
				}
				return fmt.Sprintf("%s: result shares memory with input %d: writing the result changed the input's %s %d from %d to %d",
					name, k, where, i, snaps[k][i], b[i])
			}
		}
	}
	for k, b := range backs {
		for i := range b {
			b[i] = 700000 + 1000*k + i
		}
	}
	for i := range rf {
		if rf[i] != 900000+i {
			return fmt.Sprintf("%s: result shares memory with an input: writing the inputs changed result[%d] to %d", name, i, rf[i])
		}
	}
	return ""
}

func Run(c Case) (out pbt.Outcome) {
	out = pbt.Outcome{Evals: 1}
	lab := func(l ...string) {
		for _, x := range l {
			out.Labels = append(out.Labels, c.Op+":"+x)
		}
	}
	n, spare := c.Len, c.Spare
	if n < 0 || spare < 0 || c.K < 0 || c.LenB < 0 || c.SpareB < 0 {
		out.Skipped = true
		return out
	}
	mk := func(n, spare, base int) (back, s myInts) {
		if c.Nil && n+spare == 0 {
			return nil, nil
		}
		return mk(n, spare, base)
	}
	if c.Nil {
		defer func() { out.Labels = append(out.Labels, c.Op+":nil-args") }()
	}
	switch c.Op {
	case "Insert":
		idx := mod(c.Index, n+1)
		_, s := mk(n, spare, 1)
		orig := append([]int(nil), s...)
		v := 500
		want := append(append(append([]int{}, orig[:idx]...), v), orig[idx:]...)
		if p := try(func() { slices.Insert(&s, idx, v) }); p != nil {
			return pbt.Fail("Insert(len=%d cap=%d, index=%d) panicked: %v", n, n+spare, idx, p)
		}
		if !eq(s, want) {
			return pbt.Fail("Insert(%s (cap %d), index=%d, value=%d) = %s, want %s%s", show(orig), n+spare, idx, v, show(s), show(want), where(s, want))
		}
		lab(spareLabel(spare), posLabel(idx, n))
		out.NonTrivial = spare > 0 && idx > 0 && idx < n

	case "InsertSlice":
		idx := mod(c.Index, n+1)
		_, s := mk(n, spare, 1)
		orig := append([]int(nil), s...)
		_, vals := mk(c.K, c.SpareB, 500)
		vorig := append([]int(nil), vals...)
		want := append(append(append([]int{}, orig[:idx]...), vorig...), orig[idx:]...)
		if p := try(func() { slices.InsertSlice(&s, idx, vals) }); p != nil {
			return pbt.Fail("InsertSlice(len=%d cap=%d, index=%d, %d values) panicked: %v", n, n+spare, idx, c.K, p)
		}
		if !eq(s, want) {
			return pbt.Fail("InsertSlice(%s (cap %d), index=%d, values=%s) = %s, want %s%s", show(orig), n+spare, idx, show(vorig), show(s), show(want), where(s, want))
		}
		lab(spareLabel(spare), posLabel(idx, n))
		switch {
		case c.K == 0:
			lab("k=0")
		case c.K <= spare:
			lab("k<=spare(in place)")
		default:
			lab("k>spare(realloc)")
			// the classes of append's growth formula (double below 256, ~1.25x steps above, exact when more than double)
			switch cp, need := n+spare, n+c.K; {
			case need > 2*cp:
				lab("realloc:new-len>2*cap")
			case cp < 256:
				lab("realloc:cap<256,new-len<=2*cap")
			case need <= cp+(cp+768)/4:
				lab("realloc:cap>=256,new-len<=one-1.25x-step")
			default:
				lab("realloc:cap>=256,one-1.25x-step<new-len<=2*cap")
			}
		}
		lab(bigLabel(n + c.K))
		out.NonTrivial = spare > 0 && idx > 0 && idx < n && c.K >= 1

	case "Remove":
		if n == 0 {
			out.Skipped = true // no valid index
			lab("skipped:len=0")
			return out
		}
		idx := mod(c.Index, n)
		_, s := mk(n, spare, 1)
		orig := append([]int(nil), s...)
		want := append(append([]int{}, orig[:idx]...), orig[idx+1:]...)
		if p := try(func() { slices.Remove(&s, idx) }); p != nil {
			return pbt.Fail("Remove(len=%d cap=%d, index=%d) panicked: %v", n, n+spare, idx, p)
		}
		if !eq(s, want) {
			return pbt.Fail("Remove(%s (cap %d), index=%d) = %s, want %s%s", show(orig), n+spare, idx, show(s), show(want), where(s, want))
		}
		lab(spareLabel(spare), posLabel(idx, n))
		out.NonTrivial = spare > 0 && idx > 0 && idx < n-1

	case "RemoveSlice":
		idx := mod(c.Index, n+1)
		length := mod(c.K, n-idx+1)
		_, s := mk(n, spare, 1)
		orig := append([]int(nil), s...)
		want := append(append([]int{}, orig[:idx]...), orig[idx+length:]...)
		if p := try(func() { slices.RemoveSlice(&s, idx, length) }); p != nil {
			return pbt.Fail("RemoveSlice(len=%d cap=%d, index=%d, length=%d) panicked: %v", n, n+spare, idx, length, p)
		}
		if !eq(s, want) {
			return pbt.Fail("RemoveSlice(%s (cap %d), index=%d, length=%d) = %s, want %s%s", show(orig), n+spare, idx, length, show(s), show(want), where(s, want))
		}
		lab(spareLabel(spare), posLabel(idx, n))
		switch {
		case length == 0:
			lab("length=0")
		case idx+length == n:
			lab("to-end")
		case length == 1:
			lab("length=1,tail-follows")
		default:
			lab("length>=2,tail-follows")
		}
		out.NonTrivial = spare > 0 && idx > 0 && length >= 1 && idx+length < n

	case "Fill":
		_, s := mk(n, spare, 1)
		v := 77
		if p := try(func() { slices.Fill(s, v) }); p != nil {
			return pbt.Fail("Fill(len=%d cap=%d) panicked: %v", n, n+spare, p)
		}
		if len(s) != n {
			return pbt.Fail("Fill(len=%d): length changed to %d", n, len(s))
		}
		for i := range s {
			if s[i] != v {
				return pbt.Fail("Fill(len=%d cap=%d, value=%d): element %d is %d: %s", n, n+spare, v, i, s[i], show(s))
			}
		}
		lab(lenLabel(n))
		out.NonTrivial = n >= 3

	case "Repeat":
		v := 77
		var r []int
		if p := try(func() { r = slices.Repeat(v, c.K) }); p != nil {
			return pbt.Fail("Repeat(value, count=%d) panicked: %v", c.K, p)
		}
		if len(r) != c.K {
			return pbt.Fail("Repeat(%d, count=%d): length %d", v, c.K, len(r))
		}
		for i := range r {
			if r[i] != v {
				return pbt.Fail("Repeat(%d, count=%d): element %d is %d: %s", v, c.K, i, r[i], show(r))
			}
		}
		lab(lenLabel(c.K))
		out.NonTrivial = c.K >= 3

	case "Reverse":
		_, s := mk(n, spare, 1)
		orig := append([]int(nil), s...)
		want := make([]int, n)
		for i := range orig {
			want[n-1-i] = orig[i]
		}
		if p := try(func() { slices.Reverse(s) }); p != nil {
			return pbt.Fail("Reverse(len=%d) panicked: %v", n, p)
		}
		if !eq(s, want) {
			return pbt.Fail("Reverse(%s) = %s, want %s%s", show(orig), show(s), show(want), where(s, want))
		}
		if n%2 == 0 {
			lab("even")
		} else {
			lab("odd")
		}
		lab(lenLabel(n))
		out.NonTrivial = n >= 3

	case "Concat":
		backA, a := mk(n, spare, 1)
		backB, b := mk(c.LenB, c.SpareB, 201)
		want := append(append([]int{}, a...), b...)
		var r myInts
		if p := try(func() { r = slices.Concat(a, b) }); p != nil {
			return pbt.Fail("Concat(len %d cap %d, len %d cap %d) panicked: %v", n, n+spare, c.LenB, c.LenB+c.SpareB, p)
		}
		if !eq(r, want) {
			return pbt.Fail("Concat(%s (cap %d), %s (cap %d)) = %s, want %s%s", show(a), n+spare, show(b), c.LenB+c.SpareB, show(r), show(want), where(r, want))
		}
		name := fmt.Sprintf("Concat(a: len %d cap %d, b: len %d cap %d)", n, n+spare, c.LenB, c.LenB+c.SpareB)
		if m := checkDisjoint(name, r, backA, backB); m != "" {
			return pbt.Fail("%s", m)
		}
		switch {
		case n == 0 && c.LenB == 0:
			lab("both-empty")
		case n == 0:
			lab("a-empty")
		case c.LenB == 0:
			lab("b-empty")
		default:
			lab("both-nonempty")
		}
		if spare >= c.LenB && c.LenB > 0 {
			lab("b-fits-in-a's-spare")
		}
		if spare >= c.LenB && spare > 0 {
			lab("append-would-alias")
		}
		out.NonTrivial = n >= 1 && c.LenB >= 1 && spare >= c.LenB

	case "Clone":
		back, s := mk(n, spare, 1)
		want := append([]int{}, s...)
		var r myInts
		if p := try(func() { r = slices.Clone(s) }); p != nil {
			return pbt.Fail("Clone(len %d cap %d) panicked: %v", n, n+spare, p)
		}
		if !eq(r, want) {
			return pbt.Fail("Clone(%s) = %s%s", show(want), show(r), where(r, want))
		}
		if m := checkDisjoint(fmt.Sprintf("Clone(len %d cap %d)", n, n+spare), r, back); m != "" {
			return pbt.Fail("%s", m)
		}
		lab(spareLabel(spare), lenLabel(n))
		out.NonTrivial = n >= 1 && spare >= 1

	case "Grow":
		_, s := mk(n, spare, 1)
		orig := append([]int(nil), s...)
		want := append(append([]int{}, orig...), make([]int, c.K)...)
		var r myInts
		if p := try(func() { r = slices.Grow(s, c.K) }); p != nil {
			return pbt.Fail("Grow(len %d cap %d, n=%d) panicked: %v", n, n+spare, c.K, p)
		}
		if !eq(r, want) {
			return pbt.Fail("Grow(%s (cap %d, spare capacity poisoned), n=%d) = %s, want %s%s", show(orig), n+spare, c.K, show(r), show(want), where(r, want))
		}
		switch {
		case c.K == 0:
			lab("n=0")
		case spare == 0:
			lab("spare=0")
		case c.K <= spare:
			lab("n<=spare(in place over poison)")
		default:
			lab("n>spare(realloc)")
		}
		out.NonTrivial = c.K >= 1 && spare >= 1

	default:
		out.Skipped = true
		return out
	}
	out.Labels = append(out.Labels, "op="+c.Op)
	return out
}

// bigLabel classifies the size of the result.
func bigLabel(n int) string {
	switch {
	case n <= 64:
		return "size<=64"
	case n <= 256:
		return "size65..256"
	case n <= 1024:
		return "size257..1024"
	case n <= 4096:
		return "size1025..4096"
	default:
		return "size>4096"
	}
}

func lenLabel(n int) string {
	switch {
	case n == 0:
		return "len=0"
	case n == 1:
		return "len=1"
	case n == 2:
		return "len=2"
	case n&(n-1) == 0:
		return "len=2^k"
	case (n-1)&(n-2) == 0:
		return "len=2^k+1"
	case (n+1)&n == 0:
		return "len=2^k-1"
	default:
		return "len=other"
	}
}

// hasZeroArg reports whether the case hands a slice of length 0 and capacity 0 to the helper.
func hasZeroArg(c Case) bool {
	switch c.Op {
	case "Repeat":
		return false
	case "InsertSlice":
		return c.Len+c.Spare == 0 || c.K+c.SpareB == 0
	case "Concat":
		return c.Len+c.Spare == 0 || c.LenB+c.SpareB == 0
	}
	return c.Len+c.Spare == 0
}

// drawSize draws a length for the "big" mode: uniform, or next to a power of two, or next to a multiple of 64
// (the places where growth formulas, block loops and size classes change), up to max.
func drawSize(t *rapid.T, max int, name string) int {
	var n int
	switch rapid.IntRange(0, 3).Draw(t, name+"_kind") {
	case 0:
		n = rapid.IntRange(0, max).Draw(t, name)
	case 1, 2:
		e := 3
		for 1<<(e+1) <= max {
			e++
		}
		n = 1<<rapid.IntRange(3, e).Draw(t, name+"_exp") + rapid.IntRange(-2, 2).Draw(t, name+"_delta")
	default:
		n = 64*rapid.IntRange(1, max/64).Draw(t, name+"_blocks") + rapid.IntRange(-1, 1).Draw(t, name+"_delta")
	}
	return min(max, n)
}

// drawCase draws one call: the shape generator shared by C12.rand and C12.types.
func drawCase(t *rapid.T) Case {
	c := Case{Op: rapid.SampledFrom(opNames).Draw(t, "op")}
	big := rapid.IntRange(0, 11).Draw(t, "big") == 0
	wide := func(lo, hi, wideHi int, name string) int {
		if big {
			// the spare capacity and the batch are drawn relative to the same scale so that every relation
			// between batch, spare capacity and capacity occurs
			return drawSize(t, bigMax, name)
		}
		if rapid.IntRange(0, 7).Draw(t, name+"_wide") == 0 {
			return rapid.IntRange(lo, wideHi).Draw(t, name)
		}
		return rapid.IntRange(lo, hi).Draw(t, name)
	}
	switch c.Op {
	case "Fill", "Reverse":
		c.Len = wide(0, 70, 600, "len")
		c.Spare = wide(0, 6, 40, "spare")
	case "Repeat":
		c.K = wide(0, 70, 600, "count")
	case "Concat":
		c.Len = wide(0, 12, 70, "len")
		c.LenB = wide(0, 12, 70, "len_b")
		if rapid.Bool().Draw(t, "fits") {
			c.Spare = c.LenB + rapid.IntRange(0, 3).Draw(t, "extra")
		} else {
			c.Spare = wide(0, 6, 40, "spare")
		}
		c.SpareB = rapid.IntRange(0, 6).Draw(t, "spare_b")
	default:
		c.Len = wide(0, 12, 70, "len")
		c.Spare = wide(0, 6, 40, "spare")
		if big && rapid.Bool().Draw(t, "small_spare") {
			c.Spare = rapid.IntRange(0, 3).Draw(t, "spare_small")
		}
	}
	switch c.Op {
	case "Insert":
		c.Index = rapid.IntRange(0, c.Len).Draw(t, "index")
	case "InsertSlice":
		c.Index = rapid.IntRange(0, c.Len).Draw(t, "index")
		c.K = wide(0, 8, 40, "k")
		c.SpareB = rapid.IntRange(0, 3).Draw(t, "spare_b")
	case "Remove":
		if c.Len == 0 {
			c.Len = 1
		}
		c.Index = rapid.IntRange(0, c.Len-1).Draw(t, "index")
	case "RemoveSlice":
		c.Index = rapid.IntRange(0, c.Len).Draw(t, "index")
		c.K = rapid.IntRange(0, c.Len-c.Index).Draw(t, "length")
		if c.K == 0 && c.Len-c.Index >= 1 && rapid.IntRange(0, 3).Draw(t, "nonzero") > 0 {
			c.K = rapid.IntRange(1, c.Len-c.Index).Draw(t, "length1")
		}
	case "Grow":
		c.K = wide(0, 8, 40, "n")
	}
	if hasZeroArg(c) {
		c.Nil = rapid.Bool().Draw(t, "nil")
	}
	return c
}

const bigMax = 5000

// enumerate yields every case of the exhaustive grid.
func enumerate(tier string, yield0 func(Case) bool) {
	// every case that hands a zero-length zero-capacity slice to the helper is run twice: empty non-nil and nil
	yield := func(c Case) bool {
		if !yield0(c) {
			return false
		}
		if hasZeroArg(c) {
			c.Nil = true
			return yield0(c)
		}
		return true
	}
	maxLen, maxSpare, maxK, maxFill := 8, 3, 8, 70
	if tier == "thorough" {
		maxLen, maxSpare, maxK, maxFill = 14, 5, 10, 300
	}
	for n := 0; n <= maxLen; n++ {
		for sp := 0; sp <= maxSpare; sp++ {
			for idx := 0; idx <= n; idx++ {
				if !yield(Case{Op: "Insert", Len: n, Spare: sp, Index: idx}) {
					return
				}
				for k := 0; k <= maxK; k++ {
					if !yield(Case{Op: "InsertSlice", Len: n, Spare: sp, Index: idx, K: k, SpareB: (k + idx) % 2}) {
						return
					}
				}
				if idx < n && !yield(Case{Op: "Remove", Len: n, Spare: sp, Index: idx}) {
					return
				}
				for l := 0; idx+l <= n; l++ {
					if !yield(Case{Op: "RemoveSlice", Len: n, Spare: sp, Index: idx, K: l}) {
						return
					}
				}
			}
			if !yield(Case{Op: "Reverse", Len: n, Spare: sp}) || !yield(Case{Op: "Clone", Len: n, Spare: sp}) {
				return
			}
			for k := 0; k <= maxK; k++ {
				if !yield(Case{Op: "Grow", Len: n, Spare: sp, K: k}) {
					return
				}
			}
		}
		// Concat: a's spare capacity ranges up to maxLen so that b can fit in it
		for sp := 0; sp <= maxLen; sp++ {
			for nb := 0; nb <= maxLen; nb++ {
				if !yield(Case{Op: "Concat", Len: n, Spare: sp, LenB: nb, SpareB: (n + nb) % 3}) {
					return
				}
			}
		}
	}
	for n := 0; n <= maxFill; n++ {
		for sp := 0; sp <= maxSpare; sp++ {
			if !yield(Case{Op: "Fill", Len: n, Spare: sp}) {
				return
			}
		}
		if !yield(Case{Op: "Repeat", K: n}) || !yield(Case{Op: "Reverse", Len: n, Spare: n % 2}) {
			return
		}
	}
}

var specEnum = pbt.Register(&pbt.Spec[Case]{
	Property: "C12", Name: "C12.enum",
	Rule: "exhaustive grid: every (len <= 8, spare <= 3, index) triple for Insert/Remove, x every values length 0..8 for InsertSlice, " +
		"x every (index, length) with index+length <= len for RemoveSlice, Grow n 0..8, Reverse/Clone every (len, spare), " +
		"Concat every (len a <= 8, spare a <= 8, len b <= 8), Fill/Repeat/Reverse every length 0..70 " +
		"(thorough: len <= 14, spare <= 5, k <= 10, Fill/Repeat <= 300); every case with a zero-length zero-capacity argument " +
		"(destination, inserted values, Concat operand) is run with an empty non-nil slice and with a nil slice; " + rule,
	Enum: func(shard, shards int, tier string, yield func(Case) bool) { enumerate(tier, yield) },
	Run:  Run, Exhaustive: true,
	Replicas: 4, ReplicaEvery: 8,
})

var specRand = pbt.Register(&pbt.Spec[Case]{
	Property: "C12", Name: "C12.rand",
	Rule: "rapid: op uniform over the ten helpers; len 0..12 (1 in 8: 0..70), spare 0..6 (1 in 8: 0..40), any valid index, " +
		"InsertSlice values 0..8 (1 in 8: 0..40) with own backing array, RemoveSlice any (index, length), Fill/Repeat/Reverse length 0..70 " +
		"(1 in 8: 0..600), Grow n 0..8 (1 in 8: 0..40); 1 case in 12 is BIG: every length / spare capacity / batch / count is drawn " +
		"from 0..5000 (uniform, or 2^k-2..2^k+2, or 64m-1..64m+1), spare capacity 0..3 in half of them, so that the destination " +
		"capacity crosses the thresholds of append's growth formula (256, 1.25x steps, more than double) in every relation between " +
		"batch, spare capacity and capacity; zero-length zero-capacity arguments are nil slices in half of the cases that have one; " + rule,
	Gen: drawCase,
	Run: Run, Quick: 100000, Thorough: 300000,
	Replicas: 4, ReplicaEvery: 8,
})

func TestC12Enum(t *testing.T) { pbt.Check(t, specEnum) }
func TestC12Rand(t *testing.T) { pbt.Check(t, specRand) }
func TestReplay(t *testing.T)  { pbt.Replay(t) }
