package c12

import (
	"fmt"
	"testing"

	"gopkg.in/typ.v4/slices"
	"pgregory.net/rapid"
	"verifharness/internal/pbt"
)

// SeqCase is a history of helper calls on ONE slice, so the capacities are the
// ones that Go's append growth really produces rather than hand-made ones.
// Index arguments are raw ints reduced modulo the live length inside Run.
type SeqCase struct {
	Len   int  `json:"len"`
	Spare int  `json:"spare"`
	Ops   []Op `json:"ops"`
}

// Op kinds: 0 Insert(A) 1 InsertSlice(A, B values) 2 Remove(A) 3 RemoveSlice(A, B)
// 4 Reverse 5 Grow(B) 6 s=Clone(s) 7 s=Concat(s, B values) 8 Fill
type Op struct {
	K int `json:"k"`
	A int `json:"a"`
	B int `json:"b"`
}

var seqOpNames = []string{"Insert", "InsertSlice", "Remove", "RemoveSlice", "Reverse", "Grow", "Clone", "Concat", "Fill"}

func RunSeq(c SeqCase) pbt.Outcome {
	out := pbt.Outcome{}
	if c.Len < 0 || c.Spare < 0 {
		out.Skipped = true
		return out
	}
	_, s := mk(c.Len, c.Spare, 1)
	model := append([]int(nil), s...)
	next := 1000 // fresh distinct values
	fresh := func(k int) myInts {
		v := make(myInts, k)
		for i := range v {
			v[i] = next
			next++
		}
		return v
	}
	hist := ""
	inside := 0
	maxLen := len(model)
	for step, op := range c.Ops {
		if op.B < 0 || op.K < 0 || op.K >= len(seqOpNames) {
			continue
		}
		// poison the spare capacity before every call
		full := s[:cap(s)]
		for i := len(s); i < len(full); i++ {
			full[i] = poison(i)
		}
		n, sp := len(s), cap(s)-len(s)
		name := seqOpNames[op.K]
		var call string
		var want []int
		var p any
		switch op.K {
		case 0:
			idx := mod(op.A, n+1)
			v := fresh(1)[0]
			call = fmt.Sprintf("Insert(index=%d, value=%d)", idx, v)
			want = append(append(append([]int{}, model[:idx]...), v), model[idx:]...)
			p = try(func() { slices.Insert(&s, idx, v) })
			if sp > 0 && idx > 0 && idx < n {
				inside++
			}
		case 1:
			idx := mod(op.A, n+1)
			vals := fresh(op.B)
			call = fmt.Sprintf("InsertSlice(index=%d, values=%s)", idx, show(vals))
			want = append(append(append([]int{}, model[:idx]...), vals...), model[idx:]...)
			p = try(func() { slices.InsertSlice(&s, idx, vals) })
			if sp > 0 && idx > 0 && idx < n && op.B > 0 {
				inside++
			}
		case 2:
			if n == 0 {
				continue
			}
			idx := mod(op.A, n)
			call = fmt.Sprintf("Remove(index=%d)", idx)
			want = append(append([]int{}, model[:idx]...), model[idx+1:]...)
			p = try(func() { slices.Remove(&s, idx) })
			if sp > 0 && idx > 0 && idx < n-1 {
				inside++
			}
		case 3:
			idx := mod(op.A, n+1)
			length := mod(op.B, n-idx+1)
			call = fmt.Sprintf("RemoveSlice(index=%d, length=%d)", idx, length)
			want = append(append([]int{}, model[:idx]...), model[idx+length:]...)
			p = try(func() { slices.RemoveSlice(&s, idx, length) })
			if sp > 0 && idx > 0 && length > 0 && idx+length < n {
				inside++
			}
		case 4:
			call = "Reverse()"
			want = make([]int, n)
			for i := range model {
				want[n-1-i] = model[i]
			}
			p = try(func() { slices.Reverse(s) })
		case 5:
			call = fmt.Sprintf("s = Grow(s, %d)", op.B)
			want = append(append([]int{}, model...), make([]int, op.B)...)
			p = try(func() { s = slices.Grow(s, op.B) })
		case 6:
			call = "s = Clone(s)"
			want = append([]int{}, model...)
			p = try(func() { s = slices.Clone(s) })
		case 7:
			vals := fresh(op.B)
			call = fmt.Sprintf("s = Concat(s, %s)", show(vals))
			want = append(append([]int{}, model...), vals...)
			old := full
			p = try(func() { s = slices.Concat(s, vals) })
			if p == nil && eq(s, want) {
				// the old slice (with its spare capacity) must be unaffected by writes to the new one
				snap := append([]int(nil), old...)
				for i := range s {
					s[i] = -s[i] - 5000000
				}
				for i := range old {
					if old[i] != snap[i] {
						return pbt.Fail("step %d %s on %s (len %d cap %d): result shares memory with input a (slot %d changed when the result was written); history:%s",
							step, call, show(model), n, n+sp, i, hist)
					}
				}
				for i := range s {
					s[i] = -(s[i] + 5000000)
				}
			}
		case 8:
			v := fresh(1)[0]
			call = fmt.Sprintf("Fill(%d)", v)
			want = make([]int, n)
			for i := range want {
				want[i] = v
			}
			p = try(func() { slices.Fill(s, v) })
		}
		out.Evals++
		if p != nil {
			return pbt.Fail("step %d: %s on %s (len %d cap %d) panicked: %v; history:%s", step, call, show(model), n, n+sp, p, hist)
		}
		if !eq(s, want) {
			return pbt.Fail("step %d: %s on %s (len %d cap %d) gave %s, want %s%s; history:%s", step, call, show(model), n, n+sp, show(s), show(want), where(s, want), hist)
		}
		model = want
		maxLen = max(maxLen, len(model))
		if len(hist) < 600 {
			hist += " " + call + ";"
		}
		l := "seq:" + name
		if sp > 0 {
			l += ":spare>0"
		} else {
			l += ":spare=0"
		}
		out.Labels = append(out.Labels, l)
	}
	if out.Evals == 0 {
		out.Evals = 1
	}
	out.Labels = append(out.Labels, "seq:max-"+bigLabel(maxLen))
	switch {
	case inside == 0:
		out.Labels = append(out.Labels, "seq:inside-splices=0")
	case inside < 4:
		out.Labels = append(out.Labels, "seq:inside-splices=1..3")
	default:
		out.Labels = append(out.Labels, "seq:inside-splices>=4")
	}
	out.NonTrivial = inside >= 1
	return out
}

var specSeq = pbt.Register(&pbt.Spec[SeqCase]{
	Property: "C12", Name: "C12.seq",
	Rule: "rapid: a history of 1..24 helper calls (Insert, InsertSlice, Remove, RemoveSlice, Reverse, Grow, Clone, Concat, Fill) on one " +
		"slice (initial len 0..8, spare 0..4), so capacities are the ones append growth really produces; the spare capacity is re-poisoned " +
		"before every call; after every call the slice equals the model built with fresh appends; indices are raw ints reduced modulo the " +
		"live length; 1 history in 8 is BIG: initial len 0..1200 (uniform, next to a power of two or next to a multiple of 64) and batch sizes " +
		"(InsertSlice / Concat / Grow / RemoveSlice lengths) up to 700 in a third of the calls, so that the slice crosses the 256 / 512 / 1024 ... " +
		"capacity thresholds through the library's own growth, repeatedly; non-trivial = at least one Insert/InsertSlice/Remove/RemoveSlice " +
		"strictly inside a slice that had spare capacity",
	Gen: func(t *rapid.T) SeqCase {
		c := SeqCase{Len: rapid.IntRange(0, 8).Draw(t, "len"), Spare: rapid.IntRange(0, 4).Draw(t, "spare")}
		big := rapid.IntRange(0, 7).Draw(t, "big") == 0
		if big {
			c.Len = drawSize(t, 1200, "biglen")
		}
		// weights: splices dominate; Fill is rare
		kinds := []int{0, 0, 0, 1, 1, 1, 2, 2, 2, 3, 3, 3, 4, 5, 5, 6, 7, 7, 8}
		c.Ops = rapid.SliceOfN(rapid.Custom(func(t *rapid.T) Op {
			op := Op{K: rapid.SampledFrom(kinds).Draw(t, "k"), A: rapid.IntRange(0, 40).Draw(t, "a"), B: rapid.IntRange(0, 6).Draw(t, "b")}
			if big {
				op.A = rapid.IntRange(0, 3000).Draw(t, "big_a")
				if rapid.IntRange(0, 2).Draw(t, "big_batch") == 0 {
					op.B = drawSize(t, 700, "big_b")
				}
			}
			return op
		}), 1, 24).Draw(t, "ops")
		return c
	},
	Run: RunSeq, Quick: 30000, Thorough: 100000,
	Replicas: 4, ReplicaEvery: 8,
})

func TestC12Seq(t *testing.T) { pbt.Check(t, specSeq) }
