package c12

import (
	"fmt"
	"math"
	"testing"
	"unsafe"

	"gopkg.in/typ.v4/slices"
	"verifharness/internal/pbt"
)

// C12.huge: slices of ZERO-SIZE elements may legally have any length up to
// MaxInt (they use no memory), so "every length" in the statement includes
// lengths beyond 2^31, 2^32 and 2^62, where index arithmetic of the helpers
// (doubling loops, index+length sums) can overflow. Zero-size elements have a
// single value, so the contents are trivially right: the oracle is "does not
// panic and the resulting length is exactly the model's". Every helper except
// Reverse is O(1) or O(log n) on such slices (copy and make do no work);
// Reverse walks len/2 elements and cannot be run at these lengths.

type HCase struct {
	Type  string `json:"type"` // "struct{}" | "[0]int"
	Op    string `json:"op"`
	Len   int    `json:"len"`
	Spare int    `json:"spare"`
	Index int    `json:"index"`
	K     int    `json:"k"`
}

func hugeLabel(n int) string {
	switch {
	case n < 1<<31:
		return "len<2^31"
	case n <= 1<<32:
		return "2^31<=len<=2^32"
	case n < 1<<62:
		return "2^32<len<2^62"
	case n == 1<<62:
		return "len=2^62"
	case n == math.MaxInt:
		return "len=MaxInt"
	default:
		return "2^62<len<MaxInt"
	}
}

func runHuge[E any](c HCase) (out pbt.Outcome) {
	out = pbt.Outcome{Evals: 1}
	var v E
	if unsafe.Sizeof(v) != 0 || c.Len < 0 || c.Spare < 0 || c.K < 0 || c.Index < 0 || c.Len > math.MaxInt-c.Spare {
		out.Skipped = true
		return out
	}
	n := c.Len
	s := make(sl[E], n, n+c.Spare)
	desc := fmt.Sprintf("[%s] (len %d cap %d)", c.Type, n, n+c.Spare)
	wantLen := -1
	var gotLen int
	var p any
	var call string
	switch c.Op {
	case "Fill":
		call = fmt.Sprintf("Fill(%s, value)", desc)
		wantLen = n
		p = try(func() { slices.Fill(s, v) })
		gotLen = len(s)
	case "Repeat":
		call = fmt.Sprintf("Repeat[%s](value, count=%d)", c.Type, n)
		wantLen = n
		p = try(func() { gotLen = len(slices.Repeat(v, n)) })
	case "Insert":
		if n == math.MaxInt || c.Index > n {
			out.Skipped = true
			return out
		}
		call = fmt.Sprintf("Insert(%s, index=%d, value)", desc, c.Index)
		wantLen = n + 1
		p = try(func() { slices.Insert(&s, c.Index, v) })
		gotLen = len(s)
	case "InsertSlice":
		if c.K > math.MaxInt-n || c.Index > n {
			out.Skipped = true
			return out
		}
		call = fmt.Sprintf("InsertSlice(%s, index=%d, %d values)", desc, c.Index, c.K)
		wantLen = n + c.K
		vals := make(sl[E], c.K)
		p = try(func() { slices.InsertSlice(&s, c.Index, vals) })
		gotLen = len(s)
	case "Remove":
		if c.Index >= n {
			out.Skipped = true
			return out
		}
		call = fmt.Sprintf("Remove(%s, index=%d)", desc, c.Index)
		wantLen = n - 1
		p = try(func() { slices.Remove(&s, c.Index) })
		gotLen = len(s)
	case "RemoveSlice":
		if c.Index > n || c.K > n-c.Index {
			out.Skipped = true
			return out
		}
		call = fmt.Sprintf("RemoveSlice(%s, index=%d, length=%d)", desc, c.Index, c.K)
		wantLen = n - c.K
		p = try(func() { slices.RemoveSlice(&s, c.Index, c.K) })
		gotLen = len(s)
	case "Grow":
		if c.K > math.MaxInt-n {
			out.Skipped = true
			return out
		}
		call = fmt.Sprintf("Grow(%s, n=%d)", desc, c.K)
		wantLen = n + c.K
		p = try(func() { gotLen = len(slices.Grow(s, c.K)) })
	case "Concat":
		if c.K > math.MaxInt-n {
			out.Skipped = true
			return out
		}
		call = fmt.Sprintf("Concat(%s, b of len %d)", desc, c.K)
		wantLen = n + c.K
		b := make(sl[E], c.K)
		p = try(func() { gotLen = len(slices.Concat(s, b)) })
	case "Clone":
		call = fmt.Sprintf("Clone(%s)", desc)
		wantLen = n
		p = try(func() { gotLen = len(slices.Clone(s)) })
	default:
		out.Skipped = true
		return out
	}
	if p != nil {
		return pbt.Fail("%s on zero-size elements panicked: %v", call, p)
	}
	if gotLen != wantLen {
		return pbt.Fail("%s on zero-size elements: resulting length %d, want %d", call, gotLen, wantLen)
	}
	out.Labels = append(out.Labels, "huge:"+c.Op+":"+hugeLabel(n), "huge:result-"+hugeLabel(wantLen))
	out.NonTrivial = n >= 1<<31 || wantLen >= 1<<31
	return out
}

func RunHuge(c HCase) pbt.Outcome {
	switch c.Type {
	case "struct{}":
		return runHuge[struct{}](c)
	case "[0]int":
		return runHuge[[0]int](c)
	}
	return pbt.Outcome{Skipped: true, Evals: 1}
}

func hugeLens() []int {
	l := []int{0, 1, 1000, math.MaxInt32, math.MaxInt32 + 1, math.MaxUint32 - 1, math.MaxUint32, math.MaxUint32 + 1, math.MaxUint32 + 2}
	for _, e := range []int{40, 48, 61, 62} {
		l = append(l, 1<<e-1, 1<<e, 1<<e+1)
	}
	l = append(l, 1<<62+1<<61, 1<<62+1<<61+1, math.MaxInt-2, math.MaxInt-1, math.MaxInt)
	return uniq(l, math.MaxInt)
}

func enumerateHuge(shard, shards int, tier string, yield func(HCase) bool) {
	lens := hugeLens()
	for _, tn := range []string{"struct{}", "[0]int"} {
		for _, n := range lens {
			for _, sp := range uniq([]int{0, 1, min(1<<31, math.MaxInt-n)}, math.MaxInt-n) {
				for _, op := range []string{"Fill", "Repeat", "Clone"} {
					if (op != "Repeat" || sp == 0) && !yield(HCase{Type: tn, Op: op, Len: n, Spare: sp}) {
						return
					}
				}
				for _, idx := range uniq([]int{0, 1, n / 2, n - 1, n}, n) {
					if n < math.MaxInt && !yield(HCase{Type: tn, Op: "Insert", Len: n, Spare: sp, Index: idx}) {
						return
					}
					if idx < n && !yield(HCase{Type: tn, Op: "Remove", Len: n, Spare: sp, Index: idx}) {
						return
					}
					for _, k := range uniq([]int{0, 1, 1 << 31, 1 << 32, 1 << 62, math.MaxInt - n - 1, math.MaxInt - n}, math.MaxInt-n) {
						if !yield(HCase{Type: tn, Op: "InsertSlice", Len: n, Spare: sp, Index: idx, K: k}) {
							return
						}
					}
					for _, l := range uniq([]int{0, 1, (n - idx) / 2, n - idx - 1, n - idx}, n-idx) {
						if !yield(HCase{Type: tn, Op: "RemoveSlice", Len: n, Spare: sp, Index: idx, K: l}) {
							return
						}
					}
				}
				for _, k := range uniq([]int{0, 1, 1 << 31, 1 << 32, 1 << 62, math.MaxInt - n - 1, math.MaxInt - n}, math.MaxInt-n) {
					if !yield(HCase{Type: tn, Op: "Grow", Len: n, Spare: sp, K: k}) ||
						!yield(HCase{Type: tn, Op: "Concat", Len: n, Spare: sp, K: k}) {
						return
					}
				}
			}
		}
	}
}

var specHuge = pbt.Register(&pbt.Spec[HCase]{
	Property: "C12", Name: "C12.huge",
	Rule: "huge slices of zero-size elements (struct{} and [0]int; they use no memory, so every length up to MaxInt is a legal input): " +
		"len in {0, 1, 1000, 2^31-1, 2^31, 2^32-2..2^32+1, 2^e-1..2^e+1 for e = 40, 48, 61, 62, 2^62+2^61, 2^62+2^61+1, MaxInt-2, MaxInt-1, MaxInt}, " +
		"spare capacity in {0, 1, 2^31}; Fill, Repeat, Clone at every such length; Insert / Remove at index in {0, 1, len/2, len-1, len}; " +
		"InsertSlice / Grow / Concat with batch in {0, 1, 2^31, 2^32, 2^62, MaxInt-len-1, MaxInt-len} (resulting length <= MaxInt: anything longer " +
		"is outside the domain); RemoveSlice length in {0, 1, rest/2, rest-1, rest}. Zero-size elements have one value, so the oracle is: no panic " +
		"and the resulting length equals the model's. Reverse is left out (it walks len/2 elements). non-trivial = input or result length >= 2^31",
	Enum: enumerateHuge,
	Run:  RunHuge, Exhaustive: true,
	Replicas: 4, ReplicaEvery: 8,
	Assumes: []string{"C12.huge: the helpers other than Reverse do O(1)/O(log n) work on zero-size elements (as the code under test does); " +
		"a correct but element-by-element re-implementation would not finish at these lengths and would be reported as divergence"},
})

func TestC12Huge(t *testing.T) { pbt.Check(t, specHuge) }
