package c12

import (
	"fmt"
	"testing"

	"gopkg.in/typ.v4/slices"
	"pgregory.net/rapid"
	"verifharness/internal/pbt"
)

// C12.alias: arguments that are VIEWS OF ONE SHARED BUFFER. "The given values"
// of InsertSlice may legally be a part of the target slice itself ("repeat
// fields 1..3 of this record at position 6", "double the slice":
// InsertSlice(&s, i, s)), the two operands of Concat may be two windows of one
// array in any order and overlap, Clone may be handed a window in the middle of
// a larger array. The model is snapshot semantics: the values as they were
// when the call was made.
//
// Established on the pinned library (exhaustively, len <= 9, spare <= 12,
// every index, every view s[a:b], three view capacities): it followed the
// snapshot model for every view EXCEPT one shape - a genuine defect, repaired
// by fix commit 4554316 in /repo; the shape is generated like every other now:
//
//	non-empty values s[a:b] that start AFTER the insertion index (a > index)
//	while the slice has spare capacity >= len(values) (insertion in place):
//	the library shifts the tail to the right before it copies the values,
//	so it copies already-shifted elements.
//	smallest example: s = [100 101] with cap 3: InsertSlice(&s, 0, s[1:2])
//	gives [100 100 101], the snapshot model wants [101 100 101].

// ACase: the shared buffer has Off + Len + Spare + Tail elements at(1), at(2), ...; the target (InsertSlice) /
// operand a (Concat) is buf[Off : Off+Len : Off+Len+Spare]; the second view (values / operand b / Clone's argument)
// is buf[lo : lo+k : c] with lo = Lo mod limit+1, k = K mod limit-lo+1 (limit = Off+Len for InsertSlice: the view lies
// in the elements before and inside the target; limit = whole buffer otherwise) and c chosen by CapMode mod 3:
// end of the buffer / lo+k / halfway.
type ACase struct {
	Type    string `json:"type"`
	Op      string `json:"op"`
	Off     int    `json:"off"`
	Len     int    `json:"len"`
	Spare   int    `json:"spare"`
	Tail    int    `json:"tail"`
	Index   int    `json:"index"`
	Lo      int    `json:"lo"`
	K       int    `json:"k"`
	CapMode int    `json:"cap_mode"`
	// Wide (InsertSlice): the view may lie ANYWHERE in the buffer (limit = the whole buffer): also in the target's own
	// spare capacity (behind its length), across the end of its capacity, or in the elements behind it.
	Wide bool `json:"wide,omitempty"`
}

var aliasRunners = map[string]func(ACase) pbt.Outcome{}

func regAlias[E any](et *etype[E]) {
	aliasRunners[et.name] = func(c ACase) pbt.Outcome { return runAlias(et, c) }
}

func RunAlias(c ACase) pbt.Outcome {
	f, ok := aliasRunners[c.Type]
	if !ok {
		return pbt.Outcome{Skipped: true, Evals: 1}
	}
	return f(c)
}

func showElems[E any](et *etype[E], s []E) string {
	if len(s) > 16 {
		return fmt.Sprintf("[%d values: %s ... %s]", len(s), showElems(et, s[:4]), showElems(et, s[len(s)-4:]))
	}
	m := "["
	for i, v := range s {
		if i > 0 {
			m += " "
		}
		m += et.show(v)
	}
	return m + "]"
}

func runAlias[E any](et *etype[E], c ACase) (out pbt.Outcome) {
	out = pbt.Outcome{Evals: 1}
	if c.Off < 0 || c.Len < 0 || c.Spare < 0 || c.Tail < 0 || c.Index < 0 || c.Lo < 0 || c.K < 0 || c.CapMode < 0 {
		out.Skipped = true
		return out
	}
	T := c.Off + c.Len + c.Spare + c.Tail
	buf := make(sl[E], T)
	for i := range buf {
		buf[i] = et.at(i + 1)
	}
	n := c.Len
	a := buf[c.Off : c.Off+n : c.Off+n+c.Spare]
	lab := func(l string) { out.Labels = append(out.Labels, "alias:"+c.Op+":"+l) }
	head := "[" + et.name + "] "
	view := func(lo, hi int) (sl[E], func() string) {
		switch mod(c.CapMode, 3) {
		case 0:
			return buf[lo:hi], func() string { return fmt.Sprintf("buf[%d:%d]", lo, hi) }
		case 1:
			return buf[lo:hi:hi], func() string { return fmt.Sprintf("buf[%d:%d:%d]", lo, hi, hi) }
		}
		m := (hi + T + 1) / 2
		return buf[lo:hi:m], func() string { return fmt.Sprintf("buf[%d:%d:%d]", lo, hi, m) }
	}
	capLabel := []string{"view-cap=to-end-of-buffer", "view-cap=len", "view-cap=halfway"}[mod(c.CapMode, 3)]
	bufDesc := func() string { return fmt.Sprintf("buf = %d elements at(1..%d)", T, T) }
	switch c.Op {
	case "InsertSlice":
		idx := mod(c.Index, n+1)
		limit := c.Off + n
		if c.Wide {
			limit = T
		}
		lo := mod(c.Lo, limit+1)
		k := mod(c.K, limit-lo+1)
		if k >= 1 && k <= c.Spare && lo-c.Off > idx && lo < c.Off+n {
			// the shape the pinned tree got wrong (values from behind the index, inserted in place; fixed: 4554316)
			lab("values-from-behind-the-index-inserted-in-place")
		}
		hi := lo + k
		vals, vdesc := view(lo, hi)
		given := append([]E(nil), vals...)
		orig := append([]E(nil), a...)
		want := append(append(append(make([]E, 0, n+k), orig[:idx]...), given...), orig[idx:]...)
		s := a
		call := func() string {
			return fmt.Sprintf("%s%s; s = buf[%d:%d:%d] (len %d cap %d); InsertSlice(&s, index=%d, values=%s = %s)", head, bufDesc(),
				c.Off, c.Off+n, c.Off+n+c.Spare, n, n+c.Spare, idx, vdesc(), showElems(et, given))
		}
		if p := try(func() { slices.InsertSlice(&s, idx, vals) }); p != nil {
			return pbt.Fail("%s panicked: %v", call(), p)
		}
		if d := diffT(et, s, want); d != "" {
			return pbt.Fail("%s: the result is not s[:index] + the values as they were passed + s[index:]: %s (got %s, want %s)", call(), d, showElems(et, s), showElems(et, want))
		}
		inPlace := k <= c.Spare
		capEnd := c.Off + n + c.Spare
		switch {
		case k == 0 || lo < c.Off+n:
			lab(aliasRelation(idx, lo-c.Off, hi-c.Off, n, inPlace))
		case hi <= capEnd && idx == n:
			lab(map[bool]string{true: "in-place:", false: "realloc:"}[inPlace] + "view-in-the-spare-capacity,index=len")
		case hi <= capEnd:
			lab(map[bool]string{true: "in-place:", false: "realloc:"}[inPlace] + "view-in-the-spare-capacity,index<len")
		case lo < capEnd:
			lab(map[bool]string{true: "in-place:", false: "realloc:"}[inPlace] + "view-across-the-end-of-the-capacity")
		default:
			lab(map[bool]string{true: "in-place:", false: "realloc:"}[inPlace] + "view-behind-the-capacity")
		}
		if k >= 1 && lo < c.Off+n && hi > c.Off+n {
			lab("view-spans-len(elements+spare-capacity)")
		}
		lab(capLabel)
		if lo < c.Off {
			lab("view-starts-before-the-slice")
		}
		if k >= 1 && hi > c.Off {
			switch tail := n - idx; {
			case k < tail:
				lab("len(values)<elements-after-index")
			case k == tail:
				lab("len(values)=elements-after-index")
			default:
				lab("len(values)>elements-after-index")
			}
		}
		out.NonTrivial = k >= 1 && hi > c.Off && lo < capEnd

	case "Concat":
		lo := mod(c.Lo, T+1)
		k := mod(c.K, T-lo+1)
		hi := lo + k
		b, bdesc := view(lo, hi)
		want := append(append(make([]E, 0, n+k), a...), b...)
		name := fmt.Sprintf("%s%s; Concat(a = buf[%d:%d:%d], b = %s)", head, bufDesc(), c.Off, c.Off+n, c.Off+n+c.Spare, bdesc())
		var r sl[E]
		if p := try(func() { r = slices.Concat(a, b) }); p != nil {
			return pbt.Fail("%s panicked: %v", name, p)
		}
		if d := diffT(et, r, want); d != "" {
			return pbt.Fail("%s: %s", name, d)
		}
		if m := disjointT(et, name, r, buf); m != "" {
			return pbt.Fail("%s", m)
		}
		aEnd := c.Off + n
		switch {
		case k == 0 || n == 0:
			lab("an-operand-empty")
		case lo == aEnd:
			lab("b-starts-where-a-ends(in-a's-spare-capacity-or-behind)")
		case lo == c.Off && hi == aEnd:
			lab("b=a")
		case hi <= c.Off:
			lab("b-before-a")
		case lo > aEnd:
			lab("b-behind-a")
		default:
			lab("b-overlaps-a")
		}
		lab(capLabel)
		out.NonTrivial = k >= 1 && n >= 1

	case "Clone":
		lo := mod(c.Lo, T+1)
		k := mod(c.K, T-lo+1)
		hi := lo + k
		v, vdesc := view(lo, hi)
		want := append(make([]E, 0, k), v...)
		name := fmt.Sprintf("%s%s; Clone(%s)", head, bufDesc(), vdesc())
		var r sl[E]
		if p := try(func() { r = slices.Clone(v) }); p != nil {
			return pbt.Fail("%s panicked: %v", name, p)
		}
		if d := diffT(et, r, want); d != "" {
			return pbt.Fail("%s: %s", name, d)
		}
		if m := disjointT(et, name, r, buf); m != "" {
			return pbt.Fail("%s", m)
		}
		if lo > 0 && hi < T {
			lab("view-strictly-inside-the-buffer")
		}
		lab(capLabel)
		out.NonTrivial = k >= 1 && lo > 0 && hi < T

	default:
		out.Skipped = true
		return out
	}
	out.Labels = append(out.Labels, "alias:type="+et.name, "alias:"+bigLabel(T))
	return out
}

// enumerateAlias: the exhaustive small grid (see the Rule).
func enumerateAlias(shard, shards int, tier string, yield0 func(ACase) bool) {
	seq := 0
	stop := false
	yield := func(c ACase) {
		seq++
		if stop || seq%shards != shard {
			return
		}
		if !yield0(c) {
			stop = true
		}
	}
	for _, tn := range []string{"int", "string"} {
		maxLen, maxSpare := 6, 7
		if tn == "string" {
			maxLen, maxSpare = 4, 5
		}
		if tier == "thorough" {
			maxLen, maxSpare = maxLen+2, maxSpare+2
		}
		for _, off := range []int{0, 2} {
			tail := off / 2
			for n := 0; n <= maxLen; n++ {
				for sp := 0; sp <= maxSpare; sp++ {
					for idx := 0; idx <= n; idx++ {
						for lo := 0; lo <= off+n; lo++ {
							for k := 0; lo+k <= off+n; k++ {
								if k >= 1 && k <= sp && lo-off > idx {
									continue // the excluded shape
								}
								for cm := 0; cm < 3; cm++ {
									yield(ACase{Type: tn, Op: "InsertSlice", Off: off, Len: n, Spare: sp, Tail: tail, Index: idx, Lo: lo, K: k, CapMode: cm})
								}
							}
						}
					}
					if stop {
						return
					}
				}
			}
		}
		// wide views: every view that reaches beyond the slice's length (into its spare capacity, across the end of
		// its capacity, behind it)
		wl, ws := 5, 6
		if tn == "string" {
			wl, ws = 3, 4
		}
		if tier == "thorough" {
			wl, ws = wl+2, ws+2
		}
		for _, off := range []int{0, 1} {
			for n := 0; n <= wl; n++ {
				for sp := 0; sp <= ws; sp++ {
					for tail := 0; tail <= 2; tail += 2 {
						T := off + n + sp + tail
						for idx := 0; idx <= n; idx++ {
							for lo := 0; lo <= T; lo++ {
								for hi := max(lo, off+n+1); hi <= T; hi++ {
									for cm := 0; cm < 3; cm++ {
										yield(ACase{Type: tn, Op: "InsertSlice", Off: off, Len: n, Spare: sp, Tail: tail, Index: idx, Lo: lo, K: hi - lo, CapMode: cm, Wide: true})
									}
								}
							}
						}
					}
					if stop {
						return
					}
				}
			}
		}
		for _, off := range []int{0, 1} {
			for n := 0; n <= 4; n++ {
				for sp := 0; sp <= 3; sp++ {
					for tail := 0; tail <= 1; tail++ {
						T := off + n + sp + tail
						for lo := 0; lo <= T; lo++ {
							for k := 0; lo+k <= T; k++ {
								for cm := 0; cm < 3; cm++ {
									yield(ACase{Type: tn, Op: "Concat", Off: off, Len: n, Spare: sp, Tail: tail, Lo: lo, K: k, CapMode: cm})
									if off == 0 && tail == 0 {
										yield(ACase{Type: tn, Op: "Clone", Len: n, Spare: sp, Lo: lo, K: k, CapMode: cm})
									}
								}
							}
						}
					}
				}
			}
		}
	}
	// large shapes, every relation between view and index: len next to powers of two and in between, spare capacity
	// none / less than the view / exactly the view / ample
	lens := []int{31, 32, 33, 100, 255, 256, 257, 1000, 1023, 1024, 1025, 4097}
	if tier == "thorough" {
		lens = append(lens, 2047, 2048, 2049, 8191, 8192, 8193, 16385, 65537)
	}
	for _, tn := range []string{"int", "string", "struct(520B)"} {
		for _, n := range lens {
			if tn == "struct(520B)" && n > 257 {
				continue
			}
			for _, idx := range uniq([]int{0, 1, n / 3, n / 2, n - 1, n}, n) {
				for _, v := range [][2]int{{0, n}, {0, idx}, {0, idx / 2}, {idx / 2, idx}, {idx / 2, idx + 1}, {idx / 2, (idx + n + 1) / 2}, {idx, n}, {idx, idx + 1}, {idx, (idx + n) / 2},
					{0, 1}, {1, 3}, {idx / 3, 2 * idx / 3}} {
					lo, hi := v[0], v[1]
					if hi > n || lo > hi {
						continue
					}
					k := hi - lo
					for _, sp := range uniq([]int{0, k - 1, k, k + 1, n + k + 7}, 1<<30) {
						yield(ACase{Type: tn, Op: "InsertSlice", Len: n, Spare: sp, Index: idx, Lo: lo, K: k, CapMode: (lo + sp) % 3})
					}
				}
				// wide: values from the spare capacity (sp elements) and around its two ends
				for _, sp := range []int{1, 7, n / 2, n + 9} {
					for _, v := range [][2]int{{n, n + sp}, {n, n + (sp+1)/2}, {n + sp/2, n + sp}, {n + sp/3, n + sp/3 + sp/2}, {n - 1, n + 1}, {idx, n + sp/2}, {0, n + sp},
						{n + sp - 1, n + sp + 1}, {n + sp, n + sp + 2}, {n + sp/2, n + sp + 2}} {
						lo, hi := v[0], v[1]
						if lo < 0 || lo >= hi || sp < 1 {
							continue
						}
						yield(ACase{Type: tn, Op: "InsertSlice", Len: n, Spare: sp, Tail: 2, Index: idx, Lo: lo, K: hi - lo, CapMode: (lo + sp) % 3, Wide: true})
					}
				}
			}
			if stop {
				return
			}
		}
	}
}

var specAlias = pbt.Register(&pbt.Spec[ACase]{
	Property: "C12", Name: "C12.alias",
	Rule: "arguments that are views of ONE shared buffer buf (off + len + spare + tail elements, all distinct): " +
		"InsertSlice(&s, index, values) with s = buf[off:off+len:off+len+spare] and values = buf[lo:hi:c], any lo <= hi <= off+len (a part of the slice itself, " +
		"the whole slice, an empty part, a part that starts in the elements before the slice), c = end of the buffer / hi (no spare capacity) / halfway; " +
		"expected = s[:index] + the values as they were when passed + s[index:] (snapshot semantics), only the resulting slice is asserted. " +
		"Every shape is generated - also the one the pinned tree got wrong (fixed by 4554316): non-empty values that start after the insertion index (lo-off > index) " +
		"while spare >= len(values), i.e. insertion in place: s=[100 101] cap 3, InsertSlice(&s, 0, s[1:2]) gave [100 100 101] - : values ending before the index, spanning the index, the whole slice, " +
		"after the index with reallocation, each in place and with reallocation, len(values) <, =, > number of elements after the index. " +
		"Concat(a, b) with a = buf[off:off+len:off+len+spare] and b = ANY view buf[lo:hi:c] of the same buffer (equal to a, overlapping a, starting exactly where a " +
		"ends i.e. in a's spare capacity, before a, behind a): result = a + b and shares no memory with buf (writing the result up to its capacity changes " +
		"nothing in buf and vice versa). Clone(buf[lo:hi:c]) likewise. " +
		"Enumerated part (exhaustive): InsertSlice: off in {0, 2}, len 0..6, spare 0..7 on int and len 0..4, spare 0..5 on string, every index, every view (lo, hi), 3 view capacities " +
		"(thorough: len and spare two more each); wide=true: the values may lie ANYWHERE in the buffer - in the slice's own spare capacity (behind its length: a read buffer extended by data already received behind it), " +
		"across its length, across the end of its capacity, behind it (tail elements) - enumerated: off 0..1, len 0..5, spare 0..6 (string: len 0..3, spare 0..4; thorough two more each), tail in {0, 2}, every index, every view that ends behind " +
		"the slice's length, 3 view capacities; large shapes: spare in {1, 7, len/2, len+9}, ten views in and around the spare capacity; random: one InsertSlice case in three is wide (index = len in a third of them); Concat/Clone: off 0..1, len 0..4, spare 0..3, tail 0..1, every view, 3 capacities; plus large shapes (int, string, 520-byte struct): " +
		"len in {31, 32, 33, 100, 255, 256, 257, 1000, 1023, 1024, 1025, 4097} (thorough up to 65537), index in {0, 1, len/3, len/2, len-1, len}, twelve views relative to " +
		"the index, spare in {0, k-1, k, k+1, len+k+7} (the 520-byte struct up to len 257). Random part: any of the 18 element types of C12.types, sizes 0..12 (1 in 8: up to 70; 1 in 10: up to 3000 " +
		"next to powers of two). non-trivial = (InsertSlice) non-empty values overlapping the slice's own elements; (Concat) both operands non-empty; " +
		"(Clone) non-empty view strictly inside the buffer",
	Enum: enumerateAlias,
	Gen: func(t *rapid.T) ACase {
		c := ACase{Type: rapid.SampledFrom(typeNames).Draw(t, "type"), Op: rapid.SampledFrom([]string{"InsertSlice", "InsertSlice", "InsertSlice", "Concat", "Clone"}).Draw(t, "op")}
		big := rapid.IntRange(0, 9).Draw(t, "big") == 0
		size := func(hi, wideHi int, name string) int {
			if big {
				m := 3000
				if c.Type == "struct(520B)" {
					m = 800
				}
				return drawSize(t, m, name)
			}
			if rapid.IntRange(0, 7).Draw(t, name+"_wide") == 0 {
				return rapid.IntRange(0, wideHi).Draw(t, name)
			}
			return rapid.IntRange(0, hi).Draw(t, name)
		}
		c.Off = rapid.IntRange(0, 3).Draw(t, "off")
		c.Len = size(12, 70, "len")
		c.Tail = rapid.IntRange(0, 2).Draw(t, "tail")
		c.Index = rapid.IntRange(0, c.Len).Draw(t, "index")
		limit := c.Off + c.Len
		if c.Op != "InsertSlice" {
			c.Spare = size(6, 40, "spare")
			limit += c.Spare + c.Tail
		}
		c.Lo = rapid.IntRange(0, limit).Draw(t, "lo")
		switch rapid.IntRange(0, 3).Draw(t, "lo_kind") {
		case 0:
			c.Lo = min(limit, c.Off)
		case 1:
			c.Lo = min(limit, c.Off+c.Index)
		}
		c.K = rapid.IntRange(0, limit-c.Lo).Draw(t, "k")
		if rapid.IntRange(0, 3).Draw(t, "k_to_end") == 0 {
			c.K = limit - c.Lo
		}
		if c.Op == "InsertSlice" {
			// spare capacity relative to the number of values: in place or not, just enough or ample
			switch rapid.IntRange(0, 4).Draw(t, "spare_kind") {
			case 0:
				c.Spare = rapid.IntRange(0, max(c.K-1, 0)).Draw(t, "spare_less")
			case 1:
				c.Spare = c.K
			case 2:
				c.Spare = c.K + rapid.IntRange(1, 4).Draw(t, "spare_more")
			case 3:
				c.Spare = 2*c.K + c.Len + rapid.IntRange(0, 8).Draw(t, "spare_ample")
			default:
				c.Spare = size(6, 40, "spare")
			}
		}
		c.CapMode = rapid.IntRange(0, 2).Draw(t, "cap_mode")
		if c.Op == "InsertSlice" && rapid.IntRange(0, 2).Draw(t, "wide") == 0 {
			// the view anywhere in the buffer: mostly starting at or behind the slice's length
			c.Wide = true
			c.Tail = rapid.IntRange(0, 3).Draw(t, "wide_tail")
			if !big {
				c.Spare = rapid.IntRange(0, 14).Draw(t, "wide_spare")
			} else {
				c.Spare = min(c.Spare, 3000)
			}
			T := c.Off + c.Len + c.Spare + c.Tail
			c.Lo = rapid.IntRange(0, T).Draw(t, "wide_lo")
			if rapid.IntRange(0, 2).Draw(t, "wide_lo_kind") > 0 {
				c.Lo = c.Off + c.Len + rapid.IntRange(0, c.Spare).Draw(t, "wide_lo_in_spare")
			}
			c.K = rapid.IntRange(0, T-c.Lo).Draw(t, "wide_k")
			if rapid.IntRange(0, 2).Draw(t, "wide_index_kind") == 0 {
				c.Index = c.Len
			}
		}
		return c
	},
	Run: RunAlias, Quick: 30000, Thorough: 120000,
	Replicas: 4, ReplicaEvery: 8,
})

func TestC12Alias(t *testing.T) { pbt.Check(t, specAlias) }
