package c12

import (
	"testing"

	"pgregory.net/rapid"
	"verifharness/internal/pbt"
)

// Units built on the history engine (c12_hist_test.go):
//
//	C12.multi  random histories over two or three live slices used alternately
//	C12.roomy  slices in backing arrays with 128 KiB .. 16 MiB (thorough 256 MiB) of unused capacity
//	C12.many   short op lists repeated more than 2^16 times

func runHistCase(c HistCase) (pbt.Outcome, histStats) {
	f, ok := histRunners[c.Type]
	if !ok {
		return pbt.Outcome{Skipped: true, Evals: 1}, histStats{}
	}
	return f(c)
}

// ---------------------------------------------------------------- C12.multi

func RunMulti(c HistCase) pbt.Outcome {
	out, st := runHistCase(c)
	if out.Violation != "" || out.Skipped {
		return out
	}
	out.Labels = append(out.Labels, "multi:type="+c.Type)
	switch {
	case st.switches == 0:
		out.Labels = append(out.Labels, "multi:slice-switches=0")
	case st.switches < 4:
		out.Labels = append(out.Labels, "multi:slice-switches=1..3")
	default:
		out.Labels = append(out.Labels, "multi:slice-switches>=4")
	}
	if st.keptChecked > 0 {
		out.Labels = append(out.Labels, "multi:kept-results-rechecked-after-later-calls")
	}
	if st.gcs > 0 && st.calls > st.gcs {
		out.Labels = append(out.Labels, "multi:gc-inside-history")
	}
	if st.selfInPlace > 0 {
		out.Labels = append(out.Labels, "multi:self-aliased-insert-in-place")
	}
	out.NonTrivial = len(st.slotsUsed) >= 2 && st.switches >= 1 && (st.inside >= 1 || st.selfAny >= 1)
	return out
}

// weights: splices dominate; every special op (GC, kept results, aliasing, aborted calls) occurs regularly
var multiKinds = []int{0, 0, 0, 1, 1, 1, 2, 2, 2, 3, 3, 3, 4, 5, 5, 6, 7, 8, 10, 11, 11, 11, 12, 12, 13, 14, 15}
var multiKindsGC = append([]int{9, 9, 9}, multiKinds...)

var specMulti = pbt.Register(&pbt.Spec[HistCase]{
	Property: "C12", Name: "C12.multi",
	Rule: "rapid: a history of helper calls over TWO OR THREE live slices of one element type (any of the 18 types of C12.types; 1 case in 8 has a single slice) that are " +
		"used alternately (each step names its slice): Insert, InsertSlice (fresh values with 0..2 spare slots of their own), Remove, RemoveSlice, Reverse, s = Grow(s, n), " +
		"s = Clone(s) and s = Concat(s, values) (the old backing array is then overwritten by the harness: the result must not change), Fill; plus: " +
		"runtime.GC() in the middle of the history (in one history in a hundred, at most three times); kept = Repeat(v, n), kept = Clone(s), kept = Concat(s, t) of two live slices or Concat(s, s) - every kept result is " +
		"overwritten by the caller with fresh distinct values (so shared memory shows in whatever shares it) and ALL live slices and the last six kept results are " +
		"verified again after EVERY later call; InsertSlice(&s, i, s[lo:hi]) with a part of the slice itself as the values (view capacity to the end of the array / " +
		"exactly its length / halfway; including values starting after the index and inserted in place, which the pinned tree got wrong - fixed by 4554316, see C12.alias); InsertSlice(&s, i, t[lo:hi:hi]) with a part of ANOTHER live slice as the values; calls with an invalid index on a scratch slice " +
		"(they panic in the unchanged library; the panic is recovered, nothing is asserted about them) followed by ordinary calls. Initial len 0..8, spare 0..4 (1 in 12: " +
		"len up to 1200 next to powers of two, batches up to 300); 0/3/8/20 .. 46 steps; the spare capacity of the target is re-poisoned before every call; after every " +
		"call the target equals the splice model. non-trivial = at least two live slices were operated on, with at least one switch between them, and at least one splice " +
		"strictly inside a slice with spare capacity or one self-aliased InsertSlice",
	Gen: func(t *rapid.T) HistCase {
		c := HistCase{Type: rapid.SampledFrom(typeNames).Draw(t, "type")}
		ns := rapid.SampledFrom([]int{2, 2, 2, 3, 3, 3, 3, 1}).Draw(t, "slots")
		big := rapid.IntRange(0, 11).Draw(t, "big") == 0
		bigMaxLen, bigBatch := 1200, 300
		if c.Type == "struct(520B)" {
			bigMaxLen, bigBatch = 300, 100
		}
		for i := 0; i < ns; i++ {
			sd := Slot{Len: rapid.IntRange(0, 8).Draw(t, "len"), Spare: rapid.IntRange(0, 4).Draw(t, "spare")}
			if big && rapid.Bool().Draw(t, "big_slot") {
				sd.Len = drawSize(t, bigMaxLen, "biglen")
			}
			sd.Once = rapid.IntRange(0, 5).Draw(t, "once") == 0
			c.Slots = append(c.Slots, sd)
		}
		maxA, maxB := 40, 6
		if big {
			maxA = 3000
		}
		kinds := multiKinds
		if g := rapid.IntRange(0, 99).Draw(t, "with_gc"); g == 57 || g == 23 || g == 81 || g == 40 { // (rapid favours 0 and the bounds)
			kinds = multiKindsGC // a full collection costs ~10 ms of CPU on 16 processors: only one history in a hundred has them (at most three)
		}
		c.Ops = pbt.OpsOf(t, rapid.Custom(func(t *rapid.T) HOp {
			op := drawHOp(t, kinds, ns, maxA, maxB)
			if big && rapid.IntRange(0, 3).Draw(t, "big_batch") == 0 {
				op.B = drawSize(t, bigBatch, "big_b")
				op.C = drawSize(t, bigBatch, "big_c")
			}
			return op
		}), []int{0, 3, 8, 20}, "ops")
		return c
	},
	Run: RunMulti, Quick: 15000, Thorough: 80000,
	Replicas: 4, ReplicaEvery: 8,
})

func TestC12Multi(t *testing.T) { pbt.Check(t, specMulti) }

// ---------------------------------------------------------------- C12.roomy

func RunRoomy(c HistCase) pbt.Outcome {
	out, st := runHistCase(c)
	if out.Violation != "" || out.Skipped {
		return out
	}
	out.Labels = append(out.Labels, "roomy:type="+c.Type)
	out.NonTrivial = st.roomyCalls >= 1
	return out
}

var roomyTypes = []struct {
	name string
	size int
}{{"int", 8}, {"uint8", 1}, {"string", 16}, {"[16]uint64(128B)", 128}, {"struct(520B)", 520}}

// roomyOps: the op lists run on every roomy configuration (n = live length). Singles and pairs.
func roomyOps(n int) [][]HOp {
	var l [][]HOp
	one := func(op HOp) { l = append(l, []HOp{op}) }
	one(HOp{K: 2, A: 0})
	one(HOp{K: 2, A: n / 2})
	for _, idx := range uniq([]int{0, n / 2}, n) {
		for _, length := range uniq([]int{0, 1, 2, 3, (n - idx) / 2, n - idx}, n-idx) {
			one(HOp{K: 3, A: idx, B: length})
		}
	}
	for _, idx := range uniq([]int{0, n / 2, n}, n) {
		one(HOp{K: 0, A: idx})
		one(HOp{K: 1, A: idx, B: 2 + idx%4, C: idx})
		// a part of the slice itself as the values
		one(HOp{K: 11, A: idx, B: idx / 2, C: n, D: idx})
	}
	one(HOp{K: 4})
	one(HOp{K: 5, B: 3})
	one(HOp{K: 6})
	one(HOp{K: 7, B: 2})
	one(HOp{K: 8})
	one(HOp{K: 15})
	one(HOp{K: 13})
	// pairs: the second call sees what the first one left behind
	l = append(l,
		[]HOp{{K: 3, A: 0, B: 2}, {K: 3, A: 1, B: 2}},
		[]HOp{{K: 3, A: 1, B: 3}, {K: 1, A: 1, B: 3}},
		[]HOp{{K: 2, A: 0}, {K: 0, A: 0}, {K: 3, A: 0, B: 2}},
		[]HOp{{K: 3, A: n / 2, B: n}, {K: 0, A: 0}, {K: 1, A: 1, B: 4}},
		[]HOp{{K: 3, A: 0, B: n}, {K: 1, A: 0, B: 3}, {K: 3, A: 1, B: 2}},
		[]HOp{{K: 6}, {K: 3, A: 0, B: 2}},
		[]HOp{{K: 9}, {K: 3, A: 1, B: 2}, {K: 9}, {K: 3, A: 0, B: 2}},
		[]HOp{{K: 1, A: 1, B: 4}, {K: 3, A: 2, B: 3}},
	)
	return l
}

func enumerateRoomy(shard, shards int, tier string, yield0 func(HistCase) bool) {
	seq := 0
	stop := false
	yield := func(c HistCase) {
		seq++
		if stop || seq%shards != shard {
			return
		}
		if !yield0(c) {
			stop = true
		}
	}
	type cb struct{ bytes, delta int }
	// every type at the first four; the larger ones on int and on one more type in turn (thorough: every type at all)
	caps := []cb{{128 << 10, 0}, {1 << 20, 0}, {1 << 20, 64}, {2 << 20, 0}, {512 << 10, 1}, {4 << 20, 1}, {16 << 20, 0}}
	if tier == "thorough" {
		caps = append(caps, cb{1 << 20, 1}, cb{1 << 20, 41}, cb{8 << 20, 0}, cb{64 << 20, 0}, cb{256 << 20, 1})
	}
	k := 0
	for ti, ty := range roomyTypes {
		for ci, cp := range caps {
			if tier != "thorough" && ci >= 4 && ti != 0 && ti != 1+(ci-4) {
				continue
			}
			capElems := cp.bytes/ty.size + cp.delta
			for _, n := range []int{3, 40, 1000} {
				for _, ops := range roomyOps(n) {
					k++
					yield(HistCase{Type: ty.name, Slots: []Slot{{Len: n, Spare: capElems - n, Once: k%3 == 0}}, Ops: ops})
				}
				if stop {
					return
				}
			}
			// removals that cross the quarter-full / half-full marks of the backing array
			if capElems <= 1<<18+1 {
				for _, frac := range []int{4, 2} {
					for length := 0; length <= 3; length++ {
						k++
						yield(HistCase{Type: ty.name, Slots: []Slot{{Len: capElems/frac + 1, Spare: capElems - capElems/frac - 1, Once: k%2 == 0}},
							Ops: []HOp{{K: 3, A: 7 * (length % 2), B: length}, {K: 2, A: 5}, {K: 3, A: 3, B: 2}}})
					}
				}
				// a slice that was full, cut down to a few elements by the library itself, then used
				for _, n := range []int{0, 40} {
					yield(HistCase{Type: ty.name, Slots: []Slot{{Len: capElems, Spare: 0}},
						Ops: []HOp{{K: 3, A: n, B: capElems - n}, {K: 3, A: n / 4, B: 3}, {K: 0, A: 1}, {K: 3, A: 0, B: 2}, {K: 1, A: 1, B: 3}, {K: 2, A: 0}}})
				}
			}
			if stop {
				return
			}
		}
	}
	// two roomy slices used alternately
	for _, ty := range roomyTypes[:3] {
		capElems := (2 << 20) / ty.size
		yield(HistCase{Type: ty.name, Slots: []Slot{{Len: 40, Spare: capElems - 40}, {Len: 30, Spare: capElems - 30, Once: true}},
			Ops: []HOp{{K: 3, S: 0, A: 3, B: 4}, {K: 3, S: 1, A: 2, B: 5}, {K: 2, S: 0, A: 1}, {K: 15, S: 1}, {K: 3, S: 0, A: 0, B: 2}, {K: 1, S: 1, A: 1, B: 3}, {K: 3, S: 1, A: 0, B: 3}}})
	}
}

var specRoomy = pbt.Register(&pbt.Spec[HistCase]{
	Property: "C12", Name: "C12.roomy",
	Rule: "enumerated: slices whose backing array is LARGE AND MOSTLY UNUSED (\"whatever spare capacity the slice had\"): element types int (8 bytes), uint8, string (16), " +
		"[16]uint64 (128) and a 520-byte struct; capacity = B bytes worth of elements: every type at B in {128 KiB, 1 MiB, 1 MiB + 64 elements, 2 MiB}, and B in {512 KiB + 1 element, " +
		"4 MiB + 1 element, 16 MiB} on int and on one further type each (thorough: every type at every B, also 1 MiB + 1, 1 MiB + 41 elements, 8 MiB, 64 MiB, 256 MiB), so the unused " +
		"part lies below, next to and far above 1 MiB; live length in {3, 40, 1000}; one case in three builds the slice as one that ONCE WAS FULL (made with len = cap and cut " +
		"down by the library's own RemoveSlice, which is checked). On each: Remove at {0, len/2}; RemoveSlice at index {0, len/2} x length {0, 1, 2, 3, rest/2, rest}; Insert, " +
		"InsertSlice of 2..5 values and of a part of the slice itself at {0, len/2, len}; Reverse, Grow 3, Clone, Concat, Fill, kept Clone, Concat(s, s); and pairs/triples of " +
		"calls where the second sees what the first left behind (RemoveSlice twice, RemoveSlice then InsertSlice, Remove-Insert-RemoveSlice, emptying then inserting, Clone then " +
		"RemoveSlice, garbage collections between removals). Additionally for capacities up to 2^18+1 elements: slices filled to cap/4+1 and cap/2+1 with removals of 0..3 " +
		"elements crossing the quarter-full / half-full marks, and slices that are completely full and are cut down to {0, 40} elements by RemoveSlice and then spliced; two " +
		"roomy slices used alternately. Only the first 64 and the last 8 slots of a huge spare capacity are poisoned before each call. Oracle: the splice model after every " +
		"call, every other live slice and kept result re-verified (engine of C12.multi). non-trivial = at least one call on a slice with more than 64 KiB of unused capacity",
	Enum: enumerateRoomy,
	Run:  RunRoomy, Exhaustive: true,
	Replicas: 2, ReplicaEvery: 16,
})

func TestC12Roomy(t *testing.T) { pbt.Check(t, specRoomy) }

// ---------------------------------------------------------------- C12.many

const manyCycles = 1<<16 + 64

func RunMany(c HistCase) pbt.Outcome {
	out, st := runHistCase(c)
	if out.Violation != "" || out.Skipped {
		return out
	}
	out.Labels = append(out.Labels, "many:type="+c.Type)
	if st.calls >= 1<<16 {
		out.Labels = append(out.Labels, "many:calls>=2^16")
	}
	if st.calls >= 1<<17 {
		out.Labels = append(out.Labels, "many:calls>=2^17")
	}
	out.NonTrivial = st.calls >= 1<<16
	return out
}

// manyLists: short op lists that return the slices to their initial lengths, so they can be cycled for ever.
// Slots: s0 = len 4 cap 7, s1 = len 3 cap 3.
func manyLists() [][]HOp {
	return [][]HOp{
		{{K: 0, A: 2}, {K: 2, A: 1}},                                                     // Insert, Remove
		{{K: 1, A: 1, B: 2}, {K: 3, A: 2, B: 2}},                                         // InsertSlice, RemoveSlice
		{{K: 0, S: 0, A: 1}, {K: 0, S: 1, A: 3}, {K: 2, S: 0, A: 0}, {K: 2, S: 1, A: 2}}, // two slices alternately
		{{K: 1, S: 1, A: 1, B: 3}, {K: 3, S: 1, A: 0, B: 3}, {K: 6, S: 1}},               // with reallocation every time (Clone makes cap = len again)
		{{K: 8}},                           // Fill
		{{K: 4}, {K: 4, S: 1}},             // Reverse
		{{K: 5, B: 2}, {K: 3, A: 4, B: 2}}, // Grow, RemoveSlice
		{{K: 6}},                           // Clone
		{{K: 7, B: 1}, {K: 2, A: 0}},       // Concat, Remove
		{{K: 10, B: 3}},                    // Repeat (kept)
		{{K: 15}, {K: 13, D: 1}},           // kept Clone, kept Concat of two live slices
		{{K: 11, A: 3, B: 1, C: 2, D: 0}, {K: 3, A: 0, B: 2}},      // self-aliased InsertSlice, RemoveSlice
		{{K: 14, A: 0}, {K: 0, A: 1}, {K: 14, A: 3}, {K: 2, A: 2}}, // aborted calls in between
		{{K: 3, A: 1, B: 0}, {K: 1, A: 2, B: 0}},                   // empty removals / insertions
	}
}

func enumerateMany(shard, shards int, tier string, yield func(HistCase) bool) {
	k := 0
	types := []string{"int", "string"}
	if tier == "thorough" {
		types = append(types, "any", "struct(520B)", "uint8", "[]int", "struct{}")
	}
	for _, tn := range types {
		for _, ops := range manyLists() {
			k++
			if k%shards != shard {
				continue
			}
			if !yield(HistCase{Type: tn, Slots: []Slot{{Len: 4, Spare: 3}, {Len: 3, Spare: 0}}, Ops: ops, Cycles: manyCycles}) {
				return
			}
		}
	}
}

var specMany = pbt.Register(&pbt.Spec[HistCase]{
	Property: "C12", Name: "C12.many",
	Rule: "enumerated: a short list of helper calls that returns the slices to their initial lengths is repeated 2^16 + 64 times on the same two live slices " +
		"(len 4 cap 7 and len 3 cap 3), every call checked against the splice model and every other live slice / kept result re-verified after every call (engine of C12.multi), " +
		"so that any per-call or per-package counter of up to 16 bits wraps at least once: Insert+Remove; InsertSlice+RemoveSlice; two slices alternately; InsertSlice with " +
		"reallocation + RemoveSlice + Clone; Fill; Reverse; Grow+RemoveSlice; Clone; Concat+Remove; kept Repeat; kept Clone + kept Concat; self-aliased InsertSlice + RemoveSlice; " +
		"aborted (panicking, recovered) calls between Insert and Remove; empty removals and insertions; element types int and string (thorough also any, the 520-byte struct, uint8, " +
		"[]int, struct{}). non-trivial = at least 2^16 checked calls in the case",
	Enum: enumerateMany,
	Run:  RunMany, Exhaustive: true,
})

func TestC12Many(t *testing.T) { pbt.Check(t, specMany) }
