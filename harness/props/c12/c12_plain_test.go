package c12

import (
	"fmt"

	"gopkg.in/typ.v4/slices"
)

// plainCall: one helper call on a slice the caller has PLACED somewhere special (at the end of readable memory, in a
// local array on the goroutine stack, ...) and filled. The expected result is computed first, from a snapshot in
// ordinary heap memory; then the helper is called. ok = false: the arguments are outside the helper's domain.
//
//	Insert(&s, idx, v)  InsertSlice(&s, idx, vals)  Remove(&s, idx)  RemoveSlice(&s, idx, k)  Fill(s, v)  Reverse(s)
//	Clone(s)  Concat(s, vals)  Grow(s, k)  Repeat(v, k)
func plainCall[E comparable](op string, s sl[E], idx, k int, vals sl[E], v E) (r sl[E], want []E, ok bool) {
	n := len(s)
	orig := append(make([]E, 0, n), s...)
	given := append(make([]E, 0, len(vals)), vals...)
	cat := func(parts ...[]E) []E {
		r := []E{}
		for _, p := range parts {
			r = append(r, p...)
		}
		return r
	}
	if idx < 0 || k < 0 {
		return nil, nil, false
	}
	switch op {
	case "Insert":
		if idx > n {
			return nil, nil, false
		}
		want = cat(orig[:idx], []E{v}, orig[idx:])
		slices.Insert(&s, idx, v)
		r = s
	case "InsertSlice":
		if idx > n {
			return nil, nil, false
		}
		want = cat(orig[:idx], given, orig[idx:])
		slices.InsertSlice(&s, idx, vals)
		r = s
	case "Remove":
		if idx >= n {
			return nil, nil, false
		}
		want = cat(orig[:idx], orig[idx+1:])
		slices.Remove(&s, idx)
		r = s
	case "RemoveSlice":
		if idx > n || k > n-idx {
			return nil, nil, false
		}
		want = cat(orig[:idx], orig[idx+k:])
		slices.RemoveSlice(&s, idx, k)
		r = s
	case "Fill":
		want = make([]E, n)
		for i := range want {
			want[i] = v
		}
		slices.Fill(s, v)
		r = s
	case "Reverse":
		want = make([]E, n)
		for i := range want {
			want[i] = orig[n-1-i]
		}
		slices.Reverse(s)
		r = s
	case "Clone":
		want = orig
		r = slices.Clone(s)
	case "Concat":
		want = cat(orig, given)
		r = slices.Concat(s, vals)
	case "Grow":
		want = cat(orig, make([]E, k))
		r = slices.Grow(s, k)
	case "Repeat":
		want = make([]E, k)
		for i := range want {
			want[i] = v
		}
		r = slices.Repeat(v, k)
	default:
		return nil, nil, false
	}
	return r, want, true
}

var plainOps = []string{"Insert", "InsertSlice", "Remove", "RemoveSlice", "Fill", "Reverse", "Clone", "Concat", "Grow", "Repeat"}

// plainDiff describes the first difference ("" if none).
func plainDiff[E comparable](got, want []E) string {
	if len(got) != len(want) {
		return fmt.Sprintf("got length %d, want length %d", len(got), len(want))
	}
	for i := range got {
		if got[i] != want[i] {
			lo, hi := max(i-2, 0), min(i+3, len(got))
			return fmt.Sprintf("first difference at index %d of %d: got[%d:%d] = %v, want %v", i, len(got), lo, hi, got[lo:hi], want[lo:hi])
		}
	}
	return ""
}
