package c12

import (
	"fmt"
	"runtime"
	"testing"

	"gopkg.in/typ.v4/slices"
	"verifharness/internal/pbt"
)

// C12.procs: LARGE inputs under different GOMAXPROCS settings. A fast path that
// splits the work into chunks (or hands chunks to goroutines) starts only at
// large sizes - 2^13 .. 2^17 elements, 2^25 cells - and its chunk arithmetic
// usually depends on runtime.GOMAXPROCS. The small grids and C12.big (which
// runs with the machine's 16 processors only) cannot see such a path.

// PCase: every shape of procShapes(Type, N) is run with GOMAXPROCS = Procs (one switch per case: changing
// GOMAXPROCS stops the world, which is slow on a loaded machine). Only >= 0 selects a single shape (replay of a
// shrunk case; -1 = all).
type PCase struct {
	Procs int    `json:"procs"`
	Type  string `json:"type"`
	N     int    `json:"n"`
	Only  int    `json:"only"`
}

// procShapes: the calls made on n elements of type tn.
func procShapes(tn string, n int) []TCase {
	if n < 16 {
		return nil
	}
	h := n / 2
	v := 1
	l := []TCase{
		{Type: tn, V: v, Case: Case{Op: "Fill", Len: n, Spare: n % 2}},
		{Type: tn, V: v, Case: Case{Op: "Repeat", K: n}},
		{Type: tn, Case: Case{Op: "Reverse", Len: n, Spare: 1}},
		{Type: tn, Case: Case{Op: "Clone", Len: n, Spare: 5}},
		{Type: tn, Case: Case{Op: "Concat", Len: h, Spare: n - h + 3, LenB: n - h}},
		{Type: tn, V: v, Case: Case{Op: "InsertSlice", Len: n - h, Spare: h, Index: 1, K: h}}, // large batch, large shift, in place
		{Type: tn, Case: Case{Op: "RemoveSlice", Len: n, Spare: 3, Index: n / 4, K: h}},
	}
	if n > 1<<21 {
		return l
	}
	return append(l,
		TCase{Type: tn, Case: Case{Op: "Concat", Len: n - 3, LenB: 3, SpareB: 1}},
		TCase{Type: tn, Case: Case{Op: "Grow", Len: 10, Spare: n, K: n - 10}},           // in place, n-10 zeros over poison
		TCase{Type: tn, Case: Case{Op: "Grow", Len: h, Spare: 1, K: n - h}},             // reallocation
		TCase{Type: tn, V: v, Case: Case{Op: "Insert", Len: n - 1, Spare: 1, Index: 1}}, // shifts n-2 elements in place
		TCase{Type: tn, V: v, Case: Case{Op: "Insert", Len: n - 1, Spare: 0, Index: h}},
		TCase{Type: tn, V: v, Case: Case{Op: "InsertSlice", Len: n - h, Spare: 0, Index: (n - h) / 2, K: h}},
		TCase{Type: tn, V: v, Case: Case{Op: "InsertSlice", Len: 10, Spare: 3, Index: 5, K: n - 10}},
		TCase{Type: tn, Case: Case{Op: "Remove", Len: n, Spare: 2, Index: 1}},
		TCase{Type: tn, Case: Case{Op: "RemoveSlice", Len: n, Spare: 0, Index: 1, K: 7}},
	)
}

func RunProcs(c PCase) pbt.Outcome {
	shapes := procShapes(c.Type, c.N)
	if c.Procs < 1 || c.Procs > 256 || len(shapes) == 0 || c.Only >= len(shapes) {
		return pbt.Outcome{Skipped: true, Evals: 1}
	}
	defer runtime.GOMAXPROCS(runtime.GOMAXPROCS(c.Procs))
	res := pbt.Outcome{}
	for i, tc := range shapes {
		if c.Only >= 0 && i != c.Only {
			continue
		}
		var out pbt.Outcome
		if tc.Type == "int" {
			out = Run(tc.Case) // the non-generic runner of C12.rand: same oracle, several times faster on 10^5 elements
		} else {
			out = RunTyped(tc)
		}
		if out.Violation != "" {
			out.Violation = fmt.Sprintf("with runtime.GOMAXPROCS(%d), n = %d (call %d of the case): %s", c.Procs, c.N, i, out.Violation)
			return out
		}
		res.Evals++
		res.Labels = append(res.Labels, "procs:op="+tc.Op)
	}
	l := "procs:n<2^13"
	for e := 26; e >= 13; e-- {
		if c.N >= 1<<e-2 {
			l = fmt.Sprintf("procs:n>=2^%d-2", e)
			break
		}
	}
	res.Labels = append(res.Labels, fmt.Sprintf("procs:GOMAXPROCS=%d", c.Procs), l, "procs:type="+c.Type)
	res.NonTrivial = c.N >= 1<<13-2
	res.NTCount = 1
	return res
}

func enumerateProcs(shard, shards int, tier string, yield0 func(PCase) bool) {
	seq := 0
	stop := false
	yield := func(c PCase) {
		seq++
		if stop || seq%shards != shard {
			return
		}
		if !yield0(c) {
			stop = true
		}
	}
	procs := []int{1, 2, 3, 5, 6, 7}
	maxExp := 17
	if tier == "thorough" {
		procs = []int{1, 2, 3, 4, 5, 6, 7, 8, 11, 16, 17, 32}
		maxExp = 20
	}
	var sizes []int
	for e := 13; e <= maxExp; e++ {
		sizes = append(sizes, 1<<e-1, 1<<e, 1<<e+1)
		if e < maxExp {
			sizes = append(sizes, 3<<(e-1)+1)
		}
	}
	sizes = append(sizes, 10000, 100003)
	sizes = uniq(sizes, 1<<30)
	for _, n := range sizes {
		for i, p := range procs {
			yield(PCase{Procs: p, Type: "int", N: n, Only: -1})
			// the other element sizes take turns
			if n <= 1<<15+1 && (tier == "thorough" || (i+n/7)%3 == 0) {
				yield(PCase{Procs: p, Type: []string{"uint8", "string", "[16]uint64(128B)", "float64"}[(i+n)%4], N: n, Only: -1})
			}
			if stop {
				return
			}
		}
	}
	// 2^25 one-byte cells
	exps := []int{25}
	bp := []int{3}
	if tier == "thorough" {
		exps, bp = []int{24, 25, 26}, []int{1, 2, 3, 7, 16}
	}
	for _, e := range exps {
		for _, d := range []int{-1, 0, 1} {
			for _, p := range bp {
				yield(PCase{Procs: p, Type: "uint8", N: 1<<e + d, Only: -1})
			}
		}
	}
}

var specProcs = pbt.Register(&pbt.Spec[PCase]{
	Property: "C12", Name: "C12.procs",
	Rule: "enumerated: LARGE inputs, each run with runtime.GOMAXPROCS set to p inside the case (restored afterwards) for p in {1, 2, 3, 5, 6, 7} (thorough {1..8, 11, 16, 17, 32}): " +
		"size n in {2^e-1, 2^e, 2^e+1, 3*2^(e-1)+1 : e = 13..17 (thorough ..20)} + {10000, 100003}; for every (n, p) one case that makes all of these calls: Fill and Repeat (n elements), Reverse, Clone, Concat (two halves; n-3 and 3), " +
		"Grow (in place by n-10 over poisoned capacity; by n/2 with reallocation), Insert (shifting n-2 elements in place; with reallocation in the middle), InsertSlice " +
		"(n/2 values at index 1 in place; n/2 values in the middle with reallocation; n-10 values into a 10-element slice), Remove at 1, RemoveSlice (7 at index 1; n/2 at n/4) - " +
		"on int elements and, for n <= 2^15+1 and a third of the (n, p) pairs (thorough: all), on one of uint8 / string / [16]uint64 (128 bytes) / float64 in turn; plus one-byte elements at 2^25-1, 2^25, 2^25+1 cells " +
		"with p = 3 (thorough 2^24..2^26, five settings): Fill, Repeat, Reverse, Clone, Concat, InsertSlice, RemoveSlice. Oracle = C12.types (splice model, poisoned spare capacity, " +
		"no shared memory for Concat/Clone). Not run as parallel copies (GOMAXPROCS is process-wide). non-trivial = n >= 2^13-2",
	Enum: enumerateProcs,
	Run:  RunProcs, Exhaustive: true,
	CaseCPU: 900e9,
})

func TestC12Procs(t *testing.T) { pbt.Check(t, specProcs) }

// ---------------------------------------------------------------- C12.wrap (thorough only)

// C12.wrap: one cheap call repeated more than 2^32 times in a tight loop (a counter of 32 bits - calls, generations,
// pooled-buffer sequence numbers - wraps once). The loops avoid all per-call bookkeeping of the engine; every call's
// result is still compared, element by element, with constants.
type WCase struct {
	Loop  string `json:"loop"`
	Calls int    `json:"calls"` // number of iterations
}

// (the loops "Clone", "Concat" and "Repeat" exist for replay / manual runs but are not enumerated: they allocate in every
// iteration and would need more than ten minutes each)
var wrapLoops = []string{"Insert+Remove", "InsertSlice+RemoveSlice", "Fill", "Reverse", "Grow"}

func RunWrap(c WCase) (out pbt.Outcome) {
	out = pbt.Outcome{Evals: 1}
	if c.Calls < 0 {
		out.Skipped = true
		return out
	}
	bad := func(i int, call string, got []int, want string) pbt.Outcome {
		return pbt.Fail("iteration %d (0-based) of %d identical iterations of %s: got %v, want %s", i, c.Calls, call, got, want)
	}
	back := make(myInts, 8)
	s := back[:4]
	reset := func() {
		s = back[:4]
		s[0], s[1], s[2], s[3] = 10, 11, 12, 13
	}
	reset()
	switch c.Loop {
	case "Insert+Remove":
		for i := 0; i < c.Calls; i++ {
			slices.Insert(&s, 1, 99)
			if len(s) != 5 || s[0] != 10 || s[1] != 99 || s[2] != 11 || s[3] != 12 || s[4] != 13 {
				return bad(i, "Insert(&s=[10 11 12 13] (cap 8), 1, 99); Remove(&s, 1)", s, "[10 99 11 12 13] after the Insert")
			}
			slices.Remove(&s, 1)
			if len(s) != 4 || s[0] != 10 || s[1] != 11 || s[2] != 12 || s[3] != 13 {
				return bad(i, "Insert(&s=[10 11 12 13] (cap 8), 1, 99); Remove(&s, 1)", s, "[10 11 12 13] after the Remove")
			}
		}
	case "InsertSlice+RemoveSlice":
		vals := myInts{77, 78}
		for i := 0; i < c.Calls; i++ {
			slices.InsertSlice(&s, 2, vals)
			if len(s) != 6 || s[0] != 10 || s[1] != 11 || s[2] != 77 || s[3] != 78 || s[4] != 12 || s[5] != 13 {
				return bad(i, "InsertSlice(&s=[10 11 12 13] (cap 8), 2, [77 78]); RemoveSlice(&s, 2, 2)", s, "[10 11 77 78 12 13] after the InsertSlice")
			}
			slices.RemoveSlice(&s, 2, 2)
			if len(s) != 4 || s[0] != 10 || s[1] != 11 || s[2] != 12 || s[3] != 13 {
				return bad(i, "InsertSlice(&s=[10 11 12 13] (cap 8), 2, [77 78]); RemoveSlice(&s, 2, 2)", s, "[10 11 12 13] after the RemoveSlice")
			}
		}
	case "Fill":
		for i := 0; i < c.Calls; i++ {
			v := i | 1
			slices.Fill(s, v)
			if len(s) != 4 || s[0] != v || s[1] != v || s[2] != v || s[3] != v {
				return bad(i, "Fill(s (len 4), iteration|1)", s, fmt.Sprintf("four times %d", v))
			}
		}
	case "Reverse":
		for i := 0; i < c.Calls; i += 2 {
			slices.Reverse(s)
			if len(s) != 4 || s[0] != 13 || s[1] != 12 || s[2] != 11 || s[3] != 10 {
				return bad(i, "Reverse(s) starting from [10 11 12 13]", s, "[13 12 11 10] after an odd number of calls")
			}
			slices.Reverse(s)
			if len(s) != 4 || s[0] != 10 || s[1] != 11 || s[2] != 12 || s[3] != 13 {
				return bad(i+1, "Reverse(s) starting from [10 11 12 13]", s, "[10 11 12 13] after an even number of calls")
			}
		}
	case "Grow":
		for i := 0; i < c.Calls; i++ {
			back[4], back[5] = -7, -8
			r := slices.Grow(s, 2)
			if len(r) != 6 || r[0] != 10 || r[1] != 11 || r[2] != 12 || r[3] != 13 || r[4] != 0 || r[5] != 0 {
				return bad(i, "Grow(s=[10 11 12 13] (cap 8, spare slots -7 -8 ...), 2)", r, "[10 11 12 13 0 0]")
			}
		}
	case "Clone":
		var prev myInts
		for i := 0; i < c.Calls; i++ {
			r := slices.Clone(s)
			if len(r) != 4 || r[0] != 10 || r[1] != 11 || r[2] != 12 || r[3] != 13 {
				return bad(i, "Clone(s=[10 11 12 13])", r, "[10 11 12 13]")
			}
			r[0], r[3] = -1, -2 // the caller owns the result
			if s[0] != 10 || s[3] != 13 || (prev != nil && (prev[0] != -1 || prev[3] != -2)) {
				return bad(i, "Clone(s=[10 11 12 13]) followed by writing -1, -2 into the result", s, "input [10 11 12 13] and the previous result unchanged")
			}
			prev = r
		}
	case "Concat":
		b := myInts{20, 21}
		for i := 0; i < c.Calls; i++ {
			r := slices.Concat(s, b)
			if len(r) != 6 || r[0] != 10 || r[1] != 11 || r[2] != 12 || r[3] != 13 || r[4] != 20 || r[5] != 21 {
				return bad(i, "Concat([10 11 12 13] (cap 8), [20 21])", r, "[10 11 12 13 20 21]")
			}
			r[0], r[5] = -1, -2
			if s[0] != 10 || b[1] != 21 || back[4] == 20 {
				return bad(i, "Concat([10 11 12 13] (cap 8), [20 21]) followed by writing into the result", s, "inputs unchanged")
			}
		}
	case "Repeat":
		for i := 0; i < c.Calls; i++ {
			v := i | 1
			r := slices.Repeat(v, 3)
			if len(r) != 3 || r[0] != v || r[1] != v || r[2] != v {
				return bad(i, "Repeat(iteration|1, 3)", r, fmt.Sprintf("three times %d", v))
			}
		}
	default:
		out.Skipped = true
		return out
	}
	out.Evals = max(c.Calls, 1)
	out.Labels = append(out.Labels, "wrap:"+c.Loop)
	if c.Calls > 1<<32 {
		out.Labels = append(out.Labels, "wrap:iterations>2^32")
	}
	out.NonTrivial = c.Calls > 1<<32
	return out
}

var specWrap = pbt.Register(&pbt.Spec[WCase]{
	Property: "C12", Name: "C12.wrap",
	Rule: "thorough only, enumerated: one tight loop per helper group, each of 2^32 + 4096 iterations on one 4-element []int with capacity 8, every call's result compared with " +
		"constants: Insert(1)+Remove(1); InsertSlice(2 values)+RemoveSlice; Fill (value changes every iteration); Reverse; Grow by 2 in place over re-poisoned capacity; " +
		"so that a 32-bit counter of calls wraps once (Clone, Concat and Repeat allocate in every call and would take more than ten minutes each: not run 2^32 times; " +
		"C12.many repeats them 2^16 times). " +
		"non-trivial = more than 2^32 iterations",
	Enum: func(shard, shards int, tier string, yield func(WCase) bool) {
		for i, l := range wrapLoops {
			if i%shards != shard {
				continue
			}
			if !yield(WCase{Loop: l, Calls: 1<<32 + 4096}) {
				return
			}
		}
	},
	Run: RunWrap, Exhaustive: true,
	CaseCPU: 1200e9,
})

func TestC12Wrap(t *testing.T) { pbt.Check(t, specWrap) }
