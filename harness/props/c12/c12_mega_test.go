package c12

import (
	"fmt"
	"runtime"
	"sync"
	"sync/atomic"
	"testing"
	"time"

	"verifharness/internal/pbt"
)

// C12.mega: 2^22 .. 2^24 elements of ONE BYTE each (4 .. 16 MiB): lengths far
// beyond what the other units generate, still cheap. A helper that recurses
// per element or per chunk overflows the goroutine stack there (`fatal error:
// stack overflow` kills the process: the unit is Crashy), one that works in
// pieces of 2^22 elements meets its first piece boundary, and there are more
// than 2^22 elements behind an insertion point. Half of the cases run while
// another goroutine keeps flipping runtime.GOMAXPROCS between 2 and 7.

type MCase struct {
	N     int  `json:"n"`
	Shape int  `json:"shape"`
	Flip  bool `json:"flip"`
}

type megaShape struct {
	op                 string
	len, spare, idx, k int
}

func megaShapes(n int) []megaShape {
	h := n / 2
	return []megaShape{
		{"Fill", n, 1, 0, 0},
		{"Repeat", 0, 0, 0, n},
		{"Reverse", n, 0, 0, 0},
		{"Clone", n, 5, 0, 0},
		{"Concat", h, n - h + 3, 0, n - h},
		{"Concat", n - 3, 0, 0, 3},
		{"Grow", 10, n, 0, n - 10},
		{"Grow", h, 1, 0, n - h},
		{"Insert", n - 1, 1, 1, 0},      // in place, n-2 elements behind the insertion point
		{"Insert", n - 1, 0, h, 0},      // reallocation
		{"Insert", n - 1, 2, n - 1, 0},  // at the end
		{"InsertSlice", n - 7, 7, 3, 7}, // in place, small batch, n-10 elements behind
		{"InsertSlice", n - h, h, 1, h}, // in place, large batch
		{"InsertSlice", n - h, 0, (n - h) / 2, h},
		{"InsertSlice", 10, 3, 5, n - 10},
		{"InsertSlice", n - 9, 9, n - 9, 9}, // in place at the end
		{"Remove", n, 2, 1, 0},
		{"Remove", n, 0, n - 1, 0},
		{"RemoveSlice", n, 0, 1, 7},
		{"RemoveSlice", n, 3, n / 4, h},
	}
}

func megaByte(i int) uint8 { return uint8((uint32(i) * 2654435761) >> 24) }

func RunMega(c MCase) (out pbt.Outcome) {
	out = pbt.Outcome{Evals: 1}
	if c.N < 64 || c.N > 1<<25 {
		out.Skipped = true
		return out
	}
	shapes := megaShapes(c.N)
	if c.Shape < 0 || c.Shape >= len(shapes) {
		out.Skipped = true
		return out
	}
	sh := shapes[c.Shape]
	full := make(sl[uint8], sh.len+sh.spare)
	for i := range full {
		if i < sh.len {
			full[i] = megaByte(i + 1)
		} else {
			full[i] = megaByte(-1000 - i)
		}
	}
	vals := make(sl[uint8], 0)
	if sh.op == "InsertSlice" || sh.op == "Concat" {
		vals = make(sl[uint8], sh.k)
		for i := range vals {
			vals[i] = megaByte(77000000 + i)
		}
	}
	var stop atomic.Bool
	var wg sync.WaitGroup
	if c.Flip {
		old := runtime.GOMAXPROCS(0)
		defer runtime.GOMAXPROCS(old)
		wg.Add(1)
		go func() {
			defer wg.Done()
			for r := 0; !stop.Load(); r++ {
				runtime.GOMAXPROCS(2 + 5*(r%2))
				time.Sleep(50 * time.Microsecond)
			}
		}()
	}
	var r sl[uint8]
	var want []uint8
	ok := true
	p := try(func() { r, want, ok = plainCall(sh.op, full[:sh.len:len(full)], sh.idx, sh.k, vals, 0xA7) })
	stop.Store(true)
	wg.Wait()
	desc := fmt.Sprintf("[uint8] %s(len %d cap %d, index %d, k %d), GOMAXPROCS being flipped meanwhile: %v", sh.op, sh.len, sh.len+sh.spare, sh.idx, sh.k, c.Flip)
	if p != nil {
		return pbt.Fail("%s: panicked: %v", desc, p)
	}
	if !ok {
		out.Skipped = true
		return out
	}
	if d := plainDiff(r, want); d != "" {
		return pbt.Fail("%s: %s", desc, d)
	}
	if sh.op == "Fill" || sh.op == "Reverse" {
		for i := sh.len; i < len(full); i++ {
			if full[i] != megaByte(-1000-i) {
				return pbt.Fail("%s: wrote behind the slice's length at [%d]", desc, i)
			}
		}
	}
	e := 0
	for 1<<(e+1) <= c.N+1 {
		e++
	}
	out.Labels = append(out.Labels, "mega:op="+sh.op, fmt.Sprintf("mega:n~2^%d", e), fmt.Sprintf("mega:flip=%v", c.Flip))
	out.NonTrivial = c.N >= 1<<22-1
	return out
}

func enumerateMega(shard, shards int, tier string, yield func(MCase) bool) {
	sizes := []int{1<<22 - 1, 1 << 22, 1<<22 + 1, 1<<23 + 1, 1 << 24, 1<<24 + 1}
	if tier == "thorough" {
		sizes = []int{1<<21 + 1, 1<<22 - 1, 1 << 22, 1<<22 + 1, 3 << 21, 1<<23 - 1, 1 << 23, 1<<23 + 1, 3<<22 + 1, 1<<24 - 1, 1 << 24, 1<<24 + 1, 1<<24 + 1<<22 + 1}
	}
	seq := 0
	for si, n := range sizes {
		for i := range megaShapes(n) {
			seq++
			if seq%shards != shard {
				continue
			}
			if !yield(MCase{N: n, Shape: i, Flip: (si+i)%2 == 0}) {
				return
			}
			if tier == "thorough" && !yield(MCase{N: n, Shape: i, Flip: (si+i)%2 != 0}) {
				return
			}
		}
	}
}

var specMega = pbt.Register(&pbt.Spec[MCase]{
	Property: "C12", Name: "C12.mega",
	Rule: "enumerated: one-byte elements (uint8, pseudo-random contents), n in {2^22-1, 2^22, 2^22+1, 2^23+1, 2^24, 2^24+1} (thorough 13 sizes from 2^21+1 to 2^24+2^22+1), one helper call per case out of 20 shapes: " +
		"Fill, Repeat, Reverse, Clone, Concat (halves; n-3 and 3), Grow (in place by n-10; reallocating by n/2), Insert (in place at index 1 with n-2 elements behind it; reallocating in the middle; at the end), " +
		"InsertSlice (7 values in place at index 3 with n-10 elements behind; n/2 values in place; n/2 values with reallocation; n-10 values into 10 elements; 9 values in place at the end), Remove (index 1; last), " +
		"RemoveSlice (7 at index 1; n/2 at n/4); half of the cases (thorough: every case both ways) while another goroutine flips runtime.GOMAXPROCS between 2 and 7 every 50 microseconds. " +
		"Oracle: splice model from a snapshot, every element compared; Fill/Reverse: spare capacity untouched. A stack overflow or fault kills the process and is reported for the running case. non-trivial = n >= 2^22-1",
	Enum: enumerateMega,
	Run:  RunMega, Exhaustive: true,
	Crashy:  true,
	CaseCPU: 300e9,
})

func TestC12Mega(t *testing.T) { pbt.Check(t, specMega) }
