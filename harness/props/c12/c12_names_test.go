package c12

import (
	"fmt"
	"testing"

	"pgregory.net/rapid"
	"verifharness/internal/pbt"
)

// C12.names: DISTINCT ELEMENT TYPES WITH THE SAME PRINTED NAME. Four function-
// local types, all called `job` (reflect / %T print every one of them as
// "c12.job"), with different sizes and layouts, are used alternately with the
// generic helpers in one case. State that a library keeps per element type but
// keys by the type's NAME (a pool of scratch buffers per type name) hands a
// buffer of the wrong type to the next caller.

// NOp: one call; T selects the type: 0 = struct{ID int; Name string}, 1 = struct{P *int; W [3]int64; ID int32},
// 2 = int32, 3 = [2]string.
type NOp struct {
	T     int    `json:"t"`
	Op    string `json:"op"`
	Len   int    `json:"len"`
	Spare int    `json:"spare"`
	Index int    `json:"index"`
	K     int    `json:"k"`
}

type NCase struct {
	Ops []NOp `json:"ops"`
}

// namesStep makes the call on fresh heap slices (spare capacity poisoned) and returns the difference to the model
// plus a function that compares the kept result again later. typeName = %T of the element type.
func namesStep[E comparable](o NOp, gen func(i int) E) (diff string, again func() string, typeName string, ok bool) {
	var z E
	typeName = fmt.Sprintf("%T", z)
	if o.Len < 0 || o.Spare < 0 || o.K < 0 || o.Index < 0 || o.Len > 1<<16 || o.Spare > 1<<16 || o.K > 1<<16 {
		return "", nil, typeName, false
	}
	n, idx, k := o.Len, o.Index, o.K
	switch o.Op {
	case "Insert", "InsertSlice":
		idx = mod(idx, n+1)
	case "Remove":
		if n == 0 {
			return "", nil, typeName, false
		}
		idx = mod(idx, n)
	case "RemoveSlice":
		idx = mod(idx, n+1)
		k = mod(k, n-idx+1)
	}
	full := make(sl[E], n+o.Spare)
	for i := range full {
		if i < n {
			full[i] = gen(i + 1)
		} else {
			full[i] = gen(-1000 - i)
		}
	}
	vals := make(sl[E], k)
	for i := range vals {
		vals[i] = gen(5000 + i)
	}
	r, want, ok := plainCall(o.Op, full[:n:len(full)], idx, k, vals, gen(777))
	if !ok {
		return "", nil, typeName, false
	}
	return plainDiff(r, want), func() string { return plainDiff(r, want) }, typeName, true
}

var namesInts = make([]int, 64)

func namesJob0(o NOp) (string, func() string, string, bool) {
	type job struct {
		ID   int
		Name string
	}
	return namesStep(o, func(i int) job { return job{ID: i, Name: stackStrings[mod(i, len(stackStrings))]} })
}

func namesJob1(o NOp) (string, func() string, string, bool) {
	type job struct {
		P  *int
		W  [3]int64
		ID int32
	}
	return namesStep(o, func(i int) job {
		return job{P: &namesInts[mod(i, 64)], W: [3]int64{int64(i), 1, int64(-i)}, ID: int32(i)}
	})
}

func namesJob2(o NOp) (string, func() string, string, bool) {
	type job int32
	return namesStep(o, func(i int) job { return job(i) })
}

func namesJob3(o NOp) (string, func() string, string, bool) {
	type job [2]string
	return namesStep(o, func(i int) job {
		return job{stackStrings[mod(i, len(stackStrings))], stackStrings[mod(3*i+1, len(stackStrings))]}
	})
}

var namesJobs = []func(NOp) (string, func() string, string, bool){namesJob0, namesJob1, namesJob2, namesJob3}

func RunNames(c NCase) (out pbt.Outcome) {
	out = pbt.Outcome{Evals: max(len(c.Ops), 1)}
	if len(c.Ops) == 0 || len(c.Ops) > 4096 {
		out.Skipped = true
		return out
	}
	type kept struct {
		i     int
		again func() string
	}
	var keep []kept
	used := map[int]bool{}
	name0 := ""
	for i, o := range c.Ops {
		if o.T < 0 || o.T >= len(namesJobs) {
			out.Skipped = true
			return out
		}
		var d, tn string
		var again func() string
		var ok bool
		desc := func() string {
			return fmt.Sprintf("call %d: %s on elements of the function-local type #%d called %q (len %d, spare %d, index %d, k %d), after calls on the other types of the same name: ",
				i, o.Op, o.T, tn, o.Len, o.Spare, o.Index, o.K)
		}
		if p := try(func() { d, again, tn, ok = namesJobs[o.T](o) }); p != nil {
			return pbt.Fail("%spanicked: %v", desc(), p)
		}
		if !ok {
			out.Skipped = true
			return out
		}
		if name0 == "" {
			name0 = tn
		} else if tn != name0 {
			return pbt.Outcome{Inconclusive: "the harness' types do not print alike: " + tn + " / " + name0}
		}
		if d != "" {
			return pbt.Fail("%s%s", desc(), d)
		}
		for _, kp := range keep {
			if m := kp.again(); m != "" {
				return pbt.Fail("%sthe result of the earlier call %d is no longer what it was: %s", desc(), kp.i, m)
			}
		}
		keep = append(keep, kept{i, again})
		if len(keep) > 6 {
			keep = keep[1:]
		}
		used[o.T] = true
		out.Labels = append(out.Labels, "names:op="+o.Op)
	}
	out.Labels = append(out.Labels, fmt.Sprintf("names:distinct-types=%d", len(used)), "names:printed="+name0)
	out.NonTrivial = len(used) >= 2
	return out
}

func enumerateNames(shard, shards int, tier string, yield0 func(NCase) bool) {
	seq, stop := 0, false
	yield := func(c NCase) {
		seq++
		if stop || seq%shards != shard {
			return
		}
		if !yield0(c) {
			stop = true
		}
	}
	sizes := [][3]int{{4, 3, 2}, {0, 0, 1}, {9, 0, 4}, {70, 40, 33}}
	if tier == "thorough" {
		sizes = append(sizes, [3]int{1, 1, 1}, [3]int{300, 300, 256}, [3]int{5000, 1, 4097})
	}
	for _, op := range plainOps {
		for _, sz := range sizes {
			mk := func(t int) NOp { return NOp{T: t, Op: op, Len: sz[0], Spare: sz[1], Index: sz[0] / 2, K: sz[2]} }
			for a := 0; a < 4; a++ {
				for b := 0; b < 4; b++ {
					if a != b {
						// type a, type b, type a again; and each call twice
						yield(NCase{Ops: []NOp{mk(a), mk(b), mk(a)}})
						yield(NCase{Ops: []NOp{mk(a), mk(a), mk(b), mk(b), mk(a), mk(b)}})
					}
				}
			}
			yield(NCase{Ops: []NOp{mk(0), mk(1), mk(2), mk(3), mk(0), mk(1), mk(2), mk(3)}})
			if stop {
				return
			}
		}
	}
}

var specNames = pbt.Register(&pbt.Spec[NCase]{
	Property: "C12", Name: "C12.names",
	Rule: "four distinct function-local element types that all print as \"c12.job\" (struct{int;string} 24 bytes, struct{*int;[3]int64;int32} 40 bytes, int32, [2]string), used alternately in one case: " +
		"each call on fresh slices (spare capacity poisoned) against the splice model, the results of the last six calls compared again after every later call. " +
		"Enumerated: every helper x sizes (len, spare, k) in {(4,3,2), (0,0,1), (9,0,4), (70,40,33)} (thorough + (1,1,1), (300,300,256), (5000,1,4097)) x every ordered pair of types as a-b-a and a-a-b-b-a-b, " +
		"plus all four in turn twice. Random: 2..14 calls, random type, helper, sizes 0..12 (1 in 6 up to 600). non-trivial = at least two of the types in the case",
	Enum: enumerateNames,
	Gen: func(t *rapid.T) NCase {
		return NCase{Ops: rapid.SliceOfN(rapid.Custom(func(t *rapid.T) NOp {
			hi := 12
			if rapid.IntRange(0, 5).Draw(t, "mid") == 0 {
				hi = 600
			}
			o := NOp{T: rapid.IntRange(0, 3).Draw(t, "t"), Op: rapid.SampledFrom(plainOps).Draw(t, "op"), Len: rapid.IntRange(0, hi).Draw(t, "len"), K: rapid.IntRange(0, hi).Draw(t, "k")}
			o.Index = rapid.IntRange(0, o.Len).Draw(t, "index")
			o.Spare = rapid.SampledFrom([]int{0, 1, o.K, o.K + 1, o.K + 7}).Draw(t, "spare")
			return o
		}), 2, 14).Draw(t, "ops")}
	},
	Run: RunNames, Quick: 4000, Thorough: 60000,
	Replicas: 4, ReplicaEvery: 8,
})

func TestC12Names(t *testing.T) { pbt.Check(t, specNames) }
