package c12

import (
	"fmt"
	"runtime/debug"
	"syscall"
	"testing"
	"unsafe"

	"pgregory.net/rapid"
	"verifharness/internal/pbt"
)

// C12.guard: slices that END EXACTLY AT THE END OF READABLE MEMORY (or start
// exactly at its beginning). The slice (elements + spare capacity) is placed in
// an anonymous mapping whose first and last page are PROT_NONE, flush against
// one of the two inaccessible pages. A helper that touches a single element
// outside [0, cap) - reads one element beyond the end while shifting, copies
// one word too many, peeks at s[-1] - faults. debug.SetPanicOnFault turns the
// fault into a panic that is reported as a violation (the unit is also Crashy,
// for faults inside non-Go code). Only pointer-free element types: the mapping
// is invisible to the garbage collector.

type GCase struct {
	Type  string `json:"type"` // uint8 | int | [3]uint8 | [16]uint64
	Op    string `json:"op"`
	Len   int    `json:"len"`
	Spare int    `json:"spare"`
	Index int    `json:"index"`
	K     int    `json:"k"`
	// Place: 0 = the slice's capacity ends at the inaccessible page behind it, 1 = the slice starts right behind the
	// inaccessible page in front of it. VPlace (values of InsertSlice / second operand of Concat): 0, 1 likewise
	// (a mapping of their own, no spare capacity), 2 = ordinary heap memory.
	Place  int `json:"place"`
	VPlace int `json:"vplace"`
}

const pageSize = 4096

// guarded returns total elements of E inside a fresh mapping, flush against an inaccessible page, and the release func.
func guarded[E any](total, place int) ([]E, func(), error) {
	var z E
	size := int(unsafe.Sizeof(z))
	bytes := total * size
	pages := (bytes + pageSize - 1) / pageSize
	if pages == 0 {
		pages = 1
	}
	mem, err := syscall.Mmap(-1, 0, (pages+2)*pageSize, syscall.PROT_READ|syscall.PROT_WRITE, syscall.MAP_ANON|syscall.MAP_PRIVATE)
	if err != nil {
		return nil, nil, err
	}
	free := func() { syscall.Munmap(mem) }
	if err := syscall.Mprotect(mem[:pageSize], syscall.PROT_NONE); err != nil {
		free()
		return nil, nil, err
	}
	if err := syscall.Mprotect(mem[(pages+1)*pageSize:], syscall.PROT_NONE); err != nil {
		free()
		return nil, nil, err
	}
	off := pageSize
	if place == 0 {
		off = (pages+1)*pageSize - bytes
	}
	return unsafe.Slice((*E)(unsafe.Pointer(&mem[off])), total), free, nil
}

func runGuard[E comparable](c GCase, gen func(i int) E) (out pbt.Outcome) {
	out = pbt.Outcome{Evals: 1}
	if c.Len < 0 || c.Spare < 0 || c.K < 0 || c.Index < 0 || c.Len+c.Spare > 1<<22 || c.K > 1<<22 || c.Place < 0 || c.Place > 1 || c.VPlace < 0 || c.VPlace > 2 {
		out.Skipped = true
		return out
	}
	n := c.Len
	idx, k := c.Index, c.K
	switch c.Op {
	case "Insert", "InsertSlice":
		idx = mod(idx, n+1)
	case "Remove":
		if n == 0 {
			out.Skipped = true
			return out
		}
		idx = mod(idx, n)
	case "RemoveSlice":
		idx = mod(idx, n+1)
		k = mod(k, n-idx+1)
	}
	full, free, err := guarded[E](n+c.Spare, c.Place)
	if err != nil {
		out.Inconclusive = "mmap/mprotect failed: " + err.Error()
		return out
	}
	defer free()
	for i := range full {
		if i < n {
			full[i] = gen(i + 1)
		} else {
			full[i] = gen(-1000 - i)
		}
	}
	s := sl[E](full[:n:len(full)])
	var vals sl[E]
	if c.Op == "InsertSlice" || c.Op == "Concat" {
		if c.VPlace == 2 {
			vals = make(sl[E], k)
		} else {
			v, vfree, err := guarded[E](k, c.VPlace)
			if err != nil {
				out.Inconclusive = "mmap/mprotect failed: " + err.Error()
				return out
			}
			defer vfree()
			vals = v
		}
		for i := range vals {
			vals[i] = gen(500000 + i)
		}
	}
	v := gen(777777)
	where := []string{"whose capacity ends exactly at an inaccessible page", "that starts exactly behind an inaccessible page"}[c.Place]
	desc := fmt.Sprintf("[%s] %s on a slice (len %d cap %d) %s, index %d, k %d, values/operand: %s", c.Type, c.Op, n, n+c.Spare, where, idx, k,
		[]string{"end at an inaccessible page", "start behind an inaccessible page", "ordinary memory"}[c.VPlace])
	var r sl[E]
	var want []E
	ok := true
	defer debug.SetPanicOnFault(debug.SetPanicOnFault(true))
	if p := try(func() { r, want, ok = plainCall(c.Op, s, idx, k, vals, v) }); p != nil {
		return pbt.Fail("%s: panicked / touched memory outside the slice: %v", desc, p)
	}
	if !ok {
		out.Skipped = true
		return out
	}
	if d := plainDiff(r, want); d != "" {
		return pbt.Fail("%s: %s", desc, d)
	}
	var z E
	size := int(unsafe.Sizeof(z))
	out.Labels = append(out.Labels, "guard:op="+c.Op, "guard:type="+c.Type, fmt.Sprintf("guard:place=%d", c.Place))
	if c.Spare == 0 && c.Place == 0 {
		out.Labels = append(out.Labels, "guard:len-ends-at-the-inaccessible-page")
	}
	if (n+c.Spare)*size > pageSize {
		out.Labels = append(out.Labels, "guard:more-than-one-page")
	}
	if len(vals) > 0 && c.VPlace < 2 {
		out.Labels = append(out.Labels, fmt.Sprintf("guard:values-placed=%d", c.VPlace))
	}
	out.NonTrivial = n+c.Spare >= 1 && (n >= 2 || k >= 1)
	return out
}

var guardTypes = []string{"uint8", "int", "[3]uint8", "[16]uint64"}

func RunGuard(c GCase) pbt.Outcome {
	switch c.Type {
	case "uint8":
		return runGuard(c, func(i int) uint8 { return uint8(mod(i, 251)) })
	case "int":
		return runGuard(c, func(i int) int { return i })
	case "[3]uint8":
		return runGuard(c, func(i int) [3]uint8 { return [3]uint8{uint8(mod(i, 251)), uint8(mod(i, 241)), uint8(mod(i, 239))} })
	case "[16]uint64":
		return runGuard(c, func(i int) [16]uint64 { return [16]uint64{0: uint64(i), 7: uint64(i) * 3, 15: ^uint64(i)} })
	}
	return pbt.Outcome{Skipped: true, Evals: 1}
}

func guardSize(tn string) int {
	return map[string]int{"uint8": 1, "int": int(unsafe.Sizeof(int(0))), "[3]uint8": 3, "[16]uint64": 128}[tn]
}

func enumerateGuard(shard, shards int, tier string, yield0 func(GCase) bool) {
	seq, stop := 0, false
	yield := func(c GCase) {
		seq++
		if stop || seq%shards != shard {
			return
		}
		if !yield0(c) {
			stop = true
		}
	}
	for _, tn := range guardTypes {
		per := pageSize / guardSize(tn)
		lens := uniq([]int{0, 1, 2, 3, 7, 8, 9, 16, 17, 33, per - 1, per, per + 1, 2*per + 1}, 1<<30)
		if tier == "thorough" {
			lens = uniq(append(lens, 4, 5, 15, 31, 32, 63, 64, 65, 2*per-1, 2*per, 3*per+2, 8*per+1), 1<<30)
		}
		for _, n := range lens {
			ks := uniq([]int{0, 1, 3, n / 2, n}, 1<<30)
			for _, sp := range uniq([]int{0, 1, 5, n/2 + 1}, 1<<30) {
				for place := 0; place < 2; place++ {
					for _, op := range []string{"Fill", "Reverse", "Clone"} {
						yield(GCase{Type: tn, Op: op, Len: n, Spare: sp, Place: place, VPlace: 2})
					}
					for _, k := range ks {
						yield(GCase{Type: tn, Op: "Grow", Len: n, Spare: sp, K: k, Place: place, VPlace: 2})
						for vp := 0; vp < 3; vp++ {
							yield(GCase{Type: tn, Op: "Concat", Len: n, Spare: sp, K: k, Place: place, VPlace: vp})
						}
					}
					for _, idx := range uniq([]int{0, 1, n / 2, n - 1, n}, n) {
						yield(GCase{Type: tn, Op: "Insert", Len: n, Spare: sp, Index: idx, Place: place, VPlace: 2})
						if idx < n {
							yield(GCase{Type: tn, Op: "Remove", Len: n, Spare: sp, Index: idx, Place: place, VPlace: 2})
						}
						for _, k := range ks {
							for vp := 0; vp < 3; vp++ {
								yield(GCase{Type: tn, Op: "InsertSlice", Len: n, Spare: sp, Index: idx, K: k, Place: place, VPlace: vp})
							}
							if k <= n-idx {
								yield(GCase{Type: tn, Op: "RemoveSlice", Len: n, Spare: sp, Index: idx, K: k, Place: place, VPlace: 2})
							}
						}
					}
				}
				if stop {
					return
				}
			}
		}
		for _, k := range []int{0, 1, 7, per, per + 1} {
			yield(GCase{Type: tn, Op: "Repeat", K: k, VPlace: 2})
		}
	}
}

var specGuard = pbt.Register(&pbt.Spec[GCase]{
	Property: "C12", Name: "C12.guard",
	Rule: "slices at the edge of readable memory: the slice (len elements + spare capacity) lies in an anonymous mmap'ed region whose first and last page are made PROT_NONE, " +
		"either ending exactly at the inaccessible page behind it or starting exactly behind the inaccessible page in front of it; the values of InsertSlice / the second operand of Concat " +
		"likewise in a mapping of their own (ending at / starting at an inaccessible page) or in ordinary memory. Element types uint8, int, [3]uint8 (3 bytes: no power of two), " +
		"[16]uint64 (128 bytes); all ten helpers; oracle = splice model computed from a heap snapshot before the call; any fault (debug.SetPanicOnFault) or panic is a violation. " +
		"Enumerated: len in {0, 1, 2, 3, 7, 8, 9, 16, 17, 33, one page of elements -1/+0/+1, two pages + 1} (thorough more, up to 8 pages + 1), spare in {0, 1, 5, len/2+1}, " +
		"index in {0, 1, len/2, len-1, len}, k in {0, 1, 3, len/2, len}, both placements, three placements of the values. Random: len and spare 0..40 (1 in 5 up to 3 pages of elements). " +
		"non-trivial = capacity >= 1 and (len >= 2 or k >= 1)",
	Enum: enumerateGuard,
	Gen: func(t *rapid.T) GCase {
		c := GCase{Type: rapid.SampledFrom(guardTypes).Draw(t, "type"), Op: rapid.SampledFrom(plainOps).Draw(t, "op"),
			Place: rapid.IntRange(0, 1).Draw(t, "place"), VPlace: rapid.IntRange(0, 2).Draw(t, "vplace")}
		hi := 40
		if rapid.IntRange(0, 4).Draw(t, "pages") == 0 {
			hi = 3 * pageSize / guardSize(c.Type)
		}
		c.Len = rapid.IntRange(0, hi).Draw(t, "len")
		c.Spare = rapid.SampledFrom([]int{0, 0, 1, 2, rapid.IntRange(0, hi).Draw(t, "spare_any")}).Draw(t, "spare")
		c.Index = rapid.IntRange(0, c.Len).Draw(t, "index")
		c.K = rapid.IntRange(0, hi).Draw(t, "k")
		if rapid.IntRange(0, 2).Draw(t, "k_fits") == 0 {
			c.K = min(c.K, c.Spare)
		}
		return c
	},
	Run: RunGuard, Quick: 4000, Thorough: 60000,
	Crashy: true,
})

func TestC12Guard(t *testing.T) { pbt.Check(t, specGuard) }
