package c12

import (
	"fmt"
	"runtime"
	"sync"
	"sync/atomic"
	"testing"
	"time"

	"gopkg.in/typ.v4/slices"
	"pgregory.net/rapid"
	"verifharness/internal/pbt"
)

// C12.conc: INDEPENDENT goroutines. The helpers have no shared state in their
// contract: goroutines that work on slices of their own, which no other
// goroutine ever sees, must each get exactly the splice model's result. What
// can break that is package-level scratch state in the library (a pooled
// temporary copy handed back too early, a cached buffer) combined with a
// goroutine being descheduled in the middle of a call while another goroutine
// runs on the same P. So: many more workers than Ps, every worker with values
// and lengths of its own, and a disturber goroutine that forces preemptions
// (garbage collections stop the world; so does changing GOMAXPROCS).

// COp is one helper call of every worker's loop. Worker w uses len = Len + w%3 and k = K + w%2 (k = 0 stays 0),
// so that a buffer taken over from another worker has the wrong length as well as the wrong contents.
type COp struct {
	Kind  string `json:"kind"`
	Len   int    `json:"len"`
	Spare int    `json:"spare"`
	Index int    `json:"index"`
	K     int    `json:"k"`
}

// CCase: Workers goroutines each repeat Ops on slices of their own until the disturber has done Rounds rounds or Millis
// milliseconds have passed (a round = runtime.ReadMemStats if Stats; runtime.GOMAXPROCS flipped between 2 and 7 if Flip;
// runtime.GC() if GC - each of them stops the world -; then 100 microseconds of sleep) and every worker has gone through
// its list at least MinIters times. Procs > 0: GOMAXPROCS(Procs) for the case.
type CCase struct {
	Type     string `json:"type"`
	Procs    int    `json:"procs"`
	Workers  int    `json:"workers"`
	Rounds   int    `json:"rounds"`
	MinIters int    `json:"min_iters"`
	// Millis > 0: the disturber stops after this many milliseconds even if it has not done all its rounds (a round costs
	// between 20 microseconds and 20 milliseconds, depending on the load of the machine).
	Millis int `json:"millis"`
	// Yield > 0: every worker calls runtime.Gosched() after every Yield passes (keeps the run queues rotating, so that
	// the disturber - runtime.GC() yields while it sweeps - is not starved by spinning workers).
	Yield int   `json:"yield"`
	GC    bool  `json:"gc"`
	Stats bool  `json:"stats"`
	Flip  bool  `json:"flip"`
	Ops   []COp `json:"ops"`
}

var concRunners = map[string]func(CCase) pbt.Outcome{}

func regConc[E any](et *etype[E]) {
	concRunners[et.name] = func(c CCase) pbt.Outcome { return runConc(et, c) }
}

func RunConc(c CCase) pbt.Outcome {
	f, ok := concRunners[c.Type]
	if !ok {
		return pbt.Outcome{Skipped: true, Evals: 1}
	}
	return f(c)
}

// concCall is one prepared call of one worker: template (elements + poisoned spare capacity), values, expected result.
type concCall[E any] struct {
	op       COp
	n, k     int
	idx      int
	tmpl     []E // n + spare elements
	vals     []E
	v        E
	want     []E
	wantTail []E // what must still be in the spare capacity behind the result (in-place calls), nil = not checked
	desc     string
}

func prepConc[E any](et *etype[E], w, j int, op COp) (cc concCall[E], ok bool) {
	if op.Len < 0 || op.Spare < 0 || op.K < 0 || op.Index < 0 || op.Len > 1<<20 || op.K > 1<<20 || op.Spare > 1<<20 {
		return cc, false
	}
	n, k := op.Len+w%3, op.K
	if k > 0 {
		k += w % 2
	}
	base := (w+1)*1000003 + j*10007
	cc.op, cc.n, cc.k = op, n, k
	cc.tmpl = make([]E, n+op.Spare)
	for i := range cc.tmpl {
		if i < n {
			cc.tmpl[i] = et.at(base + i)
		} else {
			cc.tmpl[i] = et.at(-base - i)
		}
	}
	orig := cc.tmpl[:n]
	cc.v = et.at(base + 500000)
	mkVals := func() {
		cc.vals = make([]E, k)
		for i := range cc.vals {
			cc.vals[i] = et.at(base + 600000 + i)
		}
	}
	cat := func(parts ...[]E) []E {
		var r []E
		for _, p := range parts {
			r = append(r, p...)
		}
		return r
	}
	switch op.Kind {
	case "Insert":
		cc.idx = mod(op.Index, n+1)
		cc.want = cat(orig[:cc.idx], []E{cc.v}, orig[cc.idx:])
	case "InsertSlice":
		cc.idx = mod(op.Index, n+1)
		mkVals()
		cc.want = cat(orig[:cc.idx], cc.vals, orig[cc.idx:])
	case "Remove":
		if n == 0 {
			return cc, false
		}
		cc.idx = mod(op.Index, n)
		cc.want = cat(orig[:cc.idx], orig[cc.idx+1:])
	case "RemoveSlice":
		cc.idx = mod(op.Index, n+1)
		cc.k = mod(k, n-cc.idx+1)
		cc.want = cat(orig[:cc.idx], orig[cc.idx+cc.k:])
	case "Fill":
		cc.want = make([]E, n)
		for i := range cc.want {
			cc.want[i] = cc.v
		}
		cc.wantTail = cc.tmpl[n:]
	case "Repeat":
		cc.want = make([]E, k)
		for i := range cc.want {
			cc.want[i] = cc.v
		}
	case "Reverse":
		cc.want = make([]E, n)
		for i := range cc.want {
			cc.want[i] = orig[n-1-i]
		}
		cc.wantTail = cc.tmpl[n:]
	case "Clone":
		cc.want = cat(orig)
	case "Concat":
		mkVals()
		cc.want = cat(orig, cc.vals)
	case "Grow":
		cc.want = cat(orig, make([]E, k))
	default:
		return cc, false
	}
	cc.desc = fmt.Sprintf("%s(len %d cap %d, index %d, k %d)", op.Kind, n, n+op.Spare, cc.idx, cc.k)
	return cc, true
}

// run executes the call on buf (the worker's own backing array, len(buf) >= len(tmpl)) and returns "" or a description.
func (cc *concCall[E]) run(et *etype[E], buf []E) string {
	copy(buf, cc.tmpl)
	s := sl[E](buf[:cc.n:len(cc.tmpl)])
	var r sl[E]
	switch cc.op.Kind {
	case "Insert":
		slices.Insert(&s, cc.idx, cc.v)
		r = s
	case "InsertSlice":
		slices.InsertSlice(&s, cc.idx, sl[E](cc.vals))
		r = s
	case "Remove":
		slices.Remove(&s, cc.idx)
		r = s
	case "RemoveSlice":
		slices.RemoveSlice(&s, cc.idx, cc.k)
		r = s
	case "Fill":
		slices.Fill(s, cc.v)
		r = s
	case "Repeat":
		r = slices.Repeat(cc.v, cc.k)
	case "Reverse":
		slices.Reverse(s)
		r = s
	case "Clone":
		r = slices.Clone(s)
	case "Concat":
		r = slices.Concat(s, sl[E](cc.vals))
	case "Grow":
		r = slices.Grow(s, cc.k)
	}
	if len(r) != len(cc.want) {
		return fmt.Sprintf("%s: result has length %d, want %d", cc.desc, len(r), len(cc.want))
	}
	for i := range r {
		if !et.same(r[i], cc.want[i]) {
			return fmt.Sprintf("%s: %s (the values of this goroutine's own call are: inserted %s, value %s)", cc.desc, diffT(et, r, cc.want), showElems(et, cc.vals), et.show(cc.v))
		}
	}
	for i, x := range cc.wantTail {
		if !et.same(buf[cc.n+i], x) {
			return fmt.Sprintf("%s: wrote into the spare capacity at [%d]", cc.desc, cc.n+i)
		}
	}
	return ""
}

func runConc[E any](et *etype[E], c CCase) (out pbt.Outcome) {
	out = pbt.Outcome{Evals: 1}
	if c.Workers < 1 || c.Workers > 512 || c.Rounds < 0 || c.Rounds > 1<<20 || c.Millis < 0 || c.Millis > 60000 || c.MinIters < 0 || c.MinIters > 1<<24 || c.Procs < 0 || c.Procs > 64 || len(c.Ops) == 0 {
		out.Skipped = true
		return out
	}
	calls := make([][]concCall[E], c.Workers)
	maxBuf := 0
	for w := range calls {
		for j, op := range c.Ops {
			cc, ok := prepConc(et, w, j, op)
			if !ok {
				out.Skipped = true
				return out
			}
			calls[w] = append(calls[w], cc)
			maxBuf = max(maxBuf, len(cc.tmpl))
		}
	}
	if c.Procs > 0 || c.Flip {
		p := c.Procs
		if p == 0 {
			p = runtime.GOMAXPROCS(0)
		}
		defer runtime.GOMAXPROCS(runtime.GOMAXPROCS(p))
	}
	yield := c.Yield
	if c.GC && yield == 0 {
		yield = 64 // runtime.GC() yields while it sweeps and would wait seconds behind workers that never do
	}
	var stop, failed atomic.Bool
	var total atomic.Int64
	var mu sync.Mutex
	var firstErr string
	var wg sync.WaitGroup
	for w := 0; w < c.Workers; w++ {
		wg.Add(1)
		go func(w int) {
			defer wg.Done()
			buf := make([]E, maxBuf)
			fail := func(it, j int, m string) {
				mu.Lock()
				if firstErr == "" {
					firstErr = fmt.Sprintf("goroutine %d of %d (each works on slices of its own that no other goroutine sees), call %d of its pass %d: %s", w, c.Workers, j, it, m)
				}
				mu.Unlock()
				failed.Store(true)
			}
			it := 0
			defer func() { total.Add(int64(it * len(c.Ops))) }()
			for ; (it < c.MinIters || !stop.Load()) && !failed.Load(); it++ {
				for j := range calls[w] {
					var m string
					if p := try(func() { m = calls[w][j].run(et, buf) }); p != nil {
						m = fmt.Sprintf("%s panicked: %v", calls[w][j].desc, p)
					}
					if m != "" {
						fail(it, j, m)
						return
					}
				}
				if yield > 0 && it%yield == 0 {
					runtime.Gosched()
				}
			}
		}(w)
	}
	var ms runtime.MemStats
	deadline := time.Now().Add(time.Duration(c.Millis) * time.Millisecond)
	for r := 0; r < c.Rounds && !failed.Load() && (c.Millis == 0 || time.Now().Before(deadline)); r++ {
		// every one of these stops the world, i.e. preempts every running worker wherever it is
		if c.Stats {
			runtime.ReadMemStats(&ms)
		}
		if c.Flip && (r%8 == 7 || !c.Stats) {
			runtime.GOMAXPROCS(2 + 5*(r/8%2))
		}
		if c.GC && (r%256 == 255 || !c.Stats && !c.Flip) {
			runtime.GC()
		}
		// let the workers run: a sleeping disturber needs no P, and the timer puts it in front of its P's queue
		time.Sleep(100 * time.Microsecond)
	}
	stop.Store(true)
	wg.Wait()
	if firstErr != "" {
		return pbt.Fail("[%s] GOMAXPROCS %d, disturber: stats=%v gc=%v flip=%v: %s", et.name, c.Procs, c.Stats, c.GC, c.Flip, firstErr)
	}
	out.Evals = int(max(total.Load(), 1))
	inPlace := false
	for _, op := range c.Ops {
		out.Labels = append(out.Labels, "conc:op="+op.Kind)
		if (op.Kind == "Insert" && op.Spare >= 1) || (op.Kind == "InsertSlice" && op.Spare >= op.K+1 && op.K >= 1) {
			inPlace = true
		}
	}
	out.Labels = append(out.Labels, "conc:type="+et.name, fmt.Sprintf("conc:procs=%d", c.Procs), fmt.Sprintf("conc:stats=%v,gc=%v,flip=%v", c.Stats, c.GC, c.Flip))
	if c.Workers > runtime.GOMAXPROCS(0) {
		out.Labels = append(out.Labels, "conc:more-workers-than-procs")
	}
	out.NonTrivial = c.Workers >= 2 && inPlace && c.Rounds >= 1
	return out
}

// concLists: the op lists of the enumerated cases.
func concLists() map[string][]COp {
	all := func(n int) []COp {
		h := n / 2
		return []COp{
			{Kind: "InsertSlice", Len: n, Spare: h + 2, Index: n / 3, K: h}, // in place
			{Kind: "Insert", Len: n, Spare: 2, Index: h},                    // in place
			{Kind: "InsertSlice", Len: n, Spare: h + 3, Index: n + 2, K: h}, // in place, at the end (index = len for worker 0..2 in turn)
			{Kind: "Remove", Len: n, Spare: 1, Index: 1},
			{Kind: "RemoveSlice", Len: n, Spare: 0, Index: 1, K: h},
			{Kind: "InsertSlice", Len: n, Spare: 1, Index: 1, K: h + 2}, // reallocation
			{Kind: "Insert", Len: n, Spare: 0, Index: 0},                // reallocation
			{Kind: "Fill", Len: n + 3, Spare: 2},
			{Kind: "Reverse", Len: n + 1, Spare: 2},
			{Kind: "Clone", Len: n, Spare: 3},
			{Kind: "Concat", Len: h, Spare: n, K: h},
			{Kind: "Grow", Len: h, Spare: h + 2, K: h},
			{Kind: "Grow", Len: h, Spare: 1, K: h},
			{Kind: "Repeat", K: n},
			{Kind: "InsertSlice", Len: n, Spare: 2, Index: 0, K: 1},
		}
	}
	return map[string][]COp{
		"all(6)":               all(6),
		"all(40)":              all(40),
		"all(1100)":            all(1100),
		"insert-in-place":      {{Kind: "InsertSlice", Len: 6, Spare: 5, Index: 3, K: 4}, {Kind: "Insert", Len: 6, Spare: 1, Index: 2}},
		"insert-in-place(300)": {{Kind: "InsertSlice", Len: 300, Spare: 70, Index: 100, K: 64}, {Kind: "InsertSlice", Len: 10, Spare: 300, Index: 4, K: 256}},
		"remove":               {{Kind: "RemoveSlice", Len: 9, Spare: 2, Index: 2, K: 3}, {Kind: "Remove", Len: 9, Spare: 0, Index: 4}, {Kind: "RemoveSlice", Len: 300, Spare: 0, Index: 7, K: 120}},
		"whole":                {{Kind: "Fill", Len: 33, Spare: 1}, {Kind: "Reverse", Len: 33}, {Kind: "Repeat", K: 17}, {Kind: "Clone", Len: 12, Spare: 4}, {Kind: "Concat", Len: 5, Spare: 9, K: 6}, {Kind: "Grow", Len: 5, Spare: 9, K: 7}},
	}
}

func enumerateConc(shard, shards int, tier string, yield func(CCase) bool) {
	lists := concLists()
	millis, n := 200, 12
	if tier == "thorough" {
		millis, n = 1500, 96
	}
	types := []string{"int", "string", "uint8", "any", "[16]uint64(128B)", "[]int", "float64", "struct(520B)"}
	names := []string{"insert-in-place", "all(6)", "all(40)", "insert-in-place(300)", "all(6)", "insert-in-place", "all(6)", "insert-in-place", "all(40)", "all(6)", "insert-in-place",
		"all(1100)", "remove", "whole"}
	procs := []int{4, 2, 3, 4, 2, 5, 3}
	workers := []int{24, 12, 32, 8, 40}
	if tier == "thorough" {
		procs[3] = 0 // the machine's 16
		workers[2] = 64
	}
	for i := 0; i < n; i++ {
		if i%shards != shard {
			continue
		}
		c := CCase{Type: types[i%len(types)], Procs: procs[i%len(procs)], Workers: workers[i%len(workers)], Rounds: 1 << 20, Millis: millis, MinIters: 10,
			Yield: 16 * (i % 2), Stats: i%4 != 1, GC: i%4 == 1 || i%4 == 2, Flip: i%4 == 3, Ops: lists[names[i%len(names)]]}
		if c.Type == "struct(520B)" && len(c.Ops) > 0 && c.Ops[0].Len > 100 {
			c.Ops = lists["all(40)"]
		}
		if !yield(c) {
			return
		}
	}
}

var concKinds = []string{"Insert", "InsertSlice", "InsertSlice", "Remove", "RemoveSlice", "Fill", "Repeat", "Reverse", "Clone", "Concat", "Grow"}

var specConc = pbt.Register(&pbt.Spec[CCase]{
	Property: "C12", Name: "C12.conc",
	Rule: "INDEPENDENT goroutines: `workers` goroutines (8..40, thorough up to 64: more than GOMAXPROCS, which is set to 2..5 for the case; thorough also the machine's 16) each repeat one list of helper calls " +
		"on slices of their own (own backing array, own values, own lengths: worker w uses len + w%3 and k + w%2), every call compared with the splice model (length, every element, untouched spare capacity " +
		"for Fill/Reverse), while a disturber goroutine stops the world again and again for `millis` ms (quick 200, thorough 1500; between two rounds it sleeps 100 microseconds), which preempts every running worker wherever it is: " +
		"runtime.ReadMemStats every round, and/or runtime.GC() (every round, or every 256th next to ReadMemStats), and/or runtime.GOMAXPROCS flipped between 2 and 7 (class: another goroutine changing GOMAXPROCS while calls run); " +
		"workers optionally call runtime.Gosched() every 16 passes. Enumerated: 12 cases (thorough 96) cycling through element types (int, string, uint8, any, 128-byte array, []int, float64, 520-byte struct), op lists " +
		"(in-place Insert/InsertSlice only at sizes 6 and 300; all helpers at size 6 / 40 / 1100: InsertSlice and Insert in place in the middle and at the end, with reallocation, Remove, RemoveSlice, Fill, Reverse, Clone, Concat, " +
		"Grow in place and reallocating, Repeat; removals only; whole-slice helpers only), GOMAXPROCS, worker counts and the four disturber mixes. Random part: 1..6 random calls (sizes 0..12, 1 in 6 up to 600), 2..40 workers, 30 ms. " +
		"The outcome is timing-dependent only for a library that shares state between independent calls (the unchanged helpers are pure functions of their arguments); a wall-clock budget instead of a round count, because " +
		"a round costs 20 microseconds .. 20 ms depending on the machine's load. non-trivial = at least two workers, at least one in-place Insert/InsertSlice, at least one round",
	Enum: enumerateConc,
	Gen: func(t *rapid.T) CCase {
		c := CCase{Type: rapid.SampledFrom(typeNames).Draw(t, "type"), Procs: rapid.SampledFrom([]int{2, 3, 4}).Draw(t, "procs"),
			Workers: rapid.IntRange(2, 40).Draw(t, "workers"), Rounds: rapid.IntRange(20, 2000).Draw(t, "rounds"), Millis: 30, MinIters: 5,
			Yield: rapid.SampledFrom([]int{0, 1, 16}).Draw(t, "yield"), Stats: rapid.IntRange(0, 3).Draw(t, "stats") > 0,
			GC: rapid.IntRange(0, 3).Draw(t, "gc") == 0, Flip: rapid.IntRange(0, 5).Draw(t, "flip") == 0}
		hi := 12
		if rapid.IntRange(0, 5).Draw(t, "mid") == 0 && c.Type != "struct(520B)" {
			hi = 600
		}
		c.Ops = rapid.SliceOfN(rapid.Custom(func(t *rapid.T) COp {
			op := COp{Kind: rapid.SampledFrom(concKinds).Draw(t, "kind"), Len: rapid.IntRange(0, hi).Draw(t, "len"), K: rapid.IntRange(0, hi).Draw(t, "k")}
			op.Index = rapid.IntRange(0, op.Len+2).Draw(t, "index")
			op.Spare = rapid.SampledFrom([]int{0, 1, op.K, op.K + 1, op.K + 2, op.K + 9}).Draw(t, "spare")
			if op.Kind == "Remove" && op.Len == 0 {
				op.Len = 1
			}
			return op
		}), 1, 6).Draw(t, "ops")
		return c
	},
	Run: RunConc, Quick: 16, Thorough: 300,
	Retries: 5,
	CaseCPU: 900e9,
})

func TestC12Conc(t *testing.T) { pbt.Check(t, specConc) }
