package c12

import (
	"fmt"
	"math"
	"runtime"
	"unsafe"

	"gopkg.in/typ.v4/slices"
	"pgregory.net/rapid"
	"verifharness/internal/pbt"
)

// The history engine shared by C12.multi, C12.roomy and C12.many: a history of
// helper calls over SEVERAL live slices of one element type that are used
// alternately, with results of earlier calls kept and looked at again after
// every later call, garbage collections in the middle, calls aborted by a
// panic (invalid index on a scratch slice, recovered) in between, the slice or
// another live slice passed as the values to insert, slices that sit in a
// backing array with megabytes of unused capacity, and op lists that are
// repeated tens of thousands of times.

// Slot describes the initial state of one live slice.
type Slot struct {
	Len   int `json:"len"`
	Spare int `json:"spare"`
	// Once: the slice "once was big": it is made with length Len+Spare and cut down to Len with the library's
	// own RemoveSlice(&s, Len, Spare) (which is checked like every other call).
	Once bool `json:"once,omitempty"`
}

// HOp is one step. S selects the slot (mod their number); A, B, C, D are raw ints reduced inside the engine.
//
//	0  Insert(&s, A mod len+1, fresh value)
//	1  InsertSlice(&s, A mod len+1, B fresh values in a backing array of their own with C mod 3 spare slots)
//	2  Remove(&s, A mod len)                       (skipped on an empty slice)
//	3  RemoveSlice(&s, i = A mod len+1, B mod len-i+1)
//	4  Reverse(s)
//	5  s = Grow(s, B)
//	6  s = Clone(s); the old backing array is then overwritten by the harness
//	7  s = Concat(s, B fresh values); the old backing array and the values are then overwritten
//	8  Fill(s, fresh value)
//	9  runtime.GC()
//	10 kept = Repeat(fresh value, B)
//	11 InsertSlice(&s, i = A mod len+1, s[lo:lo+k] ) with lo = B mod len+1, k = C mod len-lo+1: a part of the slice itself;
//	   D mod 3 selects the capacity of the view: to the end of the backing array / exactly k / halfway
//	12 InsertSlice(&s, i, t[lo:lo+k:lo+k]) where t is the NEXT live slice
//	13 kept = Concat(s, t) with t the slice D slots further (D mod slots = 0: Concat(s, s))
//	14 a call with an invalid index on a scratch slice (panics in the unchanged library; recovered, nothing asserted)
//	15 kept = Clone(s)
type HOp struct {
	K int `json:"k"`
	S int `json:"s,omitempty"`
	A int `json:"a,omitempty"`
	B int `json:"b,omitempty"`
	C int `json:"c,omitempty"`
	D int `json:"d,omitempty"`
}

var histOpNames = []string{"Insert", "InsertSlice", "Remove", "RemoveSlice", "Reverse", "Grow", "Clone", "Concat", "Fill", "GC",
	"Repeat(kept)", "InsertSlice(self)", "InsertSlice(other)", "Concat(slots,kept)", "aborted", "Clone(kept)"}

// HistCase is a history over a few live slices of one element type.
type HistCase struct {
	Type   string `json:"type"`
	Slots  []Slot `json:"slots"`
	Ops    []HOp  `json:"ops"`
	Cycles int    `json:"cycles,omitempty"` // the op list is executed this many times (0 or 1: once)
}

const zeroCode = math.MinInt

// roomyWindow: slots with more spare capacity than this get only the first roomyWindow and the last 8 spare
// slots poisoned / scribbled (touching megabytes per call would make the cases slow without telling more).
const roomyWindow = 64

type histStats struct {
	calls       int
	inside      int // splices strictly inside a slice with spare capacity
	slotsUsed   map[int]bool
	switches    int // consecutive library calls on different live slices
	selfInPlace int // self-aliased InsertSlice that happened in place with values overlapping the target
	selfAny     int
	roomyCalls  int // calls on a slice with more than 64 KiB unused
	roomyRemove int // Remove/RemoveSlice leaving > 1 MiB unused and less than a quarter of the capacity in use
	keptChecked int
	gcs         int
	aborted     int
}

type liveSlice[E any] struct {
	s     sl[E]
	model []int
}

type histEngine[E any] struct {
	et    *etype[E]
	next  int
	slots []liveSlice[E]
	kept  []liveSlice[E]
	hist  string
	st    histStats
	size  uintptr
}

func (h *histEngine[E]) val(code int) E {
	if code == zeroCode {
		var z E
		return z
	}
	return h.et.at(code)
}

func (h *histEngine[E]) fresh() int { h.next++; return h.next }

func (h *histEngine[E]) freshN(k int) []int {
	c := make([]int, k)
	for i := range c {
		c[i] = h.fresh()
	}
	return c
}

// window calls f for the spare slots of full[n:] (all of them, or the first roomyWindow and the last 8).
func window(n, cp int, f func(i int)) {
	if cp-n <= roomyWindow+8 {
		for i := n; i < cp; i++ {
			f(i)
		}
		return
	}
	for i := n; i < n+roomyWindow; i++ {
		f(i)
	}
	for i := cp - 8; i < cp; i++ {
		f(i)
	}
}

// scribble overwrites a whole backing array (elements and spare capacity, windowed when huge) with garbage.
func (h *histEngine[E]) scribble(full sl[E], n int) {
	full = full[:cap(full)]
	for i := 0; i < n && i < len(full); i++ {
		full[i] = h.et.at(-5000000 - i)
	}
	window(n, len(full), func(i int) { full[i] = h.et.at(-6000000 - i) })
}

func (h *histEngine[E]) showCodes(codes []int) string {
	if len(codes) > 12 {
		return fmt.Sprintf("[%d values: %s ... %s]", len(codes), h.showCodes(codes[:4]), h.showCodes(codes[len(codes)-4:]))
	}
	m := "["
	for i, c := range codes {
		if i > 0 {
			m += " "
		}
		m += h.et.show(h.val(c))
	}
	return m + "]"
}

// diff compares a slice with its model ("" = equal).
func (h *histEngine[E]) diff(got sl[E], want []int) string {
	n := min(len(got), len(want))
	for i := 0; i < n; i++ {
		if !h.et.same(got[i], h.val(want[i])) {
			lo, hi := max(i-3, 0), i+4
			g := "["
			for j := lo; j < min(hi, len(got)); j++ {
				if j > lo {
					g += " "
				}
				g += h.et.show(got[j])
			}
			return fmt.Sprintf("got length %d, want length %d; first difference at index %d: got[%d:%d]=%s] want[%d:%d]=%s", len(got), len(want), i,
				lo, min(hi, len(got)), g, lo, min(hi, len(want)), h.showCodes(want[lo:min(hi, len(want))]))
		}
	}
	if len(got) != len(want) {
		return fmt.Sprintf("got length %d, want length %d (common prefix equal)", len(got), len(want))
	}
	return ""
}

func (h *histEngine[E]) mk(codes []int, spare int) sl[E] {
	back := make(sl[E], len(codes), len(codes)+spare)
	for i, c := range codes {
		back[i] = h.val(c)
	}
	full := back[:cap(back)]
	window(len(codes), len(full), func(i int) { full[i] = h.et.at(poison(i)) })
	return back
}

func splice(model []int, idx int, ins []int, del int) []int {
	w := make([]int, 0, len(model)+len(ins)-del)
	w = append(w, model[:idx]...)
	w = append(w, ins...)
	return append(w, model[idx+del:]...)
}

func (h *histEngine[E]) keep(r sl[E]) {
	// the harness now owns r: overwrite all of it with fresh distinct values; anything that shares memory with it
	// (a live slice, another kept result) shows at the next verification, and anything the library later writes
	// into it shows as well
	codes := h.freshN(len(r))
	for i, c := range codes {
		r[i] = h.val(c)
	}
	full := r[:cap(r)]
	window(len(r), len(full), func(i int) { full[i] = h.et.at(-7000000 - i) })
	h.kept = append(h.kept, liveSlice[E]{s: r, model: codes})
	if len(h.kept) > 6 {
		h.kept = h.kept[1:]
	}
}

// others verifies every live slice except skip, and every kept result.
func (h *histEngine[E]) others(skip int) string {
	for j := range h.slots {
		if j == skip {
			continue
		}
		if d := h.diff(h.slots[j].s, h.slots[j].model); d != "" {
			return fmt.Sprintf("live slice #%d, which was not the target of the call, changed: %s", j, d)
		}
	}
	for j := range h.kept {
		h.st.keptChecked++
		if d := h.diff(h.kept[j].s, h.kept[j].model); d != "" {
			return fmt.Sprintf("a result returned by an earlier call (kept result %d of %d, since then written only by the caller) changed: %s", j, len(h.kept), d)
		}
	}
	return ""
}

func runHist[E any](et *etype[E], c HistCase) (out pbt.Outcome, st histStats) {
	out = pbt.Outcome{}
	var z E
	h := &histEngine[E]{et: et, size: unsafe.Sizeof(z)}
	h.st.slotsUsed = map[int]bool{}
	if len(c.Slots) == 0 || len(c.Slots) > 8 {
		out.Skipped, out.Evals = true, 1
		return out, h.st
	}
	head := "[" + et.name + "] "
	onceLabelled := false
	for i, sd := range c.Slots {
		if sd.Len < 0 || sd.Spare < 0 {
			out.Skipped, out.Evals = true, 1
			return out, h.st
		}
		codes := h.freshN(sd.Len)
		var s sl[E]
		if sd.Once && sd.Spare > 0 {
			s = make(sl[E], sd.Len+sd.Spare)
			for j, cd := range codes {
				s[j] = h.val(cd)
			}
			if p := try(func() { slices.RemoveSlice(&s, sd.Len, sd.Spare) }); p != nil {
				out = pbt.Fail("%ssetup of live slice #%d: RemoveSlice(len %d cap %d, index=%d, length=%d) panicked: %v", head, i, sd.Len+sd.Spare, sd.Len+sd.Spare, sd.Len, sd.Spare, p)
				return out, h.st
			}
			if d := h.diff(s, codes); d != "" {
				out = pbt.Fail("%ssetup of live slice #%d: RemoveSlice(len %d cap %d with elements at(%d..) followed by zero values, index=%d, length=%d): %s",
					head, i, sd.Len+sd.Spare, sd.Len+sd.Spare, codes0(codes), sd.Len, sd.Spare, d)
				return out, h.st
			}
			out.Evals++
			if !onceLabelled {
				onceLabelled = true
				out.Labels = append(out.Labels, "hist:slot-once-was-big")
			}
		} else {
			s = h.mk(codes, sd.Spare)
		}
		h.slots = append(h.slots, liveSlice[E]{s: s, model: codes})
	}
	ns := len(h.slots)
	cycles := max(c.Cycles, 1)
	lastSlot := -1
	step := 0
	labelSeen := map[string]bool{}
	lab := func(l string) {
		if !labelSeen[l] {
			labelSeen[l] = true
			out.Labels = append(out.Labels, l)
		}
	}
	var opSeen [16][2]bool
	var roomySeen [16][2]bool
	for cyc := 0; cyc < cycles; cyc++ {
		for _, op := range c.Ops {
			step++
			if op.K < 0 || op.K >= len(histOpNames) || op.B < 0 || op.C < 0 || op.D < 0 {
				continue
			}
			S := mod(op.S, ns)
			t := &h.slots[S]
			n, cp := len(t.s), cap(t.s)
			sp := cp - n
			// poison the spare capacity before every call
			full := t.s[:cp]
			window(n, cp, func(i int) { full[i] = et.at(poison(i)) })
			name := histOpNames[op.K]
			var callf func() string
			want := t.model
			var p any
			checkTarget := true
			unusedBefore := uintptr(sp) * h.size
			switch op.K {
			case 0:
				idx := mod(op.A, n+1)
				code := h.fresh()
				v := h.val(code)
				callf = func() string { return fmt.Sprintf("Insert(&s%d, index=%d, value=%s)", S, idx, et.show(v)) }
				want = splice(t.model, idx, []int{code}, 0)
				p = try(func() { slices.Insert(&t.s, idx, v) })
				if sp > 0 && idx > 0 && idx < n {
					h.st.inside++
				}
			case 1:
				idx := mod(op.A, n+1)
				codes := h.freshN(op.B)
				vals := h.mk(codes, mod(op.C, 3))
				callf = func() string {
					return fmt.Sprintf("InsertSlice(&s%d, index=%d, values=%s)", S, idx, h.showCodes(codes))
				}
				want = splice(t.model, idx, codes, 0)
				p = try(func() { slices.InsertSlice(&t.s, idx, vals) })
				if sp > 0 && idx > 0 && idx < n && op.B > 0 {
					h.st.inside++
				}
			case 2:
				if n == 0 {
					continue
				}
				idx := mod(op.A, n)
				callf = func() string { return fmt.Sprintf("Remove(&s%d, index=%d)", S, idx) }
				want = splice(t.model, idx, nil, 1)
				p = try(func() { slices.Remove(&t.s, idx) })
				if sp > 0 && idx > 0 && idx < n-1 {
					h.st.inside++
				}
				if uintptr(cp-(n-1))*h.size > 1<<20 && n-1 < cp/4 {
					h.st.roomyRemove++
					lab("hist:Remove:leaves>1MiB-unused,<cap/4-used")
				}
			case 3:
				idx := mod(op.A, n+1)
				length := mod(op.B, n-idx+1)
				callf = func() string { return fmt.Sprintf("RemoveSlice(&s%d, index=%d, length=%d)", S, idx, length) }
				want = splice(t.model, idx, nil, length)
				p = try(func() { slices.RemoveSlice(&t.s, idx, length) })
				if sp > 0 && idx > 0 && length > 0 && idx+length < n {
					h.st.inside++
				}
				if uintptr(cp-(n-length))*h.size > 1<<20 && n-length < cp/4 {
					h.st.roomyRemove++
					switch {
					case length == 0:
						lab("hist:RemoveSlice:leaves>1MiB-unused,<cap/4-used:length=0")
					case length == 1:
						lab("hist:RemoveSlice:leaves>1MiB-unused,<cap/4-used:length=1")
					case idx+length == n:
						lab("hist:RemoveSlice:leaves>1MiB-unused,<cap/4-used:length>=2,to-end")
					default:
						lab("hist:RemoveSlice:leaves>1MiB-unused,<cap/4-used:length>=2,tail-follows")
					}
				}
			case 4:
				callf = func() string { return fmt.Sprintf("Reverse(s%d)", S) }
				want = make([]int, n)
				for i := range t.model {
					want[n-1-i] = t.model[i]
				}
				p = try(func() { slices.Reverse(t.s) })
			case 5:
				callf = func() string { return fmt.Sprintf("s%d = Grow(s%d, %d)", S, S, op.B) }
				want = append(append(make([]int, 0, n+op.B), t.model...), make([]int, op.B)...)
				for i := n; i < len(want); i++ {
					want[i] = zeroCode
				}
				p = try(func() { t.s = slices.Grow(t.s, op.B) })
			case 6, 7:
				var r sl[E]
				var vals sl[E]
				if op.K == 6 {
					callf = func() string { return fmt.Sprintf("s%d = Clone(s%d)", S, S) }
					p = try(func() { r = slices.Clone(t.s) })
				} else {
					codes := h.freshN(op.B)
					vals = h.mk(codes, mod(op.C, 3))
					callf = func() string { return fmt.Sprintf("s%d = Concat(s%d, %s)", S, S, h.showCodes(codes)) }
					want = append(append(make([]int, 0, n+op.B), t.model...), codes...)
					p = try(func() { r = slices.Concat(t.s, vals) })
				}
				if p == nil && h.diff(r, want) == "" {
					// the inputs (with their spare capacity) are overwritten: the result must not change
					h.scribble(full, n)
					h.scribble(vals, len(vals))
					if d := h.diff(r, want); d != "" {
						out = pbt.Fail("%sstep %d: %s on s%d=%s (len %d cap %d): the result shares memory with an input (overwriting the inputs' backing arrays changed the result: %s); history:%s",
							head, step, callf(), S, h.showCodes(t.model), n, cp, d, h.hist)
						return out, h.st
					}
				}
				t.s = r
			case 8:
				code := h.fresh()
				v := h.val(code)
				callf = func() string { return fmt.Sprintf("Fill(s%d, %s)", S, et.show(v)) }
				want = make([]int, n)
				for i := range want {
					want[i] = code
				}
				p = try(func() { slices.Fill(t.s, v) })
			case 9:
				if h.st.gcs >= 3 {
					continue // a full collection costs about a millisecond: at most three per history
				}
				callf = func() string { return "runtime.GC()" }
				runtime.GC()
				h.st.gcs++
				checkTarget = false
			case 10:
				code := h.fresh()
				v := h.val(code)
				callf = func() string { return fmt.Sprintf("kept = Repeat(%s, %d)", et.show(v), op.B) }
				var r []E
				p = try(func() { r = slices.Repeat(v, op.B) })
				if p == nil {
					w := make([]int, op.B)
					for i := range w {
						w[i] = code
					}
					if d := h.diff(r, w); d != "" {
						out = pbt.Fail("%sstep %d: Repeat(%s, %d): %s; history:%s", head, step, et.show(v), op.B, d, h.hist)
						return out, h.st
					}
					h.keep(r)
				}
				checkTarget = false
			case 11:
				idx := mod(op.A, n+1)
				lo := mod(op.B, n+1)
				k := mod(op.C, n-lo+1)
				if k >= 1 && k <= sp && lo > idx {
					lab("hist:InsertSlice(self):values-from-behind-the-index-inserted-in-place")
				}
				hi := lo + k
				var vals sl[E]
				var capDesc string
				switch mod(op.D, 3) {
				case 0:
					vals, capDesc = t.s[lo:hi], fmt.Sprintf("s%d[%d:%d]", S, lo, hi)
				case 1:
					vals, capDesc = t.s[lo:hi:hi], fmt.Sprintf("s%d[%d:%d:%d]", S, lo, hi, hi)
				default:
					m := (hi + cp + 1) / 2
					vals, capDesc = t.s[lo:hi:m], fmt.Sprintf("s%d[%d:%d:%d]", S, lo, hi, m)
				}
				given := append([]int(nil), t.model[lo:hi]...)
				callf = func() string { return fmt.Sprintf("InsertSlice(&s%d, index=%d, values=%s)", S, idx, capDesc) }
				want = splice(t.model, idx, given, 0)
				p = try(func() { slices.InsertSlice(&t.s, idx, vals) })
				h.st.selfAny++
				if k >= 1 && k <= sp {
					h.st.selfInPlace++
				}
				if cyc == 0 {
					lab("hist:InsertSlice(self):" + aliasRelation(idx, lo, hi, n, k <= sp))
				}
			case 12:
				if ns < 2 {
					continue
				}
				T := mod(S+1, ns)
				o := &h.slots[T]
				idx := mod(op.A, n+1)
				lo := mod(op.B, len(o.s)+1)
				k := mod(op.C, len(o.s)-lo+1)
				vals := o.s[lo : lo+k : lo+k]
				given := append([]int(nil), o.model[lo:lo+k]...)
				callf = func() string {
					return fmt.Sprintf("InsertSlice(&s%d, index=%d, values=s%d[%d:%d:%d])", S, idx, T, lo, lo+k, lo+k)
				}
				want = splice(t.model, idx, given, 0)
				p = try(func() { slices.InsertSlice(&t.s, idx, vals) })
			case 13:
				T := mod(S+op.D, ns)
				o := &h.slots[T]
				callf = func() string { return fmt.Sprintf("kept = Concat(s%d, s%d)", S, T) }
				var r sl[E]
				p = try(func() { r = slices.Concat(t.s, o.s) })
				if p == nil {
					w := append(append(make([]int, 0, n+len(o.model)), t.model...), o.model...)
					if d := h.diff(r, w); d != "" {
						out = pbt.Fail("%sstep %d: Concat(s%d=%s, s%d=%s): %s; history:%s", head, step, S, h.showCodes(t.model), T, h.showCodes(o.model), d, h.hist)
						return out, h.st
					}
					h.keep(r) // overwrites the result: if it shares memory with s or t, the verification below fails
				}
				if T == S {
					lab("hist:Concat(s,s)")
				}
			case 14:
				scratch := h.mk(h.freshN(3), mod(op.B, 4))
				switch mod(op.A, 6) {
				case 0:
					callf = func() string { return "aborted: Insert(&scratch(len 3), index=5, v)" }
					p = try(func() { slices.Insert(&scratch, 5, h.val(1)) })
				case 1:
					callf = func() string { return "aborted: InsertSlice(&scratch(len 3), index=6, 2 values)" }
					p = try(func() { slices.InsertSlice(&scratch, 6, h.mk(h.freshN(2), 0)) })
				case 2:
					callf = func() string { return "aborted: Remove(&scratch(len 3), index=3)" }
					p = try(func() { slices.Remove(&scratch, 3) })
				case 3:
					callf = func() string { return "aborted: RemoveSlice(&scratch(len 3), index=2, length=4)" }
					p = try(func() { slices.RemoveSlice(&scratch, 2, 4) })
				case 4:
					callf = func() string { return "aborted: Insert(&scratch(len 3), index=-1, v)" }
					p = try(func() { slices.Insert(&scratch, -1, h.val(1)) })
				default:
					callf = func() string { return "aborted: RemoveSlice(&scratch(len 3), index=-2, length=1)" }
					p = try(func() { slices.RemoveSlice(&scratch, -2, 1) })
				}
				if p != nil {
					h.st.aborted++
					lab("hist:aborted-call-panicked-and-was-recovered")
				}
				p = nil // outside the domain: nothing is asserted about this call
				checkTarget = false
			case 15:
				callf = func() string { return fmt.Sprintf("kept = Clone(s%d)", S) }
				var r sl[E]
				p = try(func() { r = slices.Clone(t.s) })
				if p == nil {
					if d := h.diff(r, t.model); d != "" {
						out = pbt.Fail("%sstep %d: Clone(s%d=%s): %s; history:%s", head, step, S, h.showCodes(t.model), d, h.hist)
						return out, h.st
					}
					h.keep(r)
				}
			}
			out.Evals++
			h.st.calls++
			before := t.model
			desc := func() string { return fmt.Sprintf("s%d=%s (len %d cap %d)", S, h.showCodes(before), n, cp) }
			if p != nil {
				out = pbt.Fail("%sstep %d: %s on %s panicked: %v; history:%s", head, step, callf(), desc(), p, h.hist)
				return out, h.st
			}
			if checkTarget {
				if d := h.diff(t.s, want); d != "" {
					out = pbt.Fail("%sstep %d: %s on %s: %s; history:%s", head, step, callf(), desc(), d, h.hist)
					return out, h.st
				}
				t.model = want
			}
			if d := h.others(S); d != "" {
				out = pbt.Fail("%sstep %d: after %s on %s: %s; history:%s", head, step, callf(), desc(), d, h.hist)
				return out, h.st
			}
			if op.K != 9 && op.K != 14 && op.K != 10 {
				if !h.st.slotsUsed[S] {
					h.st.slotsUsed[S] = true
				}
				if lastSlot >= 0 && lastSlot != S {
					h.st.switches++
				}
				lastSlot = S
				if unusedBefore > 64<<10 {
					h.st.roomyCalls++
					if !roomySeen[op.K][0] {
						roomySeen[op.K][0] = true
						lab("hist:" + name + ":unused-capacity>64KiB")
					}
					if unusedBefore > 1<<20 && !roomySeen[op.K][1] {
						roomySeen[op.K][1] = true
						lab("hist:" + name + ":unused-capacity>1MiB")
					}
				}
			}
			if len(h.hist) < 600 {
				h.hist += " " + callf() + ";"
			} else if len(h.hist) < 610 {
				h.hist += " ...(more)"
			}
			if sp > 0 && !opSeen[op.K][1] {
				opSeen[op.K][1] = true
				lab("hist:" + name + ":spare>0")
			} else if sp == 0 && !opSeen[op.K][0] {
				opSeen[op.K][0] = true
				lab("hist:" + name + ":spare=0")
			}
		}
	}
	if out.Evals == 0 {
		out.Evals = 1
	}
	return out, h.st
}

func codes0(c []int) int {
	if len(c) == 0 {
		return 0
	}
	return c[0]
}

// aliasRelation names the position of the aliased values s[lo:hi] relative to the insertion index.
func aliasRelation(idx, lo, hi, n int, inPlace bool) string {
	r := "realloc:"
	if inPlace {
		r = "in-place:"
	}
	switch {
	case lo == hi:
		return r + "empty-view"
	case lo == 0 && hi == n:
		return r + "whole-slice"
	case hi <= idx:
		return r + "view-ends-before-index"
	case lo <= idx:
		return r + "view-spans-index"
	default:
		return r + "view-after-index"
	}
}

var histRunners = map[string]func(HistCase) (pbt.Outcome, histStats){}

func regHist[E any](et *etype[E]) {
	histRunners[et.name] = func(c HistCase) (pbt.Outcome, histStats) { return runHist(et, c) }
}

// drawHOp draws one step for nslots live slices; kinds are weighted towards the splices.
func drawHOp(t *rapid.T, kinds []int, nslots, maxA, maxB int) HOp {
	return HOp{
		K: rapid.SampledFrom(kinds).Draw(t, "k"),
		S: rapid.IntRange(0, nslots-1).Draw(t, "s"),
		A: rapid.IntRange(0, maxA).Draw(t, "a"),
		B: rapid.IntRange(0, maxB).Draw(t, "b"),
		C: rapid.IntRange(0, maxB).Draw(t, "c"),
		D: rapid.IntRange(0, 2).Draw(t, "d"),
	}
}
