package c12

import (
	"fmt"
	"runtime"
	"testing"

	"gopkg.in/typ.v4/slices"
	"pgregory.net/rapid"
	"verifharness/internal/pbt"
)

// C12.stack: the slice's backing array is a LOCAL fixed-size array of the
// calling function. None of the helpers lets its argument escape, so the
// compiler keeps such an array on the goroutine stack. The call is made on a
// fresh goroutine (small stack); afterwards a deep recursion forces the
// runtime to move the stack (and with it the array the result points into),
// optionally a garbage collection runs, and only then the result is compared
// with the splice model - computed from a formula, index by index, so that no
// heap copy of the expected values exists either.

type SCase struct {
	Type  string `json:"type"` // int | string | [2]string
	Op    string `json:"op"`
	Len   int    `json:"len"`   // 0..stackCap-Spare
	Spare int    `json:"spare"` // 0..stackCap
	Index int    `json:"index"`
	K     int    `json:"k"`     // 0..stackVals
	Depth int    `json:"depth"` // recursion depth after the call (frames of about 1 KiB)
	GC    bool   `json:"gc"`
}

const stackCap, stackVals = 96, 32

//go:noinline
func deepen(d int) int {
	var pad [120]int
	pad[d%120] = d
	if d <= 0 {
		return pad[0]
	}
	return deepen(d-1) + pad[(d*7)%120]
}

// stackBody: Insert, InsertSlice, Remove, RemoveSlice store the new slice header through the caller's pointer, which makes
// the compiler move a to the heap (as in every caller of these helpers); they run in this function of their own so
// that the arrays of stackBodyNoEscape stay on the stack.
//
//go:noinline
func stackBody[E comparable](c SCase, idx, k int, gen func(i int) E, res *string) {
	var a [stackCap]E
	var b [stackVals]E
	n := c.Len
	for i := range a {
		if i < n {
			a[i] = gen(i + 1)
		} else {
			a[i] = gen(-1000 - i)
		}
	}
	for i := range b {
		b[i] = gen(5000 + i)
	}
	s := sl[E](a[: n : n+c.Spare])
	vals := sl[E](b[:k])
	v := gen(777)
	var r sl[E]
	var want func(i int) E
	wantLen := n
	switch c.Op {
	case "Insert":
		slices.Insert(&s, idx, v)
		r, wantLen = s, n+1
		want = func(i int) E {
			switch {
			case i < idx:
				return gen(i + 1)
			case i == idx:
				return gen(777)
			}
			return gen(i)
		}
	case "InsertSlice":
		slices.InsertSlice(&s, idx, vals)
		r, wantLen = s, n+k
		want = func(i int) E {
			switch {
			case i < idx:
				return gen(i + 1)
			case i < idx+k:
				return gen(5000 + i - idx)
			}
			return gen(i - k + 1)
		}
	case "Remove":
		slices.Remove(&s, idx)
		r, wantLen = s, n-1
		want = func(i int) E {
			if i < idx {
				return gen(i + 1)
			}
			return gen(i + 2)
		}
	case "RemoveSlice":
		slices.RemoveSlice(&s, idx, k)
		r, wantLen = s, n-k
		want = func(i int) E {
			if i < idx {
				return gen(i + 1)
			}
			return gen(i + k + 1)
		}
	default:
		*res = "skip"
		return
	}
	stackFinish(c, a[:], n, r, wantLen, want, gen, res)
}

// stackBodyNoEscape: the helpers that do not store through a pointer to the slice: a and b stay on the goroutine's
// stack (checked with -gcflags=-m: no 'moved to heap: a' for this function).
//
//go:noinline
func stackBodyNoEscape[E comparable](c SCase, idx, k int, gen func(i int) E, res *string) {
	var a [stackCap]E
	var b [stackVals]E
	n := c.Len
	for i := range a {
		if i < n {
			a[i] = gen(i + 1)
		} else {
			a[i] = gen(-1000 - i)
		}
	}
	for i := range b {
		b[i] = gen(5000 + i)
	}
	s := sl[E](a[: n : n+c.Spare])
	vals := sl[E](b[:k])
	v := gen(777)
	var zero E
	var r sl[E]
	var want func(i int) E
	wantLen := n
	switch c.Op {
	case "Fill":
		slices.Fill(s, v)
		r = s
		want = func(int) E { return gen(777) }
	case "Reverse":
		slices.Reverse(s)
		r = s
		want = func(i int) E { return gen(n - i) }
	case "Clone":
		r = slices.Clone(s)
		want = func(i int) E { return gen(i + 1) }
	case "Concat":
		r, wantLen = slices.Concat(s, vals), n+k
		want = func(i int) E {
			if i < n {
				return gen(i + 1)
			}
			return gen(5000 + i - n)
		}
	case "Grow":
		r, wantLen = slices.Grow(s, k), n+k
		want = func(i int) E {
			if i < n {
				return gen(i + 1)
			}
			return zero
		}
	case "Repeat":
		r, wantLen = slices.Repeat(v, k), k
		want = func(int) E { return gen(777) }
	default:
		*res = "skip"
		return
	}
	stackFinish(c, a[:], n, r, wantLen, want, gen, res)
}

// stackFinish moves the stack, then compares (arr = the caller's array a, not retained).
//
//go:noinline
func stackFinish[E comparable](c SCase, arr []E, n int, r sl[E], wantLen int, want func(i int) E, gen func(i int) E, res *string) {
	x := deepen(c.Depth) // the stack grows (is copied) here
	if c.GC {
		runtime.GC()
	}
	x += deepen(c.Depth / 2)
	if x == -1 {
		*res = "impossible"
	}
	if len(r) != wantLen {
		*res = fmt.Sprintf("result has length %d, want %d", len(r), wantLen)
		return
	}
	for i := range r {
		if w := want(i); r[i] != w {
			*res = fmt.Sprintf("element [%d] of %d is %v, want %v", i, len(r), r[i], w)
			return
		}
	}
	// the array itself behind the result's length must not have been written by the helpers that keep the length
	if c.Op == "Fill" || c.Op == "Reverse" || c.Op == "Clone" || c.Op == "Concat" {
		for i := n; i < stackCap; i++ {
			if arr[i] != gen(-1000-i) {
				*res = fmt.Sprintf("the caller's array was written at [%d] (behind the slice's length %d)", i, n)
				return
			}
		}
	}
}

func runStack[E comparable](c SCase, gen func(i int) E) (out pbt.Outcome) {
	out = pbt.Outcome{Evals: 1}
	if c.Len < 0 || c.Spare < 0 || c.Len+c.Spare > stackCap || c.K < 0 || c.K > stackVals || c.Index < 0 || c.Depth < 0 || c.Depth > 20000 {
		out.Skipped = true
		return out
	}
	n, idx, k := c.Len, c.Index, c.K
	switch c.Op {
	case "Insert", "InsertSlice":
		idx = mod(idx, n+1)
	case "Remove":
		if n == 0 {
			out.Skipped = true
			return out
		}
		idx = mod(idx, n)
	case "RemoveSlice":
		idx = mod(idx, n+1)
		k = mod(k, n-idx+1)
	}
	var res string
	var p any
	done := make(chan struct{})
	go func() {
		defer close(done)
		p = try(func() {
			switch c.Op {
			case "Insert", "InsertSlice", "Remove", "RemoveSlice":
				stackBody(c, idx, k, gen, &res)
			default:
				stackBodyNoEscape(c, idx, k, gen, &res)
			}
		})
	}()
	<-done
	desc := fmt.Sprintf("[%s] %s on s = a[:%d:%d] of a local array `var a [%d]E` (values from a local `var b [%d]E`: b[:%d]), index %d; then a recursion %d frames deep (the goroutine's stack is moved), gc=%v, then the result is read",
		c.Type, c.Op, n, n+c.Spare, stackCap, stackVals, k, idx, c.Depth, c.GC)
	switch {
	case p != nil:
		return pbt.Fail("%s: panicked: %v", desc, p)
	case res == "skip":
		out.Skipped = true
		return out
	case res != "":
		return pbt.Fail("%s: %s", desc, res)
	}
	out.Labels = append(out.Labels, "stack:op="+c.Op, "stack:type="+c.Type, fmt.Sprintf("stack:gc=%v", c.GC))
	if c.Depth >= 64 {
		out.Labels = append(out.Labels, "stack:grown-by>=64KiB")
	}
	out.NonTrivial = c.Depth >= 64 && (n >= 2 || k >= 1)
	return out
}

var stackTypes = []string{"int", "string", "[2]string"}

func RunStack(c SCase) pbt.Outcome {
	switch c.Type {
	case "int":
		return runStack(c, func(i int) int { return i })
	case "string":
		return runStack(c, func(i int) string { return stackStrings[mod(i, len(stackStrings))] })
	case "[2]string":
		return runStack(c, func(i int) [2]string {
			return [2]string{stackStrings[mod(i, len(stackStrings))], stackStrings[mod(i*7+3, len(stackStrings))]}
		})
	}
	return pbt.Outcome{Skipped: true, Evals: 1}
}

// stackStrings: distinct strings made once (no allocation when a case asks for the expected value).
var stackStrings = func() []string {
	l := make([]string, 8192)
	for i := range l {
		l[i] = fmt.Sprintf("s%d", i)
	}
	l[2] = ""
	return l
}()

func enumerateStack(shard, shards int, tier string, yield0 func(SCase) bool) {
	seq, stop := 0, false
	yield := func(c SCase) {
		seq++
		if stop || seq%shards != shard {
			return
		}
		if !yield0(c) {
			stop = true
		}
	}
	depths := []int{96}
	if tier == "thorough" {
		depths = []int{0, 8, 64, 300, 3000}
	}
	for _, tn := range stackTypes {
		for _, n := range []int{0, 1, 8, 64} {
			for _, sp := range uniq([]int{0, 1, stackCap - n}, stackCap-n) {
				for di, d := range depths {
					gc := (n+sp+di)%32 == 1
					for _, op := range []string{"Fill", "Reverse", "Clone"} {
						yield(SCase{Type: tn, Op: op, Len: n, Spare: sp, Depth: d, GC: gc})
					}
					for _, k := range []int{0, 1, 5, stackVals} {
						yield(SCase{Type: tn, Op: "Grow", Len: n, Spare: sp, K: k, Depth: d, GC: gc})
						yield(SCase{Type: tn, Op: "Concat", Len: n, Spare: sp, K: k, Depth: d, GC: gc})
						yield(SCase{Type: tn, Op: "Repeat", K: k, Depth: d, GC: gc})
						for _, idx := range uniq([]int{0, 1, n / 2, n}, n) {
							yield(SCase{Type: tn, Op: "InsertSlice", Len: n, Spare: sp, Index: idx, K: k, Depth: d, GC: gc})
							yield(SCase{Type: tn, Op: "RemoveSlice", Len: n, Spare: sp, Index: idx, K: k, Depth: d, GC: gc})
							if k == 1 {
								yield(SCase{Type: tn, Op: "Insert", Len: n, Spare: sp, Index: idx, Depth: d, GC: gc})
								yield(SCase{Type: tn, Op: "Remove", Len: n, Spare: sp, Index: idx, Depth: d, GC: gc})
							}
						}
					}
				}
			}
			if stop {
				return
			}
		}
	}
}

var specStack = pbt.Register(&pbt.Spec[SCase]{
	Property: "C12", Name: "C12.stack",
	Rule: "the slice is s = a[:len:len+spare] of a LOCAL array `var a [96]E` of the calling function, the inserted values b[:k] of a local `var b [32]E` (the helpers do not let their arguments escape, " +
		"so both arrays live on the goroutine stack); the call runs on a fresh goroutine; after the call a recursion of `depth` frames of about 1 KiB forces the runtime to move the stack, " +
		"optionally runtime.GC() runs, and only then the result is compared, index by index, with a formula for the splice model (no heap copy of the expected values); Fill/Reverse/Clone/Concat: " +
		"the array behind len is unchanged. Element types int, string, [2]string; all ten helpers. Enumerated: len in {0, 1, 8, 64}, spare in {0, 1, 96-len}, k in {0, 1, 5, 32}, index in {0, 1, len/2, len}, " +
		"depth = 96 (thorough {0, 8, 64, 300, 3000}), gc in one case of 32. Random: any len/spare/k/index in range, depth in {0, 64, 300}. non-trivial = depth >= 64 and (len >= 2 or k >= 1)",
	Enum: enumerateStack,
	Gen: func(t *rapid.T) SCase {
		c := SCase{Type: rapid.SampledFrom(stackTypes).Draw(t, "type"), Op: rapid.SampledFrom(plainOps).Draw(t, "op"), GC: rapid.IntRange(0, 29).Draw(t, "gc") == 0}
		c.Len = rapid.IntRange(0, stackCap).Draw(t, "len")
		c.Spare = rapid.IntRange(0, stackCap-c.Len).Draw(t, "spare")
		if rapid.IntRange(0, 2).Draw(t, "tight") == 0 {
			c.Spare = min(c.Spare, 2)
		}
		c.Index = rapid.IntRange(0, c.Len).Draw(t, "index")
		c.K = rapid.IntRange(0, stackVals).Draw(t, "k")
		c.Depth = rapid.SampledFrom([]int{0, 64, 300}).Draw(t, "depth")
		return c
	},
	Run: RunStack, Quick: 800, Thorough: 40000,
	Crashy:   true,
	Replicas: 4, ReplicaEvery: 8,
})

func TestC12Stack(t *testing.T) { pbt.Check(t, specStack) }
