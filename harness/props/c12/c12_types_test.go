package c12

import (
	"fmt"
	"math"
	"reflect"
	"sort"
	"strconv"
	"testing"
	"unsafe"

	"gopkg.in/typ.v4/slices"
	"pgregory.net/rapid"
	"verifharness/internal/pbt"
)

// C12.types: the same ten helpers, generic over the ELEMENT TYPE. The helpers
// are declared for "E any", so the statement covers element types that cannot
// be compared with == (slices, maps, funcs, structs containing them, interfaces
// holding them), values that are == to the zero value without being the zero
// value (-0.0, also inside structs and complex numbers), NaN, zero-size
// elements, one-byte elements, elements far larger than a cache line, pointers,
// and types that bring their own methods. "The value" is compared by identity
// of representation (see etype.same), never with ==.

// TCase is a Case plus the element type and the choice of the special value
// used by Insert / Fill / Repeat.
type TCase struct {
	Type string `json:"type"`
	V    int    `json:"v"` // index into the type's special values (mod their number)
	Case
}

// sl is the named slice type handed to the helpers (S ~[]E with S != []E).
type sl[E any] []E

// etype describes one element type.
type etype[E any] struct {
	name string
	// at maps an integer to a value; same(at(i), at(i)) holds; values of neighbouring integers differ
	// wherever the type has more than one value.
	at func(i int) E
	// same: a and b are the same value (bit pattern for floats, except that every NaN is a NaN;
	// data pointer + len + cap for slices; identity for maps and pointers; nil-ness and result for funcs).
	same func(a, b E) bool
	show func(E) string
	// specials: values for Insert / Fill / Repeat: the zero value first, then values that are "almost zero"
	// (== to zero, or empty but not nil), then ordinary ones.
	specials []E
}

// arena backs the slice-typed and pointer-typed elements: identity = position in the arena.
var arena = make([]int, 1<<16+8)

func arenaSlice(i int) []int {
	switch mod(i, 5) {
	case 1:
		return nil
	case 3:
		j := mod(i, 1<<16)
		return arena[j : j : j+1] // empty, not nil
	}
	j := mod(i, 1<<16)
	return arena[j : j+1+mod(i, 3) : j+4]
}

func sameSlice(a, b []int) bool {
	return unsafe.SliceData(a) == unsafe.SliceData(b) && len(a) == len(b) && cap(a) == cap(b)
}

func showSlice(a []int) string {
	if a == nil {
		return "nil"
	}
	off := (uintptr(unsafe.Pointer(unsafe.SliceData(a))) - uintptr(unsafe.Pointer(&arena[0]))) / unsafe.Sizeof(arena[0])
	return fmt.Sprintf("arena[%d:+%d:+%d]", off, len(a), cap(a))
}

var mapPool = func() []map[string]int {
	p := make([]map[string]int, 61)
	for i := range p {
		p[i] = map[string]int{"k": i}
	}
	p[7] = nil
	p[11] = map[string]int{} // empty, not nil
	return p
}()

func sameMap(a, b map[string]int) bool {
	return reflect.ValueOf(a).Pointer() == reflect.ValueOf(b).Pointer()
}

func showMap(m map[string]int) string {
	if m == nil {
		return "map(nil)"
	}
	if len(m) == 0 {
		return "map{}"
	}
	return fmt.Sprintf("map#%d", m["k"])
}

type rec struct {
	ID  int
	Sub []int // makes the struct non-comparable
}

type fpair struct {
	F float32
	C complex128
}

type bigElem struct {
	ID  int
	Pad [63]int64
	S   string
}

// odd is comparable and brings methods that a generic helper must not be misled by.
type odd struct {
	ID  int
	Tag string
}

func (odd) Equal(odd) bool    { return true }
func (odd) IsZero() bool      { return true }
func (odd) String() string    { return "" }
func (odd) Len() int          { return 0 }
func (o odd) Error() string   { return "odd" }
func (o odd) Compare(odd) int { return 0 }

type empty struct{}

func fbits(f float64) uint64 { return math.Float64bits(f) }

func sameF(a, b float64) bool {
	if a != a || b != b {
		return a != a && b != b
	}
	return fbits(a) == fbits(b)
}

func showF(f float64) string {
	if f == 0 && math.Signbit(f) {
		return "-0.0"
	}
	return strconv.FormatFloat(f, 'g', -1, 64)
}

func floatAt(i int) float64 {
	switch mod(i, 11) {
	case 3:
		return math.Copysign(0, -1)
	case 5:
		return 0
	case 8:
		return math.NaN()
	}
	return float64(i) + 0.5
}

func sameAny(a, b any) bool {
	switch x := a.(type) {
	case nil:
		return b == nil
	case int:
		y, ok := b.(int)
		return ok && x == y
	case string:
		y, ok := b.(string)
		return ok && x == y
	case float64:
		y, ok := b.(float64)
		return ok && sameF(x, y)
	case []int:
		y, ok := b.([]int)
		return ok && sameSlice(x, y) && (x == nil) == (y == nil)
	case map[string]int:
		y, ok := b.(map[string]int)
		return ok && sameMap(x, y)
	case *int:
		y, ok := b.(*int)
		return ok && x == y
	case empty:
		_, ok := b.(empty)
		return ok
	case rec:
		y, ok := b.(rec)
		return ok && x.ID == y.ID && sameSlice(x.Sub, y.Sub)
	}
	return false
}

func anyAt(i int) any {
	switch mod(i, 10) {
	case 0:
		return i
	case 1:
		return nil
	case 2:
		return "s" + strconv.Itoa(i)
	case 3:
		return arenaSlice(i + 1) // dynamic type not comparable
	case 4:
		return math.Copysign(0, -1)
	case 5:
		return mapPool[mod(i, len(mapPool))]
	case 6:
		return &arena[mod(i, 1<<16)]
	case 7:
		return empty{}
	case 8:
		return rec{ID: i, Sub: arenaSlice(i)}
	}
	return []int(nil) // typed nil inside a non-nil interface
}

func showAny(a any) string {
	switch x := a.(type) {
	case nil:
		return "nil"
	case []int:
		return "[]int:" + showSlice(x)
	case map[string]int:
		return showMap(x)
	case *int:
		if x == nil {
			return "*int(nil)"
		}
		return "*int:" + showSlice(unsafe.Slice(x, 1))
	case float64:
		return showF(x)
	case rec:
		return fmt.Sprintf("rec{%d %s}", x.ID, showSlice(x.Sub))
	}
	return fmt.Sprintf("%T(%v)", a, a)
}

// typed units: name -> runner
var typeRunners = map[string]func(TCase) pbt.Outcome{}
var typeNames []string
var typeSpecials = map[string]int{} // number of special values per type

func regType[E any](et *etype[E]) {
	typeRunners[et.name] = func(c TCase) pbt.Outcome { return runTyped(et, c) }
	regHist(et)
	regAlias(et)
	regConc(et)
	typeNames = append(typeNames, et.name)
	typeSpecials[et.name] = len(et.specials)
	sort.Strings(typeNames)
}

func init() {
	negZero := math.Copysign(0, -1)
	regType(&etype[int]{name: "int", at: func(i int) int { return i }, same: func(a, b int) bool { return a == b },
		show: strconv.Itoa, specials: []int{0, 77, math.MinInt, math.MaxInt, -1}})
	regType(&etype[uint8]{name: "uint8", at: func(i int) uint8 { return uint8(mod(i, 251)) }, same: func(a, b uint8) bool { return a == b },
		show: func(v uint8) string { return strconv.Itoa(int(v)) }, specials: []uint8{0, 77, 255}})
	regType(&etype[float64]{name: "float64", at: floatAt, same: sameF, show: showF,
		specials: []float64{0, negZero, math.NaN(), 1.5, math.Inf(-1), math.SmallestNonzeroFloat64}})
	regType(&etype[fpair]{name: "struct{float32;complex128}",
		at: func(i int) fpair {
			return fpair{F: float32(floatAt(i + 1)), C: complex(floatAt(i), floatAt(i+2))}
		},
		same: func(a, b fpair) bool {
			return sameF(float64(a.F), float64(b.F)) && sameF(real(a.C), real(b.C)) && sameF(imag(a.C), imag(b.C))
		},
		show: func(v fpair) string {
			return "{" + showF(float64(v.F)) + " (" + showF(real(v.C)) + "," + showF(imag(v.C)) + "i)}"
		},
		specials: []fpair{{}, {F: float32(negZero)}, {C: complex(0, negZero)}, {C: complex(negZero, 0)}, {F: 1, C: complex(2, 3)}}})
	regType(&etype[string]{name: "string",
		at: func(i int) string {
			if mod(i, 6) == 2 {
				return ""
			}
			return "s" + strconv.Itoa(i)
		},
		same: func(a, b string) bool { return a == b }, show: strconv.Quote, specials: []string{"", "x", "a longer string value"}})
	regType(&etype[[]int]{name: "[]int", at: arenaSlice, same: func(a, b []int) bool { return sameSlice(a, b) && (a == nil) == (b == nil) },
		show: showSlice, specials: [][]int{nil, arena[5:5:6], arena[9:12:12], {}}})
	regType(&etype[map[string]int]{name: "map[string]int", at: func(i int) map[string]int { return mapPool[mod(i, len(mapPool))] },
		same: sameMap, show: showMap, specials: []map[string]int{nil, mapPool[11], mapPool[3]}})
	regType(&etype[func() int]{name: "func()int",
		at: func(i int) func() int {
			if mod(i, 5) == 1 {
				return nil
			}
			return func() int { return i }
		},
		same: func(a, b func() int) bool { return (a == nil) == (b == nil) && (a == nil || a() == b()) },
		show: func(f func() int) string {
			if f == nil {
				return "func(nil)"
			}
			return "func->" + strconv.Itoa(f())
		},
		specials: []func() int{nil, func() int { return 0 }, func() int { return 77 }}})
	regType(&etype[rec]{name: "struct{int;[]int}", at: func(i int) rec { return rec{ID: i, Sub: arenaSlice(i)} },
		same: func(a, b rec) bool {
			return a.ID == b.ID && sameSlice(a.Sub, b.Sub) && (a.Sub == nil) == (b.Sub == nil)
		},
		show:     func(r rec) string { return fmt.Sprintf("{%d %s}", r.ID, showSlice(r.Sub)) },
		specials: []rec{{}, {Sub: arena[5:5:6]}, {ID: 7, Sub: arena[9:12:12]}}})
	regType(&etype[[2][]int]{name: "[2][]int", at: func(i int) [2][]int { return [2][]int{arenaSlice(i), arenaSlice(i + 2)} },
		same:     func(a, b [2][]int) bool { return sameSlice(a[0], b[0]) && sameSlice(a[1], b[1]) },
		show:     func(a [2][]int) string { return "[" + showSlice(a[0]) + " " + showSlice(a[1]) + "]" },
		specials: [][2][]int{{}, {nil, arena[5:5:6]}, {arena[9:12:12], nil}}})
	regType(&etype[any]{name: "any", at: anyAt, same: sameAny, show: showAny,
		specials: []any{nil, []int(nil), arena[9:12:12], negZero, 0, "", mapPool[3], rec{}, empty{}}})
	regType(&etype[*int]{name: "*int",
		at: func(i int) *int {
			if mod(i, 5) == 1 {
				return nil
			}
			return &arena[mod(i, 1<<16)]
		},
		same: func(a, b *int) bool { return a == b },
		show: func(p *int) string {
			if p == nil {
				return "nil"
			}
			return "&" + showSlice(unsafe.Slice(p, 1))
		},
		specials: []*int{nil, &arena[0], &arena[77]}})
	regType(&etype[empty]{name: "struct{}", at: func(int) empty { return empty{} }, same: func(a, b empty) bool { return true },
		show: func(empty) string { return "{}" }, specials: []empty{{}}})
	regType(&etype[[0]int]{name: "[0]int", at: func(int) [0]int { return [0]int{} }, same: func(a, b [0]int) bool { return true },
		show: func([0]int) string { return "[]" }, specials: [][0]int{{}}})
	regType(&etype[bigElem]{name: "struct(520B)",
		at: func(i int) bigElem {
			b := bigElem{ID: i}
			if mod(i, 4) != 1 {
				b.S = "s" + strconv.Itoa(i)
			}
			b.Pad[0], b.Pad[31], b.Pad[62] = int64(i), int64(-i), int64(i)*3
			return b
		},
		same: func(a, b bigElem) bool { return a == b },
		show: func(b bigElem) string {
			return fmt.Sprintf("{%d pad:%d,%d,%d %q}", b.ID, b.Pad[0], b.Pad[31], b.Pad[62], b.S)
		},
		specials: []bigElem{{}, {Pad: [63]int64{62: 1}}, {ID: 5, S: "x"}}})
	regType(&etype[[16]uint64]{name: "[16]uint64(128B)",
		at:       func(i int) [16]uint64 { return [16]uint64{0: uint64(i), 7: uint64(i) * 3, 15: ^uint64(i)} },
		same:     func(a, b [16]uint64) bool { return a == b },
		show:     func(a [16]uint64) string { return fmt.Sprintf("[%d ..%d.. %d]", a[0], a[7], a[15]) },
		specials: [][16]uint64{{}, {15: 1}, {0: 1, 8: 2}}})
	regType(&etype[odd]{name: "struct-with-methods",
		at:   func(i int) odd { return odd{ID: i, Tag: "t" + strconv.Itoa(mod(i, 3))} },
		same: func(a, b odd) bool { return a == b }, show: func(o odd) string { return fmt.Sprintf("{%d %s}", o.ID, o.Tag) },
		specials: []odd{{}, {ID: 1}, {Tag: "x"}}})
}

// diffT describes the first difference between got and want ("" if none).
func diffT[E any](et *etype[E], got, want []E) string {
	win := func(s []E, i int) string {
		lo, hi := max(i-3, 0), min(i+4, len(s))
		m := fmt.Sprintf("[%d:%d]=[", lo, hi)
		for j := lo; j < hi; j++ {
			if j > lo {
				m += " "
			}
			m += et.show(s[j])
		}
		return m + "]"
	}
	for i := 0; i < len(got) && i < len(want); i++ {
		if !et.same(got[i], want[i]) {
			return fmt.Sprintf("got length %d, want length %d; first difference at index %d: got%s want%s", len(got), len(want), i, win(got, i), win(want, i))
		}
	}
	if len(got) != len(want) {
		return fmt.Sprintf("got length %d, want length %d (common prefix equal)", len(got), len(want))
	}
	return ""
}

func runTyped[E any](et *etype[E], c TCase) (out pbt.Outcome) {
	out = pbt.Outcome{Evals: 1}
	n, spare := c.Len, c.Spare
	if n < 0 || spare < 0 || c.K < 0 || c.LenB < 0 || c.SpareB < 0 || c.V < 0 {
		out.Skipped = true
		return out
	}
	var zero E
	lab := func(l ...string) {
		for _, x := range l {
			out.Labels = append(out.Labels, "type="+et.name+":"+x)
		}
	}
	mk := func(n, spare, base int) (back, s sl[E]) {
		if c.Nil && n+spare == 0 {
			return nil, nil
		}
		back = make(sl[E], n+spare)
		for i := range back {
			if i < n {
				back[i] = et.at(base + i)
			} else {
				back[i] = et.at(poison(i))
			}
		}
		return back, back[:n:len(back)]
	}
	vi := mod(c.V, len(et.specials))
	v := et.specials[vi]
	vname := et.show(v)
	switch {
	case vi == 0:
		lab("value=zero")
	case isEqZero(v):
		lab("value==zero-but-not-the-zero-value")
	default:
		lab("value=other")
	}
	head := fmt.Sprintf("[%s] ", et.name)
	desc := fmt.Sprintf("(len %d cap %d, elements at(1..), spare capacity poisoned)", n, n+spare)
	switch c.Op {
	case "Insert":
		idx := mod(c.Index, n+1)
		_, s := mk(n, spare, 1)
		orig := append([]E(nil), s...)
		want := append(append(append([]E{}, orig[:idx]...), v), orig[idx:]...)
		if p := try(func() { slices.Insert(&s, idx, v) }); p != nil {
			return pbt.Fail("%sInsert(%s, index=%d, value=%s) panicked: %v", head, desc, idx, vname, p)
		}
		if d := diffT(et, s, want); d != "" {
			return pbt.Fail("%sInsert(%s, index=%d, value=%s): %s", head, desc, idx, vname, d)
		}
		out.NonTrivial = spare > 0 && idx > 0 && idx < n

	case "InsertSlice":
		idx := mod(c.Index, n+1)
		_, s := mk(n, spare, 1)
		orig := append([]E(nil), s...)
		_, vals := mk(c.K, c.SpareB, 500)
		if c.K > 0 {
			vals[c.K/2] = v // one special value inside the batch
		}
		vorig := append([]E(nil), vals...)
		want := append(append(append([]E{}, orig[:idx]...), vorig...), orig[idx:]...)
		if p := try(func() { slices.InsertSlice(&s, idx, vals) }); p != nil {
			return pbt.Fail("%sInsertSlice(%s, index=%d, %d values at(500..) with values[%d]=%s) panicked: %v", head, desc, idx, c.K, c.K/2, vname, p)
		}
		if d := diffT(et, s, want); d != "" {
			return pbt.Fail("%sInsertSlice(%s, index=%d, %d values at(500..) with values[%d]=%s): %s", head, desc, idx, c.K, c.K/2, vname, d)
		}
		out.NonTrivial = spare > 0 && idx > 0 && idx < n && c.K >= 1
		if c.K > spare {
			lab("InsertSlice-realloc")
		}

	case "Remove":
		if n == 0 {
			out.Skipped = true
			return out
		}
		idx := mod(c.Index, n)
		_, s := mk(n, spare, 1)
		orig := append([]E(nil), s...)
		want := append(append([]E{}, orig[:idx]...), orig[idx+1:]...)
		if p := try(func() { slices.Remove(&s, idx) }); p != nil {
			return pbt.Fail("%sRemove(%s, index=%d) panicked: %v", head, desc, idx, p)
		}
		if d := diffT(et, s, want); d != "" {
			return pbt.Fail("%sRemove(%s, index=%d): %s", head, desc, idx, d)
		}
		out.NonTrivial = spare > 0 && idx > 0 && idx < n-1

	case "RemoveSlice":
		idx := mod(c.Index, n+1)
		length := mod(c.K, n-idx+1)
		_, s := mk(n, spare, 1)
		orig := append([]E(nil), s...)
		want := append(append([]E{}, orig[:idx]...), orig[idx+length:]...)
		if p := try(func() { slices.RemoveSlice(&s, idx, length) }); p != nil {
			return pbt.Fail("%sRemoveSlice(%s, index=%d, length=%d) panicked: %v", head, desc, idx, length, p)
		}
		if d := diffT(et, s, want); d != "" {
			return pbt.Fail("%sRemoveSlice(%s, index=%d, length=%d): %s", head, desc, idx, length, d)
		}
		out.NonTrivial = spare > 0 && idx > 0 && length >= 1 && idx+length < n

	case "Fill":
		_, s := mk(n, spare, 1)
		if p := try(func() { slices.Fill(s, v) }); p != nil {
			return pbt.Fail("%sFill(%s, value=%s) panicked: %v", head, desc, vname, p)
		}
		if len(s) != n {
			return pbt.Fail("%sFill(%s, value=%s): length changed to %d", head, desc, vname, len(s))
		}
		for i := range s {
			if !et.same(s[i], v) {
				return pbt.Fail("%sFill(%s, value=%s): element %d is %s", head, desc, vname, i, et.show(s[i]))
			}
		}
		out.NonTrivial = n >= 3

	case "Repeat":
		var r []E
		if p := try(func() { r = slices.Repeat(v, c.K) }); p != nil {
			return pbt.Fail("%sRepeat(value=%s, count=%d) panicked: %v", head, vname, c.K, p)
		}
		if len(r) != c.K {
			return pbt.Fail("%sRepeat(value=%s, count=%d): length %d", head, vname, c.K, len(r))
		}
		for i := range r {
			if !et.same(r[i], v) {
				return pbt.Fail("%sRepeat(value=%s, count=%d): element %d is %s", head, vname, c.K, i, et.show(r[i]))
			}
		}
		out.NonTrivial = c.K >= 3

	case "Reverse":
		_, s := mk(n, spare, 1)
		want := make([]E, n)
		for i := range s {
			want[n-1-i] = s[i]
		}
		if p := try(func() { slices.Reverse(s) }); p != nil {
			return pbt.Fail("%sReverse(%s) panicked: %v", head, desc, p)
		}
		if d := diffT(et, s, want); d != "" {
			return pbt.Fail("%sReverse(%s): %s", head, desc, d)
		}
		out.NonTrivial = n >= 3

	case "Concat":
		backA, a := mk(n, spare, 1)
		backB, b := mk(c.LenB, c.SpareB, 201)
		want := append(append([]E{}, a...), b...)
		var r sl[E]
		name := fmt.Sprintf("%sConcat(a: len %d cap %d at(1..), b: len %d cap %d at(201..))", head, n, n+spare, c.LenB, c.LenB+c.SpareB)
		if p := try(func() { r = slices.Concat(a, b) }); p != nil {
			return pbt.Fail("%s panicked: %v", name, p)
		}
		if d := diffT(et, r, want); d != "" {
			return pbt.Fail("%s: %s", name, d)
		}
		if m := disjointT(et, name, r, backA, backB); m != "" {
			return pbt.Fail("%s", m)
		}
		out.NonTrivial = n >= 1 && c.LenB >= 1 && spare >= c.LenB

	case "Clone":
		back, s := mk(n, spare, 1)
		want := append([]E{}, s...)
		var r sl[E]
		name := fmt.Sprintf("%sClone%s", head, desc)
		if p := try(func() { r = slices.Clone(s) }); p != nil {
			return pbt.Fail("%s panicked: %v", name, p)
		}
		if d := diffT(et, r, want); d != "" {
			return pbt.Fail("%s: %s", name, d)
		}
		if m := disjointT(et, name, r, back); m != "" {
			return pbt.Fail("%s", m)
		}
		out.NonTrivial = n >= 1 && spare >= 1

	case "Grow":
		_, s := mk(n, spare, 1)
		orig := append([]E(nil), s...)
		want := append(append([]E{}, orig...), make([]E, c.K)...)
		var r sl[E]
		if p := try(func() { r = slices.Grow(s, c.K) }); p != nil {
			return pbt.Fail("%sGrow(%s, n=%d) panicked: %v", head, desc, c.K, p)
		}
		if d := diffT(et, r, want); d != "" {
			return pbt.Fail("%sGrow(%s, n=%d) (want the %d elements followed by %d x the zero value %s): %s", head, desc, c.K, n, c.K, et.show(zero), d)
		}
		out.NonTrivial = c.K >= 1 && spare >= 1

	default:
		out.Skipped = true
		return out
	}
	lab("op=" + c.Op)
	if c.Nil {
		lab("nil-args")
	}
	out.Labels = append(out.Labels, "types:op="+c.Op, "types:"+bigLabel(n+c.K+c.LenB))
	return out
}

// isEqZero: v == zero value under Go's == although v is not bit-identical to it (only for comparable dynamic types).
func isEqZero[E any](v E) bool {
	var zero E
	t := reflect.TypeOf(&v).Elem()
	if !t.Comparable() || t.Kind() == reflect.Interface {
		return false
	}
	return any(v) == any(zero)
}

// disjointT: writing the whole result (up to its capacity) changes nothing reachable from the inputs and vice versa.
func disjointT[E any](et *etype[E], name string, r sl[E], backs ...sl[E]) string {
	snaps := make([][]E, len(backs))
	for i, b := range backs {
		snaps[i] = append([]E(nil), b...)
	}
	rf := r[:cap(r)]
	for i := range rf {
		rf[i] = et.at(900000 + i)
	}
	for k, b := range backs {
		for i := range b {
			if !et.same(b[i], snaps[k][i]) {
				return fmt.Sprintf("%s: result shares memory with input %d: writing the result (up to its capacity %d) changed slot %d of the input's backing array from %s to %s",
					name, k, cap(r), i, et.show(snaps[k][i]), et.show(b[i]))
			}
		}
	}
	for k, b := range backs {
		for i := range b {
			b[i] = et.at(700000 + 1000*k + i)
		}
	}
	for i := range rf {
		if !et.same(rf[i], et.at(900000+i)) {
			return fmt.Sprintf("%s: result shares memory with an input: writing the inputs changed result[%d] to %s", name, i, et.show(rf[i]))
		}
	}
	return ""
}

func RunTyped(c TCase) pbt.Outcome {
	f, ok := typeRunners[c.Type]
	if !ok {
		return pbt.Outcome{Skipped: true, Evals: 1}
	}
	return f(c)
}

// enumerateTypes: for every element type and every special value: Repeat and Fill at every count 0..24 and at
// 33, 64, 65, 257; Insert / InsertSlice / Grow / Clone / Concat / Remove / RemoveSlice / Reverse on the small grid.
func enumerateTypes(shard, shards int, tier string, yield0 func(TCase) bool) {
	seq := 0
	yield := func(c TCase) bool {
		seq++
		return seq%shards != shard || yield0(c)
	}
	maxLen, maxSpare, maxK := 4, 2, 3
	if tier == "thorough" {
		maxLen, maxSpare, maxK = 7, 3, 5
	}
	counts := []int{33, 64, 65, 257}
	for i := 0; i <= 24; i++ {
		counts = append(counts, i)
	}
	sort.Ints(counts)
	for _, tn := range typeNames {
		for v := 0; v < typeSpecials[tn]; v++ {
			for _, k := range counts {
				if !yield(TCase{Type: tn, V: v, Case: Case{Op: "Repeat", K: k}}) ||
					!yield(TCase{Type: tn, V: v, Case: Case{Op: "Fill", Len: k, Spare: k % 2}}) {
					return
				}
			}
			for n := 0; n <= maxLen; n++ {
				for sp := 0; sp <= maxSpare; sp++ {
					for idx := 0; idx <= n; idx++ {
						if !yield(TCase{Type: tn, V: v, Case: Case{Op: "Insert", Len: n, Spare: sp, Index: idx}}) {
							return
						}
						for k := 0; k <= maxK; k++ {
							if !yield(TCase{Type: tn, V: v, Case: Case{Op: "InsertSlice", Len: n, Spare: sp, Index: idx, K: k, SpareB: (k + idx) % 2, Nil: v%2 == 1}}) {
								return
							}
						}
					}
				}
			}
		}
		for n := 0; n <= maxLen+2; n++ {
			for sp := 0; sp <= maxSpare; sp++ {
				for idx := 0; idx <= n; idx++ {
					if idx < n && !yield(TCase{Type: tn, Case: Case{Op: "Remove", Len: n, Spare: sp, Index: idx}}) {
						return
					}
					for l := 0; idx+l <= n; l++ {
						if !yield(TCase{Type: tn, Case: Case{Op: "RemoveSlice", Len: n, Spare: sp, Index: idx, K: l}}) {
							return
						}
					}
				}
				for _, nilArgs := range []bool{false, true} {
					if !yield(TCase{Type: tn, Case: Case{Op: "Reverse", Len: n, Spare: sp, Nil: nilArgs}}) ||
						!yield(TCase{Type: tn, Case: Case{Op: "Clone", Len: n, Spare: sp, Nil: nilArgs}}) {
						return
					}
					for k := 0; k <= maxK+1; k++ {
						if !yield(TCase{Type: tn, Case: Case{Op: "Grow", Len: n, Spare: sp, K: k, Nil: nilArgs}}) ||
							!yield(TCase{Type: tn, Case: Case{Op: "Concat", Len: n, Spare: sp, LenB: k, SpareB: (n + k) % 2, Nil: nilArgs}}) {
							return
						}
					}
				}
			}
		}
	}
}

var specTypes = pbt.Register(&pbt.Spec[TCase]{
	Property: "C12", Name: "C12.types",
	Rule: "the ten helpers on a named slice type over 18 ELEMENT TYPES: int, uint8 (1 byte), float64, struct{float32;complex128}, string, " +
		"[]int, map[string]int, func()int, struct{int;[]int}, [2][]int, any (holding nil, ints, strings, -0.0, slices, maps, pointers, " +
		"non-comparable structs, typed nil), *int, struct{} and [0]int (zero size), a 520-byte struct, a 128-byte array [16]uint64, a comparable struct with Equal/IsZero/" +
		"String/Len/Error/Compare methods. Elements are at(i) of the type (distinct for neighbouring i; floats include -0.0, +0.0 and NaN, " +
		"reference types include nil and empty-but-not-nil); the value for Insert/Fill/Repeat (and one element of an InsertSlice batch) is one of the " +
		"type's special values: the zero value, values that are == to zero or empty without being the zero value (-0.0, complex(0,-0.0), empty " +
		"non-nil slice/map, typed nil in an interface), ordinary values, extreme ints. 'Same value' = same representation (bit pattern of floats, " +
		"any NaN = NaN; data pointer+len+cap+nil-ness of slices; identity of maps/pointers; nil-ness and result of funcs), never ==. Oracle as " +
		"in the other units (splice model built with fresh appends, poisoned spare capacity, Grow appends the zero value, Concat/Clone share no memory). " +
		"Enumerated part: every type x every special value x (Repeat, Fill at every count 0..24, 33, 64, 65, 257; Insert, InsertSlice on len <= 4, " +
		"spare <= 2, every index, batch 0..3), every type x (Remove, RemoveSlice, Reverse, Clone, Grow, Concat on len <= 6, spare <= 2, nil and non-nil " +
		"empty arguments); random part: type uniform, then the shape generator of C12.rand (including its BIG mode up to 5000 elements, capped to 1500 for " +
		"the 520-byte type) and a uniform special value. non-trivial: as in C12.rand",
	Enum: enumerateTypes,
	Gen: func(t *rapid.T) TCase {
		c := TCase{Type: rapid.SampledFrom(typeNames).Draw(t, "type")}
		c.Case = drawCase(t)
		c.V = rapid.IntRange(0, 8).Draw(t, "v")
		if c.Type == "struct(520B)" {
			c.Len, c.Spare, c.K, c.LenB = min(c.Len, 1500), min(c.Spare, 1500), min(c.K, 1500), min(c.LenB, 1500)
			c.Index = min(c.Index, c.Len)
			if c.Op == "RemoveSlice" {
				c.K = min(c.K, c.Len-c.Index)
			}
			if c.Op == "Remove" {
				c.Index = min(c.Index, c.Len-1)
			}
		}
		return c
	},
	Run: RunTyped, Quick: 60000, Thorough: 150000,
	Replicas: 4, ReplicaEvery: 8,
})

func TestC12Types(t *testing.T) { pbt.Check(t, specTypes) }
