//go:build !386

package c20

import (
	"fmt"
	"runtime"
	"strconv"
	"strings"
	"unsafe"

	typ "gopkg.in/typ.v4"
	"pgregory.net/rapid"
	"verifharness/internal/pbt"
)

// Seq is a history: a list of helper calls executed one after the other in one
// goroutine. Every call is judged on its own by the oracle of its unit
// (C20.wide, C20.util, C20.special); in addition results that are references
// (pointers from Ref, strings from Min/Max/Clamp/Coal/Tern/TernCast/DerefZero)
// are kept and looked at again after later calls and garbage collections, and
// some calls are aborted by a panic or runtime.Goexit of the user's IsZero
// method (or by an impossible cast / an empty Min) and recovered before the
// history goes on. The helpers are documented as pure functions: whatever
// happened before must not influence a call.
type Seq struct {
	Steps []SeqStep `json:"steps"`
}

type SeqStep struct {
	Kind    string   `json:"kind"` // wide | util | special | ref | keep | abort | gc | cbgc | check
	Wide    *Wide    `json:"wide,omitempty"`
	Util    *Util    `json:"util,omitempty"`
	Special *Special `json:"special,omitempty"`
	Fn      string   `json:"fn,omitempty"`  // ref: element type; keep: helper; abort: how
	A       int64    `json:"a,omitempty"`   // ref, keep: base of the value formula
	Len     int      `json:"len,omitempty"` // keep: length of the strings
	Rep     int      `json:"rep,omitempty"` // ref: number of consecutive Ref calls
}

const (
	maxSeqSteps = 200
	maxSeqRefs  = 300000
	maxKeepLen  = 1 << 17
)

// seqStr is the value formula of the kept strings: a fresh allocation every time, content determined by (a, n).
func seqStr(a int64, n int) string {
	if n <= 0 {
		return ""
	}
	unit := strconv.FormatInt(a, 10) + "|"
	return strings.Repeat(unit, n/len(unit)+1)[:n]
}

// boom's IsZero method panics, exiter's ends the goroutine: calls of typ.IsZero that never return normally.
type boom struct{ N int64 }

func (b boom) IsZero() bool { panic(fmt.Sprintf("boom %d", b.N)) }

type exiter struct{ N int64 }

func (exiter) IsZero() bool { runtime.Goexit(); return false }

type refID struct {
	name   string
	j, rep int
}

// gcProbe's IsZero method runs a garbage collection and allocates before it looks at its receiver, whose array is
// referenced by nothing but the argument of the typ.IsZero call that is in progress.
type gcProbe struct {
	P *[4]int64
	A int64
}

func (g gcProbe) IsZero() bool {
	runtime.GC()
	junk := make([]*[4]int64, 16)
	for i := range junk {
		junk[i] = &[4]int64{-1, -1, -1, -1}
	}
	runtime.KeepAlive(junk)
	if g.P[1] != g.A || g.P[2] != g.A+1 || g.P[3] != ^g.A {
		panic(fmt.Sprintf("gcProbe: the receiver's array changed during the call: %v, built from %d", *g.P, g.A))
	}
	return g.P[0] == 0
}

type seqState struct {
	checks []func() string          // re-examination of kept results
	seen   map[unsafe.Pointer]refID // every pointer Ref ever returned in this history
	refs   int
}

// refStep performs rep calls of Ref at element type T (value j = mk(a+j)) and keeps every pointer.
func refStep[T any](st *seqState, name string, a int64, rep int, zeroSize bool, mk func(int64) T, same func(x, y T) bool) string {
	ps := make([]*T, rep)
	for j := range ps {
		ps[j] = typ.Ref(mk(a + int64(j)))
	}
	check := func(when string) string {
		for j, p := range ps {
			if p == nil {
				return fmt.Sprintf("typ.Ref[%s] returned nil (call #%d of %d)", name, j, rep)
			}
			if !same(*p, mk(a+int64(j))) {
				return fmt.Sprintf("%s: the pointer returned by call #%d of %d consecutive typ.Ref[%s] calls (argument built from %d) points to %v, want %v", when, j, rep, name, a+int64(j), *p, mk(a+int64(j)))
			}
		}
		return ""
	}
	if msg := check("right after the calls"); msg != "" {
		return msg
	}
	if !zeroSize {
		for j, p := range ps {
			k := unsafe.Pointer(p)
			if prev, dup := st.seen[k]; dup {
				return fmt.Sprintf("typ.Ref[%s] (call #%d of %d) returned a pointer that an earlier Ref call of this history (Ref[%s] call #%d of %d) had returned: two results share one variable", name, j, rep, prev.name, prev.j, prev.rep)
			}
			st.seen[k] = refID{name, j, rep}
		}
	}
	st.checks = append(st.checks, func() string { return check("after later calls") })
	st.refs += rep
	return ""
}

var seqRefTypes = []string{"int64", "string", "pair", "arr128", "any", "*int64", "struct{}"}

func (st *seqState) ref(s SeqStep) string {
	switch s.Fn {
	case "int64":
		return refStep(st, "int64", s.A, s.Rep, false, func(i int64) int64 { return i }, eqOf[int64])
	case "string":
		return refStep(st, "string", s.A, s.Rep, false, func(i int64) string { return seqStr(i, 12) }, eqOf[string])
	case "pair":
		return refStep(st, "pair", s.A, s.Rep, false, func(i int64) pair { return pair{i, seqStr(i, 3)} }, eqOf[pair])
	case "arr128":
		return refStep(st, "[16]int64", s.A, s.Rep, false, func(i int64) arr128 { return arr128{0: i, 15: -i} }, eqOf[arr128])
	case "any":
		return refStep(st, "any", s.A, s.Rep, false, func(i int64) any {
			if i%3 == 0 {
				return nil
			}
			return i
		}, eqOf[any])
	case "*int64":
		cells := make([]int64, 4)
		return refStep(st, "*int64", s.A, s.Rep, false, func(i int64) *int64 {
			if i%5 == 0 {
				return nil
			}
			return &cells[mod(i, 4)]
		}, eqOf[*int64])
	case "struct{}":
		return refStep(st, "struct{}", s.A, s.Rep, true, func(int64) struct{} { return struct{}{} }, eqOf[struct{}])
	}
	return "?"
}

var seqKeepFns = []string{"Min", "Max", "Clamp", "Coal", "Tern", "TernCast", "DerefZero", "Ref", "Compare"}

// keep calls a helper on strings that only the call expression references and keeps the result together with
// the formula of the expected value (not a copy of it).
func (st *seqState) keep(s SeqStep) string {
	a, n := s.A, s.Len
	v := func(i int64) string { return seqStr(a+i, n) }
	var got string
	var wantIdx int64
	call := ""
	switch s.Fn {
	case "Min", "Max":
		wantIdx = 0
		for i := int64(1); i < 3; i++ {
			if (s.Fn == "Min") == (v(i) < v(wantIdx)) && v(i) != v(wantIdx) {
				wantIdx = i
			}
		}
		if s.Fn == "Min" {
			got = typ.Min(v(0), v(1), v(2))
		} else {
			got = typ.Max(v(0), v(1), v(2))
		}
		call = fmt.Sprintf("typ.%s(s(%d), s(%d), s(%d))", s.Fn, a, a+1, a+2)
	case "Clamp":
		lo, hi := int64(1), int64(2)
		if v(lo) > v(hi) {
			lo, hi = hi, lo
		}
		switch {
		case v(0) < v(lo):
			wantIdx = lo
		case v(0) > v(hi):
			wantIdx = hi
		}
		got = typ.Clamp(v(0), v(lo), v(hi))
		call = fmt.Sprintf("typ.Clamp(s(%d), s(%d), s(%d))", a, a+lo, a+hi)
	case "Coal":
		wantIdx = 1
		got = typ.Coal("", v(1), v(2))
		call = fmt.Sprintf("typ.Coal(\"\", s(%d), s(%d))", a+1, a+2)
		if n == 0 {
			wantIdx = -1
		}
	case "Tern":
		wantIdx = mod(a, 2)
		got = typ.Tern(wantIdx == 0, v(0), v(1))
		call = fmt.Sprintf("typ.Tern(%v, s(%d), s(%d))", wantIdx == 0, a, a+1)
	case "TernCast":
		wantIdx = mod(a, 2)
		got = typ.TernCast(wantIdx == 0, any(v(0)), v(1))
		call = fmt.Sprintf("typ.TernCast(%v, any(s(%d)), s(%d))", wantIdx == 0, a, a+1)
	case "DerefZero":
		x := v(0)
		got = typ.DerefZero(&x)
		call = fmt.Sprintf("typ.DerefZero(&s(%d))", a)
	case "Ref":
		got = *typ.Ref(v(0))
		call = fmt.Sprintf("*typ.Ref(s(%d))", a)
	case "Compare": // no reference result; the arguments are built inside the call expression
		x, y := typ.Compare(v(0), v(1)), typ.Less(v(0), v(1))
		if x != strings.Compare(v(0), v(1)) || y != (v(0) < v(1)) {
			return fmt.Sprintf("typ.Compare(s(%d), s(%d)) = %d, typ.Less = %v; want %d, %v (s(i) = %d bytes of the decimal digits of i and \"|\" repeated)", a, a+1, x, y, strings.Compare(v(0), v(1)), v(0) < v(1), n)
		}
		return ""
	default:
		return "?"
	}
	want := func() string {
		if wantIdx < 0 {
			return ""
		}
		return v(wantIdx)
	}
	describe := func(when string) string {
		return fmt.Sprintf("%s: result of %s = %s, want %s (s(i) = %d bytes of the decimal digits of i and \"|\" repeated)", when, call, abbrevQ(got), abbrevQ(want()), n)
	}
	if got != want() {
		return describe("right after the call")
	}
	st.checks = append(st.checks, func() string {
		if got != want() {
			return describe("after later calls")
		}
		return ""
	})
	return ""
}

var seqAborts = []string{"IsZero-panic", "IsZero-goexit", "IsZero-any-panic", "TernCast-impossible", "Min-no-args", "Max-no-args"}

// abort performs a call that does not return normally; whatever it does (panic, Goexit, even a normal return) is
// swallowed: only the calls after it are judged.
func abort(how string, a int64) (label string) {
	label = "abort:" + how + ":returned"
	run := func(f func()) {
		done := make(chan struct{})
		go func() {
			defer close(done)
			defer func() {
				if recover() != nil {
					label = "abort:" + how + ":panicked"
				}
			}()
			f()
		}()
		<-done
	}
	switch how {
	case "IsZero-panic":
		func() {
			defer func() {
				if recover() != nil {
					label = "abort:" + how + ":panicked"
				}
			}()
			typ.IsZero(boom{a | 1})
		}()
	case "IsZero-any-panic":
		func() {
			defer func() {
				if recover() != nil {
					label = "abort:" + how + ":panicked"
				}
			}()
			typ.IsZero[any](boom{a})
		}()
	case "IsZero-goexit":
		finished := false
		run(func() { typ.IsZero(exiter{a | 1}); finished = true })
		if !finished && !strings.HasSuffix(label, "panicked") {
			label = "abort:" + how + ":goroutine-ended"
		}
	case "TernCast-impossible":
		run(func() { typ.TernCast[int64](true, "not a number", a) })
	case "Min-no-args":
		run(func() { typ.Min[int64]() })
	case "Max-no-args":
		run(func() { typ.Max[string]() })
	default:
		return ""
	}
	return label
}

func RunSeq(c Seq) pbt.Outcome {
	if len(c.Steps) > maxSeqSteps {
		return malformed()
	}
	st := &seqState{seen: map[unsafe.Pointer]refID{}}
	out := pbt.Outcome{}
	labels := map[string]bool{}
	judged, kept, aborted, gcs := 0, 0, false, 0
	afterAbort, afterGC := false, false
	checkAll := func(i int) string {
		for _, f := range st.checks {
			if msg := f(); msg != "" {
				return msg
			}
		}
		return ""
	}
	fail := func(i int, kind, msg string) pbt.Outcome {
		return pbt.Fail("step #%d (%s) of a history of %d calls in one goroutine: %s", i, kind, len(c.Steps), msg)
	}
	for i, s := range c.Steps {
		var sub pbt.Outcome
		switch s.Kind {
		case "wide":
			if s.Wide == nil || len(s.Wide.Bits) > 64 || len(s.Wide.Strs) > 64 {
				return malformed()
			}
			sub = RunWide(*s.Wide)
		case "util":
			if s.Util == nil {
				return malformed()
			}
			sub = RunUtil(*s.Util)
		case "special":
			if s.Special == nil || s.Special.Lead > 600 {
				return malformed()
			}
			sub = RunSpecial(*s.Special)
		case "ref":
			known := false
			for _, t := range seqRefTypes {
				known = known || t == s.Fn
			}
			if !known || s.Rep < 1 || st.refs+s.Rep > maxSeqRefs {
				return malformed()
			}
			if msg := st.ref(s); msg != "" {
				return fail(i, "ref", msg)
			}
			kept++
			labels["ref:"+s.Fn] = true
			labels["ref:calls="+argsClass(s.Rep)] = true
			if s.Rep > 1<<16 {
				labels["ref:calls>2^16"] = true
			}
			continue
		case "keep":
			known := false
			for _, f := range seqKeepFns {
				known = known || f == s.Fn
			}
			if !known || s.Len < 0 || s.Len > maxKeepLen {
				return malformed()
			}
			if msg := st.keep(s); msg != "" {
				return fail(i, "keep", msg)
			}
			kept++
			labels["keep:"+s.Fn] = true
			labels["keep:strlen="+strLenClass(s.Len)] = true
			continue
		case "abort":
			l := abort(s.Fn, s.A)
			if l == "" {
				return malformed()
			}
			labels[l] = true
			aborted, afterAbort = true, true
			continue
		case "cbgc":
			// the argument is built inside the call expression; A even: the method answers true (the value itself is never Go's zero value)
			want := s.A%2 == 0
			if got := typ.IsZero(gcProbe{P: &[4]int64{s.A % 2, s.A, s.A + 1, ^s.A}, A: s.A}); got != want {
				return fail(i, "cbgc", fmt.Sprintf("typ.IsZero(gcProbe built from %d) = %v, want %v (its IsZero method, which collects garbage before looking at the receiver, answers %v)", s.A, got, want, want))
			}
			var ga any = gcProbe{P: &[4]int64{s.A % 2, s.A, s.A + 1, ^s.A}, A: s.A}
			if got := typ.IsZero(ga); got != want {
				return fail(i, "cbgc", fmt.Sprintf("typ.IsZero[any](gcProbe built from %d) = %v, want %v", s.A, got, want))
			}
			judged++
			gcs++
			afterGC = true
			labels["callback-collects-garbage-during-the-call"] = true
			continue
		case "gc":
			runtime.GC()
			gcs++
			afterGC = true
			junk := make([][]byte, 8) // a few allocations of the sizes used by the kept values: freed memory gets reused
			for j := range junk {
				junk[j] = make([]byte, 8<<uint(j%5))
				junk[j][0] = byte(j)
			}
			runtime.KeepAlive(junk)
			continue
		case "check":
			if msg := checkAll(i); msg != "" {
				return fail(i, "check", msg)
			}
			if afterGC && kept > 0 {
				labels["kept-results-examined-after-gc"] = true
			}
			continue
		default:
			return malformed()
		}
		if sub.Violation != "" {
			return fail(i, s.Kind, sub.Violation)
		}
		if sub.Skipped {
			labels["step-skipped-by-its-unit"] = true
			continue
		}
		judged++
		if afterAbort {
			labels["call-judged-after-an-aborted-call"] = true
		}
		if afterGC {
			labels["call-judged-after-gc"] = true
		}
		for _, l := range sub.Labels {
			if strings.HasPrefix(l, "fn:") {
				labels["seq:"+l] = true
			}
		}
	}
	if msg := checkAll(len(c.Steps)); msg != "" {
		return fail(len(c.Steps), "final check", msg)
	}
	if kept > 0 {
		labels["kept-results-examined-at-the-end"] = true
		if gcs > 0 {
			labels["kept-results-examined-after-gc"] = true
		}
	}
	// repeated steps: the same call more than once in one history
	seenStep := map[string]bool{}
	for _, s := range c.Steps {
		if s.Kind == "wide" || s.Kind == "util" || s.Kind == "special" {
			k := fmt.Sprintf("%+v|%+v|%+v", s.Wide, s.Util, s.Special)
			if seenStep[k] {
				labels["same-call-repeated-in-the-history"] = true
			}
			seenStep[k] = true
		}
	}
	for l := range labels {
		out.Labels = append(out.Labels, l)
	}
	sortStrings(out.Labels)
	out.Labels = append(out.Labels, "steps="+argsClass(len(c.Steps)))
	out.NonTrivial = judged+kept >= 2 && (kept > 0 || aborted || gcs > 0 || labels["same-call-repeated-in-the-history"])
	out.Evals = max(judged+kept, 1)
	return out
}

func sortStrings(s []string) {
	for i := 1; i < len(s); i++ {
		for j := i; j > 0 && s[j] < s[j-1]; j-- {
			s[j], s[j-1] = s[j-1], s[j]
		}
	}
}

// seqRefReps: numbers of consecutive Ref calls around powers of two up to 2^16 (a ring of 2^k preallocated cells would be reused after 2^k calls).
var seqRefReps = []int{1, 2, 3, 15, 16, 17, 63, 64, 65, 255, 256, 257, 1023, 1024, 1025, 4095, 4096, 4097, 1<<16 - 1, 1 << 16, 1<<16 + 1}

var seqKeepLens = []int{0, 1, 7, 8, 15, 16, 17, 31, 32, 33, 63, 64, 65, 255, 256, 1023, 1024, 1025, 4096, 32768, 65537}

// seqProbe is a fixed list of ordinary calls (one or two per helper) used after aborted calls and collections.
func seqProbes() []SeqStep {
	u := func(fn, t string, ints []int64, strs []string, cond bool) SeqStep {
		return SeqStep{Kind: "util", Util: &Util{Fn: fn, Type: t, Ints: ints, Strs: strs, Cond: cond}}
	}
	w := func(fn, t string, bits ...uint64) SeqStep {
		return SeqStep{Kind: "wide", Wide: &Wide{Fn: fn, Type: t, Bits: bits}}
	}
	return []SeqStep{
		u("IsZero", "stamp", []int64{0, 5, 0}, nil, false),
		u("IsZero", "any", []int64{0, 5, 0}, nil, false),
		u("IsZero", "int", []int64{7}, nil, false),
		u("Coal", "int", []int64{0, 0, 7, 3}, nil, false),
		u("Coal", "iface", []int64{0, -1, 2}, []string{"", "a", ""}, false),
		u("Tern", "string", nil, []string{"a", "b"}, true),
		u("TernCast", "int", []int64{1, 2, 2}, nil, true),
		u("TernCast", "stringer", []int64{1, 2, 0}, nil, false),
		u("Ref", "pair", []int64{3}, []string{"a"}, false),
		u("DerefZero", "ptr", []int64{2}, nil, false),
		u("IsNil", "error", []int64{4}, nil, false),
		u("IsNil", "any", []int64{0}, nil, false),
		u("ZeroOf", "stamp", []int64{1, 2}, nil, false),
		w("Min", "int64", 5, 3, 9),
		w("Max", "string"),
		w("Sum", "float64", 0x3fb999999999999a, 0x4341c37937e08000, 0xc341c37937e08000),
		w("Digits10", "int8", 0x80),
		w("DigitsSign10", "int64", 1<<63),
		w("Abs", "int32", 0xffffffff),
		w("Clamp", "uint8", 200, 3, 100),
		w("Compare", "int64", 1<<63, 0),
	}
}

func enumSeq(shard, shards int, tier string, yield func(Seq) bool) {
	k := 0
	stop := false
	emit := func(steps ...SeqStep) {
		if stop {
			return
		}
		mine := k%shards == shard
		k++
		if mine && !yield(Seq{Steps: steps}) {
			stop = true
		}
	}
	gc, check := SeqStep{Kind: "gc"}, SeqStep{Kind: "check"}
	probes := seqProbes()
	probes[14].Wide.Strs = []string{"b", "a", "ab"}
	// Ref: runs of consecutive calls, all results kept, examined after a collection and after more Ref calls of the same type
	for _, t := range seqRefTypes {
		for _, r := range seqRefReps {
			if r >= 1<<15 && t != "int64" && t != "string" && t != "any" {
				continue // the 2^16 runs: three element types only (time)
			}
			ref := SeqStep{Kind: "ref", Fn: t, A: -2, Rep: r}
			emit(ref, gc, check, SeqStep{Kind: "ref", Fn: t, A: 1000, Rep: 3}, probes[8], check)
		}
	}
	// kept strings: every helper x string length, two calls around a collection
	for _, f := range seqKeepFns {
		for _, n := range seqKeepLens {
			emit(SeqStep{Kind: "keep", Fn: f, A: 7, Len: n}, gc, SeqStep{Kind: "keep", Fn: f, A: 8, Len: n}, SeqStep{Kind: "keep", Fn: f, A: 98, Len: n}, check)
		}
	}
	// every aborted call followed by every probe (and by the same abort again)
	for _, ab := range seqAborts {
		for i := range probes {
			emit(probes[i], SeqStep{Kind: "abort", Fn: ab, A: int64(i)}, probes[i], probes[(i+1)%len(probes)], SeqStep{Kind: "abort", Fn: ab, A: 2}, probes[i])
		}
	}
	for a := int64(0); a < 4; a++ {
		emit(SeqStep{Kind: "ref", Fn: "string", A: 5, Rep: 17}, SeqStep{Kind: "cbgc", A: a}, SeqStep{Kind: "keep", Fn: "Coal", A: 3, Len: 33}, SeqStep{Kind: "cbgc", A: a + 1}, probes[int(a)])
	}
	// alternation: A, B, A, (gc), B, A for every pair of neighbouring probes
	for i := range probes {
		a, b := probes[i], probes[(i+3)%len(probes)]
		emit(a, b, a, gc, b, a)
	}
}

var seqGCStep = SeqStep{Kind: "gc"}

func genSeqStep(t *rapid.T) SeqStep {
	r := rapid.IntRange(0, 159).Draw(t, "kind") // gc and cbgc steps once in 160 each
	switch k := r % 40; {
	case k < 12:
		w := genWide(t)
		return SeqStep{Kind: "wide", Wide: &w}
	case k < 20:
		u := genUtil(t)
		return SeqStep{Kind: "util", Util: &u}
	case k < 28:
		s := genSpecial(t)
		if s.Lead > 600 {
			s.Lead = s.Lead%600 + 1
		}
		return SeqStep{Kind: "special", Special: &s}
	case k < 31:
		r := 1
		if rapid.IntRange(0, 3).Draw(t, "ref-long") == 0 {
			r = seqRefReps[rapid.IntRange(0, len(seqRefReps)-4).Draw(t, "ref-reps")] // up to 4097 in drawn histories; the 2^16 runs are enumerated
		} else {
			r = rapid.IntRange(1, 4).Draw(t, "ref-few")
		}
		return SeqStep{Kind: "ref", Fn: seqRefTypes[rapid.IntRange(0, len(seqRefTypes)-1).Draw(t, "ref-type")], A: int64(rapid.IntRange(-3, 40).Draw(t, "a")), Rep: r}
	case k < 35:
		return SeqStep{Kind: "keep", Fn: seqKeepFns[rapid.IntRange(0, len(seqKeepFns)-1).Draw(t, "keep-fn")], A: int64(rapid.IntRange(-3, 120).Draw(t, "a")),
			Len: seqKeepLens[rapid.IntRange(0, len(seqKeepLens)-3).Draw(t, "keep-len")]}
	case k < 37 || k == 38:
		return SeqStep{Kind: "abort", Fn: seqAborts[rapid.IntRange(0, len(seqAborts)-1).Draw(t, "abort")], A: int64(rapid.IntRange(0, 9).Draw(t, "a"))}
	case r == 37:
		return seqGCStep
	case r == 39:
		return SeqStep{Kind: "cbgc", A: int64(rapid.IntRange(-2, 9).Draw(t, "a"))}
	}
	return SeqStep{Kind: "check"}
}

func genSeq(t *rapid.T) Seq {
	steps := pbt.OpsOf(t, rapid.Custom(genSeqStep), []int{0, 2, 5, 12, 30}, "steps")
	// repeat some earlier calls at the end (A ... B ... A)
	if n := len(steps); n > 0 {
		for i, d := 0, rapid.IntRange(0, 3).Draw(t, "repeats"); i < d; i++ {
			steps = append(steps, steps[rapid.IntRange(0, n-1).Draw(t, "repeat")])
		}
	}
	if len(steps) > maxSeqSteps {
		steps = steps[:maxSeqSteps]
	}
	return Seq{Steps: steps}
}

var specSeq = pbt.Register(&pbt.Spec[Seq]{
	Property: "C20", Name: "C20.seq",
	Rule: "histories of 0..66 helper calls in one goroutine. Step kinds: a call of C20.wide, C20.util or C20.special (judged by that unit's oracle); ref = 1..65537 consecutive Ref calls at int64, string, a struct, a 128-byte array, " +
		"any, *int64 or struct{} whose pointers are all kept (all distinct over the whole history, each still holding its value at every later check); keep = Min/Max/Clamp/Coal/Tern/TernCast/DerefZero/Ref/Compare on " +
		"strings of 0..65537 bytes that are built inside the call expression from a formula, the result kept and compared with the recomputed formula at every later check; abort = a call that does not return normally " +
		"(typ.IsZero on a value whose IsZero method panics or calls runtime.Goexit, TernCast with an impossible cast, Min/Max without arguments), recovered, nothing asserted about it; gc = runtime.GC() plus small allocations; cbgc = typ.IsZero on a value built inside the call expression whose IsZero method collects garbage and allocates before it looks at its receiver; " +
		"check = re-examine everything kept (always done at the end). Enumerated: every Ref type x run length around each power of two up to 4097 (int64, string, any: up to 2^16+1), then gc, check, more Ref calls; every keep helper x 21 string lengths around a gc; " +
		"every kind of aborted call before and after each of 21 fixed probe calls (one or two per helper); probe calls alternating A, B, A, gc, B, A. Then rapid draws (steps of all kinds, 0..3 earlier steps repeated at the end). " +
		"One case in 16 is also run as 4 parallel independent copies. " +
		"non-trivial = at least 2 judged or kept calls and at least one of: a kept result, an aborted call, a gc, the same call twice",
	Enum: enumSeq,
	Gen:  genSeq,
	Run:  RunSeq, Quick: 1500, Thorough: 30000,
	Replicas: 4, ReplicaEvery: 16,
})
