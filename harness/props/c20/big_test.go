//go:build !386

package c20

import (
	"fmt"
	"math"
	"math/bits"
	"runtime"
	"unsafe"

	typ "gopkg.in/typ.v4"

	"pgregory.net/rapid"
	"verifharness/internal/pbt"
)

// C20.big: the variadic helpers and the string comparisons at sizes where a
// chunked, vectorised or parallel fast path would start (2^13 .. 2^17 arguments,
// strings up to 2^20 bytes), under different runtime.GOMAXPROCS settings, with
// argument slices that are windows into larger poisoned buffers (up to more than
// 1 MiB of unused capacity). Encoding and oracles are those of C20.long.

const (
	maxBigArgs  = 1<<20 + 64
	maxBigStr   = 1<<20 + 64
	maxBigBytes = 64 << 20
)

// bigSizes: 2^k-1, 2^k, 2^k+1 for k = 13..17, and two sizes that are not near a power of two.
var bigSizes = func() []int {
	var s []int
	for k := 13; k <= 17; k++ {
		s = append(s, 1<<k-1, 1<<k, 1<<k+1)
	}
	return append(s, 3<<14, 100000)
}()

// bigStrSizes adds 2^18..2^20 (+-1) for the string comparisons.
var bigStrSizes = func() []int {
	s := append([]int{}, bigSizes...)
	for k := 18; k <= 20; k++ {
		s = append(s, 1<<k-1, 1<<k, 1<<k+1)
	}
	return s
}()

var bigProcs = []int{0, 1, 2, 3, 5, 6, 7}

func pow2Class(n int) string {
	if n < 2 {
		return "small"
	}
	for _, d := range []int{-1, 0, 1} {
		if m := n - d; m > 0 && m&(m-1) == 0 {
			return fmt.Sprintf("2^%d%+d", bits.Len(uint(m))-1, d)
		}
	}
	return fmt.Sprintf("between 2^%d and 2^%d", bits.Len(uint(n))-1, bits.Len(uint(n)))
}

func RunBig(c Long) pbt.Outcome {
	if c.Procs < 0 || c.Procs > 64 {
		return malformed()
	}
	if c.Procs > 0 {
		defer runtime.GOMAXPROCS(runtime.GOMAXPROCS(c.Procs))
	}
	out := runLong(c, limBig)
	if out.Violation != "" || out.Skipped {
		if out.Violation != "" && c.Procs > 0 {
			out.Violation = fmt.Sprintf("with runtime.GOMAXPROCS(%d): %s", c.Procs, out.Violation)
		}
		return out
	}
	size := c.N
	if wideType(c.Type).kind == "string" && c.N <= 4 {
		size = 0
		for _, s := range c.SPat {
			size = max(size, s.N)
		}
		out.Labels = append(out.Labels, "big:strlen="+pow2Class(size))
	} else {
		out.Labels = append(out.Labels, "big:args="+pow2Class(size))
	}
	out.Labels = append(out.Labels, fmt.Sprintf("big:gomaxprocs=%d", c.Procs))
	out.NonTrivial = size >= 4096
	return out
}

func enumBig(shard, shards int, tier string, yield func(Long) bool) {
	k := 0
	stop := false
	emit := func(c Long) {
		if stop {
			return
		}
		// machine state and view rotate with the case number, so that every (function, type, size) meets several of them
		c.Procs = bigProcs[k%len(bigProcs)]
		if c.View == nil {
			switch k % 5 {
			case 1:
				c.View = &View{Off: 1, Spare: 5}
			case 3:
				c.View = &View{Off: 0, Spare: 64}
			}
		}
		mine := k%shards == shard
		k++
		if mine && !yield(c) {
			stop = true
		}
	}
	// positions where the answer sits: both ends, and around the places where a list cut into 2, 3, 5, 7 or 16 chunks would be cut
	positions := func(n int) []int {
		return []int{0, 1, n / 16, n/7 - 1, n / 5, n / 3, n/2 - 1, n / 2, 2 * n / 3, n - n/16, n - 2, n - 1}
	}
	cuts := func(n int) []int { return []int{0, n / 3, n / 2, n - n/16, n - 1} }
	hugeSpare := &View{Off: 2, Spare: 1<<17 + 1} // more than 1 MiB of unused capacity for 8-byte elements

	sizes, strSizes := bigSizes, bigStrSizes
	if tier != "thorough" { // quick: 2^14 .. 2^17 (+-1) and 49152; strings additionally 2^20 (+-1)
		sizes = append(append([]int{}, bigSizes[3:15]...), 3<<14)
		strSizes = append(append([]int{}, sizes...), 1<<20-1, 1<<20, 1<<20+1)
	}
	for _, n := range sizes {
		// ---- integers
		for ti, tn := range []string{"int8", "int64", "uint64"} {
			if stop {
				return
			}
			wt := wideType(tn)
			iv := func(x int64) uint64 { return uint64(x) & wt.mask() }
			for i, p := range positions(n) {
				if (i+ti)%2 == 0 {
					emit(Long{Fn: "Min", Type: tn, N: n, Pat: []uint64{iv(5), iv(6), iv(7)}, Spots: []Spot{{Pos: p, Bits: iv(3)}}})
				} else {
					emit(Long{Fn: "Max", Type: tn, N: n, Pat: []uint64{iv(5), iv(6), iv(7)}, Spots: []Spot{{Pos: p, Bits: iv(9)}}})
				}
			}
			for _, p := range cuts(n) {
				emit(Long{Fn: "Min", Type: tn, N: n, Pat: []uint64{iv(5)}, Spots: []Spot{{Pos: p, Bits: wt.minBits()}}})
				emit(Long{Fn: "Max", Type: tn, N: n, Pat: []uint64{iv(5)}, Spots: []Spot{{Pos: p, Bits: wt.maxBits()}}})
				emit(Long{Fn: "Sum", Type: tn, N: n, Pat: []uint64{iv(0)}, Spots: []Spot{{Pos: p, Bits: iv(9)}}})
				emit(Long{Fn: "Product", Type: tn, N: n, Pat: []uint64{iv(1)}, Spots: []Spot{{Pos: p, Bits: iv(2)}}})
				emit(Long{Fn: "Product", Type: tn, N: n, Pat: []uint64{iv(-1)}, Spots: []Spot{{Pos: p, Bits: iv(3)}}})
			}
			emit(Long{Fn: "Min", Type: tn, N: n, Pat: []uint64{iv(5)}})
			emit(Long{Fn: "Sum", Type: tn, N: n, Pat: []uint64{iv(1)}})
			emit(Long{Fn: "Sum", Type: tn, N: n, Pat: []uint64{iv(-1)}})
			emit(Long{Fn: "Sum", Type: tn, N: n, Pat: []uint64{wt.maxBits(), iv(1), wt.minBits(), iv(7)}})
			emit(Long{Fn: "Product", Type: tn, N: n, Pat: []uint64{iv(3)}})
			emit(Long{Fn: "Product", Type: tn, N: n, Pat: []uint64{iv(1), iv(-1), iv(1)}})
			emit(Long{Fn: "Sum", Type: tn, N: n, Pat: []uint64{iv(1), iv(2)}, View: hugeSpare})
			emit(Long{Fn: "Max", Type: tn, N: n, Pat: []uint64{iv(1), iv(2)}, View: hugeSpare})
		}
		// ---- floats: every sum and product below depends on the order of evaluation
		for ti, tn := range []string{"float32", "float64"} {
			if stop {
				return
			}
			wt := wideType(tn)
			fv := func(f float64) uint64 { return encFloat(wt.bits, f) }
			big, small := 1e16, 0x1p-60
			if wt.bits == 32 {
				big, small = 1e8, 0x1p-30
			}
			for i, p := range positions(n) {
				if (i+ti)%2 == 0 {
					emit(Long{Fn: "Min", Type: tn, N: n, Pat: []uint64{fv(5), fv(-6), fv(7.5)}, Spots: []Spot{{Pos: p, Bits: fv(-6.5)}}})
				} else {
					emit(Long{Fn: "Max", Type: tn, N: n, Pat: []uint64{fv(5), fv(-6), fv(7.5)}, Spots: []Spot{{Pos: p, Bits: fv(math.Inf(1))}}})
				}
			}
			emit(Long{Fn: "Min", Type: tn, N: n, Pat: []uint64{fv(0), fv(math.Copysign(0, -1))}})
			emit(Long{Fn: "Sum", Type: tn, N: n, Pat: []uint64{fv(0.1)}})
			emit(Long{Fn: "Sum", Type: tn, N: n, Pat: []uint64{fv(big), fv(1), fv(-big)}})
			emit(Long{Fn: "Sum", Type: tn, N: n, Pat: []uint64{fv(1), fv(small)}})
			emit(Long{Fn: "Product", Type: tn, N: n, Pat: []uint64{fv(1.0000001)}})
			emit(Long{Fn: "Product", Type: tn, N: n, Pat: []uint64{fv(0.5), fv(3), fv(0.7)}})
			emit(Long{Fn: "Sum", Type: tn, N: n, Pat: []uint64{fv(0.1)}, View: hugeSpare})
			for _, p := range cuts(n) {
				emit(Long{Fn: "Sum", Type: tn, N: n, Pat: []uint64{fv(1)}, Spots: []Spot{{Pos: p, Bits: fv(big)}}})
				emit(Long{Fn: "Sum", Type: tn, N: n, Pat: []uint64{fv(0.1)}, Spots: []Spot{{Pos: p, Bits: fv(math.Inf(1))}}})
				emit(Long{Fn: "Product", Type: tn, N: n, Pat: []uint64{fv(1.0000001)}, Spots: []Spot{{Pos: p, Bits: fv(0)}}})
				emit(Long{Fn: "Product", Type: tn, N: n, Pat: []uint64{fv(1.00001)}, Spots: []Spot{{Pos: p, Bits: fv(-1e-30)}}})
			}
		}
		// ---- complex
		{
			tn := "complex128"
			fv := func(f float64) uint64 { return encFloat(64, f) }
			emit(Long{Fn: "Sum", Type: tn, N: n, Pat: []uint64{fv(0.1), fv(-0.3)}})
			emit(Long{Fn: "Product", Type: tn, N: n, Pat: []uint64{fv(0), fv(1)}})
			emit(Long{Fn: "Product", Type: tn, N: n, Pat: []uint64{fv(1.0000001), fv(1e-4)}})
			for _, p := range cuts(n) {
				emit(Long{Fn: "Sum", Type: tn, N: n, Pat: []uint64{fv(1), fv(-1)}, Spots: []Spot{{Pos: p, Bits: fv(1e16), Im: fv(-1e16)}}})
			}
		}
		// ---- many short strings
		for _, fn := range []string{"Min", "Max"} {
			emit(Long{Fn: fn, Type: "string", N: n, SPat: []LongStr{lit("b"), lit("c"), lit("bb"), lit("")}})
			for _, p := range cuts(n) {
				emit(Long{Fn: fn, Type: "string", N: n, SPat: []LongStr{lit("m"), lit("mm")}, SSpots: []SSpot{{Pos: p, S: lit("a")}}})
				emit(Long{Fn: fn, Type: "myString", N: n, SPat: []LongStr{lit("m"), lit("mm")}, SSpots: []SSpot{{Pos: p, S: lit("z")}}})
			}
		}
	}
	// ---- two long strings: equal, differing at the first / middle / last byte, one a prefix of the other
	for _, n := range strSizes {
		if stop {
			return
		}
		edit := func(pos int, b byte) LongStr {
			return LongStr{N: n, Pat: "ab", Edits: []Spot{{Pos: pos, Bits: uint64(b)}}}
		}
		vars := []LongStr{{N: n, Pat: "ab"}, edit(n-1, 'z'), edit(n-1, 0), edit(0, 'A'), edit(n/2, 'z'), {N: n - 1, Pat: "ab"}, {N: n + 1, Pat: "ab", Edits: []Spot{{Pos: n, Bits: 0}}}}
		for i, a := range vars {
			for j, b := range vars {
				if i > 0 && j > 0 && i != j && (i+j)%2 == 0 { // thin out the pairs of two edited strings
					continue
				}
				fns := []string{"Compare", "Less", "Min", "Max"}
				if i > 0 && j > 0 {
					fns = fns[(i+j)%4:][:1]
				}
				for _, fn := range fns {
					emit(Long{Fn: fn, Type: "string", N: 2, SPat: []LongStr{a, b}})
				}
			}
		}
		emit(Long{Fn: "Clamp", Type: "string", N: 3, SPat: []LongStr{vars[4], vars[0], vars[1]}})
		emit(Long{Fn: "Clamp", Type: "string", N: 3, SPat: []LongStr{vars[3], vars[0], vars[1]}})
		emit(Long{Fn: "Clamp", Type: "methString", N: 3, SPat: []LongStr{vars[1], vars[0], vars[4]}})
	}
}

func genBigSize(t *rapid.T, label string) int {
	if rapid.Bool().Draw(t, label+"-pow2") {
		return bigSizes[rapid.IntRange(0, len(bigSizes)-1).Draw(t, label+"-class")]
	}
	return rapid.IntRange(5001, 140000).Draw(t, label)
}

func genBig(t *rapid.T) Long {
	c := genLongWith(t, genBigSize)
	c.Procs = bigProcs[rapid.IntRange(0, len(bigProcs)-1).Draw(t, "procs")]
	if wideType(c.Type).kind != "string" || c.N > 4 {
		switch rapid.IntRange(0, 5).Draw(t, "viewkind") {
		case 0:
			c.View = genView(t, 1)
		case 1:
			c.View = &View{Off: rapid.IntRange(0, 3).Draw(t, "view-off"), Spare: rapid.IntRange(1<<16, maxViewSpare).Draw(t, "view-spare")}
		}
	}
	return c
}

var specBig = pbt.Register(&pbt.Spec[Long]{
	Property: "C20", Name: "C20.big",
	Rule: "sizes at which a chunked / vectorised / parallel fast path would start, judged by the oracles of C20.wide (machine arithmetic modulo 2^bits, same-order IEEE loops, bytes.Compare, Min/Max by validity). " +
		"Enumerated: Min/Max/Sum/Product with N = 2^k-1, 2^k, 2^k+1 arguments for k = 13..17, 49152 and 100000 (quick tier: k = 14..17 and 49152), at int8, int64, uint64, a named int32, float32, float64, complex128 and (Min/Max) N short strings: " +
		"the answer of Min/Max at both ends and around the places where the list would be cut into 2, 3, 5, 7 or 16 chunks (n/16, n/7-1, n/5, n/3, n/2-1, n/2, 2n/3, ...); wrapping integer sums and products with the " +
		"deciding term at such places; float sums and products whose value depends on the order of evaluation (0.1 repeated, big+1-big cycles, 1+2^-60, one huge term / Inf / 0 / tiny negative factor among many); " +
		"Compare, Less, Min, Max and Clamp on strings of 2^k-1, 2^k, 2^k+1 bytes for k = 13..20 (quick tier: k = 14..17 and 20) that are equal, differ in the first / middle / last byte or are a prefix of each other. " +
		"Each case runs under runtime.GOMAXPROCS 1, 2, 3, 5, 6, 7 or the default (rotating with the case number) and two cases in five pass their arguments as a window into a larger poisoned buffer " +
		"(1 element before, 5 or 64 elements of spare capacity; per type and size also two calls with more than 1 MiB of unused capacity). Then rapid draws: any type of C20.wide, N from the same classes or uniform in 5001..140000, " +
		"patterns as in C20.long, any of the GOMAXPROCS settings, one call in three with a small window or with 2^16..2^18 elements of spare capacity. NaN never generated. " +
		"non-trivial = at least 4096 arguments, or a string argument of at least 4096 bytes",
	Enum: enumBig,
	Gen:  genBig,
	Run:  RunBig, Quick: 60, Thorough: 600,
})

// ---------------------------------------------------------------- C20.bigcoal

var bigCoalTypes = []string{"int64", "string", "any", "stamp", "float64", "*int64", "error", "evenInt", "arr128"}

// coalZst: Coal over n zero-size arguments. A slice of a zero-size type occupies no memory whatever its length, so
// lengths beyond 2^32 are possible; the loop inside Coal still takes time proportional to n (about 0.5 ns per element),
// which bounds n here (2^62 elements would run for decades on the unchanged library).
func coalZst[T comparable](name string, n int) string {
	var zero T
	if unsafe.Sizeof(zero) != 0 {
		return "harness error: " + name + " is not a zero-size type"
	}
	if got := typ.Coal(make([]T, n)...); got != zero {
		return fmt.Sprintf("typ.Coal[%s](%d zero-size arguments) = %v, want the zero value", name, n, got)
	}
	return ""
}

const maxZstLead = 1<<32 + 64

var zstTypes = []string{"struct{}", "[0]int64", "unit"}

func RunBigCoal(c Special) pbt.Outcome {
	if c.Fn != "Coal" || c.Procs < 0 || c.Procs > 64 {
		return malformed()
	}
	if c.Procs > 0 {
		defer runtime.GOMAXPROCS(runtime.GOMAXPROCS(c.Procs))
	}
	if c.Lead > maxBigLead { // only for the zero-size types, which need no memory
		if c.Lead > maxZstLead || len(c.Vals) > 0 || len(c.Sets) > 0 || c.View != nil {
			return malformed()
		}
		msg := ""
		switch c.Type {
		case "struct{}":
			msg = coalZst[struct{}](c.Type, c.Lead)
		case "[0]int64":
			msg = coalZst[[0]int64](c.Type, c.Lead)
		case "unit":
			msg = coalZst[unit](c.Type, c.Lead)
		default:
			return malformed()
		}
		if msg != "" {
			return pbt.Fail("%s", msg)
		}
		cls := "coal:zero-size-arguments>2^17"
		if c.Lead > 1<<32 {
			cls = "coal:zero-size-arguments>2^32"
		}
		return pbt.Outcome{Labels: []string{"fn:Coal", "type:Coal/" + c.Type, cls, fmt.Sprintf("big:gomaxprocs=%d", c.Procs)}, NonTrivial: true}
	}
	out := runSpecial(c, maxBigLead)
	if out.Violation != "" || out.Skipped {
		if out.Violation != "" && c.Procs > 0 {
			out.Violation = fmt.Sprintf("with runtime.GOMAXPROCS(%d): %s", c.Procs, out.Violation)
		}
		return out
	}
	out.Labels = append(out.Labels, "big:args="+pow2Class(c.Lead+len(c.Vals)), fmt.Sprintf("big:gomaxprocs=%d", c.Procs))
	out.NonTrivial = out.NonTrivial && c.Lead+len(c.Vals) >= 4096
	return out
}

func enumBigCoal(shard, shards int, tier string, yield func(Special) bool) {
	k := 0
	stop := false
	emit := func(c Special) {
		if stop {
			return
		}
		c.Fn = "Coal"
		c.Procs = bigProcs[k%len(bigProcs)]
		if c.View == nil && c.Lead <= maxBigLead {
			switch k % 5 {
			case 1:
				c.View = &View{Off: 1, Spare: 5}
			case 3:
				c.View = &View{Off: 0, Spare: 64}
			}
		}
		mine := k%shards == shard
		k++
		if mine && !yield(c) {
			stop = true
		}
	}
	sizes := bigSizes
	if tier != "thorough" {
		sizes = append(append([]int{}, bigSizes[3:15]...), 3<<14)
	}
	zst := []int{1 << 20, 1<<24 + 1}
	if tier == "thorough" {
		zst = append(zst, 1<<31+1, 1<<32+1)
	}
	for _, tn := range zstTypes {
		for _, n := range zst {
			emit(Special{Type: tn, Lead: n, View: nil})
		}
	}
	for _, n := range sizes {
		for _, tn := range bigCoalTypes {
			if stop {
				return
			}
			st := specialType_(tn)
			if st == nil || len(st.nonzero) < 2 || len(st.zeroish) == 0 {
				panic("C20.bigcoal: unsuitable type " + tn)
			}
			nz1, nz2 := st.nonzero[0], st.nonzero[len(st.nonzero)-1]
			for li, z := range st.zeroish {
				if li >= 2 {
					break
				}
				emit(Special{Type: tn, Lead: n, LeadVal: z})
				emit(Special{Type: tn, Lead: n - 1, LeadVal: z, Vals: []int{nz1}})
				emit(Special{Type: tn, Lead: n - 3, LeadVal: z, Vals: []int{0, nz2, z}})
			}
			// the first non-zero argument around the places where the list would be cut into chunks, a different non-zero value later on
			z := st.zeroish[0]
			for _, p := range []int{0, n / 16, n/7 - 1, n / 3, n/2 - 1, n / 2, n - n/16, n - 2} {
				emit(Special{Type: tn, Lead: n, LeadVal: z, Sets: []SpecialSet{{Pos: p, Val: nz1}, {Pos: n - 1, Val: nz2}}})
				emit(Special{Type: tn, Lead: n, LeadVal: z, Sets: []SpecialSet{{Pos: p, Val: nz2}, {Pos: p + 1, Val: nz1}, {Pos: n/2 + n/4, Val: nz1}}})
			}
			if tn == "int64" || tn == "*int64" {
				emit(Special{Type: tn, Lead: n, LeadVal: z, View: &View{Off: 2, Spare: 1<<17 + 1}})
			}
		}
	}
}

func genBigCoal(t *rapid.T) Special {
	st := specialType_(bigCoalTypes[rapid.IntRange(0, len(bigCoalTypes)-1).Draw(t, "type")])
	c := Special{Fn: "Coal", Type: st.name, Lead: genBigSize(t, "lead"), Procs: bigProcs[rapid.IntRange(0, len(bigProcs)-1).Draw(t, "procs")]}
	c.LeadVal = st.zeroish[rapid.IntRange(0, len(st.zeroish)-1).Draw(t, "leadval")]
	for i, n := 0, rapid.IntRange(0, 3).Draw(t, "n"); i < n; i++ {
		c.Vals = append(c.Vals, rapid.IntRange(0, st.n-1).Draw(t, "val"))
	}
	for i, n := 0, rapid.IntRange(0, 3).Draw(t, "nsets"); i < n; i++ {
		c.Sets = append(c.Sets, SpecialSet{Pos: genLongPos(t, c.Lead+len(c.Vals), "setpos"), Val: rapid.IntRange(0, st.n-1).Draw(t, "setval")})
	}
	c.View = genView(t, 3)
	return c
}

var specBigCoal = pbt.Register(&pbt.Spec[Special]{
	Property: "C20", Name: "C20.bigcoal",
	Rule: "Coal over 2^k-1, 2^k, 2^k+1 arguments for k = 13..17 and 49152, 100000 (quick tier: k = 14..17 and 49152) at int64, string, any, error, *int64, float64 (+0 and -0 as zeros), a 128-byte array and two types whose IsZero() disagrees with ==, " +
		"tables and oracle of C20.special (the first argument that is != the zero value, or the zero value). Enumerated: all arguments zero(-ish); only the last one non-zero; zero, non-zero, zero at the end; " +
		"the first non-zero argument at 0, n/16, n/7-1, n/3, n/2-1, n/2, n-n/16, n-2 with a different non-zero value at the very end, or directly after it and again at 3n/4. Each case under runtime.GOMAXPROCS 1, 2, 3, 5, 6, 7 " +
		"or the default (rotating), two in five as a window into a larger buffer filled with a non-zero value (int64 and *int64 also with more than 1 MiB of unused capacity). Also Coal over 2^20 and 2^24+1 " +
		"(thorough: 2^31+1, 2^32+1) arguments of the zero-size types struct{}, [0]int64 and a zero-size type with methods (such slices need no memory; Coal's running time is linear in the length, which is why " +
		"2^62 is not tried). Then rapid draws over the same space (without the zero-size lists). " +
		"non-trivial = at least 4096 arguments and the rule of C20.special (a zero precedes the answer, or two distinct non-zero values, or an argument whose IsZero() disagrees)",
	Enum: enumBigCoal,
	Gen:  genBigCoal,
	Run:  RunBigCoal, Quick: 60, Thorough: 600,
})
