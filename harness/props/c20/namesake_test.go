//go:build !386

package c20

import (
	"fmt"
	"testing"

	typ "gopkg.in/typ.v4"
	"pgregory.net/rapid"
	"verifharness/internal/pbt"
)

// Namesake: DISTINCT types that print the SAME type name and differ in their METHOD SETS go through typ.IsZero in
// one process, in every order. Two groups of function-local types (all called K / all called rec; %T prints c20.K,
// *c20.K, c20.rec, *c20.rec): a plain struct, an int64, a struct that gets an IsZero() bool method by embedding
// (a method that disagrees with == in the direction the statement allows: a value != zero that reports true),
// a struct whose embedded IsZero has a POINTER receiver (not in the method set of the value: not honoured; in the
// method set of *K: honoured), a struct whose IsZero has another signature (IsZero() int: not honoured), and pointers
// to the plain and to the method-carrying struct. Anything the library remembers per type (has / has not the method,
// the zero value, a method value) keyed by the type's printed name or by anything else than the type's identity
// gives one namesake the answer of another. C20.local has namesakes too, but none of them has methods.
type Namesake struct {
	Group int      `json:"group"`
	Steps []NsStep `json:"steps"`
}

type NsStep struct {
	Type int   `json:"type"`
	N    int64 `json:"n"`
	Set  bool  `json:"set,omitempty"`
	Any  bool  `json:"any,omitempty"` // the call is typ.IsZero[any](value)
}

// nsStamp counts as zero as long as it was never set, whatever its note says.
type nsStamp struct {
	Set  bool
	Note int64
}

func (s nsStamp) IsZero() bool { return !s.Set }

// nsPtrRecv's method has a pointer receiver: a VALUE of a struct embedding it has no IsZero method, a pointer has.
type nsPtrRecv struct {
	Set  bool
	Note int64
}

func (s *nsPtrRecv) IsZero() bool { return !s.Set }

// nsWrongSig has a method called IsZero that is not `IsZero() bool`.
type nsWrongSig struct {
	Set  bool
	Note int64
}

func (s nsWrongSig) IsZero() int { return 1 }

type nsRes struct {
	got, want bool
	call      string
	name      string
	lies      bool // the IsZero method was decisive: value != zero and the method reports true
}

// nsEval: isZeroVal = value == zero value of T; method = verdict of the IsZero() bool method in T's method set (nil: none).
func nsEval[T comparable](v T, show string, isZeroVal bool, method *bool, viaAny bool) nsRes {
	r := nsRes{name: fmt.Sprintf("%T", v)}
	m := method != nil && *method
	if viaAny {
		// T = any: the zero value is the nil interface, which a boxed v never is
		r.got, r.want, r.lies = typ.IsZero[any](v), m, m
		r.call = fmt.Sprintf("typ.IsZero[any](%s(%s))", r.name, show)
	} else {
		r.got, r.want, r.lies = typ.IsZero(v), isZeroVal || m, !isZeroVal && m
		r.call = fmt.Sprintf("typ.IsZero[%s](%s)", r.name, show)
	}
	switch {
	case method == nil:
		r.call += " (this type has no IsZero() bool method in its method set)"
	default:
		r.call += fmt.Sprintf(" (this type's IsZero() bool method reports %v)", *method)
	}
	return r
}

const nsTypes = 7

var nsTypeNames = [nsTypes]string{"plain", "int64", "stamped", "ptrrecv", "wrongsig", "ptr-plain", "ptr-stamped"}

func bp(b bool) *bool { return &b }

// group 0: everything is called K
func nsGroupK(s NsStep) nsRes {
	show := fmt.Sprintf("Set:%v N:%d", s.Set, s.N)
	switch s.Type {
	case 0:
		type K struct {
			Set bool
			N   int64
		}
		v := K{s.Set, s.N}
		return nsEval(v, show, v == K{}, nil, s.Any)
	case 1:
		type K int64
		return nsEval(K(s.N), fmt.Sprint(s.N), s.N == 0, nil, s.Any)
	case 2:
		type K struct{ nsStamp }
		v := K{nsStamp{s.Set, s.N}}
		return nsEval(v, show, v == K{}, bp(!s.Set), s.Any)
	case 3:
		type K struct{ nsPtrRecv }
		v := K{nsPtrRecv{s.Set, s.N}}
		return nsEval(v, show, v == K{}, nil, s.Any)
	case 4:
		type K struct{ nsWrongSig }
		v := K{nsWrongSig{s.Set, s.N}}
		return nsEval(v, show, v == K{}, nil, s.Any)
	case 5:
		type K struct {
			Set bool
			N   int64
		}
		if s.N == 0 {
			return nsEval((*K)(nil), "nil", true, nil, s.Any)
		}
		return nsEval(&K{s.Set, s.N}, "&{"+show+"}", false, nil, s.Any)
	default:
		type K struct{ nsPtrRecv }
		if s.N == 0 {
			return nsEval((*K)(nil), "nil", true, nil, false) // boxed nil pointer: the method would dereference nil
		}
		return nsEval(&K{nsPtrRecv{s.Set, s.N}}, "&{"+show+"}", false, bp(!s.Set), s.Any)
	}
}

// group 1: everything is called rec; the method-carrying types come FIRST in the enumeration of this group
func nsGroupRec(s NsStep) nsRes {
	show := fmt.Sprintf("Set:%v N:%d", s.Set, s.N)
	switch s.Type {
	case 0:
		type rec struct {
			Set bool
			N   int64
		}
		v := rec{s.Set, s.N}
		return nsEval(v, show, v == rec{}, nil, s.Any)
	case 1:
		type rec int64
		return nsEval(rec(s.N), fmt.Sprint(s.N), s.N == 0, nil, s.Any)
	case 2:
		type rec struct{ nsStamp }
		v := rec{nsStamp{s.Set, s.N}}
		return nsEval(v, show, v == rec{}, bp(!s.Set), s.Any)
	case 3:
		type rec struct{ nsPtrRecv }
		v := rec{nsPtrRecv{s.Set, s.N}}
		return nsEval(v, show, v == rec{}, nil, s.Any)
	case 4:
		type rec struct{ nsWrongSig }
		v := rec{nsWrongSig{s.Set, s.N}}
		return nsEval(v, show, v == rec{}, nil, s.Any)
	case 5:
		type rec struct {
			Set bool
			N   int64
		}
		if s.N == 0 {
			return nsEval((*rec)(nil), "nil", true, nil, s.Any)
		}
		return nsEval(&rec{s.Set, s.N}, "&{"+show+"}", false, nil, s.Any)
	default:
		type rec struct{ nsPtrRecv }
		if s.N == 0 {
			return nsEval((*rec)(nil), "nil", true, nil, false)
		}
		return nsEval(&rec{nsPtrRecv{s.Set, s.N}}, "&{"+show+"}", false, bp(!s.Set), s.Any)
	}
}

var nsWantName = [2][2]string{{"c20.K", "*c20.K"}, {"c20.rec", "*c20.rec"}}

func RunNamesake(c Namesake) pbt.Outcome {
	if c.Group < 0 || c.Group > 1 || len(c.Steps) == 0 || len(c.Steps) > 256 {
		return malformed()
	}
	run := nsGroupK
	if c.Group == 1 {
		run = nsGroupRec
	}
	types, withMethod, without, lies := map[int]bool{}, false, false, false
	for i, s := range c.Steps {
		if s.Type < 0 || s.Type >= nsTypes {
			return malformed()
		}
		r := run(s)
		if r.name != nsWantName[c.Group][0] && r.name != nsWantName[c.Group][1] {
			return pbt.Outcome{Inconclusive: "local type prints as " + r.name}
		}
		if r.got != r.want {
			return pbt.Fail("step %d (type variant %q - one of seven DISTINCT types of this process that print as %s or %s): %s = %v, want %v", i, nsTypeNames[s.Type], nsWantName[c.Group][0], nsWantName[c.Group][1], r.call, r.got, r.want)
		}
		types[s.Type] = true
		lies = lies || r.lies
		if s.Type == 2 || s.Type == 6 {
			withMethod = true
		} else {
			without = true
		}
	}
	labels := []string{fmt.Sprintf("group:%d", c.Group), fmt.Sprintf("namesakes:%d", len(types))}
	if lies {
		labels = append(labels, "method-decisive")
	}
	return pbt.Outcome{Labels: labels, NonTrivial: withMethod && without, Evals: len(c.Steps)}
}

var nsVals = []int64{0, 5, -1, -1 << 63}

func nsAllSteps(order []int) []NsStep {
	var out []NsStep
	for _, ty := range order {
		for _, n := range nsVals {
			for _, set := range []bool{false, true} {
				for _, viaAny := range []bool{false, true} {
					if ty == 1 && set {
						continue // the int64 variant has no Set
					}
					out = append(out, NsStep{Type: ty, N: n, Set: set, Any: viaAny})
				}
			}
		}
	}
	return out
}

// All ordered pairs of steps, per group. Whatever the library keeps for the life of the PROCESS is decided by the very
// first calls: group K starts with the method-less namesakes, group rec with the method-carrying ones.
func enumNamesake(shard, shards int, tier string, yield func(Namesake) bool) {
	k := 0
	for g, order := range [][]int{{0, 1, 3, 4, 5, 2, 6}, {2, 6, 0, 1, 3, 4, 5}} {
		steps := nsAllSteps(order)
		for _, a := range steps {
			for _, b := range steps {
				mine := k%shards == shard
				k++
				if mine && !yield(Namesake{Group: g, Steps: []NsStep{a, b}}) {
					return
				}
			}
		}
	}
}

func genNamesake(t *rapid.T) Namesake {
	step := rapid.Custom(func(t *rapid.T) NsStep {
		return NsStep{
			Type: rapid.IntRange(0, nsTypes-1).Draw(t, "type"),
			N:    rapid.OneOf(rapid.SampledFrom(nsVals), rapid.Int64Range(-3, 3), rapid.Int64()).Draw(t, "n"),
			Set:  rapid.Bool().Draw(t, "set"),
			Any:  rapid.Bool().Draw(t, "any"),
		}
	})
	return Namesake{Group: rapid.IntRange(0, 1).Draw(t, "group"), Steps: pbt.OpsOf(t, step, []int{1, 2, 5, 12, 30}, "steps")}
}

var specNamesake = pbt.Register(&pbt.Spec[Namesake]{
	Property: "C20", Name: "C20.namesake",
	Rule: "grid + rapid: typ.IsZero[T] and typ.IsZero[any] on seven DISTINCT function-local types per group that print the same name (group 0: c20.K / *c20.K, group 1: c20.rec / *c20.rec) and differ in their method sets: " +
		"struct{Set bool; N int64}, int64, a struct embedding a type with IsZero() bool (reports !Set: a value != zero with Set false is zero by its method), a struct embedding a type whose IsZero() bool has a pointer receiver " +
		"(value: no method; pointer: method), a struct embedding a type with IsZero() int (not the method), a pointer to the plain struct, a pointer to the pointer-receiver struct (nil pointers included); " +
		"N from 0, 5, -1, MinInt64 (rapid: any int64), Set false/true. Grid: every ordered pair of (type, value, direct/boxed) calls per group - group 0 starts the process with the method-less types, group 1 with the method-carrying ones; " +
		"rapid: sequences of 1..66 such calls. Reference: value == zero value of T (T = any: the nil interface), or the verdict of the IsZero() bool method if it is in the method set of the dynamic type. " +
		"Covers state kept per type (has-method / zero-value caches) that is keyed by the type's printed name instead of its identity. non-trivial = a case that calls both a namesake with and one without the method",
	Gen: genNamesake, Enum: enumNamesake, Run: RunNamesake,
	Quick: 3000, Thorough: 60000,
	Replicas: 4, ReplicaEvery: 8,
})

func TestC20Namesake(t *testing.T) { pbt.Check(t, specNamesake) }
