//go:build !386

// Package c20 decides C20: the numeric helpers of math.go and the utility
// helpers of util.go are correct over the whole value range.
//
// Units:
//
//	C20.single   exhaustive: every value of the 8- and 16-bit integer types (and named types over them), 1-argument calls
//	C20.pairs    exhaustive: every pair of the 8-bit types, 2-argument calls
//	C20.triples  exhaustive: every triple of the 8-bit types (Clamp: lo<=hi), 3-argument calls
//	C20.sweep32  exhaustive: int32/uint32, 1-argument calls (quick: the 65536-blocks that hold a boundary; thorough: all 2^32)
//	C20.wide     boundary grid + rapid: all integer widths, floats, complex, strings, variadic lengths 0..6
//	C20.util     rapid: Coal, Zero, ZeroOf, IsZero, Tern, TernCast, Ref, DerefZero, IsNil
//	C20.special  grid + rapid: the same helpers at element types with special characteristics (methods that contradict == / the
//	             zero value, interface-typed T, nil pointers, zero-size, non-comparable, -0, big values), Coal after long runs of zeros
//	C20.long     grid + rapid: Min/Max/Sum/Product with 7..5000 arguments, Compare/Less/Min/Max/Clamp on strings of 7..5000 bytes
//	C20.big      grid + rapid: the same with 2^13..2^17 (+-1) arguments and strings of up to 2^20 bytes, under GOMAXPROCS 1, 2, 3, 5, 6, 7, 16,
//	             argument slices that are windows into larger poisoned buffers (up to > 1 MiB of spare capacity)
//	C20.bigcoal  grid + rapid: Coal with 2^13..2^17 (+-1) arguments (first non-zero around chunk boundaries), 2^20..2^32 zero-size arguments
//	C20.seq      grid + rapid: histories of calls in one goroutine; Ref pointers and string results kept and re-examined after later calls
//	             and garbage collections; calls aborted by a panicking / Goexit-ing IsZero method before ordinary calls
//	C20.repeat   2^16+3 and 2^17+3 consecutive calls of each helper alternating between two arguments (call counters, caches)
//	C20.repeat32 thorough only: 2^32+3 consecutive calls
//	C20.gap      a call, then exactly 2^16-1, 2^16, 2^16+1 calls of the same helper on DIFFERENT data, then the first call again (16-bit generation stamps)
//	C20.sleep    the same history with a real sleep of 2.1 s (thorough: 5.1 s) in the middle (state released when wall-clock time has passed)
//	C20.huge     grid + rapid: 2^22..2^24 (+-1) arguments of one byte each, strings of that many bytes; GOMAXPROCS switched by another goroutine
//	             while the call runs; Crashy (stack overflow of a recursion per element / per chunk)
//	C20.edge     grid + rapid: argument slices and strings that end (start) exactly at the end (beginning) of readable memory (mmap + PROT_NONE
//	             neighbours, SetPanicOnFault); Crashy
//	C20.local    grid + rapid: four distinct function-local types all called job used alternately; slices of local arrays as arguments with results
//	             kept across a forced move of the goroutine's stack
//	C20.first    fresh processes (the test binary re-executing itself): 2..16 goroutines make the process's FIRST calls of each helper at the same
//	             instant (state built lazily on first use without synchronisation)
//	C20.x86      (x86_test.go, //go:build 386, its own test binary built with GOARCH=386) the integer and floating helpers where int, uint
//	             and uintptr are 32 bits wide
//
// All units except big, bigcoal, huge (which change GOMAXPROCS), first, sleep and repeat32 also run one case in 8 or 16 as four
// parallel independent copies (Spec.Replicas): every Run function here is reentrant (package-level tables are read-only after init).
//
// Classes of the fourth round that do not apply to this package: results whose parts share one backing array (every result here is
// a scalar, a string that was an argument, or a fresh pointer - C20.seq and C20.local write through one Ref result and re-read the
// other), String()/formatting methods and outputs of 2^k bytes (the helpers format nothing), the library's own sort (none of the
// helpers sorts), zero-size slices combined with an aborting callback (only IsZero takes a callback - the IsZero method - and it takes one
// value; 2^20..2^32 zero-size arguments of Coal are in C20.bigcoal).
package c20

import (
	"runtime/debug"
	"testing"

	"verifharness/internal/pbt"
)

// named types: the helpers are declared over ~T constraints
type (
	myInt8       int8
	myUint8      uint8
	myInt16      int16
	myUint16     uint16
	myInt32      int32
	myUint32     uint32
	myInt64      int64
	myUint64     uint64
	myInt        int
	myUintptr    uintptr
	myFloat32    float32
	myFloat64    float64
	myComplex128 complex128
	myString     string
)

// tinfo describes an integer type by its mathematical range.
type tinfo struct {
	name   string
	bits   int
	signed bool
}

func (t tinfo) min() int64 {
	if !t.signed {
		return 0
	}
	return -(int64(1) << (t.bits - 1))
}

// max is only meaningful for bits < 64 (block units never go beyond 32 bits).
func (t tinfo) max() int64 {
	if t.signed {
		return int64(1)<<(t.bits-1) - 1
	}
	return int64(1)<<t.bits - 1
}

// nearPow10 reports |a - 10^k| <= 1 for some k >= 0 (a >= 0).
func nearPow10(a uint64) bool {
	p := uint64(1)
	for {
		if a+1 >= p && a <= p+1 {
			return true
		}
		if p > a || p > (1<<63)/5 { // 10^19 is the last power of ten below 2^64
			return false
		}
		p *= 10
	}
}

// isNT is the non-trivial rule for one integer argument of a type narrower
// than 64 bits: at or next to a type extreme, or at or next to +-10^k.
func (t tinfo) isNT(x int64) bool {
	if x-t.min() <= 1 || t.max()-x <= 1 {
		return true
	}
	a := x
	if a < 0 {
		a = -a
	}
	return nearPow10(uint64(a))
}

// ntPoints lists, in increasing order, every non-trivial value of a narrow type.
func (t tinfo) ntPoints() []int64 {
	var out []int64
	add := func(x int64) {
		if x < t.min() || x > t.max() {
			return
		}
		for _, y := range out {
			if y == x {
				return
			}
		}
		out = append(out, x)
	}
	for d := int64(0); d <= 1; d++ {
		add(t.min() + d)
		add(t.max() - d)
	}
	for p := int64(1); p <= t.max()+1; p *= 10 {
		for d := int64(-1); d <= 1; d++ {
			add(p + d)
			add(-p + d)
		}
	}
	// insertion sort (tiny)
	for i := 1; i < len(out); i++ {
		for j := i; j > 0 && out[j] < out[j-1]; j-- {
			out[j], out[j-1] = out[j-1], out[j]
		}
	}
	return out
}

func TestC20Single(t *testing.T)  { pbt.Check(t, specSingle) }
func TestC20Pairs(t *testing.T)   { pbt.Check(t, specPairs) }
func TestC20Triples(t *testing.T) { pbt.Check(t, specTriples) }
func TestC20Sweep32(t *testing.T) { pbt.Check(t, specSweep32) }
func TestC20Wide(t *testing.T)    { pbt.Check(t, specWide) }
func TestC20Util(t *testing.T)    { pbt.Check(t, specUtil) }
func TestC20Special(t *testing.T) { pbt.Check(t, specSpecial) }
func TestC20Long(t *testing.T)    { pbt.Check(t, specLong) }
func TestC20Big(t *testing.T) {
	debug.SetGCPercent(400) // every case allocates megabytes: collect less often (each unit runs in a process of its own)
	pbt.Check(t, specBig)
}
func TestC20Bigcoal(t *testing.T) {
	debug.SetGCPercent(400)
	pbt.Check(t, specBigCoal)
}
func TestC20Repeat(t *testing.T)   { pbt.Check(t, specRepeat) }
func TestC20Repeat32(t *testing.T) { pbt.Check(t, specRepeat32) }
func TestC20Seq(t *testing.T)      { pbt.Check(t, specSeq) }
func TestC20Huge(t *testing.T) {
	debug.SetGCPercent(400)
	pbt.Check(t, specHuge)
}
func TestC20Edge(t *testing.T)  { pbt.Check(t, specEdge) }
func TestC20Local(t *testing.T) { pbt.Check(t, specLocal) }
func TestC20Gap(t *testing.T)   { pbt.Check(t, specGap) }
func TestC20Sleep(t *testing.T) { pbt.Check(t, specSleep) }
func TestReplay(t *testing.T)   { pbt.Replay(t) }
