//go:build !386

package c20

import (
	"bytes"
	"math"

	"pgregory.net/rapid"
	"verifharness/internal/pbt"
)

// Long is one call of a variadic or string-comparing helper with a long
// argument list or long string arguments, in a compact encoding that is
// expanded into a Wide case and judged by the oracles of C20.wide.
//
// Numeric types (Min, Max, Sum, Product): N arguments; argument i is
// Pat[i mod len(Pat)] (bit patterns as in Wide; for complex types Pat holds
// (re, im) pairs), then every Spot overrides argument Pos mod N with Bits (and
// Im for complex).
//
// String types (Min, Max, Clamp, Compare, Less): N arguments; argument i is
// SPat[i mod len(SPat)], then every SSpot overrides argument Pos mod N. A
// LongStr is N bytes of Pat repeated cyclically with single bytes edited.
type Long struct {
	Fn     string    `json:"fn"`
	Type   string    `json:"type"`
	N      int       `json:"n"`
	Pat    []uint64  `json:"pat,omitempty"`
	Spots  []Spot    `json:"spots,omitempty"`
	SPat   []LongStr `json:"spat,omitempty"`
	SSpots []SSpot   `json:"sspots,omitempty"`
	View   *View     `json:"view,omitempty"`  // the argument slice is a window into a larger poisoned buffer (see Wide.View)
	Procs  int       `json:"procs,omitempty"` // C20.big only: runtime.GOMAXPROCS during the call (0 = unchanged)
}

type Spot struct {
	Pos  int    `json:"pos"`
	Bits uint64 `json:"bits"`
	Im   uint64 `json:"im,omitempty"`
}

type LongStr struct {
	N     int    `json:"n"`
	Pat   string `json:"pat,omitempty"`
	Edits []Spot `json:"edits,omitempty"`
}

type SSpot struct {
	Pos int     `json:"pos"`
	S   LongStr `json:"s"`
}

const (
	maxLongArgs  = 5200
	maxLongStr   = 5200
	maxLongBytes = 4 << 20
)

// longLimits: C20.long and C20.big share the encoding and differ in the admitted sizes.
type longLimits struct{ args, str, bytes int }

var (
	limLong = longLimits{maxLongArgs, maxLongStr, maxLongBytes}
	limBig  = longLimits{maxBigArgs, maxBigStr, maxBigBytes}
)

func (s LongStr) build() string {
	if s.N <= 0 {
		return ""
	}
	pat := s.Pat
	if pat == "" {
		pat = "a"
	}
	b := make([]byte, s.N)
	for n := copy(b, pat); n < len(b); { // b[i] = pat[i mod len(pat)], by doubling
		n += copy(b[n:], b[:n])
	}
	for _, e := range s.Edits {
		b[imod(e.Pos, s.N)] = byte(e.Bits)
	}
	return string(b)
}

func lit(s string) LongStr { return LongStr{N: len(s), Pat: s} }

// expand turns the compact encoding into the explicit argument list.
func (c Long) expand(lim longLimits) (w Wide, wt *wtype, maxStr int, ok bool) {
	wt = wideType(c.Type)
	if wt == nil || c.N < 0 || c.N > lim.args || len(c.Spots) > 8 || len(c.SSpots) > 8 || !c.View.ok() {
		return w, nil, 0, false
	}
	valid := false
	for _, f := range fnsOf(wt.kind) {
		if f == c.Fn {
			valid = true
		}
	}
	switch c.Fn {
	case "Min", "Max":
		valid = valid && c.N >= 1
	case "Sum", "Product":
	case "Clamp":
		valid = valid && c.N == 3
	case "Compare", "Less":
		valid = valid && c.N == 2
	default:
		valid = false
	}
	if !valid {
		return w, nil, 0, false
	}
	w = Wide{Fn: c.Fn, Type: c.Type, View: c.View}
	if wt.kind == "string" {
		if len(c.SPat) == 0 || len(c.SPat) > 8 {
			return w, nil, 0, false
		}
		total := 0
		check := func(s LongStr) bool {
			total += s.N
			return s.N <= lim.str && len(s.Edits) <= 8
		}
		pat := make([]string, len(c.SPat))
		for i, s := range c.SPat {
			if !check(s) {
				return w, nil, 0, false
			}
			pat[i] = s.build()
			maxStr = max(maxStr, len(pat[i]))
		}
		size := 0
		w.Strs = make([]string, c.N)
		for i := range w.Strs {
			w.Strs[i] = pat[i%len(pat)]
			size += len(w.Strs[i])
		}
		if size > lim.bytes {
			return w, nil, 0, false
		}
		for _, sp := range c.SSpots {
			if !check(sp.S) {
				return w, nil, 0, false
			}
			if c.N > 0 {
				s := sp.S.build()
				w.Strs[imod(sp.Pos, c.N)] = s
				maxStr = max(maxStr, len(s))
			}
		}
		return w, wt, maxStr, true
	}
	per := 1
	if wt.kind == "complex" {
		per = 2
	}
	if len(c.Pat) == 0 || len(c.Pat) > 16 || len(c.Pat)%per != 0 {
		return w, nil, 0, false
	}
	w.Bits = make([]uint64, c.N*per)
	for i := range w.Bits {
		w.Bits[i] = c.Pat[i%len(c.Pat)]
	}
	for _, sp := range c.Spots {
		if c.N > 0 {
			p := imod(sp.Pos, c.N) * per
			w.Bits[p] = sp.Bits
			if per == 2 {
				w.Bits[p+1] = sp.Im
			}
		}
	}
	return w, wt, 0, true
}

func strLenClass(n int) string {
	switch {
	case n <= 8:
		return "<=8"
	case n <= 64:
		return "9..64"
	case n <= 256:
		return "65..256"
	case n <= 1024:
		return "257..1024"
	case n <= 4096:
		return "1025..4096"
	}
	return ">4096"
}

func spotClass(pos, n int) string {
	if n <= 0 {
		return "spot:none"
	}
	switch p := imod(pos, n); {
	case p == 0:
		return "spot:first"
	case p == n-1:
		return "spot:last"
	case p == 1:
		return "spot:second"
	case p == n-2:
		return "spot:second-to-last"
	}
	return "spot:inside"
}

func RunLong(c Long) pbt.Outcome {
	if c.Procs != 0 {
		return malformed()
	}
	return runLong(c, limLong)
}

func runLong(c Long, lim longLimits) pbt.Outcome {
	w, wt, maxStr, ok := c.expand(lim)
	if !ok {
		return malformed()
	}
	out := wt.run(w, wt)
	if out.Violation != "" || out.Skipped {
		return out
	}
	out.Labels = append(out.Labels, "long:args="+argsClass(c.N))
	if wt.kind == "string" {
		out.Labels = append(out.Labels, "long:strlen="+strLenClass(maxStr))
		for _, sp := range c.SSpots {
			out.Labels = append(out.Labels, spotClass(sp.Pos, c.N))
		}
	} else {
		for _, sp := range c.Spots {
			out.Labels = append(out.Labels, spotClass(sp.Pos, c.N))
		}
	}
	out.NonTrivial = c.N > 6 || maxStr > 8
	return out
}

// longSizes: lengths around every power of two from 8 to 4096, and 5000.
var longSizes = append(append([]int{}, leadSizes...), 5000)

func enumLong(shard, shards int, tier string, yield func(Long) bool) {
	k := 0
	stop := false
	emit := func(c Long) {
		if stop {
			return
		}
		mine := k%shards == shard
		k++
		if mine && !yield(c) {
			stop = true
		}
	}
	positions := func(n int) []int { return []int{0, 1, n / 2, n - 2, n - 1} }
	ends := func(n int) []int { return []int{0, n / 2, n - 1} }

	// ---- integers
	for _, tn := range []string{"int8", "uint8", "int64", "uint64", "myInt32", "methInt64", "uintptr"} {
		wt := wideType(tn)
		iv := func(x int64) uint64 { return uint64(x) & wt.mask() }
		for _, n := range longSizes {
			if stop {
				return
			}
			for _, fn := range []string{"Min", "Max"} {
				emit(Long{Fn: fn, Type: tn, N: n, Pat: []uint64{iv(5)}})
				for _, p := range positions(n) {
					emit(Long{Fn: fn, Type: tn, N: n, Pat: []uint64{iv(5)}, Spots: []Spot{{Pos: p, Bits: iv(3)}}})
					emit(Long{Fn: fn, Type: tn, N: n, Pat: []uint64{iv(5)}, Spots: []Spot{{Pos: p, Bits: iv(9)}}})
				}
				for _, p := range ends(n) {
					emit(Long{Fn: fn, Type: tn, N: n, Pat: []uint64{iv(5), iv(6), iv(7)}, Spots: []Spot{{Pos: p, Bits: wt.minBits()}}})
					emit(Long{Fn: fn, Type: tn, N: n, Pat: []uint64{iv(5), iv(6), iv(7)}, Spots: []Spot{{Pos: p, Bits: wt.maxBits()}}})
				}
			}
			emit(Long{Fn: "Sum", Type: tn, N: n, Pat: []uint64{iv(1)}})
			emit(Long{Fn: "Sum", Type: tn, N: n, Pat: []uint64{iv(-1)}})
			emit(Long{Fn: "Sum", Type: tn, N: n, Pat: []uint64{wt.maxBits(), iv(1), wt.minBits(), iv(7)}})
			emit(Long{Fn: "Product", Type: tn, N: n, Pat: []uint64{iv(3)}})
			emit(Long{Fn: "Product", Type: tn, N: n, Pat: []uint64{iv(-1)}})
			emit(Long{Fn: "Product", Type: tn, N: n, Pat: []uint64{iv(1), iv(-1), iv(1)}})
			for _, p := range ends(n) {
				emit(Long{Fn: "Sum", Type: tn, N: n, Pat: []uint64{iv(0)}, Spots: []Spot{{Pos: p, Bits: iv(9)}}})
				emit(Long{Fn: "Product", Type: tn, N: n, Pat: []uint64{iv(1)}, Spots: []Spot{{Pos: p, Bits: iv(2)}}})
				emit(Long{Fn: "Product", Type: tn, N: n, Pat: []uint64{iv(3)}, Spots: []Spot{{Pos: p, Bits: iv(0)}}})
			}
		}
	}

	// ---- floats
	for _, tn := range []string{"float32", "float64", "methFloat64"} {
		wt := wideType(tn)
		fv := func(f float64) uint64 { return encFloat(wt.bits, f) }
		big, small := 1e16, 0x1p-60
		if wt.bits == 32 {
			big, small = 1e8, 0x1p-30
		}
		negZero := math.Copysign(0, -1)
		for _, n := range longSizes {
			if stop {
				return
			}
			for _, fn := range []string{"Min", "Max"} {
				emit(Long{Fn: fn, Type: tn, N: n, Pat: []uint64{fv(5)}})
				emit(Long{Fn: fn, Type: tn, N: n, Pat: []uint64{fv(0), fv(negZero)}})
				for _, p := range positions(n) {
					emit(Long{Fn: fn, Type: tn, N: n, Pat: []uint64{fv(5)}, Spots: []Spot{{Pos: p, Bits: fv(3)}}})
					emit(Long{Fn: fn, Type: tn, N: n, Pat: []uint64{fv(5)}, Spots: []Spot{{Pos: p, Bits: fv(9)}}})
				}
				for _, p := range ends(n) {
					emit(Long{Fn: fn, Type: tn, N: n, Pat: []uint64{fv(5), fv(-6), fv(7.5)}, Spots: []Spot{{Pos: p, Bits: fv(math.Inf(-1))}}})
					emit(Long{Fn: fn, Type: tn, N: n, Pat: []uint64{fv(5), fv(-6), fv(7.5)}, Spots: []Spot{{Pos: p, Bits: fv(math.Inf(1))}}})
				}
			}
			// sums and products whose value depends on the order of evaluation
			emit(Long{Fn: "Sum", Type: tn, N: n, Pat: []uint64{fv(0.1)}})
			emit(Long{Fn: "Sum", Type: tn, N: n, Pat: []uint64{fv(big), fv(1), fv(-big)}})
			emit(Long{Fn: "Sum", Type: tn, N: n, Pat: []uint64{fv(1), fv(small)}})
			emit(Long{Fn: "Product", Type: tn, N: n, Pat: []uint64{fv(1.0000001)}})
			emit(Long{Fn: "Product", Type: tn, N: n, Pat: []uint64{fv(1.1)}})
			emit(Long{Fn: "Product", Type: tn, N: n, Pat: []uint64{fv(0.5), fv(3), fv(0.7)}})
			for _, p := range ends(n) {
				emit(Long{Fn: "Sum", Type: tn, N: n, Pat: []uint64{fv(1)}, Spots: []Spot{{Pos: p, Bits: fv(big)}}})
				emit(Long{Fn: "Sum", Type: tn, N: n, Pat: []uint64{fv(0.1)}, Spots: []Spot{{Pos: p, Bits: fv(math.Inf(1))}}})
				emit(Long{Fn: "Product", Type: tn, N: n, Pat: []uint64{fv(1.0000001)}, Spots: []Spot{{Pos: p, Bits: fv(0)}}})
				emit(Long{Fn: "Product", Type: tn, N: n, Pat: []uint64{fv(1.1)}, Spots: []Spot{{Pos: p, Bits: fv(-1e-30)}}})
			}
		}
	}

	// ---- complex
	for _, tn := range []string{"complex64", "complex128"} {
		wt := wideType(tn)
		fv := func(f float64) uint64 { return encFloat(wt.bits/2, f) }
		big := 1e16
		if wt.bits == 64 {
			big = 1e8
		}
		for _, n := range longSizes {
			if stop {
				return
			}
			emit(Long{Fn: "Sum", Type: tn, N: n, Pat: []uint64{fv(0.1), fv(-0.3)}})
			emit(Long{Fn: "Product", Type: tn, N: n, Pat: []uint64{fv(0), fv(1)}})
			emit(Long{Fn: "Product", Type: tn, N: n, Pat: []uint64{fv(1.0000001), fv(1e-4)}})
			for _, p := range ends(n) {
				emit(Long{Fn: "Sum", Type: tn, N: n, Pat: []uint64{fv(1), fv(-1)}, Spots: []Spot{{Pos: p, Bits: fv(big), Im: fv(-big)}}})
			}
		}
	}

	// ---- long strings: equal, differing at the first / middle / last byte, one a prefix of the other, bytes 0x00 and 0xff
	for _, n := range longSizes {
		if stop {
			return
		}
		base := LongStr{N: n, Pat: "ab"}
		edit := func(pos int, b byte) LongStr {
			return LongStr{N: n, Pat: "ab", Edits: []Spot{{Pos: pos, Bits: uint64(b)}}}
		}
		vars := []LongStr{
			base,
			edit(n-1, 'z'),
			edit(n-1, 0),
			edit(n-1, 0xff),
			edit(0, 'A'),
			edit(n/2, 'z'),
			{N: n - 1, Pat: "ab"},
			{N: n + 1, Pat: "ab"},
			{N: n + 1, Pat: "ab", Edits: []Spot{{Pos: n, Bits: 0}}},
		}
		for _, tn := range []string{"string", "methString"} {
			for _, fn := range []string{"Compare", "Less", "Min", "Max"} {
				if tn == "methString" && fn != "Compare" && fn != "Min" {
					continue
				}
				for _, a := range vars {
					for _, b := range vars {
						emit(Long{Fn: fn, Type: tn, N: 2, SPat: []LongStr{a, b}})
					}
				}
			}
		}
		few := vars[:6]
		for _, v := range few {
			for _, lo := range few {
				for _, hi := range few {
					if bytes.Compare([]byte(lo.build()), []byte(hi.build())) <= 0 {
						emit(Long{Fn: "Clamp", Type: "string", N: 3, SPat: []LongStr{v, lo, hi}})
					}
				}
			}
		}
		// many short strings
		for _, tn := range []string{"string", "myString"} {
			for _, fn := range []string{"Min", "Max"} {
				emit(Long{Fn: fn, Type: tn, N: n, SPat: []LongStr{lit("m")}})
				emit(Long{Fn: fn, Type: tn, N: n, SPat: []LongStr{lit("b"), lit("c"), lit("bb"), lit("")}})
				for _, p := range positions(n) {
					emit(Long{Fn: fn, Type: tn, N: n, SPat: []LongStr{lit("m")}, SSpots: []SSpot{{Pos: p, S: lit("a")}}})
					emit(Long{Fn: fn, Type: tn, N: n, SPat: []LongStr{lit("m")}, SSpots: []SSpot{{Pos: p, S: lit("z")}}})
					emit(Long{Fn: fn, Type: tn, N: n, SPat: []LongStr{lit("m"), lit("mm")}, SSpots: []SSpot{{Pos: p, S: lit("")}}})
				}
			}
		}
	}
}

func genLongSize(t *rapid.T, label string) int {
	if rapid.Bool().Draw(t, label+"-pow2") {
		return longSizes[rapid.IntRange(0, len(longSizes)-1).Draw(t, label+"-class")]
	}
	return rapid.IntRange(7, 5000).Draw(t, label)
}

func genLongPos(t *rapid.T, n int, label string) int {
	switch rapid.IntRange(0, 5).Draw(t, label+"-where") {
	case 0:
		return 0
	case 1:
		return n - 1
	case 2:
		return n - 2
	case 3:
		return 1
	}
	return rapid.IntRange(0, max(n-1, 0)).Draw(t, label)
}

var longStrPats = []string{"a", "ab", "abc", "\x00", "\xff", "a\xc3\xa9", "zzzzzzzy"}

func genLongStr(t *rapid.T, n int) LongStr {
	s := LongStr{N: n + rapid.IntRange(-1, 1).Draw(t, "dlen")}
	if s.N < 0 {
		s.N = 0
	}
	s.Pat = longStrPats[rapid.IntRange(0, len(longStrPats)-1).Draw(t, "pat")]
	ne := rapid.IntRange(0, 2).Draw(t, "edits")
	for i := 0; i < ne && s.N > 0; i++ {
		s.Edits = append(s.Edits, Spot{Pos: genLongPos(t, s.N, "editpos"),
			Bits: uint64(rapid.SampledFrom([]byte{0, 'A', 'a', 'b', 'z', 0x7f, 0x80, 0xff}).Draw(t, "byte"))})
	}
	return s
}

func genLong(t *rapid.T) Long {
	c := genLongWith(t, genLongSize)
	if wideType(c.Type).kind != "string" || len(c.SPat) > 0 && c.N > 4 {
		c.View = genView(t, 3)
	}
	return c
}

func genLongWith(t *rapid.T, genLongSize func(*rapid.T, string) int) Long {
	wt := wideTypeLottery[rapid.IntRange(0, len(wideTypeLottery)-1).Draw(t, "type")]
	c := Long{Type: wt.name}
	if wt.kind == "string" {
		if rapid.Bool().Draw(t, "many-short") {
			c.Fn = rapid.SampledFrom([]string{"Min", "Max"}).Draw(t, "fn")
			c.N = genLongSize(t, "n")
			np := rapid.IntRange(1, 3).Draw(t, "npat")
			var prev []string
			for i := 0; i < np; i++ {
				s := genString(t, prev)
				prev = append(prev, s)
				c.SPat = append(c.SPat, lit(s))
			}
			ns := rapid.IntRange(0, 3).Draw(t, "nspots")
			for i := 0; i < ns; i++ {
				c.SSpots = append(c.SSpots, SSpot{Pos: genLongPos(t, c.N, "pos"), S: lit(genString(t, prev))})
			}
			return c
		}
		c.Fn = rapid.SampledFrom(stringFns).Draw(t, "fn")
		switch c.Fn {
		case "Clamp":
			c.N = 3
		case "Compare", "Less":
			c.N = 2
		default:
			c.N = rapid.IntRange(1, 4).Draw(t, "n")
		}
		size := genLongSize(t, "strlen")
		pat := longStrPats[rapid.IntRange(0, len(longStrPats)-1).Draw(t, "basepat")]
		for i := 0; i < c.N; i++ {
			s := genLongStr(t, size)
			if rapid.IntRange(0, 3).Draw(t, "samepat") > 0 {
				s.Pat = pat // mostly a common pattern: long common prefixes
			}
			c.SPat = append(c.SPat, s)
		}
		if c.Fn == "Clamp" && bytes.Compare([]byte(c.SPat[1].build()), []byte(c.SPat[2].build())) > 0 {
			c.SPat[1], c.SPat[2] = c.SPat[2], c.SPat[1]
		}
		return c
	}
	fns := []string{"Sum", "Product"}
	if wt.kind != "complex" {
		fns = append(fns, "Min", "Max")
	}
	c.Fn = rapid.SampledFrom(fns).Draw(t, "fn")
	c.N = genLongSize(t, "n")
	one := func(prev []uint64) uint64 {
		if wt.kind == "int" {
			return wt.genInt(t, prev)
		}
		return genFloatBits(t, wt.partBits(), prev)
	}
	per := 1
	if wt.kind == "complex" {
		per = 2
	}
	np := rapid.IntRange(1, 3).Draw(t, "npat")
	for i := 0; i < np*per; i++ {
		c.Pat = append(c.Pat, one(c.Pat))
	}
	ns := rapid.IntRange(0, 3).Draw(t, "nspots")
	for i := 0; i < ns; i++ {
		sp := Spot{Pos: genLongPos(t, c.N, "pos"), Bits: one(c.Pat)}
		if per == 2 {
			sp.Im = one(c.Pat)
		}
		c.Spots = append(c.Spots, sp)
	}
	return c
}

var specLong = pbt.Register(&pbt.Spec[Long]{
	Property: "C20", Name: "C20.long",
	Rule: "long argument lists and long strings, judged by the oracles of C20.wide (math/big modulo 2^bits, same-order IEEE loops, bytes.Compare, Min/Max by validity). " +
		"Enumerated: Min/Max/Sum/Product with N = 7..4097 arguments around every power of two (2^k-1, 2^k, 2^k+1) and 5000, at int8, uint8, int64, uint64, uintptr, named ints (one with lying methods), " +
		"float32, float64, a named float with lying methods, complex64/128: a repeated value or short cycle with the smallest / largest value (3, 9, type extremes, +-Inf) placed first, second, in the middle, " +
		"second to last or last; wrapping integer sums and products; float sums and products whose value depends on the evaluation order (0.1 repeated, big+1-big cycles, 1 + 2^-60, one huge term among ones, Inf, " +
		"overflowing and underflowing products); strings of 7..5001 bytes that are equal, differ only in the first / middle / last byte (incl. 0x00 and 0xff), or are a prefix of each other, in Compare, Less, " +
		"2-argument Min/Max and Clamp (lo <= hi); Min/Max over N short strings with the answer at each of those positions. Then rapid draws: any type of C20.wide, N from the same classes or uniform in 7..5000, " +
		"cycles of 1..3 boundary-dense values with 0..3 overriding spots biased to both ends; 1..4 long strings over common patterns with 0..2 edited bytes. NaN never generated. " +
		"A third of the drawn variadic calls pass a window into a larger poisoned buffer (see C20.wide). One case in 16 is also run as 4 parallel independent copies. " +
		"non-trivial = more than 6 arguments, or a string argument longer than 8 bytes",
	Enum: enumLong,
	Gen:  genLong,
	Run:  RunLong, Quick: 2500, Thorough: 20000,
	Replicas: 4, ReplicaEvery: 16,
})
