//go:build !386

package c20

import (
	"fmt"

	typ "gopkg.in/typ.v4"
	"pgregory.net/rapid"
	"verifharness/internal/pbt"
)

// Local covers two usage patterns in one goroutine:
//
// Kind "names": DISTINCT types with the SAME printed name - four function-local types that are all called `job`
// (over int64, string, a two-word struct and [2]int32; %T prints c20.job for each) - go through the generic helpers
// alternately, Rounds times: per-type state keyed by the type's name would hand one type's zero value, pooled cell
// or cached answer to the other. TernCast[job] given a value of ANOTHER job must panic (value.(T) of a different type).
//
// Kind "stack": the variadic arguments are a slice of a LOCAL fixed-size array of the calling function (8, 64 or 512
// elements; the compiler may keep it on the goroutine stack as the callee does not retain it), the results and
// a Ref pointer are kept across a forced stack growth (a recursion Depth frames deep, which moves the stack), then
// compared with a recomputation and with a second call.
type Local struct {
	Kind   string `json:"kind"`
	A      int64  `json:"a"`
	Rounds int    `json:"rounds,omitempty"`
	Depth  int    `json:"depth,omitempty"`
	Size   int    `json:"size,omitempty"`
}

// jobProbe runs the helpers that exist for every comparable type on nz (non-zero) and the zero value.
func jobProbe[T comparable](which string, nz, nz2 T, foreign any) string {
	var zero T
	bad := func(call string, got, want any) string {
		return fmt.Sprintf("typ.%s at the local type job (%s) = %v, want %v", call, which, got, want)
	}
	if got := typ.Zero[T](); got != zero {
		return bad("Zero()", got, zero)
	}
	if got := typ.ZeroOf(nz); got != zero {
		return bad("ZeroOf(nz)", got, zero)
	}
	if typ.IsZero(nz) || !typ.IsZero(zero) {
		return bad("IsZero(nz), IsZero(zero)", "not false, true", "false, true")
	}
	if got := typ.Coal(zero, nz, nz2); got != nz {
		return bad("Coal(zero, nz, nz2)", got, nz)
	}
	if got := typ.Coal(zero, zero); got != zero {
		return bad("Coal(zero, zero)", got, zero)
	}
	p, q := typ.Ref(nz), typ.Ref(nz2)
	if p == nil || q == nil || p == q || *p != nz || *q != nz2 {
		return bad("Ref(nz), Ref(nz2)", "nil / the same pointer / a wrong value", "two distinct pointers to copies")
	}
	*q = zero // writing through one result must not show through the other
	if got := typ.DerefZero(p); got != nz {
		return bad("DerefZero(Ref(nz)) after *Ref(nz2) = zero", got, nz)
	}
	if got := typ.DerefZero((*T)(nil)); got != zero {
		return bad("DerefZero(nil)", got, zero)
	}
	if got := typ.Tern(true, nz, nz2); got != nz {
		return bad("Tern(true, nz, nz2)", got, nz)
	}
	if got := typ.Tern(false, nz, nz2); got != nz2 {
		return bad("Tern(false, nz, nz2)", got, nz2)
	}
	if got := typ.TernCast[T](true, any(nz), zero); got != nz {
		return bad("TernCast(true, any(nz), zero)", got, nz)
	}
	if got := typ.TernCast[T](false, foreign, nz2); got != nz2 {
		return bad("TernCast(false, a value of another type called job, nz2)", got, nz2)
	}
	if foreign != nil {
		panicked := func() (p bool) {
			defer func() { p = recover() != nil }()
			typ.TernCast[T](true, foreign, zero)
			return false
		}()
		if !panicked {
			return bad(fmt.Sprintf("TernCast(true, %#v - a value of ANOTHER local type that is also called job, zero)", foreign), "a value", "a panic (value.(T) with a different type)")
		}
	}
	if typ.IsNil(nz) || typ.IsNil(zero) {
		return bad("IsNil(nz), IsNil(zero)", true, false)
	}
	var boxed any = nz
	if typ.IsNil(boxed) || typ.IsZero(boxed) {
		return bad("IsNil(any(nz)), IsZero(any(nz))", true, false)
	}
	return ""
}

func jobOrdered[T interface{ ~int64 | ~string }](which string, lo, hi T) string {
	bad := func(call string, got, want any) string {
		return fmt.Sprintf("typ.%s at the local type job (%s) = %v, want %v", call, which, got, want)
	}
	if got := typ.Min(hi, lo, hi); got != lo {
		return bad("Min(hi, lo, hi)", got, lo)
	}
	if got := typ.Max(lo, hi, lo); got != hi {
		return bad("Max(lo, hi, lo)", got, hi)
	}
	if got := typ.Compare(lo, hi); got != -1 {
		return bad("Compare(lo, hi)", got, -1)
	}
	if typ.Less(hi, lo) || !typ.Less(lo, hi) {
		return bad("Less(hi, lo), Less(lo, hi)", "not false, true", "false, true")
	}
	if got := typ.Clamp(hi, lo, lo); got != lo {
		return bad("Clamp(hi, lo, lo)", got, lo)
	}
	return ""
}

func jobInt(a int64, foreign any) (string, any) {
	type job int64
	x, y := job(a|1), job(a|1)+2 // non-zero, x < y unless wrapping
	if y < x {
		x, y = y, x
	}
	if m := jobProbe("an int64", x, y, foreign); m != "" {
		return m, x
	}
	if m := jobOrdered("an int64", x, y); m != "" {
		return m, x
	}
	if got, want := typ.Sum(x, y), x+y; got != want {
		return fmt.Sprintf("typ.Sum at the local type job (an int64) = %v, want %v", got, want), x
	}
	if got, want := typ.Digits10(job(a)), len(fmt.Sprint(uint64(max(a, -a)))); a != -a && got != want {
		return fmt.Sprintf("typ.Digits10(job(%d)) at the local type job (an int64) = %v, want %v", a, got, want), x
	}
	return "", x
}

func jobString(a int64, foreign any) (string, any) {
	type job string
	x, y := job(fmt.Sprint("j", a&0xffff)), job(fmt.Sprint("k", a&0xffff))
	if m := jobProbe("a string", x, y, foreign); m != "" {
		return m, x
	}
	return jobOrdered("a string", x, y), x
}

func jobStruct(a int64, foreign any) (string, any) {
	type job struct{ ID, Pri int64 }
	return jobProbe("struct{ID, Pri int64}", job{a, 1}, job{0, a | 1}, foreign), job{a, 1}
}

func jobArr(a int64, foreign any) (string, any) {
	type job [2]int32
	return jobProbe("[2]int32", job{int32(a), 1}, job{0, int32(a) | 1}, foreign), job{int32(a), 1}
}

// growStack recurses depth frames deep (each frame holds 256 bytes that are really used), which forces the runtime to
// move the goroutine's stack to a larger one.
//
//go:noinline
func growStack(depth int, salt byte) byte {
	var pad [256]byte
	for i := range pad {
		pad[i] = salt + byte(i)
	}
	if depth <= 0 {
		return pad[int(salt)%256]
	}
	return growStack(depth-1, salt+pad[7]) ^ pad[int(salt)%256]
}

type stackRes struct {
	min, max, sum, prod, coal int64
	cmp                       int
	fmin                      float64
}

func stackWant(v []int64) (r stackRes) {
	r.min, r.max, r.prod = v[0], v[0], 1
	for _, x := range v {
		r.min, r.max = min(r.min, x), max(r.max, x)
		r.sum += x
		r.prod *= x
		if r.coal == 0 {
			r.coal = x
		}
	}
	return r
}

func stackFill(v []int64, a int64) {
	for i := range v {
		v[i] = a + int64(i*i%97) - 40
	}
	v[0], v[len(v)/2] = 0, 0 // Coal has zeros to skip
}

// the bodies must be written out per array length: the arrays are local variables of these functions

//go:noinline
func stackCase8(a int64, depth int) string {
	var arr [8]int64
	stackFill(arr[:], a)
	got := stackRes{min: typ.Min(arr[:]...), max: typ.Max(arr[:]...), sum: typ.Sum(arr[:]...), prod: typ.Product(arr[:]...), coal: typ.Coal(arr[:]...)}
	p := typ.Ref(arr[3])
	salt := growStack(depth, byte(a))
	return stackCheck(arr[:], a, got, p, typ.Min(arr[:]...), typ.Sum(arr[:]...), salt)
}

//go:noinline
func stackCase64(a int64, depth int) string {
	var arr [64]int64
	stackFill(arr[:], a)
	got := stackRes{min: typ.Min(arr[:]...), max: typ.Max(arr[:]...), sum: typ.Sum(arr[:]...), prod: typ.Product(arr[:]...), coal: typ.Coal(arr[:]...)}
	p := typ.Ref(arr[3])
	salt := growStack(depth, byte(a))
	return stackCheck(arr[:], a, got, p, typ.Min(arr[:]...), typ.Sum(arr[:]...), salt)
}

//go:noinline
func stackCase512(a int64, depth int) string {
	var arr [512]int64
	stackFill(arr[:], a)
	got := stackRes{min: typ.Min(arr[:]...), max: typ.Max(arr[:]...), sum: typ.Sum(arr[:]...), prod: typ.Product(arr[:]...), coal: typ.Coal(arr[:]...)}
	p := typ.Ref(arr[3])
	salt := growStack(depth, byte(a))
	return stackCheck(arr[:], a, got, p, typ.Min(arr[:]...), typ.Sum(arr[:]...), salt)
}

func stackCheck(v []int64, a int64, got stackRes, p *int64, min2, sum2 int64, salt byte) string {
	ref := make([]int64, len(v))
	stackFill(ref, a)
	for i := range v {
		if v[i] != ref[i] {
			return fmt.Sprintf("element #%d of the caller's local array of %d int64 changed from %d to %d", i, len(v), ref[i], v[i])
		}
	}
	want := stackWant(ref)
	if got != want {
		return fmt.Sprintf("Min, Max, Sum, Product, Coal on a slice of a local array of %d int64 (a + i*i%%97 - 40 with a = %d, zeros at 0 and the middle) = %+v, want %+v", len(v), a, got, want)
	}
	if p == nil || *p != ref[3] {
		return fmt.Sprintf("*typ.Ref(arr[3]) changed after the goroutine's stack was moved (want %d)", ref[3])
	}
	if min2 != want.min || sum2 != want.sum {
		return fmt.Sprintf("after the goroutine's stack was moved by a deep recursion (salt %d): Min, Sum on the same local array of %d int64 = %d, %d, want %d, %d", salt, len(v), min2, sum2, want.min, want.sum)
	}
	return ""
}

func RunLocal(c Local) pbt.Outcome {
	switch c.Kind {
	case "names":
		if c.Rounds < 1 || c.Rounds > 1000 {
			return malformed()
		}
		fns := []func(int64, any) (string, any){jobInt, jobString, jobStruct, jobArr}
		var foreign any // the value produced by the previous (different) job type
		for r := 0; r < c.Rounds; r++ {
			for i := range fns {
				msg, v := fns[(i+int(c.A&3))%4](c.A+int64(r), foreign)
				if msg != "" {
					return pbt.Fail("%s (round %d of a case that uses four distinct local types, all called job, alternately)", msg, r)
				}
				if name := fmt.Sprintf("%T", v); name != "c20.job" {
					return pbt.Outcome{Inconclusive: "local type prints as " + name}
				}
				foreign = v
			}
		}
		cls := "rounds:1"
		switch {
		case c.Rounds >= 100:
			cls = "rounds:>=100"
		case c.Rounds >= 17:
			cls = "rounds:17..99"
		case c.Rounds >= 2:
			cls = "rounds:2..16"
		}
		return pbt.Outcome{Labels: []string{"kind:names", cls}, NonTrivial: true, Evals: c.Rounds * 4 * 20}
	case "stack":
		if c.Depth < 0 || c.Depth > 200000 {
			return malformed()
		}
		var msg string
		switch c.Size {
		case 8:
			msg = stackCase8(c.A, c.Depth)
		case 64:
			msg = stackCase64(c.A, c.Depth)
		case 512:
			msg = stackCase512(c.A, c.Depth)
		default:
			return malformed()
		}
		if msg != "" {
			return pbt.Fail("%s", msg)
		}
		cls := "recursion:<256KiB"
		if c.Depth*300 >= 256<<10 {
			cls = "recursion:>=256KiB"
		}
		return pbt.Outcome{Labels: []string{"kind:stack", fmt.Sprintf("array:%d", c.Size), cls}, NonTrivial: c.Depth >= 64, Evals: 8}
	}
	return malformed()
}

func enumLocal(shard, shards int, tier string, yield func(Local) bool) {
	k := 0
	emit := func(c Local) bool {
		mine := k%shards == shard
		k++
		return !mine || yield(c)
	}
	for _, a := range []int64{0, 1, -1, 99, 1 << 40, -1 << 63, 1<<63 - 1} {
		for _, r := range []int{1, 2, 17, 300} {
			if !emit(Local{Kind: "names", A: a, Rounds: r}) {
				return
			}
		}
		for _, size := range []int{8, 64, 512} {
			for _, d := range []int{0, 16, 64, 256, 1024, 4096, 30000} {
				if !emit(Local{Kind: "stack", A: a, Size: size, Depth: d}) {
					return
				}
			}
		}
	}
}

func genLocal(t *rapid.T) Local {
	a := rapid.OneOf(rapid.Int64Range(-1000, 1000), rapid.Int64()).Draw(t, "a")
	if rapid.Bool().Draw(t, "names") {
		return Local{Kind: "names", A: a, Rounds: rapid.IntRange(1, 40).Draw(t, "rounds")}
	}
	return Local{Kind: "stack", A: a, Size: rapid.SampledFrom([]int{8, 64, 512}).Draw(t, "size"), Depth: rapid.IntRange(0, 9000).Draw(t, "depth")}
}

var specLocal = pbt.Register(&pbt.Spec[Local]{
	Property: "C20", Name: "C20.local",
	Rule: "grid + rapid. names: four DISTINCT function-local types that are all called job (over int64, string, struct{ID, Pri int64}, [2]int32; each prints as c20.job) go alternately, 1..300 rounds, through Zero, ZeroOf, IsZero, Coal, Ref (two results, one overwritten, the other re-read), " +
		"DerefZero, Tern, TernCast (own type; a value of the PREVIOUS job type must panic), IsNil, and where ordered / numeric Min, Max, Compare, Less, Clamp, Sum, Digits10 - per-type state keyed by the type's name. " +
		"stack: Min, Max, Sum, Product, Coal, Ref on a slice of a LOCAL array of 8, 64, 512 int64 of the calling function; results and the Ref pointer kept across a recursion of 0..30000 frames of 256 bytes (the goroutine's stack is moved), " +
		"then compared with a recomputation, the array compared with its formula, Min and Sum called again. non-trivial = names: every case; stack: at least 64 frames",
	Gen: genLocal, Enum: enumLocal, Run: RunLocal,
	Quick: 3000, Thorough: 60000,
	Replicas: 4, ReplicaEvery: 8,
})
