//go:build !386

package c20

import (
	"fmt"
	"math"
	"strconv"
	"time"

	typ "gopkg.in/typ.v4"
	"verifharness/internal/pbt"
)

// Repeat is Reps consecutive calls of one helper, alternating between two
// argument values (A on even, B on odd calls); every single result is compared
// with the expected value, which is computed once, before the loop, by a
// reference that does not use the library. A call counter inside the library
// that wraps after 2^16 (quick) or 2^32 (C20.repeat32, thorough only) calls, or
// a cache that confuses two alternating arguments, shows as one wrong result.
type Repeat struct {
	Fn   string `json:"fn"`
	A    int64  `json:"a"`
	B    int64  `json:"b"`
	Reps uint64 `json:"reps"`
}

// repLoop is the common loop. f(odd) performs the call for the even/odd argument.
func repLoop[R any](reps uint64, eq func(x, y R) bool, f func(odd bool) R, w0, w1 R, call func(odd bool) string) string {
	for i := uint64(0); i < reps; i++ {
		odd := i&1 == 1
		got := f(odd)
		w := w0
		if odd {
			w = w1
		}
		if !eq(got, w) {
			return fmt.Sprintf("%s = %v, want %v (call #%d of %d consecutive calls alternating between two arguments; earlier calls with the same argument returned the right value)", call(odd), got, w, i, reps)
		}
	}
	return ""
}

func eqOf[R comparable](x, y R) bool { return x == y }

func pick[T any](odd bool, a, b T) T {
	if odd {
		return b
	}
	return a
}

type repEntry struct {
	name string
	run  func(a, b int64, reps uint64) string
}

func decLen(x int64) (digits, withSign int) {
	s := strconv.FormatInt(x, 10)
	if x < 0 {
		return len(s) - 1, len(s)
	}
	return len(s), len(s)
}

func cmp3[T int64 | string](x, y T) int {
	switch {
	case x < y:
		return -1
	case x > y:
		return 1
	}
	return 0
}

func b2i(b bool) int64 {
	if b {
		return 1
	}
	return 0
}

var repEntries = []repEntry{
	{"Digits10[int64]", func(a, b int64, reps uint64) string {
		w0, _ := decLen(a)
		w1, _ := decLen(b)
		return repLoop(reps, eqOf[int], func(o bool) int { return typ.Digits10(pick(o, a, b)) }, w0, w1,
			func(o bool) string { return fmt.Sprintf("typ.Digits10(int64(%d))", pick(o, a, b)) })
	}},
	{"DigitsSign10[int64]", func(a, b int64, reps uint64) string {
		_, w0 := decLen(a)
		_, w1 := decLen(b)
		return repLoop(reps, eqOf[int], func(o bool) int { return typ.DigitsSign10(pick(o, a, b)) }, w0, w1,
			func(o bool) string { return fmt.Sprintf("typ.DigitsSign10(int64(%d))", pick(o, a, b)) })
	}},
	{"Digits10[int8]", func(a, b int64, reps uint64) string {
		x, y := int8(a), int8(b)
		w0, _ := decLen(int64(x))
		w1, _ := decLen(int64(y))
		return repLoop(reps, eqOf[int], func(o bool) int { return typ.Digits10(pick(o, x, y)) }, w0, w1,
			func(o bool) string { return fmt.Sprintf("typ.Digits10(int8(%d))", pick(o, x, y)) })
	}},
	{"DigitsSign10[uint64]", func(a, b int64, reps uint64) string {
		x, y := uint64(a), uint64(b)
		w0, w1 := len(strconv.FormatUint(x, 10)), len(strconv.FormatUint(y, 10))
		return repLoop(reps, eqOf[int], func(o bool) int { return typ.DigitsSign10(pick(o, x, y)) }, w0, w1,
			func(o bool) string { return fmt.Sprintf("typ.DigitsSign10(uint64(%d))", pick(o, x, y)) })
	}},
	{"Abs[int64]", func(a, b int64, reps uint64) string {
		if a == math.MinInt64 { // |min| is not representable: outside the statement
			a = math.MinInt64 + 1
		}
		if b == math.MinInt64 {
			b = math.MinInt64 + 1
		}
		mag := func(x int64) int64 {
			if x < 0 {
				return -x
			}
			return x
		}
		return repLoop(reps, eqOf[int64], func(o bool) int64 { return typ.Abs(pick(o, a, b)) }, mag(a), mag(b),
			func(o bool) string { return fmt.Sprintf("typ.Abs(int64(%d))", pick(o, a, b)) })
	}},
	{"Abs[float64]", func(a, b int64, reps uint64) string {
		x, y := float64(a)/2, float64(b)/2
		return repLoop(reps, eqOf[float64], func(o bool) float64 { return typ.Abs(pick(o, x, y)) }, math.Abs(x), math.Abs(y),
			func(o bool) string { return fmt.Sprintf("typ.Abs(float64(%v))", pick(o, x, y)) })
	}},
	{"Min[int64]", func(a, b int64, reps uint64) string {
		return repLoop(reps, eqOf[int64], func(o bool) int64 { return typ.Min(7, pick(o, a, b), -3) }, min(7, a, -3), min(7, b, -3),
			func(o bool) string { return fmt.Sprintf("typ.Min[int64](7, %d, -3)", pick(o, a, b)) })
	}},
	{"Max[int64]", func(a, b int64, reps uint64) string {
		return repLoop(reps, eqOf[int64], func(o bool) int64 { return typ.Max(7, pick(o, a, b), -3) }, max(7, a, -3), max(7, b, -3),
			func(o bool) string { return fmt.Sprintf("typ.Max[int64](7, %d, -3)", pick(o, a, b)) })
	}},
	{"Sum[int64]", func(a, b int64, reps uint64) string {
		return repLoop(reps, eqOf[int64], func(o bool) int64 { return typ.Sum(7, pick(o, a, b), -3) }, 7+a+(-3), 7+b+(-3),
			func(o bool) string { return fmt.Sprintf("typ.Sum[int64](7, %d, -3)", pick(o, a, b)) })
	}},
	{"Product[int64]", func(a, b int64, reps uint64) string {
		return repLoop(reps, eqOf[int64], func(o bool) int64 { return typ.Product(7, pick(o, a, b), -3) }, 7*a*(-3), 7*b*(-3),
			func(o bool) string { return fmt.Sprintf("typ.Product[int64](7, %d, -3)", pick(o, a, b)) })
	}},
	{"Sum[float64]", func(a, b int64, reps uint64) string {
		x, y := float64(a)/2, float64(b)/2
		ref := func(v float64) float64 { s := 0.0; s += 0.1; s += v; s += 1e16; return s }
		return repLoop(reps, eqOf[float64], func(o bool) float64 { return typ.Sum(0.1, pick(o, x, y), 1e16) }, ref(x), ref(y),
			func(o bool) string { return fmt.Sprintf("typ.Sum[float64](0.1, %v, 1e16)", pick(o, x, y)) })
	}},
	{"Clamp[int64]", func(a, b int64, reps uint64) string {
		cl := func(v int64) int64 { return max(-5, min(v, 5)) }
		return repLoop(reps, eqOf[int64], func(o bool) int64 { return typ.Clamp(pick(o, a, b), -5, 5) }, cl(a), cl(b),
			func(o bool) string { return fmt.Sprintf("typ.Clamp[int64](%d, -5, 5)", pick(o, a, b)) })
	}},
	{"Clamp01[float64]", func(a, b int64, reps uint64) string {
		x, y := float64(a)/2, float64(b)/2
		cl := func(v float64) float64 { return math.Max(0, math.Min(v, 1)) + 0 } // +0: -0 is not produced from these inputs (halves of integers; -0 never an input)
		return repLoop(reps, eqOf[float64], func(o bool) float64 { return typ.Clamp01(pick(o, x, y)) }, cl(x), cl(y),
			func(o bool) string { return fmt.Sprintf("typ.Clamp01(float64(%v))", pick(o, x, y)) })
	}},
	{"Compare[int64]", func(a, b int64, reps uint64) string {
		return repLoop(reps, eqOf[int], func(o bool) int { return typ.Compare(pick(o, a, b), 10) }, cmp3(a, 10), cmp3(b, 10),
			func(o bool) string { return fmt.Sprintf("typ.Compare[int64](%d, 10)", pick(o, a, b)) })
	}},
	{"Less[int64]", func(a, b int64, reps uint64) string {
		return repLoop(reps, eqOf[bool], func(o bool) bool { return typ.Less(pick(o, a, b), 10) }, a < 10, b < 10,
			func(o bool) string { return fmt.Sprintf("typ.Less[int64](%d, 10)", pick(o, a, b)) })
	}},
	{"Compare[string]", func(a, b int64, reps uint64) string {
		x, y := strconv.FormatInt(a, 10), strconv.FormatInt(b, 10)
		return repLoop(reps, eqOf[int], func(o bool) int { return typ.Compare(pick(o, x, y), "5") }, cmp3(x, "5"), cmp3(y, "5"),
			func(o bool) string { return fmt.Sprintf("typ.Compare[string](%q, \"5\")", pick(o, x, y)) })
	}},
	{"Min[string]", func(a, b int64, reps uint64) string {
		x, y := strconv.FormatInt(a, 10), strconv.FormatInt(b, 10)
		return repLoop(reps, eqOf[string], func(o bool) string { return typ.Min("5", pick(o, x, y), "50") }, min("5", x, "50"), min("5", y, "50"),
			func(o bool) string { return fmt.Sprintf("typ.Min[string](\"5\", %q, \"50\")", pick(o, x, y)) })
	}},
	{"Coal[int64]", func(a, b int64, reps uint64) string {
		ref := func(v int64) int64 {
			if v != 0 {
				return v
			}
			return 9
		}
		return repLoop(reps, eqOf[int64], func(o bool) int64 { return typ.Coal(0, pick(o, a, b), 9) }, ref(a), ref(b),
			func(o bool) string { return fmt.Sprintf("typ.Coal[int64](0, %d, 9)", pick(o, a, b)) })
	}},
	{"Coal[string]", func(a, b int64, reps uint64) string {
		x, y := strconv.FormatInt(a, 10), strconv.FormatInt(b, 10)
		return repLoop(reps, eqOf[string], func(o bool) string { return typ.Coal("", pick(o, x, y), "z") }, x, y,
			func(o bool) string { return fmt.Sprintf("typ.Coal[string](\"\", %q, \"z\")", pick(o, x, y)) })
	}},
	{"Coal[any]", func(a, b int64, reps uint64) string {
		var x, y any = a, (*int64)(nil) // even calls: a boxed number; odd calls: a non-nil interface holding a nil pointer
		return repLoop(reps, eqOf[any], func(o bool) any { return typ.Coal(nil, pick(o, x, y), any("z")) }, x, y,
			func(o bool) string { return fmt.Sprintf("typ.Coal[any](nil, %#v, \"z\")", pick(o, x, y)) })
	}},
	{"IsZero[int64]", func(a, b int64, reps uint64) string {
		return repLoop(reps, eqOf[bool], func(o bool) bool { return typ.IsZero(pick(o, a, b)) }, a == 0, b == 0,
			func(o bool) string { return fmt.Sprintf("typ.IsZero(int64(%d))", pick(o, a, b)) })
	}},
	{"IsZero[stamp]", func(a, b int64, reps uint64) string {
		x, y := stamp{a, 1}, stamp{b, 1}
		return repLoop(reps, eqOf[bool], func(o bool) bool { return typ.IsZero(pick(o, x, y)) }, a == 0, b == 0,
			func(o bool) string { return fmt.Sprintf("typ.IsZero(%v) (IsZero() method: Sec == 0)", pick(o, x, y)) })
	}},
	{"IsZero[any]", func(a, b int64, reps uint64) string {
		var x, y any = stamp{a, 1}, b
		return repLoop(reps, eqOf[bool], func(o bool) bool { return typ.IsZero(pick(o, x, y)) }, a == 0, false,
			func(o bool) string { return fmt.Sprintf("typ.IsZero[any](%#v)", pick(o, x, y)) })
	}},
	{"Zero/ZeroOf[int64]", func(a, b int64, reps uint64) string {
		return repLoop(reps, eqOf[int64], func(o bool) int64 {
			if o {
				return typ.ZeroOf(b)
			}
			return typ.Zero[int64]()
		}, 0, 0, func(o bool) string { return pick(o, "typ.Zero[int64]()", fmt.Sprintf("typ.ZeroOf(int64(%d))", b)) })
	}},
	{"Tern[int64]", func(a, b int64, reps uint64) string {
		return repLoop(reps, eqOf[int64], func(o bool) int64 { return typ.Tern(o, a, b) }, b, a,
			func(o bool) string { return fmt.Sprintf("typ.Tern[int64](%v, %d, %d)", o, a, b) })
	}},
	{"TernCast[int64]", func(a, b int64, reps uint64) string {
		var x any = a
		return repLoop(reps, eqOf[int64], func(o bool) int64 { return typ.TernCast(!o, pick[any](o, x, "not a number"), b) }, a, b,
			func(o bool) string {
				return fmt.Sprintf("typ.TernCast[int64](%v, %#v, %d)", !o, pick[any](o, x, "not a number"), b)
			})
	}},
	{"Ref[int64]", func(a, b int64, reps uint64) string {
		var prev *int64
		return repLoop(reps, eqOf[int64], func(o bool) int64 {
			p := typ.Ref(pick(o, a, b))
			if p == nil || p == prev {
				return b2i(p == nil) - 7777 // never equal to the expected value below (a+1 / b+1 are compared instead)
			}
			prev = p
			return *p + 1
		}, a+1, b+1, func(o bool) string {
			return fmt.Sprintf("*typ.Ref(int64(%d)) + 1 (or: nil / the very pointer returned by the previous call)", pick(o, a, b))
		})
	}},
	{"DerefZero[*int64]", func(a, b int64, reps uint64) string {
		cell := a
		return repLoop(reps, eqOf[int64], func(o bool) int64 { return typ.DerefZero(pick(o, &cell, nil)) }, a, 0,
			func(o bool) string {
				return pick(o, fmt.Sprintf("typ.DerefZero(pointer to int64(%d))", a), "typ.DerefZero[*int64](nil)")
			})
	}},
	{"IsNil[any]", func(a, b int64, reps uint64) string {
		var x, y any = nil, (*int64)(nil)
		if a != 0 {
			x = a
		}
		return repLoop(reps, eqOf[bool], func(o bool) bool { return typ.IsNil(pick(o, x, y)) }, a == 0, false,
			func(o bool) string { return fmt.Sprintf("typ.IsNil[any](%#v)", pick(o, x, y)) })
	}},
	{"IsNil[error]", func(a, b int64, reps uint64) string {
		var x, y error = nil, (*ptrErr)(nil)
		return repLoop(reps, eqOf[bool], func(o bool) bool { return typ.IsNil(pick(o, x, y)) }, true, false,
			func(o bool) string { return pick(o, "typ.IsNil[error](nil)", "typ.IsNil[error]((*ptrErr)(nil))") })
	}},
}

func repEntryOf(name string) *repEntry {
	for i := range repEntries {
		if repEntries[i].name == name {
			return &repEntries[i]
		}
	}
	return nil
}

const maxQuickReps = 1 << 22

func runRepeat(c Repeat, maxReps uint64) pbt.Outcome {
	e := repEntryOf(c.Fn)
	if e == nil || c.Reps == 0 || c.Reps > maxReps {
		return malformed()
	}
	if msg := e.run(c.A, c.B, c.Reps); msg != "" {
		return pbt.Fail("%s", msg)
	}
	cls := "reps<=2^16"
	switch {
	case c.Reps > 1<<32:
		cls = "reps>2^32"
	case c.Reps > 1<<17:
		cls = "reps>2^17"
	case c.Reps > 1<<16:
		cls = "reps>2^16"
	}
	return pbt.Outcome{Labels: []string{"fn:" + c.Fn, cls}, NonTrivial: c.Reps > 1<<16, Evals: int(min(c.Reps, 1<<40))}
}

func RunRepeat(c Repeat) pbt.Outcome   { return runRepeat(c, maxQuickReps) }
func RunRepeat32(c Repeat) pbt.Outcome { return runRepeat(c, 1<<32+1<<20) }

var repArgs = [][2]int64{{0, -128}, {99, 100}, {math.MinInt64, math.MaxInt64}, {-1000000000, 0}}

// slow32: instantiations whose single call allocates (boxing a struct for the method lookup, a fresh cell per Ref):
// 2^32 calls take several minutes each; they are left to C20.repeat (2^16, 2^17).
var slow32 = map[string]bool{"IsZero[stamp]": true, "Ref[int64]": true}

func enumRepeat(reps []uint64, args [][2]int64) func(shard, shards int, tier string, yield func(Repeat) bool) {
	return func(shard, shards int, tier string, yield func(Repeat) bool) {
		k := 0
		for _, e := range repEntries {
			if reps[0] > 1<<32 && slow32[e.name] {
				continue
			}
			for _, r := range reps {
				for _, ab := range args {
					mine := k%shards == shard
					k++
					if mine && !yield(Repeat{Fn: e.name, A: ab[0], B: ab[1], Reps: r}) {
						return
					}
				}
			}
		}
	}
}

var specRepeat = pbt.Register(&pbt.Spec[Repeat]{
	Property: "C20", Name: "C20.repeat",
	Rule: "enumerated: for each of 30 helper instantiations (Digits10/DigitsSign10 at int8, int64, uint64; Abs, Min, Max, Sum, Product, Clamp, Clamp01, Compare, Less at int64 / float64 / string; Coal at int64, string, any; " +
		"IsZero at int64, a type with an IsZero method, any; Zero/ZeroOf, Tern, TernCast, Ref (fresh pointer each call), DerefZero (non-nil / nil), IsNil at any and error (nil interface / interface holding a nil pointer)) " +
		"2^16+3 and 2^17+3 consecutive calls alternating between two argument values (0/-128, 99/100, MinInt64/MaxInt64, -10^9/0), every result compared with a value computed once by a reference outside the library " +
		"(strconv, built-in operators). Covers per-function call counters that wrap after 2^16 calls and caches that confuse alternating arguments. non-trivial = more than 2^16 calls",
	Enum: enumRepeat([]uint64{1<<16 + 3, 1<<17 + 3}, repArgs),
	Run:  RunRepeat, Exhaustive: true,
	Replicas: 4, ReplicaEvery: 8,
})

var specRepeat32 = pbt.Register(&pbt.Spec[Repeat]{
	Property: "C20", Name: "C20.repeat32",
	Rule: "thorough only: as C20.repeat with 2^32+3 consecutive calls per helper instantiation (arguments 99/100; without IsZero at the type with a method and Ref, whose calls allocate: minutes per case): " +
		"per-function call counters that wrap after 2^32 calls. non-trivial = every case",
	Enum: enumRepeat([]uint64{1<<32 + 3}, [][2]int64{{99, 100}}),
	Run:  RunRepeat32, Exhaustive: true,
	CaseCPU: 30 * time.Minute,
})
