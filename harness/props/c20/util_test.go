//go:build !386

package c20

import (
	"errors"
	"fmt"
	"strconv"
	"unsafe"

	typ "gopkg.in/typ.v4"
	"pgregory.net/rapid"
	"verifharness/internal/pbt"
)

// Util is one call of one utility helper. Element i of the argument list is
// built from (Ints[i], Strs[i]) according to Type:
//
//	int     int64(Ints[i])                  string  Strs[i]
//	float   float64(Ints[i])/2 (never -0)   pair    pair{Ints[i], Strs[i]}
//	ptr     Ints[i] mod 4: 0 = nil, k = address of cell k-1 of a fresh per-case pool
//	iface   any: Ints[i] == 0 nil; > 0 any(int64); < 0 any("s"+Strs[i])  (never a non-nil interface holding a zero value)
//	IsNil   Ints[0] is an index (modulo the table size) into isNilTable of the interface type
//	stamp   stamp{Sec: Ints[i], Loc: Ints[i+1]} - a comparable type whose IsZero() is true whenever Sec == 0
type Util struct {
	Fn   string   `json:"fn"`
	Type string   `json:"type"`
	Ints []int64  `json:"ints,omitempty"`
	Strs []string `json:"strs,omitempty"`
	Cond bool     `json:"cond,omitempty"`
}

type pair struct {
	A int64
	B string
}

type stamp struct{ Sec, Loc int64 }

func (s stamp) IsZero() bool { return s.Sec == 0 }

// odd is a comparable type whose IsZero() is FALSE for its own zero value and true for one non-zero value:
// typ.IsZero must still report the zero value as zero (value == zero is checked first, the method only otherwise).
type odd struct{ N int64 }

func (o odd) IsZero() bool     { return o.N == 7 }
func (s stamp) String() string { return fmt.Sprintf("stamp(%d,%d)", s.Sec, s.Loc) }

type (
	zeroer   interface{ IsZero() bool }
	intPtr   *int64
	slice    = []int64
	strMap   = map[string]int64
	array3   = [3]int64
	funcType = func()
)

func (c Util) int(i int) int64 {
	if i < len(c.Ints) {
		return c.Ints[i]
	}
	return 0
}

func (c Util) str(i int) string {
	if i < len(c.Strs) {
		return c.Strs[i]
	}
	return ""
}

func mod(x int64, m int64) int64 { return ((x % m) + m) % m }

// elems builds the argument list and tells, from the encoding alone, which elements are zero values.
func (c Util) ints() (v []int64, zero []bool) {
	for i := range c.Ints {
		v = append(v, c.Ints[i])
		zero = append(zero, c.Ints[i] == 0)
	}
	return
}
func (c Util) strs() (v []string, zero []bool) {
	for i := range c.Ints {
		v = append(v, c.str(i))
		zero = append(zero, c.str(i) == "")
	}
	return
}
func (c Util) floats() (v []float64, zero []bool) {
	for i := range c.Ints {
		v = append(v, float64(c.Ints[i])/2)
		zero = append(zero, c.Ints[i] == 0)
	}
	return
}
func (c Util) pairs() (v []pair, zero []bool) {
	for i := range c.Ints {
		v = append(v, pair{c.Ints[i], c.str(i)})
		zero = append(zero, c.Ints[i] == 0 && c.str(i) == "")
	}
	return
}
func (c Util) ptrs(pool *[3]int64) (v []*int64, zero []bool) {
	for i := range c.Ints {
		k := mod(c.Ints[i], 4)
		if k == 0 {
			v = append(v, nil)
		} else {
			v = append(v, &pool[k-1])
		}
		zero = append(zero, k == 0)
	}
	return
}
func (c Util) ifaces() (v []any, zero []bool) {
	for i := range c.Ints {
		switch x := c.Ints[i]; {
		case x == 0:
			v = append(v, nil)
		case x > 0:
			v = append(v, x)
		default:
			v = append(v, "s"+c.str(i))
		}
		zero = append(zero, c.Ints[i] == 0)
	}
	return
}

// coalCheck: Coal must return the first non-zero element, or the zero value.
func coalCheck[T comparable](c Util, out *pbt.Outcome, v []T, zero []bool) string {
	var z T
	want, first := z, -1
	distinct := false
	for i := range v {
		if zero[i] != (v[i] == z) {
			return fmt.Sprintf("harness error: element %d of %+v: encoded zero=%v but value %v", i, c, zero[i], v[i])
		}
		if !zero[i] {
			if first < 0 {
				first, want = i, v[i]
			} else if v[i] != want {
				distinct = true
			}
		}
	}
	switch {
	case len(v) == 0:
		out.Labels = append(out.Labels, "coal:no-args")
	case first < 0:
		out.Labels = append(out.Labels, "coal:all-zero")
	case first == 0:
		out.Labels = append(out.Labels, "coal:first-arg-nonzero")
	default:
		out.Labels = append(out.Labels, "coal:zeros-then-nonzero")
	}
	if distinct {
		out.Labels = append(out.Labels, "coal:several-distinct-nonzero")
	}
	out.NonTrivial = len(v) >= 2 && (distinct || first > 0)
	if got := typ.Coal(v...); got != want {
		return fmt.Sprintf("typ.Coal[%s](%v) = %v, want %v (first non-zero argument, or zero)", c.Type, v, got, want)
	}
	return ""
}

func zeroCheck[T comparable](name string) string {
	var z T
	if got := typ.Zero[T](); got != z {
		return fmt.Sprintf("typ.Zero[%s]() = %v, want the zero value %v", name, got, z)
	}
	return ""
}

func zeroOfCheck[T comparable](name string, arg T) string {
	var z T
	if got := typ.ZeroOf(arg); got != z {
		return fmt.Sprintf("typ.ZeroOf[%s](%v) = %v, want the zero value %v", name, arg, got, z)
	}
	return ""
}

func isZeroCheck[T comparable](name string, v T, want bool) string {
	if got := typ.IsZero(v); got != want {
		return fmt.Sprintf("typ.IsZero[%s](%+v) = %v, want %v", name, v, got, want)
	}
	return ""
}

func ternCheck[T comparable](name string, cond bool, a, b T) string {
	want := b
	if cond {
		want = a
	}
	if got := typ.Tern(cond, a, b); got != want {
		return fmt.Sprintf("typ.Tern[%s](%v, %v, %v) = %v, want %v", name, cond, a, b, got, want)
	}
	return ""
}

func ternCastCheck[T comparable](name string, cond bool, value any, ifFalse, want T) string {
	if got := typ.TernCast(cond, value, ifFalse); got != want {
		return fmt.Sprintf("typ.TernCast[%s](%v, %#v, %v) = %v, want %v", name, cond, value, ifFalse, got, want)
	}
	return ""
}

// refCheck: Ref returns a fresh pointer to a copy of the value on every call.
func refCheck[T comparable](name string, v, other T) string {
	local := v
	p, q := typ.Ref(local), typ.Ref(local)
	switch {
	case p == nil || q == nil:
		return fmt.Sprintf("typ.Ref[%s](%v) returned nil", name, v)
	case *p != v || *q != v:
		return fmt.Sprintf("typ.Ref[%s](%v) points to %v / %v, want %v", name, v, *p, *q, v)
	case p == q:
		return fmt.Sprintf("typ.Ref[%s](%v) returned the same pointer for two calls", name, v)
	case p == &local || q == &local:
		return fmt.Sprintf("typ.Ref[%s](%v) returned the address of the caller's variable", name, v)
	}
	*p = other
	if *q != v || local != v {
		return fmt.Sprintf("typ.Ref[%s](%v): writing %v through one result changed another copy (second result %v, caller's variable %v)", name, v, other, *q, local)
	}
	return ""
}

func derefCheck[P ~*V, V comparable](name string, isNil bool, v V) string {
	var z V
	if isNil {
		var p P
		if got := typ.DerefZero(p); got != z {
			return fmt.Sprintf("typ.DerefZero[%s](nil) = %v, want the zero value %v", name, got, z)
		}
		return ""
	}
	cell := v
	if got := typ.DerefZero(P(&cell)); got != v {
		return fmt.Sprintf("typ.DerefZero[%s](&%v) = %v, want %v", name, v, got, v)
	}
	if cell != v {
		return fmt.Sprintf("typ.DerefZero[%s](&%v) modified the pointee to %v", name, v, cell)
	}
	return ""
}

type isNilEnt struct {
	typ, desc, class string
	call             func() (got, want bool)
}

// isNilAt evaluates both sides at the interface type T: the helper and the language's own comparison with nil.
func isNilAt[T any](typName, desc, class string, v T) isNilEnt {
	return isNilEnt{typName, desc, class, func() (bool, bool) { return typ.IsNil(v), any(v) == nil }}
}

const (
	clsNil     = "nil-interface"
	clsValue   = "non-nil-interface"
	clsNilPtr  = "interface-holding-nil-pointer"
	clsNilKind = "interface-holding-nil-map/slice/func/chan"
)

// isNilTable lists the values IsNil is tried on for one interface type. Note that `any(v) == nil` inside isNilAt is
// the same predicate as `v == nil` at type T (converting a nil interface to any gives a nil any, a non-nil one keeps its dynamic type).
func isNilTable(c Util) []isNilEnt {
	var np *int64
	cell := c.int(1)
	switch c.Type {
	case "any":
		var e error
		var pe *ptrErr
		return []isNilEnt{
			isNilAt[any]("any", "nil", clsNil, nil),
			isNilAt[any]("any", "any(error(nil))", clsNil, e),
			isNilAt[any]("any", fmt.Sprintf("int64(%d)", c.int(1)), clsValue, c.int(1)),
			isNilAt[any]("any", fmt.Sprintf("%q", c.str(0)), clsValue, c.str(0)),
			isNilAt[any]("any", "pair{...}", clsValue, pair{c.int(1), c.str(0)}),
			isNilAt[any]("any", "pointer to an int64", clsValue, &cell),
			isNilAt[any]("any", "pointer to a nil *int64", clsValue, &np),
			isNilAt[any]("any", "(*int64)(nil)", clsNilPtr, (*int64)(nil)),
			isNilAt[any]("any", "(*pair)(nil)", clsNilPtr, (*pair)(nil)),
			isNilAt[any]("any", "(*struct{})(nil)", clsNilPtr, (*struct{})(nil)),
			isNilAt[any]("any", "(**int64)(nil)", clsNilPtr, (**int64)(nil)),
			isNilAt[any]("any", "intPtr(nil) (named pointer type)", clsNilPtr, intPtr(nil)),
			isNilAt[any]("any", "(*ptrErr)(nil) (pointer type with methods)", clsNilPtr, pe),
			isNilAt[any]("any", "any(error((*ptrErr)(nil)))", clsNilPtr, error(pe)),
			isNilAt[any]("any", "(*bigArr)(nil)", clsNilPtr, (*bigArr)(nil)),
			isNilAt[any]("any", "unsafe.Pointer(nil)", clsNilKind, unsafe.Pointer(nil)),
			isNilAt[any]("any", "[]int64(nil)", clsNilKind, []int64(nil)),
			isNilAt[any]("any", "map[string]int64(nil)", clsNilKind, map[string]int64(nil)),
			isNilAt[any]("any", "(func())(nil)", clsNilKind, (func())(nil)),
			isNilAt[any]("any", "(chan int)(nil)", clsNilKind, (chan int)(nil)),
		}
	case "error":
		return []isNilEnt{
			isNilAt[error]("error", "nil", clsNil, nil),
			isNilAt[error]("error", fmt.Sprintf("errors.New(%q)", c.str(0)), clsValue, errors.New(c.str(0))),
			isNilAt[error]("error", "liarErr{} (zero-size)", clsValue, liarErr{}),
			isNilAt[error]("error", "&ptrErr{...}", clsValue, &ptrErr{c.str(0)}),
			isNilAt[error]("error", "(*ptrErr)(nil)", clsNilPtr, (*ptrErr)(nil)),
			isNilAt[error]("error", "mapErr(nil)", clsNilKind, mapErr(nil)),
			isNilAt[error]("error", "sliceErr(nil)", clsNilKind, sliceErr(nil)),
			isNilAt[error]("error", "funcErr(nil)", clsNilKind, funcErr(nil)),
			isNilAt[error]("error", "chanErr(nil)", clsNilKind, chanErr(nil)),
		}
	case "stringer":
		return []isNilEnt{
			isNilAt[fmt.Stringer]("fmt.Stringer", "nil", clsNil, nil),
			isNilAt[fmt.Stringer]("fmt.Stringer", "stamp{...}", clsValue, stamp{c.int(1), 0}),
			isNilAt[fmt.Stringer]("fmt.Stringer", `nilText{} (prints "<nil>")`, clsValue, nilText{}),
			isNilAt[fmt.Stringer]("fmt.Stringer", "&ptrErr{...}", clsValue, &ptrErr{c.str(0)}),
			isNilAt[fmt.Stringer]("fmt.Stringer", "(*ptrErr)(nil)", clsNilPtr, (*ptrErr)(nil)),
			isNilAt[fmt.Stringer]("fmt.Stringer", "(*stamp)(nil) (value-receiver methods promoted to the pointer)", clsNilPtr, (*stamp)(nil)),
			isNilAt[fmt.Stringer]("fmt.Stringer", "mapErr(nil)", clsNilKind, mapErr(nil)),
			isNilAt[fmt.Stringer]("fmt.Stringer", "sliceErr(nil)", clsNilKind, sliceErr(nil)),
			isNilAt[fmt.Stringer]("fmt.Stringer", "chanErr(nil)", clsNilKind, chanErr(nil)),
		}
	case "zeroer":
		return []isNilEnt{
			isNilAt[zeroer]("interface{ IsZero() bool }", "nil", clsNil, nil),
			isNilAt[zeroer]("interface{ IsZero() bool }", "stamp{} (IsZero() true)", clsValue, stamp{}),
			isNilAt[zeroer]("interface{ IsZero() bool }", "odd{0}", clsValue, odd{}),
			isNilAt[zeroer]("interface{ IsZero() bool }", "(*ptrErr)(nil) (nil-safe IsZero() true)", clsNilPtr, (*ptrErr)(nil)),
			isNilAt[zeroer]("interface{ IsZero() bool }", "(*stamp)(nil) (IsZero would panic if called)", clsNilPtr, (*stamp)(nil)),
			isNilAt[zeroer]("interface{ IsZero() bool }", "(*ptrRecv)(nil) (IsZero would panic if called)", clsNilPtr, (*ptrRecv)(nil)),
		}
	}
	return nil
}

var utilTypes = map[string][]string{
	"Coal":      {"int", "string", "float", "pair", "ptr", "iface"},
	"Zero":      {"int", "string", "float", "pair", "ptr", "iface", "stamp", "slice", "map", "array", "func"},
	"ZeroOf":    {"int", "string", "float", "pair", "ptr", "iface", "stamp", "slice"},
	"IsZero":    {"int", "string", "float", "pair", "ptr", "stamp", "stamp", "zeroer", "any", "odd", "stampptr"},
	"Tern":      {"int", "string", "pair", "ptr"},
	"TernCast":  {"int", "string", "stringer", "any"},
	"Ref":       {"int", "string", "pair", "ptr", "iface"},
	"DerefZero": {"int", "intPtr", "string", "pair", "ptr"},
	"IsNil":     {"any", "any", "error", "stringer", "zeroer"},
}

var utilFns = []string{"Coal", "Coal", "Coal", "Zero", "ZeroOf", "IsZero", "IsZero", "Tern", "TernCast", "Ref", "DerefZero", "IsNil"}

func RunUtil(c Util) pbt.Outcome {
	okType := false
	for _, t := range utilTypes[c.Fn] {
		if t == c.Type {
			okType = true
		}
	}
	if !okType || len(c.Ints) > 8 {
		return malformed()
	}
	out := pbt.Outcome{Labels: []string{"fn:" + c.Fn, "type:" + c.Fn + "/" + c.Type}}
	var pool [3]int64
	for i := range pool {
		pool[i] = int64(100 + i)
	}
	msg := ""
	switch c.Fn {
	case "Coal":
		out.Labels = append(out.Labels, "args="+strconv.Itoa(len(c.Ints)))
		switch c.Type {
		case "int":
			v, z := c.ints()
			msg = coalCheck(c, &out, v, z)
		case "string":
			v, z := c.strs()
			msg = coalCheck(c, &out, v, z)
		case "float":
			v, z := c.floats()
			msg = coalCheck(c, &out, v, z)
		case "pair":
			v, z := c.pairs()
			msg = coalCheck(c, &out, v, z)
		case "ptr":
			v, z := c.ptrs(&pool)
			msg = coalCheck(c, &out, v, z)
		case "iface":
			v, z := c.ifaces()
			msg = coalCheck(c, &out, v, z)
		}
	case "Zero":
		switch c.Type {
		case "int":
			msg = zeroCheck[int64]("int64")
		case "string":
			msg = zeroCheck[string]("string")
		case "float":
			msg = zeroCheck[float64]("float64")
		case "pair":
			msg = zeroCheck[pair]("pair")
		case "ptr":
			msg = zeroCheck[*int64]("*int64")
		case "iface":
			msg = zeroCheck[any]("any")
		case "stamp":
			msg = zeroCheck[stamp]("stamp")
		case "array":
			msg = zeroCheck[array3]("[3]int64")
		case "slice":
			if got := typ.Zero[slice](); got != nil {
				msg = fmt.Sprintf("typ.Zero[[]int64]() = %v, want nil", got)
			}
		case "map":
			if got := typ.Zero[strMap](); got != nil {
				msg = fmt.Sprintf("typ.Zero[map[string]int64]() = %v, want nil", got)
			}
		case "func":
			if got := typ.Zero[funcType](); got != nil {
				msg = "typ.Zero[func()]() is not nil"
			}
		}
		out.NonTrivial = true
	case "ZeroOf":
		nonzero := c.int(0) != 0 || c.str(0) != ""
		switch c.Type {
		case "int":
			msg = zeroOfCheck("int64", c.int(0))
			nonzero = c.int(0) != 0
		case "string":
			msg = zeroOfCheck("string", c.str(0))
			nonzero = c.str(0) != ""
		case "float":
			msg = zeroOfCheck("float64", float64(c.int(0))/2)
			nonzero = c.int(0) != 0
		case "pair":
			msg = zeroOfCheck("pair", pair{c.int(0), c.str(0)})
		case "ptr":
			k := mod(c.int(0), 4)
			var p *int64
			if k > 0 {
				p = &pool[k-1]
			}
			msg = zeroOfCheck("*int64", p)
			nonzero = k > 0
		case "iface":
			var v any
			if c.int(0) != 0 {
				v = c.int(0)
			}
			msg = zeroOfCheck("any", v)
			nonzero = c.int(0) != 0
		case "stamp":
			msg = zeroOfCheck("stamp", stamp{c.int(0), c.int(1)})
			nonzero = c.int(0) != 0 || c.int(1) != 0
		case "slice":
			arg := slice{c.int(0), c.int(1)}
			if got := typ.ZeroOf(arg); got != nil {
				msg = fmt.Sprintf("typ.ZeroOf[[]int64](%v) = %v, want nil", arg, got)
			}
			nonzero = true
		}
		out.NonTrivial = nonzero
		if nonzero {
			out.Labels = append(out.Labels, "zeroof:nonzero-argument")
		} else {
			out.Labels = append(out.Labels, "zeroof:zero-argument")
		}
	case "IsZero":
		class := ""
		plain := func(isZero bool) {
			class = "iszero:plain-nonzero"
			if isZero {
				class = "iszero:zero-value"
			}
		}
		stampClass := func(s stamp) bool {
			switch {
			case s == stamp{}:
				class = "iszero:zero-value"
			case s.Sec == 0:
				class = "iszero:method-true-on-nonzero-value"
			default:
				class = "iszero:method-false"
			}
			return s.Sec == 0
		}
		switch c.Type {
		case "int":
			plain(c.int(0) == 0)
			msg = isZeroCheck("int64", c.int(0), c.int(0) == 0)
		case "string":
			plain(c.str(0) == "")
			msg = isZeroCheck("string", c.str(0), c.str(0) == "")
		case "float":
			plain(c.int(0) == 0)
			msg = isZeroCheck("float64", float64(c.int(0))/2, c.int(0) == 0)
		case "pair":
			z := c.int(0) == 0 && c.str(0) == ""
			plain(z)
			msg = isZeroCheck("pair", pair{c.int(0), c.str(0)}, z)
		case "ptr":
			k := mod(c.int(0), 4)
			var p *int64
			if k > 0 {
				p = &pool[k-1] // points at a cell holding a non-zero or zero number: irrelevant, only the pointer counts
				if c.Cond {
					*p = 0
				}
			}
			plain(k == 0)
			msg = isZeroCheck("*int64", p, k == 0)
		case "stamp":
			s := stamp{c.int(0), c.int(1)}
			want := stampClass(s)
			msg = isZeroCheck("stamp", s, want)
		case "odd":
			o := odd{mod(c.int(0), 9)}
			switch {
			case o == odd{}:
				class = "iszero:zero-value-with-method-saying-false"
			case o.N == 7:
				class = "iszero:method-true-on-nonzero-value"
			default:
				class = "iszero:method-false"
			}
			msg = isZeroCheck("odd", o, o == odd{} || o.N == 7)
		case "stampptr": // pointer to a type with a value-receiver IsZero: the nil pointer is the zero value (and must not be dereferenced)
			if c.Cond {
				class = "iszero:nil-pointer-with-value-receiver-method"
				msg = isZeroCheck[*stamp]("*stamp", nil, true)
			} else {
				sp := &stamp{c.int(0), c.int(1)}
				want := sp.Sec == 0
				class = "iszero:method-false"
				if want {
					class = "iszero:method-true-on-nonzero-value"
				}
				msg = isZeroCheck("*stamp", sp, want)
			}
		case "zeroer": // T is an interface type with the method; nil interface is the zero value
			if c.Cond {
				class = "iszero:zero-value"
				msg = isZeroCheck[zeroer]("zeroer", nil, true)
			} else {
				s := stamp{c.int(0), c.int(1)}
				want := stampClass(s)
				if s == (stamp{}) {
					class = "iszero:method-true-on-nonzero-value" // non-nil interface holding the zero stamp
				}
				msg = isZeroCheck[zeroer]("zeroer", s, want)
			}
		case "any": // T = any; the dynamic value carries the method
			if c.Cond {
				class = "iszero:zero-value"
				msg = isZeroCheck[any]("any", nil, true)
			} else {
				s := stamp{c.int(0), c.int(1)}
				want := stampClass(s)
				if s == (stamp{}) {
					class = "iszero:method-true-on-nonzero-value"
				}
				msg = isZeroCheck[any]("any", s, want)
			}
		}
		out.Labels = append(out.Labels, class)
		out.NonTrivial = class != "iszero:plain-nonzero"
	case "Tern":
		out.Labels = append(out.Labels, "cond="+strconv.FormatBool(c.Cond))
		switch c.Type {
		case "int":
			msg = ternCheck("int64", c.Cond, c.int(0), c.int(1))
			out.NonTrivial = c.int(0) != c.int(1)
		case "string":
			msg = ternCheck("string", c.Cond, c.str(0), c.str(1))
			out.NonTrivial = c.str(0) != c.str(1)
		case "pair":
			a, b := pair{c.int(0), c.str(0)}, pair{c.int(1), c.str(1)}
			msg = ternCheck("pair", c.Cond, a, b)
			out.NonTrivial = a != b
		case "ptr":
			v, _ := Util{Ints: []int64{c.int(0), c.int(1)}}.ptrs(&pool)
			msg = ternCheck("*int64", c.Cond, v[0], v[1])
			out.NonTrivial = v[0] != v[1]
		}
	case "TernCast":
		out.Labels = append(out.Labels, "cond="+strconv.FormatBool(c.Cond))
		// when cond is false the value is never cast: any value (wrong type, nil) must be accepted
		var other any
		switch mod(c.int(2), 3) {
		case 0:
			other = nil
			out.Labels = append(out.Labels, "terncast:spare-value-nil")
		case 1:
			other = pair{c.int(0), "x"}
			out.Labels = append(out.Labels, "terncast:spare-value-other-type")
		default: // the value keeps the right type (set below)
			out.Labels = append(out.Labels, "terncast:spare-value-right-type")
		}
		rightType := mod(c.int(2), 3) == 2
		switch c.Type {
		case "int":
			var value any = c.int(0)
			if !c.Cond && !rightType {
				value = other
			}
			want := c.int(1)
			if c.Cond {
				want = c.int(0)
			}
			msg = ternCastCheck("int64", c.Cond, value, c.int(1), want)
			out.NonTrivial = c.int(0) != c.int(1)
		case "string":
			var value any = c.str(0)
			if !c.Cond && !rightType {
				value = other
			}
			want := c.str(1)
			if c.Cond {
				want = c.str(0)
			}
			msg = ternCastCheck("string", c.Cond, value, c.str(1), want)
			out.NonTrivial = c.str(0) != c.str(1)
		case "stringer": // T is an interface type implemented by the value's dynamic type
			a, b := stamp{c.int(0), 1}, stamp{c.int(1), 2}
			var value any = a
			if !c.Cond && !rightType {
				value = other
			}
			var want fmt.Stringer = b
			if c.Cond {
				want = a
			}
			msg = ternCastCheck[fmt.Stringer]("fmt.Stringer", c.Cond, value, b, want)
			out.NonTrivial = true
		case "any": // T = any: a non-nil value always casts
			var value any = c.int(0)
			if !c.Cond && !rightType {
				value = other
			}
			var ifFalse any = c.str(1)
			want := ifFalse
			if c.Cond {
				want = c.int(0)
			}
			msg = ternCastCheck[any]("any", c.Cond, value, ifFalse, want)
			out.NonTrivial = true
		}
	case "Ref":
		out.NonTrivial = true
		switch c.Type {
		case "int":
			msg = refCheck("int64", c.int(0), c.int(0)+1)
		case "string":
			msg = refCheck("string", c.str(0), c.str(0)+"!")
		case "pair":
			msg = refCheck("pair", pair{c.int(0), c.str(0)}, pair{c.int(0) + 1, c.str(0)})
		case "ptr":
			v, _ := Util{Ints: []int64{c.int(0), c.int(0) + 1}}.ptrs(&pool)
			msg = refCheck("*int64", v[0], v[1])
		case "iface":
			v, _ := Util{Ints: []int64{c.int(0)}, Strs: []string{c.str(0)}}.ifaces()
			msg = refCheck[any]("any", v[0], "other")
		}
	case "DerefZero":
		out.NonTrivial = true
		if c.Cond {
			out.Labels = append(out.Labels, "deref:nil")
		} else {
			out.Labels = append(out.Labels, "deref:non-nil")
		}
		switch c.Type {
		case "int":
			msg = derefCheck[*int64]("*int64", c.Cond, c.int(0))
		case "intPtr":
			msg = derefCheck[intPtr]("intPtr", c.Cond, c.int(0))
		case "string":
			msg = derefCheck[*string]("*string", c.Cond, c.str(0))
		case "pair":
			msg = derefCheck[*pair]("*pair", c.Cond, pair{c.int(0), c.str(0)})
		case "ptr":
			v, _ := Util{Ints: []int64{c.int(0)}}.ptrs(&pool)
			msg = derefCheck[**int64]("**int64", c.Cond, v[0])
		}
	case "IsNil":
		out.NonTrivial = true
		// interface-typed T only. By definition IsNil(v) is v == nil evaluated at the interface type: true for the nil
		// interface alone. An interface that holds a nil pointer (map, slice, func, channel) has a dynamic type and
		// is therefore not nil: err != nil is true for it and its methods can be called.
		tab := isNilTable(c)
		if len(tab) == 0 {
			return malformed()
		}
		x := tab[mod(c.int(0), int64(len(tab)))]
		got, want := x.call()
		out.Labels = append(out.Labels, "isnil:"+x.class)
		if want != (x.class == clsNil) {
			return pbt.Fail("harness error: table of %s: %s is classed %s but == nil is %v", x.typ, x.desc, x.class, want)
		}
		if got != want {
			msg = fmt.Sprintf("typ.IsNil[%s](%s) = %v, want %v (= the result of comparing the interface value with nil)", x.typ, x.desc, got, want)
		}
	}
	if msg != "" {
		return pbt.Fail("%s", msg)
	}
	return out
}

var utilInts = []int64{0, 0, 0, 1, 2, 3, -1, -2, 7, 1 << 62, -1 << 63}
var utilStrs = []string{"", "", "a", "b", "ab", "0"}

func genUtil(t *rapid.T) Util {
	fn := utilFns[rapid.IntRange(0, len(utilFns)-1).Draw(t, "fn")]
	types := utilTypes[fn]
	c := Util{Fn: fn, Type: types[rapid.IntRange(0, len(types)-1).Draw(t, "type")]}
	n := 3
	if fn == "Coal" {
		n = rapid.IntRange(0, 6).Draw(t, "n")
	}
	for i := 0; i < n; i++ {
		c.Ints = append(c.Ints, utilInts[rapid.IntRange(0, len(utilInts)-1).Draw(t, "int")])
		c.Strs = append(c.Strs, utilStrs[rapid.IntRange(0, len(utilStrs)-1).Draw(t, "str")])
	}
	switch fn {
	case "IsZero", "Tern", "TernCast", "DerefZero":
		c.Cond = rapid.Bool().Draw(t, "cond")
	case "IsNil":
		c.Ints[0] = int64(rapid.IntRange(0, 59).Draw(t, "value")) // index into the value table of the interface type (modulo its size)
	}
	return c
}

var specUtil = pbt.Register(&pbt.Spec[Util]{
	Property: "C20", Name: "C20.util",
	Rule: "rapid: one call of Coal (0..6 args; int64, string, float64, struct, pointer, any), Zero, ZeroOf, IsZero (plain types, a comparable struct whose IsZero() is true " +
		"for a non-zero value, interface-typed T holding it), Tern, TernCast (valid casts when cond; arbitrary/nil value when !cond), Ref (two calls: fresh, independent copies), " +
		"DerefZero (nil / non-nil, named pointer type), IsNil at T = any, error, fmt.Stringer, interface{IsZero() bool}: the nil interface (also a nil error converted to any), ordinary values, and non-nil interfaces " +
		"holding a nil pointer (plain, named, to a zero-size type, to a pointer, of a type with methods), a nil unsafe.Pointer, a nil slice / map / func / channel (incl. named ones with methods) - expected value = the result of " +
		"comparing the interface value with nil, i.e. true for the nil interface only. Values come from a small domain rich in zeros. One case in 8 is also run as 4 parallel independent copies. " +
		"non-trivial = Coal with >= 2 args where a zero precedes the first non-zero or two distinct non-zeros occur; IsZero on a zero value or a type with the method; " +
		"Tern/TernCast with different alternatives; ZeroOf of a non-zero argument; every Zero/Ref/DerefZero/IsNil case",
	Gen: genUtil,
	Run: RunUtil, Quick: 50000, Thorough: 100000,
	Replicas: 4, ReplicaEvery: 8,
})
