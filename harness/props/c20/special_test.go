//go:build !386

package c20

import (
	"fmt"
	"strconv"
	"strings"
	"unsafe"

	typ "gopkg.in/typ.v4"
	"pgregory.net/rapid"
	"verifharness/internal/pbt"
)

// Special is one call of one utility helper at one of the "special" element
// types of special_types_test.go. Arguments are indices into the type's value
// table (reduced modulo its size).
//
//	Coal      arguments = Lead copies of table entry LeadVal followed by the entries Vals
//	IsZero    Vals[0]
//	Zero      -
//	ZeroOf    Vals[0]
//	Tern      Tern(Cond, Vals[0], Vals[1])
//	TernCast  TernCast(Cond, any(Vals[0]), Vals[1]); when !Cond the value is replaced according to Vals[2] mod 3:
//	          0 = nil, 1 = a value of an unrelated type, 2 = kept
//	Ref       two calls of Ref(Vals[0]); Vals[1] is written through the first result
//	DerefZero Cond: nil pointer; else pointer to a copy of Vals[0] (both as *T and as a named pointer type)
//	IsNil     Vals[0] (interface-typed T only)
type Special struct {
	Fn      string `json:"fn"`
	Type    string `json:"type"`
	Vals    []int  `json:"vals,omitempty"`
	Cond    bool   `json:"cond,omitempty"`
	Lead    int    `json:"lead,omitempty"`
	LeadVal int    `json:"lead_val,omitempty"`
	// Coal only: Sets override single arguments (position modulo the number of arguments) with table entries, after
	// the list Lead x LeadVal + Vals has been built; View passes the list as a window into a larger buffer whose other
	// elements hold a non-zero value of the type; Procs (C20.bigcoal only) is runtime.GOMAXPROCS during the call.
	Sets  []SpecialSet `json:"sets,omitempty"`
	View  *View        `json:"view,omitempty"`
	Procs int          `json:"procs,omitempty"`
}

type SpecialSet struct {
	Pos int `json:"pos"`
	Val int `json:"val"`
}

const (
	maxLead    = 5000
	maxBigLead = 1<<17 + 64
	maxCoalMem = 64 << 20 // bytes of one argument buffer
)

type battery[T any] struct {
	name      string
	iface     bool // T is an interface type
	zeroSize  bool // pointers to distinct zero-size variables may be equal: no pointer-identity assertions
	printable bool // %#v of a value is deterministic (no addresses)
	ents      func() []ent[T]
	same      func(a, b T) bool
}

type specialType struct {
	name    string
	n       int
	cmp     bool
	iface   bool
	heavy   bool  // big values: shorter lists
	zeroish []int // entries that are the zero value or claim to be (IsZero() true)
	nonzero []int
	run     func(Special) pbt.Outcome
}

func (st *specialType) fns() []string {
	f := []string{"Zero", "ZeroOf", "Tern", "TernCast", "Ref", "DerefZero"}
	if st.cmp {
		f = append(f, "Coal", "Coal", "Coal", "Coal", "IsZero", "IsZero", "IsZero")
	}
	if st.iface {
		f = append(f, "IsNil", "IsNil")
	}
	return f
}

func (st *specialType) has(fn string) bool {
	for _, f := range st.fns() {
		if f == fn {
			return true
		}
	}
	return false
}

func newSpecialType[T any](b *battery[T], cmp bool) *specialType {
	st := &specialType{name: b.name, cmp: cmp, iface: b.iface}
	es := b.ents()
	st.n = len(es)
	for i, x := range es {
		if x.goZero || x.isZero {
			st.zeroish = append(st.zeroish, i)
		} else {
			st.nonzero = append(st.nonzero, i)
		}
	}
	return st
}

func addCmp[T comparable](l *[]*specialType, b *battery[T]) {
	if b.same == nil { // preset for types where == is not what "the same value" means (NaN) or may panic (interfaces holding slices)
		b.same = func(x, y T) bool { return x == y }
	}
	st := newSpecialType(b, true)
	st.run = func(c Special) pbt.Outcome { return runCmp(b, c) }
	*l = append(*l, st)
}

func addAny[T any](l *[]*specialType, b *battery[T]) {
	st := newSpecialType(b, false)
	st.run = func(c Special) pbt.Outcome { return runAny(b, c) }
	*l = append(*l, st)
}

var specialTypes = buildSpecials()

func specialType_(name string) *specialType {
	for _, st := range specialTypes {
		if st.name == name {
			return st
		}
	}
	return nil
}

func imod(x, m int) int { return ((x % m) + m) % m }

func (b *battery[T]) describe(es []ent[T], v T) string {
	for _, x := range es {
		if b.same(x.v, v) {
			return x.desc
		}
	}
	if b.printable {
		s := fmt.Sprintf("%#v", v)
		if len(s) > 200 {
			s = s[:200] + "..."
		}
		return s + " (not one of the table values)"
	}
	return fmt.Sprintf("a %T that is none of the table values", v)
}

func RunSpecial(c Special) pbt.Outcome {
	if c.Procs != 0 {
		return malformed()
	}
	return runSpecial(c, maxLead)
}

func runSpecial(c Special, maxLead int) pbt.Outcome {
	st := specialType_(c.Type)
	if st == nil || !st.has(c.Fn) || len(c.Vals) > 16 || c.Lead < 0 || c.Lead > maxLead || (c.Lead > 0 && c.Fn != "Coal") {
		return malformed()
	}
	if st.heavy && c.Lead > 600 {
		return malformed()
	}
	if (c.View != nil || len(c.Sets) > 0) && c.Fn != "Coal" || len(c.Sets) > 8 || !c.View.ok() {
		return malformed()
	}
	return st.run(c)
}

func leadClass(n int) string {
	switch {
	case n == 0:
		return "coal:lead=0"
	case n <= 32:
		return "coal:lead<=32"
	case n <= 64:
		return "coal:lead<=64"
	case n <= 256:
		return "coal:lead<=256"
	case n <= 1024:
		return "coal:lead<=1024"
	case n <= 4096:
		return "coal:lead<=4096"
	}
	return "coal:lead>4096"
}

// runCmp handles the helpers that need a comparable T and delegates the rest.
func runCmp[T comparable](b *battery[T], c Special) pbt.Outcome {
	if c.Fn != "Coal" && c.Fn != "IsZero" {
		return runAny(b, c)
	}
	es := b.ents()
	n := len(es)
	var zero T
	for _, x := range es {
		if x.goZero != (x.v == zero) {
			return pbt.Fail("harness error: table of %s: %s has goZero=%v but == zero value is %v", b.name, x.desc, x.goZero, x.v == zero)
		}
		if x.goZero && !x.isZero {
			return pbt.Fail("harness error: table of %s: %s is the zero value but isZero=false", b.name, x.desc)
		}
	}
	out := pbt.Outcome{Labels: []string{"fn:" + c.Fn, "type:" + c.Fn + "/" + b.name}}
	switch c.Fn {
	case "IsZero":
		if len(c.Vals) < 1 {
			return malformed()
		}
		x := es[imod(c.Vals[0], n)]
		switch {
		case x.goZero:
			out.Labels = append(out.Labels, "iszero:zero-value")
		case x.isZero:
			out.Labels = append(out.Labels, "iszero:method-true-on-nonzero-value")
		default:
			out.Labels = append(out.Labels, "iszero:nonzero")
		}
		out.NonTrivial = true
		if got := typ.IsZero(x.v); got != x.isZero {
			return pbt.Fail("typ.IsZero[%s](%s) = %v, want %v (the zero value, or a value whose own IsZero() bool method says true)", b.name, x.desc, got, x.isZero)
		}
	case "Coal":
		total := c.Lead + len(c.Vals)
		var args []T
		if c.View != nil {
			if uintptr(c.View.Off+total+c.View.Spare)*unsafe.Sizeof(zero) > maxCoalMem {
				return malformed()
			}
			buf := make([]T, c.View.Off+total+c.View.Spare)
			for _, x := range es { // poison: the first non-zero value of the table (a zero-only type has none)
				if !x.goZero {
					for i := range buf {
						buf[i] = x.v
					}
					break
				}
			}
			args = buf[c.View.Off:c.View.Off] // length 0, capacity total+Spare: the appends below stay inside the buffer
			out.Labels = append(out.Labels, c.View.labels(int(unsafe.Sizeof(zero)))...)
		} else {
			args = make([]T, 0, total)
		}
		idx := make([]int, 0, total)
		if c.Lead > 0 {
			li := imod(c.LeadVal, n)
			for i := 0; i < c.Lead; i++ {
				args = append(args, es[li].v)
				idx = append(idx, li)
			}
		}
		for _, v := range c.Vals {
			i := imod(v, n)
			args = append(args, es[i].v)
			idx = append(idx, i)
		}
		for _, st := range c.Sets {
			if total > 0 {
				p, i := imod(st.Pos, total), imod(st.Val, n)
				args[p], idx[p] = es[i].v, i
			}
		}
		if len(c.Sets) > 0 {
			out.Labels = append(out.Labels, "coal:single-arguments-overridden")
		}
		first := -1
		distinct, liar := false, false
		for k, i := range idx {
			if first < 0 && es[i].goZero != es[i].isZero {
				liar = true // an argument whose IsZero() disagrees with != zero, at or before the answer
			}
			if !es[i].goZero {
				if first < 0 {
					first = k
				} else if i != idx[first] {
					distinct = true
				}
			}
		}
		want, wantDesc := zero, "the zero value (no non-zero argument)"
		if first >= 0 {
			want, wantDesc = es[idx[first]].v, fmt.Sprintf("argument #%d = %s (the first that is != the zero value)", first, es[idx[first]].desc)
		}
		switch {
		case len(args) == 0:
			out.Labels = append(out.Labels, "coal:no-args")
		case first < 0:
			out.Labels = append(out.Labels, "coal:all-zero")
		case first == 0:
			out.Labels = append(out.Labels, "coal:first-arg-nonzero")
		case first == len(args)-1:
			out.Labels = append(out.Labels, "coal:only-last-arg-nonzero")
		default:
			out.Labels = append(out.Labels, "coal:zeros-then-nonzero")
		}
		if distinct {
			out.Labels = append(out.Labels, "coal:several-distinct-nonzero")
		}
		if liar {
			out.Labels = append(out.Labels, "coal:IsZero()-disagrees-with-zero-value")
		}
		out.Labels = append(out.Labels, leadClass(c.Lead), "args="+argsClass(len(args)))
		out.NonTrivial = (len(args) >= 2 && (distinct || first > 0)) || (len(args) >= 1 && liar)
		if got := typ.Coal(args...); !b.same(got, want) {
			var ds []string
			if c.Lead > 0 {
				ds = append(ds, fmt.Sprintf("%d x %s", c.Lead, es[imod(c.LeadVal, n)].desc))
			}
			for _, i := range idx[c.Lead:] {
				ds = append(ds, es[i].desc)
			}
			for _, st := range c.Sets {
				if total > 0 {
					ds = append(ds, fmt.Sprintf("[then argument #%d replaced by %s]", imod(st.Pos, total), es[imod(st.Val, n)].desc))
				}
			}
			return pbt.Fail("typ.Coal[%s](%s) = %s, want %s", b.name, strings.Join(ds, ", "), b.describe(es, got), wantDesc)
		}
	}
	return out
}

// runAny handles the helpers declared over `T any`; values are compared with b.same.
func runAny[T any](b *battery[T], c Special) pbt.Outcome {
	es := b.ents()
	n := len(es)
	at := func(i int) ent[T] {
		if i < len(c.Vals) {
			return es[imod(c.Vals[i], n)]
		}
		return es[0]
	}
	code := func(i int) int {
		if i < len(c.Vals) {
			return c.Vals[i]
		}
		return 0
	}
	d := func(v T) string { return b.describe(es, v) }
	out := pbt.Outcome{Labels: []string{"fn:" + c.Fn, "type:" + c.Fn + "/" + b.name}, NonTrivial: true}
	var zero T
	switch c.Fn {
	case "Zero":
		if got := typ.Zero[T](); !b.same(got, zero) {
			return pbt.Fail("typ.Zero[%s]() = %s, want the zero value", b.name, d(got))
		}
	case "ZeroOf":
		x := at(0)
		if x.goZero {
			out.Labels = append(out.Labels, "zeroof:zero-argument")
		} else {
			out.Labels = append(out.Labels, "zeroof:nonzero-argument")
		}
		if got := typ.ZeroOf(x.v); !b.same(got, zero) {
			return pbt.Fail("typ.ZeroOf[%s](%s) = %s, want the zero value", b.name, x.desc, d(got))
		}
	case "Tern":
		x, y := at(0), at(1)
		want := y
		if c.Cond {
			want = x
		}
		out.Labels = append(out.Labels, "cond="+strconv.FormatBool(c.Cond))
		out.NonTrivial = !b.same(x.v, y.v)
		if got := typ.Tern(c.Cond, x.v, y.v); !b.same(got, want.v) {
			return pbt.Fail("typ.Tern[%s](%v, %s, %s) = %s, want %s", b.name, c.Cond, x.desc, y.desc, d(got), want.desc)
		}
	case "TernCast":
		x, y := at(0), at(1)
		var value any = x.v
		valueDesc := "any(" + x.desc + ")"
		want := y
		out.Labels = append(out.Labels, "cond="+strconv.FormatBool(c.Cond))
		if c.Cond {
			if value == nil {
				// a nil interface cannot be cast to any type: outside the statement ("valid casts")
				return pbt.Outcome{Skipped: true, Labels: []string{"terncast:cast-of-nil-interface-excluded"}}
			}
			want = x
		} else {
			switch imod(code(2), 3) {
			case 0:
				value, valueDesc = nil, "nil"
				out.Labels = append(out.Labels, "terncast:spare-value-nil")
			case 1:
				value, valueDesc = otherType{1}, "a value of an unrelated type"
				out.Labels = append(out.Labels, "terncast:spare-value-other-type")
			default:
				out.Labels = append(out.Labels, "terncast:spare-value-right-type")
			}
		}
		out.NonTrivial = !b.same(x.v, y.v)
		if got := typ.TernCast(c.Cond, value, y.v); !b.same(got, want.v) {
			return pbt.Fail("typ.TernCast[%s](%v, %s, %s) = %s, want %s", b.name, c.Cond, valueDesc, y.desc, d(got), want.desc)
		}
	case "Ref":
		x, y := at(0), at(1)
		local := x.v
		p, q := typ.Ref(local), typ.Ref(local)
		switch {
		case p == nil || q == nil:
			return pbt.Fail("typ.Ref[%s](%s) returned nil", b.name, x.desc)
		case !b.same(*p, x.v) || !b.same(*q, x.v):
			return pbt.Fail("typ.Ref[%s](%s) points to %s / %s, want %s", b.name, x.desc, d(*p), d(*q), x.desc)
		}
		if b.zeroSize {
			out.Labels = append(out.Labels, "ref:zero-size (no pointer identity asserted)")
			break
		}
		switch {
		case p == q:
			return pbt.Fail("typ.Ref[%s](%s) returned the same pointer for two calls", b.name, x.desc)
		case p == &local || q == &local:
			return pbt.Fail("typ.Ref[%s](%s) returned the address of the caller's variable", b.name, x.desc)
		}
		*p = y.v
		if !b.same(*q, x.v) || !b.same(local, x.v) {
			return pbt.Fail("typ.Ref[%s](%s): writing %s through one result changed another copy (second result %s, caller's variable %s)",
				b.name, x.desc, y.desc, d(*q), d(local))
		}
	case "DerefZero":
		x := at(0)
		if c.Cond {
			out.Labels = append(out.Labels, "deref:nil")
			var p *T
			if got := typ.DerefZero(p); !b.same(got, zero) {
				return pbt.Fail("typ.DerefZero[*%s](nil) = %s, want the zero value", b.name, d(got))
			}
			var np namedPtr[T]
			if got := typ.DerefZero(np); !b.same(got, zero) {
				return pbt.Fail("typ.DerefZero[named pointer to %s](nil) = %s, want the zero value", b.name, d(got))
			}
			break
		}
		out.Labels = append(out.Labels, "deref:non-nil")
		if x.goZero != x.isZero {
			out.Labels = append(out.Labels, "deref:pointee-IsZero()-disagrees-with-zero-value")
		}
		cell := x.v
		if got := typ.DerefZero(&cell); !b.same(got, x.v) {
			return pbt.Fail("typ.DerefZero[*%s](pointer to %s) = %s, want the pointee", b.name, x.desc, d(got))
		}
		if got := typ.DerefZero(namedPtr[T](&cell)); !b.same(got, x.v) {
			return pbt.Fail("typ.DerefZero[named pointer to %s](pointer to %s) = %s, want the pointee", b.name, x.desc, d(got))
		}
		if !b.same(cell, x.v) {
			return pbt.Fail("typ.DerefZero[*%s](pointer to %s) modified the pointee to %s", b.name, x.desc, d(cell))
		}
	case "IsNil":
		if !b.iface {
			return malformed()
		}
		x := at(0)
		want := x.goZero // interface-typed T: the zero value is the nil interface
		if want {
			out.Labels = append(out.Labels, "isnil:nil-interface")
		} else {
			out.Labels = append(out.Labels, "isnil:non-nil-interface")
		}
		if got := typ.IsNil(x.v); got != want {
			return pbt.Fail("typ.IsNil[%s](%s) = %v, want %v", b.name, x.desc, got, want)
		}
	default:
		return malformed()
	}
	return out
}

// leadSizes: list lengths around every power of two from 8 to 4096.
var leadSizes = func() []int {
	var s []int
	for k := 3; k <= 12; k++ {
		s = append(s, 1<<k-1, 1<<k, 1<<k+1)
	}
	return s
}()

func enumSpecial(shard, shards int, tier string, yield func(Special) bool) {
	k := 0
	stop := false
	emit := func(c Special) {
		if stop {
			return
		}
		mine := k%shards == shard
		k++
		if mine && !yield(c) {
			stop = true
		}
	}
	for _, st := range specialTypes {
		if stop {
			return
		}
		n := st.n
		emit(Special{Fn: "Zero", Type: st.name})
		emit(Special{Fn: "DerefZero", Type: st.name, Cond: true})
		for i := 0; i < n; i++ {
			emit(Special{Fn: "ZeroOf", Type: st.name, Vals: []int{i}})
			emit(Special{Fn: "DerefZero", Type: st.name, Vals: []int{i}})
			if st.iface {
				emit(Special{Fn: "IsNil", Type: st.name, Vals: []int{i}})
			}
			if st.cmp {
				emit(Special{Fn: "IsZero", Type: st.name, Vals: []int{i}})
			}
			for j := 0; j < n; j++ {
				emit(Special{Fn: "Ref", Type: st.name, Vals: []int{i, j}})
				for _, cond := range []bool{false, true} {
					emit(Special{Fn: "Tern", Type: st.name, Vals: []int{i, j}, Cond: cond})
					for spare := 0; spare < 3; spare++ {
						if cond && spare > 0 {
							continue
						}
						emit(Special{Fn: "TernCast", Type: st.name, Vals: []int{i, j, spare}, Cond: cond})
					}
				}
			}
		}
		if !st.cmp {
			continue
		}
		// Coal: every argument list of length 0..3 over the table
		emit(Special{Fn: "Coal", Type: st.name})
		for i := 0; i < n; i++ {
			emit(Special{Fn: "Coal", Type: st.name, Vals: []int{i}})
			for j := 0; j < n; j++ {
				emit(Special{Fn: "Coal", Type: st.name, Vals: []int{i, j}})
				for m := 0; m < n; m++ {
					emit(Special{Fn: "Coal", Type: st.name, Vals: []int{i, j, m}})
				}
			}
		}
		// Coal: long runs of a zero(-ish) value around every power of two, then nothing / a non-zero / zero + non-zero
		leads := st.zeroish
		if len(leads) > 3 {
			leads = leads[:3]
		}
		var tails []int
		for i, nz := range st.nonzero {
			if i < 2 || i == len(st.nonzero)-1 { // first, second and last non-zero entries
				tails = append(tails, nz)
			}
		}
		for _, L := range leadSizes {
			if st.heavy && L > 130 {
				break
			}
			for _, z := range leads {
				emit(Special{Fn: "Coal", Type: st.name, Lead: L, LeadVal: z})
				for i, nz := range tails {
					emit(Special{Fn: "Coal", Type: st.name, Lead: L, LeadVal: z, Vals: []int{nz}})
					if i == 0 {
						emit(Special{Fn: "Coal", Type: st.name, Lead: L, LeadVal: z, Vals: []int{0, nz, z}})
					}
				}
			}
		}
	}
}

func genSpecial(t *rapid.T) Special {
	st := specialTypes[rapid.IntRange(0, len(specialTypes)-1).Draw(t, "type")]
	fns := st.fns()
	c := Special{Fn: fns[rapid.IntRange(0, len(fns)-1).Draw(t, "fn")], Type: st.name}
	pick := func(label string) int {
		// zero-ish entries (zero value, -0, liars) half of the time
		if len(st.zeroish) > 0 && rapid.Bool().Draw(t, label+"-zeroish") {
			return st.zeroish[rapid.IntRange(0, len(st.zeroish)-1).Draw(t, label+"-z")]
		}
		return rapid.IntRange(0, st.n-1).Draw(t, label)
	}
	switch c.Fn {
	case "Coal":
		n := rapid.IntRange(0, 8).Draw(t, "n")
		for i := 0; i < n; i++ {
			c.Vals = append(c.Vals, pick("val"))
		}
		switch rapid.IntRange(0, 5).Draw(t, "leadmode") {
		case 0:
			c.Lead = leadSizes[rapid.IntRange(0, len(leadSizes)-1).Draw(t, "leadsize")]
		case 1:
			c.Lead = rapid.IntRange(1, maxLead).Draw(t, "lead")
		}
		if st.heavy && c.Lead > 600 {
			c.Lead = c.Lead%600 + 1
		}
		if c.Lead > 0 && len(st.zeroish) > 0 {
			c.LeadVal = st.zeroish[rapid.IntRange(0, len(st.zeroish)-1).Draw(t, "leadval")]
		}
		c.View = genView(t, 4)
		if c.Lead > 0 && rapid.Bool().Draw(t, "sets") {
			for i, ns := 0, rapid.IntRange(1, 3).Draw(t, "nsets"); i < ns; i++ {
				c.Sets = append(c.Sets, SpecialSet{Pos: genLongPos(t, c.Lead+len(c.Vals), "setpos"), Val: pick("setval")})
			}
		}
	case "Zero":
	default:
		for i := 0; i < 3; i++ {
			c.Vals = append(c.Vals, pick("val"))
		}
		c.Cond = rapid.Bool().Draw(t, "cond")
	}
	return c
}

var specSpecial = pbt.Register(&pbt.Spec[Special]{
	Property: "C20", Name: "C20.special",
	Rule: "one call of Coal, IsZero, Zero, ZeroOf, Tern, TernCast, Ref, DerefZero (plain and named pointer type) or IsNil at an element type with a special characteristic, arguments taken from a " +
		"hand-written value table per type that states for each value whether it is Go's zero value and what IsZero must answer. Types: comparable structs/named ints/named strings whose IsZero() is true " +
		"for non-zero values or false for the zero value and whose String/Equal/Less/Compare methods contradict ==; IsZero on a pointer receiver (value and pointer types), with a wrong signature, promoted from an " +
		"embedded field, on fields/array elements only; time.Time (zero instant in a zone), time.Duration; nil/non-nil pointers to such types (value-receiver methods on nil), pointers to pointers and to zero-size values; " +
		"interface-typed T (any, fmt.Stringer, error, interface{IsZero() bool}) holding nil, non-nil interfaces holding zero values, liars, values printing \"<nil>\"; bool, int64/uint8/uintptr extremes, " +
		"float32/float64/complex128 with -0 and the smallest subnormal, strings with NUL and 5000-byte strings, zero-size types (struct{}, [0]int64, a zero-size type whose IsZero() is false), channels, a 2 KiB array; " +
		"non-comparable T (slices incl. empty non-nil and shared arrays, maps, funcs, structs with slices) for the helpers over `any`. " +
		"Enumerated: every single value / pair of values per helper, every Coal list of length 0..3, Coal with runs of 7..4097 zero (or lying) arguments around every power of two followed by nothing, a non-zero value or " +
		"zero+non-zero; then rapid draws (Coal lists of 0..8 values after 0..5000 leading copies, half of the long ones with 1..3 single arguments replaced by table values at positions biased to both ends, " +
		"a quarter passed as a window into a larger buffer filled with a non-zero value). Interface-typed T also holds typed nil pointers, nil channels, nil unsafe.Pointers (any, error, fmt.Stringer, interface{IsZero() bool}: " +
		"non-nil interfaces, IsNil false, Coal treats them as non-zero, a nil-safe IsZero() is honoured) and, in two tables compared by identity instead of ==, nil slices / maps / funcs and a non-comparable struct; " +
		"float64 and a struct of floats hold NaN (a non-zero value for Coal and IsZero); element types of 128 and 136 bytes. Casts of a nil interface and interface values whose IsZero method would panic on a nil receiver " +
		"are not generated (outside the statement). One case in 16 is also run as 4 parallel independent copies. " +
		"non-trivial = Coal with >= 2 arguments where a zero precedes the answer or two distinct non-zero values occur, or with an argument whose IsZero() disagrees with != zero at or before the answer; " +
		"Tern/TernCast with different alternatives; every IsZero/Zero/ZeroOf/Ref/DerefZero/IsNil case",
	Enum: enumSpecial,
	Gen:  genSpecial,
	Run:  RunSpecial, Quick: 40000, Thorough: 150000,
	Replicas: 4, ReplicaEvery: 16,
})
