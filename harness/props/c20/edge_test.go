//go:build !386

package c20

import (
	"fmt"
	"runtime/debug"
	"syscall"
	"unsafe"

	typ "gopkg.in/typ.v4"
	"pgregory.net/rapid"
	"verifharness/internal/pbt"
)

// Edge is one call whose argument slice (or string) lies at the very edge of readable memory: the case maps
// 1 + 16 + 1 pages, makes the first and the last one inaccessible (PROT_NONE) and places the N elements so that they
// end exactly at the end of the accessible region ("end"), start exactly at its beginning ("start") or, for the
// sizes that divide it, fill it ("fill"). A callee that reads one element beyond len (or before index 0) faults:
// with debug.SetPanicOnFault that is a panic, which the case reports; the unit is Crashy all the same.
type Edge struct {
	Fn    string `json:"fn"`
	T     string `json:"t"`
	N     int    `json:"n"`
	Where string `json:"where"`
	Seed  int    `json:"seed"`
}

const edgePages = 16

type edgeMem struct {
	all  []byte
	page int
}

func newEdgeMem() (*edgeMem, error) {
	page := syscall.Getpagesize()
	all, err := syscall.Mmap(-1, 0, (edgePages+2)*page, syscall.PROT_READ|syscall.PROT_WRITE, syscall.MAP_ANON|syscall.MAP_PRIVATE)
	if err != nil {
		return nil, err
	}
	if err := syscall.Mprotect(all[:page], syscall.PROT_NONE); err != nil {
		syscall.Munmap(all)
		return nil, err
	}
	if err := syscall.Mprotect(all[(edgePages+1)*page:], syscall.PROT_NONE); err != nil {
		syscall.Munmap(all)
		return nil, err
	}
	return &edgeMem{all: all, page: page}, nil
}

func (m *edgeMem) free()    { syscall.Munmap(m.all) }
func (m *edgeMem) cap() int { return edgePages * m.page }

// place returns the address of a block of size bytes at the start or the end of the accessible region.
func (m *edgeMem) place(size int, where string) unsafe.Pointer {
	base := unsafe.Pointer(unsafe.SliceData(m.all))
	if where == "start" {
		return unsafe.Add(base, m.page)
	}
	return unsafe.Add(base, (edgePages+1)*m.page-size)
}

func edgeSlice[T any](m *edgeMem, n int, where string) []T {
	var z T
	return unsafe.Slice((*T)(m.place(n*int(unsafe.Sizeof(z)), where)), n)
}

type edgeNumT interface {
	~uint8 | ~int16 | ~int32 | ~int64 | ~uint64 | ~float32 | ~float64
}

func edgeVal(seed, i int) int {
	x := uint32(seed)*2654435761 + uint32(i)*40503 + 977
	x ^= x >> 13
	x *= 1274126177
	x ^= x >> 16
	return int(x%61) + 20 // 20..80: positive, non-zero
}

func edgeNum[T edgeNumT](m *edgeMem, c Edge) string {
	v := edgeSlice[T](m, c.N, c.Where)
	for i := range v {
		v[i] = T(edgeVal(c.Seed, i))
	}
	sp := 0
	if c.N > 0 {
		sp = []int{c.N - 1, 0, c.N / 2}[c.Seed%3] // the special element: mostly the last (next to the inaccessible page)
		switch c.Fn {
		case "Min":
			v[sp] = 3
		case "Max":
			v[sp] = 100
		}
	}
	var want, got T
	switch c.Fn {
	case "Min":
		want = v[0]
		for _, x := range v {
			want = min(want, x)
		}
		got = typ.Min(v...)
	case "Max":
		want = v[0]
		for _, x := range v {
			want = max(want, x)
		}
		got = typ.Max(v...)
	case "Sum":
		for _, x := range v {
			want += x
		}
		got = typ.Sum(v...)
	case "Product":
		want = 1
		for _, x := range v {
			want *= x
		}
		got = typ.Product(v...)
	case "Coal":
		k := c.N
		if c.Seed%4 != 3 && c.N > 0 {
			k = sp
		}
		for i := 0; i < k; i++ { // zero before k; element k (if any) is the first non-zero; k == N: all zero
			v[i] = 0
		}
		if k < c.N {
			want = v[k]
		}
		got = typ.Coal(v...)
	}
	if got != want {
		return fmt.Sprintf("= %v, want %v", got, want)
	}
	return ""
}

// edgeArr: Coal over arrays (sizes 3 and 16: the comparison of an element reads several bytes / words).
func edgeArr[T comparable](m *edgeMem, c Edge, nz func(i int) T) string {
	v := edgeSlice[T](m, c.N, c.Where)
	var zero T
	for i := range v {
		v[i] = zero
	}
	want := zero
	if c.Seed%4 != 3 && c.N > 0 {
		k := []int{c.N - 1, 0, c.N / 2}[c.Seed%3]
		for i := k; i < c.N; i++ {
			v[i] = nz(i)
		}
		want = v[k]
	}
	if got := typ.Coal(v...); got != want {
		return fmt.Sprintf("= %v, want %v", got, want)
	}
	return ""
}

// edgeStr: two strings of N bytes, a in the mapped region (ending at / starting at its edge), b an ordinary copy
// that is equal, greater at the last byte, or longer by one byte.
func edgeStr(m *edgeMem, c Edge) string {
	raw := edgeSlice[byte](m, c.N, c.Where)
	for i := range raw {
		raw[i] = byte('a' + edgeVal(c.Seed, i)%26)
	}
	a := unsafe.String(unsafe.SliceData(raw), c.N)
	eq := string(raw) // ordinary memory
	longer := eq + "a"
	bigger := eq
	if c.N > 0 {
		bb := []byte(eq)
		bb[c.N-1]++
		bigger = string(bb)
	}
	type probe struct {
		name string
		b    string
		cmp  int
	}
	probes := []probe{{"an equal copy", eq, 0}, {"the copy plus one byte", longer, -1}}
	if c.N > 0 {
		probes = append(probes, probe{"the copy with its last byte increased", bigger, -1})
	}
	for _, p := range probes {
		var bad string
		switch c.Fn {
		case "Compare":
			if got := typ.Compare(a, p.b); got != p.cmp {
				bad = fmt.Sprintf("Compare(a, b) = %d, want %d", got, p.cmp)
			} else if got := typ.Compare(p.b, a); got != -p.cmp {
				bad = fmt.Sprintf("Compare(b, a) = %d, want %d", got, -p.cmp)
			} else if got := typ.Less(a, p.b); got != (p.cmp < 0) {
				bad = fmt.Sprintf("Less(a, b) = %v, want %v", got, p.cmp < 0)
			}
		case "Min":
			if got := typ.Min(p.b, a); got != a {
				bad = "Min(b, a) is not (equal to) a"
			}
		case "Max":
			if got := typ.Max(a, p.b, a); got != p.b {
				bad = "Max(a, b, a) is not (equal to) b"
			}
		case "Coal":
			if got := typ.Coal("", a, p.b); got != a && c.N > 0 {
				bad = "Coal(\"\", a, b) is not a"
			}
			if got := typ.IsZero(a); got != (c.N == 0) {
				bad = fmt.Sprintf("IsZero(a) = %v", got)
			}
		case "Clamp":
			if got := typ.Clamp(p.b, "", a); got != a {
				bad = "Clamp(b, \"\", a) is not (equal to) a"
			}
		}
		if bad != "" {
			return bad + " with b = " + p.name
		}
	}
	return ""
}

var edgeTypes = map[string]struct {
	size int
	fns  []string
}{
	"uint8": {1, edgeNumFns}, "int16": {2, edgeNumFns}, "int32": {4, edgeNumFns}, "int64": {8, edgeNumFns}, "uint64": {8, edgeNumFns},
	"float32": {4, edgeNumFns}, "float64": {8, edgeNumFns}, "myInt16": {2, edgeNumFns},
	"[3]uint8": {3, []string{"Coal"}}, "[16]uint8": {16, []string{"Coal"}}, "[2]int64": {16, []string{"Coal"}},
	"string": {1, []string{"Compare", "Min", "Max", "Coal", "Clamp"}},
}

var (
	edgeNumFns    = []string{"Min", "Max", "Sum", "Product", "Coal"}
	edgeTypeNames = []string{"uint8", "int16", "int32", "int64", "uint64", "float32", "float64", "myInt16", "[3]uint8", "[16]uint8", "[2]int64", "string"}
)

func RunEdge(c Edge) (out pbt.Outcome) {
	et, ok := edgeTypes[c.T]
	fnOK := false
	for _, f := range et.fns {
		fnOK = fnOK || f == c.Fn
	}
	if !ok || !fnOK || c.N < 0 || c.Seed < 0 || (c.Where != "start" && c.Where != "end") {
		return malformed()
	}
	if c.N == 0 && (c.Fn == "Min" || c.Fn == "Max") && c.T != "string" {
		return malformed() // documented panic: not this unit's subject
	}
	m, err := newEdgeMem()
	if err != nil {
		return pbt.Outcome{Inconclusive: "mmap/mprotect: " + err.Error()}
	}
	defer m.free()
	if c.N*et.size > m.cap() {
		return malformed()
	}
	what := fmt.Sprintf("typ.%s on %d elements of type %s (formula of seed %d) that %s exactly at the %s of readable memory (the neighbouring page is PROT_NONE)",
		c.Fn, c.N, c.T, c.Seed, map[string]string{"start": "start", "end": "end"}[c.Where], map[string]string{"start": "beginning", "end": "end"}[c.Where])
	defer debug.SetPanicOnFault(debug.SetPanicOnFault(true))
	defer func() {
		if p := recover(); p != nil {
			out = pbt.Fail("%s: panic: %v (a fault means that the callee touched memory outside the slice it was given)", what, p)
		}
	}()
	var msg string
	switch c.T {
	case "uint8":
		msg = edgeNum[uint8](m, c)
	case "int16":
		msg = edgeNum[int16](m, c)
	case "myInt16":
		msg = edgeNum[myInt16](m, c)
	case "int32":
		msg = edgeNum[int32](m, c)
	case "int64":
		msg = edgeNum[int64](m, c)
	case "uint64":
		msg = edgeNum[uint64](m, c)
	case "float32":
		msg = edgeNum[float32](m, c)
	case "float64":
		msg = edgeNum[float64](m, c)
	case "[3]uint8":
		msg = edgeArr(m, c, func(i int) [3]uint8 { return [3]uint8{0, 0, uint8(i%200 + 1)} })
	case "[16]uint8":
		msg = edgeArr(m, c, func(i int) [16]uint8 { return [16]uint8{15: uint8(i%200 + 1)} })
	case "[2]int64":
		msg = edgeArr(m, c, func(i int) [2]int64 { return [2]int64{0, int64(i + 1)} })
	case "string":
		msg = edgeStr(m, c)
	}
	if msg != "" {
		return pbt.Fail("%s: %s", what, msg)
	}
	fill := c.N*et.size == m.cap()
	labels := []string{"fn:" + c.Fn, "type:" + c.T, "at:" + c.Where, "edge:n=" + pow2Class(max(c.N, 1))}
	if fill {
		labels = append(labels, "fills-the-whole-region")
	}
	return pbt.Outcome{Labels: labels, NonTrivial: c.N > 0, Evals: 1}
}

var edgeNs = []int{0, 1, 2, 3, 4, 5, 7, 8, 9, 15, 16, 17, 31, 32, 33, 63, 64, 65, 127, 128, 129, 255, 256, 257, 1023, 1024, 1025, 4095, 4096, 4097}

func enumEdge(shard, shards int, tier string, yield func(Edge) bool) {
	capBytes := edgePages * syscall.Getpagesize()
	k := 0
	for _, t := range edgeTypeNames {
		et := edgeTypes[t]
		full := capBytes / et.size
		ns := append(append([]int{}, edgeNs...), full-1, full)
		for _, fn := range et.fns {
			for _, n := range ns {
				if n*et.size > capBytes || n == 0 && (fn == "Min" || fn == "Max") && t != "string" {
					continue
				}
				for _, where := range []string{"end", "start"} {
					mine := k%shards == shard
					k++
					if mine && !yield(Edge{Fn: fn, T: t, N: n, Where: where, Seed: k}) {
						return
					}
				}
			}
		}
	}
}

func genEdge(t *rapid.T) Edge {
	c := Edge{T: rapid.SampledFrom(edgeTypeNames).Draw(t, "type")}
	et := edgeTypes[c.T]
	c.Fn = rapid.SampledFrom(et.fns).Draw(t, "fn")
	full := edgePages * syscall.Getpagesize() / et.size
	lo := 0
	if (c.Fn == "Min" || c.Fn == "Max") && c.T != "string" {
		lo = 1
	}
	c.N = rapid.OneOf(rapid.IntRange(lo, 70), rapid.IntRange(lo, full), rapid.IntRange(full-3, full)).Draw(t, "n")
	c.Where = rapid.SampledFrom([]string{"end", "start"}).Draw(t, "where")
	c.Seed = rapid.IntRange(0, 10000).Draw(t, "seed")
	return c
}

var specEdge = pbt.Register(&pbt.Spec[Edge]{
	Property: "C20", Name: "C20.edge",
	Rule: "grid + rapid: Min, Max, Sum, Product, Coal on N arguments of uint8, int16 (and a named type), int32, int64, uint64, float32, float64, Coal on [3]uint8, [16]uint8, [2]int64, and Compare/Less, Min, Max, Coal/IsZero, Clamp on a string of N bytes, where the argument slice " +
		"(string) lies in a freshly mapped region of 16 pages between two PROT_NONE pages and ENDS exactly at the end of the region or STARTS exactly at its beginning; N = 0..5, 2^k-1, 2^k, 2^k+1 up to 4097, and the number that fills the region (and one less); " +
		"the special element (minimum, maximum, first non-zero) is the last, the first or the middle one. debug.SetPanicOnFault turns a read beyond either end into a panic that the case reports; Crashy in case the process dies anyway. " +
		"Reference: plain loops over the same memory before the call. non-trivial = N > 0",
	Gen: genEdge, Enum: enumEdge, Run: RunEdge,
	Quick: 3000, Thorough: 100000, Crashy: true,
	Replicas: 4, ReplicaEvery: 8,
})
