//go:build 386

// The 386 flavour of package c20 (see c20_test.go for the property and the other units): one compact unit,
// C20.x86, that runs the integer (and, briefly, the floating) helpers on a platform whose int, uint and uintptr
// are 32 bits wide. The driver builds and runs this file's test binary with GOARCH=386 (plan.json "goarch").
package c20

import (
	"fmt"
	"math"
	"math/big"
	"strings"
	"sync"
	"testing"

	typ "gopkg.in/typ.v4"
	"pgregory.net/rapid"
	"verifharness/internal/pbt"
)

// X86 is one call group: the helpers of arity N applied to the first N of A, B, C, which are 64-bit patterns
// converted (truncating) to the type T. For the float types the patterns are small integers divided by 4.
type X86 struct {
	T string `json:"t"`
	N int    `json:"n"`
	A int64  `json:"a"`
	B int64  `json:"b"`
	C int64  `json:"c"`
	// Sweep: "" or the name of a value set of the type ("dense", "sparse", "tiny"): the last of the N arguments
	// takes every value of that set in turn (one case = one row of the pair / triple grid)
	Sweep string `json:"sweep,omitempty"`
}

type xInteger interface {
	~int | ~int8 | ~int16 | ~int32 | ~int64 | ~uint | ~uint8 | ~uint16 | ~uint32 | ~uint64 | ~uintptr
}

type (
	xMyInt64  int64
	xMyUint64 uint64
	xMyInt    int
	xMyUint   uint
)

type xType struct {
	name   string
	bits   int
	signed bool
	run    func(c X86) string
}

var xTypes []xType

func xReg[T xInteger](name string, bits int, signed bool) {
	xt := xType{name: name, bits: bits, signed: signed}
	xt.run = func(c X86) string { return xRunInt[T](xt, c) }
	xTypes = append(xTypes, xt)
}

func init() {
	xReg[int64]("int64", 64, true)
	xReg[uint64]("uint64", 64, false)
	xReg[xMyInt64]("xMyInt64", 64, true)
	xReg[xMyUint64]("xMyUint64", 64, false)
	xReg[int]("int", 32, true)
	xReg[uint]("uint", 32, false)
	xReg[uintptr]("uintptr", 32, false)
	xReg[xMyInt]("xMyInt", 32, true)
	xReg[xMyUint]("xMyUint", 32, false)
	xReg[int32]("int32", 32, true)
	xReg[uint32]("uint32", 32, false)
	xReg[int16]("int16", 16, true)
	xReg[uint16]("uint16", 16, false)
	xReg[int8]("int8", 8, true)
	xReg[uint8]("uint8", 8, false)
}

func xTypeOf(name string) *xType {
	for i := range xTypes {
		if xTypes[i].name == name {
			return &xTypes[i]
		}
	}
	return nil
}

// toBig is the mathematical value of x (by way of the 64-bit conversions only, never the operators under test).
func toBig[T xInteger](x T, signed bool) *big.Int {
	if signed {
		return big.NewInt(int64(x))
	}
	return new(big.Int).SetUint64(uint64(x))
}

// wrap reduces v into the range of the type (two's complement).
func (xt xType) wrap(v *big.Int) *big.Int {
	mod := new(big.Int).Lsh(big.NewInt(1), uint(xt.bits))
	r := new(big.Int).Mod(v, mod) // Mod is Euclidean: 0 <= r < mod
	if xt.signed && r.Bit(xt.bits-1) == 1 {
		r.Sub(r, mod)
	}
	return r
}

func xRunInt[T xInteger](xt xType, c X86) string {
	sg := xt.signed
	vals := []T{T(c.A), T(c.B), T(c.C)}[:c.N]
	bs := make([]*big.Int, len(vals))
	for i, v := range vals {
		bs[i] = toBig(v, sg)
	}
	show := func(v T) string { return fmt.Sprintf("%s(%s)", xt.name, toBig(v, sg)) }
	bad := func(call string, got, want any) string {
		list := ""
		for i, v := range vals {
			if i > 0 {
				list += ", "
			}
			list += show(v)
		}
		call = strings.Replace(call, "@", list, 1)
		return fmt.Sprintf("GOARCH=386 (int, uint, uintptr are 32 bits wide): typ.%s = %v, want %v", call, got, want)
	}
	eqT := func(call string, got T, want *big.Int) string {
		if toBig(got, sg).Cmp(want) != 0 {
			return bad(call, toBig(got, sg), want)
		}
		return ""
	}
	// variadic helpers, any arity
	mn, mx, sum, prod := bs[0], bs[0], big.NewInt(0), big.NewInt(1)
	for _, b := range bs {
		if b.Cmp(mn) < 0 {
			mn = b
		}
		if b.Cmp(mx) > 0 {
			mx = b
		}
		sum = xt.wrap(new(big.Int).Add(sum, b))
		prod = xt.wrap(new(big.Int).Mul(prod, b))
	}
	var firstNZ = big.NewInt(0)
	for _, b := range bs {
		if b.Sign() != 0 {
			firstNZ = b
			break
		}
	}
	for _, m := range []string{
		eqT("Min(@)", typ.Min(vals...), mn),
		eqT("Max(@)", typ.Max(vals...), mx),
		eqT("Sum(@)", typ.Sum(vals...), sum),
		eqT("Product(@)", typ.Product(vals...), prod),
		eqT("Coal(@)", typ.Coal(vals...), firstNZ),
	} {
		if m != "" {
			return m
		}
	}
	switch c.N {
	case 1:
		v, b := vals[0], bs[0]
		mag := new(big.Int).Abs(b)
		d := len(mag.String())
		if got := typ.Digits10(v); got != d {
			return bad("Digits10(@)", got, d)
		}
		ds := d
		if b.Sign() < 0 {
			ds++
		}
		if got := typ.DigitsSign10(v); got != ds {
			return bad("DigitsSign10(@)", got, ds)
		}
		if xt.wrap(mag).Cmp(mag) == 0 { // |v| representable
			if m := eqT("Abs(@)", typ.Abs(v), mag); m != "" {
				return m
			}
		}
		c01 := b
		if b.Sign() < 0 {
			c01 = big.NewInt(0)
		} else if b.Cmp(big.NewInt(1)) > 0 {
			c01 = big.NewInt(1)
		}
		if m := eqT("Clamp01(@)", typ.Clamp01(v), c01); m != "" {
			return m
		}
		if got := typ.IsZero(v); got != (b.Sign() == 0) {
			return bad("IsZero(@)", got, b.Sign() == 0)
		}
		if m := eqT("ZeroOf(@)", typ.ZeroOf(v), big.NewInt(0)); m != "" {
			return m
		}
		p := typ.Ref(v)
		if p == nil {
			return bad("Ref(@)", "nil", "a pointer")
		}
		if m := eqT("DerefZero(Ref(@))", typ.DerefZero(p), b); m != "" {
			return m
		}
		if typ.IsNil(v) {
			return bad("IsNil(@)", true, false)
		}
		var box any = v
		if m := eqT("TernCast(true, any(@), 0)", typ.TernCast[T](true, box, 0), b); m != "" {
			return m
		}
	case 2:
		cw := bs[0].Cmp(bs[1])
		if got := typ.Compare(vals[0], vals[1]); got != cw {
			return bad("Compare(@)", got, cw)
		}
		if got := typ.Less(vals[0], vals[1]); got != (cw < 0) {
			return bad("Less(@)", got, cw < 0)
		}
		if m := eqT("Tern(true, @)", typ.Tern(true, vals[0], vals[1]), bs[0]); m != "" {
			return m
		}
		if m := eqT("Tern(false, @)", typ.Tern(false, vals[0], vals[1]), bs[1]); m != "" {
			return m
		}
	case 3:
		lo, hi := vals[1], vals[2]
		blo, bhi := bs[1], bs[2]
		if blo.Cmp(bhi) > 0 {
			lo, hi, blo, bhi = hi, lo, bhi, blo
		}
		w := bs[0]
		if w.Cmp(blo) < 0 {
			w = blo
		} else if w.Cmp(bhi) > 0 {
			w = bhi
		}
		if m := eqT("Clamp(v, lo, hi) [v and the two bounds, which are passed in increasing order: @]", typ.Clamp(vals[0], lo, hi), w); m != "" {
			return m
		}
	}
	return ""
}

// xRunFloat: the floating helpers (the 386 port computes float64 with SSE2 or x87 depending on GO386).
func xRunFloat[T ~float32 | ~float64](name string, c X86) string {
	vals := []T{T(c.A) / 4, T(c.B) / 4, T(c.C) / 4}[:c.N]
	bad := func(call string, got, want any) string {
		return fmt.Sprintf("GOARCH=386: typ.%s at %s %v = %v, want %v", call, name, vals, got, want)
	}
	mn, mx, sum, prod := vals[0], vals[0], T(0), T(1)
	for _, v := range vals {
		mn, mx = min(mn, v), max(mx, v)
		sum += v
		sum = T(sum) // explicit conversion: rounds to the type's precision
		prod *= v
		prod = T(prod)
	}
	if got := typ.Min(vals...); got != mn {
		return bad("Min", got, mn)
	}
	if got := typ.Max(vals...); got != mx {
		return bad("Max", got, mx)
	}
	if got := typ.Sum(vals...); got != sum {
		return bad("Sum", got, sum)
	}
	if got := typ.Product(vals...); got != prod {
		return bad("Product", got, prod)
	}
	v := vals[0]
	if got, w := typ.Abs(v), T(math.Abs(float64(v))); got != w {
		return bad("Abs", got, w)
	}
	if got, w := typ.Clamp01(v), min(max(v, 0), 1); got != w {
		return bad("Clamp01", got, w)
	}
	if c.N >= 2 {
		w := 0
		if vals[0] < vals[1] {
			w = -1
		} else if vals[0] > vals[1] {
			w = 1
		}
		if got := typ.Compare(vals[0], vals[1]); got != w {
			return bad("Compare", got, w)
		}
		if got := typ.Less(vals[0], vals[1]); got != (w < 0) {
			return bad("Less", got, w < 0)
		}
	}
	if c.N == 3 {
		lo, hi := min(vals[1], vals[2]), max(vals[1], vals[2])
		if got, w := typ.Clamp(v, lo, hi), min(max(v, lo), hi); got != w {
			return bad("Clamp(v, lo, hi)", got, w)
		}
	}
	return ""
}

func xMalformed() pbt.Outcome {
	return pbt.Outcome{Skipped: true, Labels: []string{"malformed-case"}}
}

const xFloatLim = 1 << 20

func abs64(x int64) uint64 {
	if x < 0 {
		return -uint64(x)
	}
	return uint64(x)
}

func RunX86(c X86) pbt.Outcome {
	if c.N < 1 || c.N > 3 {
		return xMalformed()
	}
	labels := []string{"type:" + c.T, fmt.Sprintf("arity:%d", c.N)}
	var msg string
	nt := false
	evals := 8
	switch c.T {
	case "float64", "float32":
		for _, v := range []int64{c.A, c.B, c.C} {
			if v < -xFloatLim || v > xFloatLim { // keeps every sum and product finite and exact enough: no NaN can arise
				return xMalformed()
			}
		}
		if c.T == "float64" {
			msg = xRunFloat[float64](c.T, c)
		} else {
			msg = xRunFloat[float32](c.T, c)
		}
	default:
		xt := xTypeOf(c.T)
		if xt == nil {
			return xMalformed()
		}
		if c.Sweep == "" {
			msg = xt.run(c)
		} else {
			set := xSet(*xt, c.Sweep)
			if set == nil {
				return xMalformed()
			}
			labels = append(labels, "row-of-grid:"+c.Sweep)
			evals = 0
			for _, v := range set {
				d := c
				switch c.N {
				case 1:
					d.A = v
				case 2:
					d.B = v
				default:
					d.C = v
				}
				evals += 8
				if msg = xt.run(d); msg != "" {
					break
				}
				if xt.bits == 64 && abs64(v) >= 1<<31 {
					nt = true
				}
			}
		}
		// non-trivial: a type whose width differs from the platform's word (64-bit) or follows it (int, uint, uintptr),
		// and for the 64-bit types a magnitude that does not fit 32 bits
		for _, v := range []int64{c.A, c.B, c.C}[:c.N] {
			if xt.bits == 64 {
				m := uint64(v)
				if xt.signed {
					m = abs64(v)
				}
				if m >= 1<<31 {
					nt = true
					labels = append(labels, "magnitude>=2^31", fmt.Sprintf("signed:%v-negative:%v", xt.signed, xt.signed && v < 0))
					break
				}
			}
		}
		switch c.T {
		case "int", "uint", "uintptr", "xMyInt", "xMyUint":
			nt = true
			labels = append(labels, "platform-sized-type")
		}
	}
	if msg != "" {
		return pbt.Fail("%s", msg)
	}
	return pbt.Outcome{Labels: labels, NonTrivial: nt, Evals: evals}
}

// xVals lists boundary patterns for a type: 0, +-1, +-10^k + {-1,0,1}, +-2^k + {-1,0,1}, the extremes (+-1);
// sparse keeps only the powers of two next to 7, 8, 15, 16, 31, 32, 33, 63, 64 bits and every third power of ten.
func xVals(xt xType, sparse bool) []int64 {
	xValsMu.Lock()
	defer xValsMu.Unlock()
	key := fmt.Sprintf("%s/%v", xt.name, sparse)
	if v, ok := xValsCache[key]; ok {
		return v
	}
	v := xValsCompute(xt, sparse)
	xValsCache[key] = v
	return v
}

var (
	xValsMu    sync.Mutex
	xValsCache = map[string][]int64{}
)

func xValsCompute(xt xType, sparse bool) []int64 {
	seen := map[int64]bool{}
	var out []int64
	add := func(b *big.Int) {
		if xt.wrap(b).Cmp(b) != 0 { // outside the type's range
			return
		}
		var pat int64
		if b.IsInt64() {
			pat = b.Int64()
		} else {
			pat = int64(b.Uint64())
		}
		if !seen[pat] {
			seen[pat] = true
			out = append(out, pat)
		}
	}
	around := func(b *big.Int) {
		for d := int64(-1); d <= 1; d++ {
			add(new(big.Int).Add(b, big.NewInt(d)))
			add(new(big.Int).Add(new(big.Int).Neg(b), big.NewInt(d)))
		}
	}
	add(big.NewInt(0))
	p := big.NewInt(1)
	for k := 0; k <= 19; k++ {
		if !sparse || k%3 == 0 || k >= 9 && k <= 10 || k == 19 {
			around(p)
		}
		p = new(big.Int).Mul(p, big.NewInt(10))
	}
	for k := 0; k <= 64; k++ {
		switch {
		case !sparse, k == 7, k == 8, k == 15, k == 16, k >= 31 && k <= 33, k >= 63:
			around(new(big.Int).Lsh(big.NewInt(1), uint(k)))
		}
	}
	// other magnitudes beyond 32 bits (the seeds of this class: 5e9, 123456789012)
	for _, v := range []int64{5000000000, 123456789012, 0x100000001, 0x1ffffffff, 0x7fffffff00000000, 0xffffffff0000} {
		around(big.NewInt(v))
	}
	return out
}

func xSet(xt xType, name string) []int64 {
	switch name {
	case "dense":
		return xVals(xt, false)
	case "sparse":
		return xVals(xt, true)
	case "tiny":
		var tiny []int64
		for i, v := range xVals(xt, true) {
			if i%5 == 0 || abs64(v) >= 1<<62 {
				tiny = append(tiny, v)
			}
		}
		return tiny
	}
	return nil
}

var xFloatVals = []int64{0, 1, -1, 2, 3, 4, -4, 5, -7, 1 << 10, -(1 << 10), 1<<20 - 1, -(1<<20 - 1), 1 << 20, 12345, -54321}

func enumX86(shard, shards int, tier string, yield func(X86) bool) {
	k := 0
	emit := func(c X86) bool {
		mine := k%shards == shard
		k++
		return !mine || yield(c)
	}
	for _, xt := range xTypes {
		dense := xVals(xt, false)
		for _, a := range dense {
			if !emit(X86{T: xt.name, N: 1, A: a}) {
				return
			}
		}
		set := "sparse"
		if tier == "thorough" {
			set = "dense"
		}
		for _, a := range xSet(xt, set) {
			if !emit(X86{T: xt.name, N: 2, A: a, Sweep: set}) {
				return
			}
		}
		tiny := xSet(xt, "tiny")
		for _, a := range tiny {
			for _, b := range tiny {
				if !emit(X86{T: xt.name, N: 3, A: a, B: b, Sweep: "tiny"}) {
					return
				}
			}
		}
	}
	for _, t := range []string{"float64", "float32"} {
		for _, a := range xFloatVals {
			for _, b := range xFloatVals {
				for _, c := range []int64{0, -1, 3, 1 << 20} {
					if !emit(X86{T: t, N: 3, A: a, B: b, C: c}) {
						return
					}
				}
			}
		}
	}
}

func genX86(t *rapid.T) X86 {
	names := []string{"float64", "float32"}
	for _, xt := range xTypes {
		names = append(names, xt.name, xt.name) // integers twice as often
	}
	c := X86{T: rapid.SampledFrom(names).Draw(t, "type"), N: rapid.IntRange(1, 3).Draw(t, "arity")}
	if c.T == "float64" || c.T == "float32" {
		g := rapid.Int64Range(-xFloatLim, xFloatLim)
		c.A, c.B, c.C = g.Draw(t, "a"), g.Draw(t, "b"), g.Draw(t, "c")
		return c
	}
	xt := xTypeOf(c.T)
	dense := xVals(*xt, false)
	g := rapid.OneOf(
		rapid.SampledFrom(dense),
		rapid.Int64(),
		rapid.Map(rapid.Int64Range(-1<<34, 1<<34), func(v int64) int64 { return v }), // around 2^31..2^34
		rapid.Map(rapid.Int64Range(0, 1<<20), func(v int64) int64 { return math.MinInt64 + v }),
	)
	c.A, c.B, c.C = g.Draw(t, "a"), g.Draw(t, "b"), g.Draw(t, "c")
	return c
}

var specX86 = pbt.Register(&pbt.Spec[X86]{
	Property: "C20", Name: "C20.x86",
	Rule: "test binary built and run with GOARCH=386 (int, uint, uintptr are 32 bits wide). For each of int64, uint64, int, uint, uintptr, int32, uint32, int16, uint16, int8, uint8 and named types over int64, uint64, int, uint: " +
		"1 argument: every boundary value (0, +-1, +-10^k + {-1,0,1} for k <= 19, +-2^k + {-1,0,1} for k <= 64, the extremes, 5e9, 123456789012, 2^32+1 ...) through Digits10, DigitsSign10, Abs (where representable), Clamp01, IsZero, ZeroOf, Ref/DerefZero, IsNil, TernCast, " +
		"Min/Max/Sum/Product/Coal of one argument; 2 arguments: all pairs of a thinned boundary set (thorough: the full set) through Min, Max, Sum, Product (wrapping), Coal, Compare, Less, Tern; 3 arguments: all triples of a smaller set through Clamp (bounds ordered), " +
		"Min, Max, Sum, Product, Coal; float64 and float32 (values k/4, |k| <= 2^20) through Min, Max, Sum, Product, Abs, Clamp, Clamp01, Compare, Less; plus rapid: uniform 64-bit patterns, values within +-2^34, values next to the 64-bit minimum. " +
		"Reference: math/big on the value widened through int64/uint64 conversions only. non-trivial = an argument of a 64-bit type whose magnitude is >= 2^31, or a platform-sized type (int, uint, uintptr and named types over them)",
	Gen: genX86, Enum: enumX86, Run: RunX86,
	Quick: 30000, Thorough: 300000,
	Replicas: 4, ReplicaEvery: 16,
})

func TestC20X86(t *testing.T) { pbt.Check(t, specX86) }
func TestReplay(t *testing.T) { pbt.Replay(t) }
