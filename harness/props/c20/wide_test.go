//go:build !386

package c20

import (
	"bytes"
	"fmt"
	"math"
	"math/big"
	mbits "math/bits"
	"strconv"
	"strings"
	"unsafe"

	typ "gopkg.in/typ.v4"
	"pgregory.net/rapid"
	"verifharness/internal/pbt"
)

// Wide is one call of one helper at one type. Numeric arguments are bit
// patterns: two's complement truncated to the type's width for integers, IEEE
// bits for floats (float32 in the low 32 bits), (re, im) pairs for complex.
// String arguments are in Strs.
type Wide struct {
	Fn   string   `json:"fn"`
	Type string   `json:"type"`
	Bits []uint64 `json:"bits,omitempty"`
	Strs []string `json:"strs,omitempty"`
	View *View    `json:"view,omitempty"`
}

// View makes the argument slice of a variadic call (passed as s...) a window into a larger buffer: Off elements
// before it and Spare elements of unused capacity after it, all filled with "poison" values (type extremes,
// +-Inf, "" and "\xff\xff\xff" alternating) that would change the result of any helper that looked outside v[:len(v)].
type View struct {
	Off   int `json:"off,omitempty"`
	Spare int `json:"spare,omitempty"`
}

const (
	maxViewOff   = 64
	maxViewSpare = 1 << 18 // elements: 2 MiB of unused capacity for 8-byte elements
)

func (v *View) ok() bool {
	return v == nil || (v.Off >= 0 && v.Off <= maxViewOff && v.Spare >= 0 && v.Spare <= maxViewSpare)
}

func (v *View) labels(elemSize int) []string {
	if v == nil {
		return nil
	}
	l := []string{"view:window-into-a-larger-buffer"}
	if v.Off > 0 {
		l = append(l, "view:elements-before")
	}
	switch {
	case v.Spare*elemSize > 1<<20:
		l = append(l, "view:spare-capacity>1MiB")
	case v.Spare > 0:
		l = append(l, "view:spare-capacity")
	}
	return l
}

// mkArgs allocates the argument slice of length n according to the view (nil: a plain exact-size slice).
func mkArgs[T any](v *View, n int, poison ...T) []T {
	if v == nil {
		return make([]T, n)
	}
	buf := make([]T, v.Off+n+v.Spare)
	for i := range buf {
		buf[i] = poison[i%len(poison)]
	}
	return buf[v.Off : v.Off+n] // capacity n+Spare: the poison after the window is reachable through cap()
}

// shortVals keeps error texts (and the cost of formatting them) bounded for long argument lists.
func shortVals[T any](v []T) any {
	if len(v) <= classifyMax {
		return v
	}
	s := make([]any, 0, 16)
	for _, x := range v[:8] {
		s = append(s, x)
	}
	s = append(s, fmt.Sprintf("... (%d arguments in all) ...", len(v)))
	for _, x := range v[len(v)-4:] {
		s = append(s, x)
	}
	return s
}

type wtype struct {
	name   string
	kind   string // "int" | "float" | "complex" | "string"
	bits   int    // int: width; float: 32|64; complex: 64|128
	signed bool
	weight int
	run    func(Wide, *wtype) pbt.Outcome
}

var wideTypes = []*wtype{
	{"int8", "int", 8, true, 1, runInt[int8]},
	{"int16", "int", 16, true, 1, runInt[int16]},
	{"int32", "int", 32, true, 2, runInt[int32]},
	{"int64", "int", 64, true, 3, runInt[int64]},
	{"int", "int", mbits.UintSize, true, 3, runInt[int]},
	{"uint8", "int", 8, false, 1, runInt[uint8]},
	{"uint16", "int", 16, false, 1, runInt[uint16]},
	{"uint32", "int", 32, false, 2, runInt[uint32]},
	{"uint64", "int", 64, false, 3, runInt[uint64]},
	{"uint", "int", mbits.UintSize, false, 2, runInt[uint]},
	{"uintptr", "int", mbits.UintSize, false, 2, runInt[uintptr]},
	{"myInt32", "int", 32, true, 1, runInt[myInt32]},
	{"myUint32", "int", 32, false, 1, runInt[myUint32]},
	{"myInt64", "int", 64, true, 2, runInt[myInt64]},
	{"myUint64", "int", 64, false, 2, runInt[myUint64]},
	{"myInt", "int", mbits.UintSize, true, 1, runInt[myInt]},
	{"myUintptr", "int", mbits.UintSize, false, 1, runInt[myUintptr]},
	{"methInt8", "int", 8, true, 1, runInt[methInt8]}, // named types whose own methods (IsZero, String, Less, Compare, Abs) contradict the operators
	{"methInt64", "int", 64, true, 2, runInt[methInt64]},
	{"methUint64", "int", 64, false, 1, runInt[methUint64]},
	{"float32", "float", 32, true, 4, runFloat[float32]},
	{"float64", "float", 64, true, 5, runFloat[float64]},
	{"myFloat32", "float", 32, true, 1, runFloat[myFloat32]},
	{"myFloat64", "float", 64, true, 2, runFloat[myFloat64]},
	{"methFloat64", "float", 64, true, 2, runFloat[methFloat64]},
	{"complex64", "complex", 64, true, 1, runComplex[complex64]},
	{"complex128", "complex", 128, true, 2, runComplex[complex128]},
	{"myComplex128", "complex", 128, true, 1, runComplex[myComplex128]},
	{"string", "string", 0, false, 3, runString[string]},
	{"myString", "string", 0, false, 1, runString[myString]},
	{"methString", "string", 0, false, 1, runString[methString]},
}

func wideType(name string) *wtype {
	for _, w := range wideTypes {
		if w.name == name {
			return w
		}
	}
	return nil
}

var (
	intFns     = []string{"Min", "Max", "Clamp", "Clamp01", "Sum", "Product", "Abs", "Compare", "Less", "Digits10", "DigitsSign10"}
	floatFns   = []string{"Min", "Max", "Clamp", "Clamp01", "Sum", "Product", "Abs", "Compare", "Less"}
	complexFns = []string{"Sum", "Product"}
	stringFns  = []string{"Min", "Max", "Clamp", "Compare", "Less"}
)

func fnsOf(kind string) []string {
	switch kind {
	case "int":
		return intFns
	case "float":
		return floatFns
	case "complex":
		return complexFns
	}
	return stringFns
}

// argRange is the number of arguments fn accepts in this harness (Min/Max of
// no arguments panic by documentation and are outside the statement).
func argRange(fn string) (lo, hi int) {
	switch fn {
	case "Min", "Max":
		return 1, 6
	case "Sum", "Product":
		return 0, 6
	case "Clamp":
		return 3, 3
	case "Compare", "Less":
		return 2, 2
	}
	return 1, 1
}

func malformed() pbt.Outcome { return pbt.Outcome{Skipped: true, Labels: []string{"malformed"}} }

func RunWide(c Wide) pbt.Outcome {
	wt := wideType(c.Type)
	if wt == nil {
		return malformed()
	}
	ok := false
	for _, f := range fnsOf(wt.kind) {
		if f == c.Fn {
			ok = true
		}
	}
	n := len(c.Bits)
	if wt.kind == "string" {
		n = len(c.Strs)
	} else if wt.kind == "complex" {
		if n%2 != 0 {
			return malformed()
		}
		n /= 2
	}
	lo, hi := argRange(c.Fn)
	if !ok || n < lo || n > hi || !c.View.ok() {
		return malformed()
	}
	return wt.run(c, wt)
}

// ---------------------------------------------------------------- integers

func (w *wtype) mask() uint64 { return ^uint64(0) >> (64 - w.bits) }

// bigOf is the exact value of the w-bit pattern b.
func (w *wtype) bigOf(b uint64) *big.Int {
	b &= w.mask()
	v := new(big.Int).SetUint64(b)
	if w.signed && b>>(w.bits-1) == 1 {
		v.Sub(v, new(big.Int).Lsh(big.NewInt(1), uint(w.bits)))
	}
	return v
}

func (w *wtype) bigMin() *big.Int {
	if !w.signed {
		return big.NewInt(0)
	}
	return new(big.Int).Neg(new(big.Int).Lsh(big.NewInt(1), uint(w.bits-1)))
}

func (w *wtype) bigMax() *big.Int {
	n := uint(w.bits)
	if w.signed {
		n--
	}
	v := new(big.Int).Lsh(big.NewInt(1), n)
	return v.Sub(v, big.NewInt(1))
}

// wrapBig reduces x modulo 2^bits into the type's range.
func (w *wtype) wrapBig(x *big.Int) *big.Int {
	m := new(big.Int).Lsh(big.NewInt(1), uint(w.bits))
	r := new(big.Int).Mod(x, m) // Euclidean: 0 <= r < m
	if w.signed && r.Cmp(w.bigMax()) > 0 {
		r.Sub(r, m)
	}
	return r
}

var bigPow10 = func() []*big.Int {
	out := make([]*big.Int, 21)
	out[0] = big.NewInt(1)
	for i := 1; i < len(out); i++ {
		out[i] = new(big.Int).Mul(out[i-1], big.NewInt(10))
	}
	return out
}()

type intClass struct{ min, max, nextExt, pow10, pow10pm1, zero, neg, other bool }

func (w *wtype) classifyInt(v *big.Int, cl *intClass) (nt bool) {
	one := big.NewInt(1)
	d := new(big.Int)
	switch {
	case v.Cmp(w.bigMin()) == 0:
		cl.min, nt = true, true
	case v.Cmp(w.bigMax()) == 0:
		cl.max, nt = true, true
	case d.Sub(v, w.bigMin()).Cmp(one) == 0 || d.Sub(w.bigMax(), v).Cmp(one) == 0:
		cl.nextExt, nt = true, true
	}
	if v.Sign() == 0 {
		cl.zero = true
	}
	if v.Sign() < 0 {
		cl.neg = true
	}
	a := new(big.Int).Abs(v)
	for _, p := range bigPow10 {
		d.Sub(a, p)
		if d.Sign() == 0 {
			cl.pow10, nt = true, true
		} else if d.CmpAbs(one) == 0 {
			cl.pow10pm1, nt = true, true
		}
	}
	if !nt {
		cl.other = true
	}
	return nt
}

func (cl *intClass) labels() []string {
	var l []string
	add := func(b bool, s string) {
		if b {
			l = append(l, s)
		}
	}
	add(cl.min, "arg:type-min")
	add(cl.max, "arg:type-max")
	add(cl.nextExt, "arg:next-to-extreme")
	add(cl.pow10, "arg:pow10")
	add(cl.pow10pm1, "arg:pow10+-1")
	add(cl.zero, "arg:zero")
	add(cl.neg, "arg:negative")
	add(cl.other, "arg:ordinary")
	return l
}

func fromInt[T typ.Integer](x T, signed bool) *big.Int {
	if signed {
		return big.NewInt(int64(x))
	}
	return new(big.Int).SetUint64(uint64(x))
}

func callText(fn, tn string, vals any) string {
	s := fmt.Sprintf("%v", vals)
	if len(s) > 400 {
		s = s[:300] + " ... " + s[len(s)-80:] + " (argument list shortened, see the replay file)"
	}
	return fmt.Sprintf("%s[%s]%s", fn, tn, s)
}

// argsClass is the label of an argument count: exact up to 8, then by size class.
func argsClass(n int) string {
	switch {
	case n <= 8:
		return strconv.Itoa(n)
	case n <= 32:
		return "9..32"
	case n <= 64:
		return "33..64"
	case n <= 256:
		return "65..256"
	case n <= 1024:
		return "257..1024"
	case n <= 4096:
		return "1025..4096"
	}
	return ">4096"
}

// classifyMax: only the first arguments of a long list are classified (labels and non-triviality only; every argument is checked).
const classifyMax = 64

func runInt[T typ.Integer](c Wide, wt *wtype) pbt.Outcome {
	n := len(c.Bits)
	out := pbt.Outcome{Labels: []string{"fn:" + c.Fn, "type:" + c.Type, "kind:" + map[bool]string{true: "int", false: "uint"}[wt.signed] + strconv.Itoa(wt.bits), "args=" + argsClass(n)}}
	out.Labels = append(out.Labels, c.View.labels(wt.bits/8)...)
	if ^T(0) < 0 != wt.signed {
		return pbt.Fail("harness error: signedness table wrong for %s", c.Type)
	}
	if n > classifyMax {
		switch c.Fn {
		case "Min", "Max", "Sum", "Product":
			return runIntLong[T](c, wt, out)
		}
	}
	args := mkArgs(c.View, n, T(wt.minBits()), T(wt.maxBits()))
	vals := make([]*big.Int, n)
	var cl intClass
	for i, b := range c.Bits {
		b &= wt.mask()
		args[i] = T(b)
		vals[i] = wt.bigOf(b)
		if fromInt(args[i], wt.signed).Cmp(vals[i]) != 0 {
			return pbt.Fail("harness error: %s(%#x) decoded as %v, exact value %v", c.Type, b, args[i], vals[i])
		}
		if i < classifyMax && wt.classifyInt(vals[i], &cl) {
			out.NonTrivial = true
		}
	}
	out.Labels = append(out.Labels, cl.labels()...)
	call := callText(c.Fn, c.Type, vals)
	bad := func(got, want any, why string) pbt.Outcome {
		return pbt.Fail("typ.%s = %v, want %v (%s)", call, got, want, why)
	}
	switch c.Fn {
	case "Min", "Max":
		var got T
		if c.Fn == "Min" {
			got = typ.Min(args...)
		} else {
			got = typ.Max(args...)
		}
		g := fromInt(got, wt.signed)
		isArg, ties := false, 0
		for _, v := range vals {
			if v.Cmp(g) == 0 {
				isArg = true
				ties++
			}
			if c.Fn == "Min" && g.Cmp(v) > 0 {
				return bad(g, "<= "+v.String(), "result must be <= every argument")
			}
			if c.Fn == "Max" && g.Cmp(v) < 0 {
				return bad(g, ">= "+v.String(), "result must be >= every argument")
			}
		}
		if !isArg {
			return bad(g, "one of the arguments", "result must be an argument")
		}
		if ties > 1 {
			out.Labels = append(out.Labels, "minmax:tie")
		}
	case "Clamp":
		v, lo, hi := vals[0], vals[1], vals[2]
		if lo.Cmp(hi) > 0 {
			return pbt.Outcome{Skipped: true, Labels: []string{"clamp:lo>hi-excluded"}}
		}
		want := v
		switch {
		case v.Cmp(lo) < 0:
			want = lo
			out.Labels = append(out.Labels, "clamp:below")
		case v.Cmp(hi) > 0:
			want = hi
			out.Labels = append(out.Labels, "clamp:above")
		default:
			out.Labels = append(out.Labels, "clamp:inside")
		}
		if lo.Cmp(hi) == 0 {
			out.Labels = append(out.Labels, "clamp:lo==hi")
		}
		if g := fromInt(typ.Clamp(args[0], args[1], args[2]), wt.signed); g.Cmp(want) != 0 {
			return bad(g, want, "v if lo <= v <= hi, else the nearer bound")
		}
	case "Clamp01":
		want := vals[0]
		if want.Sign() < 0 {
			want = big.NewInt(0)
		} else if want.Cmp(big.NewInt(1)) > 0 {
			want = big.NewInt(1)
		}
		if g := fromInt(typ.Clamp01(args[0]), wt.signed); g.Cmp(want) != 0 {
			return bad(g, want, "Clamp to [0,1]")
		}
	case "Sum", "Product":
		exact := big.NewInt(0)
		if c.Fn == "Product" {
			exact = big.NewInt(1)
		}
		for _, v := range vals {
			if c.Fn == "Sum" {
				exact.Add(exact, v)
			} else {
				exact.Mul(exact, v)
			}
		}
		want := wt.wrapBig(exact)
		if want.Cmp(exact) != 0 {
			out.Labels = append(out.Labels, "arith:wraps")
		} else {
			out.Labels = append(out.Labels, "arith:exact")
		}
		var got T
		if c.Fn == "Sum" {
			got = typ.Sum(args...)
		} else {
			got = typ.Product(args...)
		}
		if g := fromInt(got, wt.signed); g.Cmp(want) != 0 {
			return bad(g, want, fmt.Sprintf("exact result %v reduced modulo 2^%d", exact, wt.bits))
		}
	case "Abs":
		want := new(big.Int).Abs(vals[0])
		got := typ.Abs(args[0])
		if want.Cmp(wt.bigMax()) > 0 {
			// |min| is not representable: excluded by the statement ("where representable")
			return pbt.Outcome{Skipped: true, Labels: []string{"abs:signed-min-excluded"}}
		}
		if vals[0].Sign() < 0 {
			out.Labels = append(out.Labels, "abs:negative")
		}
		if g := fromInt(got, wt.signed); g.Cmp(want) != 0 {
			return bad(g, want, "magnitude")
		}
	case "Compare":
		want := vals[0].Cmp(vals[1])
		out.Labels = append(out.Labels, "cmp:"+[]string{"<", "==", ">"}[want+1])
		if got := typ.Compare(args[0], args[1]); got != want {
			return bad(got, want, "-1 if a < b, 0 if a == b, +1 if a > b")
		}
	case "Less":
		want := vals[0].Cmp(vals[1]) < 0
		out.Labels = append(out.Labels, "cmp:"+[]string{"<", "==", ">"}[vals[0].Cmp(vals[1])+1])
		if got := typ.Less(args[0], args[1]); got != want {
			return bad(got, want, "a < b")
		}
	case "Digits10", "DigitsSign10":
		// two independent references: strconv's decimal string and math/big's
		var s string
		if wt.signed {
			s = strconv.FormatInt(int64(args[0]), 10)
		} else {
			s = strconv.FormatUint(uint64(args[0]), 10)
		}
		digits := len(strings.TrimPrefix(s, "-"))
		if bd := len(new(big.Int).Abs(vals[0]).Text(10)); bd != digits {
			return pbt.Fail("harness error: references disagree on the digits of %v: strconv %d, math/big %d", vals[0], digits, bd)
		}
		out.Labels = append(out.Labels, fmt.Sprintf("digits=%02d", digits))
		if c.Fn == "Digits10" {
			if got := typ.Digits10(args[0]); got != digits {
				return bad(got, digits, "number of decimal digits of |v|")
			}
		} else {
			if got := typ.DigitsSign10(args[0]); got != len(s) {
				return bad(got, len(s), "decimal digits of |v| plus one for the sign of a negative v")
			}
		}
	}
	return out
}

// runIntLong judges Min/Max/Sum/Product over a long integer argument list with
// machine arithmetic instead of math/big: sums and products are accumulated
// modulo 2^64 and reduced modulo 2^bits (exact, because 2^bits divides 2^64);
// the order of the type is the order of the bit patterns after flipping the
// sign bit of signed types.
func runIntLong[T typ.Integer](c Wide, wt *wtype, out pbt.Outcome) pbt.Outcome {
	m := wt.mask()
	key := func(b uint64) uint64 { // order-preserving map of a bit pattern into uint64
		if wt.signed {
			return b ^ wt.minBits()
		}
		return b
	}
	text := func(b uint64) string { return wt.bigOf(b).String() }
	args := mkArgs(c.View, len(c.Bits), T(wt.minBits()), T(wt.maxBits()))
	shown := make([]string, 0, 12)
	for i, b := range c.Bits {
		b &= m
		args[i] = T(b)
		if uint64(args[i])&m != b {
			return pbt.Fail("harness error: %s(%#x) does not convert back to the same bit pattern", c.Type, b)
		}
		if i < 6 || i >= len(c.Bits)-4 {
			if i == len(c.Bits)-4 {
				shown = append(shown, "...")
			}
			shown = append(shown, text(b))
		}
	}
	call := fmt.Sprintf("%s[%s](%d arguments: %s)", c.Fn, c.Type, len(args), strings.Join(shown, " "))
	out.Labels = append(out.Labels, "oracle:machine-arithmetic")
	switch c.Fn {
	case "Min", "Max":
		var got T
		if c.Fn == "Min" {
			got = typ.Min(args...)
		} else {
			got = typ.Max(args...)
		}
		g := uint64(got) & m
		isArg := false
		for i, b := range c.Bits {
			b &= m
			if b == g {
				isArg = true
			}
			if c.Fn == "Min" && key(g) > key(b) {
				return pbt.Fail("typ.%s = %s, want <= %s (argument #%d; the result must be <= every argument)", call, text(g), text(b), i)
			}
			if c.Fn == "Max" && key(g) < key(b) {
				return pbt.Fail("typ.%s = %s, want >= %s (argument #%d; the result must be >= every argument)", call, text(g), text(b), i)
			}
		}
		if !isArg {
			return pbt.Fail("typ.%s = %s, want one of the arguments", call, text(g))
		}
	case "Sum", "Product":
		var got T
		var acc uint64
		if c.Fn == "Sum" {
			for _, b := range c.Bits {
				acc += b & m
			}
			got = typ.Sum(args...)
		} else {
			acc = 1
			for _, b := range c.Bits {
				if wt.signed && (b&m)>>(wt.bits-1) == 1 {
					b |= ^m // sign-extend (immaterial modulo 2^bits, kept for clarity)
				} else {
					b &= m
				}
				acc *= b
			}
			got = typ.Product(args...)
		}
		if g := uint64(got) & m; g != acc&m {
			return pbt.Fail("typ.%s = %s, want %s (left-to-right wrapping arithmetic modulo 2^%d)", call, text(g), text(acc&m), wt.bits)
		}
	}
	return out
}

// ---------------------------------------------------------------- floats

func (w *wtype) floatOf(b uint64) float64 {
	if w.partBits() == 32 {
		return float64(math.Float32frombits(uint32(b)))
	}
	return math.Float64frombits(b)
}

// partBits is the width of a float or of one part of a complex.
func (w *wtype) partBits() int {
	if w.kind == "complex" {
		return w.bits / 2
	}
	return w.bits
}

type floatClass struct{ zero, inf, max, sub, pow10, unit, frac, neg, other bool }

// classifyFloat: non-trivial = +-0, +-Inf, +-Max, subnormal or smallest
// normal, or within one ulp of +-10^k (which includes +-1).
func classifyFloat(f float64, width int, cl *floatClass) (nt bool) {
	a := math.Abs(f)
	if f < 0 || (f == 0 && math.Signbit(f)) {
		cl.neg = true
	}
	maxv, smallNorm := math.MaxFloat64, 0x1p-1022
	if width == 32 {
		maxv, smallNorm = math.MaxFloat32, 0x1p-126
	}
	switch {
	case a == 0:
		cl.zero, nt = true, true
	case math.IsInf(a, 0):
		cl.inf, nt = true, true
	case a == maxv:
		cl.max, nt = true, true
	case a <= smallNorm:
		cl.sub, nt = true, true
	}
	if a > 0 && a < 1 {
		cl.frac = true
	}
	if a > 0 && !math.IsInf(a, 0) {
		k := int(math.Floor(math.Log10(a)))
		for _, kk := range []int{k - 1, k, k + 1} {
			if kk < -330 || kk > 308 {
				continue
			}
			hit := false
			if width == 32 {
				p := float32(math.Pow10(kk))
				a32 := float32(a)
				hit = p > 0 && !math.IsInf(float64(p), 0) && (a32 == p || a32 == math.Nextafter32(p, 0) || a32 == math.Nextafter32(p, float32(math.Inf(1))))
			} else {
				p := math.Pow10(kk)
				hit = p > 0 && (a == p || a == math.Nextafter(p, 0) || a == math.Nextafter(p, math.Inf(1)))
			}
			if hit {
				nt = true
				if kk == 0 {
					cl.unit = true
				} else {
					cl.pow10 = true
				}
			}
		}
	}
	if !nt {
		cl.other = true
	}
	return nt
}

func (cl *floatClass) labels() []string {
	var l []string
	add := func(b bool, s string) {
		if b {
			l = append(l, s)
		}
	}
	add(cl.zero, "arg:+-0")
	add(cl.inf, "arg:+-Inf")
	add(cl.max, "arg:+-MaxFloat")
	add(cl.sub, "arg:subnormal-or-smallest-normal")
	add(cl.pow10, "arg:10^k+-ulp")
	add(cl.unit, "arg:1+-ulp")
	add(cl.frac, "arg:in(0,1)")
	add(cl.neg, "arg:negative")
	add(cl.other, "arg:ordinary")
	return l
}

func sameFloat(a, b float64) bool { return a == b || (a != a && b != b) }

func runFloat[T typ.Float](c Wide, wt *wtype) pbt.Outcome {
	n := len(c.Bits)
	args := mkArgs(c.View, n, T(math.Inf(-1)), T(math.Inf(1)))
	vals := make([]float64, n)
	var cl floatClass
	out := pbt.Outcome{Labels: []string{"fn:" + c.Fn, "type:" + c.Type, "kind:float" + strconv.Itoa(wt.bits), "args=" + argsClass(n)}}
	out.Labels = append(out.Labels, c.View.labels(wt.bits/8)...)
	for i, b := range c.Bits {
		vals[i] = wt.floatOf(b)
		if vals[i] != vals[i] {
			return pbt.Outcome{Skipped: true, Labels: []string{"nan-excluded"}}
		}
		args[i] = T(vals[i]) // exact: vals[i] is a value of the type
		if float64(args[i]) != vals[i] {
			return pbt.Fail("harness error: %s conversion of %v not exact", c.Type, vals[i])
		}
		if i < classifyMax && classifyFloat(vals[i], wt.bits, &cl) {
			out.NonTrivial = true
		}
	}
	out.Labels = append(out.Labels, cl.labels()...)
	call := callText(c.Fn, c.Type, shortVals(vals))
	bad := func(got, want any, why string) pbt.Outcome {
		return pbt.Fail("typ.%s = %v, want %v (%s)", call, got, want, why)
	}
	switch c.Fn {
	case "Min", "Max":
		var got float64
		if c.Fn == "Min" {
			got = float64(typ.Min(args...))
		} else {
			got = float64(typ.Max(args...))
		}
		isArg, ties := false, 0
		for _, v := range vals {
			if v == got {
				isArg = true
				ties++
			}
			if c.Fn == "Min" && !(got <= v) {
				return bad(got, fmt.Sprintf("<= %v", v), "result must be <= every argument")
			}
			if c.Fn == "Max" && !(got >= v) {
				return bad(got, fmt.Sprintf(">= %v", v), "result must be >= every argument")
			}
		}
		if !isArg {
			return bad(got, "one of the arguments", "result must be an argument")
		}
		if ties > 1 {
			out.Labels = append(out.Labels, "minmax:tie")
		}
	case "Clamp":
		v, lo, hi := vals[0], vals[1], vals[2]
		if lo > hi {
			return pbt.Outcome{Skipped: true, Labels: []string{"clamp:lo>hi-excluded"}}
		}
		want := v
		switch {
		case v < lo:
			want = lo
			out.Labels = append(out.Labels, "clamp:below")
		case v > hi:
			want = hi
			out.Labels = append(out.Labels, "clamp:above")
		default:
			out.Labels = append(out.Labels, "clamp:inside")
		}
		if lo == hi {
			out.Labels = append(out.Labels, "clamp:lo==hi")
		}
		if got := float64(typ.Clamp(args[0], args[1], args[2])); got != want {
			return bad(got, want, "v if lo <= v <= hi, else the nearer bound")
		}
	case "Clamp01":
		want := vals[0]
		switch {
		case want < 0:
			want = 0
			out.Labels = append(out.Labels, "clamp:below")
		case want > 1:
			want = 1
			out.Labels = append(out.Labels, "clamp:above")
		default:
			out.Labels = append(out.Labels, "clamp:inside")
		}
		if got := float64(typ.Clamp01(args[0])); got != want {
			return bad(got, want, "Clamp to [0,1]")
		}
	case "Sum", "Product":
		// same-order IEEE loop in the concrete type
		var want float64
		if wt.bits == 32 {
			acc := float32(0)
			if c.Fn == "Product" {
				acc = 1
			}
			for _, v := range vals {
				if c.Fn == "Sum" {
					acc += float32(v)
				} else {
					acc *= float32(v)
				}
			}
			want = float64(acc)
		} else {
			acc := float64(0)
			if c.Fn == "Product" {
				acc = 1
			}
			for _, v := range vals {
				if c.Fn == "Sum" {
					acc += v
				} else {
					acc *= v
				}
			}
			want = acc
		}
		var got float64
		if c.Fn == "Sum" {
			got = float64(typ.Sum(args...))
		} else {
			got = float64(typ.Product(args...))
		}
		switch {
		case want != want:
			out.Labels = append(out.Labels, "arith:nan-result")
		case math.IsInf(want, 0):
			out.Labels = append(out.Labels, "arith:inf-result")
		default:
			out.Labels = append(out.Labels, "arith:finite")
		}
		if !sameFloat(got, want) {
			return bad(got, want, "left-to-right IEEE arithmetic starting from the identity")
		}
	case "Abs":
		want := math.Abs(vals[0])
		if vals[0] < 0 {
			out.Labels = append(out.Labels, "abs:negative")
		}
		if got := float64(typ.Abs(args[0])); got != want {
			return bad(got, want, "magnitude")
		}
	case "Compare", "Less":
		want := 0
		if vals[0] < vals[1] {
			want = -1
		} else if vals[0] > vals[1] {
			want = 1
		}
		out.Labels = append(out.Labels, "cmp:"+[]string{"<", "==", ">"}[want+1])
		if c.Fn == "Compare" {
			if got := typ.Compare(args[0], args[1]); got != want {
				return bad(got, want, "-1 if a < b, 0 if a == b, +1 if a > b")
			}
		} else if got := typ.Less(args[0], args[1]); got != (want < 0) {
			return bad(got, want < 0, "a < b")
		}
	}
	return out
}

// ---------------------------------------------------------------- complex

func runComplex[T typ.Complex](c Wide, wt *wtype) pbt.Outcome {
	n := len(c.Bits) / 2
	args := mkArgs(c.View, n, T(complex(math.Inf(1), math.Inf(-1))), T(complex(math.Inf(-1), 3)))
	vals := make([]complex128, n)
	var cl floatClass
	out := pbt.Outcome{Labels: []string{"fn:" + c.Fn, "type:" + c.Type, "kind:complex" + strconv.Itoa(wt.bits), "args=" + argsClass(n)}}
	out.Labels = append(out.Labels, c.View.labels(wt.bits/8)...)
	for i := 0; i < n; i++ {
		re, im := wt.floatOf(c.Bits[2*i]), wt.floatOf(c.Bits[2*i+1])
		if re != re || im != im {
			return pbt.Outcome{Skipped: true, Labels: []string{"nan-excluded"}}
		}
		vals[i] = complex(re, im)
		args[i] = T(vals[i])
		if complex128(args[i]) != vals[i] {
			return pbt.Fail("harness error: %s conversion of %v not exact", c.Type, vals[i])
		}
		a := i < classifyMax && classifyFloat(re, wt.partBits(), &cl)
		b := i < classifyMax && classifyFloat(im, wt.partBits(), &cl)
		if a || b {
			out.NonTrivial = true
		}
	}
	out.Labels = append(out.Labels, cl.labels()...)
	var want complex128
	if wt.bits == 64 {
		acc := complex64(0)
		if c.Fn == "Product" {
			acc = 1
		}
		for _, v := range vals {
			if c.Fn == "Sum" {
				acc += complex64(v)
			} else {
				acc *= complex64(v)
			}
		}
		want = complex128(acc)
	} else {
		acc := complex128(0)
		if c.Fn == "Product" {
			acc = 1
		}
		for _, v := range vals {
			if c.Fn == "Sum" {
				acc += v
			} else {
				acc *= v
			}
		}
		want = acc
	}
	var got complex128
	if c.Fn == "Sum" {
		got = complex128(typ.Sum(args...))
	} else {
		got = complex128(typ.Product(args...))
	}
	if real(want) != real(want) || imag(want) != imag(want) {
		out.Labels = append(out.Labels, "arith:nan-result")
	} else {
		out.Labels = append(out.Labels, "arith:no-nan")
	}
	if !sameFloat(real(got), real(want)) || !sameFloat(imag(got), imag(want)) {
		return pbt.Fail("typ.%s = %v, want %v (left-to-right complex arithmetic starting from the identity)", callText(c.Fn, c.Type, shortVals(vals)), got, want)
	}
	return out
}

// ---------------------------------------------------------------- strings

// abbrevQ quotes a string, shortening long ones to head, tail and length.
func abbrevQ(s string) string {
	if len(s) <= 80 {
		return strconv.Quote(s)
	}
	return fmt.Sprintf("%q...%q (%d bytes)", s[:24], s[len(s)-24:], len(s))
}

// rawBytes views the bytes of a string without copying (read-only use).
func rawBytes(s string) []byte { return unsafe.Slice(unsafe.StringData(s), len(s)) }

func runString[T ~string](c Wide, wt *wtype) pbt.Outcome {
	n := len(c.Strs)
	args := mkArgs(c.View, n, T(""), T("\xff\xff\xff"))
	out := pbt.Outcome{Labels: []string{"fn:" + c.Fn, "type:" + c.Type, "kind:string", "args=" + argsClass(n)}}
	out.Labels = append(out.Labels, c.View.labels(16)...)
	// reference order: bytes.Compare on the raw bytes
	cmp := func(a, b string) int { return bytes.Compare(rawBytes(a), rawBytes(b)) }
	hasEmpty, related := false, false
	for i, s := range c.Strs {
		args[i] = T(s)
		if s == "" {
			hasEmpty = true
		}
		if i >= 4*classifyMax { // classification only (labels, non-triviality): the head of a long list is enough
			continue
		}
		for _, p := range c.Strs[:min(i, classifyMax)] {
			if strings.HasPrefix(p, s) || strings.HasPrefix(s, p) {
				related = true
			}
		}
	}
	// non-trivial for strings: an empty string, or two arguments one of which is a prefix of (or equal to) the other
	out.NonTrivial = hasEmpty || related
	if hasEmpty {
		out.Labels = append(out.Labels, "arg:empty-string")
	}
	if related {
		out.Labels = append(out.Labels, "args:prefix-or-equal")
	}
	parts := make([]string, 0, 14)
	for i, s := range c.Strs {
		if n > 12 && i >= 8 && i < n-4 {
			if i == 8 {
				parts = append(parts, fmt.Sprintf("... (%d arguments in all) ...", n))
			}
			continue
		}
		parts = append(parts, abbrevQ(s))
	}
	call := "[" + strings.Join(parts, " ") + "]"
	if len(call) > 400 {
		call = call[:300] + " ... " + call[len(call)-80:] + " (argument list shortened, see the replay file)"
	}
	call = c.Fn + "[" + c.Type + "]" + call
	bad := func(got string, want any, why string) pbt.Outcome {
		return pbt.Fail("typ.%s = %s, want %v (%s)", call, abbrevQ(got), want, why)
	}
	switch c.Fn {
	case "Min", "Max":
		var got string
		if c.Fn == "Min" {
			got = string(typ.Min(args...))
		} else {
			got = string(typ.Max(args...))
		}
		isArg := false
		for _, s := range c.Strs {
			if s == got {
				isArg = true
			}
			if c.Fn == "Min" && cmp(got, s) > 0 {
				return bad(got, "<= "+abbrevQ(s), "result must be <= every argument")
			}
			if c.Fn == "Max" && cmp(got, s) < 0 {
				return bad(got, ">= "+abbrevQ(s), "result must be >= every argument")
			}
		}
		if !isArg {
			return bad(got, "one of the arguments", "result must be an argument")
		}
	case "Clamp":
		v, lo, hi := c.Strs[0], c.Strs[1], c.Strs[2]
		if cmp(lo, hi) > 0 {
			return pbt.Outcome{Skipped: true, Labels: []string{"clamp:lo>hi-excluded"}}
		}
		want := v
		switch {
		case cmp(v, lo) < 0:
			want = lo
			out.Labels = append(out.Labels, "clamp:below")
		case cmp(v, hi) > 0:
			want = hi
			out.Labels = append(out.Labels, "clamp:above")
		default:
			out.Labels = append(out.Labels, "clamp:inside")
		}
		if got := string(typ.Clamp(args[0], args[1], args[2])); got != want {
			return bad(got, abbrevQ(want), "v if lo <= v <= hi, else the nearer bound")
		}
	case "Compare", "Less":
		want := cmp(c.Strs[0], c.Strs[1])
		out.Labels = append(out.Labels, "cmp:"+[]string{"<", "==", ">"}[want+1])
		if c.Fn == "Compare" {
			if got := typ.Compare(args[0], args[1]); got != want {
				return pbt.Fail("typ.%s = %d, want %d (byte-wise lexicographic order)", call, got, want)
			}
		} else if got := typ.Less(args[0], args[1]); got != (want < 0) {
			return pbt.Fail("typ.%s = %v, want %v (byte-wise lexicographic order)", call, got, want < 0)
		}
	}
	return out
}

// ---------------------------------------------------------------- boundary sets

// signExt interprets the low w bits of b as a signed (or unsigned) value and
// reports a three-way comparison of two patterns in the type's order.
func (w *wtype) cmpBits(a, b uint64) int {
	switch w.kind {
	case "int":
		return w.bigOf(a).Cmp(w.bigOf(b))
	default:
		x, y := w.floatOf(a), w.floatOf(b)
		switch {
		case x < y:
			return -1
		case x > y:
			return 1
		}
		return 0
	}
}

func (w *wtype) maxPow10() int {
	k := 0
	for k+1 < len(bigPow10) && bigPow10[k+1].Cmp(w.bigMax()) <= 0 {
		k++
	}
	return k
}

func (w *wtype) minBits() uint64 {
	if w.signed {
		return uint64(1) << (w.bits - 1)
	}
	return 0
}
func (w *wtype) maxBits() uint64 {
	if w.signed {
		return w.mask() >> 1
	}
	return w.mask()
}

func pow10u(k int) uint64 {
	p := uint64(1)
	for i := 0; i < k; i++ {
		p *= 10
	}
	return p
}

func dedupe(in []uint64) []uint64 {
	var out []uint64
	for _, x := range in {
		dup := false
		for _, y := range out {
			if x == y {
				dup = true
				break
			}
		}
		if !dup {
			out = append(out, x)
		}
	}
	return out
}

// intBoundary lists boundary values of an integer type as bit patterns.
func (w *wtype) intBoundary(dense bool) []uint64 {
	m := w.mask()
	var out []uint64
	add := func(x uint64) { out = append(out, x&m) }
	if dense {
		for d := uint64(0); d <= 2; d++ {
			add(w.minBits() + d)
			add(w.maxBits() - d)
			add(d)
			if w.signed {
				add(-d)
			}
		}
		for k := 1; k <= w.maxPow10(); k++ {
			p := pow10u(k)
			for _, d := range []uint64{^uint64(0), 0, 1} { // -1, 0, +1
				add(p + d)
				if w.signed {
					add(-p + d)
				}
			}
		}
		add(uint64(1) << (w.bits / 2))
		add(uint64(1)<<(w.bits/2) - 1)
		return dedupe(out)
	}
	add(0)
	add(1)
	add(w.minBits())
	add(w.minBits() + 1)
	add(w.maxBits())
	add(w.maxBits() - 1)
	add(9)
	add(10)
	add(11)
	add(pow10u(w.maxPow10()))
	add(pow10u(w.maxPow10()) + 1)
	add(uint64(1) << (w.bits / 2))
	add(12345 % (m/2 + 1))
	if w.signed {
		add(^uint64(0)) // -1
		add(^uint64(9)) // -10
		add(-pow10u(w.maxPow10()))
	}
	return dedupe(out)
}

// floatBoundary lists boundary values of a float type as bit patterns (no NaN).
func floatBoundary(width int, dense bool) []uint64 {
	var vals []float64
	addBoth := func(f float64) { vals = append(vals, f, -f) }
	var ks []int
	if width == 32 {
		addBoth(0)
		addBoth(1)
		addBoth(float64(math.MaxFloat32))
		addBoth(math.Inf(1))
		vals = append(vals, 0.5, float64(math.Nextafter32(1, 0)), float64(math.Nextafter32(1, 2)), float64(math.SmallestNonzeroFloat32), 0x1p-126, 10, float64(float32(0.1)), 3)
		if dense {
			addBoth(0.5)
			addBoth(float64(math.SmallestNonzeroFloat32))
			addBoth(float64(math.Nextafter32(0x1p-126, 0))) // largest subnormal
			addBoth(0x1p-126)
			vals = append(vals, 2, -2, -3, 0.25, 0.75, float64(math.Nextafter32(float32(math.MaxFloat32), 0)), 16777216, 16777217)
			ks = []int{-45, -38, -37, -10, -5, -4, -3, -2, -1, 1, 2, 3, 4, 5, 7, 8, 9, 10, 11, 20, 37, 38}
		}
	} else {
		addBoth(0)
		addBoth(1)
		addBoth(math.MaxFloat64)
		addBoth(math.Inf(1))
		vals = append(vals, 0.5, math.Nextafter(1, 0), math.Nextafter(1, 2), math.SmallestNonzeroFloat64, 0x1p-1022, 10, 0.1, 1e22)
		if dense {
			addBoth(0.5)
			addBoth(math.SmallestNonzeroFloat64)
			addBoth(math.Nextafter(0x1p-1022, 0))
			addBoth(0x1p-1022)
			vals = append(vals, 2, -2, 3, -3, 0.25, 0.75, math.Nextafter(math.MaxFloat64, 0), 9007199254740992, 9007199254740993)
			ks = []int{-323, -308, -307, -100, -10, -5, -4, -3, -2, -1, 1, 2, 3, 4, 5, 9, 10, 15, 16, 17, 19, 22, 23, 100, 307, 308}
		}
	}
	for _, k := range ks {
		p := math.Pow10(k)
		if width == 32 {
			p32 := float32(p)
			vals = append(vals, float64(p32), float64(math.Nextafter32(p32, 0)), float64(math.Nextafter32(p32, float32(math.Inf(1)))), -float64(p32))
		} else {
			vals = append(vals, p, math.Nextafter(p, 0), math.Nextafter(p, math.Inf(1)), -p)
		}
	}
	var out []uint64
	for _, f := range vals {
		if width == 32 {
			out = append(out, uint64(math.Float32bits(float32(f))))
		} else {
			out = append(out, math.Float64bits(f))
		}
	}
	return dedupe(out)
}

var floatDense = map[int][]uint64{32: floatBoundary(32, true), 64: floatBoundary(64, true)}

var stringBoundary = []string{"", "a", "b", "aa", "ab", "a\x00", "B", "\xff", "é", "z"}

// enumWide is the deterministic boundary grid of C20.wide.
func enumWide(shard, shards int, tier string, yield func(Wide) bool) {
	k := 0
	stop := false
	emit := func(c Wide) {
		if stop {
			return
		}
		mine := k%shards == shard
		k++
		if mine && !yield(c) {
			stop = true
		}
	}
	for _, wt := range wideTypes {
		if stop {
			return
		}
		switch wt.kind {
		case "int", "float":
			var dense, sparse []uint64
			if wt.kind == "int" {
				dense, sparse = wt.intBoundary(true), wt.intBoundary(false)
			} else {
				dense, sparse = floatBoundary(wt.bits, true), floatBoundary(wt.bits, false)
			}
			few := sparse
			if len(few) > 8 {
				few = few[:8]
			}
			for _, fn := range fnsOf(wt.kind) {
				lo, hi := argRange(fn)
				if lo == 0 {
					emit(Wide{Fn: fn, Type: wt.name})
				}
				if lo <= 1 {
					for _, a := range dense {
						emit(Wide{Fn: fn, Type: wt.name, Bits: []uint64{a}})
					}
				}
				if lo <= 2 && hi >= 2 {
					for _, a := range sparse {
						for _, b := range sparse {
							emit(Wide{Fn: fn, Type: wt.name, Bits: []uint64{a, b}})
						}
					}
				}
				if fn == "Clamp" {
					for _, v := range sparse {
						for _, a := range few {
							for _, b := range few {
								if wt.cmpBits(a, b) <= 0 {
									emit(Wide{Fn: fn, Type: wt.name, Bits: []uint64{v, a, b}})
								}
							}
						}
					}
				} else if hi >= 3 {
					for _, a := range few {
						for _, b := range few {
							for _, cc := range few {
								emit(Wide{Fn: fn, Type: wt.name, Bits: []uint64{a, b, cc}})
							}
						}
					}
				}
			}
		case "complex":
			parts := []float64{0, 1, -1, 0.5, math.Inf(1), -2, 3}
			if wt.bits == 64 {
				parts = append(parts, math.MaxFloat32)
			} else {
				parts = append(parts, math.MaxFloat64)
			}
			enc := func(f float64) uint64 {
				if wt.bits == 64 {
					return uint64(math.Float32bits(float32(f)))
				}
				return math.Float64bits(f)
			}
			var vals [][2]uint64
			for _, re := range parts {
				for _, im := range parts {
					vals = append(vals, [2]uint64{enc(re), enc(im)})
				}
			}
			for _, fn := range complexFns {
				emit(Wide{Fn: fn, Type: wt.name})
				for _, a := range vals {
					emit(Wide{Fn: fn, Type: wt.name, Bits: []uint64{a[0], a[1]}})
					for _, b := range vals {
						emit(Wide{Fn: fn, Type: wt.name, Bits: []uint64{a[0], a[1], b[0], b[1]}})
					}
				}
			}
		case "string":
			for _, fn := range stringFns {
				lo, hi := argRange(fn)
				if lo <= 1 {
					for _, a := range stringBoundary {
						emit(Wide{Fn: fn, Type: wt.name, Strs: []string{a}})
					}
				}
				if lo <= 2 && hi >= 2 {
					for _, a := range stringBoundary {
						for _, b := range stringBoundary {
							emit(Wide{Fn: fn, Type: wt.name, Strs: []string{a, b}})
						}
					}
				}
				if fn == "Clamp" {
					for _, v := range stringBoundary {
						for _, a := range stringBoundary {
							for _, b := range stringBoundary {
								if bytes.Compare([]byte(a), []byte(b)) <= 0 {
									emit(Wide{Fn: fn, Type: wt.name, Strs: []string{v, a, b}})
								}
							}
						}
					}
				}
			}
		}
	}
}

// ---------------------------------------------------------------- rapid generator

func (w *wtype) genInt(t *rapid.T, prev []uint64) uint64 {
	m := w.mask()
	mode := rapid.IntRange(0, 11).Draw(t, "mode")
	switch {
	case mode <= 1: // at or next to an extreme
		d := uint64(rapid.IntRange(0, 2).Draw(t, "d"))
		if rapid.Bool().Draw(t, "hi") {
			return (w.maxBits() - d) & m
		}
		return (w.minBits() + d) & m
	case mode <= 5: // +-10^k + {-1,0,1}
		p := pow10u(rapid.IntRange(0, w.maxPow10()).Draw(t, "k"))
		if w.signed && rapid.Bool().Draw(t, "neg") {
			p = -p
		}
		d := uint64(int64(rapid.IntRange(-1, 1).Draw(t, "d")))
		return (p + d) & m
	case mode == 6: // small
		return uint64(int64(rapid.IntRange(-3, 3).Draw(t, "small"))) & m
	case mode == 7: // 2^k + {-1,0,1}
		p := uint64(1) << uint(rapid.IntRange(0, w.bits-1).Draw(t, "k2"))
		return (p + uint64(int64(rapid.IntRange(-1, 1).Draw(t, "d")))) & m
	case mode <= 9 || len(prev) == 0: // any value
		return rapid.Uint64().Draw(t, "bits") & m
	default: // equal or adjacent to an earlier argument
		p := prev[rapid.IntRange(0, len(prev)-1).Draw(t, "of")]
		return (p + uint64(int64(rapid.IntRange(-1, 1).Draw(t, "d")))) & m
	}
}

func encFloat(width int, f float64) uint64 {
	if width == 32 {
		return uint64(math.Float32bits(float32(f)))
	}
	return math.Float64bits(f)
}

func genFloatBits(t *rapid.T, width int, prev []uint64) uint64 {
	mode := rapid.IntRange(0, 11).Draw(t, "mode")
	switch {
	case mode <= 3: // a boundary value
		set := floatDense[width]
		return set[rapid.IntRange(0, len(set)-1).Draw(t, "special")]
	case mode == 4: // small integers and halves
		return encFloat(width, float64(rapid.IntRange(-8, 8).Draw(t, "half"))/2)
	case mode == 5: // fractions around [0,1]
		return encFloat(width, float64(rapid.IntRange(-200, 1200).Draw(t, "frac"))/1000)
	case mode == 6: // +-10^k and its neighbours
		kmax := 308
		if width == 32 {
			kmax = 38
		}
		p := math.Pow10(rapid.IntRange(-kmax, kmax).Draw(t, "k"))
		if rapid.Bool().Draw(t, "neg") {
			p = -p
		}
		b := encFloat(width, p)
		ulp := uint64(int64(rapid.IntRange(-1, 1).Draw(t, "ulp")))
		if b<<1 == 0 || (width == 32 && b<<33 == 0) {
			return b // underflowed to +-0: no neighbours by bit arithmetic
		}
		// neighbouring representable values: +-1 on the bit pattern (finite, non-zero, not the largest finite value)
		b += ulp
		if width == 32 {
			b &= 0xffffffff
		}
		return b
	case mode <= 9 || len(prev) == 0: // any non-NaN bit pattern
		b := rapid.Uint64().Draw(t, "bits")
		if width == 32 {
			b &= 0xffffffff
			if b&0x7f800000 == 0x7f800000 {
				b &^= 0x007fffff // exponent all ones: make it an infinity
			}
		} else if b&0x7ff0000000000000 == 0x7ff0000000000000 {
			b &^= 0x000fffffffffffff
		}
		return b
	default: // an earlier argument again
		return prev[rapid.IntRange(0, len(prev)-1).Draw(t, "of")]
	}
}

var stringAlphabet = []rune{'a', 'b', 'B', 'z', 0, 0xff, 'é', '0'}

func genString(t *rapid.T, prev []string) string {
	mode := rapid.IntRange(0, 9).Draw(t, "mode")
	switch {
	case mode == 0:
		return ""
	case mode <= 2 && len(prev) > 0: // an earlier argument, or an extension / truncation of it
		p := prev[rapid.IntRange(0, len(prev)-1).Draw(t, "of")]
		switch rapid.IntRange(0, 2).Draw(t, "how") {
		case 0:
			return p
		case 1:
			return p + string(stringAlphabet[rapid.IntRange(0, len(stringAlphabet)-1).Draw(t, "ext")])
		default:
			if len(p) > 0 {
				return p[:rapid.IntRange(0, len(p)-1).Draw(t, "cut")] // may cut inside a rune: strings are byte sequences
			}
			return p
		}
	case mode <= 4:
		return stringBoundary[rapid.IntRange(0, len(stringBoundary)-1).Draw(t, "known")]
	default:
		n := rapid.IntRange(1, 6).Draw(t, "len")
		var sb strings.Builder
		for i := 0; i < n; i++ {
			r := stringAlphabet[rapid.IntRange(0, len(stringAlphabet)-1).Draw(t, "ch")]
			if r == 0xff {
				sb.WriteByte(0xff)
			} else {
				sb.WriteRune(r)
			}
		}
		return sb.String()
	}
}

var wideTypeLottery = func() []*wtype {
	var out []*wtype
	for _, w := range wideTypes {
		for i := 0; i < w.weight; i++ {
			out = append(out, w)
		}
	}
	return out
}()

func genWide(t *rapid.T) Wide {
	wt := wideTypeLottery[rapid.IntRange(0, len(wideTypeLottery)-1).Draw(t, "type")]
	fns := fnsOf(wt.kind)
	fn := fns[rapid.IntRange(0, len(fns)-1).Draw(t, "fn")]
	lo, hi := argRange(fn)
	n := lo
	if hi > lo {
		n = rapid.IntRange(lo, hi).Draw(t, "n")
	}
	c := Wide{Fn: fn, Type: wt.name}
	switch wt.kind {
	case "int":
		for i := 0; i < n; i++ {
			c.Bits = append(c.Bits, wt.genInt(t, c.Bits))
		}
	case "float":
		for i := 0; i < n; i++ {
			c.Bits = append(c.Bits, genFloatBits(t, wt.bits, c.Bits))
		}
	case "complex":
		for i := 0; i < 2*n; i++ {
			c.Bits = append(c.Bits, genFloatBits(t, wt.bits/2, c.Bits))
		}
	case "string":
		for i := 0; i < n; i++ {
			c.Strs = append(c.Strs, genString(t, c.Strs))
		}
	}
	switch fn {
	case "Min", "Max", "Sum", "Product": // the variadic helpers: a quarter of the calls pass a window into a larger buffer
		c.View = genView(t, 4)
	}
	if fn == "Clamp" { // documented domain: lo <= hi (put the bounds in order)
		if wt.kind == "string" {
			if bytes.Compare([]byte(c.Strs[1]), []byte(c.Strs[2])) > 0 {
				c.Strs[1], c.Strs[2] = c.Strs[2], c.Strs[1]
			}
		} else if wt.cmpBits(c.Bits[1], c.Bits[2]) > 0 {
			c.Bits[1], c.Bits[2] = c.Bits[2], c.Bits[1]
		}
	}
	return c
}

var viewSpares = []int{0, 0, 1, 2, 3, 7, 8, 9, 31, 33}

// genView: nil in (oneIn-1)/oneIn of the draws, else a small window (0..3 elements before, 0..33 spare).
func genView(t *rapid.T, oneIn int) *View {
	if rapid.IntRange(0, oneIn-1).Draw(t, "view") != 0 {
		return nil
	}
	return &View{Off: rapid.IntRange(0, 3).Draw(t, "view-off"), Spare: viewSpares[rapid.IntRange(0, len(viewSpares)-1).Draw(t, "view-spare")]}
}

var specWide = pbt.Register(&pbt.Spec[Wide]{
	Property: "C20", Name: "C20.wide",
	Rule: "case = one call fn[type](args): Min/Max (1..6 args), Clamp (lo <= hi), Clamp01, Sum/Product (0..6 args), Abs, Compare, Less, Digits10, DigitsSign10 " +
		"at every integer type (int8..int64, int, uint8..uint64, uint, uintptr, named types), float32/float64 (+named), Sum/Product at complex64/complex128, " +
		"Min/Max/Clamp/Compare/Less at string (+named); the named types include methInt8/methInt64/methUint64/methFloat64/methString whose own IsZero/String/Less/Compare/Abs methods contradict the operators. First a deterministic boundary grid (all boundary singles: 0, +-1, +-2, +-10^k, +-10^k+-1, extremes and neighbours, " +
		"float +-0/+-Inf/+-Max/subnormals/10^k+-ulp; pairs and triples over a reduced boundary set), then rapid draws (boundary-dense, any bit pattern, " +
		"copies/neighbours of earlier arguments; NaN never generated). References: math/big exact arithmetic reduced modulo 2^bits, strconv and math/big decimal strings, " +
		"same-order IEEE loops in the concrete type, bytes.Compare; Min/Max judged by validity (an argument, <=/>= all). " +
		"A quarter of the drawn Min/Max/Sum/Product calls pass their arguments as s... where s is a window into a larger buffer (0..3 elements before, 0..33 elements of spare capacity after, " +
		"all poisoned with type extremes / +-Inf / \"\" and \"\\xff\\xff\\xff\" so that reading outside s[:len(s)] changes the result). One case in 16 is also run as 4 parallel independent copies. " +
		"non-trivial = some integer argument at or next to a type extreme or +-10^k; some float (part) that is +-0, +-Inf, +-Max, subnormal/smallest normal or within an ulp of +-10^k; " +
		"strings: an empty argument or two arguments where one is a prefix of (or equal to) the other",
	Enum: enumWide,
	Gen:  genWide,
	Run:  RunWide, Quick: 60000, Thorough: 400000,
	Replicas: 4, ReplicaEvery: 16,
})
