//go:build !386

package c20

import (
	"fmt"
	"strconv"

	typ "gopkg.in/typ.v4"
	"verifharness/internal/pbt"
)

// Block is a block case of the exhaustive sweeps: function Fn instantiated at
// integer type Type, evaluated for every first argument in [Lo,Hi) (values as
// mathematical integers). For 2-argument functions the second argument runs
// over the whole type, for 3-argument functions the second and third do
// (Clamp: only lo <= hi, the documented domain).
type Block struct {
	Fn   string `json:"fn"`
	Type string `json:"type"`
	Lo   int64  `json:"lo"`
	Hi   int64  `json:"hi"`
}

const ntRule = "one block in 8 is also run as 4 parallel independent copies; non-trivial evaluation = some argument is at or next to (distance <= 1) an extreme of its type or a power of ten +-10^k " +
	"(so 0, +-1, +-2, 9, 10, 11, ... count); block cases report the number of such evaluations inside the block (distinct by construction)"

var blockTypes = map[string]tinfo{
	"int8": {"int8", 8, true}, "uint8": {"uint8", 8, false},
	"int16": {"int16", 16, true}, "uint16": {"uint16", 16, false},
	"int32": {"int32", 32, true}, "uint32": {"uint32", 32, false},
	"myInt8": {"myInt8", 8, true}, "myUint8": {"myUint8", 8, false},
	"myInt16": {"myInt16", 16, true}, "myUint16": {"myUint16", 16, false},
	"methInt8": {"methInt8", 8, true}, // named type whose own methods contradict the operators
}

// ntCache holds ntPoints() of every block type (immutable after init).
var ntCache = func() map[string][]int64 {
	m := map[string][]int64{}
	for name, ti := range blockTypes {
		m[name] = ti.ntPoints()
	}
	return m
}()

var (
	fns1 = []string{"Abs", "Digits10", "DigitsSign10", "Clamp01", "Min1", "Max1", "Sum1", "Product1"}
	fns2 = []string{"Min2", "Max2", "Compare", "Less", "Sum2", "Product2"}
	fns3 = []string{"Clamp", "Min3", "Max3", "Sum3", "Product3"}
)

func arity(fn string) int {
	for _, f := range fns1 {
		if f == fn {
			return 1
		}
	}
	for _, f := range fns2 {
		if f == fn {
			return 2
		}
	}
	for _, f := range fns3 {
		if f == fn {
			return 3
		}
	}
	return 0
}

func RunBlock(c Block) pbt.Outcome {
	ti, ok := blockTypes[c.Type]
	if !ok || arity(c.Fn) == 0 || c.Lo < ti.min() || c.Hi > ti.max()+1 || c.Lo >= c.Hi {
		return pbt.Outcome{Skipped: true, Labels: []string{"malformed"}}
	}
	switch c.Type {
	case "int8":
		return blockT[int8](c, ti)
	case "uint8":
		return blockT[uint8](c, ti)
	case "int16":
		return blockT[int16](c, ti)
	case "uint16":
		return blockT[uint16](c, ti)
	case "int32":
		return blockT[int32](c, ti)
	case "uint32":
		return blockT[uint32](c, ti)
	case "myInt8":
		return blockT[myInt8](c, ti)
	case "myUint8":
		return blockT[myUint8](c, ti)
	case "myInt16":
		return blockT[myInt16](c, ti)
	case "myUint16":
		return blockT[myUint16](c, ti)
	case "methInt8":
		return blockT[methInt8](c, ti)
	}
	return pbt.Outcome{Skipped: true, Labels: []string{"malformed"}}
}

// wrap reduces the exact integer x modulo 2^bits into the range of the type.
func (t tinfo) wrap(x int64) int64 {
	m := int64(1) << t.bits
	r := ((x-t.min())%m+m)%m + t.min()
	return r
}

// decDigits is the reference for Digits10/DigitsSign10: the decimal string of
// the exact value, as produced by strconv; no negation is ever performed.
func decDigits(buf []byte, x int64) (digits, withSign int) {
	s := strconv.AppendInt(buf[:0], x, 10)
	if x < 0 {
		return len(s) - 1, len(s)
	}
	return len(s), len(s)
}

func blockT[T typ.Integer](c Block, ti tinfo) pbt.Outcome {
	out := pbt.Outcome{Labels: []string{"fn:" + c.Fn, "type:" + c.Type}}
	lo, hi := c.Lo, c.Hi
	tmin, tmax := ti.min(), ti.max()
	// the conversions T(i) below must be exact: guaranteed by the range check in RunBlock
	if int64(T(lo)) != lo || int64(T(hi-1)) != hi-1 {
		return pbt.Fail("harness error: %s cannot represent block [%d,%d)", c.Type, lo, hi)
	}
	if lo == tmin {
		out.Labels = append(out.Labels, "block:has-type-min")
	}
	if hi == tmax+1 {
		out.Labels = append(out.Labels, "block:has-type-max")
	}
	if lo <= 0 && 0 < hi {
		out.Labels = append(out.Labels, "block:has-zero")
	}
	fail := func(call string, got, want any, why string) pbt.Outcome {
		return pbt.Fail("typ.%s = %v, want %v (%s)", call, got, want, why)
	}
	var buf [24]byte
	var evals, nt int
	switch arity(c.Fn) {
	case 1:
		pts := 0
		for _, p := range ntCache[ti.name] {
			if p >= lo && p < hi {
				pts++
			}
		}
		nt = pts
		evals = int(hi - lo)
		if pts > 0 {
			out.Labels = append(out.Labels, "block:has-boundary")
		} else {
			out.Labels = append(out.Labels, "block:interior")
		}
		switch c.Fn {
		case "Digits10":
			for i := lo; i < hi; i++ {
				want, _ := decDigits(buf[:], i)
				if got := typ.Digits10(T(i)); got != want {
					return fail(fmt.Sprintf("Digits10(%s(%d))", c.Type, i), got, want, "number of decimal digits of |v| per strconv")
				}
			}
		case "DigitsSign10":
			for i := lo; i < hi; i++ {
				_, want := decDigits(buf[:], i)
				if got := typ.DigitsSign10(T(i)); got != want {
					return fail(fmt.Sprintf("DigitsSign10(%s(%d))", c.Type, i), got, want, "length of the decimal string per strconv")
				}
			}
		case "Abs":
			excluded := 0
			for i := lo; i < hi; i++ {
				want := i
				if want < 0 {
					want = -want
				}
				got := typ.Abs(T(i))
				if want > tmax { // magnitude of the signed minimum is not representable: excluded by the statement
					excluded++
					continue
				}
				if int64(got) != want {
					return fail(fmt.Sprintf("Abs(%s(%d))", c.Type, i), got, want, "magnitude")
				}
			}
			if excluded > 0 {
				out.Labels = append(out.Labels, "abs:signed-min-excluded")
				evals -= excluded
			}
		case "Clamp01":
			for i := lo; i < hi; i++ {
				want := i
				if want < 0 {
					want = 0
				}
				if want > 1 {
					want = 1
				}
				if got := typ.Clamp01(T(i)); int64(got) != want {
					return fail(fmt.Sprintf("Clamp01(%s(%d))", c.Type, i), got, want, "Clamp to [0,1]")
				}
			}
		case "Min1":
			for i := lo; i < hi; i++ {
				if got := typ.Min(T(i)); int64(got) != i {
					return fail(fmt.Sprintf("Min(%s(%d))", c.Type, i), got, i, "the only argument")
				}
			}
		case "Max1":
			for i := lo; i < hi; i++ {
				if got := typ.Max(T(i)); int64(got) != i {
					return fail(fmt.Sprintf("Max(%s(%d))", c.Type, i), got, i, "the only argument")
				}
			}
		case "Sum1":
			for i := lo; i < hi; i++ {
				if got := typ.Sum(T(i)); int64(got) != i {
					return fail(fmt.Sprintf("Sum(%s(%d))", c.Type, i), got, i, "0 + v")
				}
			}
		case "Product1":
			for i := lo; i < hi; i++ {
				if got := typ.Product(T(i)); int64(got) != i {
					return fail(fmt.Sprintf("Product(%s(%d))", c.Type, i), got, i, "1 * v")
				}
			}
		}
	case 2:
		for a := lo; a < hi; a++ {
			na := ti.isNT(a)
			for b := tmin; b <= tmax; b++ {
				evals++
				if na || ti.isNT(b) {
					nt++
				}
				x, y := T(a), T(b)
				switch c.Fn {
				case "Min2":
					want := a
					if b < a {
						want = b
					}
					if got := typ.Min(x, y); int64(got) != want {
						return fail(fmt.Sprintf("Min(%s(%d), %d)", c.Type, a, b), got, want, "an argument <= all the others")
					}
				case "Max2":
					want := a
					if b > a {
						want = b
					}
					if got := typ.Max(x, y); int64(got) != want {
						return fail(fmt.Sprintf("Max(%s(%d), %d)", c.Type, a, b), got, want, "an argument >= all the others")
					}
				case "Compare":
					want := 0
					if a < b {
						want = -1
					} else if a > b {
						want = 1
					}
					if got := typ.Compare(x, y); got != want {
						return fail(fmt.Sprintf("Compare(%s(%d), %d)", c.Type, a, b), got, want, "built-in < and >")
					}
				case "Less":
					if got := typ.Less(x, y); got != (a < b) {
						return fail(fmt.Sprintf("Less(%s(%d), %d)", c.Type, a, b), got, a < b, "built-in <")
					}
				case "Sum2":
					want := ti.wrap(a + b)
					if got := typ.Sum(x, y); int64(got) != want {
						return fail(fmt.Sprintf("Sum(%s(%d), %d)", c.Type, a, b), got, want, fmt.Sprintf("a+b modulo 2^%d", ti.bits))
					}
				case "Product2":
					want := ti.wrap(a * b)
					if got := typ.Product(x, y); int64(got) != want {
						return fail(fmt.Sprintf("Product(%s(%d), %d)", c.Type, a, b), got, want, fmt.Sprintf("a*b modulo 2^%d", ti.bits))
					}
				}
			}
		}
	case 3:
		if ti.bits != 8 {
			return pbt.Outcome{Skipped: true, Labels: []string{"malformed"}}
		}
		var ntab [256]bool
		for v := tmin; v <= tmax; v++ {
			ntab[v-tmin] = ti.isNT(v)
		}
		for a := lo; a < hi; a++ {
			na := ntab[a-tmin]
			x := T(a)
			for b := tmin; b <= tmax; b++ {
				nab := na || ntab[b-tmin]
				y := T(b)
				switch c.Fn {
				case "Clamp": // Clamp(v=a, lo=b, hi=cc) for every b <= cc
					for cc := b; cc <= tmax; cc++ {
						evals++
						if nab || ntab[cc-tmin] {
							nt++
						}
						want := a
						if a < b {
							want = b
						} else if a > cc {
							want = cc
						}
						if got := typ.Clamp(x, y, T(cc)); int64(got) != want {
							return fail(fmt.Sprintf("Clamp(%s(%d), %d, %d)", c.Type, a, b, cc), got, want, "v if lo <= v <= hi, else the nearer bound")
						}
					}
				case "Min3":
					for cc := tmin; cc <= tmax; cc++ {
						evals++
						if nab || ntab[cc-tmin] {
							nt++
						}
						want := a
						if b < want {
							want = b
						}
						if cc < want {
							want = cc
						}
						if got := typ.Min(x, y, T(cc)); int64(got) != want {
							return fail(fmt.Sprintf("Min(%s(%d), %d, %d)", c.Type, a, b, cc), got, want, "an argument <= all the others")
						}
					}
				case "Max3":
					for cc := tmin; cc <= tmax; cc++ {
						evals++
						if nab || ntab[cc-tmin] {
							nt++
						}
						want := a
						if b > want {
							want = b
						}
						if cc > want {
							want = cc
						}
						if got := typ.Max(x, y, T(cc)); int64(got) != want {
							return fail(fmt.Sprintf("Max(%s(%d), %d, %d)", c.Type, a, b, cc), got, want, "an argument >= all the others")
						}
					}
				case "Sum3":
					for cc := tmin; cc <= tmax; cc++ {
						evals++
						if nab || ntab[cc-tmin] {
							nt++
						}
						want := ti.wrap(a + b + cc)
						if got := typ.Sum(x, y, T(cc)); int64(got) != want {
							return fail(fmt.Sprintf("Sum(%s(%d), %d, %d)", c.Type, a, b, cc), got, want, "a+b+c modulo 2^8")
						}
					}
				case "Product3":
					for cc := tmin; cc <= tmax; cc++ {
						evals++
						if nab || ntab[cc-tmin] {
							nt++
						}
						want := ti.wrap(a * b * cc)
						if got := typ.Product(x, y, T(cc)); int64(got) != want {
							return fail(fmt.Sprintf("Product(%s(%d), %d, %d)", c.Type, a, b, cc), got, want, "a*b*c modulo 2^8")
						}
					}
				}
			}
		}
	}
	out.Evals = evals
	out.NTCount = nt
	return out
}

// enumBlocks yields the blocks of size step covering the whole range of every
// listed type for every listed function; block number k goes to shard k mod shards.
func enumBlocks(types, fns []string, step int64, keep func(ti tinfo, lo, hi int64) bool, shard, shards int, yield func(Block) bool) {
	k := 0
	for _, tn := range types {
		ti := blockTypes[tn]
		for _, fn := range fns {
			for lo := ti.min(); lo <= ti.max(); lo += step {
				hi := lo + step
				if hi > ti.max()+1 {
					hi = ti.max() + 1
				}
				if keep != nil && !keep(ti, lo, hi) {
					continue
				}
				mine := k%shards == shard
				k++
				if mine && !yield(Block{Fn: fn, Type: tn, Lo: lo, Hi: hi}) {
					return
				}
			}
		}
	}
}

var specSingle = pbt.Register(&pbt.Spec[Block]{
	Property: "C20", Name: "C20.single",
	Rule: "exhaustive: Abs, Digits10, DigitsSign10, Clamp01 and 1-argument Min/Max/Sum/Product on every value of int8, uint8, int16, uint16 and of " +
		"named types myInt8, myUint8, myInt16, myUint16 and methInt8 (an int8 with IsZero/String/Less/Compare/Abs methods that contradict the operators) (blocks of 4096 values); references: strconv decimal string length, exact int64 arithmetic; " +
		"Abs of the signed minimum is excluded (not representable); " + ntRule,
	Enum: func(shard, shards int, tier string, yield func(Block) bool) {
		enumBlocks([]string{"int8", "uint8", "int16", "uint16", "myInt8", "myUint8", "myInt16", "myUint16", "methInt8"}, fns1, 4096, nil, shard, shards, yield)
	},
	Run: RunBlock, Exhaustive: true,
	Replicas: 4, ReplicaEvery: 8,
})

var specPairs = pbt.Register(&pbt.Spec[Block]{
	Property: "C20", Name: "C20.pairs",
	Rule: "exhaustive: 2-argument Min, Max, Compare, Less, Sum, Product on every pair of values of int8, uint8, myInt8, myUint8, methInt8 " +
		"(a block = 32 first arguments x all 256 second arguments); references: exact int64 arithmetic reduced modulo 2^8; " + ntRule,
	Enum: func(shard, shards int, tier string, yield func(Block) bool) {
		enumBlocks([]string{"int8", "uint8", "myInt8", "myUint8", "methInt8"}, fns2, 32, nil, shard, shards, yield)
	},
	Run: RunBlock, Exhaustive: true,
	Replicas: 4, ReplicaEvery: 8,
})

var specTriples = pbt.Register(&pbt.Spec[Block]{
	Property: "C20", Name: "C20.triples",
	Rule: "exhaustive: Clamp(v,lo,hi) on every triple with lo <= hi (the documented domain; triples with lo > hi are not evaluated) and 3-argument " +
		"Min, Max, Sum, Product on every triple of values of int8 and uint8 (a block = 8 first arguments x all second and third arguments); " +
		"references: definition by cases / exact int64 arithmetic reduced modulo 2^8; " + ntRule,
	Enum: func(shard, shards int, tier string, yield func(Block) bool) {
		enumBlocks([]string{"int8", "uint8"}, fns3, 8, nil, shard, shards, yield)
	},
	Run: RunBlock, Exhaustive: true,
	Replicas: 4, ReplicaEvery: 8,
})

var specSweep32 = pbt.Register(&pbt.Spec[Block]{
	Property: "C20", Name: "C20.sweep32",
	Rule: "exhaustive: Abs, Digits10, DigitsSign10, Clamp01 on int32 and uint32 in blocks of 65536 consecutive values; quick tier = every block that holds " +
		"a type extreme or a value +-10^k (+-1); thorough tier = all 65536 blocks of each type, i.e. all 2^32 values, split over the shards; " +
		"references as in C20.single; " + ntRule,
	Enum: func(shard, shards int, tier string, yield func(Block) bool) {
		var keep func(ti tinfo, lo, hi int64) bool
		if tier != "thorough" {
			keep = func(ti tinfo, lo, hi int64) bool {
				for _, p := range ntCache[ti.name] {
					if p >= lo && p < hi {
						return true
					}
				}
				return false
			}
		}
		enumBlocks([]string{"int32", "uint32"}, []string{"Abs", "Digits10", "DigitsSign10", "Clamp01"}, 65536, keep, shard, shards, yield)
	},
	Run: RunBlock, Exhaustive: true,
	Replicas: 4, ReplicaEvery: 8,
})
