//go:build !386

package c20

import (
	"fmt"
	"time"

	"verifharness/internal/pbt"
)

// Gap is two (three) calls of one helper on the same argument X separated by exactly Gap calls of the same helper
// on DIFFERENT data (X + (i+1)*Step, all distinct), then one call on Y: every single result is compared with the
// reference. Repeating one call (C20.repeat) re-stamps whatever scratch state the library keeps per function and
// hides a generation counter that wraps after 2^16 calls; a stretch of 2^16 - 1, 2^16 or 2^16 + 1 other calls does
// not. SleepMs > 0: the goroutine really sleeps that long after the first half of the stretch (state released or
// shrunk by the passage of wall-clock time).
type Gap struct {
	Helper  string `json:"helper"`
	X       int64  `json:"x"`
	Y       int64  `json:"y"`
	Step    int64  `json:"step"`
	Gap     int    `json:"gap"`
	SleepMs int    `json:"sleep_ms,omitempty"`
}

const maxGap = 1 << 18

func RunGap(c Gap) pbt.Outcome {
	h := firstHelperOf(c.Helper)
	if h == nil || c.Gap < 0 || c.Gap > maxGap || c.SleepMs < 0 || c.SleepMs > 6000 || c.Step == 0 {
		return malformed()
	}
	one := func(a int64, when string) string {
		call, want, do := h.prep(a)
		if got := do(); got != want {
			return fmt.Sprintf("%s = %s, want %s (%s)", call(), got, want, when)
		}
		return ""
	}
	if m := one(c.X, "the first call of the case"); m != "" {
		return pbt.Fail("%s", m)
	}
	for i := 0; i < c.Gap; i++ {
		if c.SleepMs > 0 && i == c.Gap/2 {
			time.Sleep(time.Duration(c.SleepMs) * time.Millisecond)
		}
		if m := one(c.X+int64(i+1)*c.Step, fmt.Sprintf("call #%d of a stretch of %d calls on different data", i+1, c.Gap)); m != "" {
			return pbt.Fail("%s", m)
		}
	}
	if c.SleepMs > 0 && c.Gap < 2 {
		time.Sleep(time.Duration(c.SleepMs) * time.Millisecond)
	}
	after := fmt.Sprintf("the same call was right at the start of the case; since then: %d calls of the same helper on different data", c.Gap)
	if c.SleepMs > 0 {
		after += fmt.Sprintf(" and a sleep of %d ms", c.SleepMs)
	}
	for rep := 0; rep < 2; rep++ {
		if m := one(c.X, after); m != "" {
			return pbt.Fail("%s", m)
		}
	}
	if m := one(c.Y, "after the stretch and the repeated first call"); m != "" {
		return pbt.Fail("%s", m)
	}
	labels := []string{"helper:" + c.Helper, fmt.Sprintf("gap:%d", c.Gap)}
	if c.SleepMs > 0 {
		labels = append(labels, fmt.Sprintf("sleep-ms:%d", c.SleepMs))
	}
	return pbt.Outcome{Labels: labels, NonTrivial: c.Gap >= 1<<16-1 || c.SleepMs >= 2000, Evals: c.Gap + 4}
}

var gapArgs = [][3]int64{{99, 100, 1}, {-128, 0, 7}, {1 << 32, -1, -3}}

func enumGap(shard, shards int, tier string, yield func(Gap) bool) {
	gaps := []int{1<<16 - 1, 1 << 16, 1<<16 + 1}
	if tier == "thorough" {
		gaps = append(gaps, 1<<8-1, 1<<8, 1<<15, 1<<17-1, 1<<17, 1<<17+1)
	}
	k := 0
	for hi, h := range firstHelpers {
		for gi, g := range gaps {
			a := gapArgs[(hi+gi)%len(gapArgs)]
			mine := k%shards == shard
			k++
			if mine && !yield(Gap{Helper: h.name, X: a[0], Y: a[1], Step: a[2], Gap: g}) {
				return
			}
		}
	}
}

var specGap = pbt.Register(&pbt.Spec[Gap]{
	Property: "C20", Name: "C20.gap",
	Rule: "enumerated: for each of 30 helper instantiations (the table of C20.first) a call on X, then a stretch of exactly 2^16-1, 2^16 or 2^16+1 (thorough also 2^8-1, 2^8, 2^15, 2^17-1, 2^17, 2^17+1) calls of the same helper on pairwise different " +
		"arguments X + i*step, then the call on X twice more and one on Y; every single result is compared with a strconv / built-in reference. Covers per-function scratch state with a 16-bit generation stamp (not re-stamped by the calls in between, " +
		"unlike the alternating repetition of C20.repeat). non-trivial = a stretch of at least 2^16-1 calls",
	Enum: enumGap, Run: RunGap, Exhaustive: true,
	Replicas: 4, ReplicaEvery: 8,
})

// C20.sleep: the same history with a real sleep in the middle.
func enumSleep(shard, shards int, tier string, yield func(Gap) bool) {
	ms := []int{2100}
	if tier == "thorough" {
		ms = append(ms, 5100)
	}
	// the helpers are spread over as many cases as there are shards x 2; the cases of one shard sleep one after another
	k := 0
	for _, m := range ms {
		for hi, h := range firstHelpers {
			mine := k%shards == shard
			k++
			// quick: one helper in six sleeps (every family is reached by rotation over the seeds of the gap table)
			if tier != "thorough" && hi%6 != 0 {
				continue
			}
			a := gapArgs[hi%len(gapArgs)]
			if mine && !yield(Gap{Helper: h.name, X: a[0], Y: a[1], Step: a[2], Gap: 64, SleepMs: m}) {
				return
			}
		}
	}
}

var specSleep = pbt.Register(&pbt.Spec[Gap]{
	Property: "C20", Name: "C20.sleep",
	Rule: "enumerated: the history of C20.gap (call on X, 64 calls on different data, X twice, Y) with a REAL sleep of 2.1 s (thorough: also 5.1 s) in the middle of the stretch, for one helper instantiation in six (thorough: all 30) - " +
		"state that the library releases or shrinks when wall-clock time has passed between two calls (time.Since(...) > 2 s). non-trivial = every case",
	Enum: enumSleep, Run: RunGap, Exhaustive: true,
	CaseCPU: time.Minute,
})
