//go:build !386

package c20

import (
	"errors"
	"fmt"
	"math"
	"reflect"
	"strings"
	"time"
	"unsafe"
)

// Element types of C20.special. Every type below has some characteristic that a
// shortcut inside a helper could trip over: methods whose answer disagrees with
// Go's own zero value or == (IsZero, String, Equal, Less, ...), pointer-receiver
// or wrongly-typed IsZero methods, promoted methods, interface-typed T, zero
// size, non-comparability, negative zero, big values.
//
// Each type comes with a small hand-written value table: for every value the
// table states whether it is Go's zero value of the type (goZero, cross-checked
// with == where the type is comparable) and what typ.IsZero must answer by its
// definition (isZero: the zero value, or a value whose dynamic type has an
// `IsZero() bool` method in its method set that answers true).

// ---- types with methods that "lie" (stamp and odd are declared in util_test.go)

// opt is an "optional" value: IsZero reports "unset", which is neither implied by nor implies the Go zero value.
type opt struct {
	set bool
	val int64
}

func (o opt) IsZero() bool     { return !o.set }
func (o opt) String() string   { return "opt" }
func (o opt) Equal(opt) bool   { return true }
func (o opt) Compare(opt) int  { return 0 }
func (o opt) GoString() string { return "opt{}" }

// evenInt is a named integer whose methods contradict the built-in operators.
type evenInt int64

func (e evenInt) IsZero() bool        { return e%2 == 0 }
func (e evenInt) String() string      { return "0" }
func (e evenInt) Less(evenInt) bool   { return false }
func (e evenInt) Equal(evenInt) bool  { return true }
func (e evenInt) Compare(evenInt) int { return 0 }
func (e evenInt) Abs() evenInt        { return 0 }

// label is a named string with methods.
type label string

func (l label) IsZero() bool   { return l == "none" }
func (l label) String() string { return "" }
func (l label) Len() int       { return 0 }

// ptrRecv has its IsZero on the pointer receiver: the value type does not have the
// method in its method set, the pointer type does. The method dereferences.
type ptrRecv struct{ N int64 }

func (p *ptrRecv) IsZero() bool { return p.N != 3 }

// wrongSig / wrongArgs have methods called IsZero that are not `IsZero() bool`.
type wrongSig struct{ N int64 }

func (wrongSig) IsZero() int { return 1 }

type wrongArgs struct{ N int64 }

func (wrongArgs) IsZero(bool) bool { return true }

// embed gets stamp's methods by promotion.
type embed struct {
	stamp
	X int64
}

// pairOfLiars holds liars in named fields: nothing is promoted.
type pairOfLiars struct {
	A stamp
	B opt
}

// unit is a zero-size type whose IsZero() denies being zero.
type unit struct{}

func (unit) IsZero() bool   { return false }
func (unit) String() string { return "unit" }

// liarErr is a zero-size error with an empty message.
type liarErr struct{}

func (liarErr) Error() string { return "" }

// nilText prints like a nil.
type nilText struct{ N int64 }

func (nilText) String() string { return "<nil>" }

// notCmp is a non-comparable struct (with an IsZero method that nothing may rely on).
type notCmp struct {
	S []int64
	N int64
}

func (notCmp) IsZero() bool { return true }

type otherType struct{ X int }

// ptrErr implements error, fmt.Stringer and IsZero() bool on the pointer receiver; all three are nil-safe, so a nil
// *ptrErr inside an interface is a perfectly usable, NON-nil interface value (err != nil is true for it).
type ptrErr struct{ msg string }

func (e *ptrErr) Error() string {
	if e == nil {
		return "<nil ptrErr>"
	}
	return e.msg
}
func (e *ptrErr) String() string { return e.Error() }
func (e *ptrErr) IsZero() bool   { return e == nil }

// nillable non-pointer kinds implementing error / fmt.Stringer: a nil map, slice, func or channel inside an interface
// is a non-nil interface as well. mapErr, sliceErr and funcErr are not comparable (== on two interfaces holding them panics).
type (
	mapErr   map[string]int64
	sliceErr []int64
	funcErr  func()
	chanErr  chan int
)

func (mapErr) Error() string    { return "mapErr" }
func (mapErr) String() string   { return "mapErr" }
func (sliceErr) Error() string  { return "sliceErr" }
func (sliceErr) String() string { return "sliceErr" }
func (funcErr) Error() string   { return "funcErr" }
func (chanErr) Error() string   { return "chanErr" }
func (chanErr) String() string  { return "chanErr" }

// 128-byte and just-above element types (sizes at which compilers and runtimes switch strategies)
type (
	arr128 [16]int64
	arr136 [17]int64
	rec128 struct {
		S string
		A [14]int64
	}
)

// fpair holds floats: a NaN inside makes the value unequal to everything, itself and the zero value included.
type fpair struct {
	F float64
	N int64
}

type bigArr [256]int64

type namedPtr[T any] *T

// ---- named numeric/string types with lying methods for the math helpers (C20.wide, C20.long, C20.single, C20.pairs)

type methInt8 int8

func (methInt8) IsZero() bool         { return true }
func (methInt8) String() string       { return "0" }
func (methInt8) Less(methInt8) bool   { return false }
func (methInt8) Compare(methInt8) int { return 0 }
func (methInt8) Abs() methInt8        { return 0 }

type methInt64 int64

func (methInt64) IsZero() bool          { return true }
func (methInt64) String() string        { return "0" }
func (methInt64) Less(methInt64) bool   { return false }
func (methInt64) Compare(methInt64) int { return 0 }
func (methInt64) Cmp(methInt64) int     { return 0 }
func (methInt64) Abs() methInt64        { return 0 }
func (methInt64) Neg() methInt64        { return 0 }

type methUint64 uint64

func (methUint64) IsZero() bool           { return true }
func (methUint64) String() string         { return "0" }
func (methUint64) Less(methUint64) bool   { return true }
func (methUint64) Compare(methUint64) int { return -1 }

type methFloat64 float64

func (methFloat64) IsZero() bool            { return true }
func (methFloat64) String() string          { return "NaN" }
func (methFloat64) Less(methFloat64) bool   { return false }
func (methFloat64) Compare(methFloat64) int { return 0 }
func (methFloat64) Abs() methFloat64        { return 0 }
func (methFloat64) IsNaN() bool             { return true }

type methString string

func (methString) IsZero() bool           { return true }
func (methString) String() string         { return "" }
func (methString) Len() int               { return 0 }
func (methString) Less(methString) bool   { return false }
func (methString) Compare(methString) int { return 0 }

// ---- value tables

type ent[T any] struct {
	v      T
	desc   string
	goZero bool // v is Go's zero value of T
	isZero bool // what typ.IsZero(v) is by definition
}

func e[T any](v T, desc string, goZero, isZero bool) ent[T] {
	return ent[T]{v: v, desc: desc, goZero: goZero, isZero: isZero}
}

func sameSlice(a, b []int64) bool {
	return (a == nil) == (b == nil) && len(a) == len(b) && cap(a) == cap(b) && unsafe.SliceData(a) == unsafe.SliceData(b)
}

func sameMap(a, b map[string]int64) bool {
	return (a == nil) == (b == nil) && len(a) == len(b) && reflect.ValueOf(a).Pointer() == reflect.ValueOf(b).Pointer()
}

func sameFunc(a, b func() int) bool {
	if a == nil || b == nil {
		return a == nil && b == nil
	}
	return a() == b()
}

// sameIface compares two interface values without ever panicking: dynamic types first, then == for comparable
// dynamic types and identity (nil-ness, length, data pointer) for slices, maps and funcs.
func sameIface(a, b any) bool {
	if a == nil || b == nil {
		return a == nil && b == nil
	}
	ta := reflect.TypeOf(a)
	if ta != reflect.TypeOf(b) {
		return false
	}
	va, vb := reflect.ValueOf(a), reflect.ValueOf(b)
	switch ta.Kind() {
	case reflect.Slice:
		return va.IsNil() == vb.IsNil() && va.Len() == vb.Len() && va.Pointer() == vb.Pointer()
	case reflect.Map, reflect.Func:
		return va.IsNil() == vb.IsNil() && va.Pointer() == vb.Pointer()
	case reflect.Struct:
		if !ta.Comparable() {
			x, y := a.(notCmp), b.(notCmp) // the only non-comparable struct in the tables
			return sameSlice(x.S, y.S) && x.N == y.N
		}
	}
	if x, ok := a.(float64); ok {
		return sameFloat(x, b.(float64))
	}
	return a == b
}

func buildSpecials() []*specialType {
	var l []*specialType
	const (
		Z = true  // is the zero value
		N = false // is not
	)

	// ---------------- comparable types whose methods disagree with == / the zero value
	addCmp(&l, &battery[stamp]{name: "stamp", printable: true, ents: func() []ent[stamp] {
		return []ent[stamp]{
			e(stamp{}, "stamp{0,0}", Z, true),
			e(stamp{0, 5}, "stamp{0,5} (non-zero, IsZero() true)", N, true),
			e(stamp{3, 0}, "stamp{3,0}", N, false),
			e(stamp{3, 5}, "stamp{3,5}", N, false),
		}
	}})
	addCmp(&l, &battery[odd]{name: "odd", printable: true, ents: func() []ent[odd] {
		return []ent[odd]{
			e(odd{0}, "odd{0} (zero value, IsZero() false)", Z, true),
			e(odd{7}, "odd{7} (non-zero, IsZero() true)", N, true),
			e(odd{3}, "odd{3}", N, false),
		}
	}})
	addCmp(&l, &battery[opt]{name: "opt", ents: func() []ent[opt] {
		return []ent[opt]{
			e(opt{}, "opt{unset,0}", Z, true),
			e(opt{false, 42}, "opt{unset,42} (non-zero, IsZero() true)", N, true),
			e(opt{true, 0}, "opt{set,0}", N, false),
			e(opt{true, 1}, "opt{set,1}", N, false),
		}
	}})
	addCmp(&l, &battery[evenInt]{name: "evenInt", ents: func() []ent[evenInt] {
		return []ent[evenInt]{
			e(evenInt(0), "evenInt(0)", Z, true),
			e(evenInt(2), "evenInt(2) (non-zero, IsZero() true)", N, true),
			e(evenInt(3), "evenInt(3)", N, false),
			e(evenInt(-4), "evenInt(-4) (non-zero, IsZero() true)", N, true),
			e(evenInt(math.MinInt64), "evenInt(MinInt64) (non-zero, IsZero() true)", N, true),
			e(evenInt(math.MaxInt64), "evenInt(MaxInt64)", N, false),
		}
	}})
	addCmp(&l, &battery[label]{name: "label", ents: func() []ent[label] {
		return []ent[label]{
			e(label(""), `label("")`, Z, true),
			e(label("none"), `label("none") (non-zero, IsZero() true)`, N, true),
			e(label("x"), `label("x")`, N, false),
			e(label("\x00"), `label("\x00")`, N, false),
		}
	}})
	addCmp(&l, &battery[ptrRecv]{name: "ptrRecv", printable: true, ents: func() []ent[ptrRecv] {
		return []ent[ptrRecv]{
			e(ptrRecv{0}, "ptrRecv{0}", Z, true),
			e(ptrRecv{5}, "ptrRecv{5} (IsZero is on the pointer receiver: not in the value's method set)", N, false),
			e(ptrRecv{3}, "ptrRecv{3}", N, false),
		}
	}})
	addCmp(&l, &battery[*ptrRecv]{name: "*ptrRecv", ents: func() []ent[*ptrRecv] {
		return []ent[*ptrRecv]{
			e((*ptrRecv)(nil), "(*ptrRecv)(nil)", Z, true),
			e(&ptrRecv{0}, "&ptrRecv{0} (non-nil, IsZero() true)", N, true),
			e(&ptrRecv{3}, "&ptrRecv{3} (IsZero() false)", N, false),
			e(&ptrRecv{5}, "&ptrRecv{5} (non-nil, IsZero() true)", N, true),
		}
	}})
	addCmp(&l, &battery[*stamp]{name: "*stamp", ents: func() []ent[*stamp] {
		return []ent[*stamp]{
			e((*stamp)(nil), "(*stamp)(nil) (value-receiver IsZero must not be called)", Z, true),
			e(&stamp{}, "&stamp{0,0} (non-nil, IsZero() true)", N, true),
			e(&stamp{0, 5}, "&stamp{0,5} (non-nil, IsZero() true)", N, true),
			e(&stamp{3, 0}, "&stamp{3,0}", N, false),
		}
	}})
	addCmp(&l, &battery[wrongSig]{name: "wrongSig", printable: true, ents: func() []ent[wrongSig] {
		return []ent[wrongSig]{
			e(wrongSig{0}, "wrongSig{0}", Z, true),
			e(wrongSig{5}, "wrongSig{5} (IsZero() int is not the method)", N, false),
		}
	}})
	addCmp(&l, &battery[wrongArgs]{name: "wrongArgs", printable: true, ents: func() []ent[wrongArgs] {
		return []ent[wrongArgs]{
			e(wrongArgs{0}, "wrongArgs{0}", Z, true),
			e(wrongArgs{5}, "wrongArgs{5} (IsZero(bool) bool is not the method)", N, false),
		}
	}})
	addCmp(&l, &battery[embed]{name: "embed", printable: true, ents: func() []ent[embed] {
		return []ent[embed]{
			e(embed{}, "embed{stamp{0,0},0}", Z, true),
			e(embed{stamp{}, 9}, "embed{stamp{0,0},9} (non-zero, promoted IsZero() true)", N, true),
			e(embed{stamp{1, 0}, 0}, "embed{stamp{1,0},0}", N, false),
			e(embed{stamp{0, 4}, 0}, "embed{stamp{0,4},0} (non-zero, promoted IsZero() true)", N, true),
		}
	}})
	addCmp(&l, &battery[pairOfLiars]{name: "pairOfLiars", ents: func() []ent[pairOfLiars] {
		return []ent[pairOfLiars]{
			e(pairOfLiars{}, "pairOfLiars{}", Z, true),
			e(pairOfLiars{stamp{0, 5}, opt{}}, "pairOfLiars{stamp{0,5},opt{}} (fields say IsZero, the struct has no method)", N, false),
			e(pairOfLiars{stamp{}, opt{false, 1}}, "pairOfLiars{stamp{},opt{unset,1}}", N, false),
		}
	}})
	addCmp(&l, &battery[[2]stamp]{name: "[2]stamp", printable: true, ents: func() []ent[[2]stamp] {
		return []ent[[2]stamp]{
			e([2]stamp{}, "[2]stamp{}", Z, true),
			e([2]stamp{{0, 5}, {}}, "[2]stamp{{0,5},{}} (elements say IsZero, the array has no method)", N, false),
			e([2]stamp{{}, {3, 0}}, "[2]stamp{{},{3,0}}", N, false),
		}
	}})
	addCmp(&l, &battery[time.Time]{name: "time.Time", ents: func() []ent[time.Time] {
		zone := time.FixedZone("X", 3600)
		return []ent[time.Time]{
			e(time.Time{}, "time.Time{}", Z, true),
			e(time.Time{}.In(zone), "time.Time{}.In(fixed zone) (non-zero, IsZero() true)", N, true),
			e(time.Time{}.Local(), "time.Time{}.Local() (non-zero, IsZero() true)", N, true),
			e(time.Unix(0, 0).UTC(), "time.Unix(0,0).UTC()", N, false),
			e(time.Unix(1700000000, 0).In(zone), "time.Unix(1700000000,0).In(fixed zone)", N, false),
		}
	}})
	addCmp(&l, &battery[time.Duration]{name: "time.Duration", ents: func() []ent[time.Duration] {
		return []ent[time.Duration]{
			e(time.Duration(0), "time.Duration(0)", Z, true),
			e(time.Duration(1), "time.Duration(1)", N, false),
			e(time.Duration(math.MinInt64), "time.Duration(MinInt64)", N, false),
		}
	}})

	// ---------------- plain comparable types: extremes, negative zero, tiny values, zero size, big values
	addCmp(&l, &battery[bool]{name: "bool", printable: true, ents: func() []ent[bool] {
		return []ent[bool]{e(false, "false", Z, true), e(true, "true", N, false)}
	}})
	addCmp(&l, &battery[int64]{name: "int64", printable: true, ents: func() []ent[int64] {
		return []ent[int64]{
			e(int64(0), "0", Z, true), e(int64(1), "1", N, false), e(int64(-1), "-1", N, false),
			e(int64(math.MinInt64), "MinInt64", N, false), e(int64(math.MaxInt64), "MaxInt64", N, false),
			e(int64(1)<<32, "1<<32 (low 32 bits zero)", N, false),
		}
	}})
	addCmp(&l, &battery[uint8]{name: "uint8", printable: true, ents: func() []ent[uint8] {
		return []ent[uint8]{e(uint8(0), "0", Z, true), e(uint8(1), "1", N, false), e(uint8(255), "255", N, false), e(uint8(128), "128", N, false)}
	}})
	addCmp(&l, &battery[uintptr]{name: "uintptr", printable: true, ents: func() []ent[uintptr] {
		return []ent[uintptr]{e(uintptr(0), "0", Z, true), e(uintptr(1), "1", N, false), e(^uintptr(0), "max", N, false)}
	}})
	addCmp(&l, &battery[float64]{name: "float64", printable: true, same: sameFloat, ents: func() []ent[float64] {
		return []ent[float64]{
			e(float64(0), "+0", Z, true),
			e(math.Copysign(0, -1), "-0 (== 0)", Z, true),
			e(math.SmallestNonzeroFloat64, "5e-324", N, false),
			e(-math.SmallestNonzeroFloat64, "-5e-324", N, false),
			e(1.5, "1.5", N, false),
			e(math.Inf(-1), "-Inf", N, false),
			e(math.NaN(), "NaN (!= 0, hence a non-zero value)", N, false),
		}
	}})
	addCmp(&l, &battery[fpair]{name: "fpair", same: func(a, b fpair) bool { return sameFloat(a.F, b.F) && a.N == b.N }, ents: func() []ent[fpair] {
		return []ent[fpair]{
			e(fpair{}, "fpair{0,0}", Z, true),
			e(fpair{math.Copysign(0, -1), 0}, "fpair{-0,0} (== the zero value)", Z, true),
			e(fpair{math.NaN(), 0}, "fpair{NaN,0} (!= the zero value and != itself)", N, false),
			e(fpair{math.NaN(), 4}, "fpair{NaN,4}", N, false),
			e(fpair{0, 4}, "fpair{0,4}", N, false),
		}
	}})
	addCmp(&l, &battery[float32]{name: "float32", printable: true, ents: func() []ent[float32] {
		return []ent[float32]{
			e(float32(0), "+0", Z, true),
			e(float32(math.Copysign(0, -1)), "-0 (== 0)", Z, true),
			e(float32(math.SmallestNonzeroFloat32), "1e-45", N, false),
			e(float32(1), "1", N, false),
		}
	}})
	addCmp(&l, &battery[complex128]{name: "complex128", printable: true, ents: func() []ent[complex128] {
		return []ent[complex128]{
			e(complex(0, 0), "(0+0i)", Z, true),
			e(complex(math.Copysign(0, -1), 0), "(-0+0i) (== 0)", Z, true),
			e(complex(0, math.SmallestNonzeroFloat64), "(0+5e-324i)", N, false),
			e(complex(1, 0), "(1+0i)", N, false),
		}
	}})
	addCmp(&l, &battery[string]{name: "string", ents: func() []ent[string] {
		return []ent[string]{
			e("", `""`, Z, true),
			e("\x00", `"\x00"`, N, false),
			e(" ", `" "`, N, false),
			e("0", `"0"`, N, false),
			e(strings.Repeat("a", 5000), `5000 x "a"`, N, false),
			e(strings.Repeat("a", 4999)+"b", `4999 x "a" + "b"`, N, false),
		}
	}})
	addCmp(&l, &battery[myString]{name: "myString", ents: func() []ent[myString] {
		return []ent[myString]{e(myString(""), `myString("")`, Z, true), e(myString("a"), `myString("a")`, N, false), e(myString("nil"), `myString("nil")`, N, false)}
	}})
	addCmp(&l, &battery[pair]{name: "pair", printable: true, ents: func() []ent[pair] {
		return []ent[pair]{
			e(pair{}, `pair{0,""}`, Z, true), e(pair{0, "a"}, `pair{0,"a"}`, N, false), e(pair{1, ""}, `pair{1,""}`, N, false), e(pair{1, "a"}, `pair{1,"a"}`, N, false),
		}
	}})
	addCmp(&l, &battery[struct{}]{name: "struct{}", zeroSize: true, printable: true, ents: func() []ent[struct{}] {
		return []ent[struct{}]{e(struct{}{}, "struct{}{}", Z, true)}
	}})
	addCmp(&l, &battery[[0]int64]{name: "[0]int64", zeroSize: true, printable: true, ents: func() []ent[[0]int64] {
		return []ent[[0]int64]{e([0]int64{}, "[0]int64{}", Z, true)}
	}})
	addCmp(&l, &battery[unit]{name: "unit", zeroSize: true, ents: func() []ent[unit] {
		return []ent[unit]{e(unit{}, "unit{} (zero-size zero value, IsZero() false)", Z, true)}
	}})
	addCmp(&l, &battery[chan int]{name: "chan int", ents: func() []ent[chan int] {
		return []ent[chan int]{e((chan int)(nil), "nil channel", Z, true), e(make(chan int), "channel #1", N, false), e(make(chan int, 1), "channel #2", N, false)}
	}})
	addCmp(&l, &battery[*int64]{name: "*int64", ents: func() []ent[*int64] {
		a, b := int64(0), int64(7)
		return []ent[*int64]{e((*int64)(nil), "nil", Z, true), e(&a, "pointer to 0", N, false), e(&b, "pointer to 7", N, false)}
	}})
	addCmp(&l, &battery[**int64]{name: "**int64", ents: func() []ent[**int64] {
		var np *int64
		x := int64(0)
		px := &x
		return []ent[**int64]{e((**int64)(nil), "nil", Z, true), e(&np, "pointer to a nil pointer", N, false), e(&px, "pointer to a pointer to 0", N, false)}
	}})
	addCmp(&l, &battery[*struct{}]{name: "*struct{}", ents: func() []ent[*struct{}] {
		return []ent[*struct{}]{e((*struct{})(nil), "nil", Z, true), e(&struct{}{}, "&struct{}{}", N, false)}
	}})
	{
		b := &battery[bigArr]{name: "bigArr", ents: func() []ent[bigArr] {
			var last, first bigArr
			last[len(last)-1] = 1
			first[0] = -1
			return []ent[bigArr]{e(bigArr{}, "[256]int64{}", Z, true), e(last, "[256]int64{..., 255: 1}", N, false), e(first, "[256]int64{0: -1}", N, false)}
		}}
		addCmp(&l, b)
		l[len(l)-1].heavy = true
	}

	addCmp(&l, &battery[arr128]{name: "arr128", printable: true, ents: func() []ent[arr128] {
		return []ent[arr128]{e(arr128{}, "[16]int64{} (128 bytes)", Z, true), e(arr128{15: 1}, "[16]int64{15: 1}", N, false), e(arr128{0: -1}, "[16]int64{0: -1}", N, false), e(arr128{8: 1 << 32}, "[16]int64{8: 1<<32}", N, false)}
	}})
	addCmp(&l, &battery[arr136]{name: "arr136", printable: true, ents: func() []ent[arr136] {
		return []ent[arr136]{e(arr136{}, "[17]int64{} (136 bytes)", Z, true), e(arr136{16: 1}, "[17]int64{16: 1}", N, false), e(arr136{0: -1}, "[17]int64{0: -1}", N, false), e(arr136{15: 7}, "[17]int64{15: 7}", N, false)}
	}})
	addCmp(&l, &battery[rec128]{name: "rec128", ents: func() []ent[rec128] {
		return []ent[rec128]{
			e(rec128{}, "rec128{} (128 bytes: string + [14]int64)", Z, true),
			e(rec128{S: "a"}, `rec128{S:"a"}`, N, false),
			e(rec128{A: [14]int64{13: 1}}, "rec128{A:{13: 1}}", N, false),
			e(rec128{S: strings.Repeat("a", 200), A: [14]int64{0: 1}}, `rec128{S: 200 x "a", A:{0: 1}}`, N, false),
		}
	}})

	// ---------------- interface-typed T
	addCmp(&l, &battery[zeroer]{name: "zeroer", iface: true, ents: func() []ent[zeroer] {
		return []ent[zeroer]{
			e(zeroer(nil), "zeroer(nil)", Z, true),
			e(zeroer(stamp{}), "zeroer(stamp{0,0}) (non-nil, IsZero() true)", N, true),
			e(zeroer(stamp{0, 5}), "zeroer(stamp{0,5}) (non-nil, IsZero() true)", N, true),
			e(zeroer(stamp{3, 0}), "zeroer(stamp{3,0})", N, false),
			e(zeroer(odd{0}), "zeroer(odd{0}) (non-nil, IsZero() false)", N, false),
			e(zeroer(odd{7}), "zeroer(odd{7}) (non-nil, IsZero() true)", N, true),
			e(zeroer(&ptrRecv{3}), "zeroer(&ptrRecv{3}) (IsZero() false)", N, false),
			e(zeroer(&ptrRecv{0}), "zeroer(&ptrRecv{0}) (non-nil, IsZero() true)", N, true),
			e(zeroer(evenInt(0)), "zeroer(evenInt(0)) (non-nil, IsZero() true)", N, true),
			e(zeroer(evenInt(3)), "zeroer(evenInt(3))", N, false),
			e(zeroer(unit{}), "zeroer(unit{}) (non-nil, IsZero() false)", N, false),
			e(zeroer((*ptrErr)(nil)), "zeroer((*ptrErr)(nil)) (non-nil interface holding a nil pointer, nil-safe IsZero() true)", N, true),
			e(zeroer(&ptrErr{"x"}), `zeroer(&ptrErr{"x"}) (IsZero() false)`, N, false),
		}
	}})
	addCmp(&l, &battery[any]{name: "any", iface: true, same: sameIface, ents: func() []ent[any] {
		return []ent[any]{
			e(any(nil), "any(nil)", Z, true),
			e(any(int64(0)), "any(int64(0)) (non-nil interface holding a zero)", N, false),
			e(any(""), `any("") (non-nil interface holding a zero)`, N, false),
			e(any(struct{}{}), "any(struct{}{}) (non-nil interface holding a zero)", N, false),
			e(any(false), "any(false) (non-nil interface holding a zero)", N, false),
			e(any(stamp{0, 5}), "any(stamp{0,5}) (non-nil, IsZero() true)", N, true),
			e(any(stamp{}), "any(stamp{0,0}) (non-nil, IsZero() true)", N, true),
			e(any(opt{false, 42}), "any(opt{unset,42}) (non-nil, IsZero() true)", N, true),
			e(any(odd{0}), "any(odd{0}) (non-nil, IsZero() false)", N, false),
			e(any(int64(7)), "any(int64(7))", N, false),
			e(any(pair{}), "any(pair{}) (non-nil interface holding a zero)", N, false),
			e(any((*int64)(nil)), "any((*int64)(nil)) (non-nil interface holding a nil pointer)", N, false),
			e(any((*struct{})(nil)), "any((*struct{})(nil)) (non-nil interface holding a nil pointer to a zero-size type)", N, false),
			e(any(namedPtr[int64](nil)), "any(namedPtr[int64](nil)) (non-nil interface holding a nil named pointer)", N, false),
			e(any((**int64)(nil)), "any((**int64)(nil)) (non-nil interface holding a nil pointer to a pointer)", N, false),
			e(any(new(*int64)), "any(pointer to a nil *int64)", N, false),
			e(any((*ptrErr)(nil)), "any((*ptrErr)(nil)) (non-nil interface holding a nil pointer, nil-safe IsZero() true)", N, true),
			e(any((chan int)(nil)), "any((chan int)(nil)) (non-nil interface holding a nil channel)", N, false),
			e(any(unsafe.Pointer(nil)), "any(unsafe.Pointer(nil)) (non-nil interface holding a nil unsafe.Pointer)", N, false),
			e(any(error((*ptrErr)(nil))), "any(error((*ptrErr)(nil))) (an error holding a nil pointer, converted to any)", N, true),
			e(any(math.NaN()), "any(NaN) (non-nil; == itself is false)", N, false),
		}
	}})
	addCmp(&l, &battery[any]{name: "any(uncomparable)", iface: true, same: sameIface, ents: func() []ent[any] {
		return []ent[any]{
			e(any(nil), "any(nil)", Z, true),
			e(any([]int64(nil)), "any([]int64(nil)) (non-nil interface holding a nil slice)", N, false),
			e(any([]int64{}), "any([]int64{})", N, false),
			e(any(map[string]int64(nil)), "any(map[string]int64(nil)) (non-nil interface holding a nil map)", N, false),
			e(any((func() int)(nil)), "any((func() int)(nil)) (non-nil interface holding a nil func)", N, false),
			e(any(sliceErr(nil)), "any(sliceErr(nil)) (non-nil interface holding a nil slice with methods)", N, false),
			e(any(notCmp{}), "any(notCmp{}) (non-comparable struct, IsZero() true)", N, true),
			e(any(int64(7)), "any(int64(7))", N, false),
			e(any((*int64)(nil)), "any((*int64)(nil)) (non-nil interface holding a nil pointer)", N, false),
		}
	}})
	addCmp(&l, &battery[fmt.Stringer]{name: "fmt.Stringer", iface: true, ents: func() []ent[fmt.Stringer] {
		return []ent[fmt.Stringer]{
			e(fmt.Stringer(nil), "fmt.Stringer(nil)", Z, true),
			e(fmt.Stringer(stamp{}), "fmt.Stringer(stamp{0,0}) (non-nil, IsZero() true)", N, true),
			e(fmt.Stringer(stamp{3, 0}), "fmt.Stringer(stamp{3,0})", N, false),
			e(fmt.Stringer(nilText{0}), `fmt.Stringer(nilText{0}) (prints "<nil>")`, N, false),
			e(fmt.Stringer(label("")), `fmt.Stringer(label("")) (non-nil, IsZero() false)`, N, false),
			e(fmt.Stringer(label("none")), `fmt.Stringer(label("none")) (non-nil, IsZero() true)`, N, true),
			e(fmt.Stringer(time.Duration(0)), "fmt.Stringer(time.Duration(0))", N, false),
			e(fmt.Stringer(evenInt(0)), "fmt.Stringer(evenInt(0)) (non-nil, IsZero() true)", N, true),
			e(fmt.Stringer((*ptrErr)(nil)), "fmt.Stringer((*ptrErr)(nil)) (non-nil interface holding a nil pointer, nil-safe IsZero() true)", N, true),
			e(fmt.Stringer(chanErr(nil)), "fmt.Stringer(chanErr(nil)) (non-nil interface holding a nil channel)", N, false),
		}
	}})
	addCmp(&l, &battery[error]{name: "error", iface: true, ents: func() []ent[error] {
		return []ent[error]{
			e(error(nil), "error(nil)", Z, true),
			e(error(liarErr{}), `error(liarErr{}) (zero-size, message "")`, N, false),
			e(errors.New(""), `errors.New("")`, N, false),
			e(errors.New("x"), `errors.New("x")`, N, false),
			e(error((*ptrErr)(nil)), "error((*ptrErr)(nil)) (non-nil error holding a nil pointer, nil-safe IsZero() true)", N, true),
			e(error(&ptrErr{"x"}), `error(&ptrErr{"x"})`, N, false),
			e(error(chanErr(nil)), "error(chanErr(nil)) (non-nil error holding a nil channel)", N, false),
		}
	}})
	addCmp(&l, &battery[error]{name: "error(uncomparable)", iface: true, same: func(a, b error) bool { return sameIface(a, b) }, ents: func() []ent[error] {
		return []ent[error]{
			e(error(nil), "error(nil)", Z, true),
			e(error(sliceErr(nil)), "error(sliceErr(nil)) (non-nil error holding a nil slice)", N, false),
			e(error(mapErr(nil)), "error(mapErr(nil)) (non-nil error holding a nil map)", N, false),
			e(error(funcErr(nil)), "error(funcErr(nil)) (non-nil error holding a nil func)", N, false),
			e(error(sliceErr{1}), "error(sliceErr{1})", N, false),
			e(error((*ptrErr)(nil)), "error((*ptrErr)(nil)) (non-nil error holding a nil pointer, nil-safe IsZero() true)", N, true),
		}
	}})

	// ---------------- non-comparable T (Zero, ZeroOf, Tern, TernCast, Ref, DerefZero only)
	addAny(&l, &battery[[]int64]{name: "[]int64", same: sameSlice, ents: func() []ent[[]int64] {
		backing := []int64{1, 2, 3}
		return []ent[[]int64]{
			e([]int64(nil), "nil slice", Z, true),
			e([]int64{}, "empty non-nil slice", N, false),
			e(backing[:2], "slice {1,2} with spare capacity", N, false),
			e(backing[:3], "slice {1,2,3} over the same array", N, false),
			e(backing[1:1], "empty slice inside an array", N, false),
		}
	}})
	addAny(&l, &battery[map[string]int64]{name: "map[string]int64", same: sameMap, ents: func() []ent[map[string]int64] {
		return []ent[map[string]int64]{
			e(map[string]int64(nil), "nil map", Z, true),
			e(map[string]int64{}, "empty non-nil map", N, false),
			e(map[string]int64{"a": 1}, "map {a:1}", N, false),
		}
	}})
	addAny(&l, &battery[func() int]{name: "func() int", same: sameFunc, ents: func() []ent[func() int] {
		return []ent[func() int]{
			e((func() int)(nil), "nil func", Z, true),
			e(func() int { return 1 }, "func #1", N, false),
			e(func() int { return 2 }, "func #2", N, false),
		}
	}})
	addAny(&l, &battery[notCmp]{name: "notCmp", same: func(a, b notCmp) bool { return sameSlice(a.S, b.S) && a.N == b.N }, ents: func() []ent[notCmp] {
		s := []int64{4}
		return []ent[notCmp]{
			e(notCmp{}, "notCmp{nil,0}", Z, true),
			e(notCmp{nil, 3}, "notCmp{nil,3}", N, false),
			e(notCmp{s, 0}, "notCmp{{4},0}", N, false),
			e(notCmp{[]int64{}, 0}, "notCmp{{},0}", N, false),
		}
	}})
	return l
}
